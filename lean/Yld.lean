import Yld.Model.Term
import Yld.Model.Gen
import Yld.Model.Body
import Yld.Model.Engine
import Yld.Model.Sexp
import Yld.Model.Codec
import Yld.Model.Api
import Yld.Model.Driver
