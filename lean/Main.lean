import Yld.Model.Driver
open Yld

partial def loop (h : IO.FS.Stream) (out : IO.FS.Stream) : IO Unit := do
  let line ← h.getLine
  if line.isEmpty then return ()
  let l := line.trimAscii.toString
  if l.isEmpty then loop h out else
  out.putStrLn (handleLine l)
  out.flush
  loop h out

def main : IO Unit := do
  loop (← IO.getStdin) (← IO.getStdout)
