/-
  A semantics of the Python subset the code generator emits, in the same push style as the rest
  of the model: statements, one-element `for`, `for` over a generator call, `if` on a flag,
  `break`, `return`, `yield`, assignments of `True`/`False` to flag variables.

  This is a model of CPython, not of yldprolog: it is what gives the emitted *text* (tie T1
  compares that text with `Emit`) a meaning that does not go through the compiler's IR. Theorem B
  (`Yld.Proofs.PyCorrect`) proves that the statements `stmtsOfCode` prints for a piece of IR run,
  under this semantics, exactly as `exec` runs the IR — i.e. that the `doBreak` / `cutIf<n>` flag
  protocol implements the IR's structured exits.

  What is modelled of Python:
  * a generator frame has local variables; the flag variables hold booleans (`PyFlags`), the
    variables that hold terms are the clause environment `Env` (never assigned inside a body);
  * `for x in [e]: B` runs B once; `break` inside B ends the loop, normally;
  * `for x in g(...): B` runs B at each `yield` of the generator; `break`/`return` inside B, or an
    exception passing through B, abandon the generator (it is closed: its `finally` clauses run —
    that is what the callee does when its consumer answers with a signal); local variables
    assigned in B keep their values from one iteration to the next and after the loop;
  * `yield` hands control to the consumer; if the consumer abandons this generator (close, drop,
    exception thrown in), the frame is left at once (there is no `try` in emitted code);
  * reading a flag that was never assigned raises (`UnboundLocalError`).
  The callee of a loop cannot see the caller's local variables: in the push-style encoding the
  caller's flags travel through the callee in `World.py` (`push`/`pop`), and "cannot see" is the
  hypothesis `FrameLocal` of Theorem B.
-/
import Yld.Model.Emit
namespace Yld

abbrev PyFlags := List (String × Bool)

def PyFlags.get (σ : PyFlags) (x : String) : Option Bool := σ.lookup x
def PyFlags.set (σ : PyFlags) (x : String) (v : Bool) : PyFlags := (x, v) :: σ

/-- The local variables of one generator frame: those that hold terms, and the flags. -/
abbrev PyLoc := Env × PyFlags

/-- How a statement (list) ends. -/
inductive Ctl where
  | norm              -- fell through
  | brk               -- `break` looking for the innermost loop
  | ret               -- `return`
  | sig (s : Sig)     -- the frame is being left: the consumer abandoned it at a `yield`, or a callee raised
deriving Repr, Inhabited, DecidableEq

def World.push (σ : PyLoc) (w : World) : World := { w with py := σ :: w.py }
def World.pop (w : World) : PyLoc × World := (w.py.headD ([], []), { w with py := w.py.tail })

@[simp] theorem World.pop_push (σ : PyLoc) (w : World) : (w.push σ).pop = (σ, w) := rfl

/-- The loop body executed `break`: the private reason with which a `for` loop abandons the
    generator it iterates over. -/
def pyBreak : Sig := .brk 0

mutual
/-- The term constructors of the engine API, applied to constants, local variables and each other. -/
def evalExpr (env : Env) : PExpr → Option Term
  | .name v => if v = "ATOM_NIL" then some (.atom "[]") else some (env.get v)
  | .int n => some (.int n)
  | .call f args =>
      if f = "atom" then
        match args with
        | [.str s] => some (.atom s)
        | _ => none
      else if f = "functor" then
        match args with
        | [.str g, .list as] => (evalExprs env as).map (.fn g)
        | _ => none
      else if f = "makelist" then
        match args with
        | [.list items] => (evalExprs env items).map mkList
        | _ => none
      else if f = "listpair" then
        match args with
        | [h, t] => do
            let h' ← evalExpr env h
            let t' ← evalExpr env t
            pure (.fn "." [h', t'])
        | _ => none
      else none
  | _ => none
def evalExprs (env : Env) : List PExpr → Option (List Term)
  | [] => some []
  | e :: es => do
      let t ← evalExpr env e
      let ts ← evalExprs env es
      pure (t :: ts)
end

def unsupported : Sig := .exn "UnsupportedPython"

abbrev PyR := PyLoc × World × Ctl

/-! ### Outcome combinators (named, so that lemmas can speak about them) -/

/-- the next statement runs when this one fell through -/
def seqPy (f : PyLoc → World → PyR) (r : PyR) : PyR :=
  match r with
  | (σ', w', .norm) => f σ' w'
  | r => r

/-- `if flag:` -/
def ifFlag (b : Option Bool) (thenR : PyR) (σ : PyLoc) (w : World) : PyR :=
  match b with
  | some true => thenR
  | some false => (σ, w, .norm)
  | none => (σ, w, .sig (.exn "UnboundLocalError"))

/-- at a `yield`: the consumer's answer -/
def yieldPy (σ : PyLoc) (r : R) : PyR :=
  match r with
  | (w', none) => (σ, w', .norm)
  | (w', some s) => (σ, w', .sig s)

/-- a loop ends, normally, when its body executes `break` -/
def catchBreak (r : PyR) : PyR :=
  match r with
  | (σ', w', .brk) => (σ', w', .norm)
  | r => r

/-- what the body of a `for` loop over a generator tells the generator: go on, or the reason
    for abandoning it; the frame's locals are put back where they travel -/
def bodyAnswer (r : PyR) : R :=
  match r with
  | (σ2, w2, .norm) => (w2.push σ2, none)
  | (σ2, w2, .brk) => (w2.push σ2, some pyBreak)
  | (σ2, w2, .ret) => (w2.push σ2, some .ret)
  | (σ2, w2, .sig s) => (w2.push σ2, some s)

/-- after the loop: `break` ended just the loop, `return` and foreign reasons go on -/
def loopEnd (r : R) : PyR :=
  match r.2 with
  | none => (r.1.pop.1, r.1.pop.2, .norm)
  | some s =>
      if s = pyBreak then (r.1.pop.1, r.1.pop.2, .norm)
      else if s = .ret then (r.1.pop.1, r.1.pop.2, .ret)
      else (r.1.pop.1, r.1.pop.2, .sig s)

/-- `x = <expr>` -/
def assignPy (x : String) (e : PExpr) (σ : PyLoc) (w : World) : PyR :=
  match e with
  | .tru => ((σ.1, σ.2.set x true), w, .norm)
  | .fls => ((σ.1, σ.2.set x false), w, .norm)
  | .name y => (((x, Env.get σ.1 y) :: σ.1, σ.2), w, .norm)
  | .call f args =>
      if f = "variable" ∧ args = [] then
        (((x, .var w.fresh.1) :: σ.1, σ.2), w.fresh.2, .norm)
      else (σ, w, .sig unsupported)
  | _ => (σ, w, .sig unsupported)

@[simp] theorem seqPy_norm (f : PyLoc → World → PyR) (σ : PyLoc) (w : World) : seqPy f (σ, w, .norm) = f σ w := rfl
@[simp] theorem seqPy_brk (f : PyLoc → World → PyR) (σ : PyLoc) (w : World) : seqPy f (σ, w, .brk) = (σ, w, .brk) := rfl
@[simp] theorem seqPy_ret (f : PyLoc → World → PyR) (σ : PyLoc) (w : World) : seqPy f (σ, w, .ret) = (σ, w, .ret) := rfl
@[simp] theorem seqPy_sig (f : PyLoc → World → PyR) (σ : PyLoc) (w : World) (s : Sig) : seqPy f (σ, w, .sig s) = (σ, w, .sig s) := rfl
@[simp] theorem ifFlag_true (t : PyR) (σ : PyLoc) (w : World) : ifFlag (some true) t σ w = t := rfl
@[simp] theorem ifFlag_false (t : PyR) (σ : PyLoc) (w : World) : ifFlag (some false) t σ w = (σ, w, .norm) := rfl
@[simp] theorem yieldPy_none (σ : PyLoc) (w : World) : yieldPy σ (w, none) = (σ, w, .norm) := rfl
@[simp] theorem yieldPy_some (σ : PyLoc) (w : World) (s : Sig) : yieldPy σ (w, some s) = (σ, w, .sig s) := rfl
@[simp] theorem catchBreak_brk (σ : PyLoc) (w : World) : catchBreak (σ, w, .brk) = (σ, w, .norm) := rfl
@[simp] theorem catchBreak_norm (σ : PyLoc) (w : World) : catchBreak (σ, w, .norm) = (σ, w, .norm) := rfl
@[simp] theorem catchBreak_ret (σ : PyLoc) (w : World) : catchBreak (σ, w, .ret) = (σ, w, .ret) := rfl
@[simp] theorem catchBreak_sig (σ : PyLoc) (w : World) (s : Sig) : catchBreak (σ, w, .sig s) = (σ, w, .sig s) := rfl
@[simp] theorem bodyAnswer_norm (σ : PyLoc) (w : World) : bodyAnswer (σ, w, .norm) = (w.push σ, none) := rfl
@[simp] theorem bodyAnswer_brk (σ : PyLoc) (w : World) : bodyAnswer (σ, w, .brk) = (w.push σ, some pyBreak) := rfl
@[simp] theorem bodyAnswer_ret (σ : PyLoc) (w : World) : bodyAnswer (σ, w, .ret) = (w.push σ, some .ret) := rfl
@[simp] theorem bodyAnswer_sig (σ : PyLoc) (w : World) (s : Sig) : bodyAnswer (σ, w, .sig s) = (w.push σ, some s) := rfl
@[simp] theorem assignPy_tru (x : String) (σ : PyLoc) (w : World) : assignPy x .tru σ w = ((σ.1, σ.2.set x true), w, .norm) := rfl
@[simp] theorem assignPy_fls (x : String) (σ : PyLoc) (w : World) : assignPy x .fls σ w = ((σ.1, σ.2.set x false), w, .norm) := rfl
@[simp] theorem assignPy_name (x y : String) (σ : PyLoc) (w : World) :
    assignPy x (.name y) σ w = (((x, Env.get σ.1 y) :: σ.1, σ.2), w, .norm) := rfl

/-- The generator a `for` loop iterates over: `query(name, [args])` or `unify(a, b)`. -/
def loopGen (q : Q) (u : Term → Term → Gen) (env : Env) (f : String) (args : List PExpr) : Option Gen :=
  if f = "query" then
    match args with
    | [.str name, .list as] => (evalExprs env as).map fun ts => q name ts
    | _ => none
  else if f = "unify" then
    match args with
    | [a, b] => do
        let a' ← evalExpr env a
        let b' ← evalExpr env b
        pure (u a' b')
    | _ => none
  else none

mutual
def pyStmt (q : Q) (u : Term → Term → Gen) : PStmt → K → PyLoc → World → PyR
  | .assign x e, _, σ, w => assignPy x e σ w
  | .ifS c body, k, σ, w =>
      match c with
      | .fls => (σ, w, .norm)
      | .tru => pyStmts q u body k σ w
      | .name x => ifFlag (σ.2.get x) (pyStmts q u body k σ w) σ w
      | _ => (σ, w, .sig unsupported)
  | .yieldS _, k, σ, w => yieldPy σ (k w)
  | .returnS, _, σ, w => (σ, w, .ret)
  | .breakS, _, σ, w => (σ, w, .brk)
  | .passS, _, σ, w => (σ, w, .norm)
  | .defS _ _ _, _, σ, w => (σ, w, .sig unsupported)
  | .forIn _ it body, k, σ, w =>
      match it with
      | .list [_] => catchBreak (pyStmts q u body k σ w)
      | .call f args =>
          match loopGen q u σ.1 f args with
          | none => (σ, w, .sig unsupported)
          | some g =>
              -- the frame's locals travel through the callee in `World.py`
              loopEnd (g (fun w1 => bodyAnswer (pyStmts q u body k w1.pop.1 w1.pop.2)) (w.push σ))
      | _ => (σ, w, .sig unsupported)
def pyStmts (q : Q) (u : Term → Term → Gen) : List PStmt → K → PyLoc → World → PyR
  | [], _, σ, w => (σ, w, .norm)
  | s :: ss, k, σ, w => seqPy (fun σ' w' => pyStmts q u ss k σ' w') (pyStmt q u s k σ w)
end

/-- Leaving the generator function: it ends normally when its code falls off the end or executes
    `return`; the consumer's reason for abandoning it (which travelled through the frame as `up _`),
    or an exception raised inside it, is what the caller sees. -/
def leavePy (r : PyR) : R :=
  match r with
  | (_, w', .sig (.up s)) => (w', some s)
  | (_, w', .sig s) => (w', some s)
  | (_, w', _) => (w', none)

/-- Calling a generator function `def name(params): body` on `args` with consumer `k`. -/
def pyCall (q : Q) (u : Term → Term → Gen) (d : PStmt) (args : List Term) : Gen := fun k w =>
  match d with
  | .defS _ params body => leavePy (pyStmts q u body (wrapK k) (params.zip args, []) w)
  | _ => (w, some unsupported)

end Yld
