/-
  Running *arbitrary* programs of the emitted Python subset by the Python semantics of
  `Yld.Model.Py` — not only the programs the compiler prints. Used by the driver for the tie T2q:
  CPython and `Py.lean` must agree on generated programs of the subset (flags read before they are
  assigned, `break`/`return` out of nested loops over generators, yields inside one-element loops,
  consumers that stop), so that the Python semantics Theorem B rests on is validated beyond the
  shapes the compiler happens to produce. Nothing is proved about these definitions.
-/
import Yld.Model.Api
import Yld.Model.Codec
namespace Yld
open Sexp

partial def pexprOfSexp : Sexp → Option PExpr
  | .list [.sym "name", .str s] => some (.name s)
  | .list [.sym "str", .str s] => some (.str s)
  | .list [.sym "int", n] => (natOfSexp n).map .int
  | .sym "true" => some .tru
  | .sym "false" => some .fls
  | .list (.sym "call" :: .str f :: args) => (args.mapM pexprOfSexp).map (.call f)
  | .list (.sym "list" :: items) => (items.mapM pexprOfSexp).map .list
  | _ => none

partial def pstmtOfSexp : Sexp → Option PStmt
  | .list [.sym "assign", .str l, r] => (pexprOfSexp r).map (.assign l)
  | .list [.sym "for", .str v, it, .list body] => do
      pure (.forIn v (← pexprOfSexp it) (← body.mapM pstmtOfSexp))
  | .list [.sym "if", c, .list body] => do
      pure (.ifS (← pexprOfSexp c) (← body.mapM pstmtOfSexp))
  | .list [.sym "yield", e] => (pexprOfSexp e).map .yieldS
  | .list [.sym "return"] => some .returnS
  | .list [.sym "break"] => some .breakS
  | .list [.sym "pass"] => some .passS
  | .list [.sym "def", .str n, .list args, .list body] => do
      let ps ← args.mapM fun a => match a with | .str s => some s | _ => none
      pure (.defS n ps (← body.mapM pstmtOfSexp))
  | _ => none

/-- `YP.query` over a script given as Python function definitions: dynamic facts first, then the
    function `name_arity` of the script, run by `pyCall`; its own calls come back here. -/
def queryRaw (defs : List (String × PStmt)) : Nat → String → List Term → Gen
  | 0, _, _, _, w => (w, some .oof)
  | f+1, name, args, k, w =>
      match matchDynamic f name args k w with
      | (w1, none) =>
          match defs.lookup (predKey name args.length) with
          | some d => pyCall (queryRaw defs f) (unify f) d args k w1
          | none => (w1, none)
      | r => r

def Engine.queryRawTop (e : Engine) (defs : List (String × PStmt)) (fuel : Nat) (name : String) (args : List Term)
    (sched : Sched) : Engine × QueryResult :=
  let w0 := { e.w with acc := [] :: e.w.acc, cyc := false }
  let (w1, r) :=
    match sched with
    | .stop 0 => (w0, some Sig.stop)
    | .raise 0 => (w0, some (Sig.exn "ConsumerError"))
    | _ => queryRaw defs fuel name args (topConsumer fuel args sched) w0
  let answers := w1.acc.headD []
  let w2 := { w1 with acc := w1.acc.tail }
  ({ e with w := w2 }, { answers := answers, ending := r, bound := w2.boundCount, cyc := w2.cyc })

end Yld
