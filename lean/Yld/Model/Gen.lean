/-
  Python generators in push style, the world state, and unification.

  Model of: engine.py  unify, unify_arrays, Atom.unify, Variable.unify (try/finally),
  Functor.unify, YPSuccess, YPFail, builtin_eq; and of the generator protocol itself:
  `for x in g: body`, `yield from g`, close()/drop/exception = "run the pending finally blocks".

  A generator is a function of its consumer. The consumer is called at each `yield`
  and answers `none` ("resume") or `some s` ("abandon, for reason s"): the generator then
  runs its `finally` blocks and hands the same reason back.
-/
import Yld.Model.Term
namespace Yld

/-- Why a generator is being abandoned / what ended it abnormally. -/
inductive Sig where
  | ret                 -- `return` in generated code (cut)
  | brk (l : Nat)       -- `break` travelling to the breakable block `cutIf<l>`
  | commit (d : Nat)    -- reference semantics only: if-then-else at nesting level d commits
  | stop                -- the consumer closes or drops the generator
  | exn (e : String)    -- a Python exception (user predicate, consumer, YPException)
  | oof                 -- out of fuel: RecursionError
  | up (s : Sig)        -- a reason that belongs to an enclosing generator frame
deriving Repr, Inhabited, BEq, DecidableEq

/-- A stored dynamic fact: an `Answer` object. Its variables are private and numbered
    `0 … nvars-1`; `id` is the object identity (`c is clause`). -/
structure Fact where
  id : Nat
  nvars : Nat
  args : List Term
deriving Repr, Inhabited

/-- Everything mutable: variable cells, the allocation counter, the fact store
    (`stamp` numbers the `Answer` objects). -/
structure World where
  b : Bind := Bind.empty
  next : Nat := 0
  db : List ((String × Nat) × List Fact) := []
  stamp : Nat := 0
  /-- private state of consumers that collect (the list comprehension in `findall`,
      the top-level consumer of the driver): a stack of result lists -/
  acc : List (List Term) := []
  /-- ghost flag, never read by the model: some unification bound a variable to a term that
      contains it (no occurs check). Such runs are "unspecified" and are not compared. -/
  cyc : Bool := false
  /-- Python semantics of the emitted code only (`Yld.Model.Py`): the local variables (those that
      hold terms, and the flag variables `doBreak`, `cutIf<n>`) of the generator frames whose `for`
      loop is in progress, innermost first. A frame's locals are here while control is inside the
      generator the loop iterates over, and in the frame itself otherwise. The engine model never
      reads or writes this field. -/
  py : List (List (String × Term) × List (String × Bool)) := []
deriving Inhabited

abbrev R := World × Option Sig
/-- The consumer at a `yield`. -/
abbrev K := World → R
abbrev Gen := K → World → R

/-- `YPFail` / a generator that returns immediately. -/
def Gen.fail : Gen := fun _ w => (w, none)
/-- `YPSuccess` / `yield False` once. -/
def Gen.succeed : Gen := fun k w => k w
/-- A generator that raises. -/
def Gen.raise (s : Sig) : Gen := fun _ w => (w, some s)
/-- `itertools.chain(g1, g2)` / two loops one after the other. -/
def Gen.seq (g1 g2 : Gen) : Gen := fun k w =>
  match g1 k w with
  | (w', none) => g2 k w'
  | r => r
/-- `for _ in g1: yield from g2`. -/
def Gen.andThen (g1 g2 : Gen) : Gen := fun k w => g1 (fun w' => g2 k w') w

/-- `Variable.unify` on an unbound variable whose value is not itself:
    bind, yield inside try, unbind in finally — on resume, close and exception alike. -/
def bindGen (x : Nat) (t : Term) : Gen := fun k w =>
  let (w', r) := k { w with b := bind w.b x t }
  ({ w' with b := unbind w'.b x }, r)

/-- Depth to which the ghost check below dereferences: a constant, so that the ghost flag does not
    depend on the fuel of the run (fuel monotonicity, `Yld.Proofs.FuelMono`). -/
def cycFuel : Nat := 20000

/-- Ghost bookkeeping: remember that `x := t` created a cyclic term. -/
def markCyc (f : Nat) (x : Nat) (t : Term) (w : World) : World :=
  match resolve w.b f t with
  | some t' => if t'.vars.contains x then { w with cyc := true } else w
  | none => { w with cyc := true }

/-- `unify_arrays` after the length check: the sub-unifications are opened left to right and
    stay open until after the yield. -/
def unifyList (u : Term → Term → Gen) : List Term → List Term → Gen
  | [], [], k, w => k w
  | a :: as, b :: bs, k, w => u a b (fun w' => unifyList u as bs k w') w
  | _, _, _, w => (w, none)

/-- `unify(t1, t2)`. Fuel bounds the recursion depth. -/
def unify : Nat → Term → Term → Gen
  | 0, _, _, _, w => (w, some .oof)
  | f+1, t1, t2, k, w =>
    match walk w.b (f+1) t1, walk w.b (f+1) t2 with
    | some a1, some a2 =>
      match a1, a2 with
      | .var x, .var y => if x = y then k w else bindGen x (.var y) k w
      | .var x, t => bindGen x t k (markCyc cycFuel x t w)
      | t, .var y => bindGen y t k (markCyc cycFuel y t w)
      | .atom s, .atom s' => if s = s' then k w else (w, none)
      | .int i, .int j => if i = j then k w else (w, none)
      | .fn g as, .fn g' as' =>
          if g = g' ∧ as.length = as'.length then unifyList (unify f) as as' k w else (w, none)
      | _, _ => (w, none)
    | _, _ => (w, some .oof)

/-- Allocate a new `Variable()`. -/
def World.fresh (w : World) : Nat × World := (w.next, { w with next := w.next + 1 })

end Yld
