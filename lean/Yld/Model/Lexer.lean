/-
  The lexer of prolog.g4 as ANTLR runs it: at every position the longest match wins, ties go
  to the earliest rule, WS and COMMENT are skipped, and a position where no rule matches is an
  error (the repaired compiler raises on it).

  Model of: prolog.g4 token rules (implicit literals '.', ':-', '\+', ',', '->', ';', '(', ')',
  '/', '|'; TRUE, FAIL, CUT, VARIABLE, ATOM, NUMERAL, UNOP, BINOP, STRING, LBRACK, RBRACK, WS,
  COMMENT) and prologLexer.py generated from it (rule order checked against Generated.Tables).
-/
namespace Yld

inductive Tok where
  | dot | neck | naf | comma | arrow | semi | lparen | rparen | slash | bar
  | tru | fail | cut
  | var (s : String)
  | atom (s : String)
  | num (s : String)
  | unop (s : String)
  | binop (s : String)
  | str (raw : String)        -- the whole token text, quotes included
  | lbrack | rbrack
deriving Repr, Inhabited, BEq, DecidableEq

def isLower (c : Char) : Bool := 'a' ≤ c && c ≤ 'z'
def isUpper (c : Char) : Bool := 'A' ≤ c && c ≤ 'Z'
def isDigit (c : Char) : Bool := '0' ≤ c && c ≤ '9'
/-- fragment CHARACTER : LCLETTER | UCLETTER | DIGIT | '_'   (LCLETTER is `[a-z_]`) -/
def isIdChar (c : Char) : Bool := isLower c || isUpper c || isDigit c || c == '_'
def isWs (c : Char) : Bool := c == ' ' || c == '\t' || c == '\r' || c == '\n'

/-- STRING : '\'' ( ~'\'' | '\\' '\'' )* '\''  — longest match. `cs` starts after the opening
    quote; returns the length of the interior plus closing quote of the longest match.
    A quote can be passed over only when the character before it is a backslash that belongs to
    the interior. `prevBackslash` says whether the previous interior character was `\`;
    `best` is the last position at which the token could end. -/
def scanString : List Char → Nat → Bool → Option Nat → Option Nat
  | [], _, _, best => best
  | c :: cs, n, prevBackslash, best =>
      if c == '\'' then
        if prevBackslash then scanString cs (n+1) false (some (n+1))
        else some (n+1)
      else scanString cs (n+1) (c == '\\') best

/-- COMMENT : '%' .*? [\r\n]  — up to and including the first line break; `none` when there
    is none before the end of input. `cs` starts after the '%'. -/
def scanComment : List Char → Nat → Option Nat
  | [], _ => none
  | c :: cs, n => if c == '\n' || c == '\r' then some (n+1) else scanComment cs (n+1)

/-- One token (or skipped text) at the head of `cs`: `(token?, length)`; `none` = no rule matches. -/
def lexOne (cs : List Char) : Option (Option Tok × Nat) :=
  match cs with
  | [] => none
  | c :: rest =>
    if isWs c then some (none, 1)
    else if c == '%' then (scanComment rest 1).map fun n => (none, n)
    else if c == '\'' then
      (scanString rest 1 false none).map fun n => (some (.str (String.ofList (cs.take n))), n)
    else if isUpper c || c == '_' then
      let w := cs.takeWhile isIdChar
      some (some (.var (String.ofList w)), w.length)
    else if isLower c then
      let w := cs.takeWhile isIdChar
      let s := String.ofList w
      -- 'true' / 'fail' are earlier rules than ATOM and win the tie
      if s == "true" then some (some .tru, 4)
      else if s == "fail" then some (some .fail, 4)
      else some (some (.atom s), w.length)
    else if isDigit c then
      let w := cs.takeWhile isDigit
      some (some (.num (String.ofList w)), w.length)
    else match c, rest with
      | '.', _ => some (some .dot, 1)
      | ':', '-' :: _ => some (some .neck, 2)
      | '\\', '+' :: _ => some (some .naf, 2)
      | '\\', '=' :: '=' :: _ => some (some (.binop "\\=="), 3)
      | '\\', '=' :: _ => some (some (.binop "\\="), 2)
      | ',', _ => some (some .comma, 1)
      | '-', '>' :: _ => some (some .arrow, 2)
      | '-', _ => some (some (.unop "-"), 1)
      | '+', _ => some (some (.unop "+"), 1)
      | ';', _ => some (some .semi, 1)
      | '(', _ => some (some .lparen, 1)
      | ')', _ => some (some .rparen, 1)
      | '/', _ => some (some .slash, 1)
      | '|', _ => some (some .bar, 1)
      | '!', _ => some (some .cut, 1)
      | '[', _ => some (some .lbrack, 1)
      | ']', _ => some (some .rbrack, 1)
      | '=', '=' :: _ => some (some (.binop "=="), 2)
      | '=', '<' :: _ => some (some (.binop "=<"), 2)
      | '=', _ => some (some (.binop "="), 1)
      | '<', _ => some (some (.binop "<"), 1)
      | '>', '=' :: _ => some (some (.binop ">="), 2)
      | '>', _ => some (some (.binop ">"), 1)
      | _, _ => none

/-- The whole input. Fuel = number of characters + 1 is always enough (every step consumes ≥ 1). -/
def lexAll : Nat → List Char → List Tok → Option (List Tok)
  | _, [], acc => some acc.reverse
  | 0, _ :: _, _ => none
  | f+1, cs, acc =>
      match lexOne cs with
      | none => none
      | some (t, n) =>
          let acc := match t with | some t => t :: acc | none => acc
          lexAll f (cs.drop (max n 1)) acc

def lex (s : String) : Option (List Tok) := lexAll (s.length + 1) s.toList []

/-- The text of a token (for STRING the raw text). -/
def Tok.text : Tok → String
  | .dot => "." | .neck => ":-" | .naf => "\\+" | .comma => "," | .arrow => "->" | .semi => ";"
  | .lparen => "(" | .rparen => ")" | .slash => "/" | .bar => "|"
  | .tru => "true" | .fail => "fail" | .cut => "!"
  | .var s | .atom s | .num s | .unop s | .binop s | .str s => s
  | .lbrack => "[" | .rbrack => "]"

/-- The token type as prolog.g4 / prologLexer.py name it (literal tokens by their quoted text). -/
def Tok.kind : Tok → String
  | .dot => "'.'" | .neck => "':-'" | .naf => "'\\+'" | .comma => "','" | .arrow => "'->'" | .semi => "';'"
  | .lparen => "'('" | .rparen => "')'" | .slash => "'/'" | .bar => "'|'"
  | .tru => "TRUE" | .fail => "FAIL" | .cut => "CUT"
  | .var _ => "VARIABLE" | .atom _ => "ATOM" | .num _ => "NUMERAL" | .unop _ => "UNOP" | .binop _ => "BINOP"
  | .str _ => "STRING" | .lbrack => "LBRACK" | .rbrack => "RBRACK"

/-- `unquoteString`: drop the first and last character and every backslash in between. -/
def unquoteChars (raw : List Char) : List Char :=
  ((raw.drop 1).dropLast).filter (· != '\\')

def unquote (raw : String) : String := String.ofList (unquoteChars raw.toList)

end Yld
