/-
  The parser of prolog.g4 (as ANTLR's left-recursion rewriting reads it: precedence climbing,
  `,` tighter than `->` tighter than `;`, all right-associative, `\+` and UNOP tightest, BINOP
  left-associative) and the part of yp_prolog_visitor.py that turns the parse tree into the AST:
  visitProgram / visitClause / visitTermpredicate / visitTerm / visitAtom / visitVARIABLE
  (anonymous-variable numbering) / unquoteString, with the places where the front end raises.

  `frontend : String → Except FrontErr (List SClause)`.
-/
import Yld.Model.Lexer
import Yld.Model.Codec
namespace Yld

/-- Raw terms: what visitTerm returns, including the shapes that make later stages raise. -/
inductive RTerm where
  | atom (s : String)
  | num (s : String)
  | var (pyname : String)
  | fn (name : String) (nameIsNum : Bool) (args : List RTerm)
  | list (items : List RTerm)
  | lpair (h t : RTerm)
  | slash                      -- `ATOM '/' NUMERAL`: the visitor returns None
deriving Repr, Inhabited, BEq

inductive FrontErr where
  | lexical        -- token recognition error
  | syntax         -- parser error or leftover input
  | notCallable    -- CompilerError: head/goal is not a functor
  | reserved       -- CompilerError: $CUTIF
  | badHeadName    -- CompilerError: head name is not a Python identifier
  | crash          -- the pinned code raises AttributeError/TypeError on this shape
  | tooLarge       -- CompilerError: nesting limits
  | fuel
deriving Repr, Inhabited, BEq, DecidableEq

structure PS where
  anon : Nat := 0
deriving Repr, Inhabited

abbrev PR (α : Type) := Except FrontErr (α × List Tok × PS)

/-- `visitVARIABLE`. -/
def mkVar (name : String) (st : PS) : RTerm × PS :=
  if name == "_" then (.var ("x" ++ toString (st.anon + 1)), { st with anon := st.anon + 1 })
  else (.var ("V_" ++ name), st)

mutual
/-- term at precedence "primary or prefix": no BINOP absorbed (operand of UNOP / right operand). -/
def parsePrimary : Nat → List Tok → PS → PR RTerm
  | 0, _, _ => .error .fuel
  | f+1, toks, st =>
    match toks with
    -- ATOM '/' NUMERAL
    | .atom _ :: .slash :: .num _ :: rest => .ok (.slash, rest, st)
    -- functor: atom '(' termlist ')'
    | .atom s :: .lparen :: rest => parseArgs f rest st s false
    | .num s :: .lparen :: rest => parseArgs f rest st s true
    | .str raw :: .lparen :: rest => parseArgs f rest st (unquote raw) false
    | .atom s :: rest => .ok (.atom s, rest, st)
    | .num s :: rest => .ok (.num s, rest, st)
    | .str raw :: rest => .ok (.atom (unquote raw), rest, st)
    | .var s :: rest => let (v, st) := mkVar s st; .ok (v, rest, st)
    -- UNOP term
    | .unop o :: rest =>
        match parsePrimary f rest st with
        | .ok (t, rest, st) => .ok (.fn o false [t], rest, st)
        | .error e => .error e
    -- BINOP '(' term ',' term ')'
    | .binop o :: .lparen :: rest =>
        match parseTerm f rest st with
        | .ok (a, .comma :: rest, st) =>
            match parseTerm f rest st with
            | .ok (b, .rparen :: rest, st) => .ok (.fn o false [a, b], rest, st)
            | .ok _ => .error .syntax
            | .error e => .error e
        | .ok _ => .error .syntax
        | .error e => .error e
    -- '(' term ')'
    | .lparen :: rest =>
        match parseTerm f rest st with
        | .ok (t, .rparen :: rest, st) => .ok (t, rest, st)
        | .ok _ => .error .syntax
        | .error e => .error e
    -- lists
    | .lbrack :: .rbrack :: rest => .ok (.list [], rest, st)
    | .lbrack :: rest =>
        match parseTermList f rest st with
        | .ok (items, .rbrack :: rest, st) => .ok (.list items, rest, st)
        | .ok (items, .bar :: .var v :: .rbrack :: rest, st) =>
            let (tv, st) := mkVar v st
            .ok (items.foldr (fun h t => .lpair h t) tv, rest, st)
        -- `[ term ',' <empty termlist> '|' VARIABLE ]`: the grammar's termlist may be empty
        | .ok ([item], .comma :: .bar :: .var v :: .rbrack :: rest, st) =>
            let (tv, st) := mkVar v st
            .ok (.lpair item tv, rest, st)
        | .ok _ => .error .syntax
        | .error e => .error e
    | _ => .error .syntax
/-- `atom '(' termlist ')'` after the opening parenthesis. -/
def parseArgs : Nat → List Tok → PS → String → Bool → PR RTerm
  | 0, _, _, _, _ => .error .fuel
  | f+1, toks, st, name, isNum =>
    match toks with
    | .rparen :: rest => .ok (.fn name isNum [], rest, st)
    | _ =>
      match parseTermList f toks st with
      | .ok (args, .rparen :: rest, st) => .ok (.fn name isNum args, rest, st)
      | .ok _ => .error .syntax
      | .error e => .error e
/-- term ( ',' term )*  (non-empty). -/
def parseTermList : Nat → List Tok → PS → PR (List RTerm)
  | 0, _, _ => .error .fuel
  | f+1, toks, st =>
    match parseTerm f toks st with
    | .ok (t, .comma :: .bar :: rest, st) => .ok ([t], .comma :: .bar :: rest, st)
    | .ok (t, .comma :: rest, st) =>
        match parseTermList f rest st with
        | .ok (ts, rest, st) => .ok (t :: ts, rest, st)
        | .error e => .error e
    | .ok (t, rest, st) => .ok ([t], rest, st)
    | .error e => .error e
/-- term: primary ( BINOP primary )*, left-associative. -/
def parseTerm : Nat → List Tok → PS → PR RTerm
  | 0, _, _ => .error .fuel
  | f+1, toks, st =>
    match parsePrimary f toks st with
    | .ok (t, rest, st) => parseBinTail f t rest st
    | .error e => .error e
def parseBinTail : Nat → RTerm → List Tok → PS → PR RTerm
  | 0, _, _, _ => .error .fuel
  | f+1, lhs, toks, st =>
    match toks with
    | .binop o :: rest =>
        match parsePrimary f rest st with
        | .ok (rhs, rest, st) => parseBinTail f (.fn o false [lhs, rhs]) rest st
        | .error e => .error e
    | _ => .ok (lhs, toks, st)
end

mutual
/-- Can a raw term be compiled as data (clause position)? `none` = a later stage raises. -/
def RTerm.toSTerm : RTerm → Option STerm
  | .atom s => some (.atom s)
  | .num s => s.toNat?.map .num
  | .var v => some (.var v)
  | .fn n isNum args => (RTerm.toSTerms args).map (if isNum then .numfn n else .fn n)
  | .list items => (RTerm.toSTerms items).map .list
  | .lpair h t => do pure (.lpair (← h.toSTerm) (← t.toSTerm))
  | .slash => none
/-- `mapM toSTerm` (companion of `RTerm.toSTerm` on argument lists). -/
def RTerm.toSTerms : List RTerm → Option (List STerm)
  | [] => some []
  | t :: ts => do pure ((← t.toSTerm) :: (← RTerm.toSTerms ts))
end

/-- Goals before validation: what visitSimplepredicate returns. -/
inductive RGoal where
  | tru | fail | cut
  | term (t : RTerm)
deriving Repr, Inhabited

/-- Raw bodies. -/
inductive RBody where
  | goal (g : RGoal)
  | conj (a b : RBody) | disj (a b : RBody) | ite (a b : RBody) | neg (a : RBody)
deriving Repr, Inhabited

/-- simplepredicate : TRUE | FAIL | CUT | term -/
def parseGoal (f : Nat) (toks : List Tok) (st : PS) : PR RGoal :=
  match toks with
  | .tru :: rest => .ok (.tru, rest, st)
  | .fail :: rest => .ok (.fail, rest, st)
  | .cut :: rest => .ok (.cut, rest, st)
  | _ => match parseTerm f toks st with
    | .ok (t, rest, st) => .ok (.term t, rest, st)
    | .error e => .error e

def binPrec : Tok → Option Nat
  | .comma => some 4
  | .arrow => some 3
  | .semi => some 2
  | _ => none

/- ANTLR prefers the `simplepredicate` alternative over `'(' predicateexpression ')'` when both
   apply to a parenthesised text. Both give the same AST, so the model simply tries the term
   reading first and falls back to the body reading. -/
mutual
def parseBodyPrimary : Nat → List Tok → PS → PR RBody
  | 0, _, _ => .error .fuel
  | f+1, toks, st =>
    match toks with
    | .naf :: rest =>
        match parseBodyPrimary f rest st with
        | .ok (b, rest, st) => .ok (.neg b, rest, st)
        | .error e => .error e
    | .lparen :: rest =>
        -- first as a term in parentheses (possibly followed by BINOP ...), else as a body
        match parseGoal f toks st with
        | .ok (g, rest', st') =>
            -- the term reading must be followed by something a body can continue with
            match rest' with
            | .comma :: _ | .arrow :: _ | .semi :: _ | .rparen :: _ | .dot :: _ => .ok (.goal g, rest', st')
            | _ => parseParenBody f rest st
        | .error .fuel => .error .fuel
        | .error _ => parseParenBody f rest st
    | _ =>
        match parseGoal f toks st with
        | .ok (g, rest, st) => .ok (.goal g, rest, st)
        | .error e => .error e
def parseParenBody : Nat → List Tok → PS → PR RBody
  | 0, _, _ => .error .fuel
  | f+1, toks, st =>
    match parseBody f 0 toks st with
    | .ok (b, .rparen :: rest, st) => .ok (b, rest, st)
    | .ok _ => .error .syntax
    | .error e => .error e
/-- precedence climbing: `parseBody p` absorbs binary operators of precedence ≥ p. -/
def parseBody : Nat → Nat → List Tok → PS → PR RBody
  | 0, _, _, _ => .error .fuel
  | f+1, p, toks, st =>
    match parseBodyPrimary f toks st with
    | .ok (lhs, rest, st) => parseBodyTail f p lhs rest st
    | .error e => .error e
def parseBodyTail : Nat → Nat → RBody → List Tok → PS → PR RBody
  | 0, _, _, _, _ => .error .fuel
  | f+1, p, lhs, toks, st =>
    match toks with
    | op :: rest =>
      match binPrec op with
      | some q =>
        if q ≥ p then
          match parseBody f q rest st with
          | .ok (rhs, rest, st) =>
              let node := match op with
                | .comma => RBody.conj lhs rhs
                | .arrow => RBody.ite lhs rhs
                | _ => RBody.disj lhs rhs
              parseBodyTail f p node rest st
          | .error e => .error e
        else .ok (lhs, toks, st)
      | none => .ok (lhs, toks, st)
    | [] => .ok (lhs, toks, st)
end

/-- ASCII Python identifier (the model decides head names only for ASCII; see `headNameKind`). -/
def isAsciiIdent (s : String) : Bool :=
  match s.toList with
  | [] => false
  | c :: cs => (isLower c || isUpper c || c == '_') && cs.all isIdChar

inductive NameKind where | ok | bad | nonAscii
deriving Repr, BEq, DecidableEq

def headNameKind (s : String) : NameKind :=
  if s.toList.all (fun c => c.toNat < 128) then (if isAsciiIdent s then .ok else .bad) else .nonAscii

/-- `visitTermpredicate`: a goal term must be an atom or a functor; `$CUTIF` is reserved. -/
def goalOfTerm (t : RTerm) : Except FrontErr (String × Bool × List RTerm) :=
  match t with
  | .atom s => if s == "$CUTIF" then .error .reserved else .ok (s, false, [])
  | .fn n isNum args => if !isNum && n == "$CUTIF" then .error .reserved else .ok (n, isNum, args)
  | _ => .error .notCallable

/-- Body after the visitor and as far as the code generator accepts it. -/
def bodyOfRaw : RBody → Except FrontErr Body
  | .goal .tru => .ok .tru
  | .goal .fail => .ok .fail
  | .goal .cut => .ok .cut
  | .goal (.term t) => do
      let (n, isNum, args) ← goalOfTerm t
      match args.mapM RTerm.toSTerm with
      -- a goal named by a numeral: code cannot be built for it (all of it is one poisoned argument)
      | some as => .ok (if isNum then .call n [.numfn n as] else .call n as)
      | none => .error .crash
  | .conj a b => do pure (.conj (← bodyOfRaw a) (← bodyOfRaw b))
  | .disj a b => do pure (.disj (← bodyOfRaw a) (← bodyOfRaw b))
  | .ite a b => do pure (.ite (← bodyOfRaw a) (← bodyOfRaw b))
  | .neg a => do pure (.neg (← bodyOfRaw a))

/-- The visitor's checks on a body that happen even when the result is thrown away (directives
    run visitSimplepredicate; clause bodies are visited before the head name is checked). -/
def visitChecks : RBody → Except FrontErr Unit
  | .goal (.term t) => do let _ ← goalOfTerm t; pure ()
  | .goal _ => pure ()
  | .conj a b | .disj a b | .ite a b => do visitChecks a; visitChecks b
  | .neg a => visitChecks a

/-- One `clauseordirective`; returns the clause (if it is one). A flag tells whether the head
    name is non-ASCII (then the real check depends on the Unicode tables, which the model lacks). -/
def parseClause (f : Nat) (toks : List Tok) (st : PS) : PR (Option SClause × Bool) :=
  match toks with
  | .neck :: rest =>
      -- directive: ':-' simplepredicate '.'
      match parseGoal f rest st with
      | .ok (g, .dot :: rest, st) =>
          match visitChecks (.goal g) with
          | .ok _ => .ok ((none, false), rest, st)
          | .error e => .error e
      | .ok _ => .error .syntax
      | .error e => .error e
  | _ =>
      match parseGoal f toks st with
      | .ok (h, .dot :: rest, st) => finish h (.goal .tru) rest st
      | .ok (h, .neck :: rest, st) =>
          match parseBody f 0 rest st with
          | .ok (b, .dot :: rest, st) => finish h b rest st
          | .ok _ => .error .syntax
          | .error e => .error e
      | .ok _ => .error .syntax
      | .error e => .error e
where
  finish (h : RGoal) (b : RBody) (rest : List Tok) (st : PS) : PR (Option SClause × Bool) :=
    match h with
    | .term t =>
        -- visitClause: head (visitSimplepredicate), then body, then the head-name check
        match goalOfTerm t with
        | .error e => .error e
        | .ok (n, isNum, args) =>
          match visitChecks b with
          | .error e => .error e
          | .ok _ =>
            if isNum then .error .crash else
            match headNameKind n with
            | .bad => .error .badHeadName
            | kind =>
              match args.mapM RTerm.toSTerm, bodyOfRaw b with
              | some as, .ok body =>
                  .ok ((some { name := n, clause := { head := as, body := body } }, kind == .nonAscii), rest, st)
              | _, .error e => .error e
              | none, _ => .error .crash
    | _ =>
        -- a head that is true / fail / ! makes visitProgram raise (after the body was visited)
        match visitChecks b with
        | .error e => .error e
        | .ok _ => .error .crash

def parseProgram : Nat → List Tok → PS → List SClause → Bool → Except FrontErr (List SClause × Bool)
  | 0, _, _, _, _ => .error .fuel
  | _+1, [], _, acc, na => .ok (acc.reverse, na)
  | f+1, toks, st, acc, na =>
      match parseClause (4 * toks.length + 16) toks st with
      | .ok ((c, na'), rest, st) =>
          parseProgram f rest st (match c with | some c => c :: acc | none => acc) (na || na')
      | .error e => .error e

/-- Syntax only: one `clauseordirective`, ignoring what the visitor thinks of it. -/
def parseClauseSyn (f : Nat) (toks : List Tok) : Except FrontErr (List Tok) :=
  match toks with
  | .neck :: rest =>
      match parseGoal f rest {} with
      | .ok (_, .dot :: rest, _) => .ok rest
      | .ok _ => .error .syntax
      | .error e => .error e
  | _ =>
      match parseGoal f toks {} with
      | .ok (_, .dot :: rest, _) => .ok rest
      | .ok (_, .neck :: rest, _) =>
          match parseBody f 0 rest {} with
          | .ok (_, .dot :: rest, _) => .ok rest
          | .ok _ => .error .syntax
          | .error e => .error e
      | .ok _ => .error .syntax
      | .error e => .error e

def recogniseToks : Nat → List Tok → Bool
  | 0, _ => false
  | _+1, [] => true
  | f+1, toks =>
      match parseClauseSyn (4 * toks.length + 16) toks with
      | .ok rest => recogniseToks f rest
      | .error _ => false

/-- Is the text a sentence of the grammar (lexer + parser, no visitor)? -/
def recognise (s : String) : Bool :=
  match lex s with
  | none => false
  | some toks => recogniseToks (toks.length + 1) toks

/-- Lexer + parser + visitor. The Boolean says that some clause head has a non-ASCII name. -/
def frontend (s : String) : Except FrontErr (List SClause × Bool) :=
  match lex s with
  | none => .error .lexical
  | some toks => parseProgram (toks.length + 1) toks {} [] false

end Yld
