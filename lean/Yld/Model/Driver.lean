/-
  Line-protocol driver: evaluates the model's executable definitions on cases sent by the
  Python harness. One S-expression per input line, one per output line.
-/
import Yld.Model.Api
import Yld.Model.Parser
import Yld.Model.Emit
import Yld.Model.Cli
import Yld.Model.PyRaw
namespace Yld
open Sexp

def sexpOfSig : Option Sig → Sexp
  | none => .sym "done"
  | some .stop => .sym "stop"
  | some .oof => .sym "oof"
  | some (.exn e) => .list [.sym "exn", .str e]
  | some s => .list [.sym "sig", .str (reprStr s)]

def schedOfSexp : Sexp → Option Sched
  | .sym "all" => some .all
  | .list [.sym "stop", k] => (natOfSexp k).map .stop
  | .list [.sym "raise", k] => (natOfSexp k).map .raise
  | _ => none

def modeOfSexp : Sexp → Option Mode
  | .sym "compiled" => some .compiled
  | .sym "reference" => some .reference
  | .sym "refbody" => some .refbody
  | _ => none

def rowOfSexp (i : Nat) : Sexp → Option Fact
  | .list (nv :: ts) => do
      let n ← natOfSexp nv
      let args ← ts.mapM termOfSexp
      pure { id := i, nvars := n, args := args }
  | _ => none

def sexpOfResult (r : QueryResult) : Sexp :=
  .list ([.sym "q", .list (r.answers.map fun a => match a with
                            | .fn _ args => .list (args.map sexpOfTerm)
                            | t => sexpOfTerm t),
         sexpOfSig r.ending, .sym (toString r.bound)] ++ (if r.cyc then [.sym "cyclic"] else []))

/-- One API operation of a scenario. -/
def stepOp (mode : Mode) (fuel : Nat) (e : Engine) (pyTop : Bool := false) : Sexp → Engine × Sexp
  | .list (.sym "load" :: .sym ow :: cs) =>
      match cs.mapM sclauseOfSexp with
      | some cs => (e.load mode cs (ow == "overwrite"), .sym "ok")
      | none => (e, .sym "bad-op")
  | .list (.sym "loadfail" :: _) => (e, .sym "ok")      -- a load that raises changes nothing
  | .list [.sym "regpy", .str name, ar, .list rows, raiseAt] =>
      match (rows.zipIdx.mapM fun (r, i) => rowOfSexp i r) with
      | some rows =>
          let arity := natOfSexp ar
          (e.register name arity { rows := rows, raiseAt := natOfSexp raiseAt }, .sym "ok")
      | none => (e, .sym "bad-op")
  | .list (.sym "assert" :: .str name :: .sym app :: ts) =>
      match ts.mapM termOfSexp with
      | some ts =>
          let (e', r) := e.assertFact fuel name ts (app == "z")
          (e', match r with | none => .sym "ok" | s => sexpOfSig s)
      | none => (e, .sym "bad-op")
  | .list [.sym "clear"] => (e.clear, .sym "ok")
  | .list (.sym "query" :: .str name :: sched :: ts) =>
      match schedOfSexp sched, ts.mapM termOfSexp with
      | some sched, some ts =>
          let (e', r) := e.query mode fuel name ts sched pyTop
          (e', sexpOfResult r)
      | _, _ => (e, .sym "bad-op")
  | .list (.sym "eb" :: limit :: .str name :: raiseAt :: ts) =>
      match natOfSexp limit, ts.mapM termOfSexp with
      | some limit, some ts =>
          let (e', r) := e.evaluateBounded mode limit name ts (natOfSexp raiseAt) pyTop
          (e', sexpOfResult r)
      | _, _ => (e, .sym "bad-op")
  | _ => (e, .sym "bad-op")

def runScenario (mode : Mode) (fuel : Nat) (ops : List Sexp) (pyTop : Bool := false) : Sexp :=
  let (_, outs) := ops.foldl (fun (e, outs) op =>
    let (e', o) := stepOp mode fuel e pyTop op
    (e', outs ++ [o])) (({} : Engine), ([] : List Sexp))
  .list (.sym "results" :: outs)

/-- A scenario over a script given as Python function definitions (tie T2q). -/
def runRawScenario (fuel : Nat) (defs : List (String × PStmt)) (ops : List Sexp) : Sexp :=
  let (_, outs) := ops.foldl (fun (e, outs) op =>
    let (e', o) : Engine × Sexp := match op with
      | .list (.sym "query" :: .str name :: sched :: ts) =>
          match schedOfSexp sched, ts.mapM termOfSexp with
          | some sched, some ts =>
              let (e', r) := e.queryRawTop defs fuel name ts sched
              (e', sexpOfResult r)
          | _, _ => (e, .sym "bad-op")
      | op => stepOp .compiled fuel e false op
    (e', outs ++ [o])) (({} : Engine), ([] : List Sexp))
  .list (.sym "results" :: outs)

/-- `toPython` result as an S-expression. -/
partial def sexpOfPyVal : PyVal → Sexp
  | .none => .sym "None"
  | .str s => .str s
  | .int i => .list [.sym "int", .sym (toString i)]
  | .list xs => .list (.sym "list" :: xs.map sexpOfPyVal)
  | .tup n args => .list (.sym "tuple" :: .str n :: args.map sexpOfPyVal)
  | .err => .sym "error"

/-- Nested `for _ in unify(a1,b1): for _ in unify(a2,b2): …`; at the innermost yield the
    observed terms are resolved (canonically renamed) and converted with `toPython`. -/
def unifySeq (fuel : Nat) (pairs : List (Term × Term)) (watch : List Term) (sched : Sched) : Sexp :=
  let g : Gen := pairs.foldr (fun (a, b) g => fun k w => unify fuel a b (fun w' => g k w') w) Gen.succeed
  let w0 : World := { next := 1000, acc := [[]] }
  let (w1, r) := match sched with
    | .stop 0 => (w0, some Sig.stop)
    | _ => g (fun w =>
        match watch.mapM (resolve w.b fuel) with
        | none => (w, some .oof)
        | some vs =>
          let ans := Term.fn "$ans" (canonVars vs).1
          let py := Term.fn "$py" (vs.map fun v => Term.atom (Sexp.toString (sexpOfPyVal (toPython fuel v))))
          let w := { w with acc := [(w.acc.headD []) ++ [ans, py]] }
          match sched with
          | .all => (w, none)
          | .stop _ => (w, some .stop)
          | .raise _ => (w, some (.exn "ConsumerError"))) w0
  let outs := (w1.acc.headD []).map fun a => match a with
    | .fn "$ans" args => Sexp.list (.sym "ans" :: args.map sexpOfTerm)
    | .fn "$py" args => Sexp.list (.sym "py" :: args.map fun t => match t with | .atom s => (Sexp.parse s).getD (.sym "?") | _ => .sym "?")
    | t => sexpOfTerm t
  .list ([.sym "u", .list outs, sexpOfSig r, .sym (toString w1.boundCount)] ++ (if w1.cyc then [.sym "cyclic"] else []))

def sexpOfFrontErr (e : FrontErr) : Sexp := .list [.sym "error", .sym (reprStr e)]

def compileSClauses (cs : List SClause) : Sexp :=
  let prog := compileProgram (groupClauses cs)
  if programCrashes (groupClauses cs) then sexpOfFrontErr .crash
  else if tooLarge prog then sexpOfFrontErr .tooLarge
  else .list (.sym "ok" :: prog.map sexpOfPStmt)

def handle : Sexp → Sexp
  | .list (.sym "scenario" :: mode :: fuel :: ops) =>
      match modeOfSexp mode, natOfSexp fuel with
      | some m, some f => runScenario m f ops
      | none, some f => if mode == .sym "python" then runScenario .compiled f ops true else .sym "bad-op"
      | _, _ => .sym "bad-op"
  | .list (.sym "rawscenario" :: fuel :: .list defs :: ops) =>
      match natOfSexp fuel, defs.mapM pstmtOfSexp with
      | some f, some ds =>
          let named := ds.filterMap fun d => match d with | .defS n _ _ => some (n, d) | _ => none
          runRawScenario f named ops
      | _, _ => .sym "bad-op"
  | .list [.sym "unify", fuel, .list pairs, .list watch, sched] =>
      match natOfSexp fuel, pairs.mapM (fun p => match p with
                | .list [a, b] => do pure ((← termOfSexp a), (← termOfSexp b))
                | _ => none), watch.mapM termOfSexp, schedOfSexp sched with
      | some f, some ps, some ws, some sc => unifySeq f ps ws sc
      | _, _, _, _ => .sym "bad-op"
  | .list (.sym "compile" :: cs) =>
      match cs.mapM sclauseOfSexp with
      | some cs => compileSClauses cs
      | none => .sym "bad-op"
  | .list [.sym "front", .str text] =>
      match frontend text with
      | .ok (cs, na) => .list (.sym "ok" :: .sym (if na then "nonascii" else "ascii") :: cs.map sexpOfSClause)
      | .error e => sexpOfFrontErr e
  | .list [.sym "compiletext", .str text] =>
      match frontend text with
      | .ok (cs, na) =>
          match compileSClauses cs with
          | .list (.sym "ok" :: rest) => .list (.sym "ok" :: .sym (if na then "nonascii" else "ascii") :: rest)
          | e => e
      | .error e => sexpOfFrontErr e
  | .list [.sym "commentlines", .str msg] => .str (String.ofList (commentLines msg.toList))
  | .list [.sym "unquote", .str raw] => .str (unquote raw)
  | .list [.sym "recognise", .str text] => .sym (if recognise text then "yes" else "no")
  | .list [.sym "lex", .str text] =>
      match lex text with
      | some toks => .list (.sym "ok" :: toks.map fun t => .list [.str t.kind, .str t.text])
      | none => .list [.sym "error"]
  | .list [.sym "echo", x] => x
  | _ => .sym "bad-op"

def handleLine (line : String) : String :=
  match Sexp.parse line with
  | some x => Sexp.toString (handle x)
  | none => "bad-syntax"

end Yld
