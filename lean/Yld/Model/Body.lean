/-
  Source AST (what yp_prolog_visitor.py builds), the compiler's IR (the YPCode* classes),
  the model of `compile_body`, the semantics of the IR and the reference semantics of bodies.

  Model of: yp_prolog_visitor.py  (AST classes, `.variables`),
            yp_generator.py       (YPPrologCompiler.compile_body / compile_predicate /
                                   compile_expression / compile_list, the YPCode* IR).
-/
import Yld.Model.Gen
namespace Yld

/-- Source terms. `var` carries the name used in generated code (`V_<name>` or `x<k>`). -/
inductive STerm where
  | var (name : String)
  | atom (s : String)
  | num (n : Nat)
  | fn (f : String) (args : List STerm)
  | numfn (f : String) (args : List STerm)   -- `7(a)`: the grammar's `atom` includes NUMERAL; see `STerm.hasNumFn`
  | list (items : List STerm)
  | lpair (h t : STerm)
deriving Repr, Inhabited, BEq

/-- Clause bodies. `ite c t` is `IfThenPredicate` (`c -> t`); an if-then-else is
    `disj (ite c t) e`, exactly as the visitor builds it. `cutif l` is the compiler's internal
    `$CUTIF(l)` marker and never comes from source text. -/
inductive Body where
  | tru | fail | cut
  | call (name : String) (args : List STerm)
  | conj (a b : Body)
  | disj (a b : Body)
  | ite (c t : Body)
  | neg (a : Body)
  | cutif (l : Nat)
deriving Repr, Inhabited, BEq

/-- `.variables`: variable names left to right, with repetitions. -/
def STerm.vars : STerm → List String
  | .var n => [n]
  | .fn _ args => (args.attach.map fun ⟨a, _⟩ => a.vars).flatten
  | .numfn _ args => (args.attach.map fun ⟨a, _⟩ => a.vars).flatten
  | .list items => (items.attach.map fun ⟨a, _⟩ => a.vars).flatten
  | .lpair h t => h.vars ++ t.vars
  | _ => []

/-- A structure whose functor name is a numeral is accepted by the grammar and by the visitor; the
    clause compiler raises (AttributeError) at the moment it builds code for it, and only then: in
    a part of a body for which no code is built (`fail, p(7(a))`) it goes unnoticed. -/
def STerm.hasNumFn : STerm → Bool
  | .numfn _ _ => true
  | .fn _ args => args.attach.any fun ⟨a, _⟩ => a.hasNumFn
  | .list items => items.attach.any fun ⟨a, _⟩ => a.hasNumFn
  | .lpair h t => h.hasNumFn || t.hasNumFn
  | _ => false

def Body.vars : Body → List String
  | .call _ args => (args.map STerm.vars).flatten
  | .conj a b | .disj a b | .ite a b => a.vars ++ b.vars
  | .neg a => a.vars
  | _ => []

/-- Clause-local environment: Python local variable name ↦ engine term. -/
abbrev Env := List (String × Term)

def Env.get (env : Env) (n : String) : Term :=
  match env.lookup n with
  | some t => t
  | none => .atom "$unbound-local"      -- NameError in Python; never reached for compiled code

/-- The term the emitted constructor expression builds at run time
    (`atom(..)`, `functor(..,[..])`, integer constant, `makelist([..])`, `ATOM_NIL`, `listpair(..)`). -/
def STerm.eval (env : Env) : STerm → Term
  | .var n => env.get n
  | .atom s => .atom s
  | .num n => .int n
  | .fn f args => .fn f (args.attach.map fun ⟨a, _⟩ => a.eval env)
  | .numfn f args => .fn f (args.attach.map fun ⟨a, _⟩ => a.eval env)   -- never run: such code is never produced
  | .list items => mkList (items.attach.map fun ⟨a, _⟩ => a.eval env)
  | .lpair h t => .fn "." [h.eval env, t.eval env]

/-- The compiler's IR for clause bodies. -/
inductive Code where
  | foreach (name : String) (args : List STerm) (body : List Code)  -- for l in query(name,[args]): body
  | yieldF | yieldT
  | ret                                   -- YPCodeYieldBreak: `return`
  | block (l : Nat) (body : List Code)    -- YPCodeBreakableBlock
  | brk (l : Nat)                         -- YPCodeBreakBlock
deriving Repr, Inhabited, BEq

/-! ### compile_body

`compile_body` rewrites and recurses (`(A,B),C ⇒ A,(B,C)`, `(A;B),C ⇒ A,C ; B,C`, …).
The model keeps the pending right-hand sides as an explicit stack: `comp b ks n` is
`compile_body(b , k1 , (k2 , … ))` with `n` the value of `cut_if_counter`; it returns the code and
the new counter. A bare goal (`ks = []`) is first rewritten to `goal , true`, as the code does. -/

def Body.weight : Body → Nat
  | .conj a b => a.weight + b.weight + 1
  | .disj a b => a.weight + b.weight + 4
  | .ite c t => c.weight + t.weight + 8
  | .neg a => a.weight + 8
  | .call _ _ => 2
  | _ => 1

def stackWeight (ks : List Body) : Nat := (ks.map Body.weight).sum

def comp (b : Body) (ks : List Body) (n : Nat) : List Code × Nat :=
  match b, ks with
  -- `true`
  | .tru, [] => ([.yieldF], n)
  | .tru, k :: ks => comp k ks n
  -- `fail`
  | .fail, _ => ([], n)
  -- `!`
  | .cut, [] => ([.yieldT, .ret], n)
  | .cut, k :: ks => let (c, n) := comp k ks n; (c ++ [.ret], n)
  -- `$CUTIF(l)`
  | .cutif l, [] => ([.yieldF, .brk l], n)   -- never arises: the marker is always followed by the action
  | .cutif l, k :: ks => let (c, n) := comp k ks n; (c ++ [.brk l], n)
  -- a goal
  | .call name args, [] => ([.foreach name args [.yieldF]], n)
  | .call name args, k :: ks => let (c, n) := comp k ks n; ([.foreach name args c], n)
  -- `(A,B),C ⇒ A,(B,C)`
  | .conj a b, ks => comp a (b :: ks) n
  -- `A -> T ; B`   (with pending C:  `A -> (T,C) ; B,C`)
  | .disj (.ite c t) e, ks =>
      let l := n + 1
      let (c1, n1) := comp c (.cutif l :: t :: ks) l
      let (c2, n2) := comp e ks n1
      ([.block l (c1 ++ c2)], n2)
  -- `A ; B`   (with pending C:  `A,C ; B,C`)
  | .disj a b, ks =>
      let (c1, n1) := comp a ks n
      let (c2, n2) := comp b ks n1
      (c1 ++ c2, n2)
  -- `A -> T`  ⇒  `(A -> T ; fail)`
  | .ite c t, [] =>
      let l := n + 1
      let (c1, n1) := comp c [.cutif l, t, .tru] l
      ([.block l c1], n1)
  | .ite c t, k :: ks =>
      let l := n + 1
      let (c1, n1) := comp c (.cutif l :: t :: k :: ks) l
      ([.block l c1], n1)
  -- `\+ A`  ⇒  `(A -> fail ; true)`
  | .neg a, [] =>
      let l := n + 1
      let (c1, n1) := comp a [.cutif l, .fail, .tru] l
      ([.block l (c1 ++ [.yieldF])], n1)
  | .neg a, k :: ks =>
      let l := n + 1
      let (c1, n1) := comp a (.cutif l :: .fail :: k :: ks) l
      let (c2, n2) := comp k ks n1
      ([.block l (c1 ++ c2)], n2)
termination_by (b.weight + stackWeight ks, b.weight)
decreasing_by
  all_goals simp only [Body.weight, stackWeight, List.map, List.sum_cons, List.sum_nil, Prod.lex_def]
  all_goals omega

/-- The `query` function as seen from a clause body: name and argument terms ↦ generator. -/
abbrev Q := String → List Term → Gen

/-! ### Outcome combinators

How the outcome of one part of a run determines what happens next. -/

/-- when the run ended normally, leave with reason `s`; an abandoned run stays abandoned -/
def thenSig (s : Sig) (r : R) : R :=
  match r with
  | (w', none) => (w', some s)
  | r => r

/-- when the run ended normally, continue with `f` in the world it left -/
def andThenR (f : World → R) (r : R) : R :=
  match r with
  | (w', none) => f w'
  | r => r

/-- the breakable block labelled `l`: a `break` travelling to `l` ends here, normally -/
def catchBrk (l : Nat) (r : R) : R :=
  match r with
  | (w', some (.brk l')) => if l' = l then (w', none) else (w', some (.brk l'))
  | r => r

/-- if-then-else at level `d`: a commit at this level ends it; a condition without answer runs
    `f` (the else branch); anything else is passed on -/
def iteR (d : Nat) (f : World → R) (r : R) : R :=
  match r with
  | (w', some (.commit d')) => if d' = d then (w', none) else (w', some (.commit d'))
  | (w', none) => f w'
  | r => r

@[simp] theorem thenSig_none (s : Sig) (w : World) : thenSig s (w, none) = (w, some s) := rfl
@[simp] theorem thenSig_some (s x : Sig) (w : World) : thenSig s (w, some x) = (w, some x) := rfl
@[simp] theorem andThenR_none (f : World → R) (w : World) : andThenR f (w, none) = f w := rfl
@[simp] theorem andThenR_some (f : World → R) (x : Sig) (w : World) : andThenR f (w, some x) = (w, some x) := rfl
@[simp] theorem iteR_none (d : Nat) (f : World → R) (w : World) : iteR d f (w, none) = f w := rfl
@[simp] theorem iteR_commit (d d' : Nat) (f : World → R) (w : World) :
    iteR d f (w, some (.commit d')) = if d' = d then (w, none) else (w, some (.commit d')) := rfl
@[simp] theorem catchBrk_none (l : Nat) (w : World) : catchBrk l (w, none) = (w, none) := rfl
@[simp] theorem catchBrk_brk (l l' : Nat) (w : World) :
    catchBrk l (w, some (.brk l')) = if l' = l then (w, none) else (w, some (.brk l')) := rfl

/-! ### Semantics of the IR (structured exits)

`ret` leaves the function, `brk l` travels outwards to the block labelled `l`.
The consumer `k` is what the function's caller does at each `yield`. -/
mutual
def exec (q : Q) (env : Env) : Code → K → World → R
  | .yieldF, k, w => k w
  | .yieldT, k, w => k w
  | .ret, _, w => (w, some .ret)
  | .brk l, _, w => (w, some (.brk l))
  | .block l body, k, w => catchBrk l (execList q env body k w)
  | .foreach name args body, k, w =>
      q name (args.map (STerm.eval env)) (fun w' => execList q env body k w') w
def execList (q : Q) (env : Env) : List Code → K → World → R
  | [], _, w => (w, none)
  | c :: cs, k, w => andThenR (fun w' => execList q env cs k w') (exec q env c k w)
end

/-! ### Reference semantics of clause bodies

Success-continuation semantics of Prolog control, written without labels, flags or
rewriting. `d` is the if-then-else nesting level of the position (conditions are one level
deeper); `commit d` is the private signal with which an if-then-else at level `d` discards the
remaining solutions of its condition. -/
def solve (q : Q) (env : Env) : Nat → Body → K → World → R
  | _, .tru, k, w => k w
  | _, .fail, _, w => (w, none)
  | _, .cutif _, k, w => k w
  -- cut: continue; when the continuation is exhausted, leave the clause
  | _, .cut, k, w => thenSig .ret (k w)
  | _, .call name args, k, w => q name (args.map (STerm.eval env)) k w
  | d, .conj a b, k, w => solve q env d a (fun w' => solve q env d b k w') w
  -- if-then-else: first answer of c only, then t; e when c has no answer
  | d, .disj (.ite c t) e, k, w =>
      iteR d (fun w' => solve q env d e k w')
        (solve q env (d+1) c (fun w' => thenSig (.commit d) (solve q env d t k w')) w)
  | d, .disj a b, k, w => andThenR (fun w' => solve q env d b k w') (solve q env d a k w)
  -- if-then without else fails when c fails
  | d, .ite c t, k, w =>
      iteR d (fun w' => (w', none))
        (solve q env (d+1) c (fun w' => thenSig (.commit d) (solve q env d t k w')) w)
  -- negation: succeeds (once, binding nothing) iff a has no answer
  | d, .neg a, k, w =>
      iteR d k (solve q env (d+1) a (fun w' => (w', some (.commit d))) w)

end Yld
