/-
  Clause activation: what one clause of a generated function does with its arguments
  (aliases for plain head variables, `variable()` for the others, nested `unify` loops, then the
  body), in the three modes the model can run it.

  Model of: yp_generator.py  compile_function_body / compile_function (clause activation).
-/
import Yld.Model.Body
namespace Yld

/-! ### Clauses and their activation -/

structure Clause where
  head : List STerm
  body : Body
deriving Repr, Inhabited, BEq

/-- All clauses of one name/arity from one script: becomes one generator function. -/
structure Pred where
  name : String
  arity : Nat
  clauses : List Clause
deriving Repr, Inhabited, BEq

def dedup (xs : List String) : List String :=
  xs.foldl (fun acc x => if acc.contains x then acc else acc ++ [x]) []

/-- `find_clause_head_variable_arguments`: position ↦ variable name when the head argument is
    a plain variable that occurs once among the top-level head arguments. -/
def headAlias (head : List STerm) : List (Option String) :=
  let tops := head.filterMap fun a => match a with | .var v => some v | _ => none
  head.map fun a => match a with
    | .var v => if tops.count v = 1 then some v else none
    | _ => none

/-- What `compile_function_body` emits around the body code of one clause. -/
structure ClauseCode where
  aliases : List (String × Nat)      -- `V = arg<i+1>`
  declsHead : List String            -- `V = variable()`
  declsBody : List String
  unifs : List (Nat × STerm)         -- `for l in unify(arg<i+1>, expr):`, outermost first
  code : List Code
deriving Repr, Inhabited

def compileClause (c : Clause) (n : Nat) : ClauseCode × Nat :=
  let al := headAlias c.head
  let aliases := (al.zipIdx).filterMap fun (o, i) => o.map fun v => (v, i)
  let bound1 := aliases.map (·.1)
  let headVars := (c.head.map STerm.vars).flatten
  let declsHead := dedup (headVars.filter fun v => !bound1.contains v)
  let bound2 := bound1 ++ declsHead
  let declsBody := dedup (c.body.vars.filter fun v => !bound2.contains v)
  let (code, n') := comp c.body [] n
  let unifs := ((c.head.zip al).zipIdx).filterMap fun ((t, o), i) =>
    match o with | none => some (i, t) | some _ => none
  ({ aliases, declsHead, declsBody, unifs, code }, n')

/-- Compile all clauses of a predicate, threading `cut_if_counter`. -/
def compileClauses : List Clause → Nat → List ClauseCode × Nat
  | [], n => ([], n)
  | c :: cs, n =>
      let (cc, n1) := compileClause c n
      let (ccs, n2) := compileClauses cs n1
      (cc :: ccs, n2)

def compilePred (p : Pred) (n : Nat) : List ClauseCode × Nat := compileClauses p.clauses n

/-- Allocate one `variable()` per name. -/
def allocVars (names : List String) (env : Env) (w : World) : Env × World :=
  names.foldl (fun (env, w) v => let (x, w') := w.fresh; (env ++ [(v, .var x)], w')) (env, w)

/-- How a clause body is run: compiled code or the reference semantics. -/
inductive Mode where
  | compiled      -- the generated code: clause activation and body as emitted
  | reference     -- textbook activation + reference semantics of the body
  | refbody       -- the activation of the generated code + reference semantics of the body
deriving Repr, BEq, DecidableEq

/-- Nested `for l in unify(arg_i, expr_i)` loops. -/
def unifyHead (fuel : Nat) (env : Env) (args : List Term) : List (Nat × STerm) → Gen → Gen
  | [], g => g
  | (i, t) :: rest, g => fun k w =>
      unify fuel (args.getD i (.atom "$noarg")) (t.eval env)
        (fun w' => unifyHead fuel env args rest g k w') w

/-- One clause of a generated function, run on `args`. -/
def runClauseCompiled (fuel : Nat) (q : Q) (cc : ClauseCode) (args : List Term) : Gen := fun k w =>
  let env0 : Env := cc.aliases.map fun (v, i) => (v, args.getD i (.atom "$noarg"))
  let (env1, w1) := allocVars cc.declsHead env0 w
  let (env2, w2) := allocVars cc.declsBody env1 w1
  unifyHead fuel env2 args cc.unifs (execList q env2 cc.code) k w2

/-- The activation the generated code performs, with the body under the reference semantics
    (the bridge between `compiled` and `reference`: Theorem A is about the body). -/
def runClauseRefBody (fuel : Nat) (q : Q) (cc : ClauseCode) (body : Body) (args : List Term) : Gen := fun k w =>
  let env0 : Env := cc.aliases.map fun (v, i) => (v, args.getD i (.atom "$noarg"))
  let (env1, w1) := allocVars cc.declsHead env0 w
  let (env2, w2) := allocVars cc.declsBody env1 w1
  unifyHead fuel env2 args cc.unifs (solve q env2 0 body) k w2

/-- Textbook clause activation: a new variable for every variable of the clause, head
    arguments unified left to right, then the body under the reference semantics. -/
def runClauseRef (fuel : Nat) (q : Q) (c : Clause) (args : List Term) : Gen := fun k w =>
  let names := dedup ((c.head.map STerm.vars).flatten ++ c.body.vars)
  let (env, w1) := allocVars names [] w
  unifyHead fuel env args (c.head.zipIdx.map fun (t, i) => (i, t)) (solve q env 0 c.body) k w1

/-- Signals of the caller's loop body travel through this frame as `up s`. -/
def wrapK (k : K) : K := fun w =>
  match k w with
  | (w', some s) => (w', some (.up s))
  | r => r

/-- Leaving a generator function: its own `return` ends it normally; the caller's reason for
    abandoning it is handed back. -/
def leaveFrame : R → R
  | (w, some .ret) => (w, none)
  | (w, some (.brk _)) => (w, none)      -- never produced by compiled code (every brk has its block)
  | (w, some (.commit _)) => (w, none)   -- never produced (every commit is consumed by its if-then-else)
  | (w, some (.up s)) => (w, some s)
  | r => r

/-- The clauses of one function, in order; `return` (cut) skips the later ones. -/
def runClauses (run : α → Gen) : List α → Gen
  | [], _, w => (w, none)
  | c :: cs, k, w =>
      match run c k w with
      | (w', none) => runClauses run cs k w'
      | r => r

/-- The key of a definition in `eval_context`. -/
def predKey (name : String) (arity : Nat) : String := name ++ "_" ++ toString arity
def variadicKey (name : String) : String := name ++ "_n"

end Yld
