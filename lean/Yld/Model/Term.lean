/-
  Terms, the binding heap and dereferencing (`get_value`) as engine.py performs them.

  Model of: engine.py  Variable._is_bound/_value, Variable.get_value, Functor.get_value,
  get_value(), Atom, Functor, Python integer constants.
  Core Lean only; everything here is executable (used by the driver).
-/
namespace Yld

/-- Engine terms. `var n` is the `Variable` object number `n` (allocation order),
    `int` stands for the Python integer constants the compiler emits for numerals. -/
inductive Term where
  | var (n : Nat)
  | atom (s : String)
  | int (i : Int)
  | fn (f : String) (args : List Term)
deriving Repr, Inhabited, BEq

/-- The binding cells: `none` = `_is_bound == False`. -/
abbrev Bind := Nat → Option Term

def Bind.empty : Bind := fun _ => none

def bind (b : Bind) (x : Nat) (t : Term) : Bind := fun y => if y = x then some t else b y
def unbind (b : Bind) (x : Nat) : Bind := fun y => if y = x then none else b y

/-- Follow variable-to-variable bindings (`Variable.get_value` down to the first
    non-variable or unbound variable). `none` = out of fuel. -/
def walk (b : Bind) : Nat → Term → Option Term
  | 0, _ => none
  | f+1, .var n => match b n with
      | none => some (.var n)
      | some t => walk b f t
  | _+1, t => some t

/-- `get_value`: resolve every binding at every depth (after the C15 repair).
    `none` = out of fuel (a cyclic term makes Python raise RecursionError). -/
def resolve (b : Bind) : Nat → Term → Option Term
  | 0, _ => none
  | f+1, .var n => match b n with
      | none => some (.var n)
      | some t => resolve b f t
  | f+1, .fn g args => (args.mapM (resolve b f)).map (.fn g)
  | _+1, t => some t

/-- All variables of a term, left to right, with repetitions. -/
def Term.vars : Term → List Nat
  | .var n => [n]
  | .fn _ args => (args.attach.map fun ⟨a, _⟩ => a.vars).flatten
  | _ => []

/-- A term without variables. -/
def Term.ground : Term → Bool
  | .var _ => false
  | .fn _ args => args.attach.all fun ⟨a, _⟩ => a.ground
  | _ => true

def Term.size : Term → Nat
  | .fn _ args => 1 + (args.attach.map fun ⟨a, _⟩ => a.size).sum
  | _ => 1

/-- Rename variables by a function on cell numbers. -/
def Term.rename (ρ : Nat → Nat) : Term → Term
  | .var n => .var (ρ n)
  | .fn g args => .fn g (args.attach.map fun ⟨a, _⟩ => a.rename ρ)
  | t => t

/-- Proper list `[t1,…,tn]` as nested `'.'/2` pairs ending in the atom `[]`
    (`YP.makelist`, `YP.listpair`, `ATOM_NIL`). -/
def mkList : List Term → Term
  | [] => .atom "[]"
  | t :: ts => .fn "." [t, mkList ts]

/-- `to_python`. -/
inductive PyVal where
  | none
  | str (s : String)
  | int (i : Int)
  | list (xs : List PyVal)
  | tup (name : String) (args : List PyVal)
  | err                     -- to_python raises (improper list)
deriving Repr, Inhabited, BEq

/-- `to_python` of a *resolved* term (the caller resolves first, as `Variable.to_python`
    does through `get_value`). `'.'/2` becomes `[head] + to_python(tail)`; when the tail is not
    a list the Python `+` raises (`err`). Fuel bounds the term depth. -/
def PyVal.isErr : PyVal → Bool
  | .err => true
  | _ => false

def toPython : Nat → Term → PyVal
  | 0, _ => .err
  | _+1, .var _ => .none
  | _+1, .atom s => if s = "[]" then .list [] else .str s
  | _+1, .int i => .int i
  | f+1, .fn g args =>
      if g = "." then
        match args with
        | h :: t :: _ =>
          match toPython f h, toPython f t with
          | .err, _ => .err
          | hv, .list xs => .list (hv :: xs)
          | _, _ => .err       -- `[head] + to_python(tail)` raises unless the tail is a list
        | _ => .err            -- IndexError
      else
        let vs := args.map (toPython f)
        if vs.any PyVal.isErr then .err else .tup g vs

end Yld
