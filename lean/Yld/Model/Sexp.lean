/-
  S-expressions: the wire format between the Python harness and the model driver.
  One expression per line; strings are double-quoted with \\ \" \n \r \t \xHH escapes.
-/
namespace Yld

inductive Sexp where
  | sym (s : String)
  | str (s : String)
  | list (xs : List Sexp)
deriving Repr, Inhabited, BEq

namespace Sexp

def hexDigit (n : Nat) : Char :=
  if n < 10 then Char.ofNat (48 + n) else Char.ofNat (87 + n)

def escape (s : String) : String :=
  s.foldl (fun acc c =>
    if c = '"' then acc ++ "\\\""
    else if c = '\\' then acc ++ "\\\\"
    else if c = '\n' then acc ++ "\\n"
    else if c = '\r' then acc ++ "\\r"
    else if c = '\t' then acc ++ "\\t"
    else if c.toNat < 32 then acc ++ "\\x" ++ String.singleton (hexDigit (c.toNat / 16)) ++ String.singleton (hexDigit (c.toNat % 16))
    else acc.push c) ""

partial def toString : Sexp → String
  | .sym s => s
  | .str s => "\"" ++ escape s ++ "\""
  | .list xs => "(" ++ " ".intercalate (xs.map toString) ++ ")"

instance : ToString Sexp := ⟨toString⟩

def hexVal (c : Char) : Nat :=
  if '0' ≤ c ∧ c ≤ '9' then c.toNat - 48
  else if 'a' ≤ c ∧ c ≤ 'f' then c.toNat - 87
  else if 'A' ≤ c ∧ c ≤ 'F' then c.toNat - 55
  else 0

/-- Parse a quoted string body (after the opening quote); returns the string and the rest. -/
partial def parseStr (cs : List Char) (acc : String) : Option (String × List Char) :=
  match cs with
  | [] => none
  | '"' :: rest => some (acc, rest)
  | '\\' :: 'n' :: rest => parseStr rest (acc.push '\n')
  | '\\' :: 'r' :: rest => parseStr rest (acc.push '\r')
  | '\\' :: 't' :: rest => parseStr rest (acc.push '\t')
  | '\\' :: 'x' :: a :: b :: rest => parseStr rest (acc.push (Char.ofNat (hexVal a * 16 + hexVal b)))
  | '\\' :: c :: rest => parseStr rest (acc.push c)
  | c :: rest => parseStr rest (acc.push c)

def isSymChar (c : Char) : Bool := !(c = '(' || c = ')' || c = '"' || c.isWhitespace)

mutual
partial def parseOne (cs : List Char) : Option (Sexp × List Char) :=
  match cs with
  | [] => none
  | c :: rest =>
    if c.isWhitespace then parseOne rest
    else if c = '(' then parseList rest []
    else if c = ')' then none
    else if c = '"' then (parseStr rest "").map fun (s, r) => (.str s, r)
    else
      let tok := cs.takeWhile isSymChar
      some (.sym (String.ofList tok), cs.dropWhile isSymChar)
partial def parseList (cs : List Char) (acc : List Sexp) : Option (Sexp × List Char) :=
  match cs with
  | [] => none
  | c :: rest =>
    if c.isWhitespace then parseList rest acc
    else if c = ')' then some (.list acc.reverse, rest)
    else match parseOne cs with
      | some (x, r) => parseList r (x :: acc)
      | none => none
end

def parse (s : String) : Option Sexp := (parseOne s.toList).map (·.1)

end Sexp
end Yld
