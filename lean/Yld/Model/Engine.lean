/-
  The engine: definitions, the fact store, the builtins, `query`.

  Model of: src/yldprolog/engine.py        YP.query, match_dynamic, assert_fact, asserta/z,
                                           retract, retractall, call, once, findall,
                                           register_function, load_script_from_string
  (clause activation: Yld.Model.Clause; the emitted Python and its semantics: Emit, Py)
-/
import Yld.Model.Clause
namespace Yld

/-! ### Definitions -/

/-- A Python generator function registered with `register_function` that behaves like a
    fact predicate: for each row, unify the arguments with the row and yield. It may raise
    before producing its `raiseAt`-th row. -/
structure PyPred where
  rows : List Fact
  raiseAt : Option Nat := none
deriving Repr, Inhabited

inductive Def where
  | prolog (p : Pred) (mode : Mode)
  | py (p : PyPred)
  | builtin (name : String)
deriving Repr, Inhabited

/-- `eval_context`, restricted to callable entries: key ↦ chain of definitions in load order. -/
abbrev Defs := List (String × List Def)

def Defs.get (d : Defs) (key : String) : Option (List Def) := d.lookup key


/-! ### The fact store -/

def World.facts (w : World) (name : String) (arity : Nat) : List Fact :=
  (w.db.lookup (name, arity)).getD []

def World.setFacts (w : World) (name : String) (arity : Nat) (fs : List Fact) : World :=
  let key := (name, arity)
  if w.db.any (·.1 == key) then
    { w with db := w.db.map fun (k, v) => if k == key then (k, fs) else (k, v) }
  else { w with db := w.db ++ [(key, fs)] }

/-- Canonical renaming of the unbound variables of a list of resolved terms:
    first occurrence order ↦ 0,1,2,… (`rename_variables`). Returns the terms and the count. -/
def canonVars (ts : List Term) : List Term × Nat :=
  let vs := (ts.map Term.vars).flatten.eraseDups
  (ts.map (Term.rename fun x => (vs.idxOf x)), vs.length)

/-- `Answer.match`: unify the arguments with a fresh renaming of the stored terms. -/
def matchFact (fuel : Nat) (fact : Fact) (args : List Term) : Gen := fun k w =>
  let base := w.next
  let w1 := { w with next := w.next + fact.nvars }
  if args.length = fact.args.length then
    unifyList (unify fuel) args (fact.args.map (Term.rename (· + base))) k w1
  else (w1, none)

/-- `_match_all_clauses` over the clause list as it was when the goal started. -/
def matchAll (fuel : Nat) (args : List Term) : List Fact → Gen
  | [], _, w => (w, none)
  | c :: cs, k, w =>
      match matchFact fuel c args k w with
      | (w', none) => matchAll fuel args cs k w'
      | r => r

def matchDynamic (fuel : Nat) (name : String) (args : List Term) : Gen := fun k w =>
  matchAll fuel args (w.facts name args.length) k w

/-- `assert_fact`. -/
def assertFact (fuel : Nat) (name : String) (values : List Term) (append : Bool) (w : World) :
    World × Option Sig :=
  match values.mapM (resolve w.b fuel) with
  | none => (w, some .oof)
  | some vs =>
    let (args, nv) := canonVars vs
    let fact : Fact := { id := w.stamp, nvars := nv, args := args }
    let old := w.facts name values.length
    let new := if append then old ++ [fact] else fact :: old
    ({ (w.setFacts name values.length new) with stamp := w.stamp + 1 }, none)

/-- `_fact_name_and_args`. -/
def factNameArgs (fuel : Nat) (w : World) (t : Term) : Except Sig (String × List Term) :=
  match walk w.b fuel t with
  | none => .error .oof
  | some (.fn g as) => .ok (g, as)
  | some (.atom s) => .ok (s, [])
  | some _ => .error (.exn "YPException")

/-- `retract`: works on the facts present at the call, skips facts removed meanwhile,
    removes the matched fact from the current store before yielding. -/
def retractLoop (fuel : Nat) (name : String) (args : List Term) : List Fact → Gen
  | [], _, w => (w, none)
  | c :: cs, k, w =>
      if (w.facts name args.length).any (·.id == c.id) then
        match matchFact fuel c args (fun w' =>
                k (w'.setFacts name args.length
                    ((w'.facts name args.length).filter (·.id != c.id)))) w with
        | (w', none) => retractLoop fuel name args cs k w'
        | r => r
      else retractLoop fuel name args cs k w

/-- Does the fact match? (`for cut in clause.match(args): match = True`). -/
def factMatches (fuel : Nat) (c : Fact) (args : List Term) (w : World) : World × Except Sig Bool :=
  match matchFact fuel c args (fun w' => (w', some .stop)) w with
  | (w', some .stop) => (w', .ok true)
  | (w', none) => (w', .ok false)
  | (w', some s) => (w', .error s)

def retractAllLoop (fuel : Nat) (args : List Term) : List Fact → List Fact → World →
    World × Except Sig (List Fact)
  | [], keep, w => (w, .ok keep)
  | c :: cs, keep, w =>
      match factMatches fuel c args w with
      | (w', .ok true) => retractAllLoop fuel args cs keep w'
      | (w', .ok false) => retractAllLoop fuel args cs (keep ++ [c]) w'
      | (w', .error s) => (w', .error s)

/-! ### query and the builtins -/

/-- The names `YP.query` refuses to look up (`eval_blacklist`): generated by `extract.py`
    from `_set_default_eval_context` and `_set_builtin_predicates`; passed in as data. -/
structure Cfg where
  blacklist : List String
  defs : Defs
  mode : Mode := .compiled
deriving Inhabited

/-- leaving once/1: its private `stop` ends it normally; the caller's reasons are unwrapped -/
def leaveOnce : R → R
  | (w', some .stop) => (w', none)
  | (w', some (.up s)) => (w', some s)
  | r => r

/-- first answer only: abandon the generator when the consumer asks for the next answer. -/
def onceGen (g : Gen) : Gen := fun k w =>
  leaveOnce (g (fun w' => thenSig .stop (wrapK k w')) w)

/-- The list comprehension of `findall`: at each answer append a copy of the template as
    instantiated by that answer (`rename_variables([template])[0]`: variables still unbound in
    it are new variables) to the result list on top of `acc`; never abandon. -/
def findallCollect (f : Nat) (tmpl : Term) : K := fun w' =>
  match resolve w'.b f tmpl with
  | some v =>
      let (vs, n) := canonVars [v]
      let v' := (vs.headD v).rename (· + w'.next)
      ({ w' with next := w'.next + n,
                 acc := match w'.acc with
                       | top :: rest => (top ++ [v']) :: rest
                       | [] => [[v']] }, none)
  | none => (w', some .oof)

/-- A registered Python predicate (see `PyPred`). -/
def runPy : Nat → List Fact → Option Nat → Nat → List Term → Gen
  | _, [], r, i, _, _, w => if r == some i then (w, some (.exn "UserError")) else (w, none)
  | f, row :: rows, r, i, args, k, w =>
      if r == some i then (w, some (.exn "UserError")) else
      match matchFact f row args k w with
      | (w', none) => runPy f rows r (i+1) args k w'
      | res => res

mutual
/-- `YP.query(name, args)`: dynamic facts first, then the registered definition(s). -/
def query (cfg : Cfg) : Nat → String → List Term → Gen
  | 0, _, _, _, w => (w, some .oof)
  | f+1, name, args, k, w =>
      match matchDynamic f name args k w with
      | (w1, none) =>
          if cfg.blacklist.contains name then (w1, none) else
          match (cfg.defs.get (predKey name args.length)).orElse
                  (fun _ => cfg.defs.get (variadicKey name)) with
          | none => (w1, none)
          | some chain => runChain cfg f chain args k w1
      | r => r
/-- `chain_functions`: the definitions for one key, in load order. -/
def runChain (cfg : Cfg) : Nat → List Def → List Term → Gen
  | 0, _, _, _, w => (w, some .oof)
  | _+1, [], _, _, w => (w, none)
  | f+1, d :: ds, args, k, w =>
      match runDef cfg f d args k w with
      | (w', none) => runChain cfg f ds args k w'
      | r => r
def runDef (cfg : Cfg) : Nat → Def → List Term → Gen
  | 0, _, _, _, w => (w, some .oof)
  | f+1, .prolog p mode, args, k, w =>
      match mode with
      | .compiled =>
          leaveFrame (runClauses (fun cc => runClauseCompiled f (query cfg f) cc args)
                        (compilePred p 0).1 (wrapK k) w)
      | .reference =>
          leaveFrame (runClauses (fun c => runClauseRef f (query cfg f) c args)
                        p.clauses (wrapK k) w)
      | .refbody =>
          leaveFrame (runClauses (fun (x : ClauseCode × Clause) => runClauseRefBody f (query cfg f) x.1 x.2.body args)
                        ((compilePred p 0).1.zip p.clauses) (wrapK k) w)
  | f+1, .py p, args, k, w => runPy f p.rows p.raiseAt 0 args k w
  | f+1, .builtin b, args, k, w => runBuiltin cfg f b args k w
def runBuiltin (cfg : Cfg) : Nat → String → List Term → Gen
  | 0, _, _, _, w => (w, some .oof)
  | f+1, b, args, k, w =>
    match b, args with
    | "=", [a, b] => unify f a b k w
    | "\\=", [a, b] =>
        -- builtin_neq: (X = Y -> fail ; true)
        match query cfg f "=" [a, b] (fun w' => (w', some .stop)) w with
        | (w', some .stop) => (w', none)
        | (w', none) => k w'
        | r => r
    | "call", g :: extra => callGoal cfg f g extra k w
    | "once", [g] => onceGen (callGoal cfg f g []) k w
    | "findall", [tmpl, g, bag] =>
        -- results = makelist([get_value(template) for r in call(goal)])
        match callGoal cfg f g [] (findallCollect f tmpl)
                { w with acc := [] :: w.acc } with
        | (w', none) =>
            let results := w'.acc.headD []
            unify f bag (mkList results) k { w' with acc := w'.acc.tail }
        | (w', s) => ({ w' with acc := w'.acc.tail }, s)
    | "assertz", [t] =>
        match factNameArgs f w t with
        | .error s => (w, some s)
        | .ok (name, as) =>
            match assertFact f name as true w with
            | (w', none) => k w'
            | r => r
    | "asserta", [t] =>
        match factNameArgs f w t with
        | .error s => (w, some s)
        | .ok (name, as) =>
            match assertFact f name as false w with
            | (w', none) => k w'
            | r => r
    | "retract", [t] =>
        match factNameArgs f w t with
        | .error s => (w, some s)
        | .ok (name, as) => retractLoop f name as (w.facts name as.length) k w
    | "retractall", [t] =>
        match factNameArgs f w t with
        | .error s => (w, some s)
        | .ok (name, as) =>
            match retractAllLoop f as (w.facts name as.length) [] w with
            | (w', .ok keep) => k (w'.setFacts name as.length keep)
            | (w', .error s) => (w', some s)
    | _, _ => (w, some (.exn "TypeError"))     -- wrong number of arguments for a fixed-arity builtin
/-- `YP.call(goal, *args)`. -/
def callGoal (cfg : Cfg) : Nat → Term → List Term → Gen
  | 0, _, _, _, w => (w, some .oof)
  | f+1, g, extra, k, w =>
      match walk w.b (f+1) g with
      | none => (w, some .oof)
      | some (.atom s) => query cfg f s extra k w
      | some (.fn name as) => query cfg f name (as ++ extra) k w
      | some _ => (w, some (.exn "YPException"))
end

end Yld
