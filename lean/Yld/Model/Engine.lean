/-
  The engine: clause activation, the definition table, `YP.query`, the dynamic fact store and
  the builtin predicates, `evaluate_bounded`.

  Model of: engine.py  YP.query / match_dynamic / _match_all_clauses / Answer / rename_variables /
            assert_fact / asserta / assertz / retract / retractall / clear / call / once / findall /
            builtin_eq / builtin_neq / register_function / load_script_from_string / chain_functions;
            yp_generator.py  compile_function_body / compile_function (clause activation).
-/
import Yld.Model.Body
namespace Yld

/-! ### Clauses and their activation -/

structure Clause where
  head : List STerm
  body : Body
deriving Repr, Inhabited, BEq

/-- All clauses of one name/arity from one script: becomes one generator function. -/
structure Pred where
  name : String
  arity : Nat
  clauses : List Clause
deriving Repr, Inhabited, BEq

def dedup (xs : List String) : List String :=
  xs.foldl (fun acc x => if acc.contains x then acc else acc ++ [x]) []

/-- `find_clause_head_variable_arguments`: position ↦ variable name when the head argument is
    a plain variable that occurs once among the top-level head arguments. -/
def headAlias (head : List STerm) : List (Option String) :=
  let tops := head.filterMap fun a => match a with | .var v => some v | _ => none
  head.map fun a => match a with
    | .var v => if tops.count v = 1 then some v else none
    | _ => none

/-- What `compile_function_body` emits around the body code of one clause. -/
structure ClauseCode where
  aliases : List (String × Nat)      -- `V = arg<i+1>`
  declsHead : List String            -- `V = variable()`
  declsBody : List String
  unifs : List (Nat × STerm)         -- `for l in unify(arg<i+1>, expr):`, outermost first
  code : List Code
deriving Repr, Inhabited

def compileClause (c : Clause) (n : Nat) : ClauseCode × Nat :=
  let al := headAlias c.head
  let aliases := (al.zipIdx).filterMap fun (o, i) => o.map fun v => (v, i)
  let bound1 := aliases.map (·.1)
  let headVars := (c.head.map STerm.vars).flatten
  let declsHead := dedup (headVars.filter fun v => !bound1.contains v)
  let bound2 := bound1 ++ declsHead
  let declsBody := dedup (c.body.vars.filter fun v => !bound2.contains v)
  let (code, n') := comp c.body [] n
  let unifs := ((c.head.zip al).zipIdx).filterMap fun ((t, o), i) =>
    match o with | none => some (i, t) | some _ => none
  ({ aliases, declsHead, declsBody, unifs, code }, n')

/-- Compile all clauses of a predicate, threading `cut_if_counter`. -/
def compileClauses : List Clause → Nat → List ClauseCode × Nat
  | [], n => ([], n)
  | c :: cs, n =>
      let (cc, n1) := compileClause c n
      let (ccs, n2) := compileClauses cs n1
      (cc :: ccs, n2)

def compilePred (p : Pred) (n : Nat) : List ClauseCode × Nat := compileClauses p.clauses n

/-- Allocate one `variable()` per name. -/
def allocVars (names : List String) (env : Env) (w : World) : Env × World :=
  names.foldl (fun (env, w) v => let (x, w') := w.fresh; (env ++ [(v, .var x)], w')) (env, w)

/-- How a clause body is run: compiled code or the reference semantics. -/
inductive Mode where
  | compiled      -- the generated code: clause activation and body as emitted
  | reference     -- textbook activation + reference semantics of the body
  | refbody       -- the activation of the generated code + reference semantics of the body
deriving Repr, BEq, DecidableEq

/-- Nested `for l in unify(arg_i, expr_i)` loops. -/
def unifyHead (fuel : Nat) (env : Env) (args : List Term) : List (Nat × STerm) → Gen → Gen
  | [], g => g
  | (i, t) :: rest, g => fun k w =>
      unify fuel (args.getD i (.atom "$noarg")) (t.eval env)
        (fun w' => unifyHead fuel env args rest g k w') w

/-- One clause of a generated function, run on `args`. -/
def runClauseCompiled (fuel : Nat) (q : Q) (cc : ClauseCode) (args : List Term) : Gen := fun k w =>
  let env0 : Env := cc.aliases.map fun (v, i) => (v, args.getD i (.atom "$noarg"))
  let (env1, w1) := allocVars cc.declsHead env0 w
  let (env2, w2) := allocVars cc.declsBody env1 w1
  unifyHead fuel env2 args cc.unifs (execList q env2 cc.code) k w2

/-- The activation the generated code performs, with the body under the reference semantics
    (the bridge between `compiled` and `reference`: Theorem A is about the body). -/
def runClauseRefBody (fuel : Nat) (q : Q) (cc : ClauseCode) (body : Body) (args : List Term) : Gen := fun k w =>
  let env0 : Env := cc.aliases.map fun (v, i) => (v, args.getD i (.atom "$noarg"))
  let (env1, w1) := allocVars cc.declsHead env0 w
  let (env2, w2) := allocVars cc.declsBody env1 w1
  unifyHead fuel env2 args cc.unifs (solve q env2 0 body) k w2

/-- Textbook clause activation: a new variable for every variable of the clause, head
    arguments unified left to right, then the body under the reference semantics. -/
def runClauseRef (fuel : Nat) (q : Q) (c : Clause) (args : List Term) : Gen := fun k w =>
  let names := dedup ((c.head.map STerm.vars).flatten ++ c.body.vars)
  let (env, w1) := allocVars names [] w
  unifyHead fuel env args (c.head.zipIdx.map fun (t, i) => (i, t)) (solve q env 0 c.body) k w1

/-- Signals of the caller's loop body travel through this frame as `up s`. -/
def wrapK (k : K) : K := fun w =>
  match k w with
  | (w', some s) => (w', some (.up s))
  | r => r

/-- Leaving a generator function: its own `return` ends it normally; the caller's reason for
    abandoning it is handed back. -/
def leaveFrame : R → R
  | (w, some .ret) => (w, none)
  | (w, some (.brk _)) => (w, none)      -- never produced by compiled code (every brk has its block)
  | (w, some (.commit _)) => (w, none)   -- never produced (every commit is consumed by its if-then-else)
  | (w, some (.up s)) => (w, some s)
  | r => r

/-- The clauses of one function, in order; `return` (cut) skips the later ones. -/
def runClauses (run : α → Gen) : List α → Gen
  | [], _, w => (w, none)
  | c :: cs, k, w =>
      match run c k w with
      | (w', none) => runClauses run cs k w'
      | r => r

/-! ### Definitions -/

/-- A Python generator function registered with `register_function` that behaves like a
    fact predicate: for each row, unify the arguments with the row and yield. It may raise
    before producing its `raiseAt`-th row. -/
structure PyPred where
  rows : List Fact
  raiseAt : Option Nat := none
deriving Repr, Inhabited

inductive Def where
  | prolog (p : Pred) (mode : Mode)
  | py (p : PyPred)
  | builtin (name : String)
deriving Repr, Inhabited

/-- `eval_context`, restricted to callable entries: key ↦ chain of definitions in load order. -/
abbrev Defs := List (String × List Def)

def Defs.get (d : Defs) (key : String) : Option (List Def) := d.lookup key

def predKey (name : String) (arity : Nat) : String := name ++ "_" ++ toString arity
def variadicKey (name : String) : String := name ++ "_n"

/-! ### The fact store -/

def World.facts (w : World) (name : String) (arity : Nat) : List Fact :=
  (w.db.lookup (name, arity)).getD []

def World.setFacts (w : World) (name : String) (arity : Nat) (fs : List Fact) : World :=
  let key := (name, arity)
  if w.db.any (·.1 == key) then
    { w with db := w.db.map fun (k, v) => if k == key then (k, fs) else (k, v) }
  else { w with db := w.db ++ [(key, fs)] }

/-- Canonical renaming of the unbound variables of a list of resolved terms:
    first occurrence order ↦ 0,1,2,… (`rename_variables`). Returns the terms and the count. -/
def canonVars (ts : List Term) : List Term × Nat :=
  let vs := (ts.map Term.vars).flatten.eraseDups
  (ts.map (Term.rename fun x => (vs.idxOf x)), vs.length)

/-- `Answer.match`: unify the arguments with a fresh renaming of the stored terms. -/
def matchFact (fuel : Nat) (fact : Fact) (args : List Term) : Gen := fun k w =>
  let base := w.next
  let w1 := { w with next := w.next + fact.nvars }
  if args.length = fact.args.length then
    unifyList (unify fuel) args (fact.args.map (Term.rename (· + base))) k w1
  else (w1, none)

/-- `_match_all_clauses` over the clause list as it was when the goal started. -/
def matchAll (fuel : Nat) (args : List Term) : List Fact → Gen
  | [], _, w => (w, none)
  | c :: cs, k, w =>
      match matchFact fuel c args k w with
      | (w', none) => matchAll fuel args cs k w'
      | r => r

def matchDynamic (fuel : Nat) (name : String) (args : List Term) : Gen := fun k w =>
  matchAll fuel args (w.facts name args.length) k w

/-- `assert_fact`. -/
def assertFact (fuel : Nat) (name : String) (values : List Term) (append : Bool) (w : World) :
    World × Option Sig :=
  match values.mapM (resolve w.b fuel) with
  | none => (w, some .oof)
  | some vs =>
    let (args, nv) := canonVars vs
    let fact : Fact := { id := w.stamp, nvars := nv, args := args }
    let old := w.facts name values.length
    let new := if append then old ++ [fact] else fact :: old
    ({ (w.setFacts name values.length new) with stamp := w.stamp + 1 }, none)

/-- `_fact_name_and_args`. -/
def factNameArgs (fuel : Nat) (w : World) (t : Term) : Except Sig (String × List Term) :=
  match walk w.b fuel t with
  | none => .error .oof
  | some (.fn g as) => .ok (g, as)
  | some (.atom s) => .ok (s, [])
  | some _ => .error (.exn "YPException")

/-- `retract`: works on the facts present at the call, skips facts removed meanwhile,
    removes the matched fact from the current store before yielding. -/
def retractLoop (fuel : Nat) (name : String) (args : List Term) : List Fact → Gen
  | [], _, w => (w, none)
  | c :: cs, k, w =>
      if (w.facts name args.length).any (·.id == c.id) then
        match matchFact fuel c args (fun w' =>
                k (w'.setFacts name args.length
                    ((w'.facts name args.length).filter (·.id != c.id)))) w with
        | (w', none) => retractLoop fuel name args cs k w'
        | r => r
      else retractLoop fuel name args cs k w

/-- Does the fact match? (`for cut in clause.match(args): match = True`). -/
def factMatches (fuel : Nat) (c : Fact) (args : List Term) (w : World) : World × Except Sig Bool :=
  match matchFact fuel c args (fun w' => (w', some .stop)) w with
  | (w', some .stop) => (w', .ok true)
  | (w', none) => (w', .ok false)
  | (w', some s) => (w', .error s)

def retractAllLoop (fuel : Nat) (args : List Term) : List Fact → List Fact → World →
    World × Except Sig (List Fact)
  | [], keep, w => (w, .ok keep)
  | c :: cs, keep, w =>
      match factMatches fuel c args w with
      | (w', .ok true) => retractAllLoop fuel args cs keep w'
      | (w', .ok false) => retractAllLoop fuel args cs (keep ++ [c]) w'
      | (w', .error s) => (w', .error s)

/-! ### query and the builtins -/

/-- The names `YP.query` refuses to look up (`eval_blacklist`): generated by `extract.py`
    from `_set_default_eval_context` and `_set_builtin_predicates`; passed in as data. -/
structure Cfg where
  blacklist : List String
  defs : Defs
  mode : Mode := .compiled
deriving Inhabited

/-- leaving once/1: its private `stop` ends it normally; the caller's reasons are unwrapped -/
def leaveOnce : R → R
  | (w', some .stop) => (w', none)
  | (w', some (.up s)) => (w', some s)
  | r => r

/-- first answer only: abandon the generator when the consumer asks for the next answer. -/
def onceGen (g : Gen) : Gen := fun k w =>
  leaveOnce (g (fun w' => thenSig .stop (wrapK k w')) w)

/-- The list comprehension of `findall`: at each answer append a copy of the template as
    instantiated by that answer (`rename_variables([template])[0]`: variables still unbound in
    it are new variables) to the result list on top of `acc`; never abandon. -/
def findallCollect (f : Nat) (tmpl : Term) : K := fun w' =>
  match resolve w'.b f tmpl with
  | some v =>
      let (vs, n) := canonVars [v]
      let v' := (vs.headD v).rename (· + w'.next)
      ({ w' with next := w'.next + n,
                 acc := match w'.acc with
                       | top :: rest => (top ++ [v']) :: rest
                       | [] => [[v']] }, none)
  | none => (w', some .oof)

/-- A registered Python predicate (see `PyPred`). -/
def runPy : Nat → List Fact → Option Nat → Nat → List Term → Gen
  | _, [], r, i, _, _, w => if r == some i then (w, some (.exn "UserError")) else (w, none)
  | f, row :: rows, r, i, args, k, w =>
      if r == some i then (w, some (.exn "UserError")) else
      match matchFact f row args k w with
      | (w', none) => runPy f rows r (i+1) args k w'
      | res => res

mutual
/-- `YP.query(name, args)`: dynamic facts first, then the registered definition(s). -/
def query (cfg : Cfg) : Nat → String → List Term → Gen
  | 0, _, _, _, w => (w, some .oof)
  | f+1, name, args, k, w =>
      match matchDynamic f name args k w with
      | (w1, none) =>
          if cfg.blacklist.contains name then (w1, none) else
          match (cfg.defs.get (predKey name args.length)).orElse
                  (fun _ => cfg.defs.get (variadicKey name)) with
          | none => (w1, none)
          | some chain => runChain cfg f chain args k w1
      | r => r
/-- `chain_functions`: the definitions for one key, in load order. -/
def runChain (cfg : Cfg) : Nat → List Def → List Term → Gen
  | 0, _, _, _, w => (w, some .oof)
  | _+1, [], _, _, w => (w, none)
  | f+1, d :: ds, args, k, w =>
      match runDef cfg f d args k w with
      | (w', none) => runChain cfg f ds args k w'
      | r => r
def runDef (cfg : Cfg) : Nat → Def → List Term → Gen
  | 0, _, _, _, w => (w, some .oof)
  | f+1, .prolog p mode, args, k, w =>
      match mode with
      | .compiled =>
          leaveFrame (runClauses (fun cc => runClauseCompiled f (query cfg f) cc args)
                        (compilePred p 0).1 (wrapK k) w)
      | .reference =>
          leaveFrame (runClauses (fun c => runClauseRef f (query cfg f) c args)
                        p.clauses (wrapK k) w)
      | .refbody =>
          leaveFrame (runClauses (fun (x : ClauseCode × Clause) => runClauseRefBody f (query cfg f) x.1 x.2.body args)
                        ((compilePred p 0).1.zip p.clauses) (wrapK k) w)
  | f+1, .py p, args, k, w => runPy f p.rows p.raiseAt 0 args k w
  | f+1, .builtin b, args, k, w => runBuiltin cfg f b args k w
def runBuiltin (cfg : Cfg) : Nat → String → List Term → Gen
  | 0, _, _, _, w => (w, some .oof)
  | f+1, b, args, k, w =>
    match b, args with
    | "=", [a, b] => unify f a b k w
    | "\\=", [a, b] =>
        -- builtin_neq: (X = Y -> fail ; true)
        match query cfg f "=" [a, b] (fun w' => (w', some .stop)) w with
        | (w', some .stop) => (w', none)
        | (w', none) => k w'
        | r => r
    | "call", g :: extra => callGoal cfg f g extra k w
    | "once", [g] => onceGen (callGoal cfg f g []) k w
    | "findall", [tmpl, g, bag] =>
        -- results = makelist([get_value(template) for r in call(goal)])
        match callGoal cfg f g [] (findallCollect f tmpl)
                { w with acc := [] :: w.acc } with
        | (w', none) =>
            let results := w'.acc.headD []
            unify f bag (mkList results) k { w' with acc := w'.acc.tail }
        | (w', s) => ({ w' with acc := w'.acc.tail }, s)
    | "assertz", [t] =>
        match factNameArgs f w t with
        | .error s => (w, some s)
        | .ok (name, as) =>
            match assertFact f name as true w with
            | (w', none) => k w'
            | r => r
    | "asserta", [t] =>
        match factNameArgs f w t with
        | .error s => (w, some s)
        | .ok (name, as) =>
            match assertFact f name as false w with
            | (w', none) => k w'
            | r => r
    | "retract", [t] =>
        match factNameArgs f w t with
        | .error s => (w, some s)
        | .ok (name, as) => retractLoop f name as (w.facts name as.length) k w
    | "retractall", [t] =>
        match factNameArgs f w t with
        | .error s => (w, some s)
        | .ok (name, as) =>
            match retractAllLoop f as (w.facts name as.length) [] w with
            | (w', .ok keep) => k (w'.setFacts name as.length keep)
            | (w', .error s) => (w', some s)
    | _, _ => (w, some (.exn "TypeError"))     -- wrong number of arguments for a fixed-arity builtin
/-- `YP.call(goal, *args)`. -/
def callGoal (cfg : Cfg) : Nat → Term → List Term → Gen
  | 0, _, _, _, w => (w, some .oof)
  | f+1, g, extra, k, w =>
      match walk w.b (f+1) g with
      | none => (w, some .oof)
      | some (.atom s) => query cfg f s extra k w
      | some (.fn name as) => query cfg f name (as ++ extra) k w
      | some _ => (w, some (.exn "YPException"))
end

end Yld
