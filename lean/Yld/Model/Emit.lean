/-
  The emitted Python, as an abstract syntax tree.

  Model of: yp_generator.py  YPPrologCompiler.compile_program / compile_function /
  compile_function_body (through Engine.compileClause) and YPPythonCodeGenerator.generate_*:
  loop-variable naming, the `if doBreak: break` after every loop, the breakable-block flag
  protocol, the wrapper loop and the trailing `if False: yield False`, the nesting limits.
-/
import Yld.Model.Clause
import Yld.Model.Sexp
namespace Yld

inductive PExpr where
  | name (s : String)
  | str (s : String)
  | int (n : Nat)
  | tru | fls
  | call (f : String) (args : List PExpr)
  | list (items : List PExpr)
deriving Repr, Inhabited, BEq

inductive PStmt where
  | assign (lhs : String) (rhs : PExpr)
  | forIn (v : String) (iter : PExpr) (body : List PStmt)
  | ifS (cond : PExpr) (body : List PStmt)
  | yieldS (e : PExpr)
  | returnS | breakS | passS
  | defS (name : String) (args : List String) (body : List PStmt)
deriving Repr, Inhabited, BEq

/-- `compile_expression` / `compile_list` + `generate_*` for expressions. -/
def exprOfSTerm : STerm → PExpr
  | .var v => .name v
  | .atom s => .call "atom" [.str s]
  | .num n => .int n
  | .fn f args => .call "functor" [.str f, .list (args.attach.map fun ⟨a, _⟩ => exprOfSTerm a)]
  | .numfn f args => .call "functor" [.str f, .list (args.attach.map fun ⟨a, _⟩ => exprOfSTerm a)]  -- see `programCrashes`
  | .list [] => .name "ATOM_NIL"
  | .list items => .call "makelist" [.list (items.attach.map fun ⟨a, _⟩ => exprOfSTerm a)]
  | .lpair h t => .call "listpair" [exprOfSTerm h, exprOfSTerm t]

/-- Bracket nesting of the rendered expression (`_enter_bracket`). -/
def PExpr.brackets : PExpr → Nat
  | .call _ args => 1 + (args.attach.map fun ⟨a, _⟩ => a.brackets).foldl max 0
  | .list items => 1 + (items.attach.map fun ⟨a, _⟩ => a.brackets).foldl max 0
  | _ => 0

def breakCode : List PStmt := [.ifS (.name "doBreak") [.breakS]]

def labelName (l : Nat) : String := "cutIf" ++ toString l

mutual
/-- `generate_code_list` at foreach nesting `lvl` (loop variables are `l<lvl+1>`). -/
def stmtsOfCode (lvl : Nat) : List Code → List PStmt
  | [] => []
  | c :: cs => stmtOfCode lvl c ++ stmtsOfCode lvl cs
def stmtOfCode (lvl : Nat) : Code → List PStmt
  | .yieldF => [.yieldS .fls]
  | .yieldT => [.yieldS .tru]
  | .ret => [.returnS]
  | .brk l => [.assign (labelName l) .tru, .assign "doBreak" .tru, .breakS]
  | .block l body =>
      [.assign (labelName l) .fls] ++
      (match body with
        | [] => []
        | _ => [.forIn "_" (.list [.int 1]) (stmtsOfCode lvl body)]) ++
      [.ifS (.name (labelName l)) [.assign "doBreak" .fls]] ++ breakCode
  | .foreach name args body =>
      [.forIn ("l" ++ toString (lvl + 1))
         (.call "query" [.str name, .list (args.map exprOfSTerm)])
         (match body with
           | [] => [.passS]
           | _ => stmtsOfCode (lvl + 1) body)] ++ breakCode
end

/-- Nested `for l in unify(arg_i, expr)` loops around the body code. -/
def wrapUnifs (lvl : Nat) : List (Nat × STerm) → List Code → List PStmt
  | [], code => stmtsOfCode lvl code
  | (i, t) :: rest, code =>
      [.forIn ("l" ++ toString (lvl + 1))
         (.call "unify" [.name ("arg" ++ toString (i + 1)), exprOfSTerm t])
         (match wrapUnifs (lvl + 1) rest code with
           | [] => [.passS]
           | b => b)] ++ breakCode

def stmtsOfClause (cc : ClauseCode) : List PStmt :=
  cc.aliases.map (fun (v, i) => PStmt.assign v (.name ("arg" ++ toString (i + 1)))) ++
  cc.declsHead.map (fun v => PStmt.assign v (.call "variable" [])) ++
  cc.declsBody.map (fun v => PStmt.assign v (.call "variable" [])) ++
  wrapUnifs 0 cc.unifs cc.code

def defOfPred (p : Pred) (ccs : List ClauseCode) : PStmt :=
  let body := (ccs.map stmtsOfClause).flatten
  .defS (predKey p.name p.arity) ((List.range p.arity).map fun i => "arg" ++ toString (i + 1))
    [.assign "doBreak" .fls,
     .forIn "_" (.list [.int 1]) (match body with | [] => [.passS] | b => b),
     .ifS .fls [.yieldS .fls]]

/-- `compile_program` + `generate_program`: one function per name/arity in order of first
    occurrence; `cut_if_counter` runs through the whole program. -/
def compileProgram (preds : List Pred) : List PStmt :=
  (preds.foldl (fun (acc, n) p =>
      let (ccs, n') := compilePred p n
      (acc ++ [defOfPred p ccs], n')) (([] : List PStmt), 0)).1

mutual
/-- Code was built for a term with a numeral functor name: `compile_expression` / `compile_predicate`
    raise at that point. -/
def codeCrashes : Code → Bool
  | .foreach _ args body => args.any STerm.hasNumFn || codesCrash body
  | .block _ body => codesCrash body
  | _ => false
def codesCrash : List Code → Bool
  | [] => false
  | c :: cs => codeCrashes c || codesCrash cs
end

def clauseCrashes (cc : ClauseCode) : Bool :=
  cc.unifs.any (fun (_, t) => t.hasNumFn) || codesCrash cc.code

def programCrashes (preds : List Pred) : Bool :=
  (preds.foldl (fun (acc, n) p =>
      let (ccs, n') := compilePred p n
      (acc || ccs.any clauseCrashes, n')) (false, 0)).1

/-- Static `for` nesting (CPython refuses more than 20) and bracket nesting (more than 200). -/
def PExpr.maxBrackets (e : PExpr) : Nat := e.brackets

mutual
def stmtDepth : PStmt → Nat
  | .forIn _ _ body => 1 + stmtsDepth body
  | .ifS _ body => stmtsDepth body
  | .defS _ _ body => stmtsDepth body
  | _ => 0
def stmtsDepth : List PStmt → Nat
  | [] => 0
  | s :: ss => max (stmtDepth s) (stmtsDepth ss)
end

mutual
def stmtBrackets : PStmt → Nat
  | .assign _ e => e.brackets
  | .forIn _ it body => max it.brackets (stmtsBrackets body)
  | .ifS c body => max c.brackets (stmtsBrackets body)
  | .yieldS e => e.brackets
  | .defS _ _ body => stmtsBrackets body
  | _ => 0
def stmtsBrackets : List PStmt → Nat
  | [] => 0
  | s :: ss => max (stmtBrackets s) (stmtsBrackets ss)
end

/-- The generator's own limits (`_enter_block`, `_enter_bracket`). -/
def tooLarge (prog : List PStmt) : Bool :=
  prog.any fun s => stmtDepth s > 20 || stmtBrackets s > 200

/-! ### S-expression form (compared with `ast.parse` of the real compiler's output) -/

partial def sexpOfPExpr : PExpr → Sexp
  | .name s => .list [.sym "name", .str s]
  | .str s => .list [.sym "str", .str s]
  | .int n => .list [.sym "int", .sym (toString n)]
  | .tru => .sym "true"
  | .fls => .sym "false"
  | .call f args => .list (.sym "call" :: .str f :: args.map sexpOfPExpr)
  | .list items => .list (.sym "list" :: items.map sexpOfPExpr)

partial def sexpOfPStmt : PStmt → Sexp
  | .assign l r => .list [.sym "assign", .str l, sexpOfPExpr r]
  | .forIn v it body => .list [.sym "for", .str v, sexpOfPExpr it, .list (body.map sexpOfPStmt)]
  | .ifS c body => .list [.sym "if", sexpOfPExpr c, .list (body.map sexpOfPStmt)]
  | .yieldS e => .list [.sym "yield", sexpOfPExpr e]
  | .returnS => .list [.sym "return"]
  | .breakS => .list [.sym "break"]
  | .passS => .list [.sym "pass"]
  | .defS n args body => .list [.sym "def", .str n, .list (args.map .str), .list (body.map sexpOfPStmt)]

end Yld
