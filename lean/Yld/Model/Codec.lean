/-
  Encoding of model values as S-expressions (driver protocol).
-/
import Yld.Model.Sexp
import Yld.Model.Engine
namespace Yld
open Sexp

def natOfSexp : Sexp → Option Nat
  | .sym s => s.toNat?
  | _ => none

def intOfSexp : Sexp → Option Int
  | .sym s => s.toInt?
  | _ => none

partial def termOfSexp : Sexp → Option Term
  | .list [.sym "v", n] => (natOfSexp n).map .var
  | .list [.sym "a", .str s] => some (.atom s)
  | .list [.sym "i", n] => (intOfSexp n).map .int
  | .list (.sym "f" :: .str g :: args) => (args.mapM termOfSexp).map (.fn g)
  | _ => none

partial def sexpOfTerm : Term → Sexp
  | .var n => .list [.sym "v", .sym (toString n)]
  | .atom s => .list [.sym "a", .str s]
  | .int i => .list [.sym "i", .sym (toString i)]
  | .fn g args => .list (.sym "f" :: .str g :: args.map sexpOfTerm)

partial def stermOfSexp : Sexp → Option STerm
  | .list [.sym "V", .str s] => some (.var s)
  | .list [.sym "A", .str s] => some (.atom s)
  | .list [.sym "N", n] => (natOfSexp n).map .num
  | .list (.sym "F" :: .str g :: args) => (args.mapM stermOfSexp).map (.fn g)
  | .list (.sym "NF" :: .str g :: args) => (args.mapM stermOfSexp).map (.numfn g)
  | .list (.sym "L" :: items) => (items.mapM stermOfSexp).map .list
  | .list [.sym "P", h, t] => do pure (.lpair (← stermOfSexp h) (← stermOfSexp t))
  | _ => none

partial def sexpOfSTerm : STerm → Sexp
  | .var s => .list [.sym "V", .str s]
  | .atom s => .list [.sym "A", .str s]
  | .num n => .list [.sym "N", .sym (toString n)]
  | .fn g args => .list (.sym "F" :: .str g :: args.map sexpOfSTerm)
  | .numfn g args => .list (.sym "NF" :: .str g :: args.map sexpOfSTerm)
  | .list items => .list (.sym "L" :: items.map sexpOfSTerm)
  | .lpair h t => .list [.sym "P", sexpOfSTerm h, sexpOfSTerm t]

partial def bodyOfSexp : Sexp → Option Body
  | .sym "tru" => some .tru
  | .sym "fail" => some .fail
  | .sym "cut" => some .cut
  | .list (.sym "call" :: .str n :: args) => (args.mapM stermOfSexp).map (.call n)
  | .list [.sym "conj", a, b] => do pure (.conj (← bodyOfSexp a) (← bodyOfSexp b))
  | .list [.sym "disj", a, b] => do pure (.disj (← bodyOfSexp a) (← bodyOfSexp b))
  | .list [.sym "ite", a, b] => do pure (.ite (← bodyOfSexp a) (← bodyOfSexp b))
  | .list [.sym "neg", a] => do pure (.neg (← bodyOfSexp a))
  | _ => none

partial def sexpOfBody : Body → Sexp
  | .tru => .sym "tru"
  | .fail => .sym "fail"
  | .cut => .sym "cut"
  | .cutif l => .list [.sym "cutif", .sym (toString l)]
  | .call n args => .list (.sym "call" :: .str n :: args.map sexpOfSTerm)
  | .conj a b => .list [.sym "conj", sexpOfBody a, sexpOfBody b]
  | .disj a b => .list [.sym "disj", sexpOfBody a, sexpOfBody b]
  | .ite a b => .list [.sym "ite", sexpOfBody a, sexpOfBody b]
  | .neg a => .list [.sym "neg", sexpOfBody a]

/-- A source clause with its head name: `(clause "name" (ARGS...) BODY)`. -/
structure SClause where
  name : String
  clause : Clause
deriving Repr, Inhabited

def sclauseOfSexp : Sexp → Option SClause
  | .list [.sym "clause", .str n, .list args, body] => do
      let head ← args.mapM stermOfSexp
      let b ← bodyOfSexp body
      pure { name := n, clause := { head := head, body := b } }
  | _ => none

def sexpOfSClause (c : SClause) : Sexp :=
  .list [.sym "clause", .str c.name, .list (c.clause.head.map sexpOfSTerm), sexpOfBody c.clause.body]

/-- `visitProgram`: group the clauses by (name, arity), keys in order of first occurrence. -/
def groupClauses (cs : List SClause) : List Pred :=
  cs.foldl (fun acc c =>
    let ar := c.clause.head.length
    if acc.any (fun p => p.name == c.name && p.arity == ar) then
      acc.map fun p => if p.name == c.name && p.arity == ar
                       then { p with clauses := p.clauses ++ [c.clause] } else p
    else acc ++ [{ name := c.name, arity := ar, clauses := [c.clause] }]) []

end Yld
