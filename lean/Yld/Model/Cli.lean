/-
  The debug-comment writer and the command line.

  Model of: yp_prolog_visitor.py comment_lines; compiler.py main / _set_debug_options.
-/
import Yld.Model.Parser
import Yld.Model.Emit
namespace Yld

/-- `re.split(r'\r\n|\r|\n', msg)`; `afterCR` says that the previous character was a `\r`
    (a directly following `\n` belongs to the same separator). -/
def splitAux : Bool → List Char → List (List Char)
  | _, [] => [[]]
  | afterCR, c :: rest =>
    if c = '\n' then (if afterCR then splitAux false rest else [] :: splitAux false rest)
    else if c = '\r' then [] :: splitAux true rest
    else match splitAux false rest with
      | l :: ls => (c :: l) :: ls
      | [] => [[c]]

def splitLines (cs : List Char) : List (List Char) := splitAux false cs

/-- `comment_lines(msg)`: every line of the message gets the comment prefix. -/
def commentLines (msg : List Char) : List Char :=
  ((splitLines msg).map fun l => '#' :: ' ' :: l ++ ['\n']).flatten

/-- The lines of a text as Python's tokenizer sees them (line breaks: \n, \r\n, \r). -/
def pyLines (text : List Char) : List (List Char) := splitLines text

/-- Which of the four debug flags are in force (`_set_debug_options`: -d switches all on). -/
structure Flags where
  debug : Bool := false
  parser : Bool := false
  generator : Bool := false
  filename : Bool := false

def Flags.effParser (f : Flags) : Bool := f.debug || f.parser
def Flags.effGenerator (f : Flags) : Bool := f.debug || f.generator
def Flags.effFilename (f : Flags) : Bool := f.debug || f.filename

end Yld
