/-
  The engine's Python API as a state machine over operation histories.

  Model of: engine.py  YP.__init__/clear, load_script_from_string (overwrite / combine),
            register_function, assert_fact, query driven by a consumer that exhausts it,
            closes it after the k-th answer, or raises; evaluate_bounded.
-/
import Yld.Model.Codec
import Yld.Model.Py
import Yld.Generated.Tables
namespace Yld

/-- The keys under which `_set_builtin_predicates` registers the builtins
    (table generated from engine.py by harness/extract.py). -/
def builtinDefs : Defs := Generated.builtins.map fun (name, key, _) => (key, [Def.builtin name])

/-- Keys of `_set_default_eval_context` (the API names handed to loaded code). -/
def apiNames : List String := Generated.apiNames

/-- `eval_blacklist = list(eval_context.keys())` at construction time. -/
def defaultBlacklist : List String := apiNames ++ builtinDefs.map (·.1)

structure Engine where
  w : World := { next := 1000 }      -- cells 0…999 are the harness's own `yp.variable()`s
  defs : Defs := builtinDefs
  blacklist : List String := defaultBlacklist
deriving Inhabited

inductive Sched where
  | all
  | stop (k : Nat)      -- close()/drop after the k-th answer (k = 0: never started)
  | raise (k : Nat)     -- the consumer raises at the k-th answer
deriving Repr, Inhabited

def Defs.set (d : Defs) (key : String) (v : List Def) : Defs :=
  if d.any (·.1 == key) then d.map fun (k, x) => if k == key then (k, v) else (k, x)
  else d ++ [(key, v)]

/-- `load_script_from_string`: every function the script defines replaces (overwrite) or is
    chained after (combine) the existing definition for the same key. -/
def Engine.load (e : Engine) (mode : Mode) (cs : List SClause) (overwrite : Bool) : Engine :=
  let preds := groupClauses cs
  { e with defs := preds.foldl (fun d p =>
      let key := predKey p.name p.arity
      let old := (d.get key).getD []
      d.set key (if overwrite then [.prolog p mode] else old ++ [.prolog p mode])) e.defs }

/-- `register_function(name, func, arity)`: arity `none` = variadic (`name_n`). -/
def Engine.register (e : Engine) (name : String) (arity : Option Nat) (p : PyPred) : Engine :=
  let key := match arity with | some n => predKey name n | none => variadicKey name
  { e with defs := e.defs.set key [.py p] }

/-- `clear()`: facts and definitions are dropped; variable objects live on. -/
def Engine.clear (e : Engine) : Engine :=
  { e with w := { e.w with db := [] }, defs := builtinDefs }

/-- Number of bound cells (must be 0 between top-level operations). -/
def World.boundCount (w : World) : Nat :=
  (List.range w.next).countP fun x => (w.b x).isSome

/-- The top-level consumer: record the resolved arguments, then continue, stop or raise. -/
def topConsumer (fuel : Nat) (args : List Term) (sched : Sched) : K := fun w =>
  match args.mapM (resolve w.b fuel) with
  | none => (w, some .oof)
  | some vs =>
    let ans := Term.fn "$ans" (canonVars vs).1
    let (cur, rest) := match w.acc with | top :: rest => (top, rest) | [] => ([], [])
    let cur := cur ++ [ans]
    let w := { w with acc := cur :: rest }
    match sched with
    | .all => (w, none)
    | .stop k => if cur.length ≥ k then (w, some .stop) else (w, none)
    | .raise k => if cur.length ≥ k then (w, some (.exn "ConsumerError")) else (w, none)

structure QueryResult where
  answers : List Term
  ending : Option Sig
  bound : Nat
  cyc : Bool := false
deriving Repr, Inhabited

/-! ### The queried predicate run from its Python text

`YP.query` as `query` models it, except that the generated function of the queried predicate is
run by the Python semantics of `Yld.Model.Py` from the statements `Emit` prints for it; the
predicates it calls run as compiled code. Fuel is spent as `query` spends it. -/

def runDefPyTop (cfg : Cfg) : Nat → Def → List Term → Gen
  | 0, _, _, _, w => (w, some .oof)
  | f+1, .prolog p _, args, k, w =>
      pyCall (Yld.query cfg f) (unify f) (defOfPred p (compilePred p 0).1) args k w
  | f+1, d, args, k, w => runDef cfg (f+1) d args k w

def runChainPyTop (cfg : Cfg) : Nat → List Def → List Term → Gen
  | 0, _, _, _, w => (w, some .oof)
  | _+1, [], _, _, w => (w, none)
  | f+1, d :: ds, args, k, w =>
      match runDefPyTop cfg f d args k w with
      | (w', none) => runChainPyTop cfg f ds args k w'
      | r => r

def queryPyTop (cfg : Cfg) : Nat → String → List Term → Gen
  | 0, _, _, _, w => (w, some .oof)
  | f+1, name, args, k, w =>
      match matchDynamic f name args k w with
      | (w1, none) =>
          if cfg.blacklist.contains name then (w1, none) else
          match (cfg.defs.get (predKey name args.length)).orElse
                  (fun _ => cfg.defs.get (variadicKey name)) with
          | none => (w1, none)
          | some chain => runChainPyTop cfg f chain args k w1
      | r => r

/-! ### Every predicate run from its Python text

The engine's mutual block once more, with one difference: a Prolog definition is executed by
interpreting the `def` that `Emit` prints for it (`pyCall`), and so are the predicates it calls.
`Yld.Proofs.PyDeep` proves that this is `query` in compiled mode. -/

mutual
/-- `query`, with every generated function run from its printed Python text (`Yld.Model.Py`). -/
def queryD (cfg : Cfg) : Nat → String → List Term → Gen
  | 0, _, _, _, w => (w, some .oof)
  | f+1, name, args, k, w =>
      match matchDynamic f name args k w with
      | (w1, none) =>
          if cfg.blacklist.contains name then (w1, none) else
          match (cfg.defs.get (predKey name args.length)).orElse
                  (fun _ => cfg.defs.get (variadicKey name)) with
          | none => (w1, none)
          | some chain => runChainD cfg f chain args k w1
      | r => r

def runChainD (cfg : Cfg) : Nat → List Def → List Term → Gen
  | 0, _, _, _, w => (w, some .oof)
  | _+1, [], _, _, w => (w, none)
  | f+1, d :: ds, args, k, w =>
      match runDefD cfg f d args k w with
      | (w', none) => runChainD cfg f ds args k w'
      | r => r
def runDefD (cfg : Cfg) : Nat → Def → List Term → Gen
  | 0, _, _, _, w => (w, some .oof)
  | f+1, .prolog p _, args, k, w =>
      -- the generated function, interpreted from its printed text; its callees likewise
      pyCall (queryD cfg f) (unify f) (defOfPred p (compilePred p 0).1) args k w
  | f+1, .py p, args, k, w => runPy f p.rows p.raiseAt 0 args k w
  | f+1, .builtin b, args, k, w => runBuiltinD cfg f b args k w
def runBuiltinD (cfg : Cfg) : Nat → String → List Term → Gen
  | 0, _, _, _, w => (w, some .oof)
  | f+1, b, args, k, w =>
    match b, args with
    | "=", [a, b] => unify f a b k w
    | "\\=", [a, b] =>
        -- builtin_neq: (X = Y -> fail ; true)
        match queryD cfg f "=" [a, b] (fun w' => (w', some .stop)) w with
        | (w', some .stop) => (w', none)
        | (w', none) => k w'
        | r => r
    | "call", g :: extra => callGoalD cfg f g extra k w
    | "once", [g] => onceGen (callGoalD cfg f g []) k w
    | "findall", [tmpl, g, bag] =>
        -- results = makelist([get_value(template) for r in call(goal)])
        match callGoalD cfg f g [] (findallCollect f tmpl)
                { w with acc := [] :: w.acc } with
        | (w', none) =>
            let results := w'.acc.headD []
            unify f bag (mkList results) k { w' with acc := w'.acc.tail }
        | (w', s) => ({ w' with acc := w'.acc.tail }, s)
    | "assertz", [t] =>
        match factNameArgs f w t with
        | .error s => (w, some s)
        | .ok (name, as) =>
            match assertFact f name as true w with
            | (w', none) => k w'
            | r => r
    | "asserta", [t] =>
        match factNameArgs f w t with
        | .error s => (w, some s)
        | .ok (name, as) =>
            match assertFact f name as false w with
            | (w', none) => k w'
            | r => r
    | "retract", [t] =>
        match factNameArgs f w t with
        | .error s => (w, some s)
        | .ok (name, as) => retractLoop f name as (w.facts name as.length) k w
    | "retractall", [t] =>
        match factNameArgs f w t with
        | .error s => (w, some s)
        | .ok (name, as) =>
            match retractAllLoop f as (w.facts name as.length) [] w with
            | (w', .ok keep) => k (w'.setFacts name as.length keep)
            | (w', .error s) => (w', some s)
    | _, _ => (w, some (.exn "TypeError"))     -- wrong number of arguments for a fixed-arity builtin

def callGoalD (cfg : Cfg) : Nat → Term → List Term → Gen
  | 0, _, _, _, w => (w, some .oof)
  | f+1, g, extra, k, w =>
      match walk w.b (f+1) g with
      | none => (w, some .oof)
      | some (.atom s) => queryD cfg f s extra k w
      | some (.fn name as) => queryD cfg f name (as ++ extra) k w
      | some _ => (w, some (.exn "YPException"))
end


def Engine.query (e : Engine) (mode : Mode) (fuel : Nat) (name : String) (args : List Term)
    (sched : Sched) (pyTop : Bool := false) : Engine × QueryResult :=
  let cfg : Cfg := { blacklist := e.blacklist, defs := e.defs, mode := mode }
  let w0 := { e.w with acc := [] :: e.w.acc, cyc := false }
  let (w1, r) :=
    match sched with
    | .stop 0 => (w0, some Sig.stop)
    | .raise 0 => (w0, some (Sig.exn "ConsumerError"))
    | _ => if pyTop then queryD cfg fuel name args (topConsumer fuel args sched) w0
           else Yld.query cfg fuel name args (topConsumer fuel args sched) w0
  let answers := w1.acc.headD []
  let w2 := { w1 with acc := w1.acc.tail }
  ({ e with w := w2 }, { answers := answers, ending := r, bound := w2.boundCount, cyc := w2.cyc })

/-- `assert_fact` through the API. -/
def Engine.assertFact (e : Engine) (fuel : Nat) (name : String) (args : List Term) (append : Bool) :
    Engine × Option Sig :=
  let (w', r) := Yld.assertFact fuel name args append e.w
  ({ e with w := w' }, r)

/-- `evaluate_bounded(query, projection, limit)`: the projection records the resolved
    arguments and raises at its `raiseAt`-th call. Returns the collected prefix, whether the
    projection's exception escapes, and the number of cells still bound afterwards. -/
def Engine.evaluateBounded (e : Engine) (mode : Mode) (limit : Nat) (name : String)
    (args : List Term) (raiseAt : Option Nat) (pyTop : Bool := false) : Engine × QueryResult :=
  let sched := match raiseAt with | some k => Sched.raise k | none => Sched.all
  let (e', r) := e.query mode limit name args sched pyTop
  -- `except RuntimeError: pass`: a recursion error ends the collection silently
  let ending := match r.ending with
    | some .oof => none
    | x => x
  -- when the projection raises, the exception escapes and nothing is returned
  let answers := match raiseAt, r.ending with
    | some _, some (.exn _) => []
    | _, _ => r.answers
  (e', { r with answers := answers, ending := ending })

end Yld
