/-
  Theorem B for whole functions: the `def` the compiler prints for a predicate, called under the
  Python semantics, is the engine model's compiled mode for that predicate
  (`leaveFrame (runClauses (runClauseCompiled …) …)`): prologue assignments, nested `unify` loops,
  clause after clause inside the one-element wrapper loop, `return` for cut.
-/
import Yld.Proofs.PyCorrect
import Yld.Proofs.Program
namespace Yld

/-! ### Environments that agree on the variables in use -/

def EnvAgree (vars : List String) (e1 e2 : Env) : Prop := ∀ v ∈ vars, e1.get v = e2.get v

theorem EnvAgree.mono {vs vs' : List String} {e1 e2 : Env} (h : EnvAgree vs e1 e2) (hs : ∀ v ∈ vs', v ∈ vs) :
    EnvAgree vs' e1 e2 := fun v hv => h v (hs v hv)

theorem eval_congr (e1 e2 : Env) (t : STerm) (h : EnvAgree t.vars e1 e2) : t.eval e1 = t.eval e2 := by
  induction t using STerm.rec (motive_2 := fun ts => (∀ t ∈ ts, EnvAgree t.vars e1 e2) →
      ts.map (STerm.eval e1) = ts.map (STerm.eval e2)) with
  | var n => simp only [STerm.eval]; exact h n (by simp [STerm.vars])
  | atom s => simp [STerm.eval]
  | num n => simp [STerm.eval]
  | fn f args ih =>
    rw [eval_fn', eval_fn', ih]
    intro t ht v hv; apply h; rw [vars_fn']; exact List.mem_flatten.mpr ⟨_, List.mem_map.mpr ⟨t, ht, rfl⟩, hv⟩
  | numfn f args ih =>
    rw [eval_numfn', eval_numfn', ih]
    intro t ht v hv; apply h; rw [vars_numfn']; exact List.mem_flatten.mpr ⟨_, List.mem_map.mpr ⟨t, ht, rfl⟩, hv⟩
  | list items ih =>
    rw [eval_list', eval_list', ih]
    intro t ht v hv; apply h; rw [vars_list']; exact List.mem_flatten.mpr ⟨_, List.mem_map.mpr ⟨t, ht, rfl⟩, hv⟩
  | lpair a b iha ihb =>
    simp only [STerm.eval]
    rw [iha (fun v hv => h v (by simp [STerm.vars, hv])), ihb (fun v hv => h v (by simp [STerm.vars, hv]))]
  | nil => simp
  | cons a as iha ihas =>
    rename_i hall
    simp only [List.map_cons]
    rw [iha (hall a (by simp)), ihas (fun t ht => hall t (by simp [ht]))]

mutual
/-- Variables of a piece of IR. -/
def Code.vars : Code → List String
  | .foreach _ args body => (args.map STerm.vars).flatten ++ Code.varsL body
  | .block _ body => Code.varsL body
  | _ => []
def Code.varsL : List Code → List String
  | [] => []
  | c :: cs => c.vars ++ Code.varsL cs
end

theorem exec_congr (q : Q) (e1 e2 : Env) :
    (∀ c, EnvAgree c.vars e1 e2 → exec q e1 c = exec q e2 c) ∧
    (∀ cs, EnvAgree (Code.varsL cs) e1 e2 → execList q e1 cs = execList q e2 cs) := by
  have key : ∀ c, EnvAgree c.vars e1 e2 → exec q e1 c = exec q e2 c := by
    intro c
    induction c using Code.rec (motive_2 := fun cs => EnvAgree (Code.varsL cs) e1 e2 → execList q e1 cs = execList q e2 cs) with
    | yieldF => intro _; funext k w; rw [exec_yieldF, exec_yieldF]
    | yieldT => intro _; funext k w; rw [exec_yieldT, exec_yieldT]
    | ret => intro _; funext k w; rw [exec_ret, exec_ret]
    | brk l => intro _; funext k w; rw [exec_brk, exec_brk]
    | block l body ih =>
      intro h; funext k w
      rw [exec_block, exec_block, ih (by rw [Code.vars] at h; exact h)]
    | foreach name args body ih =>
      intro h; funext k w
      rw [Code.vars] at h
      rw [exec_foreach, exec_foreach, ih (h.mono (by intro v hv; simp [hv]))]
      have : args.map (STerm.eval e1) = args.map (STerm.eval e2) := by
        apply List.map_congr_left
        intro t ht
        exact eval_congr e1 e2 t (fun v hv => h v (by
          simp only [List.mem_append, List.mem_flatten, List.mem_map]
          exact Or.inl ⟨_, ⟨t, ht, rfl⟩, hv⟩))
      rw [this]
    | nil => funext k w; rw [execList_nil, execList_nil]
    | cons c cs ihc ihcs =>
      rename_i h
      rw [Code.varsL] at h
      funext k w
      rw [execList_cons, execList_cons, ihc (h.mono (by intro v hv; simp [hv])), ihcs (h.mono (by intro v hv; simp [hv]))]
  refine ⟨key, ?_⟩
  intro cs
  induction cs with
  | nil => intro _; funext k w; rw [execList_nil, execList_nil]
  | cons c cs ih =>
    intro h
    rw [Code.varsL] at h
    funext k w
    rw [execList_cons, execList_cons, key c (h.mono (by intro v hv; simp [hv])), ih (h.mono (by intro v hv; simp [hv]))]

/-! ### The nested `unify` loops of a clause head -/

def argName (i : Nat) : String := "arg" ++ toString (i + 1)

theorem argName_ne_nil (i : Nat) : argName i ≠ "ATOM_NIL" := by
  intro h
  have := congrArg String.toList h
  simp [argName, String.toList_append] at this

theorem argName_inj {a b : Nat} (h : argName a = argName b) : a = b := by
  have h' := congrArg String.toList h
  simp only [argName, String.toList_append, List.append_cancel_left_eq] at h'
  have := Nat.repr_injective (String.toList_inj.mp h')
  omega

theorem unifyHead_nil (fuel : Nat) (env : Env) (args : List Term) (g : Gen) : unifyHead fuel env args [] g = g := by
  rw [unifyHead]
theorem unifyHead_cons (fuel : Nat) (env : Env) (args : List Term) (i : Nat) (t : STerm) (rest : List (Nat × STerm))
    (g : Gen) (k : K) (w : World) :
    unifyHead fuel env args ((i, t) :: rest) g k w =
      unify fuel (args.getD i (.atom "$noarg")) (t.eval env) (fun w' => unifyHead fuel env args rest g k w') w := by
  rw [unifyHead]

theorem wrapUnifs_nil (lvl : Nat) (code : List Code) : wrapUnifs lvl [] code = stmtsOfCode lvl code := by rw [wrapUnifs]
theorem wrapUnifs_cons (lvl i : Nat) (t : STerm) (rest : List (Nat × STerm)) (code : List Code) :
    wrapUnifs lvl ((i, t) :: rest) code =
      [.forIn ("l" ++ toString (lvl + 1)) (.call "unify" [.name (argName i), exprOfSTerm t])
         (match wrapUnifs (lvl + 1) rest code with | [] => [.passS] | b => b)] ++ breakCode := by
  rw [wrapUnifs]; rfl

theorem pyStmts_orPass (q : Q) (u : Term → Term → Gen) (b : List PStmt) (k : K) (σ : PyLoc) (w : World) :
    pyStmts q u (match b with | [] => [.passS] | b => b) k σ w = pyStmts q u b k σ w := by
  cases b with
  | nil => simp [pyStmts_cons, pyStmts_nil, py_pass]
  | cons s ss => rfl

theorem loopGen_unify (q : Q) (u : Term → Term → Gen) (env : Env) (i : Nat) (t : STerm) (ht : t.noNil) :
    loopGen q u env "unify" [.name (argName i), exprOfSTerm t] = some (u (env.get (argName i)) (t.eval env)) := by
  have h1 : evalExpr env (.name (argName i)) = some (env.get (argName i)) := by
    simp [evalExpr, argName_ne_nil]
  simp [loopGen, h1, evalExpr_exprOfSTerm env t ht]

theorem wrapUnifs_correct (q : Q) (hq : ∀ n a, FrameLocal (q n a)) (fuel : Nat) (hu : ∀ a b, FrameLocal (unify fuel a b))
    (env2 : Env) (args : List Term) (code : List Code) (hwf : WFL [] code) :
    ∀ (unifs : List (Nat × STerm)) (lvl : Nat) (k : K) (σ : PyLoc) (w : World), External k → Inv [] σ.2 →
      (∀ p ∈ unifs, σ.1.get (argName p.1) = args.getD p.1 (.atom "$noarg") ∧ p.2.noNil ∧ EnvAgree p.2.vars σ.1 env2) →
      EnvAgree (Code.varsL code) σ.1 env2 →
      SimB [] σ.1 (pyStmts q (unify fuel) (wrapUnifs lvl unifs code) k σ w)
        (unifyHead fuel env2 args unifs (execList q env2 code) k w) := by
  intro unifs
  induction unifs with
  | nil =>
    intro lvl k σ w hk hσ _ hag
    rw [wrapUnifs_nil, unifyHead_nil, ← (exec_congr q σ.1 env2).2 code hag]
    exact (py_code_correct q (unify fuel) hq).2 code [] lvl k σ w hwf hk hσ
  | cons p rest ih =>
    obtain ⟨i, t⟩ := p
    intro lvl k σ w hk hσ hun hag
    obtain ⟨harg, hnil, hta⟩ := hun (i, t) (by simp)
    rw [wrapUnifs_cons, unifyHead_cons, List.cons_append, List.nil_append, pyStmts_cons,
      py_for_gen q (unify fuel) k σ w _ _ _ _ (loopGen_unify q (unify fuel) σ.1 i t hnil)]
    simp only at harg
    rw [harg, eval_congr σ.1 env2 t hta]
    apply loop_correct q (unify fuel) [] σ.1 _ (hu _ _) _ k
      (fun w' => unifyHead fuel env2 args rest (execList q env2 code) k w') _ σ w rfl hσ
    intro σ1 w1 he1 hσ1
    rw [pyStmts_orPass]
    have := ih (lvl + 1) k σ1 w1 hk hσ1 (by
      intro p hp
      rw [he1]
      exact hun p (List.mem_cons_of_mem _ hp)) (by rw [he1]; exact hag)
    rwa [he1] at this

/-! ### The prologue of a clause: aliases and `variable()` declarations -/

/-- `v_j ↦ variable number base + j` -/
def freshAssoc : List String → Nat → Env
  | [], _ => []
  | v :: vs, b => (v, .var b) :: freshAssoc vs (b + 1)

theorem allocVars_nil (env : Env) (w : World) : allocVars [] env w = (env, w) := rfl
theorem allocVars_cons (v : String) (vs : List String) (env : Env) (w : World) :
    allocVars (v :: vs) env w = allocVars vs (env ++ [(v, .var w.next)]) w.fresh.2 := rfl

theorem allocVars_env (names : List String) : ∀ (env : Env) (w : World),
    (allocVars names env w).1 = env ++ freshAssoc names w.next := by
  induction names with
  | nil => intro env w; simp [allocVars_nil, freshAssoc]
  | cons v vs ih =>
    intro env w
    rw [allocVars_cons, ih]
    simp [freshAssoc, World.fresh]

theorem allocVars_next (names : List String) : ∀ (env : Env) (w : World),
    (allocVars names env w).2.next = w.next + names.length := by
  induction names with
  | nil => intro env w; simp [allocVars_nil]
  | cons v vs ih =>
    intro env w
    rw [allocVars_cons, ih]
    simp [World.fresh]; omega

/-- the `V = variable()` lines, as the Python semantics runs them -/
def pyAlloc (names : List String) (p : Env × World) : Env × World :=
  names.foldl (fun (p : Env × World) v => ((v, Term.var p.2.fresh.1) :: p.1, p.2.fresh.2)) p

theorem pyAlloc_env (names : List String) : ∀ (env : Env) (w : World),
    (pyAlloc names (env, w)).1 = (freshAssoc names w.next).reverse ++ env := by
  induction names with
  | nil => intro env w; simp [pyAlloc, freshAssoc]
  | cons v vs ih =>
    intro env w
    have : pyAlloc (v :: vs) (env, w) = pyAlloc vs ((v, Term.var w.fresh.1) :: env, w.fresh.2) := rfl
    rw [this, ih]
    simp [freshAssoc, World.fresh]

theorem pyAlloc_world (names : List String) : ∀ (e1 e2 : Env) (w : World),
    (pyAlloc names (e1, w)).2 = (allocVars names e2 w).2 := by
  induction names with
  | nil => intro e1 e2 w; rfl
  | cons v vs ih =>
    intro e1 e2 w
    have : pyAlloc (v :: vs) (e1, w) = pyAlloc vs ((v, Term.var w.fresh.1) :: e1, w.fresh.2) := rfl
    rw [this, allocVars_cons, ih]

section prologue
variable (q : Q) (u : Term → Term → Gen) (k : K)

theorem py_assign_name (x y : String) (σ : PyLoc) (w : World) :
    pyStmt q u (.assign x (.name y)) k σ w = (((x, Env.get σ.1 y) :: σ.1, σ.2), w, .norm) := by rw [pyStmt]; rfl
theorem py_assign_variable (x : String) (σ : PyLoc) (w : World) :
    pyStmt q u (.assign x (.call "variable" [])) k σ w = (((x, .var w.fresh.1) :: σ.1, σ.2), w.fresh.2, .norm) := by
  rw [pyStmt]; simp [assignPy]

theorem pyStmts_decls (names : List String) (rest : List PStmt) : ∀ (σ : PyLoc) (w : World),
    pyStmts q u (names.map (fun v => PStmt.assign v (.call "variable" [])) ++ rest) k σ w =
      pyStmts q u rest k ((pyAlloc names (σ.1, w)).1, σ.2) (pyAlloc names (σ.1, w)).2 := by
  induction names with
  | nil => intro σ w; rfl
  | cons v vs ih =>
    intro σ w
    rw [List.map_cons, List.cons_append, pyStmts_cons, py_assign_variable, seqPy_norm, ih]
    rfl

/-- the `V = arg<i>` lines -/
def pyAliases (al : List (String × Nat)) (env : Env) : Env :=
  al.foldl (fun e (p : String × Nat) => (p.1, Env.get e (argName p.2)) :: e) env

theorem pyStmts_aliases (al : List (String × Nat)) (rest : List PStmt) : ∀ (σ : PyLoc) (w : World),
    pyStmts q u (al.map (fun (p : String × Nat) => PStmt.assign p.1 (.name ("arg" ++ toString (p.2 + 1)))) ++ rest) k σ w =
      pyStmts q u rest k (pyAliases al σ.1, σ.2) w := by
  induction al with
  | nil => intro σ w; rfl
  | cons p ps ih =>
    intro σ w
    rw [List.map_cons, List.cons_append, pyStmts_cons, py_assign_name, seqPy_norm, ih]
    rfl
end prologue

/-! ### Association lists with distinct keys -/

theorem nodup_reverse' {l : List String} (h : l.Nodup) : l.reverse.Nodup := by
  simp only [List.Nodup, List.pairwise_reverse] at *
  exact h.imp (fun h => h.symm)

theorem lookup_of_mem_nodup : ∀ (l : Env) (k : String) (v : Term), (l.map Prod.fst).Nodup → (k, v) ∈ l → l.lookup k = some v := by
  intro l
  induction l with
  | nil => intro k v _ h; cases h
  | cons p t ih =>
    obtain ⟨k', v'⟩ := p
    intro k v hn hm
    simp only [List.map_cons, List.nodup_cons] at hn
    by_cases e : k = k'
    · subst e
      rcases List.mem_cons.mp hm with h | h
      · cases h; simp [List.lookup]
      · exact absurd (List.mem_map.mpr ⟨(k, v), h, rfl⟩) hn.1
    · rcases List.mem_cons.mp hm with h | h
      · cases h; exact absurd rfl e
      · have : (k == k') = false := by simpa using e
        simp only [List.lookup, this]
        exact ih k v hn.2 h

theorem lookup_none_of_not_key : ∀ (l : Env) (k : String), k ∉ l.map Prod.fst → l.lookup k = none := by
  intro l
  induction l with
  | nil => intro k _; rfl
  | cons p t ih =>
    obtain ⟨k', v'⟩ := p
    intro k hk
    simp only [List.map_cons, List.mem_cons, not_or] at hk
    have : (k == k') = false := by simpa using hk.1
    simp only [List.lookup, this]
    exact ih k hk.2

theorem exists_of_key (l : Env) (k : String) (h : k ∈ l.map Prod.fst) : ∃ v, (k, v) ∈ l := by
  obtain ⟨p, hp, rfl⟩ := List.mem_map.mp h
  exact ⟨p.2, hp⟩

/-- Looking a name up in `l` reversed and put in front of `r`: as in `l` when `l` has it, else as in `r`. -/
theorem get_reverse_append_key (l r : Env) (k : String) (hn : (l.map Prod.fst).Nodup) (hk : k ∈ l.map Prod.fst) :
    Env.get (l.reverse ++ r) k = Env.get l k := by
  obtain ⟨v, hv⟩ := exists_of_key l k hk
  have h1 := lookup_of_mem_nodup l k v hn hv
  have h2 := lookup_of_mem_nodup l.reverse k v (by rw [List.map_reverse]; exact nodup_reverse' hn) (by simpa using hv)
  simp [Env.get, List.lookup_append, h1, h2]

theorem get_reverse_append_other (l r : Env) (k : String) (hk : k ∉ l.map Prod.fst) :
    Env.get (l.reverse ++ r) k = Env.get r k := by
  have h2 := lookup_none_of_not_key l.reverse k (by simpa [List.map_reverse] using hk)
  simp [Env.get, List.lookup_append, h2]

theorem freshAssoc_keys (names : List String) : ∀ b, (freshAssoc names b).map Prod.fst = names := by
  induction names with
  | nil => intro b; rfl
  | cons v vs ih => intro b; simp [freshAssoc, ih]

/-! ### One clause -/

def noArg : Term := .atom "$noarg"

/-- The parameters hold the arguments of the call. -/
def ArgsOK (args : List Term) (env : Env) : Prop := ∀ i < args.length, env.get (argName i) = args.getD i noArg

def ClauseCode.names (cc : ClauseCode) : List String := cc.aliases.map Prod.fst ++ cc.declsHead ++ cc.declsBody

/-- What the clause compiler guarantees about the pieces it hands to the code generator. -/
structure ClauseOK (cc : ClauseCode) (n : Nat) : Prop where
  nodup : cc.names.Nodup
  notArg : ∀ v ∈ cc.names, ∀ i, v ≠ argName i
  aliasIdx : ∀ p ∈ cc.aliases, p.2 < n
  unifIdx : ∀ p ∈ cc.unifs, p.1 < n
  unifVars : ∀ p ∈ cc.unifs, p.2.noNil ∧ ∀ v ∈ p.2.vars, v ∈ cc.names
  codeVars : ∀ v ∈ Code.varsL cc.code, v ∈ cc.names
  wf : WFL [] cc.code

def aliasAssoc (al : List (String × Nat)) (args : List Term) : Env := al.map fun p => (p.1, args.getD p.2 noArg)

theorem get_cons_other (e : Env) (k k' : String) (v : Term) (h : k ≠ k') : Env.get ((k', v) :: e) k = Env.get e k := by
  have : (k == k') = false := by simpa using h
  simp [Env.get, List.lookup, this]

theorem pyAliases_eq (args : List Term) : ∀ (al : List (String × Nat)) (e : Env), ArgsOK args e →
    (∀ p ∈ al, p.2 < args.length ∧ ∀ i, p.1 ≠ argName i) →
    pyAliases al e = (aliasAssoc al args).reverse ++ e := by
  intro al
  induction al with
  | nil => intro e _ _; rfl
  | cons p ps ih =>
    intro e he hal
    have hp := hal p (by simp)
    have : pyAliases (p :: ps) e = pyAliases ps ((p.1, Env.get e (argName p.2)) :: e) := rfl
    rw [this, ih _ (by
      intro i hi
      rw [get_cons_other _ _ _ _ (fun h => hp.2 i h.symm)]
      exact he i hi) (fun p' hp' => hal p' (List.mem_cons_of_mem _ hp'))]
    rw [he p.2 hp.1]
    simp [aliasAssoc]

theorem runClauseCompiled_eq (fuel : Nat) (q : Q) (cc : ClauseCode) (args : List Term) (k : K) (w : World) :
    runClauseCompiled fuel q cc args k w =
      unifyHead fuel
        (allocVars cc.declsBody (allocVars cc.declsHead (aliasAssoc cc.aliases args) w).1
          (allocVars cc.declsHead (aliasAssoc cc.aliases args) w).2).1 args cc.unifs
        (execList q (allocVars cc.declsBody (allocVars cc.declsHead (aliasAssoc cc.aliases args) w).1
          (allocVars cc.declsHead (aliasAssoc cc.aliases args) w).2).1 cc.code) k
        (allocVars cc.declsBody (allocVars cc.declsHead (aliasAssoc cc.aliases args) w).1
          (allocVars cc.declsHead (aliasAssoc cc.aliases args) w).2).2 := rfl

theorem stmtsOfClause_eq (cc : ClauseCode) :
    stmtsOfClause cc =
      cc.aliases.map (fun (p : String × Nat) => PStmt.assign p.1 (.name ("arg" ++ toString (p.2 + 1)))) ++
      (cc.declsHead.map (fun v => PStmt.assign v (.call "variable" [])) ++
      (cc.declsBody.map (fun v => PStmt.assign v (.call "variable" [])) ++ wrapUnifs 0 cc.unifs cc.code)) := by
  simp [stmtsOfClause, List.append_assoc]

theorem clause_py_correct (q : Q) (hq : ∀ n a, FrameLocal (q n a)) (fuel : Nat) (hu : ∀ a b, FrameLocal (unify fuel a b))
    (cc : ClauseCode) (args : List Term) (hok : ClauseOK cc args.length) (k : K) (hk : External k)
    (σ : PyLoc) (w : World) (hargs : ArgsOK args σ.1) (hσ : Inv [] σ.2) :
    ∃ envP, ArgsOK args envP ∧
      SimB [] envP (pyStmts q (unify fuel) (stmtsOfClause cc) k σ w) (runClauseCompiled fuel q cc args k w) := by
  rw [stmtsOfClause_eq, pyStmts_aliases, pyStmts_decls, pyStmts_decls, runClauseCompiled_eq]
  simp only
  -- the environments on the two sides
  have hal := pyAliases_eq args cc.aliases σ.1 hargs (fun p hp =>
    ⟨hok.aliasIdx p hp, fun i => hok.notArg p.1 (by simp [ClauseCode.names]; exact Or.inl ⟨p.2, hp⟩) i⟩)
  rw [hal, pyAlloc_world cc.declsHead _ (aliasAssoc cc.aliases args) w, pyAlloc_env, pyAlloc_env,
    pyAlloc_world cc.declsBody _ (allocVars cc.declsHead (aliasAssoc cc.aliases args) w).1]
  generalize hw1 : (allocVars cc.declsHead (aliasAssoc cc.aliases args) w).2 = w1
  have he1 : (allocVars cc.declsHead (aliasAssoc cc.aliases args) w).1 = aliasAssoc cc.aliases args ++ freshAssoc cc.declsHead w.next :=
    allocVars_env _ _ _
  rw [he1]
  generalize hw2 : (allocVars cc.declsBody (aliasAssoc cc.aliases args ++ freshAssoc cc.declsHead w.next) w1).2 = w2
  have he2 := allocVars_env cc.declsBody (aliasAssoc cc.aliases args ++ freshAssoc cc.declsHead w.next) w1
  rw [he2]
  -- env2 and the Python frame's variables
  let env2 : Env := aliasAssoc cc.aliases args ++ freshAssoc cc.declsHead w.next ++ freshAssoc cc.declsBody w1.next
  have hP : (freshAssoc cc.declsBody w1.next).reverse ++
      ((freshAssoc cc.declsHead w.next).reverse ++ ((aliasAssoc cc.aliases args).reverse ++ σ.1)) = env2.reverse ++ σ.1 := by
    simp [env2, List.reverse_append, List.append_assoc]
  rw [hP]
  have hkeys : env2.map Prod.fst = cc.names := by
    simp [env2, ClauseCode.names, freshAssoc_keys, aliasAssoc, List.map_map, Function.comp_def]
  have hnd : (env2.map Prod.fst).Nodup := by rw [hkeys]; exact hok.nodup
  have hag : ∀ v ∈ cc.names, Env.get (env2.reverse ++ σ.1) v = Env.get env2 v := by
    intro v hv
    exact get_reverse_append_key env2 σ.1 v hnd (by rw [hkeys]; exact hv)
  have hargs' : ArgsOK args (env2.reverse ++ σ.1) := by
    intro i hi
    rw [get_reverse_append_other env2 σ.1 _ (by
      rw [hkeys]; intro hm; exact hok.notArg _ hm i rfl)]
    exact hargs i hi
  refine ⟨env2.reverse ++ σ.1, hargs', ?_⟩
  have := wrapUnifs_correct q hq fuel hu env2 args cc.code hok.wf cc.unifs 0 k (env2.reverse ++ σ.1, σ.2) w2 hk hσ
    (by
      intro p hp
      refine ⟨?_, (hok.unifVars p hp).1, fun v hv => hag v ((hok.unifVars p hp).2 v hv)⟩
      exact hargs' p.1 (hok.unifIdx p hp))
    (fun v hv => hag v (hok.codeVars v hv))
  exact this

/-! ### The clauses of a function, one after the other -/

inductive SimCE (args : List Term) (σ : PyLoc) : Ctl → Option Sig → Prop
  | norm : ArgsOK args σ.1 → Inv [] σ.2 → SimCE args σ .norm none
  | ret : SimCE args σ .ret (some .ret)
  | sig (s : Sig) : Passes s → SimCE args σ (.sig s) (some s)

def SimE (args : List Term) (p : PyR) (r : R) : Prop := p.2.1 = r.1 ∧ SimCE args p.1 p.2.2 r.2

theorem SimE_of_SimB {args : List Term} {envP : Env} {p : PyR} {r : R} (ha : ArgsOK args envP) (h : SimB [] envP p r) :
    SimE args p r := by
  obtain ⟨σ, w, c⟩ := p
  obtain ⟨w2, s2⟩ := r
  obtain ⟨hw, hc⟩ := h
  change w = w2 at hw
  change SimC [] envP σ c s2 at hc
  subst hw
  cases hc with
  | norm he hi => exact ⟨rfl, .norm (he ▸ ha) hi⟩
  | brk l he hl hs => cases hl
  | ret => exact ⟨rfl, .ret⟩
  | sig s hp => exact ⟨rfl, .sig s hp⟩

theorem runClauses_nil {α : Type} (run : α → Gen) (k : K) (w : World) : runClauses run [] k w = (w, none) := rfl
theorem runClauses_cons {α : Type} (run : α → Gen) (c : α) (cs : List α) (k : K) (w : World) :
    runClauses run (c :: cs) k w = andThenR (fun w' => runClauses run cs k w') (run c k w) := by
  simp only [runClauses]
  rcases run c k w with ⟨w', s⟩
  cases s <;> rfl

theorem clauses_py_correct (q : Q) (hq : ∀ n a, FrameLocal (q n a)) (fuel : Nat) (hu : ∀ a b, FrameLocal (unify fuel a b))
    (args : List Term) (k : K) (hk : External k) :
    ∀ (ccs : List ClauseCode), (∀ cc ∈ ccs, ClauseOK cc args.length) → ∀ (σ : PyLoc) (w : World), ArgsOK args σ.1 → Inv [] σ.2 →
      SimE args (pyStmts q (unify fuel) (ccs.map stmtsOfClause).flatten k σ w)
        (runClauses (fun cc => runClauseCompiled fuel q cc args) ccs k w) := by
  intro ccs
  induction ccs with
  | nil =>
    intro _ σ w ha hσ
    simp only [List.map_nil, List.flatten_nil, pyStmts_nil, runClauses_nil]
    exact ⟨rfl, .norm ha hσ⟩
  | cons cc ccs ih =>
    intro hok σ w ha hσ
    rw [List.map_cons, List.flatten_cons, pyStmts_append, runClauses_cons]
    obtain ⟨envP, haP, hsim⟩ := clause_py_correct q hq fuel hu cc args (hok cc (by simp)) k hk σ w ha hσ
    have h1 := SimE_of_SimB haP hsim
    generalize pyStmts q (unify fuel) (stmtsOfClause cc) k σ w = p at h1 ⊢
    generalize runClauseCompiled fuel q cc args k w = r at h1 ⊢
    obtain ⟨σ', w', c⟩ := p
    obtain ⟨w2, s2⟩ := r
    obtain ⟨hw, hc⟩ := h1
    change w' = w2 at hw
    change SimCE args σ' c s2 at hc
    subst hw
    cases hc with
    | norm ha' hi' => simpa using ih (fun c hc => hok c (List.mem_cons_of_mem _ hc)) σ' w' ha' hi'
    | ret => exact ⟨rfl, .ret⟩
    | sig s hp => exact ⟨rfl, .sig s hp⟩

/-! ### The whole function -/

theorem lookup_zip_params (args : List Term) : ∀ (s : Nat) (i : Nat), i < args.length →
    (((List.range' s args.length).map argName).zip args).lookup (argName (s + i)) = some (args.getD i noArg) := by
  induction args with
  | nil => intro s i hi; cases hi
  | cons a as ih =>
    intro s i hi
    simp only [List.length_cons, List.range'_succ, List.map_cons, List.zip_cons_cons]
    cases i with
    | zero => simp [List.lookup]
    | succ j =>
      have hne : (argName (s + (j + 1)) == argName s) = false := by
        have : argName (s + (j + 1)) ≠ argName s := fun h => by have := argName_inj h; omega
        simpa using this
      simp only [List.lookup, hne]
      have := ih (s + 1) j (by simpa using hi)
      rw [show s + 1 + j = s + (j + 1) by omega] at this
      simpa using this

theorem argsOK_params (args : List Term) :
    ArgsOK args (((List.range args.length).map fun i => "arg" ++ toString (i + 1)).zip args) := by
  intro i hi
  have := lookup_zip_params args 0 i hi
  simp only [Nat.zero_add] at this
  have e : (List.range args.length).map (fun i => "arg" ++ toString (i + 1)) = (List.range' 0 args.length).map argName := by
    rw [List.range_eq_range']; rfl
  rw [e]
  simp only [Env.get, this]

theorem leave_correct (q : Q) (u : Term → Term → Gen) (k : K) (args : List Term) (pr : PyR) (r : R) (h : SimE args pr r) :
    leavePy (seqPy (fun σ' w' => pyStmts q u [.ifS .fls [.yieldS .fls]] k σ' w') (catchBreak pr)) = leaveFrame r := by
  obtain ⟨σ', w', c⟩ := pr
  obtain ⟨w2, s2⟩ := r
  obtain ⟨hw, hc⟩ := h
  change w' = w2 at hw
  change SimCE args σ' c s2 at hc
  subst hw
  cases hc with
  | norm _ _ =>
    simp only [catchBreak_norm, seqPy_norm, pyStmts_cons, pyStmts_nil]
    rw [pyStmt]; rfl
  | ret => rfl
  | sig s hp =>
    rcases hp with ⟨t, rfl⟩ | rfl | ⟨e, rfl⟩ | rfl <;> rfl

/-- **Theorem B (functions).** The `def` printed for a predicate, called under the Python
    semantics on as many arguments as it has parameters, with any consumer, is what the engine
    model does for that predicate in compiled mode — the same unifications, the same calls with the
    same consumers in the same worlds, the same outcome. -/
theorem py_function_correct (q : Q) (hq : ∀ n a, FrameLocal (q n a)) (fuel : Nat) (hu : ∀ a b, FrameLocal (unify fuel a b))
    (p : Pred) (ccs : List ClauseCode) (args : List Term) (harity : p.arity = args.length)
    (hok : ∀ cc ∈ ccs, ClauseOK cc args.length) (k : K) (w : World) :
    pyCall q (unify fuel) (defOfPred p ccs) args k w =
      leaveFrame (runClauses (fun cc => runClauseCompiled fuel q cc args) ccs (wrapK k) w) := by
  simp only [pyCall, defOfPred, harity]
  rw [pyStmts_cons, py_assign_fls, seqPy_norm, pyStmts_cons, py_for_one]
  have hσ : Inv [] (PyFlags.set [] "doBreak" false) := ⟨by simp, fun l hl => by cases hl⟩
  have h := clauses_py_correct q hq fuel hu args (wrapK k) (wrapK_external k) ccs hok
    (((List.range args.length).map fun i => "arg" ++ toString (i + 1)).zip args, PyFlags.set [] "doBreak" false) w
    (argsOK_params args) hσ
  generalize (ccs.map stmtsOfClause).flatten = B at h ⊢
  split
  · -- no statement at all: `pass`
    apply leave_correct q (unify fuel) (wrapK k) args
    simpa [pyStmts_cons, pyStmts_nil, py_pass] using h
  · exact leave_correct q (unify fuel) (wrapK k) args _ _ h

end Yld
