/-
  If-then-else against the logical reading (C06), stage 0: a binary pass over the Horn part of the
  engine for consumers about which nothing is known where the other one abandons.

  `RelA C A r1 r2` — the two outcomes are the same, or the first one carries a reason allowed by `A`
  (`Bad A r1`: the first run has been abandoned, by its consumer, with such a reason) — and then, under
  `C`, the second one ends in a flagged world if the first one does.  If at every yield the two
  consumers are so related (`KRelA C A k1 k2`), so are the two runs of a generator of the Horn fragment
  (`GRelA C A g`): as long as the consumers have answered alike the runs are the same run; once the first
  consumer has answered with a reason of `A`, the generators hand that reason back untouched (inside a
  frame it travels as `up _`, `UpA A`), whatever the second consumer does.

  No hypothesis on the consumers but the relation (and, under `C`, that the second one never resets the
  ghost flag): in particular the second consumer need not be quiet anywhere the first one abandons.
  `C` is a switch, as `cm` in `QK cm`: with `C := False` nothing at all is asked of the second consumer
  where the first one abandons.  Instances used in `LgIte`:
  * `k1 := commitK d` (the consumer under `\+`), `A := (· = commit d)`, `k2` arbitrary, `C := False`: if the
    search with `commitK d` does not end with `commit d`, it is the search with any consumer whatever (no
    yield);
  * the same with `C := True`, `k2` flag-monotone: if the search with `commitK d` ends with `commit d` in
    a flagged world, the search with `k2` ends in a flagged world;
  * `k1` a consumer that never answers "resume", `A := fun _ => True`, `k2` arbitrary, `C := False`: the
    search with `k1` is the search with `k2`, or does not end normally.
-/
import Yld.Proofs.LgFSound
set_option linter.unusedSimpArgs false
set_option linter.unusedVariables false
set_option linter.unusedSectionVars false
namespace Yld
namespace Lg
namespace I

/-- the outcome carries a reason allowed by `A` -/
def Bad (A : Sig → Prop) (r : R) : Prop := ∃ s, r.2 = some s ∧ A s
/-- the same outcome, or the first one abandoned with a reason of `A` (and, under `C`, the second one
    flagged if the first one is) -/
def RelA (C : Prop) (A : Sig → Prop) (r1 r2 : R) : Prop :=
  r1 = r2 ∨ (Bad A r1 ∧ (C → r1.1.cyc = true → r2.1.cyc = true))
def KRelA (C : Prop) (A : Sig → Prop) (k1 k2 : K) : Prop := ∀ w, RelA C A (k1 w) (k2 w)
def GRelA (C : Prop) (A : Sig → Prop) (g : Gen) : Prop :=
  ∀ k1 k2, (C → CycMono k2) → KRelA C A k1 k2 → KRelA C A (g k1) (g k2)

variable {C : Prop} {A : Sig → Prop}

theorem andThenR_rel {f1 f2 : World → R} (hf : ∀ w, RelA C A (f1 w) (f2 w)) (hc : C → CycMono f2) {r1 r2 : R}
    (h : RelA C A r1 r2) : RelA C A (andThenR f1 r1) (andThenR f2 r2) := by
  rcases h with h | ⟨⟨s, hs, ha⟩, hcy⟩
  · subst h
    obtain ⟨w', o⟩ := r1
    cases o with
    | none => simp only [andThenR_none]; exact hf w'
    | some s => exact Or.inl rfl
  · obtain ⟨w', o⟩ := r1
    simp only at hs
    subst hs
    rw [andThenR_some]
    exact Or.inr ⟨⟨s, rfl, ha⟩, fun c h1 => andThenR_cyc f2 r2 (hcy c h1) (hc c)⟩

theorem thenSig_rel (x : Sig) {r1 r2 : R} (h : RelA C A r1 r2) : RelA C A (thenSig x r1) (thenSig x r2) := by
  rcases h with h | ⟨⟨s, hs, ha⟩, hcy⟩
  · subst h; exact Or.inl rfl
  · obtain ⟨w', o⟩ := r1
    simp only at hs
    subst hs
    rw [thenSig_some]
    exact Or.inr ⟨⟨s, rfl, ha⟩, fun c h1 => by rw [thenSig_world]; exact hcy c h1⟩

theorem bindGen_rel (x : Nat) (t : Term) : GRelA C A (bindGen x t) := by
  intro k1 k2 _ hk w
  unfold bindGen
  have h := hk { w with b := bind w.b x t }
  revert h
  generalize k1 { w with b := bind w.b x t } = r1
  generalize k2 { w with b := bind w.b x t } = r2
  intro h
  rcases h with h | ⟨⟨s, hs, ha⟩, hcy⟩
  · subst h; exact Or.inl rfl
  · obtain ⟨w1, o1⟩ := r1
    obtain ⟨w2, o2⟩ := r2
    simp only at hs
    subst hs
    exact Or.inr ⟨⟨s, rfl, ha⟩, fun c h1 => hcy c h1⟩

theorem unifyList_rel (u : Term → Term → Gen) (hu : ∀ a b, GRelA C A (u a b)) (huc : C → ∀ a b, CycGen (u a b)) :
    ∀ as bs, GRelA C A (unifyList u as bs) := by
  intro as
  induction as with
  | nil =>
    intro bs k1 k2 _ hk w
    cases bs with
    | nil => simpa [unifyList] using hk w
    | cons b bs => simp only [unifyList]; exact Or.inl rfl
  | cons a as ih =>
    intro bs k1 k2 hc hk w
    cases bs with
    | nil => simp only [unifyList]; exact Or.inl rfl
    | cons b bs =>
      simp only [unifyList]
      exact hu a b _ _ (fun c => unifyList_cycGen u (huc c) as bs k2 (hc c)) (fun w' => ih bs k1 k2 hc hk w') w

theorem unify_rel (f : Nat) : ∀ t1 t2, GRelA C A (unify f t1 t2) := by
  induction f with
  | zero => intro t1 t2 k1 k2 _ _ w; simp only [unify]; exact Or.inl rfl
  | succ f ih =>
    intro t1 t2 k1 k2 hc hk w
    simp only [unify]
    cases h1 : walk w.b (f+1) t1 with
    | none => exact Or.inl rfl
    | some a1 =>
      cases h2 : walk w.b (f+1) t2 with
      | none => exact Or.inl rfl
      | some a2 =>
        simp only
        cases a1 <;> cases a2 <;> simp only
        all_goals first
          | exact Or.inl rfl
          | exact bindGen_rel _ _ k1 k2 hc hk _
          | (split
             · first | exact hk w | exact unifyList_rel (unify f) ih (fun _ => unify_cycGen f) _ _ k1 k2 hc hk w
             · first | exact Or.inl rfl | exact bindGen_rel _ _ k1 k2 hc hk _)

theorem matchFact_rel (f : Nat) (fact : Fact) (args : List Term) : GRelA C A (matchFact f fact args) := by
  intro k1 k2 hc hk w
  unfold matchFact
  simp only
  split
  · exact unifyList_rel _ (unify_rel f) (fun _ => unify_cycGen f) _ _ k1 k2 hc hk _
  · exact Or.inl rfl

theorem matchAll_rel (f : Nat) (args : List Term) : ∀ cs, GRelA C A (matchAll f args cs) := by
  intro cs
  induction cs with
  | nil => intro k1 k2 _ _ w; simp only [matchAll]; exact Or.inl rfl
  | cons c cs ih =>
    intro k1 k2 hc hk w
    rw [F.matchAll_cons_eq, F.matchAll_cons_eq]
    exact andThenR_rel (fun w' => ih k1 k2 hc hk w') (fun c' => matchAll_cycGen f args cs k2 (hc c'))
      (matchFact_rel f c args k1 k2 hc hk w)

theorem matchDynamic_rel (f : Nat) (name : String) (args : List Term) : GRelA C A (matchDynamic f name args) := by
  intro k1 k2 hc hk w
  unfold matchDynamic
  exact matchAll_rel f args _ k1 k2 hc hk w

theorem unifyHead_rel (fuel : Nat) (env : Env) (args : List Term) (g : Gen) (hg : GRelA C A g) (hgc : C → CycGen g) :
    ∀ us, GRelA C A (unifyHead fuel env args us g) := by
  intro us
  induction us with
  | nil => simpa [unifyHead] using hg
  | cons u us ih =>
    obtain ⟨i, t⟩ := u
    intro k1 k2 hc hk w
    simp only [unifyHead]
    exact unify_rel fuel _ _ _ _ (fun c => unifyHead_cycGen fuel env args g (hgc c) us k2 (hc c))
      (fun w' => ih k1 k2 hc hk w') w

/-- Horn bodies -/
theorem solve_rel {U : String → Bool} (q : Q)
    (hq : ∀ name, U name = true → ∀ args, GRelA C A (q name args)) (hqc : C → QCyc q) (env : Env) :
    ∀ (b : Body) (d : Nat), hornBy U b = true → GRelA C A (solve q env d b)
  | .tru, d, _ => by intro k1 k2 _ hk w; simp only [solve]; exact hk w
  | .fail, d, _ => by intro k1 k2 _ _ w; simp only [solve]; exact Or.inl rfl
  | .cut, d, _ => by
    intro k1 k2 _ hk w
    simp only [solve]
    exact thenSig_rel .ret (hk w)
  | .call name args, d, h => by
    intro k1 k2 hc hk w; simp only [solve]
    exact hq name (by simpa [hornBy] using h) _ k1 k2 hc hk w
  | .conj a b, d, h => by
    intro k1 k2 hc hk w
    simp only [hornBy, Bool.and_eq_true] at h
    simp only [solve]
    exact solve_rel q hq hqc env a d h.1 _ _ (fun c => solve_cycGen q (hqc c) env b d k2 (hc c))
      (fun w' => solve_rel q hq hqc env b d h.2 k1 k2 hc hk w') w
  | .disj a b, d, h => by
    intro k1 k2 hc hk w
    simp only [hornBy, Bool.and_eq_true] at h
    rw [solve_disj_eq q env d a b k1 w (horn_not_ite h.1), solve_disj_eq q env d a b k2 w (horn_not_ite h.1)]
    exact andThenR_rel (fun w' => solve_rel q hq hqc env b d h.2 k1 k2 hc hk w')
      (fun c => solve_cycGen q (hqc c) env b d k2 (hc c)) (solve_rel q hq hqc env a d h.1 k1 k2 hc hk w)
  | .ite _ _, _, h => by simp [hornBy] at h
  | .neg _, _, h => by simp [hornBy] at h
  | .cutif _, _, h => by simp [hornBy] at h

theorem runClauseRef_rel {U : String → Bool} (fuel : Nat) (q : Q)
    (hq : ∀ name, U name = true → ∀ args, GRelA C A (q name args)) (hqc : C → QCyc q) (c : Clause)
    (hc : hornBy U c.body = true) (args : List Term) : GRelA C A (runClauseRef fuel q c args) := by
  intro k1 k2 hcy hk w
  unfold runClauseRef
  simp only
  exact unifyHead_rel fuel _ args _ (solve_rel q hq hqc _ _ 0 hc) (fun c' => solve_cycGen q (hqc c') _ _ 0) _
    k1 k2 hcy hk _

theorem runClauses_rel {α : Type} (run : α → Gen) (hrc : C → ∀ c, CycGen (run c)) : ∀ cs : List α,
    (∀ c ∈ cs, GRelA C A (run c)) → GRelA C A (runClauses run cs) := by
  intro cs
  induction cs with
  | nil => intro _ k1 k2 _ _ w; simp only [runClauses]; exact Or.inl rfl
  | cons c cs ih =>
    intro hrun k1 k2 hc hk w
    rw [runClauses_cons_eq, runClauses_cons_eq]
    exact andThenR_rel (fun w' => ih (fun c' hc' => hrun c' (List.mem_cons_of_mem _ hc')) k1 k2 hc hk w')
      (fun c' => runClauses_cycGen run (hrc c') cs k2 (hc c')) (hrun c List.mem_cons_self k1 k2 hc hk w)

/-! ### frames -/

/-- inside a frame the consumer's reasons travel as `up _` -/
def UpA (A : Sig → Prop) (s : Sig) : Prop := ∃ a, s = .up a ∧ A a

theorem wrapK_rel {k1 k2 : K} (hk : KRelA C A k1 k2) : KRelA C (UpA A) (wrapK k1) (wrapK k2) := by
  intro w
  have h := hk w
  have e2 := wrapK_fst k2 w
  unfold wrapK at e2 ⊢
  revert h e2
  generalize k1 w = r1
  generalize k2 w = r2
  intro h e2
  rcases h with h | ⟨⟨s, hs, ha⟩, hcy⟩
  · subst h; exact Or.inl rfl
  · obtain ⟨w1, o1⟩ := r1
    simp only at hs
    subst hs
    exact Or.inr ⟨⟨.up s, rfl, s, rfl, ha⟩, fun c h1 => by rw [e2]; exact hcy c h1⟩

theorem leaveFrame_rel {r1 r2 : R} (h : RelA C (UpA A) r1 r2) : RelA C A (leaveFrame r1) (leaveFrame r2) := by
  rcases h with h | ⟨⟨s, hs, a, e, ha⟩, hcy⟩
  · subst h; exact Or.inl rfl
  · obtain ⟨w1, o1⟩ := r1
    simp only at hs
    subst hs
    subst e
    exact Or.inr ⟨⟨a, rfl, ha⟩, fun c h1 => by rw [leaveFrame_world]; exact hcy c h1⟩

/-- **The pass.** Every goal of the Horn fragment, at every fuel, for every `A`. -/
theorem query_rel {U : String → Bool} {cfg : Cfg} {preds : List Pred} (hc : HC U cfg preds) (C : Prop) :
    ∀ f (A : Sig → Prop) name, U name = true → ∀ args, GRelA C A (query cfg f name args) := by
  intro f
  induction f using Nat.strongRecOn with
  | _ f ih =>
    intro A name hU args k1 k2 hcy hk w
    cases f with
    | zero => simp only [query]; exact Or.inl rfl
    | succ f =>
      rw [query_succ, query_succ]
      refine andThenR_rel (fun w1 => ?_) (fun c => ?_) (matchDynamic_rel f name args k1 k2 hcy hk w)
      · cases tailCase hc f hU args with
        | none h => rw [h, h]; exact Or.inl rfl
        | oof h => rw [h, h]; exact Or.inl rfl
        | eq a b n _ _ _ h => rw [h, h]; exact unify_rel n a b k1 k2 hcy hk w1
        | user p n hp hpn hpa hf h =>
          rw [h, h]
          refine leaveFrame_rel ?_
          refine runClauses_rel _ (fun _ c' => runClauseRef_cycGen n _ (fun name args => query_cycGen cfg n name args) c' args)
            _ (fun c hcm => ?_) _ _ (fun c' => wrapK_cycMono k2 (hcy c')) (wrapK_rel hk) w1
          exact runClauseRef_rel n _ (ih n (by omega) (UpA A)) (fun _ name args => query_cycGen cfg n name args) c
            ((hc.shape p hp).2.2 c hcm).2 args
      · -- the definitions never reset the flag
        intro w1 h1
        cases tailCase hc f hU args with
        | none h => rw [h]; exact h1
        | oof h => rw [h]; exact h1
        | eq a b n _ _ _ h => rw [h]; exact unify_cycGen n a b k2 (hcy c) w1 h1
        | user p n hp hpn hpa hf h =>
          rw [h, leaveFrame_world]
          exact runClauses_cycGen _
            (fun c' => runClauseRef_cycGen n _ (fun name args => query_cycGen cfg n name args) c' args)
            p.clauses (wrapK k2) (wrapK_cycMono k2 (hcy c)) w1 h1

end I
end Lg
end Yld
