/-
  Interleaving, stage 1: related outcomes (`IlRes`), related consumers (`IlK`, Kripke style: a consumer
  is called later, when more cells exist, with an extension of the renaming), the outcome combinators,
  unification.
-/
import Yld.Proofs.IlBase
set_option linter.unusedSimpArgs false
set_option linter.unusedVariables false
namespace Yld

/-- Related outcomes of a call that started with renaming `ρ` when side 1 had `n` cells: the same
    signal, and the worlds are related again by an extension of `ρ` that is `ρ` on the cells that
    existed at the start. -/
def IlRes (F : Nat → Prop) (ρ : Nat → Nat) (n d : Nat) (r1 r2 : R) : Prop :=
  r2.2 = r1.2 ∧ ∃ ρ', Agree n ρ ρ' ∧ n ≤ r1.1.next ∧ IlEnv F ρ' d r1.1 r2.1

/-- Related consumers: whenever they are called in related worlds — later, under any extension of the
    renaming — they give related outcomes. -/
def IlK (F : Nat → Prop) (ρ : Nat → Nat) (n d : Nat) (k1 k2 : K) : Prop :=
  ∀ ρ' w1 w2, Agree n ρ ρ' → n ≤ w1.next → IlEnv F ρ' d w1 w2 → IlRes F ρ' w1.next d (k1 w1) (k2 w2)

section
variable {F : Nat → Prop} {d : Nat}

theorem IlRes.weaken {ρ ρ' : Nat → Nat} {n n' : Nat} {r1 r2 : R} (h : IlRes F ρ' n' d r1 r2) (ha : Agree n ρ ρ')
    (hn : n ≤ n') : IlRes F ρ n d r1 r2 := by
  obtain ⟨e, ρ'', ha', hn', he⟩ := h
  exact ⟨e, ρ'', ha.trans ha' hn, Nat.le_trans hn hn', he⟩

theorem IlRes.same {ρ : Nat → Nat} {w1 w2 : World} (h : IlEnv F ρ d w1 w2) (s : Option Sig) :
    IlRes F ρ w1.next d (w1, s) (w2, s) := ⟨rfl, ρ, Agree.refl _ _, Nat.le_refl _, h⟩

theorem IlK.mono {ρ ρ' : Nat → Nat} {n n' : Nat} {k1 k2 : K} (h : IlK F ρ n d k1 k2) (ha : Agree n ρ ρ')
    (hn : n ≤ n') : IlK F ρ' n' d k1 k2 :=
  fun ρ'' w1 w2 ha' hn' he => h ρ'' w1 w2 (ha.trans ha' hn) (Nat.le_trans hn hn') he

/-- calling a related consumer right away -/
theorem IlK.app {ρ : Nat → Nat} {k1 k2 : K} {w1 w2 : World} (h : IlK F ρ w1.next d k1 k2) (he : IlEnv F ρ d w1 w2) :
    IlRes F ρ w1.next d (k1 w1) (k2 w2) := h ρ w1 w2 (Agree.refl _ _) (Nat.le_refl _) he

theorem ilCases {ρ : Nat → Nat} {n : Nat} {r1 r2 : R} (h : IlRes F ρ n d r1 r2) :
    ∃ v1 v2 o ρ', r1 = (v1, o) ∧ r2 = (v2, o) ∧ Agree n ρ ρ' ∧ n ≤ v1.next ∧ IlEnv F ρ' d v1 v2 := by
  obtain ⟨v1, o1⟩ := r1
  obtain ⟨v2, o2⟩ := r2
  obtain ⟨e, ρ', ha, hn, he⟩ := h
  simp only at e; subst e
  exact ⟨v1, v2, o2, ρ', rfl, rfl, ha, hn, he⟩

/-- the outcome is passed on with the signal changed in the same way on both sides -/
theorem IlRes.mapSig {ρ : Nat → Nat} {n : Nat} {v1 v2 : World} {o : Option Sig} (h : IlRes F ρ n d (v1, o) (v2, o))
    (o' : Option Sig) : IlRes F ρ n d (v1, o') (v2, o') := by
  obtain ⟨_, ρ', ha, hn, he⟩ := h
  exact ⟨rfl, ρ', ha, hn, he⟩

theorem il_andThen {ρ : Nat → Nat} {n : Nat} {r1 r2 : R} (h : IlRes F ρ n d r1 r2) {f1 f2 : World → R}
    (hf : IlK F ρ n d f1 f2) : IlRes F ρ n d (andThenR f1 r1) (andThenR f2 r2) := by
  obtain ⟨v1, v2, o, ρ', rfl, rfl, ha, hn, he⟩ := ilCases h
  cases o with
  | none => exact (hf ρ' v1 v2 ha hn he).weaken ha hn
  | some s => exact h

theorem il_thenSig {ρ : Nat → Nat} {n : Nat} {r1 r2 : R} (h : IlRes F ρ n d r1 r2) (s : Sig) :
    IlRes F ρ n d (thenSig s r1) (thenSig s r2) := by
  obtain ⟨v1, v2, o, ρ', rfl, rfl, ha, hn, he⟩ := ilCases h
  cases o with
  | none => exact h.mapSig _
  | some s' => exact h

theorem il_catchBrk {ρ : Nat → Nat} {n : Nat} {r1 r2 : R} (h : IlRes F ρ n d r1 r2) (l : Nat) :
    IlRes F ρ n d (catchBrk l r1) (catchBrk l r2) := by
  obtain ⟨v1, v2, o, ρ', rfl, rfl, ha, hn, he⟩ := ilCases h
  cases o with
  | none => exact h
  | some s =>
    cases s with
    | brk l' =>
      simp only [catchBrk_brk]
      split
      · exact h.mapSig _
      · exact h
    | _ => exact h

theorem il_iteR {ρ : Nat → Nat} {n : Nat} {r1 r2 : R} (h : IlRes F ρ n d r1 r2) (lv : Nat) {f1 f2 : World → R}
    (hf : IlK F ρ n d f1 f2) : IlRes F ρ n d (iteR lv f1 r1) (iteR lv f2 r2) := by
  obtain ⟨v1, v2, o, ρ', rfl, rfl, ha, hn, he⟩ := ilCases h
  cases o with
  | none => exact (hf ρ' v1 v2 ha hn he).weaken ha hn
  | some s =>
    cases s with
    | commit d' =>
      simp only [iteR_commit]
      split
      · exact h.mapSig _
      · exact h
    | _ => exact h

theorem il_wrapK {ρ : Nat → Nat} {n : Nat} {k1 k2 : K} (h : IlK F ρ n d k1 k2) : IlK F ρ n d (wrapK k1) (wrapK k2) := by
  intro ρ' w1 w2 ha hn he
  have := h ρ' w1 w2 ha hn he
  obtain ⟨v1, v2, o, ρ'', e1, e2, ha', hn', he'⟩ := ilCases this
  unfold wrapK
  rw [e1, e2]
  rw [e1, e2] at this
  cases o with
  | none => exact this
  | some s => exact this.mapSig _

theorem il_leaveFrame {ρ : Nat → Nat} {n : Nat} {r1 r2 : R} (h : IlRes F ρ n d r1 r2) :
    IlRes F ρ n d (leaveFrame r1) (leaveFrame r2) := by
  obtain ⟨v1, v2, o, ρ', rfl, rfl, ha, hn, he⟩ := ilCases h
  cases o with
  | none => exact h
  | some s => cases s <;> first | exact h | exact h.mapSig _

theorem il_leaveOnce {ρ : Nat → Nat} {n : Nat} {r1 r2 : R} (h : IlRes F ρ n d r1 r2) :
    IlRes F ρ n d (leaveOnce r1) (leaveOnce r2) := by
  obtain ⟨v1, v2, o, ρ', rfl, rfl, ha, hn, he⟩ := ilCases h
  cases o with
  | none => exact h
  | some s => cases s <;> first | exact h | exact h.mapSig _

/-! ### unification -/

theorem rename_var (r : Nat → Nat) (n : Nat) : Term.rename r (.var n) = .var (r n) := by simp [Term.rename]
theorem rename_atom (r : Nat → Nat) (s : String) : Term.rename r (.atom s) = .atom s := by simp [Term.rename]
theorem rename_int (r : Nat → Nat) (i : Int) : Term.rename r (.int i) = .int i := by simp [Term.rename]

theorem bindGen_il {ρ : Nat → Nat} {w1 w2 : World} {x : Nat} {t : Term} {k1 k2 : K} (h : IlEnv F ρ d w1 w2)
    (hx : x < w1.next) (ht : Own w1.next t) (hk : IlK F ρ w1.next d k1 k2) :
    IlRes F ρ w1.next d (bindGen x t k1 w1) (bindGen (ρ x) (t.rename ρ) k2 w2) := by
  unfold bindGen
  have := hk ρ { w1 with b := bind w1.b x t } { w2 with b := bind w2.b (ρ x) (t.rename ρ) } (Agree.refl _ _)
    (Nat.le_refl _) (h.bind hx ht)
  obtain ⟨v1, v2, o, ρ', e1, e2, ha, hn, he⟩ := ilCases this
  simp only at e1 e2 ha hn
  rw [e1, e2]
  simp only
  refine ⟨rfl, ρ', ha, hn, ?_⟩
  have hx' : x < v1.next := Nat.lt_of_lt_of_le hx hn
  have := he.unbind hx'
  rw [ha x hx] at this
  exact this

theorem contains_map_inj {r : Nat → Nat} {l : List Nat} {x : Nat} (hinj : ∀ y ∈ l, r y = r x → y = x) :
    (l.map r).contains (r x) = l.contains x := by
  rw [Bool.eq_iff_iff]
  simp only [List.contains_iff_mem, List.mem_map]
  constructor
  · rintro ⟨y, hy, e⟩; rw [← hinj y hy e]; exact hy
  · intro hx; exact ⟨x, hx, rfl⟩

theorem markCyc_il {ρ : Nat → Nat} {w1 w2 : World} (h : IlEnv F ρ d w1 w2) {x : Nat} {t : Term} (hx : x < w1.next)
    (ht : Own w1.next t) (f : Nat) : IlEnv F ρ d (markCyc f x t w1) (markCyc f (ρ x) (t.rename ρ) w2) := by
  unfold markCyc
  rw [resolve_il h f t ht]
  cases hr : resolve w1.b f t with
  | none => exact h.setCyc true
  | some t' =>
    simp only [Option.map]
    have ho := resolve_own h f t t' ht hr
    rw [vars_rename, contains_map_inj (fun y hy e => h.inj y x (ho y hy) hx e)]
    split
    · exact h.setCyc true
    · exact h

/-- a binary generator constructor respects the relation -/
def UnifyIl (F : Nat → Prop) (d : Nat) (u : Term → Term → Gen) : Prop :=
  ∀ (t1 t2 : Term) (ρ : Nat → Nat) (w1 w2 : World) (k1 k2 : K), IlEnv F ρ d w1 w2 → Own w1.next t1 → Own w1.next t2 →
    IlK F ρ w1.next d k1 k2 → IlRes F ρ w1.next d (u t1 t2 k1 w1) (u (t1.rename ρ) (t2.rename ρ) k2 w2)

theorem unifyList_il {u : Term → Term → Gen} (hu : UnifyIl F d u) :
    ∀ (as bs : List Term) (ρ : Nat → Nat) (w1 w2 : World) (k1 k2 : K), IlEnv F ρ d w1 w2 → OwnL w1.next as →
      OwnL w1.next bs → IlK F ρ w1.next d k1 k2 →
      IlRes F ρ w1.next d (unifyList u as bs k1 w1)
        (unifyList u (as.map (Term.rename ρ)) (bs.map (Term.rename ρ)) k2 w2) := by
  intro as
  induction as with
  | nil =>
    intro bs ρ w1 w2 k1 k2 h _ _ hk
    cases bs with
    | nil => simp only [List.map_nil, unifyList]; exact hk.app h
    | cons b bs => simp only [List.map_nil, List.map_cons, unifyList]; exact IlRes.same h none
  | cons a as ih =>
    intro bs ρ w1 w2 k1 k2 h ha hb hk
    cases bs with
    | nil => simp only [List.map_nil, List.map_cons, unifyList]; exact IlRes.same h none
    | cons b bs =>
      simp only [List.map_cons, unifyList]
      obtain ⟨ha1, ha2⟩ := ownL_cons.mp ha
      obtain ⟨hb1, hb2⟩ := ownL_cons.mp hb
      refine hu a b ρ w1 w2 _ _ h ha1 hb1 ?_
      intro ρ' v1 v2 hag hn he
      have := ih bs ρ' v1 v2 k1 k2 he (ha2.mono hn) (hb2.mono hn) (hk.mono hag hn)
      rw [map_rename_agree hag ha2, map_rename_agree hag hb2] at this
      exact this

theorem unify_il (f : Nat) : UnifyIl F d (unify f) := by
  induction f with
  | zero => intro t1 t2 ρ w1 w2 k1 k2 h _ _ _; simp only [unify]; exact IlRes.same h _
  | succ f ih =>
    intro t1 t2 ρ w1 w2 k1 k2 h ht1 ht2 hk
    simp only [unify]
    rw [walk_il h _ t1 ht1, walk_il h _ t2 ht2]
    cases h1 : walk w1.b (f+1) t1 with
    | none => exact IlRes.same h _
    | some a1 =>
      cases h2 : walk w1.b (f+1) t2 with
      | none => exact IlRes.same h _
      | some a2 =>
        have ho1 := walk_own h _ t1 a1 ht1 h1
        have ho2 := walk_own h _ t2 a2 ht2 h2
        simp only [Option.map]
        cases a1 with
        | var x =>
          have hx : x < w1.next := own_var.mp ho1
          cases a2 with
          | var y =>
            have hy : y < w1.next := own_var.mp ho2
            simp only [rename_var]
            by_cases e : x = y
            · subst e; simp only [if_true]; exact hk.app h
            · have : ρ x ≠ ρ y := fun e' => e (h.inj x y hx hy e')
              rw [if_neg e, if_neg this]
              have := bindGen_il h hx ho2 hk
              rw [rename_var] at this
              exact this
          | atom s =>
            have hm := markCyc_il h hx ho2 cycFuel
            have := bindGen_il (k1 := k1) (k2 := k2) hm (by rw [markCyc_next]; exact hx) (by rw [markCyc_next]; exact ho2)
              (by rw [markCyc_next]; exact hk)
            rw [markCyc_next] at this
            simp only [rename_var, rename_atom, rename_int, rename_fn] at this ⊢
            exact this
          | int i =>
            have hm := markCyc_il h hx ho2 cycFuel
            have := bindGen_il (k1 := k1) (k2 := k2) hm (by rw [markCyc_next]; exact hx) (by rw [markCyc_next]; exact ho2)
              (by rw [markCyc_next]; exact hk)
            rw [markCyc_next] at this
            simp only [rename_var, rename_atom, rename_int, rename_fn] at this ⊢
            exact this
          | fn g as =>
            have hm := markCyc_il h hx ho2 cycFuel
            have := bindGen_il (k1 := k1) (k2 := k2) hm (by rw [markCyc_next]; exact hx) (by rw [markCyc_next]; exact ho2)
              (by rw [markCyc_next]; exact hk)
            rw [markCyc_next] at this
            simp only [rename_var, rename_atom, rename_int, rename_fn] at this ⊢
            exact this
        | atom s =>
          cases a2 with
          | var y =>
            have hy : y < w1.next := own_var.mp ho2
            have hm := markCyc_il h hy ho1 cycFuel
            have := bindGen_il (k1 := k1) (k2 := k2) hm (by rw [markCyc_next]; exact hy) (by rw [markCyc_next]; exact ho1)
              (by rw [markCyc_next]; exact hk)
            rw [markCyc_next] at this
            simp only [rename_var, rename_atom, rename_int, rename_fn] at this ⊢
            exact this
          | atom s' =>
            simp only [rename_atom]
            split
            · exact hk.app h
            · exact IlRes.same h none
          | int i => simp only [rename_atom, rename_int]; exact IlRes.same h none
          | fn g as => simp only [rename_atom, rename_fn]; exact IlRes.same h none
        | int i =>
          cases a2 with
          | var y =>
            have hy : y < w1.next := own_var.mp ho2
            have hm := markCyc_il h hy ho1 cycFuel
            have := bindGen_il (k1 := k1) (k2 := k2) hm (by rw [markCyc_next]; exact hy) (by rw [markCyc_next]; exact ho1)
              (by rw [markCyc_next]; exact hk)
            rw [markCyc_next] at this
            simp only [rename_var, rename_atom, rename_int, rename_fn] at this ⊢
            exact this
          | atom s' => simp only [rename_atom, rename_int]; exact IlRes.same h none
          | int j =>
            simp only [rename_int]
            split
            · exact hk.app h
            · exact IlRes.same h none
          | fn g as => simp only [rename_int, rename_fn]; exact IlRes.same h none
        | fn g as =>
          cases a2 with
          | var y =>
            have hy : y < w1.next := own_var.mp ho2
            have hm := markCyc_il h hy ho1 cycFuel
            have := bindGen_il (k1 := k1) (k2 := k2) hm (by rw [markCyc_next]; exact hy) (by rw [markCyc_next]; exact ho1)
              (by rw [markCyc_next]; exact hk)
            rw [markCyc_next] at this
            simp only [rename_var, rename_atom, rename_int, rename_fn] at this ⊢
            exact this
          | atom s' => simp only [rename_atom, rename_fn]; exact IlRes.same h none
          | int j => simp only [rename_int, rename_fn]; exact IlRes.same h none
          | fn g' as' =>
            simp only [rename_fn, List.length_map]
            split
            · exact unifyList_il ih as as' ρ w1 w2 k1 k2 h (own_fn.mp ho1) (own_fn.mp ho2) hk
            · exact IlRes.same h none

end

end Yld
