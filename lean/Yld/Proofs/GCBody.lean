/-
  Stage C of the completeness proof: goals and bodies.
-/
import Yld.Proofs.GCTerm
namespace Yld
namespace GC

/-! ### Goals -/

theorem goal_good (f : Nat) (toks : List Tok) (st : PS) (hf : 3 * toks.length + 2 ≤ f) :
    Good toks.length (parseGoal f toks st) := by
  unfold parseGoal
  split
  · simp [Good]
  · simp [Good]
  · simp [Good]
  · have h := (term_nofuel f).2.2.2.1 toks st hf
    generalize parseTerm f toks st = r at h ⊢
    rcases r with e | ⟨t, r, s⟩
    · exact h
    · exact h

theorem pg_term_ok {f : Nat} {x : Tok} {r rest : List Tok} {st st1 : PS} {t : RTerm}
    (hx : tstart x = true) (h : parseTerm f (x :: r) st = .ok (t, rest, st1)) :
    parseGoal f (x :: r) st = .ok (.term t, rest, st1) := by
  cases x <;> simp [tstart] at hx <;> simp [parseGoal, h]

/-- tokens that can follow a `simplepredicate` -/
theorem goal_complete (f : Nat) (g rest : List Tok) (st : PS) (hg : SP g) (hrest : TF rest)
    (hf : 3 * (g ++ rest).length + 2 ≤ f) :
    ∃ r st', parseGoal f (g ++ rest) st = .ok (r, rest, st') := by
  rcases hg with rfl | rfl | rfl | ht
  · exact ⟨_, _, by simp [parseGoal]; exact ⟨rfl, rfl⟩⟩
  · exact ⟨_, _, by simp [parseGoal]; exact ⟨rfl, rfl⟩⟩
  · exact ⟨_, _, by simp [parseGoal]; exact ⟨rfl, rfl⟩⟩
  · obtain ⟨r, st1, h1⟩ := (term_complete f).2.2.2.1 g rest st ht hrest hf
    obtain ⟨x, t', rfl, hx⟩ := term_start ht
    exact ⟨_, _, pg_term_ok hx h1⟩

/-! ### FOLLOW conditions for bodies -/

def bfol : Tok → Bool
  | .comma | .arrow | .semi | .rparen | .dot => true
  | _ => false

def BF (rest : List Tok) : Prop := ∃ x r, rest = x :: r ∧ bfol x = true
def EF (rest : List Tok) : Prop := (∃ r, rest = .rparen :: r) ∨ (∃ r, rest = .dot :: r)

theorem BF.tf {rest : List Tok} (h : BF rest) : TF rest := by
  obtain ⟨x, r, rfl, hx⟩ := h
  refine ⟨x, r, rfl, ?_⟩
  cases x <;> simp [bfol] at hx <;> rfl

theorem EF.bf {rest : List Tok} (h : EF rest) : BF rest := by
  rcases h with ⟨r, rfl⟩ | ⟨r, rfl⟩ <;> exact ⟨_, _, rfl, rfl⟩

theorem bf_tail {tl rest : List Tok} (htl : BodyTail tl) (hrest : EF rest) : BF (tl ++ rest) := by
  cases htl with
  | tnil _ hu => subst hu; exact hrest.bf
  | tcons op q b tl' _ hq _ _ hu =>
    subst hu
    refine ⟨op, _, rfl, ?_⟩
    cases op <;> simp [binPrec] at hq <;> rfl

/-! ### Equations of `parseBodyPrimary` -/

theorem pbp_other {f : Nat} {x : Tok} {r rest : List Tok} {st st1 : PS} {g : RGoal}
    (h1 : x ≠ .naf) (h2 : x ≠ .lparen) (h : parseGoal f (x :: r) st = .ok (g, rest, st1)) :
    parseBodyPrimary (f+1) (x :: r) st = .ok (.goal g, rest, st1) := by
  cases x <;> simp_all [parseBodyPrimary]

theorem pbp_lparen (f : Nat) (toks : List Tok) (st : PS) :
    parseGoal f (.lparen :: toks) st = .error .fuel ∨
    (∃ g rest st', parseGoal f (.lparen :: toks) st = .ok (g, rest, st') ∧ BF rest ∧
        parseBodyPrimary (f+1) (.lparen :: toks) st = .ok (.goal g, rest, st')) ∨
    parseBodyPrimary (f+1) (.lparen :: toks) st = parseParenBody f toks st := by
  cases h : parseGoal f (.lparen :: toks) st with
  | error e => cases e <;> simp [parseBodyPrimary, h]
  | ok v =>
    obtain ⟨g, rest, st'⟩ := v
    rcases rest with _ | ⟨x, r⟩
    · simp [parseBodyPrimary, h]
    · cases x <;> first
        | exact .inr (.inl ⟨g, _, st', rfl, ⟨_, _, rfl, rfl⟩, by simp [parseBodyPrimary, h]⟩)
        | exact .inr (.inr (by simp [parseBodyPrimary, h]))

theorem pbp_lparen_ok {f : Nat} {toks rest : List Tok} {st st' : PS} {g : RGoal}
    (h : parseGoal f (.lparen :: toks) st = .ok (g, rest, st')) (hr : BF rest) :
    parseBodyPrimary (f+1) (.lparen :: toks) st = .ok (.goal g, rest, st') := by
  obtain ⟨x, r, rfl, hx⟩ := hr
  cases x <;> simp [bfol] at hx <;> simp [parseBodyPrimary, h]

/-! ### Completeness on flattened forms -/

def CBP (f : Nat) : Prop := ∀ b rest st, BPrim b → BF rest → 3 * (b ++ rest).length + 3 ≤ f →
  ∃ r st', parseBodyPrimary f (b ++ rest) st = .ok (r, rest, st')
def CBR (f : Nat) : Prop := ∀ b rest st, Body b → 3 * (b ++ .rparen :: rest).length + 5 ≤ f →
  ∃ r st', parseParenBody f (b ++ .rparen :: rest) st = .ok (r, rest, st')
def CBB (f : Nat) : Prop := ∀ p b tl rest st, BPrim b → BodyTail tl → EF rest →
  3 * (b ++ (tl ++ rest)).length + 4 ≤ f →
  ∃ tl1 tl2 r st', tl = tl1 ++ tl2 ∧ BodyTail tl2 ∧ (p = 0 → tl2 = []) ∧
    parseBody f p (b ++ (tl ++ rest)) st = .ok (r, tl2 ++ rest, st')
def CBT (f : Nat) : Prop := ∀ p lhs tl rest st, BodyTail tl → EF rest →
  3 * (tl ++ rest).length + 2 ≤ f →
  ∃ tl1 tl2 r st', tl = tl1 ++ tl2 ∧ BodyTail tl2 ∧ (p = 0 → tl2 = []) ∧
    parseBodyTail f p lhs (tl ++ rest) st = .ok (r, tl2 ++ rest, st')

/-- a term that starts with `(` is a parenthesised term followed by a `(BINOP prim)*` tail -/
theorem term_lparen {u : List Tok} (h : Term (.lparen :: u)) :
    ∃ t tl, Term t ∧ BTail tl ∧ u = t ++ .rparen :: tl := by
  cases h with
  | term p tl _ hp htl hu =>
    cases hp with
    | paren t _ ht hp =>
      subst hp
      refine ⟨t, tl, ht, htl, ?_⟩
      simpa using hu
    | atm a _ ha hp => subst hp; simp at hu; obtain ⟨rfl, -⟩ := hu; simp [isAtomTok] at ha
    | fn0 a _ ha hp => subst hp; simp at hu; obtain ⟨rfl, -⟩ := hu; simp [isAtomTok] at ha
    | fn a t c n _ ha _ _ hp => subst hp; simp at hu; obtain ⟨rfl, -⟩ := hu; simp [isAtomTok] at ha
    | _ => rename_i hp; subst hp; simp at hu

theorem cbp_succ (f : Nat) (ihP : CBP f) (ihR : CBR f) (ihB : CBB f) : CBP (f+1) := by
  intro b rest st hb hrest hf
  cases hb with
  | tru _ hu =>
    subst hu
    exact ⟨_, _, by simp [parseBodyPrimary, parseGoal]; exact ⟨rfl, rfl⟩⟩
  | fail _ hu =>
    subst hu
    exact ⟨_, _, by simp [parseBodyPrimary, parseGoal]; exact ⟨rfl, rfl⟩⟩
  | cut _ hu =>
    subst hu
    exact ⟨_, _, by simp [parseBodyPrimary, parseGoal]; exact ⟨rfl, rfl⟩⟩
  | naf b' _ hb' hu =>
    subst hu
    obtain ⟨r, st1, h1⟩ := ihP b' rest st hb' hrest (by simp at hf ⊢; omega)
    exact ⟨_, _, by simp [parseBodyPrimary, h1]; exact ⟨rfl, rfl⟩⟩
  | term _ ht =>
    obtain ⟨g, st1, h1⟩ := goal_complete f b rest st (.inr (.inr (.inr ht))) hrest.tf (by omega)
    obtain ⟨x, t', rfl, hx⟩ := term_start ht
    by_cases hxl : x = .lparen
    · subst hxl
      exact ⟨_, _, pbp_lparen_ok h1 hrest⟩
    · have hxn : x ≠ .naf := by intro h; subst h; cases hx
      exact ⟨_, _, pbp_other hxn hxl h1⟩
  | paren b' _ hb' hu =>
    subst hu
    have hnorm : (Tok.lparen :: (b' ++ [.rparen])) ++ rest = .lparen :: (b' ++ .rparen :: rest) := by
      simp
    rw [hnorm] at hf ⊢
    obtain ⟨rp, stp, hparen⟩ := ihR b' rest st hb' (by simp at hf ⊢; omega)
    have hgood := goal_good f (.lparen :: (b' ++ .rparen :: rest)) st (by simp at hf ⊢; omega)
    rcases pbp_lparen f (b' ++ .rparen :: rest) st with h | ⟨g', rest', st', h, hbf, h'⟩ | h
    · rw [h] at hgood; simp [Good] at hgood
    · -- the term reading succeeded and is followed by a body FOLLOW token: it ends where the body ends
      suffices hrr : rest' = rest by subst hrr; exact ⟨_, _, h'⟩
      obtain ⟨used, hused, hd⟩ := GS.goal_sound _ _ _ _ _ _ h
      have hsp : SP used := sem_of_derives hd used rfl
      have hterm : Term used := by
        rcases hsp with rfl | rfl | rfl | ht
        · simp at hused
        · simp at hused
        · simp at hused
        · exact ht
      obtain ⟨x, u', rfl, -⟩ := term_start hterm
      simp only [List.cons_append, List.cons.injEq] at hused
      obtain ⟨rfl, hused⟩ := hused
      obtain ⟨t, tl, ht, htl, rfl⟩ := term_lparen hterm
      cases hb' with
      | body bp btl _ hbp hbtl hu =>
        subst hu
        obtain ⟨_, tl2, r1, st1, -, -, h0, h1⟩ := ihB 0 bp btl (.rparen :: rest) st hbp hbtl
          (.inl ⟨_, rfl⟩) (by simp at hf ⊢; omega)
        obtain ⟨tl1', tl2', r2, st2, hsplit, -, -, h2⟩ := ihB 0 t [] (.rparen :: (tl ++ rest')) st
          (.term _ ht) (.tnil _ rfl) (.inl ⟨_, rfl⟩) (by
            have := congrArg List.length hused
            simp at hf this ⊢; omega)
        have htl2 : tl2 = [] := h0 rfl
        have htl2' : tl2' = [] := by
          have := congrArg List.length hsplit
          simp at this
          exact List.eq_nil_of_length_eq_zero (by omega)
        subst htl2 htl2'
        have hin : bp ++ (btl ++ .rparen :: rest) = t ++ ([] ++ .rparen :: (tl ++ rest')) := by
          simpa using hused
        rw [hin, h2] at h1
        simp at h1
        obtain ⟨-, h1, -⟩ := h1
        cases htl with
        | bnil _ hu => subst hu; simpa using h1
        | bcons o p tl' _ _ _ hu =>
          subst hu
          obtain ⟨y, r, hy, hy'⟩ := hrest
          rw [← h1] at hy
          simp at hy
          obtain ⟨rfl, -⟩ := hy
          cases hy'
    · exact ⟨rp, stp, by rw [h]; exact hparen⟩


theorem cbr_succ (f : Nat) (ihB : CBB f) : CBR (f+1) := by
  intro b rest st hb hf
  cases hb with
  | body bp btl _ hbp hbtl hu =>
    subst hu
    obtain ⟨_, tl2, r1, st1, -, -, h0, h1⟩ := ihB 0 bp btl (.rparen :: rest) st hbp hbtl
      (.inl ⟨_, rfl⟩) (by simp at hf ⊢; omega)
    have htl2 : tl2 = [] := h0 rfl
    subst htl2
    refine ⟨r1, st1, ?_⟩
    unfold parseParenBody
    simp only [List.append_assoc]
    rw [h1]
    rfl

theorem cbb_succ (f : Nat) (ihP : CBP f) (ihT : CBT f) : CBB (f+1) := by
  intro p b tl rest st hb htl hrest hf
  obtain ⟨r1, st1, h1⟩ := ihP b (tl ++ rest) st hb (bf_tail htl hrest) (by simp at hf ⊢; omega)
  obtain ⟨tl1, tl2, r2, st2, hs, htl2, h0, h2⟩ := ihT p r1 tl rest st1 htl hrest
    (by simp at hf ⊢; omega)
  refine ⟨tl1, tl2, r2, st2, hs, htl2, h0, ?_⟩
  unfold parseBody
  rw [h1]
  exact h2

/-- the node `parseBodyTail` builds -/
def mkNode (op : Tok) (lhs rhs : RBody) : RBody :=
  match op with
  | .comma => RBody.conj lhs rhs
  | .arrow => RBody.ite lhs rhs
  | _ => RBody.disj lhs rhs

theorem cbt_succ (f : Nat) (ihB : CBB f) (ihT : CBT f) : CBT (f+1) := by
  intro p lhs tl rest st htl hrest hf
  cases htl with
  | tnil _ hu =>
    subst hu
    refine ⟨[], [], lhs, st, rfl, .tnil _ rfl, fun _ => rfl, ?_⟩
    rcases hrest with ⟨r, rfl⟩ | ⟨r, rfl⟩ <;> simp [parseBodyTail, binPrec]
  | tcons op q b tl' _ hq hb htl' hu =>
    subst hu
    by_cases hqp : q ≥ p
    · obtain ⟨a1, a2, r1, st1, hs1, ha2, -, h1⟩ := ihB q b tl' rest st hb htl' hrest
        (by simp at hf ⊢; omega)
      obtain ⟨c1, c2, r2, st2, hs2, hc2, h0, h2⟩ := ihT p (mkNode op lhs r1) a2 rest st1 ha2 hrest (by
          have := congrArg List.length hs1
          simp at hf this ⊢; omega)
      refine ⟨op :: (b ++ (a1 ++ c1)), c2, r2, st2, by simp [hs1, hs2], hc2, h0, ?_⟩
      simp only [List.cons_append, List.append_assoc, parseBodyTail, hq, hqp, if_true]
      rw [h1]
      dsimp only
      exact h2
    · refine ⟨[], op :: (b ++ tl'), lhs, st, rfl, .tcons op q b tl' _ hq hb htl' rfl, ?_, ?_⟩
      · intro hp; omega
      · simp [parseBodyTail, hq, hqp]

theorem body_complete : ∀ f, CBP f ∧ CBR f ∧ CBB f ∧ CBT f := by
  intro f
  induction f with
  | zero =>
    refine ⟨?_, ?_, ?_, ?_⟩
    · intro b rest st _ _ h; omega
    · intro b rest st _ h; omega
    · intro p b tl rest st _ _ _ h; omega
    · intro p lhs tl rest st _ _ h; omega
  | succ f ih =>
    obtain ⟨ihP, ihR, ihB, ihT⟩ := ih
    exact ⟨cbp_succ f ihP ihR ihB, cbr_succ f ihB, cbb_succ f ihP ihT, cbt_succ f ihB ihT⟩

/-- A body followed by `)` or `.` is consumed entirely by `parseBody _ 0`. -/
theorem parseBody_complete (f : Nat) (b rest : List Tok) (st : PS) (hb : Body b) (hrest : EF rest)
    (hf : 3 * (b ++ rest).length + 4 ≤ f) :
    ∃ r st', parseBody f 0 (b ++ rest) st = .ok (r, rest, st') := by
  cases hb with
  | body bp btl _ hbp hbtl hu =>
    subst hu
    obtain ⟨_, tl2, r1, st1, -, -, h0, h1⟩ := (body_complete f).2.2.1 0 bp btl rest st hbp hbtl hrest
      (by simp at hf ⊢; omega)
    have htl2 : tl2 = [] := h0 rfl
    subst htl2
    exact ⟨r1, st1, by simpa using h1⟩

end GC
end Yld
