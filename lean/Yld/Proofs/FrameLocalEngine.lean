/-
  The engine model does not look at its consumer's frame: `FrameLocal` holds of `unify` and of
  `query` at every fuel. (This discharges the hypotheses of Theorem B for the model engine; for
  CPython it is lexical scoping.)
-/
import Yld.Proofs.PyCorrect
namespace Yld

section
variable (ν : PyLoc → Prop) (ρ : PyLoc → Sig → Sig → Prop)

/-- consumers related across an extra frame -/
def KF (K1 K2 : K) : Prop := ∀ w1 w2 σ, w1 = w2.push σ → ν σ → RelF ν ρ (K1 w1) (K2 w2)
def GenF (g : Gen) : Prop := ∀ K1 K2, KF ν ρ K1 K2 → KF ν ρ (g K1) (g K2)

variable {ν ρ}

theorem relF_none {w1 w2 : World} {σ : PyLoc} (hw : w1 = w2.push σ) (hσ : ν σ) : RelF ν ρ (w1, none) (w2, none) :=
  ⟨σ, hw, .none hσ⟩
theorem relF_some {w1 w2 : World} {σ : PyLoc} (hw : w1 = w2.push σ) {a b : Sig} (h : ρ σ a b) :
    RelF ν ρ (w1, some a) (w2, some b) := ⟨σ, hw, .some a b h⟩

theorem relF_cases {r1 r2 : R} (h : RelF ν ρ r1 r2) :
    (∃ w1 w2 σ, w1 = w2.push σ ∧ ν σ ∧ r1 = (w1, none) ∧ r2 = (w2, none)) ∨
    (∃ w1 w2 σ a b, w1 = w2.push σ ∧ r1 = (w1, some a) ∧ r2 = (w2, some b) ∧ ρ σ a b) := by
  obtain ⟨w1, o1⟩ := r1
  obtain ⟨w2, o2⟩ := r2
  obtain ⟨σ, hw, ho⟩ := h
  simp only at hw ho
  cases ho with
  | none hν => exact Or.inl ⟨w1, w2, σ, hw, hν, rfl, rfl⟩
  | some a b hab => exact Or.inr ⟨w1, w2, σ, a, b, hw, rfl, rfl, hab⟩

theorem bindGen_F (x : Nat) (t : Term) : GenF ν ρ (bindGen x t) := by
  intro K1 K2 hK w1 w2 σ hw hσ
  subst hw
  unfold bindGen
  have h := hK _ { w2 with b := bind w2.b x t } σ rfl hσ
  simp only [World.push] at h ⊢
  generalize K1 _ = r1 at h ⊢
  generalize K2 _ = r2 at h ⊢
  rcases relF_cases h with ⟨v1, v2, σ', hv, hν, e1, e2⟩ | ⟨v1, v2, σ', a, b, hv, e1, e2, hab⟩
  · subst hv e1 e2
    exact ⟨σ', rfl, .none hν⟩
  · subst hv e1 e2
    exact ⟨σ', rfl, .some a b hab⟩

theorem unifyList_F (u : Term → Term → Gen) (hu : ∀ a b, GenF ν ρ (u a b)) :
    ∀ as bs, GenF ν ρ (unifyList u as bs) := by
  intro as
  induction as with
  | nil =>
    intro bs K1 K2 hK w1 w2 σ hw hσ
    cases bs with
    | nil => simpa [unifyList] using hK w1 w2 σ hw hσ
    | cons b bs => simp only [unifyList]; exact relF_none hw hσ
  | cons a as ih =>
    intro bs K1 K2 hK w1 w2 σ hw hσ
    cases bs with
    | nil => simp only [unifyList]; exact relF_none hw hσ
    | cons b bs =>
      simp only [unifyList]
      exact hu a b _ _ (fun v1 v2 τ hv hτ => ih bs K1 K2 hK v1 v2 τ hv hτ) w1 w2 σ hw hσ

theorem markCyc_push (f x : Nat) (t : Term) (w : World) (σ : PyLoc) :
    markCyc f x t (w.push σ) = (markCyc f x t w).push σ := by
  unfold markCyc
  simp only [World.push]
  split
  · split <;> rfl
  · rfl

theorem unify_F (hρ : ∀ σ s, ν σ → OwnSig s → ρ σ s s) (f : Nat) : ∀ t1 t2, GenF ν ρ (unify f t1 t2) := by
  induction f with
  | zero =>
    intro t1 t2 K1 K2 _ w1 w2 σ hw hσ
    simp only [unify]
    exact relF_some hw (hρ σ _ hσ (Or.inl rfl))
  | succ f ih =>
    intro t1 t2 K1 K2 hK w1 w2 σ hw hσ
    subst hw
    simp only [unify]
    have hb : (w2.push σ).b = w2.b := rfl
    rw [hb]
    cases h1 : walk w2.b (f+1) t1 with
    | none => exact relF_some rfl (hρ σ _ hσ (Or.inl rfl))
    | some a1 =>
      cases h2 : walk w2.b (f+1) t2 with
      | none => exact relF_some rfl (hρ σ _ hσ (Or.inl rfl))
      | some a2 =>
        simp only
        cases a1 <;> cases a2 <;> simp only
        all_goals first
          | exact relF_none rfl hσ
          | exact bindGen_F _ _ K1 K2 hK _ _ σ (markCyc_push _ _ _ _ _) hσ
          | (split
             · first | exact hK _ _ σ rfl hσ | exact unifyList_F (unify f) ih _ _ K1 K2 hK _ _ σ rfl hσ
             · first | exact relF_none rfl hσ | exact bindGen_F _ _ K1 K2 hK _ _ σ rfl hσ)


/-! ### The fact store -/

theorem push_facts (w : World) (σ : PyLoc) (n : String) (a : Nat) : (w.push σ).facts n a = w.facts n a := rfl
theorem setFacts_push (w : World) (σ : PyLoc) (n : String) (a : Nat) (fs : List Fact) :
    (w.push σ).setFacts n a fs = (w.setFacts n a fs).push σ := by
  unfold World.setFacts
  by_cases h : (w.db.any fun x => x.1 == (n, a)) = true
  · simp only [World.push, h, if_true]
  · simp only [World.push, h, if_false]; rfl

theorem matchFact_F (hρ : ∀ σ s, ν σ → OwnSig s → ρ σ s s) (f : Nat) (fact : Fact) (args : List Term) :
    GenF ν ρ (matchFact f fact args) := by
  intro K1 K2 hK w1 w2 σ hw hσ
  subst hw
  unfold matchFact
  simp only
  have hn : (w2.push σ).next = w2.next := rfl
  rw [hn]
  split
  · exact unifyList_F (unify f) (unify_F hρ f) _ _ K1 K2 hK _ { w2 with next := w2.next + fact.nvars } σ rfl hσ
  · exact relF_none (w2 := { w2 with next := w2.next + fact.nvars }) rfl hσ

theorem matchAll_F (hρ : ∀ σ s, ν σ → OwnSig s → ρ σ s s) (f : Nat) (args : List Term) :
    ∀ cs, GenF ν ρ (matchAll f args cs) := by
  intro cs
  induction cs with
  | nil => intro K1 K2 _ w1 w2 σ hw hσ; simp only [matchAll]; exact relF_none hw hσ
  | cons c cs ih =>
    intro K1 K2 hK w1 w2 σ hw hσ
    simp only [matchAll]
    rcases relF_cases (matchFact_F hρ f c args K1 K2 hK w1 w2 σ hw hσ) with
      ⟨v1, v2, τ, hv, hτ, e1, e2⟩ | ⟨v1, v2, τ, a, b, hv, e1, e2, hab⟩
    · simp only [e1, e2]; exact ih K1 K2 hK v1 v2 τ hv hτ
    · simp only [e1, e2]; exact relF_some hv hab

theorem matchDynamic_F (hρ : ∀ σ s, ν σ → OwnSig s → ρ σ s s) (f : Nat) (name : String) (args : List Term) :
    GenF ν ρ (matchDynamic f name args) := by
  intro K1 K2 hK w1 w2 σ hw hσ
  subst hw
  unfold matchDynamic
  rw [push_facts]
  exact matchAll_F hρ f args _ K1 K2 hK _ w2 σ rfl hσ

theorem retractLoop_F (hρ : ∀ σ s, ν σ → OwnSig s → ρ σ s s) (f : Nat) (name : String) (args : List Term) :
    ∀ cs, GenF ν ρ (retractLoop f name args cs) := by
  intro cs
  induction cs with
  | nil => intro K1 K2 _ w1 w2 σ hw hσ; simp only [retractLoop]; exact relF_none hw hσ
  | cons c cs ih =>
    intro K1 K2 hK w1 w2 σ hw hσ
    subst hw
    simp only [retractLoop, push_facts]
    by_cases hc : ((w2.facts name args.length).any fun x => x.id == c.id) = true
    · simp only [hc, if_true]
      have := matchFact_F hρ f c args
        (fun w' => K1 (w'.setFacts name args.length ((w'.facts name args.length).filter (·.id != c.id))))
        (fun w' => K2 (w'.setFacts name args.length ((w'.facts name args.length).filter (·.id != c.id))))
        (fun v1 v2 τ hv hτ => by
          subst hv
          simp only [push_facts, setFacts_push]
          exact hK _ _ τ rfl hτ) _ w2 σ rfl hσ
      rcases relF_cases this with ⟨v1, v2, τ, hv, hτ, e1, e2⟩ | ⟨v1, v2, τ, a, b, hv, e1, e2, hab⟩
      · simp only [e1, e2]; exact ih K1 K2 hK v1 v2 τ hv hτ
      · simp only [e1, e2]; exact relF_some hv hab
    · simp only [hc]
      exact ih K1 K2 hK _ w2 σ rfl hσ

theorem runPy_F (hρ : ∀ σ s, ν σ → OwnSig s → ρ σ s s) (f : Nat) (r : Option Nat) (args : List Term) :
    ∀ rows i, GenF ν ρ (runPy f rows r i args) := by
  intro rows
  induction rows with
  | nil =>
    intro i K1 K2 _ w1 w2 σ hw hσ
    simp only [runPy]
    split
    · exact relF_some hw (hρ σ _ hσ (Or.inr (Or.inl ⟨_, rfl⟩)))
    · exact relF_none hw hσ
  | cons row rows ih =>
    intro i K1 K2 hK w1 w2 σ hw hσ
    simp only [runPy]
    split
    · exact relF_some hw (hρ σ _ hσ (Or.inr (Or.inl ⟨_, rfl⟩)))
    · rcases relF_cases (matchFact_F hρ f row args K1 K2 hK w1 w2 σ hw hσ) with
        ⟨v1, v2, τ, hv, hτ, e1, e2⟩ | ⟨v1, v2, τ, a, b, hv, e1, e2, hab⟩
      · simp only [e1, e2]; exact ih (i+1) K1 K2 hK v1 v2 τ hv hτ
      · simp only [e1, e2]; exact relF_some hv hab


/-! ### Clause bodies -/

/-- Relations under which a function body can run on both sides. -/
structure BodyOKF (ν : PyLoc → Prop) (ρ : PyLoc → Sig → Sig → Prop) : Prop where
  faults : ∀ σ s, ν σ → OwnSig s → ρ σ s s
  ret : ∀ σ, ν σ → ρ σ .ret .ret
  brk : ∀ σ l, ν σ → ρ σ (.brk l) (.brk l)
  commit : ∀ σ d, ν σ → ρ σ (.commit d) (.commit d)
  brk_iff : ∀ σ a b, ρ σ a b → ∀ l, (a = .brk l ↔ b = .brk l)
  commit_iff : ∀ σ a b, ρ σ a b → ∀ d, (a = .commit d ↔ b = .commit d)
  /-- a frame's own structured exits are raised in states that satisfy ν -/
  own_brk : ∀ σ l b, ρ σ (.brk l) b → ν σ
  own_commit : ∀ σ d b, ρ σ (.commit d) b → ν σ

theorem thenSig_F {r1 r2 : R} (h : RelF ν ρ r1 r2) {s1 s2 : Sig} (hs : ∀ σ, ν σ → ρ σ s1 s2) :
    RelF ν ρ (thenSig s1 r1) (thenSig s2 r2) := by
  rcases relF_cases h with ⟨v1, v2, τ, hv, hτ, e1, e2⟩ | ⟨v1, v2, τ, a, b, hv, e1, e2, hab⟩
  · subst e1 e2; exact relF_some hv (hs τ hτ)
  · subst e1 e2; exact relF_some hv hab

theorem seq_F {r1 r2 : R} (h : RelF ν ρ r1 r2) {f1 f2 : World → R}
    (hf : ∀ w1 w2 σ, w1 = w2.push σ → ν σ → RelF ν ρ (f1 w1) (f2 w2)) :
    RelF ν ρ (andThenR f1 r1) (andThenR f2 r2) := by
  rcases relF_cases h with ⟨v1, v2, τ, hv, hτ, e1, e2⟩ | ⟨v1, v2, τ, a, b, hv, e1, e2, hab⟩
  · subst e1 e2; exact hf v1 v2 τ hv hτ
  · subst e1 e2; exact relF_some hv hab

theorem catchBrk_F (hρ : BodyOKF ν ρ) (l : Nat) {r1 r2 : R} (h : RelF ν ρ r1 r2) :
    RelF ν ρ (catchBrk l r1) (catchBrk l r2) := by
  rcases relF_cases h with ⟨v1, v2, τ, hv, hτ, e1, e2⟩ | ⟨v1, v2, τ, a, b, hv, e1, e2, hab⟩
  · subst e1 e2; exact relF_none hv hτ
  · subst e1 e2
    by_cases ha : ∃ l', a = .brk l'
    · obtain ⟨l', rfl⟩ := ha
      have hb : b = .brk l' := (hρ.brk_iff _ _ _ hab l').mp rfl
      subst hb
      simp only [catchBrk_brk]
      by_cases e : l' = l
      · subst e; simp only [if_true]; exact relF_none hv (hρ.own_brk τ _ _ hab)
      · simp only [if_neg e]; exact relF_some hv hab
    · have hb : ¬ ∃ l', b = .brk l' := by
        rintro ⟨l', rfl⟩
        exact ha ⟨l', (hρ.brk_iff _ _ _ hab l').mpr rfl⟩
      have e1 : catchBrk l (v1, some a) = (v1, some a) := by
        cases a <;> first | rfl | exact absurd ⟨_, rfl⟩ ha
      have e2 : catchBrk l (v2, some b) = (v2, some b) := by
        cases b <;> first | rfl | exact absurd ⟨_, rfl⟩ hb
      rw [e1, e2]; exact relF_some hv hab

theorem iteR_F (hρ : BodyOKF ν ρ) (d : Nat) {r1 r2 : R} (h : RelF ν ρ r1 r2)
    {f1 f2 : World → R} (hf : ∀ w1 w2 σ, w1 = w2.push σ → ν σ → RelF ν ρ (f1 w1) (f2 w2)) :
    RelF ν ρ (iteR d f1 r1) (iteR d f2 r2) := by
  rcases relF_cases h with ⟨v1, v2, τ, hv, hτ, e1, e2⟩ | ⟨v1, v2, τ, a, b, hv, e1, e2, hab⟩
  · subst e1 e2; simp only [iteR_none]; exact hf v1 v2 τ hv hτ
  · subst e1 e2
    by_cases ha : ∃ d', a = .commit d'
    · obtain ⟨d', rfl⟩ := ha
      have hb : b = .commit d' := (hρ.commit_iff _ _ _ hab d').mp rfl
      subst hb
      simp only [iteR_commit]
      by_cases e : d' = d
      · subst e; simp only [if_true]; exact relF_none hv (hρ.own_commit τ _ _ hab)
      · simp only [if_neg e]; exact relF_some hv hab
    · have hb : ¬ ∃ d', b = .commit d' := by
        rintro ⟨d', rfl⟩
        exact ha ⟨d', (hρ.commit_iff _ _ _ hab d').mpr rfl⟩
      have e1 : iteR d f1 (v1, some a) = (v1, some a) := by
        cases a <;> first | rfl | exact absurd ⟨_, rfl⟩ ha
      have e2 : iteR d f2 (v2, some b) = (v2, some b) := by
        cases b <;> first | rfl | exact absurd ⟨_, rfl⟩ hb
      rw [e1, e2]; exact relF_some hv hab

def QF (ν : PyLoc → Prop) (ρ : PyLoc → Sig → Sig → Prop) (q : Q) : Prop := ∀ name args, GenF ν ρ (q name args)

theorem exec_F (hρ : BodyOKF ν ρ) (q : Q) (hq : QF ν ρ q) (env : Env) :
    (∀ c, GenF ν ρ (exec q env c)) ∧ (∀ cs, GenF ν ρ (execList q env cs)) := by
  have key : ∀ c, (GenF ν ρ (exec q env c)) := by
    intro c
    induction c using Code.rec (motive_2 := fun cs => GenF ν ρ (execList q env cs)) with
    | yieldF => intro K1 K2 hK w1 w2 σ hw hσ; rw [exec_yieldF, exec_yieldF]; exact hK w1 w2 σ hw hσ
    | yieldT => intro K1 K2 hK w1 w2 σ hw hσ; rw [exec_yieldT, exec_yieldT]; exact hK w1 w2 σ hw hσ
    | ret => intro K1 K2 _ w1 w2 σ hw hσ; rw [exec_ret, exec_ret]; exact relF_some hw (hρ.ret σ hσ)
    | brk l => intro K1 K2 _ w1 w2 σ hw hσ; rw [exec_brk, exec_brk]; exact relF_some hw (hρ.brk σ l hσ)
    | block l body ih =>
      intro K1 K2 hK w1 w2 σ hw hσ
      rw [exec_block, exec_block]
      exact catchBrk_F hρ l (ih K1 K2 hK w1 w2 σ hw hσ)
    | foreach name args body ih =>
      intro K1 K2 hK w1 w2 σ hw hσ
      rw [exec_foreach, exec_foreach]
      exact hq name _ _ _ (fun v1 v2 τ hv hτ => ih K1 K2 hK v1 v2 τ hv hτ) w1 w2 σ hw hσ
    | nil => intro K1 K2 _ w1 w2 σ hw hσ; rw [execList_nil, execList_nil]; exact relF_none hw hσ
    | cons c cs ihc ihcs =>
      intro K1 K2 hK w1 w2 σ hw hσ
      rw [execList_cons, execList_cons]
      exact seq_F (ihc K1 K2 hK w1 w2 σ hw hσ) (fun v1 v2 τ hv hτ => ihcs K1 K2 hK v1 v2 τ hv hτ)
  refine ⟨key, ?_⟩
  intro cs
  induction cs with
  | nil => intro K1 K2 _ w1 w2 σ hw hσ; rw [execList_nil, execList_nil]; exact relF_none hw hσ
  | cons c cs ih =>
    intro K1 K2 hK w1 w2 σ hw hσ
    rw [execList_cons, execList_cons]
    exact seq_F (key c K1 K2 hK w1 w2 σ hw hσ) (fun v1 v2 τ hv hτ => ih K1 K2 hK v1 v2 τ hv hτ)

theorem solve_F (hρ : BodyOKF ν ρ) (q : Q) (hq : QF ν ρ q) (env : Env) :
    ∀ (b : Body) (d : Nat), GenF ν ρ (solve q env d b)
  | .tru, d => by intro K1 K2 hK w1 w2 σ hw hσ; simp only [solve]; exact hK w1 w2 σ hw hσ
  | .fail, d => by intro K1 K2 _ w1 w2 σ hw hσ; simp only [solve]; exact relF_none hw hσ
  | .cutif l, d => by intro K1 K2 hK w1 w2 σ hw hσ; simp only [solve]; exact hK w1 w2 σ hw hσ
  | .cut, d => by
    intro K1 K2 hK w1 w2 σ hw hσ; simp only [solve]
    exact thenSig_F (hK w1 w2 σ hw hσ) (fun τ hτ => hρ.ret τ hτ)
  | .call name args, d => by intro K1 K2 hK w1 w2 σ hw hσ; simp only [solve]; exact hq name _ K1 K2 hK w1 w2 σ hw hσ
  | .conj a b, d => by
    intro K1 K2 hK w1 w2 σ hw hσ
    simp only [solve]
    exact solve_F hρ q hq env a d _ _ (fun v1 v2 τ hv hτ => solve_F hρ q hq env b d K1 K2 hK v1 v2 τ hv hτ) w1 w2 σ hw hσ
  | .disj (.ite c t) e, d => by
    intro K1 K2 hK w1 w2 σ hw hσ
    simp only [solve]
    exact iteR_F hρ d
      (solve_F hρ q hq env c (d+1) _ _ (fun v1 v2 τ hv hτ =>
        thenSig_F (solve_F hρ q hq env t d K1 K2 hK v1 v2 τ hv hτ) (fun τ' hτ' => hρ.commit τ' d hτ')) w1 w2 σ hw hσ)
      (fun v1 v2 τ hv hτ => solve_F hρ q hq env e d K1 K2 hK v1 v2 τ hv hτ)
  | .disj .tru b, d => by
    intro K1 K2 hK w1 w2 σ hw hσ
    rw [solve_disj_eq q env d .tru b K1 w1 (by intro c t h; cases h), solve_disj_eq q env d .tru b K2 w2 (by intro c t h; cases h)]
    exact seq_F (solve_F hρ q hq env .tru d K1 K2 hK w1 w2 σ hw hσ) (fun v1 v2 τ hv hτ => solve_F hρ q hq env b d K1 K2 hK v1 v2 τ hv hτ)
  | .disj .fail b, d => by
    intro K1 K2 hK w1 w2 σ hw hσ
    rw [solve_disj_eq q env d .fail b K1 w1 (by intro c t h; cases h), solve_disj_eq q env d .fail b K2 w2 (by intro c t h; cases h)]
    exact seq_F (solve_F hρ q hq env .fail d K1 K2 hK w1 w2 σ hw hσ) (fun v1 v2 τ hv hτ => solve_F hρ q hq env b d K1 K2 hK v1 v2 τ hv hτ)
  | .disj .cut b, d => by
    intro K1 K2 hK w1 w2 σ hw hσ
    rw [solve_disj_eq q env d .cut b K1 w1 (by intro c t h; cases h), solve_disj_eq q env d .cut b K2 w2 (by intro c t h; cases h)]
    exact seq_F (solve_F hρ q hq env .cut d K1 K2 hK w1 w2 σ hw hσ) (fun v1 v2 τ hv hτ => solve_F hρ q hq env b d K1 K2 hK v1 v2 τ hv hτ)
  | .disj (.cutif l) b, d => by
    intro K1 K2 hK w1 w2 σ hw hσ
    rw [solve_disj_eq q env d (.cutif l) b K1 w1 (by intro c t h; cases h), solve_disj_eq q env d (.cutif l) b K2 w2 (by intro c t h; cases h)]
    exact seq_F (solve_F hρ q hq env (.cutif l) d K1 K2 hK w1 w2 σ hw hσ) (fun v1 v2 τ hv hτ => solve_F hρ q hq env b d K1 K2 hK v1 v2 τ hv hτ)
  | .disj (.call nm ar) b, d => by
    intro K1 K2 hK w1 w2 σ hw hσ
    rw [solve_disj_eq q env d (.call nm ar) b K1 w1 (by intro c t h; cases h), solve_disj_eq q env d (.call nm ar) b K2 w2 (by intro c t h; cases h)]
    exact seq_F (solve_F hρ q hq env (.call nm ar) d K1 K2 hK w1 w2 σ hw hσ) (fun v1 v2 τ hv hτ => solve_F hρ q hq env b d K1 K2 hK v1 v2 τ hv hτ)
  | .disj (.conj a1 a2) b, d => by
    intro K1 K2 hK w1 w2 σ hw hσ
    rw [solve_disj_eq q env d (.conj a1 a2) b K1 w1 (by intro c t h; cases h), solve_disj_eq q env d (.conj a1 a2) b K2 w2 (by intro c t h; cases h)]
    exact seq_F (solve_F hρ q hq env (.conj a1 a2) d K1 K2 hK w1 w2 σ hw hσ) (fun v1 v2 τ hv hτ => solve_F hρ q hq env b d K1 K2 hK v1 v2 τ hv hτ)
  | .disj (.disj a1 a2) b, d => by
    intro K1 K2 hK w1 w2 σ hw hσ
    rw [solve_disj_eq q env d (.disj a1 a2) b K1 w1 (by intro c t h; cases h), solve_disj_eq q env d (.disj a1 a2) b K2 w2 (by intro c t h; cases h)]
    exact seq_F (solve_F hρ q hq env (.disj a1 a2) d K1 K2 hK w1 w2 σ hw hσ) (fun v1 v2 τ hv hτ => solve_F hρ q hq env b d K1 K2 hK v1 v2 τ hv hτ)
  | .disj (.neg a1) b, d => by
    intro K1 K2 hK w1 w2 σ hw hσ
    rw [solve_disj_eq q env d (.neg a1) b K1 w1 (by intro c t h; cases h), solve_disj_eq q env d (.neg a1) b K2 w2 (by intro c t h; cases h)]
    exact seq_F (solve_F hρ q hq env (.neg a1) d K1 K2 hK w1 w2 σ hw hσ) (fun v1 v2 τ hv hτ => solve_F hρ q hq env b d K1 K2 hK v1 v2 τ hv hτ)
  | .ite c t, d => by
    intro K1 K2 hK w1 w2 σ hw hσ
    simp only [solve]
    exact iteR_F hρ d
      (solve_F hρ q hq env c (d+1) _ _ (fun v1 v2 τ hv hτ =>
        thenSig_F (solve_F hρ q hq env t d K1 K2 hK v1 v2 τ hv hτ) (fun τ' hτ' => hρ.commit τ' d hτ')) w1 w2 σ hw hσ)
      (fun v1 v2 τ hv hτ => relF_none hv hτ)
  | .neg a, d => by
    intro K1 K2 hK w1 w2 σ hw hσ
    simp only [solve]
    exact iteR_F hρ d (solve_F hρ q hq env a (d+1) _ _ (fun v1 v2 τ hv hτ => relF_some hv (hρ.commit τ d hτ)) w1 w2 σ hw hσ) hK


/-! ### Frames -/

/-- inside a callee's frame: the caller's reasons travel as `up _`; the frame's own signals are
    related to themselves, and are raised in states that satisfy ν -/
inductive UpBF (ν : PyLoc → Prop) (ρ : PyLoc → Sig → Sig → Prop) (σ : PyLoc) : Sig → Sig → Prop
  | up {a b : Sig} : ρ σ a b → UpBF ν ρ σ (.up a) (.up b)
  | ret : ν σ → UpBF ν ρ σ .ret .ret
  | brk (l : Nat) : ν σ → UpBF ν ρ σ (.brk l) (.brk l)
  | commit (d : Nat) : ν σ → UpBF ν ρ σ (.commit d) (.commit d)
  | stop : ν σ → UpBF ν ρ σ .stop .stop
  | oof : ν σ → UpBF ν ρ σ .oof .oof
  | exn (e : String) : ν σ → UpBF ν ρ σ (.exn e) (.exn e)

/-- inside once/1 -/
inductive UpFF (ν : PyLoc → Prop) (ρ : PyLoc → Sig → Sig → Prop) (σ : PyLoc) : Sig → Sig → Prop
  | up {a b : Sig} : ρ σ a b → UpFF ν ρ σ (.up a) (.up b)
  | stop : ν σ → UpFF ν ρ σ .stop .stop
  | oof : ν σ → UpFF ν ρ σ .oof .oof
  | exn (e : String) : ν σ → UpFF ν ρ σ (.exn e) (.exn e)

theorem UpBF_faults : ∀ σ s, ν σ → OwnSig s → UpBF ν ρ σ s s := by
  intro σ s hσ hs
  rcases hs with rfl | ⟨e, rfl⟩ | rfl
  · exact .oof hσ
  · exact .exn e hσ
  · exact .stop hσ

theorem UpFF_faults : ∀ σ s, ν σ → OwnSig s → UpFF ν ρ σ s s := by
  intro σ s hσ hs
  rcases hs with rfl | ⟨e, rfl⟩ | rfl
  · exact .oof hσ
  · exact .exn e hσ
  · exact .stop hσ

theorem UpBF_ok : BodyOKF ν (UpBF ν ρ) where
  faults := UpBF_faults
  ret := fun _ h => .ret h
  brk := fun _ l h => .brk l h
  commit := fun _ d h => .commit d h
  brk_iff := by intro σ a b h l; cases h <;> simp
  commit_iff := by intro σ a b h d; cases h <;> simp
  own_brk := by intro σ l b h; cases h; assumption
  own_commit := by intro σ d b h; cases h; assumption

theorem wrapK_F {K1 K2 : K} (hK : KF ν ρ K1 K2) : KF ν (UpBF ν ρ) (wrapK K1) (wrapK K2) := by
  intro w1 w2 σ hw hσ
  unfold wrapK
  rcases relF_cases (hK w1 w2 σ hw hσ) with ⟨v1, v2, τ, hv, hτ, e1, e2⟩ | ⟨v1, v2, τ, a, b, hv, e1, e2, hab⟩
  · simp only [e1, e2]; exact relF_none hv hτ
  · simp only [e1, e2]; exact relF_some hv (.up hab)

theorem leaveFrame_F (hρ : ∀ σ s, ν σ → OwnSig s → ρ σ s s) {r1 r2 : R} (h : RelF ν (UpBF ν ρ) r1 r2) :
    RelF ν ρ (leaveFrame r1) (leaveFrame r2) := by
  rcases relF_cases h with ⟨v1, v2, τ, hv, hτ, e1, e2⟩ | ⟨v1, v2, τ, a, b, hv, e1, e2, hab⟩
  · subst e1 e2; exact relF_none hv hτ
  · subst e1 e2
    cases hab with
    | up h' => exact relF_some hv h'
    | ret hτ => exact relF_none hv hτ
    | brk l hτ => exact relF_none hv hτ
    | commit d hτ => exact relF_none hv hτ
    | stop hτ => exact relF_some hv (hρ τ _ hτ (Or.inr (Or.inr rfl)))
    | oof hτ => exact relF_some hv (hρ τ _ hτ (Or.inl rfl))
    | exn e hτ => exact relF_some hv (hρ τ _ hτ (Or.inr (Or.inl ⟨e, rfl⟩)))

theorem runClauses_F {α : Type} (run : α → Gen) (hrun : ∀ c, GenF ν ρ (run c)) :
    ∀ cs, GenF ν ρ (runClauses run cs) := by
  intro cs
  induction cs with
  | nil => intro K1 K2 _ w1 w2 σ hw hσ; simp only [runClauses]; exact relF_none hw hσ
  | cons c cs ih =>
    intro K1 K2 hK w1 w2 σ hw hσ
    simp only [runClauses]
    rcases relF_cases (hrun c K1 K2 hK w1 w2 σ hw hσ) with ⟨v1, v2, τ, hv, hτ, e1, e2⟩ | ⟨v1, v2, τ, a, b, hv, e1, e2, hab⟩
    · simp only [e1, e2]; exact ih K1 K2 hK v1 v2 τ hv hτ
    · simp only [e1, e2]; exact relF_some hv hab

theorem unifyHead_F (hρ : ∀ σ s, ν σ → OwnSig s → ρ σ s s) (fuel : Nat) (env : Env) (args : List Term) (g : Gen)
    (hg : GenF ν ρ g) : ∀ us, GenF ν ρ (unifyHead fuel env args us g) := by
  intro us
  induction us with
  | nil => simpa [unifyHead] using hg
  | cons u us ih =>
    obtain ⟨i, t⟩ := u
    intro K1 K2 hK w1 w2 σ hw hσ
    simp only [unifyHead]
    exact unify_F hρ fuel _ _ _ _ (fun v1 v2 τ hv hτ => ih K1 K2 hK v1 v2 τ hv hτ) w1 w2 σ hw hσ

theorem allocVars_push (names : List String) : ∀ (env : Env) (w : World) (σ : PyLoc),
    allocVars names env (w.push σ) = ((allocVars names env w).1, (allocVars names env w).2.push σ) := by
  induction names with
  | nil => intro env w σ; rfl
  | cons v vs ih =>
    intro env w σ
    have e1 : allocVars (v :: vs) env (w.push σ) = allocVars vs (env ++ [(v, .var w.next)]) (w.fresh.2.push σ) := rfl
    have e2 : allocVars (v :: vs) env w = allocVars vs (env ++ [(v, .var w.next)]) w.fresh.2 := rfl
    rw [e1, e2, ih]

theorem runClauseCompiled_F (hρ : BodyOKF ν ρ) (fuel : Nat) (q : Q) (hq : QF ν ρ q)
    (cc : ClauseCode) (args : List Term) : GenF ν ρ (runClauseCompiled fuel q cc args) := by
  intro K1 K2 hK w1 w2 σ hw hσ
  subst hw
  unfold runClauseCompiled
  simp only [allocVars_push]
  exact unifyHead_F hρ.faults fuel _ args _ ((exec_F hρ q hq _).2 _) _ K1 K2 hK _ _ σ rfl hσ

theorem runClauseRef_F (hρ : BodyOKF ν ρ) (fuel : Nat) (q : Q) (hq : QF ν ρ q)
    (c : Clause) (args : List Term) : GenF ν ρ (runClauseRef fuel q c args) := by
  intro K1 K2 hK w1 w2 σ hw hσ
  subst hw
  unfold runClauseRef
  simp only [allocVars_push]
  exact unifyHead_F hρ.faults fuel _ args _ (solve_F hρ q hq _ _ 0) _ K1 K2 hK _ _ σ rfl hσ

theorem runClauseRefBody_F (hρ : BodyOKF ν ρ) (fuel : Nat) (q : Q) (hq : QF ν ρ q)
    (cc : ClauseCode) (body : Body) (args : List Term) : GenF ν ρ (runClauseRefBody fuel q cc body args) := by
  intro K1 K2 hK w1 w2 σ hw hσ
  subst hw
  unfold runClauseRefBody
  simp only [allocVars_push]
  exact unifyHead_F hρ.faults fuel _ args _ (solve_F hρ q hq _ _ 0) _ K1 K2 hK _ _ σ rfl hσ

theorem onceGen_F (hρ : ∀ σ s, ν σ → OwnSig s → ρ σ s s) (g : Gen) (hg : GenF ν (UpFF ν ρ) g) : GenF ν ρ (onceGen g) := by
  intro K1 K2 hK w1 w2 σ hw hσ
  unfold onceGen
  have hin : KF ν (UpFF ν ρ) (fun w' => thenSig .stop (wrapK K1 w')) (fun w' => thenSig .stop (wrapK K2 w')) := by
    intro v1 v2 τ hv hτ
    unfold wrapK
    rcases relF_cases (hK v1 v2 τ hv hτ) with ⟨u1, u2, τ', hu, hτ', e1, e2⟩ | ⟨u1, u2, τ', a, b, hu, e1, e2, hab⟩
    · simp only [e1, e2, thenSig_none]; exact relF_some hu (.stop hτ')
    · simp only [e1, e2, thenSig_some]; exact relF_some hu (.up hab)
  rcases relF_cases (hg _ _ hin w1 w2 σ hw hσ) with ⟨v1, v2, τ, hv, hτ, e1, e2⟩ | ⟨v1, v2, τ, a, b, hv, e1, e2, hab⟩
  · rw [e1, e2]; exact relF_none hv hτ
  · rw [e1, e2]
    cases hab with
    | up h' => exact relF_some hv h'
    | stop hτ => exact relF_none hv hτ
    | oof hτ => exact relF_some hv (hρ τ _ hτ (Or.inl rfl))
    | exn e hτ => exact relF_some hv (hρ τ _ hτ (Or.inr (Or.inl ⟨e, rfl⟩)))


end

/-! ### Generators whose consumer does not depend on the frame -/

/-- A frame-local generator run with a consumer that carries the extra frame along unchanged does
    what it does without the frame, and carries it along unchanged. -/
theorem genF_equiv (g : Gen) (hg : ∀ (ν : PyLoc → Prop) (ρ : PyLoc → Sig → Sig → Prop),
      (∀ σ s, ν σ → OwnSig s → ρ σ s s) → GenF ν ρ g)
    (c : K) (hc : ∀ w σ, c (w.push σ) = ((c w).1.push σ, (c w).2)) (w : World) (σ : PyLoc) :
    g c (w.push σ) = ((g c w).1.push σ, (g c w).2) := by
  have h := hg (fun τ => τ = σ) (fun τ a b => τ = σ ∧ a = b) (fun τ s hτ _ => ⟨hτ, rfl⟩) c c
    (fun w1 w2 τ hw hτ => by
      subst hw; subst hτ
      rw [hc]
      rcases hcw : c w2 with ⟨v, o⟩
      cases o with
      | none => exact ⟨τ, rfl, .none rfl⟩
      | some s => exact ⟨τ, rfl, .some s s ⟨rfl, rfl⟩⟩)
    (w.push σ) w σ rfl rfl
  obtain ⟨τ, hw, ho⟩ := h
  generalize g c (w.push σ) = r1 at hw ho
  generalize g c w = r2 at hw ho
  obtain ⟨v1, o1⟩ := r1
  obtain ⟨v2, o2⟩ := r2
  simp only at hw ho
  cases ho with
  | none hτ => subst hτ; rw [hw]
  | some a b hab => obtain ⟨hτ, hab⟩ := hab; subst hτ; subst hab; rw [hw]

theorem findallCollect_push (f : Nat) (tmpl : Term) (w : World) (σ : PyLoc) :
    findallCollect f tmpl (w.push σ) = ((findallCollect f tmpl w).1.push σ, (findallCollect f tmpl w).2) := by
  unfold findallCollect
  have hb : (w.push σ).b = w.b := rfl
  rw [hb]
  split <;> rfl

theorem assertFact_push (f : Nat) (name : String) (vs : List Term) (app : Bool) (w : World) (σ : PyLoc) :
    assertFact f name vs app (w.push σ) = ((assertFact f name vs app w).1.push σ, (assertFact f name vs app w).2) := by
  unfold assertFact
  have hb : (w.push σ).b = w.b := rfl
  rw [hb]
  split
  · rfl
  · simp only [push_facts, setFacts_push]; rfl

theorem factMatches_push (f : Nat) (c : Fact) (args : List Term) (w : World) (σ : PyLoc) :
    factMatches f c args (w.push σ) = ((factMatches f c args w).1.push σ, (factMatches f c args w).2) := by
  unfold factMatches
  rw [genF_equiv (matchFact f c args) (fun ν ρ hρ => matchFact_F hρ f c args) (fun w' => (w', some .stop))
    (fun _ _ => rfl) w σ]
  rcases matchFact f c args (fun w' => (w', some Sig.stop)) w with ⟨v, o⟩
  cases o with
  | none => rfl
  | some s => cases s <;> rfl

theorem retractAllLoop_push (f : Nat) (args : List Term) : ∀ (cs keep : List Fact) (w : World) (σ : PyLoc),
    retractAllLoop f args cs keep (w.push σ) =
      ((retractAllLoop f args cs keep w).1.push σ, (retractAllLoop f args cs keep w).2) := by
  intro cs
  induction cs with
  | nil => intro keep w σ; rfl
  | cons c cs ih =>
    intro keep w σ
    simp only [retractAllLoop, factMatches_push]
    rcases factMatches f c args w with ⟨v, o⟩
    cases o with
    | error s => rfl
    | ok b => cases b <;> simp only [ih]


/-! ### The whole engine -/

def AllF (cfg : Cfg) (f : Nat) : Prop :=
  (∀ (ν : PyLoc → Prop) (ρ : PyLoc → Sig → Sig → Prop), (∀ σ s, ν σ → OwnSig s → ρ σ s s) → ∀ name args, GenF ν ρ (query cfg f name args)) ∧
  (∀ (ν : PyLoc → Prop) (ρ : PyLoc → Sig → Sig → Prop), (∀ σ s, ν σ → OwnSig s → ρ σ s s) → ∀ ds args, GenF ν ρ (runChain cfg f ds args)) ∧
  (∀ (ν : PyLoc → Prop) (ρ : PyLoc → Sig → Sig → Prop), (∀ σ s, ν σ → OwnSig s → ρ σ s s) → ∀ d args, GenF ν ρ (runDef cfg f d args)) ∧
  (∀ (ν : PyLoc → Prop) (ρ : PyLoc → Sig → Sig → Prop), (∀ σ s, ν σ → OwnSig s → ρ σ s s) → ∀ b args, GenF ν ρ (runBuiltin cfg f b args)) ∧
  (∀ (ν : PyLoc → Prop) (ρ : PyLoc → Sig → Sig → Prop), (∀ σ s, ν σ → OwnSig s → ρ σ s s) → ∀ g extra, GenF ν ρ (callGoal cfg f g extra))

theorem ownSig_of_fault {s : Sig} (h : IsFault s) : OwnSig s := by
  rcases h with rfl | ⟨e, rfl⟩
  · exact Or.inl rfl
  · exact Or.inr (Or.inl ⟨e, rfl⟩)

theorem ownSig_of_fonly {s : Sig} (h : FOnly s s) : OwnSig s := by
  cases h with
  | stop => exact Or.inr (Or.inr rfl)
  | oof => exact Or.inl rfl
  | exn e => exact Or.inr (Or.inl ⟨e, rfl⟩)

theorem allF (cfg : Cfg) : ∀ f, AllF cfg f := by
  intro f
  induction f with
  | zero =>
    refine ⟨?_, ?_, ?_, ?_, ?_⟩ <;> intro ν ρ hρ <;> intros <;> intro K1 K2 _ w1 w2 σ hw hσ
    · simp only [query]; exact relF_some hw (hρ σ _ hσ (Or.inl rfl))
    · simp only [runChain]; exact relF_some hw (hρ σ _ hσ (Or.inl rfl))
    · simp only [runDef]; exact relF_some hw (hρ σ _ hσ (Or.inl rfl))
    · simp only [runBuiltin]; exact relF_some hw (hρ σ _ hσ (Or.inl rfl))
    · simp only [callGoal]; exact relF_some hw (hρ σ _ hσ (Or.inl rfl))
  | succ f ih =>
    obtain ⟨ihQ, ihC, ihD, ihB, ihG⟩ := ih
    refine ⟨?_, ?_, ?_, ?_, ?_⟩
    · -- query
      intro ν ρ hρ name args K1 K2 hK w1 w2 σ hw hσ
      simp only [query]
      rcases relF_cases (matchDynamic_F hρ f name args K1 K2 hK w1 w2 σ hw hσ) with
        ⟨v1, v2, τ, hv, hτ, e1, e2⟩ | ⟨v1, v2, τ, a, b, hv, e1, e2, hab⟩
      · simp only [e1, e2]
        split
        · exact relF_none hv hτ
        · split
          · exact relF_none hv hτ
          · exact ihC ν ρ hρ _ args K1 K2 hK v1 v2 τ hv hτ
      · simp only [e1, e2]; exact relF_some hv hab
    · -- runChain
      intro ν ρ hρ ds args K1 K2 hK w1 w2 σ hw hσ
      cases ds with
      | nil => simp only [runChain]; exact relF_none hw hσ
      | cons d ds =>
        simp only [runChain]
        rcases relF_cases (ihD ν ρ hρ d args K1 K2 hK w1 w2 σ hw hσ) with
          ⟨v1, v2, τ, hv, hτ, e1, e2⟩ | ⟨v1, v2, τ, a, b, hv, e1, e2, hab⟩
        · simp only [e1, e2]; exact ihC ν ρ hρ ds args K1 K2 hK v1 v2 τ hv hτ
        · simp only [e1, e2]; exact relF_some hv hab
    · -- runDef
      intro ν ρ hρ d args K1 K2 hK w1 w2 σ hw hσ
      cases d with
      | prolog p mode =>
        simp only [runDef]
        have hq : QF ν (UpBF ν ρ) (query cfg f) := fun name args => ihQ ν (UpBF ν ρ) UpBF_faults name args
        cases mode with
        | compiled =>
          simp only
          apply leaveFrame_F hρ
          exact runClauses_F _ (fun cc => runClauseCompiled_F UpBF_ok f _ hq cc args) _ _ _ (wrapK_F hK) w1 w2 σ hw hσ
        | reference =>
          simp only
          apply leaveFrame_F hρ
          exact runClauses_F _ (fun c => runClauseRef_F UpBF_ok f _ hq c args) _ _ _ (wrapK_F hK) w1 w2 σ hw hσ
        | refbody =>
          simp only
          apply leaveFrame_F hρ
          exact runClauses_F _ (fun (x : ClauseCode × Clause) => runClauseRefBody_F UpBF_ok f _ hq x.1 x.2.body args) _ _ _ (wrapK_F hK) w1 w2 σ hw hσ
      | py p => simp only [runDef]; exact runPy_F hρ f _ args _ _ K1 K2 hK w1 w2 σ hw hσ
      | builtin b => simp only [runDef]; exact ihB ν ρ hρ b args K1 K2 hK w1 w2 σ hw hσ
    · -- runBuiltin
      intro ν ρ hρ b args K1 K2 hK w1 w2 σ hw hσ
      subst hw
      simp only [runBuiltin]
      split
      · -- "="
        exact unify_F hρ f _ _ K1 K2 hK _ w2 σ rfl hσ
      · -- "\\="
        rename_i a b
        rw [genF_equiv (query cfg f "=" [a, b]) (fun ν ρ hρ => ihQ ν ρ hρ "=" [a, b]) (fun w' => (w', some .stop))
          (fun _ _ => rfl) w2 σ]
        have hp := probe_outcome (query cfg f "=" [a, b]) ((allPar cfg f).1 FOnly FOnly_faults "=" [a, b]) w2
        generalize query cfg f "=" [a, b] (fun w' => (w', some Sig.stop)) w2 = r at hp
        obtain ⟨v, o⟩ := r
        rcases hp with h0 | h0 | ⟨s', h0, hf⟩
        · simp only at h0; subst h0; exact hK _ v σ rfl hσ
        · simp only at h0; subst h0; exact relF_none rfl hσ
        · simp only at h0; subst h0
          rcases hf with rfl | ⟨e, rfl⟩
          · exact relF_some rfl (hρ σ _ hσ (Or.inl rfl))
          · exact relF_some rfl (hρ σ _ hσ (Or.inr (Or.inl ⟨e, rfl⟩)))
      · -- call
        exact ihG ν ρ hρ _ _ K1 K2 hK _ w2 σ rfl hσ
      · -- once
        exact onceGen_F hρ _ (ihG ν (UpFF ν ρ) UpFF_faults _ _) K1 K2 hK _ w2 σ rfl hσ
      · -- findall
        rename_i tmpl g bag
        have hpush : ({ w2.push σ with acc := [] :: (w2.push σ).acc } : World) = ({ w2 with acc := [] :: w2.acc } : World).push σ := rfl
        rw [hpush, genF_equiv (callGoal cfg f g []) (fun ν ρ hρ => ihG ν ρ hρ g []) (findallCollect f tmpl)
          (findallCollect_push f tmpl) _ σ]
        have hc : KRel FOnly (findallCollect f tmpl) (findallCollect f tmpl) := by
          intro w'
          unfold findallCollect
          split
          · exact relNone _
          · exact relSome w' FOnly.oof
        have hp := self_outcome (callGoal cfg f g []) ((allPar cfg f).2.2.2.2 FOnly FOnly_faults g []) _ hc
          { w2 with acc := [] :: w2.acc }
        revert hp
        generalize callGoal cfg f g [] (findallCollect f tmpl) { w2 with acc := [] :: w2.acc } = r
        intro hp
        obtain ⟨v, o⟩ := r
        rcases hp with h0 | ⟨s', h0, hf⟩
        · simp only at h0; subst h0
          exact unify_F hρ f _ _ K1 K2 hK _ { v with acc := v.acc.tail } σ rfl hσ
        · simp only at h0; subst h0
          exact relF_some (w2 := { v with acc := v.acc.tail }) rfl (hρ σ _ hσ (ownSig_of_fonly hf))
      · -- assertz
        rename_i t
        have hfa : factNameArgs f (w2.push σ) t = factNameArgs f w2 t := rfl
        rw [hfa]
        cases hfn : factNameArgs f w2 t with
        | error s => simp only; exact relF_some rfl (hρ σ _ hσ (ownSig_of_fault (factNameArgs_err f w2 t s hfn)))
        | ok na =>
          obtain ⟨name, as⟩ := na
          simp only [assertFact_push]
          rcases assertFact_outcome f name as true w2 with h0 | h0
          · cases hr : assertFact f name as true w2 with
            | mk v o => rw [hr] at h0; simp only at h0; subst h0; exact hK _ v σ rfl hσ
          · rw [h0]; exact relF_some rfl (hρ σ _ hσ (Or.inl rfl))
      · -- asserta
        rename_i t
        have hfa : factNameArgs f (w2.push σ) t = factNameArgs f w2 t := rfl
        rw [hfa]
        cases hfn : factNameArgs f w2 t with
        | error s => simp only; exact relF_some rfl (hρ σ _ hσ (ownSig_of_fault (factNameArgs_err f w2 t s hfn)))
        | ok na =>
          obtain ⟨name, as⟩ := na
          simp only [assertFact_push]
          rcases assertFact_outcome f name as false w2 with h0 | h0
          · cases hr : assertFact f name as false w2 with
            | mk v o => rw [hr] at h0; simp only at h0; subst h0; exact hK _ v σ rfl hσ
          · rw [h0]; exact relF_some rfl (hρ σ _ hσ (Or.inl rfl))
      · -- retract
        rename_i t
        have hfa : factNameArgs f (w2.push σ) t = factNameArgs f w2 t := rfl
        rw [hfa]
        cases hfn : factNameArgs f w2 t with
        | error s => simp only; exact relF_some rfl (hρ σ _ hσ (ownSig_of_fault (factNameArgs_err f w2 t s hfn)))
        | ok na =>
          obtain ⟨name, as⟩ := na
          simp only [push_facts]
          exact retractLoop_F hρ f name as _ K1 K2 hK _ w2 σ rfl hσ
      · -- retractall
        rename_i t
        have hfa : factNameArgs f (w2.push σ) t = factNameArgs f w2 t := rfl
        rw [hfa]
        cases hfn : factNameArgs f w2 t with
        | error s => simp only; exact relF_some rfl (hρ σ _ hσ (ownSig_of_fault (factNameArgs_err f w2 t s hfn)))
        | ok na =>
          obtain ⟨name, as⟩ := na
          simp only [push_facts, retractAllLoop_push]
          cases hr : retractAllLoop f as (w2.facts name as.length) [] w2 with
          | mk v res =>
            cases res with
            | ok keep => simp only [setFacts_push]; exact hK _ _ σ rfl hσ
            | error s => simp only; exact relF_some rfl (hρ σ _ hσ (ownSig_of_fault (retractAllLoop_err f as _ _ w2 v s hr)))
      · -- wrong number of arguments
        exact relF_some rfl (hρ σ _ hσ (Or.inr (Or.inl ⟨_, rfl⟩)))
    · -- callGoal
      intro ν ρ hρ g extra K1 K2 hK w1 w2 σ hw hσ
      subst hw
      simp only [callGoal]
      have hb : (w2.push σ).b = w2.b := rfl
      rw [hb]
      split
      · exact relF_some rfl (hρ σ _ hσ (Or.inl rfl))
      · exact ihQ ν ρ hρ _ _ K1 K2 hK _ w2 σ rfl hσ
      · exact ihQ ν ρ hρ _ _ K1 K2 hK _ w2 σ rfl hσ
      · exact relF_some rfl (hρ σ _ hσ (Or.inr (Or.inl ⟨_, rfl⟩)))

/-- **The model engine is frame-local**: `query`, at every fuel and for every definition table,
    and `unify` do not look at the frame of their consumer. The hypotheses of Theorem B hold for
    the model engine. -/
theorem query_frameLocal (cfg : Cfg) (f : Nat) (name : String) (args : List Term) : FrameLocal (query cfg f name args) := by
  intro ν ρ hρ K1 K2 hK w σ hσ
  exact (allF cfg f).1 ν ρ hρ name args K1 K2 (fun w1 w2 τ hw hτ => by subst hw; exact hK w2 τ hτ) (w.push σ) w σ rfl hσ

theorem unify_frameLocal (f : Nat) (a b : Term) : FrameLocal (unify f a b) := by
  intro ν ρ hρ K1 K2 hK w σ hσ
  exact unify_F hρ f a b K1 K2 (fun w1 w2 τ hw hτ => by subst hw; exact hK w2 τ hτ) (w.push σ) w σ rfl hσ

end Yld
