/-
  Unification computes a most general unifier, and fails only when there is none.

  Solutions instead of substitution composition: a *valuation* θ assigns a term to every variable;
  θ solves a heap `b` when every binding `x := u` of `b` holds under θ (`θ x = u[θ]`), and θ unifies
  `t1, t2` when `t1[θ] = t2[θ]`.  For every fuel, terms and heap:

  * if `unify` yields, the heap at the yield has exactly the solutions of the starting heap that
    unify the two terms (`unify_mgu`: nothing lost = most general, nothing gained = sound);
  * if `unify` ends without yielding and without running out of fuel, no solution of the starting
    heap unifies the two terms (`unify_fails_only_without_unifier`).

  No occurs check is needed for either statement: a binding `x := f(x)` has no solution among finite
  terms, so "yields with a cyclic heap" is covered by the first statement (both sides empty).
-/
import Yld.Proofs.UnifySound
namespace Yld

/-- Apply a valuation once (no iteration: θ is a solution, not a heap). -/
def Term.subst (θ : Nat → Term) : Term → Term
  | .var n => θ n
  | .fn g args => .fn g (args.attach.map fun ⟨a, _⟩ => a.subst θ)
  | t => t

theorem subst_fn (θ : Nat → Term) (g : String) (args : List Term) :
    Term.subst θ (.fn g args) = .fn g (args.map (Term.subst θ)) := by
  simp [Term.subst, List.map_attach_eq_pmap, List.pmap_eq_map]

/-- θ solves the heap: every binding is an equation that holds under θ. -/
def Solves (θ : Nat → Term) (b : Bind) : Prop := ∀ x u, b x = some u → θ x = u.subst θ

theorem solves_bind {θ : Nat → Term} {b : Bind} {x : Nat} {u : Term} (hx : b x = none) :
    Solves θ (bind b x u) ↔ (Solves θ b ∧ θ x = u.subst θ) := by
  constructor
  · intro h
    refine ⟨fun y v hy => h y v ?_, h x u (by simp [bind])⟩
    have : y ≠ x := fun e => by rw [e, hx] at hy; cases hy
    simp [bind, this, hy]
  · rintro ⟨h1, h2⟩ y v hy
    by_cases e : y = x
    · subst e; simp [bind] at hy; subst hy; exact h2
    · simp [bind, e] at hy; exact h1 y v hy

theorem walk_subst {θ : Nat → Term} {b : Bind} (hθ : Solves θ b) : ∀ (f : Nat) (t a : Term),
    walk b f t = some a → t.subst θ = a.subst θ := by
  intro f
  induction f with
  | zero => intro t a h; simp [walk] at h
  | succ f ih =>
    intro t a h
    cases t with
    | var n =>
      simp only [walk] at h
      cases hb : b n with
      | none => rw [hb] at h; simp at h; subst h; rfl
      | some u =>
        rw [hb] at h
        simp only at h
        rw [← ih u a h]
        simpa [Term.subst] using hθ n u hb
    | atom s => simp [walk] at h; subst h; rfl
    | int i => simp [walk] at h; subst h; rfl
    | fn g as => simp [walk] at h; subst h; rfl

/-- What `unify` does, with what it means: it runs out of fuel; or it ends without calling its
    consumer and no solution of the heap satisfies `U`; or it calls its consumer exactly once, on a
    heap whose solutions are exactly the solutions of the starting heap that satisfy `U`. -/
inductive MShape (U : (Nat → Term) → Prop) (g : Gen) (w : World) : Prop
  | oof (r : R) : r.2 = some .oof → (∀ k, g k w = r) → MShape U g w
  | fail (r : R) : r.2 = none → (∀ k, g k w = r) → (∀ θ, Solves θ w.b → ¬ U θ) → MShape U g w
  | once (pre : World) (post : World → World) : (∀ k, g k w = ((post (k pre).1), (k pre).2)) →
      (∀ θ, Solves θ pre.b ↔ (Solves θ w.b ∧ U θ)) → MShape U g w

theorem mshape_congr {U U' : (Nat → Term) → Prop} {g : Gen} {w : World}
    (h : ∀ θ, Solves θ w.b → (U θ ↔ U' θ)) (s : MShape U g w) : MShape U' g w := by
  cases s with
  | oof r hr hk => exact .oof r hr hk
  | fail r hr hk hno => exact .fail r hr hk (fun θ hθ hu => hno θ hθ ((h θ hθ).mpr hu))
  | once pre post hk hiff =>
    refine .once pre post hk (fun θ => ?_)
    rw [hiff θ]
    exact ⟨fun ⟨a, b⟩ => ⟨a, (h θ a).mp b⟩, fun ⟨a, b⟩ => ⟨a, (h θ a).mpr b⟩⟩

theorem mshape_of_eq {U : (Nat → Term) → Prop} {g g' : Gen} {w w' : World} (hb : w'.b = w.b)
    (h : ∀ k, g k w = g' k w') (s : MShape U g' w') : MShape U g w := by
  cases s with
  | oof r hr hk => exact .oof r hr (fun k => by rw [h, hk])
  | fail r hr hk hno => exact .fail r hr (fun k => by rw [h, hk]) (fun θ hθ => hno θ (hb ▸ hθ))
  | once pre post hk hiff => exact .once pre post (fun k => by rw [h, hk]) (fun θ => by rw [hiff θ, hb])

theorem bindGen_mshape (x : Nat) (t : Term) (w : World) (hx : w.b x = none) :
    MShape (fun θ => θ x = t.subst θ) (bindGen x t) w :=
  .once { w with b := bind w.b x t } (fun w' => { w' with b := unbind w'.b x }) (fun _ => rfl)
    (fun θ => solves_bind hx)

theorem unifyList_mshape (u : Term → Term → Gen)
    (hu : ∀ a b w, MShape (fun θ => a.subst θ = b.subst θ) (u a b) w) :
    ∀ as bs w, MShape (fun θ => as.map (Term.subst θ) = bs.map (Term.subst θ)) (unifyList u as bs) w := by
  intro as
  induction as with
  | nil =>
    intro bs w
    cases bs with
    | nil => exact .once w id (fun k => by simp [unifyList]) (fun θ => by simp)
    | cons b bs => exact .fail (w, none) rfl (fun k => by simp [unifyList]) (fun θ _ h => by simp at h)
  | cons a as ih =>
    intro bs w
    cases bs with
    | nil => exact .fail (w, none) rfl (fun k => by simp [unifyList]) (fun θ _ h => by simp at h)
    | cons b bs =>
      cases hu a b w with
      | oof r hr h => exact .oof r hr (fun k => by simp only [unifyList]; exact h _)
      | fail r hr h hno =>
        exact .fail r hr (fun k => by simp only [unifyList]; exact h _)
          (fun θ hθ hl => hno θ hθ (by simp only [List.map_cons, List.cons.injEq] at hl; exact hl.1))
      | once pre post h hiff =>
        cases ih bs pre with
        | oof r2 hr2 h2 =>
          exact .oof (post r2.1, r2.2) hr2 (fun k => by simp only [unifyList]; rw [h]; simp only [h2])
        | fail r2 hr2 h2 hno =>
          refine .fail (post r2.1, r2.2) hr2 (fun k => by simp only [unifyList]; rw [h]; simp only [h2]) ?_
          intro θ hθ hl
          simp only [List.map_cons, List.cons.injEq] at hl
          exact hno θ ((hiff θ).mpr ⟨hθ, hl.1⟩) hl.2
        | once pre2 post2 h2 hiff2 =>
          refine .once pre2 (fun w' => post (post2 w')) (fun k => by simp only [unifyList]; rw [h]; simp only [h2]) ?_
          intro θ
          rw [hiff2 θ, hiff θ]
          simp only [List.map_cons, List.cons.injEq]
          exact ⟨fun ⟨⟨a, b⟩, c⟩ => ⟨a, b, c⟩, fun ⟨a, b, c⟩ => ⟨⟨a, b⟩, c⟩⟩

theorem mshape_yield {U : (Nat → Term) → Prop} (w : World) {g : Gen} (h : ∀ k, g k w = k w)
    (hU : ∀ θ, Solves θ w.b → U θ) : MShape U g w :=
  .once w id (fun k => by rw [h]; rfl) (fun θ => ⟨fun a => ⟨a, hU θ a⟩, fun a => a.1⟩)

theorem mshape_fail {U : (Nat → Term) → Prop} (w : World) {g : Gen} (h : ∀ k, g k w = (w, none))
    (hU : ∀ θ, Solves θ w.b → ¬ U θ) : MShape U g w := .fail (w, none) rfl h hU

/-- **`unify` computes a most general unifier and fails only when there is none.** -/
theorem unify_mshape (f : Nat) : ∀ t1 t2 w, MShape (fun θ => t1.subst θ = t2.subst θ) (unify f t1 t2) w := by
  induction f with
  | zero => intro t1 t2 w; exact .oof (w, some .oof) rfl (fun k => by simp [unify])
  | succ f ih =>
    intro t1 t2 w
    cases h1 : walk w.b (f+1) t1 with
    | none => exact .oof (w, some .oof) rfl (fun k => by simp [unify, h1])
    | some a1 =>
      cases h2 : walk w.b (f+1) t2 with
      | none => exact .oof (w, some .oof) rfl (fun k => by simp [unify, h1, h2])
      | some a2 =>
        -- under a solution of the heap, the terms and what they dereference to are the same
        apply mshape_congr (U := fun θ => a1.subst θ = a2.subst θ)
          (fun θ hθ => by rw [walk_subst hθ _ _ _ h1, walk_subst hθ _ _ _ h2])
        cases a1 with
        | var x =>
          have hx := walk_var_unbound w.b _ _ _ h1
          cases a2 with
          | var y =>
            by_cases hxy : x = y
            · exact mshape_yield w (fun k => by simp [unify, h1, h2, hxy]) (fun θ _ => by simp [hxy])
            · apply mshape_congr (U := fun θ => θ x = (Term.var y).subst θ) (fun θ _ => by simp [Term.subst])
              exact mshape_of_eq (g' := bindGen x (.var y)) (w' := w) rfl (fun k => by simp [unify, h1, h2, hxy])
                (bindGen_mshape _ _ _ hx)
          | atom s =>
            apply mshape_congr (U := fun θ => θ x = (Term.atom s).subst θ) (fun θ _ => by simp [Term.subst])
            exact mshape_of_eq (g' := bindGen x (.atom s)) (w' := markCyc cycFuel x (.atom s) w) (markCyc_b' _ _ _ _)
              (fun k => by simp only [unify, h1, h2]) (bindGen_mshape _ _ _ (by rw [markCyc_b']; exact hx))
          | int i =>
            apply mshape_congr (U := fun θ => θ x = (Term.int i).subst θ) (fun θ _ => by simp [Term.subst])
            exact mshape_of_eq (g' := bindGen x (.int i)) (w' := markCyc cycFuel x (.int i) w) (markCyc_b' _ _ _ _)
              (fun k => by simp only [unify, h1, h2]) (bindGen_mshape _ _ _ (by rw [markCyc_b']; exact hx))
          | fn g as =>
            apply mshape_congr (U := fun θ => θ x = (Term.fn g as).subst θ) (fun θ _ => by simp [Term.subst])
            exact mshape_of_eq (g' := bindGen x (.fn g as)) (w' := markCyc cycFuel x (.fn g as) w) (markCyc_b' _ _ _ _)
              (fun k => by simp only [unify, h1, h2]) (bindGen_mshape _ _ _ (by rw [markCyc_b']; exact hx))
        | atom s =>
          cases a2 with
          | var y =>
            have hy := walk_var_unbound w.b _ _ _ h2
            apply mshape_congr (U := fun θ => θ y = (Term.atom s).subst θ) (fun θ _ => by simp only [Term.subst]; exact ⟨Eq.symm, Eq.symm⟩)
            exact mshape_of_eq (g' := bindGen y (.atom s)) (w' := markCyc cycFuel y (.atom s) w) (markCyc_b' _ _ _ _)
              (fun k => by simp only [unify, h1, h2]) (bindGen_mshape _ _ _ (by rw [markCyc_b']; exact hy))
          | atom s' =>
            by_cases hs : s = s'
            · exact mshape_yield w (fun k => by simp [unify, h1, h2, hs]) (fun θ _ => by simp [hs])
            · exact mshape_fail w (fun k => by simp [unify, h1, h2, hs]) (fun θ _ h => by simp [Term.subst] at h; exact hs h)
          | int i => exact mshape_fail w (fun k => by simp [unify, h1, h2]) (fun θ _ h => by simp [Term.subst] at h)
          | fn g as => exact mshape_fail w (fun k => by simp [unify, h1, h2]) (fun θ _ h => by simp [Term.subst] at h)
        | int i =>
          cases a2 with
          | var y =>
            have hy := walk_var_unbound w.b _ _ _ h2
            apply mshape_congr (U := fun θ => θ y = (Term.int i).subst θ) (fun θ _ => by simp only [Term.subst]; exact ⟨Eq.symm, Eq.symm⟩)
            exact mshape_of_eq (g' := bindGen y (.int i)) (w' := markCyc cycFuel y (.int i) w) (markCyc_b' _ _ _ _)
              (fun k => by simp only [unify, h1, h2]) (bindGen_mshape _ _ _ (by rw [markCyc_b']; exact hy))
          | atom s' => exact mshape_fail w (fun k => by simp [unify, h1, h2]) (fun θ _ h => by simp [Term.subst] at h)
          | int j =>
            by_cases hs : i = j
            · exact mshape_yield w (fun k => by simp [unify, h1, h2, hs]) (fun θ _ => by simp [hs])
            · exact mshape_fail w (fun k => by simp [unify, h1, h2, hs]) (fun θ _ h => by simp [Term.subst] at h; exact hs h)
          | fn g as => exact mshape_fail w (fun k => by simp [unify, h1, h2]) (fun θ _ h => by simp [Term.subst] at h)
        | fn g as =>
          cases a2 with
          | var y =>
            have hy := walk_var_unbound w.b _ _ _ h2
            apply mshape_congr (U := fun θ => θ y = (Term.fn g as).subst θ) (fun θ _ => by simp only [Term.subst]; exact ⟨Eq.symm, Eq.symm⟩)
            exact mshape_of_eq (g' := bindGen y (.fn g as)) (w' := markCyc cycFuel y (.fn g as) w) (markCyc_b' _ _ _ _)
              (fun k => by simp only [unify, h1, h2]) (bindGen_mshape _ _ _ (by rw [markCyc_b']; exact hy))
          | atom s' => exact mshape_fail w (fun k => by simp [unify, h1, h2]) (fun θ _ h => by simp [Term.subst] at h)
          | int j => exact mshape_fail w (fun k => by simp [unify, h1, h2]) (fun θ _ h => by simp [Term.subst] at h)
          | fn g' as' =>
            by_cases hg : g = g' ∧ as.length = as'.length
            · apply mshape_congr (U := fun θ => as.map (Term.subst θ) = as'.map (Term.subst θ))
                (fun θ _ => by rw [subst_fn, subst_fn]; simp [hg.1])
              exact mshape_of_eq (g' := unifyList (unify f) as as') (w' := w) rfl
                (fun k => by simp only [unify, h1, h2, hg, and_self, if_true]) (unifyList_mshape (unify f) ih as as' w)
            · refine mshape_fail w (fun k => by simp only [unify, h1, h2, hg, if_false]) (fun θ _ h => hg ?_)
              rw [subst_fn, subst_fn] at h
              simp only [Term.fn.injEq] at h
              exact ⟨h.1, by simpa using congrArg List.length h.2⟩

/-! ### The statements, unpacked (the consumer `probe` answers `stop` at the first yield) -/

def probe : K := fun w' => (w', some .stop)

/-- A pair that has a unifier among the solutions of the heap is never refused: `unify` yields, or
    runs out of fuel. -/
theorem unify_complete (f : Nat) (t1 t2 : Term) (w : World) (θ : Nat → Term) (hθ : Solves θ w.b)
    (hu : t1.subst θ = t2.subst θ) :
    (unify f t1 t2 probe w).2 = some .stop ∨ (unify f t1 t2 probe w).2 = some .oof := by
  cases unify_mshape f t1 t2 w with
  | oof r hr hk => right; rw [hk]; exact hr
  | fail r hr hk hno => exact absurd hu (hno θ hθ)
  | once pre post hk hiff => left; rw [hk]; rfl

/-- `unify` ends without a yield (and without running out of fuel) only when no solution of the heap
    makes the two terms equal. -/
theorem unify_fails_only_without_unifier (f : Nat) (t1 t2 : Term) (w : World)
    (h : (unify f t1 t2 probe w).2 = none) : ∀ θ, Solves θ w.b → t1.subst θ ≠ t2.subst θ := by
  cases unify_mshape f t1 t2 w with
  | oof r hr hk => rw [hk, hr] at h; cases h
  | fail r hr hk hno => exact hno
  | once pre post hk hiff => rw [hk] at h; cases h

/-- At the yield the heap has exactly the solutions of the starting heap that make the two terms
    equal: none is lost (the unifier is most general), none is gained (it is a unifier). -/
theorem unify_yield_is_mgu (f : Nat) (t1 t2 : Term) (w : World) (h : (unify f t1 t2 probe w).2 = some .stop) :
    ∃ (pre : World) (post : World → World), (∀ k : K, unify f t1 t2 k w = ((post (k pre).1), (k pre).2)) ∧
      ∀ θ, Solves θ pre.b ↔ (Solves θ w.b ∧ t1.subst θ = t2.subst θ) := by
  cases unify_mshape f t1 t2 w with
  | oof r hr hk => rw [hk, hr] at h; cases h
  | fail r hr hk hno => rw [hk, hr] at h; cases h
  | once pre post hk hiff => exact ⟨pre, post, hk, hiff⟩

end Yld
