/-
  The logical reading with dynamic facts (C01, C07), stage 2: the recorded answers (`LgApi`, for a store
  `D` of closed facts).
-/
import Yld.Proofs.LgFSound
import Yld.Proofs.LgApi
set_option linter.unusedSimpArgs false
set_option linter.unusedVariables false
namespace Yld
namespace Lg
namespace F

variable {D : CDb}

open Classical in
/-- **Soundness of the recorded answers, for an abstract meaning of goals.** -/
theorem answers_sound {U : String → Bool} {cfg : Cfg} {preds : List Pred} (hc : HC U cfg preds)
    {H : String → List Term → Prop} (sem : Sem D preds H) (f : Nat) {name : String} (hU : U name = true)
    (args : List Term) (sched : Sched) (w0 : World) (hg : Good D True w0) (ha : OwnL w0.next args)
    (hacc : w0.acc.headD [] = [])
    (hcyc : (query cfg f name args (topConsumer f args sched) w0).1.cyc = false) :
    ∀ ans ∈ (query cfg f name args (topConsumer f args sched) w0).1.acc.headD [], AnsOK H name ans := by
  let Φ : World → Prop := fun w' => Step D True w0 w' ∧ GH H name args w'
  let k2 : K := fun w' => if Φ w' then topConsumer f args sched w' else (w', none)
  have hk2 : QK True k2 := QK.ite (topConsumer_qk f args sched) (idle_qk True) Φ
  have e : query cfg f name args (topConsumer f args sched) w0 = query cfg f name args k2 w0 :=
    query_sound_all hc sem True f name hU args w0 hg ha _ _ (topConsumer_qk f args sched) hk2
      (fun w' h => (if_pos (c := Φ w') h).symm)
  rw [e] at hcyc ⊢
  have hrel : KRelP (fun w w' => AccOK H name w → AccOK H name w') k2 := by
    intro w hinv
    by_cases hΦ : Φ w
    · simp only [k2, if_pos hΦ]
      obtain ⟨h1, _, h3⟩ := topConsumer_inv (fun a => w.cyc = false → AnsOK H name a) f args sched w
        (fun vs hm hcw => ⟨_, rfl, answer_instances (hΦ.1.good.solv trivial hcw) hΦ.2 hm⟩)
      intro hc' ans hans
      rw [h1] at hc'
      rcases h3 ans hans with h | h
      · exact hinv hc' ans h
      · exact h hc'
    · simp only [k2, if_neg hΦ]; exact hinv
  have := query_relp (stepRel_accOK H name) hc f name hU args k2 hrel w0
    (fun _ ans hans => by rw [hacc] at hans; cases hans)
  exact this hcyc

end F
end Lg
end Yld
