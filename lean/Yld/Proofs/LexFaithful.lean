/-
  The lexer neither omits nor alters anything: the text is cut into consecutive segments, each
  either skipped (white space, or a comment up to and including its line break) or a token whose
  text is exactly the segment.
-/
import Yld.Model.Lexer
namespace Yld

/-- `Lexed cs toks`: `cs` is the concatenation of consecutive segments, in order; a segment is
    skipped (then `lexOne` says so) or is a token whose text is the segment verbatim. -/
inductive Lexed : List Char → List Tok → Prop
  | nil : Lexed [] []
  | skip (cs : List Char) (n : Nat) (toks : List Tok) :
      lexOne cs = some (none, n) → 1 ≤ n → n ≤ cs.length → Lexed (cs.drop n) toks → Lexed cs toks
  | tok (cs : List Char) (t : Tok) (n : Nat) (toks : List Tok) :
      lexOne cs = some (some t, n) → 1 ≤ n → n ≤ cs.length → (Tok.text t).toList = cs.take n →
      Lexed (cs.drop n) toks → Lexed cs (t :: toks)

theorem take_length_takeWhile (p : Char → Bool) (l : List Char) :
    l.take (l.takeWhile p).length = l.takeWhile p := by
  induction l with
  | nil => simp
  | cons a l ih =>
    simp only [List.takeWhile_cons]
    split <;> simp [ih]

theorem length_takeWhile_le' (p : Char → Bool) (l : List Char) :
    (l.takeWhile p).length ≤ l.length := by
  induction l with
  | nil => simp
  | cons a l ih =>
    simp only [List.takeWhile_cons]
    split <;> simp <;> omega

theorem length_takeWhile_pos (p : Char → Bool) (c : Char) (l : List Char) (h : p c = true) :
    1 ≤ ((c :: l).takeWhile p).length := by
  simp [h]

theorem scanComment_bound (cs : List Char) (k n : Nat) (h : scanComment cs k = some n) :
    k < n ∧ n ≤ k + cs.length := by
  induction cs generalizing k with
  | nil => simp [scanComment] at h
  | cons c cs ih =>
    simp only [scanComment] at h
    split at h
    · simp at h; simp; omega
    · have := ih _ h; simp; omega

theorem scanString_bound (cs : List Char) (k : Nat) (pb : Bool) (best : Option Nat) (n : Nat)
    (h : scanString cs k pb best = some n) :
    best = some n ∨ (k < n ∧ n ≤ k + cs.length) := by
  induction cs generalizing k pb best with
  | nil => simp [scanString] at h; exact Or.inl h
  | cons c cs ih =>
    simp only [scanString] at h
    split at h
    · split at h
      · rcases ih _ _ _ h with h' | h'
        · simp at h'; right; simp; omega
        · right; simp; omega
      · simp at h; right; simp; omega
    · rcases ih _ _ _ h with h' | h'
      · exact Or.inl h'
      · right; simp; omega

theorem lexOne_spec (cs : List Char) (t? : Option Tok) (n : Nat) (h : lexOne cs = some (t?, n)) :
    1 ≤ n ∧ n ≤ cs.length ∧ ∀ t, t? = some t → (Tok.text t).toList = cs.take n := by
  cases cs with
  | nil => simp [lexOne] at h
  | cons c rest =>
    simp only [lexOne] at h
    split at h
    · -- white space
      simp only [Option.some.injEq, Prod.mk.injEq] at h; obtain ⟨rfl, rfl⟩ := h; simp
    split at h
    · -- comment
      simp only [Option.map_eq_some_iff, Prod.mk.injEq] at h
      obtain ⟨m, hm, rfl, rfl⟩ := h
      have := scanComment_bound _ _ _ hm
      simp; omega
    split at h
    · -- quoted string
      simp only [Option.map_eq_some_iff, Prod.mk.injEq] at h
      obtain ⟨m, hm, rfl, rfl⟩ := h
      rcases scanString_bound _ _ _ _ _ hm with hb | hb
      · simp at hb
      · refine ⟨by omega, by simp; omega, ?_⟩
        intro t ht
        simp only [Option.some.injEq] at ht
        subst ht
        simp [Tok.text]
    split at h
    · -- variable
      rename_i hc
      simp only [Option.some.injEq, Prod.mk.injEq] at h; obtain ⟨rfl, rfl⟩ := h
      have hid : isIdChar c = true := by
        simp only [isIdChar]; simp only [Bool.or_eq_true] at hc ⊢
        rcases hc with hc | hc
        · exact Or.inl (Or.inl (Or.inr hc))
        · exact Or.inr hc
      refine ⟨length_takeWhile_pos _ _ _ hid, length_takeWhile_le' _ _, ?_⟩
      intro t ht
      simp only [Option.some.injEq] at ht
      subst ht
      simp only [Tok.text, String.toList_ofList]
      exact (take_length_takeWhile _ _).symm
    split at h
    · -- atom / true / fail
      rename_i hc
      have hid : isIdChar c = true := by
        simp only [isIdChar, Bool.or_eq_true]
        exact Or.inl (Or.inl (Or.inl hc))
      have hpos := length_takeWhile_pos isIdChar c rest hid
      have hle := length_takeWhile_le' isIdChar (c :: rest)
      have htk := take_length_takeWhile isIdChar (c :: rest)
      split at h
      · rename_i hs
        simp only [Option.some.injEq, Prod.mk.injEq] at h; obtain ⟨rfl, rfl⟩ := h
        have hs' : List.takeWhile isIdChar (c :: rest) = ['t','r','u','e'] := by
          have := congrArg String.toList (eq_of_beq hs)
          simpa using this
        rw [hs'] at hle htk
        refine ⟨by omega, by simpa using hle, ?_⟩
        intro t ht
        simp only [Option.some.injEq] at ht
        subst ht
        simp only [Tok.text]
        rw [show (List.length ['t','r','u','e']) = 4 from rfl] at htk
        rw [htk]; decide
      split at h
      · rename_i hs
        simp only [Option.some.injEq, Prod.mk.injEq] at h; obtain ⟨rfl, rfl⟩ := h
        have hs' : List.takeWhile isIdChar (c :: rest) = ['f','a','i','l'] := by
          have := congrArg String.toList (eq_of_beq hs)
          simpa using this
        rw [hs'] at hle htk
        refine ⟨by omega, by simpa using hle, ?_⟩
        intro t ht
        simp only [Option.some.injEq] at ht
        subst ht
        simp only [Tok.text]
        rw [show (List.length ['f','a','i','l']) = 4 from rfl] at htk
        rw [htk]; decide
      · simp only [Option.some.injEq, Prod.mk.injEq] at h; obtain ⟨rfl, rfl⟩ := h
        refine ⟨hpos, hle, ?_⟩
        intro t ht
        simp only [Option.some.injEq] at ht
        subst ht
        simp only [Tok.text, String.toList_ofList]
        exact htk.symm
    split at h
    · -- numeral
      rename_i hc
      simp only [Option.some.injEq, Prod.mk.injEq] at h; obtain ⟨rfl, rfl⟩ := h
      refine ⟨length_takeWhile_pos _ _ _ hc, length_takeWhile_le' _ _, ?_⟩
      intro t ht
      simp only [Option.some.injEq] at ht
      subst ht
      simp only [Tok.text, String.toList_ofList]
      exact (take_length_takeWhile _ _).symm
    -- punctuation and operators
    split at h
    all_goals first
      | (simp only [Option.some.injEq, Prod.mk.injEq] at h; obtain ⟨rfl, rfl⟩ := h; simp [Tok.text])
      | (simp at h)

theorem lexAll_sound (f : Nat) : ∀ (cs : List Char) (acc toks : List Tok),
    lexAll f cs acc = some toks → ∃ ts, toks = acc.reverse ++ ts ∧ Lexed cs ts := by
  induction f with
  | zero =>
    intro cs acc toks h
    cases cs with
    | nil =>
      simp only [lexAll, Option.some.injEq] at h
      exact ⟨[], by simp [h], Lexed.nil⟩
    | cons c rest => simp [lexAll] at h
  | succ f ih =>
    intro cs acc toks h
    cases cs with
    | nil =>
      simp only [lexAll, Option.some.injEq] at h
      exact ⟨[], by simp [h], Lexed.nil⟩
    | cons c rest =>
      simp only [lexAll] at h
      split at h
      · simp at h
      · rename_i t? n hl
        obtain ⟨h1, h2, h3⟩ := lexOne_spec _ _ _ hl
        rw [Nat.max_eq_left h1] at h
        obtain ⟨ts, hts, hlex⟩ := ih _ _ _ h
        cases t? with
        | none =>
          exact ⟨ts, by simpa using hts, Lexed.skip _ n _ hl h1 h2 hlex⟩
        | some t =>
          refine ⟨t :: ts, ?_, Lexed.tok _ t n _ hl h1 h2 (h3 t rfl) hlex⟩
          simpa using hts

/-- What is skipped is white space or a comment. -/
theorem skipped_is_ws_or_comment (cs : List Char) (n : Nat) (h : lexOne cs = some (none, n)) :
    ∃ c rest, cs = c :: rest ∧ (isWs c = true ∨ c = '%') := by
  cases cs with
  | nil => simp [lexOne] at h
  | cons c rest =>
    refine ⟨c, rest, rfl, ?_⟩
    simp only [lexOne] at h
    split at h
    · rename_i hc; exact Or.inl hc
    split at h
    · rename_i hc; exact Or.inr (by simpa using hc)
    split at h
    · simp at h
    split at h
    · simp at h
    split at h
    · split at h
      · simp at h
      split at h <;> simp at h
    split at h
    · simp at h
    split at h <;> simp at h

/-- **The lexer is faithful.** -/
theorem lex_faithful (s : String) (toks : List Tok) (h : lex s = some toks) : Lexed s.toList toks := by
  obtain ⟨ts, hts, hlex⟩ := lexAll_sound _ _ _ _ h
  simp only [List.reverse_nil, List.nil_append] at hts
  subst hts
  exact hlex

end Yld
