/-
  Parametricity of the engine in the consumer's reasons: every generator of the model treats what
  its consumer answers at a yield as an opaque token (it only distinguishes "resume" from
  "abandon"), so related consumers give related runs. This discharges the hypothesis
  `Parametric q` of Theorem A for the actual `query`.
-/
import Yld.Proofs.CompCorrect
namespace Yld

def KRel (ρ : Sig → Sig → Prop) (K1 K2 : K) : Prop := ∀ w, RelR ρ (K1 w) (K2 w)
def GenPar (ρ : Sig → Sig → Prop) (g : Gen) : Prop := ∀ K1 K2, KRel ρ K1 K2 → KRel ρ (g K1) (g K2)

theorem relNone {ρ : Sig → Sig → Prop} (w : World) : RelR ρ (w, none) (w, none) := ⟨rfl, trivial⟩
theorem relSome {ρ : Sig → Sig → Prop} (w : World) {a b : Sig} (h : ρ a b) : RelR ρ (w, some a) (w, some b) := ⟨rfl, h⟩

/-- case analysis on related outcomes -/
theorem relCases {ρ : Sig → Sig → Prop} {r1 r2 : R} (h : RelR ρ r1 r2) :
    (∃ w, r1 = (w, none) ∧ r2 = (w, none)) ∨ (∃ w a b, r1 = (w, some a) ∧ r2 = (w, some b) ∧ ρ a b) := by
  obtain ⟨w1, o1⟩ := r1
  obtain ⟨w2, o2⟩ := r2
  obtain ⟨hw, ho⟩ := h
  simp only at hw; subst hw
  cases o1 <;> cases o2 <;> simp only [OptRel] at ho
  · exact Or.inl ⟨w1, rfl, rfl⟩
  · exact Or.inr ⟨w1, _, _, rfl, rfl, ho⟩

theorem bindGen_par (ρ : Sig → Sig → Prop) (x : Nat) (t : Term) : GenPar ρ (bindGen x t) := by
  intro K1 K2 hK w
  unfold bindGen
  have h := hK { w with b := bind w.b x t }
  rcases relCases h with ⟨w', h1, h2⟩ | ⟨w', a, b, h1, h2, hab⟩
  · simp only [h1, h2]; exact ⟨rfl, trivial⟩
  · simp only [h1, h2]; exact ⟨rfl, hab⟩

theorem unifyList_par (ρ : Sig → Sig → Prop) (u : Term → Term → Gen) (hu : ∀ a b, GenPar ρ (u a b)) :
    ∀ as bs, GenPar ρ (unifyList u as bs) := by
  intro as
  induction as with
  | nil =>
    intro bs K1 K2 hK w
    cases bs with
    | nil => simpa [unifyList] using hK w
    | cons b bs => simp only [unifyList]; exact relNone w
  | cons a as ih =>
    intro bs K1 K2 hK w
    cases bs with
    | nil => simp only [unifyList]; exact relNone w
    | cons b bs =>
      simp only [unifyList]
      exact hu a b _ _ (fun w' => ih bs K1 K2 hK w') w

theorem unify_par (ρ : Sig → Sig → Prop) (hρ : FaultRefl ρ) (f : Nat) : ∀ t1 t2, GenPar ρ (unify f t1 t2) := by
  induction f with
  | zero => intro t1 t2 K1 K2 _ w; simp only [unify]; exact relSome w hρ.1
  | succ f ih =>
    intro t1 t2 K1 K2 hK w
    simp only [unify]
    cases h1 : walk w.b (f+1) t1 with
    | none => exact relSome w hρ.1
    | some a1 =>
      cases h2 : walk w.b (f+1) t2 with
      | none => exact relSome w hρ.1
      | some a2 =>
        simp only
        cases a1 <;> cases a2 <;> simp only
        all_goals first
          | exact relNone w
          | exact bindGen_par ρ _ _ K1 K2 hK _
          | (split
             · first | exact hK w | exact unifyList_par ρ (unify f) ih _ _ K1 K2 hK w
             · first | exact relNone w | exact bindGen_par ρ _ _ K1 K2 hK _)

theorem seq_par (ρ : Sig → Sig → Prop) (g1 g2 : Gen) (h1 : GenPar ρ g1) (h2 : GenPar ρ g2) : GenPar ρ (Gen.seq g1 g2) := by
  intro K1 K2 hK w
  unfold Gen.seq
  rcases relCases (h1 K1 K2 hK w) with ⟨w', e1, e2⟩ | ⟨w', a, b, e1, e2, hab⟩
  · simp only [e1, e2]; exact h2 K1 K2 hK w'
  · simp only [e1, e2]; exact relSome w' hab

theorem matchFact_par (ρ : Sig → Sig → Prop) (hρ : FaultRefl ρ) (f : Nat) (fact : Fact) (args : List Term) :
    GenPar ρ (matchFact f fact args) := by
  intro K1 K2 hK w
  unfold matchFact
  simp only
  split
  · exact unifyList_par ρ (unify f) (unify_par ρ hρ f) _ _ K1 K2 hK _
  · exact relNone _

theorem matchAll_par (ρ : Sig → Sig → Prop) (hρ : FaultRefl ρ) (f : Nat) (args : List Term) :
    ∀ cs, GenPar ρ (matchAll f args cs) := by
  intro cs
  induction cs with
  | nil => intro K1 K2 _ w; simp only [matchAll]; exact relNone w
  | cons c cs ih =>
    intro K1 K2 hK w
    simp only [matchAll]
    rcases relCases (matchFact_par ρ hρ f c args K1 K2 hK w) with ⟨w', e1, e2⟩ | ⟨w', a, b, e1, e2, hab⟩
    · simp only [e1, e2]; exact ih K1 K2 hK w'
    · simp only [e1, e2]; exact relSome w' hab

theorem matchDynamic_par (ρ : Sig → Sig → Prop) (hρ : FaultRefl ρ) (f : Nat) (name : String) (args : List Term) :
    GenPar ρ (matchDynamic f name args) := by
  intro K1 K2 hK w
  unfold matchDynamic
  exact matchAll_par ρ hρ f args _ K1 K2 hK w

theorem retractLoop_par (ρ : Sig → Sig → Prop) (hρ : FaultRefl ρ) (f : Nat) (name : String) (args : List Term) :
    ∀ cs, GenPar ρ (retractLoop f name args cs) := by
  intro cs
  induction cs with
  | nil => intro K1 K2 _ w; simp only [retractLoop]; exact relNone w
  | cons c cs ih =>
    intro K1 K2 hK w
    simp only [retractLoop]
    split
    · have := matchFact_par ρ hρ f c args
        (fun w' => K1 (w'.setFacts name args.length ((w'.facts name args.length).filter (·.id != c.id))))
        (fun w' => K2 (w'.setFacts name args.length ((w'.facts name args.length).filter (·.id != c.id))))
        (fun w' => hK _) w
      rcases relCases this with ⟨w', e1, e2⟩ | ⟨w', a, b, e1, e2, hab⟩
      · simp only [e1, e2]; exact ih K1 K2 hK w'
      · simp only [e1, e2]; exact relSome w' hab
    · exact ih K1 K2 hK w

theorem runPy_par (ρ : Sig → Sig → Prop) (hρ : FaultRefl ρ) (f : Nat) (r : Option Nat) (args : List Term) :
    ∀ rows i, GenPar ρ (runPy f rows r i args) := by
  intro rows
  induction rows with
  | nil =>
    intro i K1 K2 _ w
    simp only [runPy]
    split
    · exact relSome w (hρ.2.1 _)
    · exact relNone w
  | cons row rows ih =>
    intro i K1 K2 hK w
    simp only [runPy]
    split
    · exact relSome w (hρ.2.1 _)
    · rcases relCases (matchFact_par ρ hρ f row args K1 K2 hK w) with ⟨w', e1, e2⟩ | ⟨w', a, b, e1, e2, hab⟩
      · simp only [e1, e2]; exact ih (i+1) K1 K2 hK w'
      · simp only [e1, e2]; exact relSome w' hab


/-- Relations under which a function body can run on both sides: its own signals (`return`,
    `break l`, commit) are related to themselves and to nothing else. -/
structure BodyOK (ρ : Sig → Sig → Prop) : Prop where
  faults : FaultRefl ρ
  ret : ρ .ret .ret
  brk : ∀ l, ρ (.brk l) (.brk l)
  commit : ∀ d, ρ (.commit d) (.commit d)
  brk_iff : ∀ a b, ρ a b → ∀ l, (a = .brk l ↔ b = .brk l)
  commit_iff : ∀ a b, ρ a b → ∀ d, (a = .commit d ↔ b = .commit d)

theorem catchBrk_par {ρ : Sig → Sig → Prop} (hρ : BodyOK ρ) (l : Nat) {r1 r2 : R} (h : RelR ρ r1 r2) :
    RelR ρ (catchBrk l r1) (catchBrk l r2) := by
  rcases relCases h with ⟨w', e1, e2⟩ | ⟨w', a, b, e1, e2, hab⟩
  · subst e1 e2; exact relNone w'
  · subst e1 e2
    by_cases ha : ∃ l', a = .brk l'
    · obtain ⟨l', rfl⟩ := ha
      have hb : b = .brk l' := (hρ.brk_iff _ _ hab l').mp rfl
      subst hb
      simp only [catchBrk_brk]
      split
      · exact relNone w'
      · exact relSome w' hab
    · have hb : ¬ ∃ l', b = .brk l' := by
        rintro ⟨l', rfl⟩
        exact ha ⟨l', (hρ.brk_iff _ _ hab l').mpr rfl⟩
      have e1 : catchBrk l (w', some a) = (w', some a) := by
        cases a <;> first | rfl | exact absurd ⟨_, rfl⟩ ha
      have e2 : catchBrk l (w', some b) = (w', some b) := by
        cases b <;> first | rfl | exact absurd ⟨_, rfl⟩ hb
      rw [e1, e2]; exact relSome w' hab

theorem iteR_par {ρ : Sig → Sig → Prop} (hρ : BodyOK ρ) (d : Nat) {r1 r2 : R} (h : RelR ρ r1 r2)
    {f1 f2 : World → R} (hf : ∀ w, RelR ρ (f1 w) (f2 w)) :
    RelR ρ (iteR d f1 r1) (iteR d f2 r2) := by
  rcases relCases h with ⟨w', e1, e2⟩ | ⟨w', a, b, e1, e2, hab⟩
  · subst e1 e2; simp only [iteR_none]; exact hf w'
  · subst e1 e2
    by_cases ha : ∃ d', a = .commit d'
    · obtain ⟨d', rfl⟩ := ha
      have hb : b = .commit d' := (hρ.commit_iff _ _ hab d').mp rfl
      subst hb
      simp only [iteR_commit]
      split
      · exact relNone w'
      · exact relSome w' hab
    · have hb : ¬ ∃ d', b = .commit d' := by
        rintro ⟨d', rfl⟩
        exact ha ⟨d', (hρ.commit_iff _ _ hab d').mpr rfl⟩
      have e1 : iteR d f1 (w', some a) = (w', some a) := by
        cases a <;> first | rfl | exact absurd ⟨_, rfl⟩ ha
      have e2 : iteR d f2 (w', some b) = (w', some b) := by
        cases b <;> first | rfl | exact absurd ⟨_, rfl⟩ hb
      rw [e1, e2]; exact relSome w' hab

def QPar (ρ : Sig → Sig → Prop) (q : Q) : Prop := ∀ name args, GenPar ρ (q name args)

theorem exec_par (ρ : Sig → Sig → Prop) (hρ : BodyOK ρ) (q : Q) (hq : QPar ρ q) (env : Env) :
    (∀ c, GenPar ρ (exec q env c)) ∧ (∀ cs, GenPar ρ (execList q env cs)) := by
  have key : ∀ c, (GenPar ρ (exec q env c)) := by
    intro c
    induction c using Code.rec (motive_2 := fun cs => GenPar ρ (execList q env cs)) with
    | yieldF => intro K1 K2 hK w; rw [exec_yieldF, exec_yieldF]; exact hK w
    | yieldT => intro K1 K2 hK w; rw [exec_yieldT, exec_yieldT]; exact hK w
    | ret => intro K1 K2 _ w; rw [exec_ret, exec_ret]; exact relSome w hρ.ret
    | brk l => intro K1 K2 _ w; rw [exec_brk, exec_brk]; exact relSome w (hρ.brk l)
    | block l body ih =>
      intro K1 K2 hK w
      rw [exec_block, exec_block]
      exact catchBrk_par hρ l (ih K1 K2 hK w)
    | foreach name args body ih =>
      intro K1 K2 hK w
      rw [exec_foreach, exec_foreach]
      exact hq name _ _ _ (fun w' => ih K1 K2 hK w') w
    | nil => intro K1 K2 _ w; rw [execList_nil, execList_nil]; exact relNone w
    | cons c cs ihc ihcs =>
      intro K1 K2 hK w
      rw [execList_cons, execList_cons]
      exact seq_rel (ihc K1 K2 hK w) (fun w' => ihcs K1 K2 hK w')
  refine ⟨key, ?_⟩
  intro cs
  induction cs with
  | nil => intro K1 K2 _ w; rw [execList_nil, execList_nil]; exact relNone w
  | cons c cs ih =>
    intro K1 K2 hK w
    rw [execList_cons, execList_cons]
    exact seq_rel (key c K1 K2 hK w) (fun w' => ih K1 K2 hK w')

theorem solve_disj_eq (q : Q) (env : Env) (d : Nat) (a b : Body) (k : K) (w : World) (hne : ∀ c t, a ≠ .ite c t) :
    solve q env d (.disj a b) k w = andThenR (fun w' => solve q env d b k w') (solve q env d a k w) := by
  cases a with
  | ite c t => exact absurd rfl (hne c t)
  | tru | fail | cut | cutif _ | call _ _ | conj _ _ | disj _ _ | neg _ => simp only [solve]

theorem solve_par (ρ : Sig → Sig → Prop) (hρ : BodyOK ρ) (q : Q) (hq : QPar ρ q) (env : Env) :
    ∀ (b : Body) (d : Nat), GenPar ρ (solve q env d b)
  | .tru, d => by intro K1 K2 hK w; simp only [solve]; exact hK w
  | .fail, d => by intro K1 K2 _ w; simp only [solve]; exact relNone w
  | .cutif l, d => by intro K1 K2 hK w; simp only [solve]; exact hK w
  | .cut, d => by intro K1 K2 hK w; simp only [solve]; exact then_sig (hK w) hρ.ret
  | .call name args, d => by intro K1 K2 hK w; simp only [solve]; exact hq name _ K1 K2 hK w
  | .conj a b, d => by
    intro K1 K2 hK w
    simp only [solve]
    exact solve_par ρ hρ q hq env a d _ _ (fun w' => solve_par ρ hρ q hq env b d K1 K2 hK w') w
  | .disj (.ite c t) e, d => by
    intro K1 K2 hK w
    simp only [solve]
    exact iteR_par hρ d
      (solve_par ρ hρ q hq env c (d+1) _ _ (fun w' => then_sig (solve_par ρ hρ q hq env t d K1 K2 hK w') (hρ.commit d)) w)
      (fun w' => solve_par ρ hρ q hq env e d K1 K2 hK w')
  | .disj .tru b, d => by
    intro K1 K2 hK w
    rw [solve_disj_eq q env d .tru b K1 w (by intro c t h; cases h), solve_disj_eq q env d .tru b K2 w (by intro c t h; cases h)]
    exact seq_rel (solve_par ρ hρ q hq env .tru d K1 K2 hK w) (fun w' => solve_par ρ hρ q hq env b d K1 K2 hK w')
  | .disj .fail b, d => by
    intro K1 K2 hK w
    rw [solve_disj_eq q env d .fail b K1 w (by intro c t h; cases h), solve_disj_eq q env d .fail b K2 w (by intro c t h; cases h)]
    exact seq_rel (solve_par ρ hρ q hq env .fail d K1 K2 hK w) (fun w' => solve_par ρ hρ q hq env b d K1 K2 hK w')
  | .disj .cut b, d => by
    intro K1 K2 hK w
    rw [solve_disj_eq q env d .cut b K1 w (by intro c t h; cases h), solve_disj_eq q env d .cut b K2 w (by intro c t h; cases h)]
    exact seq_rel (solve_par ρ hρ q hq env .cut d K1 K2 hK w) (fun w' => solve_par ρ hρ q hq env b d K1 K2 hK w')
  | .disj (.cutif l) b, d => by
    intro K1 K2 hK w
    rw [solve_disj_eq q env d (.cutif l) b K1 w (by intro c t h; cases h), solve_disj_eq q env d (.cutif l) b K2 w (by intro c t h; cases h)]
    exact seq_rel (solve_par ρ hρ q hq env (.cutif l) d K1 K2 hK w) (fun w' => solve_par ρ hρ q hq env b d K1 K2 hK w')
  | .disj (.call nm ar) b, d => by
    intro K1 K2 hK w
    rw [solve_disj_eq q env d (.call nm ar) b K1 w (by intro c t h; cases h), solve_disj_eq q env d (.call nm ar) b K2 w (by intro c t h; cases h)]
    exact seq_rel (solve_par ρ hρ q hq env (.call nm ar) d K1 K2 hK w) (fun w' => solve_par ρ hρ q hq env b d K1 K2 hK w')
  | .disj (.conj a1 a2) b, d => by
    intro K1 K2 hK w
    rw [solve_disj_eq q env d (.conj a1 a2) b K1 w (by intro c t h; cases h), solve_disj_eq q env d (.conj a1 a2) b K2 w (by intro c t h; cases h)]
    exact seq_rel (solve_par ρ hρ q hq env (.conj a1 a2) d K1 K2 hK w) (fun w' => solve_par ρ hρ q hq env b d K1 K2 hK w')
  | .disj (.disj a1 a2) b, d => by
    intro K1 K2 hK w
    rw [solve_disj_eq q env d (.disj a1 a2) b K1 w (by intro c t h; cases h), solve_disj_eq q env d (.disj a1 a2) b K2 w (by intro c t h; cases h)]
    exact seq_rel (solve_par ρ hρ q hq env (.disj a1 a2) d K1 K2 hK w) (fun w' => solve_par ρ hρ q hq env b d K1 K2 hK w')
  | .disj (.neg a1) b, d => by
    intro K1 K2 hK w
    rw [solve_disj_eq q env d (.neg a1) b K1 w (by intro c t h; cases h), solve_disj_eq q env d (.neg a1) b K2 w (by intro c t h; cases h)]
    exact seq_rel (solve_par ρ hρ q hq env (.neg a1) d K1 K2 hK w) (fun w' => solve_par ρ hρ q hq env b d K1 K2 hK w')
  | .ite c t, d => by
    intro K1 K2 hK w
    simp only [solve]
    exact iteR_par hρ d
      (solve_par ρ hρ q hq env c (d+1) _ _ (fun w' => then_sig (solve_par ρ hρ q hq env t d K1 K2 hK w') (hρ.commit d)) w)
      (fun w' => relNone w')
  | .neg a, d => by
    intro K1 K2 hK w
    simp only [solve]
    exact iteR_par hρ d (solve_par ρ hρ q hq env a (d+1) _ _ (fun w' => relSome w' (hρ.commit d)) w) hK


/-- The relation inside a callee's frame: the caller's reasons travel as `up _`; the frame's own
    signals are related to themselves. -/
inductive UpB (ρ : Sig → Sig → Prop) : Sig → Sig → Prop
  | up {a b : Sig} : ρ a b → UpB ρ (.up a) (.up b)
  | ret : UpB ρ .ret .ret
  | brk (l : Nat) : UpB ρ (.brk l) (.brk l)
  | commit (d : Nat) : UpB ρ (.commit d) (.commit d)
  | stop : UpB ρ .stop .stop
  | oof : UpB ρ .oof .oof
  | exn (e : String) : UpB ρ (.exn e) (.exn e)

/-- The relation inside once/1: the caller's reasons as `up _`, plus the private `stop`. -/
inductive UpF (ρ : Sig → Sig → Prop) : Sig → Sig → Prop
  | up {a b : Sig} : ρ a b → UpF ρ (.up a) (.up b)
  | stop : UpF ρ .stop .stop
  | oof : UpF ρ .oof .oof
  | exn (e : String) : UpF ρ (.exn e) (.exn e)

theorem UpB_ok (ρ : Sig → Sig → Prop) : BodyOK (UpB ρ) where
  faults := ⟨.oof, .exn, .stop⟩
  ret := .ret
  brk := .brk
  commit := .commit
  brk_iff := by intro a b h l; cases h <;> simp
  commit_iff := by intro a b h d; cases h <;> simp

theorem UpF_faults (ρ : Sig → Sig → Prop) : FaultRefl (UpF ρ) := ⟨.oof, .exn, .stop⟩

theorem wrapK_par {ρ : Sig → Sig → Prop} {K1 K2 : K} (hK : KRel ρ K1 K2) : KRel (UpB ρ) (wrapK K1) (wrapK K2) := by
  intro w
  unfold wrapK
  rcases relCases (hK w) with ⟨w', e1, e2⟩ | ⟨w', a, b, e1, e2, hab⟩
  · simp only [e1, e2]; exact relNone w'
  · simp only [e1, e2]; exact relSome w' (.up hab)

theorem leaveFrame_par {ρ : Sig → Sig → Prop} (hρ : FaultRefl ρ) {r1 r2 : R} (h : RelR (UpB ρ) r1 r2) :
    RelR ρ (leaveFrame r1) (leaveFrame r2) := by
  rcases relCases h with ⟨w', e1, e2⟩ | ⟨w', a, b, e1, e2, hab⟩
  · subst e1 e2; exact relNone w'
  · subst e1 e2
    cases hab with
    | up h' => exact relSome w' h'
    | ret => exact relNone w'
    | brk l => exact relNone w'
    | commit d => exact relNone w'
    | stop => exact relSome w' hρ.2.2
    | oof => exact relSome w' hρ.1
    | exn e => exact relSome w' (hρ.2.1 e)

theorem runClauses_par {α : Type} (ρ : Sig → Sig → Prop) (run : α → Gen) (hrun : ∀ c, GenPar ρ (run c)) :
    ∀ cs, GenPar ρ (runClauses run cs) := by
  intro cs
  induction cs with
  | nil => intro K1 K2 _ w; simp only [runClauses]; exact relNone w
  | cons c cs ih =>
    intro K1 K2 hK w
    simp only [runClauses]
    rcases relCases (hrun c K1 K2 hK w) with ⟨w', e1, e2⟩ | ⟨w', a, b, e1, e2, hab⟩
    · simp only [e1, e2]; exact ih K1 K2 hK w'
    · simp only [e1, e2]; exact relSome w' hab

theorem unifyHead_par (ρ : Sig → Sig → Prop) (hρ : FaultRefl ρ) (fuel : Nat) (env : Env) (args : List Term) (g : Gen) (hg : GenPar ρ g) :
    ∀ us, GenPar ρ (unifyHead fuel env args us g) := by
  intro us
  induction us with
  | nil => simpa [unifyHead] using hg
  | cons u us ih =>
    obtain ⟨i, t⟩ := u
    intro K1 K2 hK w
    simp only [unifyHead]
    exact unify_par ρ hρ fuel _ _ _ _ (fun w' => ih K1 K2 hK w') w

theorem runClauseCompiled_par (ρ : Sig → Sig → Prop) (hρ : BodyOK ρ) (fuel : Nat) (q : Q) (hq : QPar ρ q)
    (cc : ClauseCode) (args : List Term) : GenPar ρ (runClauseCompiled fuel q cc args) := by
  intro K1 K2 hK w
  unfold runClauseCompiled
  simp only
  exact unifyHead_par ρ hρ.faults fuel _ args _ ((exec_par ρ hρ q hq _).2 _) _ K1 K2 hK _

theorem runClauseRef_par (ρ : Sig → Sig → Prop) (hρ : BodyOK ρ) (fuel : Nat) (q : Q) (hq : QPar ρ q)
    (c : Clause) (args : List Term) : GenPar ρ (runClauseRef fuel q c args) := by
  intro K1 K2 hK w
  unfold runClauseRef
  simp only
  exact unifyHead_par ρ hρ.faults fuel _ args _ (solve_par ρ hρ q hq _ _ 0) _ K1 K2 hK _

theorem runClauseRefBody_par (ρ : Sig → Sig → Prop) (hρ : BodyOK ρ) (fuel : Nat) (q : Q) (hq : QPar ρ q)
    (cc : ClauseCode) (body : Body) (args : List Term) : GenPar ρ (runClauseRefBody fuel q cc body args) := by
  intro K1 K2 hK w
  unfold runClauseRefBody
  simp only
  exact unifyHead_par ρ hρ.faults fuel _ args _ (solve_par ρ hρ q hq _ _ 0) _ K1 K2 hK _

theorem onceGen_par (ρ : Sig → Sig → Prop) (hρ : FaultRefl ρ) (g : Gen) (hg : GenPar (UpF ρ) g) : GenPar ρ (onceGen g) := by
  intro K1 K2 hK w
  unfold onceGen
  have hin : KRel (UpF ρ) (fun w' => thenSig .stop (wrapK K1 w')) (fun w' => thenSig .stop (wrapK K2 w')) := by
    intro w'
    unfold wrapK
    rcases relCases (hK w') with ⟨w'', e1, e2⟩ | ⟨w'', a, b, e1, e2, hab⟩
    · simp only [e1, e2, thenSig_none]; exact relSome w'' .stop
    · simp only [e1, e2, thenSig_some]; exact relSome w'' (.up hab)
  rcases relCases (hg _ _ hin w) with ⟨w', e1, e2⟩ | ⟨w', a, b, e1, e2, hab⟩
  · rw [e1, e2]; exact relNone w'
  · rw [e1, e2]
    cases hab with
    | up h' => exact relSome w' h'
    | stop => exact relNone w'
    | oof => exact relSome w' hρ.1
    | exn e => exact relSome w' (hρ.2.1 e)


/-- faults and the private probe signal only -/
inductive FOnly : Sig → Sig → Prop
  | stop : FOnly .stop .stop
  | oof : FOnly .oof .oof
  | exn (e : String) : FOnly (.exn e) (.exn e)

theorem FOnly_faults : FaultRefl FOnly := ⟨.oof, .exn, .stop⟩

def IsFault (s : Sig) : Prop := s = .oof ∨ ∃ e, s = .exn e

/-- A generator run with a consumer that only ever answers `stop` ends normally, with that `stop`,
    or with a fault of its own. -/
theorem probe_outcome (g : Gen) (hg : GenPar FOnly g) (w : World) :
    (g (fun w' => (w', some .stop)) w).2 = none ∨ (g (fun w' => (w', some .stop)) w).2 = some .stop
      ∨ ∃ s, (g (fun w' => (w', some .stop)) w).2 = some s ∧ IsFault s := by
  have h := hg (fun w' => (w', some .stop)) (fun w' => (w', some .stop)) (fun w' => relSome w' .stop) w
  rcases relCases h with ⟨w', e1, _⟩ | ⟨w', a, b, e1, e2, hab⟩
  · left; rw [e1]
  · rw [e1]
    cases hab with
    | stop => right; left; rfl
    | oof => right; right; exact ⟨_, rfl, Or.inl rfl⟩
    | exn e => right; right; exact ⟨_, rfl, Or.inr ⟨e, rfl⟩⟩

theorem self_outcome (g : Gen) (hg : GenPar FOnly g) (c : K) (hc : KRel FOnly c c) (w : World) :
    (g c w).2 = none ∨ ∃ s, (g c w).2 = some s ∧ FOnly s s := by
  rcases relCases (hg c c hc w) with ⟨w', e1, _⟩ | ⟨w', a, b, e1, e2, hab⟩
  · left; rw [e1]
  · right
    rw [e1] at e2
    have : a = b := by simpa using e2
    subst this
    exact ⟨a, by rw [e1], hab⟩

theorem rel_fonly {ρ : Sig → Sig → Prop} (hρ : FaultRefl ρ) {s : Sig} (h : FOnly s s) : ρ s s := by
  cases h with
  | stop => exact hρ.2.2
  | oof => exact hρ.1
  | exn e => exact hρ.2.1 e

theorem rel_fault {ρ : Sig → Sig → Prop} (hρ : FaultRefl ρ) {s : Sig} (h : IsFault s) : ρ s s := by
  rcases h with rfl | ⟨e, rfl⟩
  · exact hρ.1
  · exact hρ.2.1 e

theorem factNameArgs_err (f : Nat) (w : World) (t : Term) (s : Sig) (h : factNameArgs f w t = .error s) : IsFault s := by
  unfold factNameArgs at h
  split at h <;> first | (cases h; first | exact Or.inl rfl | exact Or.inr ⟨_, rfl⟩) | cases h

theorem assertFact_outcome (f : Nat) (name : String) (vs : List Term) (app : Bool) (w : World) :
    (assertFact f name vs app w).2 = none ∨ (assertFact f name vs app w) = (w, some .oof) := by
  unfold assertFact
  split
  · right; rfl
  · left; rfl


theorem factMatches_err (f : Nat) (c : Fact) (args : List Term) (w w' : World) (s : Sig)
    (h : factMatches f c args w = (w', .error s)) : IsFault s := by
  unfold factMatches at h
  have hp := probe_outcome (matchFact f c args) (matchFact_par FOnly FOnly_faults f c args) w
  generalize matchFact f c args (fun w' => (w', some Sig.stop)) w = r at h hp
  obtain ⟨w1, o⟩ := r
  rcases hp with h0 | h0 | ⟨s', h0, hf⟩
  · simp only at h0; subst h0; simp at h
  · simp only at h0; subst h0; simp at h
  · simp only at h0; subst h0
    rcases hf with rfl | ⟨e, rfl⟩
    · simp at h; rw [← h.2]; exact Or.inl rfl
    · simp at h; rw [← h.2]; exact Or.inr ⟨e, rfl⟩

theorem retractAllLoop_err (f : Nat) (args : List Term) : ∀ (cs keep : List Fact) (w w' : World) (s : Sig),
    retractAllLoop f args cs keep w = (w', .error s) → IsFault s := by
  intro cs
  induction cs with
  | nil => intro keep w w' s h; simp [retractAllLoop] at h
  | cons c cs ih =>
    intro keep w w' s h
    simp only [retractAllLoop] at h
    split at h
    · exact ih _ _ _ _ h
    · exact ih _ _ _ _ h
    · rename_i w1 s1 heq
      simp only [Prod.mk.injEq, Except.error.injEq] at h
      rw [← h.2]
      exact factMatches_err f c args w w1 s1 heq


def AllPar (cfg : Cfg) (f : Nat) : Prop :=
  (∀ ρ, FaultRefl ρ → ∀ name args, GenPar ρ (query cfg f name args)) ∧
  (∀ ρ, FaultRefl ρ → ∀ ds args, GenPar ρ (runChain cfg f ds args)) ∧
  (∀ ρ, FaultRefl ρ → ∀ d args, GenPar ρ (runDef cfg f d args)) ∧
  (∀ ρ, FaultRefl ρ → ∀ b args, GenPar ρ (runBuiltin cfg f b args)) ∧
  (∀ ρ, FaultRefl ρ → ∀ g extra, GenPar ρ (callGoal cfg f g extra))

theorem allPar (cfg : Cfg) : ∀ f, AllPar cfg f := by
  intro f
  induction f with
  | zero =>
    refine ⟨?_, ?_, ?_, ?_, ?_⟩ <;> intro ρ hρ <;> intros <;> intro K1 K2 _ w
    · simp only [query]; exact relSome w hρ.1
    · simp only [runChain]; exact relSome w hρ.1
    · simp only [runDef]; exact relSome w hρ.1
    · simp only [runBuiltin]; exact relSome w hρ.1
    · simp only [callGoal]; exact relSome w hρ.1
  | succ f ih =>
    obtain ⟨ihQ, ihC, ihD, ihB, ihG⟩ := ih
    refine ⟨?_, ?_, ?_, ?_, ?_⟩
    · -- query
      intro ρ hρ name args K1 K2 hK w
      simp only [query]
      rcases relCases (matchDynamic_par ρ hρ f name args K1 K2 hK w) with ⟨w', e1, e2⟩ | ⟨w', a, b, e1, e2, hab⟩
      · simp only [e1, e2]
        split
        · exact relNone w'
        · split
          · exact relNone w'
          · exact ihC ρ hρ _ args K1 K2 hK w'
      · simp only [e1, e2]; exact relSome w' hab
    · -- runChain
      intro ρ hρ ds args K1 K2 hK w
      cases ds with
      | nil => simp only [runChain]; exact relNone w
      | cons d ds =>
        simp only [runChain]
        rcases relCases (ihD ρ hρ d args K1 K2 hK w) with ⟨w', e1, e2⟩ | ⟨w', a, b, e1, e2, hab⟩
        · simp only [e1, e2]; exact ihC ρ hρ ds args K1 K2 hK w'
        · simp only [e1, e2]; exact relSome w' hab
    · -- runDef
      intro ρ hρ d args K1 K2 hK w
      cases d with
      | prolog p mode =>
        simp only [runDef]
        have hq : QPar (UpB ρ) (query cfg f) := fun name args => ihQ (UpB ρ) (UpB_ok ρ).faults name args
        cases mode with
        | compiled =>
          simp only
          apply leaveFrame_par hρ
          exact runClauses_par (UpB ρ) _ (fun cc => runClauseCompiled_par (UpB ρ) (UpB_ok ρ) f _ hq cc args) _ _ _ (wrapK_par hK) w
        | reference =>
          simp only
          apply leaveFrame_par hρ
          exact runClauses_par (UpB ρ) _ (fun c => runClauseRef_par (UpB ρ) (UpB_ok ρ) f _ hq c args) _ _ _ (wrapK_par hK) w
        | refbody =>
          simp only
          apply leaveFrame_par hρ
          exact runClauses_par (UpB ρ) _ (fun (x : ClauseCode × Clause) => runClauseRefBody_par (UpB ρ) (UpB_ok ρ) f _ hq x.1 x.2.body args) _ _ _ (wrapK_par hK) w
      | py p => simp only [runDef]; exact runPy_par ρ hρ f _ args _ _ K1 K2 hK w
      | builtin b => simp only [runDef]; exact ihB ρ hρ b args K1 K2 hK w
    · -- runBuiltin
      intro ρ hρ b args K1 K2 hK w
      simp only [runBuiltin]
      split
      · -- "="
        exact unify_par ρ hρ f _ _ K1 K2 hK w
      · -- "\\="
        rename_i a b
        have hp := probe_outcome (query cfg f "=" [a, b]) (ihQ FOnly FOnly_faults "=" [a, b]) w
        generalize query cfg f "=" [a, b] (fun w' => (w', some Sig.stop)) w = r at hp
        obtain ⟨w1, o⟩ := r
        rcases hp with h0 | h0 | ⟨s', h0, hf⟩
        · simp only at h0; subst h0; exact hK w1
        · simp only at h0; subst h0; exact relNone w1
        · simp only at h0; subst h0
          rcases hf with rfl | ⟨e, rfl⟩
          · exact relSome w1 hρ.1
          · exact relSome w1 (hρ.2.1 e)
      · -- call
        exact ihG ρ hρ _ _ K1 K2 hK w
      · -- once
        exact onceGen_par ρ hρ _ (ihG (UpF ρ) (UpF_faults ρ) _ _) K1 K2 hK w
      · -- findall
        rename_i tmpl g bag
        have hc : KRel FOnly (findallCollect f tmpl) (findallCollect f tmpl) := by
          intro w'
          unfold findallCollect
          split
          · exact relNone _
          · exact relSome w' FOnly.oof
        have hp := self_outcome (callGoal cfg f g []) (ihG FOnly FOnly_faults g []) _ hc
          { w with acc := [] :: w.acc }
        revert hp
        generalize callGoal cfg f g [] (findallCollect f tmpl) { w with acc := [] :: w.acc } = r
        intro hp
        obtain ⟨w1, o⟩ := r
        rcases hp with h0 | ⟨s', h0, hf⟩
        · simp only at h0; subst h0
          exact unify_par ρ hρ f _ _ K1 K2 hK _
        · simp only at h0; subst h0
          exact relSome _ (rel_fonly hρ hf)
      · -- assertz
        rename_i t
        cases hfn : factNameArgs f w t with
        | error s => simp only; exact relSome w (rel_fault hρ (factNameArgs_err f w t s hfn))
        | ok na =>
          obtain ⟨name, as⟩ := na
          simp only
          rcases assertFact_outcome f name as true w with h0 | h0
          · cases hr : assertFact f name as true w with
            | mk w1 o => rw [hr] at h0; simp only at h0; subst h0; exact hK w1
          · rw [h0]; exact relSome w hρ.1
      · -- asserta
        rename_i t
        cases hfn : factNameArgs f w t with
        | error s => simp only; exact relSome w (rel_fault hρ (factNameArgs_err f w t s hfn))
        | ok na =>
          obtain ⟨name, as⟩ := na
          simp only
          rcases assertFact_outcome f name as false w with h0 | h0
          · cases hr : assertFact f name as false w with
            | mk w1 o => rw [hr] at h0; simp only at h0; subst h0; exact hK w1
          · rw [h0]; exact relSome w hρ.1
      · -- retract
        rename_i t
        cases hfn : factNameArgs f w t with
        | error s => simp only; exact relSome w (rel_fault hρ (factNameArgs_err f w t s hfn))
        | ok na =>
          obtain ⟨name, as⟩ := na
          simp only
          exact retractLoop_par ρ hρ f name as _ K1 K2 hK w
      · -- retractall
        rename_i t
        cases hfn : factNameArgs f w t with
        | error s => simp only; exact relSome w (rel_fault hρ (factNameArgs_err f w t s hfn))
        | ok na =>
          obtain ⟨name, as⟩ := na
          simp only
          cases hr : retractAllLoop f as (w.facts name as.length) [] w with
          | mk w1 res =>
            cases res with
            | ok keep => simp only; exact hK _
            | error s => simp only; exact relSome w1 (rel_fault hρ (retractAllLoop_err f as _ _ w w1 s hr))
      · -- wrong number of arguments
        exact relSome w (hρ.2.1 _)
    · -- callGoal
      intro ρ hρ g extra K1 K2 hK w
      simp only [callGoal]
      split
      · exact relSome w hρ.1
      · exact ihQ ρ hρ _ _ K1 K2 hK w
      · exact ihQ ρ hρ _ _ K1 K2 hK w
      · exact relSome w (hρ.2.1 _)


/-- The engine's `query` treats its consumer's reasons as opaque tokens: the hypothesis of
    Theorem A holds for the real thing, at every fuel and for every definition table. -/
theorem query_parametric (cfg : Cfg) (f : Nat) : Parametric (query cfg f) :=
  fun ρ hρ name args K1 K2 hK w => (allPar cfg f).1 ρ hρ name args K1 K2 hK w

end Yld
