/-
  Interleaving, stage 0: the relation "the same run up to an injective renaming of cells, in a world
  that has additional foreign cells", and how terms behave under it (`walk`, `resolve`, `canonVars`).

  Side 1 is the run alone; side 2 is the interleaved run.  `ρ` maps the cells of side 1 (all of them:
  every cell below `w1.next` is a cell of the query or of the engine state it started from) to the
  cells that play their part on side 2.  Side 2 has more cells: those not in the image of `ρ` are
  foreign.  `F` is a fixed set of foreign cells that `ρ` must avoid for ever (the block the other
  generators owned at the start); other foreign cells (allocated by the others later) are simply
  never in the image of `ρ` because side 2 only ever extends `ρ` with cells it allocates itself.
-/
import Yld.Proofs.Activation
set_option linter.unusedSimpArgs false
set_option linter.unusedVariables false
namespace Yld

/-- all variables of the term are cells below `n` -/
def Own (n : Nat) (t : Term) : Prop := ∀ x ∈ t.vars, x < n
def OwnL (n : Nat) (ts : List Term) : Prop := ∀ t ∈ ts, Own n t
/-- `ρ'` is `ρ` on the cells below `n` -/
def Agree (n : Nat) (ρ ρ' : Nat → Nat) : Prop := ∀ x, x < n → ρ' x = ρ x

theorem Agree.refl (n : Nat) (ρ : Nat → Nat) : Agree n ρ ρ := fun _ _ => rfl
theorem Agree.trans {n n' : Nat} {ρ ρ' ρ'' : Nat → Nat} (h1 : Agree n ρ ρ') (h2 : Agree n' ρ' ρ'') (hn : n ≤ n') :
    Agree n ρ ρ'' := fun x hx => by rw [h2 x (Nat.lt_of_lt_of_le hx hn), h1 x hx]
theorem Agree.mono {n n' : Nat} {ρ ρ' : Nat → Nat} (h : Agree n' ρ ρ') (hn : n ≤ n') : Agree n ρ ρ' :=
  fun x hx => h x (Nat.lt_of_lt_of_le hx hn)

theorem Own.mono {n n' : Nat} {t : Term} (h : Own n t) (hn : n ≤ n') : Own n' t :=
  fun x hx => Nat.lt_of_lt_of_le (h x hx) hn
theorem OwnL.mono {n n' : Nat} {ts : List Term} (h : OwnL n ts) (hn : n ≤ n') : OwnL n' ts :=
  fun t ht => (h t ht).mono hn

theorem own_var {n x : Nat} : Own n (.var x) ↔ x < n := by
  simp [Own, Term.vars]
theorem own_atom (n : Nat) (s : String) : Own n (.atom s) := by
  intro x hx; simp [Term.vars] at hx
theorem own_int (n : Nat) (i : Int) : Own n (.int i) := by
  intro x hx; simp [Term.vars] at hx
theorem own_fn {n : Nat} {g : String} {args : List Term} : Own n (.fn g args) ↔ OwnL n args := by
  constructor
  · intro h t ht x hx; exact h x (mem_vars_fn.mpr ⟨t, ht, hx⟩)
  · intro h x hx
    obtain ⟨t, ht, hxt⟩ := mem_vars_fn.mp hx
    exact h t ht x hxt

theorem ownL_nil (n : Nat) : OwnL n [] := fun _ h => by cases h
theorem ownL_cons {n : Nat} {t : Term} {ts : List Term} : OwnL n (t :: ts) ↔ Own n t ∧ OwnL n ts := by
  constructor
  · intro h; exact ⟨h t (by simp), fun t' ht' => h t' (by simp [ht'])⟩
  · rintro ⟨h1, h2⟩ t' ht'
    rcases List.mem_cons.mp ht' with rfl | h
    · exact h1
    · exact h2 t' h
theorem ownL_append {n : Nat} {as bs : List Term} (ha : OwnL n as) (hb : OwnL n bs) : OwnL n (as ++ bs) := by
  intro t ht
  rcases List.mem_append.mp ht with h | h
  · exact ha t h
  · exact hb t h

theorem rename_agree {n : Nat} {ρ ρ' : Nat → Nat} (h : Agree n ρ ρ') {t : Term} (ht : Own n t) :
    t.rename ρ' = t.rename ρ := rename_congr t (fun x hx => h x (ht x hx))
theorem map_rename_agree {n : Nat} {ρ ρ' : Nat → Nat} (h : Agree n ρ ρ') {ts : List Term} (ht : OwnL n ts) :
    ts.map (Term.rename ρ') = ts.map (Term.rename ρ) :=
  List.map_congr_left (fun t htm => rename_agree h (ht t htm))

theorem rename_self {r : Nat → Nat} (t : Term) (h : ∀ x ∈ t.vars, r x = x) : t.rename r = t := by
  have : t.rename r = t.rename (fun x => x) := rename_congr t h
  rw [this, rename_eq_subst]
  exact subst_var t

theorem own_rename {n n' : Nat} {r : Nat → Nat} {t : Term} (h : Own n t) (hr : ∀ x, x < n → r x < n') :
    Own n' (t.rename r) := by
  intro y hy
  rw [vars_rename] at hy
  obtain ⟨x, hx, rfl⟩ := List.mem_map.mp hy
  exact hr x (h x hx)

theorem mkList_rename (r : Nat → Nat) (ts : List Term) : (mkList ts).rename r = mkList (ts.map (Term.rename r)) := by
  induction ts with
  | nil => simp [mkList, Term.rename]
  | cons t ts ih => simp only [mkList, rename_fn, List.map_cons, List.map_nil, ih]

theorem own_mkList {n : Nat} {ts : List Term} (h : OwnL n ts) : Own n (mkList ts) := by
  induction ts with
  | nil => exact own_atom n _
  | cons t ts ih =>
    simp only [mkList]
    rw [own_fn]
    have := ownL_cons.mp h
    exact ownL_cons.mpr ⟨this.1, ownL_cons.mpr ⟨ih this.2, ownL_nil n⟩⟩

/-! ### the relation between the two worlds -/

/-- a result list of a `findall` in progress: the copies on side 2 are the renamed copies of side 1 -/
def IlFrame (ρ : Nat → Nat) (n : Nat) (l1 l2 : List Term) : Prop := l2 = l1.map (Term.rename ρ) ∧ OwnL n l1

/-- the stacks of result lists: the `d` innermost frames belong to `findall`s of the query and are
    related through `ρ`; the rest (the top-level consumer's list and whatever is below it) is equal. -/
def IlAcc (ρ : Nat → Nat) (n : Nat) : Nat → List (List Term) → List (List Term) → Prop
  | 0, a1, a2 => a1 = a2
  | d+1, l1 :: a1, l2 :: a2 => IlFrame ρ n l1 l2 ∧ IlAcc ρ n d a1 a2
  | _+1, _, _ => False

theorem IlFrame.mono {ρ ρ' : Nat → Nat} {n n' : Nat} {l1 l2 : List Term} (h : IlFrame ρ n l1 l2) (ha : Agree n ρ ρ')
    (hn : n ≤ n') : IlFrame ρ' n' l1 l2 :=
  ⟨by rw [h.1]; exact (map_rename_agree ha h.2).symm, h.2.mono hn⟩

theorem IlAcc.mono {ρ ρ' : Nat → Nat} {n n' : Nat} (ha : Agree n ρ ρ') (hn : n ≤ n') :
    ∀ {d : Nat} {a1 a2 : List (List Term)}, IlAcc ρ n d a1 a2 → IlAcc ρ' n' d a1 a2
  | 0, _, _, h => h
  | d+1, l1 :: a1, l2 :: a2, h => ⟨h.1.mono ha hn, IlAcc.mono ha hn h.2⟩
  | _+1, [], _, h => h.elim
  | _+1, _ :: _, [], h => h.elim

/-- Side 2 is side 1 seen through `ρ`, plus foreign cells. -/
structure IlEnv (F : Nat → Prop) (ρ : Nat → Nat) (d : Nat) (w1 w2 : World) : Prop where
  inj : ∀ x y, x < w1.next → y < w1.next → ρ x = ρ y → x = y
  below : ∀ x, x < w1.next → ρ x < w2.next
  avoid : ∀ x, x < w1.next → ¬ F (ρ x)
  fbelow : ∀ y, F y → y < w2.next
  inScope : ∀ x u, w1.b x = some u → x < w1.next ∧ Own w1.next u
  fresh2 : ∀ y, w2.next ≤ y → w2.b y = none
  binds : ∀ x, x < w1.next → w2.b (ρ x) = (w1.b x).map (Term.rename ρ)
  db : w2.db = w1.db
  stamp : w2.stamp = w1.stamp
  cyc : w2.cyc = w1.cyc
  closed : DbClosed w1.db
  acc : IlAcc ρ w1.next d w1.acc w2.acc

theorem IlEnv.fresh1 {F : Nat → Prop} {ρ : Nat → Nat} {d : Nat} {w1 w2 : World} (h : IlEnv F ρ d w1 w2) {x : Nat}
    (hx : w1.next ≤ x) : w1.b x = none := by
  cases hb : w1.b x with
  | none => rfl
  | some u => exact absurd (h.inScope x u hb).1 (Nat.not_lt.mpr hx)

theorem opt_map_rename_agree {n : Nat} {ρ ρ' : Nat → Nat} (h : Agree n ρ ρ') {o : Option Term}
    (ho : ∀ u, o = some u → Own n u) : o.map (Term.rename ρ') = o.map (Term.rename ρ) := by
  cases o with
  | none => rfl
  | some u => simp only [Option.map]; rw [rename_agree h (ho u rfl)]

/-- only the values of `ρ` below the counter matter -/
theorem IlEnv.congr {F : Nat → Prop} {ρ ρ' : Nat → Nat} {d : Nat} {w1 w2 : World} (h : IlEnv F ρ d w1 w2)
    (ha : Agree w1.next ρ ρ') : IlEnv F ρ' d w1 w2 where
  inj x y hx hy e := h.inj x y hx hy (by rw [← ha x hx, ← ha y hy]; exact e)
  below x hx := by rw [ha x hx]; exact h.below x hx
  avoid x hx := by rw [ha x hx]; exact h.avoid x hx
  fbelow := h.fbelow
  inScope := h.inScope
  fresh2 := h.fresh2
  binds x hx := by
    rw [ha x hx, h.binds x hx]
    exact (opt_map_rename_agree ha (fun u hu => (h.inScope x u hu).2)).symm
  db := h.db
  stamp := h.stamp
  cyc := h.cyc
  closed := h.closed
  acc := IlAcc.mono ha (Nat.le_refl _) h.acc

/-! ### updates of the two worlds -/

section
variable {F : Nat → Prop} {ρ : Nat → Nat} {d : Nat} {w1 w2 : World}

theorem IlEnv.bind (h : IlEnv F ρ d w1 w2) {x : Nat} {t : Term} (hx : x < w1.next) (ht : Own w1.next t) :
    IlEnv F ρ d { w1 with b := bind w1.b x t } { w2 with b := bind w2.b (ρ x) (t.rename ρ) } where
  inj := h.inj
  below := h.below
  avoid := h.avoid
  fbelow := h.fbelow
  inScope y u hy := by
    simp only [Yld.bind] at hy
    split at hy
    · rename_i e; subst e; cases hy; exact ⟨hx, ht⟩
    · exact h.inScope y u hy
  fresh2 y hy := by
    simp only [Yld.bind]
    have : y ≠ ρ x := fun e => by
      have := h.below x hx
      rw [← e] at this
      exact absurd this (Nat.not_lt.mpr hy)
    rw [if_neg this]; exact h.fresh2 y hy
  binds y hy := by
    simp only [Yld.bind]
    by_cases e : y = x
    · subst e; simp
    · have : ρ y ≠ ρ x := fun e' => e (h.inj y x hy hx e')
      rw [if_neg this, if_neg e]; exact h.binds y hy
  db := h.db
  stamp := h.stamp
  cyc := h.cyc
  closed := h.closed
  acc := h.acc

theorem IlEnv.unbind (h : IlEnv F ρ d w1 w2) {x : Nat} (hx : x < w1.next) :
    IlEnv F ρ d { w1 with b := unbind w1.b x } { w2 with b := unbind w2.b (ρ x) } where
  inj := h.inj
  below := h.below
  avoid := h.avoid
  fbelow := h.fbelow
  inScope y u hy := by
    simp only [Yld.unbind] at hy
    split at hy
    · cases hy
    · exact h.inScope y u hy
  fresh2 y hy := by
    simp only [Yld.unbind]
    split
    · rfl
    · exact h.fresh2 y hy
  binds y hy := by
    simp only [Yld.unbind]
    by_cases e : y = x
    · subst e; simp
    · have : ρ y ≠ ρ x := fun e' => e (h.inj y x hy hx e')
      rw [if_neg this, if_neg e]; exact h.binds y hy
  db := h.db
  stamp := h.stamp
  cyc := h.cyc
  closed := h.closed
  acc := h.acc

theorem IlEnv.setCyc (h : IlEnv F ρ d w1 w2) (c : Bool) :
    IlEnv F ρ d { w1 with cyc := c } { w2 with cyc := c } :=
  ⟨h.inj, h.below, h.avoid, h.fbelow, h.inScope, h.fresh2, h.binds, h.db, h.stamp, rfl, h.closed, h.acc⟩

/-- extend `ρ` by a block of new cells on each side -/
def extρ (ρ : Nat → Nat) (n1 n2 : Nat) : Nat → Nat := fun y => if y < n1 then ρ y else y - n1 + n2

theorem extρ_agree (ρ : Nat → Nat) (n1 n2 : Nat) : Agree n1 ρ (extρ ρ n1 n2) := by
  intro x hx; simp only [extρ, if_pos hx]

theorem extρ_new (ρ : Nat → Nat) (n1 n2 i : Nat) : extρ ρ n1 n2 (i + n1) = i + n2 := by
  simp only [extρ]
  rw [if_neg (by omega)]
  omega

theorem IlEnv.alloc (h : IlEnv F ρ d w1 w2) (n : Nat) :
    IlEnv F (extρ ρ w1.next w2.next) d { w1 with next := w1.next + n } { w2 with next := w2.next + n } where
  inj x y hx hy e := by
    simp only [extρ] at e
    by_cases h1 : x < w1.next <;> by_cases h2 : y < w1.next
    · rw [if_pos h1, if_pos h2] at e; exact h.inj x y h1 h2 e
    · rw [if_pos h1, if_neg h2] at e
      have := h.below x h1
      omega
    · rw [if_neg h1, if_pos h2] at e
      have := h.below y h2
      omega
    · rw [if_neg h1, if_neg h2] at e
      omega
  below x hx := by
    simp only [extρ]
    simp only at hx
    split
    · rename_i h1; have := h.below x h1; show ρ x < w2.next + n; omega
    · show x - w1.next + w2.next < w2.next + n; omega
  avoid x hx := by
    simp only [extρ]
    split
    · rename_i h1; exact h.avoid x h1
    · intro hf; have := h.fbelow _ hf; omega
  fbelow y hy := by have := h.fbelow y hy; show y < w2.next + n; omega
  inScope x u hx := by
    obtain ⟨h1, h2⟩ := h.inScope x u hx
    exact ⟨by show x < w1.next + n; omega, h2.mono (Nat.le_add_right _ _)⟩
  fresh2 y hy := h.fresh2 y (by simp only at hy; omega)
  binds x hx := by
    simp only [extρ]
    split
    · rename_i h1
      rw [h.binds x h1]
      exact (opt_map_rename_agree (extρ_agree ρ w1.next w2.next) (fun u hu => (h.inScope x u hu).2)).symm
    · rename_i h1
      rw [h.fresh1 (Nat.not_lt.mp h1), h.fresh2 _ (by omega)]
      rfl
  db := h.db
  stamp := h.stamp
  cyc := h.cyc
  closed := h.closed
  acc := IlAcc.mono (extρ_agree ρ w1.next w2.next) (Nat.le_add_right _ _) h.acc

theorem IlEnv.setFacts (h : IlEnv F ρ d w1 w2) (name : String) (a : Nat) {fs : List Fact}
    (hfs : ∀ c ∈ fs, FactClosed c) : IlEnv F ρ d (w1.setFacts name a fs) (w2.setFacts name a fs) where
  inj := by rw [setFacts_next]; exact h.inj
  below := by rw [setFacts_next, setFacts_next]; exact h.below
  avoid := by rw [setFacts_next]; exact h.avoid
  fbelow := by rw [setFacts_next]; exact h.fbelow
  inScope := by rw [setFacts_next, setFacts_b]; exact h.inScope
  fresh2 := by rw [setFacts_next, setFacts_b]; exact h.fresh2
  binds := by rw [setFacts_next, setFacts_b, setFacts_b]; exact h.binds
  db := by rw [setFacts_db, setFacts_db, h.db]
  stamp := by rw [setFacts_stamp, setFacts_stamp]; exact h.stamp
  cyc := by rw [setFacts_cyc, setFacts_cyc]; exact h.cyc
  closed := by rw [setFacts_db]; exact dbClosed_upd h.closed _ hfs
  acc := by rw [setFacts_next, setFacts_acc, setFacts_acc]; exact h.acc

theorem IlEnv.setStamp (h : IlEnv F ρ d w1 w2) (s : Nat) :
    IlEnv F ρ d { w1 with stamp := s } { w2 with stamp := s } :=
  ⟨h.inj, h.below, h.avoid, h.fbelow, h.inScope, h.fresh2, h.binds, h.db, rfl, h.cyc, h.closed, h.acc⟩

theorem IlEnv.push (h : IlEnv F ρ d w1 w2) :
    IlEnv F ρ (d+1) { w1 with acc := [] :: w1.acc } { w2 with acc := [] :: w2.acc } :=
  ⟨h.inj, h.below, h.avoid, h.fbelow, h.inScope, h.fresh2, h.binds, h.db, h.stamp, h.cyc, h.closed,
    ⟨⟨rfl, ownL_nil _⟩, h.acc⟩⟩

theorem IlEnv.pop (h : IlEnv F ρ (d+1) w1 w2) :
    IlEnv F ρ d { w1 with acc := w1.acc.tail } { w2 with acc := w2.acc.tail } ∧
      IlFrame ρ w1.next (w1.acc.headD []) (w2.acc.headD []) := by
  have hacc := h.acc
  cases h1 : w1.acc with
  | nil => rw [h1] at hacc; exact hacc.elim
  | cons l1 a1 =>
    cases h2 : w2.acc with
    | nil => rw [h1, h2] at hacc; exact hacc.elim
    | cons l2 a2 =>
      rw [h1, h2] at hacc
      exact ⟨⟨h.inj, h.below, h.avoid, h.fbelow, h.inScope, h.fresh2, h.binds, h.db, h.stamp, h.cyc, h.closed,
        by simpa using hacc.2⟩, by simpa using hacc.1⟩

end

/-! ### dereferencing -/

section
variable {F : Nat → Prop} {ρ : Nat → Nat} {d : Nat} {w1 w2 : World}

theorem walk_own (h : IlEnv F ρ d w1 w2) : ∀ (f : Nat) (t a : Term), Own w1.next t → walk w1.b f t = some a →
    Own w1.next a := by
  intro f
  induction f with
  | zero => intro t a _ hw; simp [walk] at hw
  | succ f ih =>
    intro t a ht hw
    cases t with
    | var n =>
      simp only [walk] at hw
      cases hb : w1.b n with
      | none => rw [hb] at hw; simp at hw; subst hw; exact ht
      | some u => rw [hb] at hw; exact ih u a (h.inScope n u hb).2 hw
    | atom s => simp only [walk] at hw; cases hw; exact ht
    | int i => simp only [walk] at hw; cases hw; exact ht
    | fn g args => simp only [walk] at hw; cases hw; exact ht

theorem walk_il (h : IlEnv F ρ d w1 w2) : ∀ (f : Nat) (t : Term), Own w1.next t →
    walk w2.b f (t.rename ρ) = (walk w1.b f t).map (Term.rename ρ) := by
  intro f
  induction f with
  | zero => intro t _; simp [walk]
  | succ f ih =>
    intro t ht
    cases t with
    | var n =>
      have hn : n < w1.next := own_var.mp ht
      simp only [Term.rename, walk]
      rw [h.binds n hn]
      cases hb : w1.b n with
      | none => simp [Term.rename]
      | some u => simp only [Option.map]; exact ih u (h.inScope n u hb).2
    | atom s => simp [walk, Term.rename]
    | int i => simp [walk, Term.rename]
    | fn g args => rw [rename_fn]; simp [walk, rename_fn]

theorem mapM_opt_rename {r : Nat → Nat} {g1 g2 : Term → Option Term} :
    ∀ (ts : List Term), (∀ t ∈ ts, g2 (t.rename r) = (g1 t).map (Term.rename r)) →
      (ts.map (Term.rename r)).mapM g2 = (ts.mapM g1).map (List.map (Term.rename r)) := by
  intro ts
  induction ts with
  | nil => intro _; simp
  | cons t ts ih =>
    intro hh
    rw [List.map_cons, List.mapM_cons, List.mapM_cons, hh t (by simp), ih (fun t' ht' => hh t' (by simp [ht']))]
    cases g1 t with
    | none => rfl
    | some a =>
      cases ts.mapM g1 with
      | none => rfl
      | some as => rfl

theorem mapM_opt_own {n : Nat} {g : Term → Option Term} :
    ∀ (ts vs : List Term), (∀ t ∈ ts, ∀ v, g t = some v → Own n v) → ts.mapM g = some vs → OwnL n vs := by
  intro ts vs hh hm
  have h2 := mapM_some_forall₂ ts vs hm
  clear hm
  induction h2 with
  | nil => exact ownL_nil n
  | cons h1 _ ih =>
    exact ownL_cons.mpr ⟨hh _ (by simp) _ h1, ih (fun t ht => hh t (by simp [ht]))⟩

theorem resolve_own (h : IlEnv F ρ d w1 w2) : ∀ (f : Nat) (t v : Term), Own w1.next t → resolve w1.b f t = some v →
    Own w1.next v := by
  intro f
  induction f with
  | zero => intro t v _ hr; simp [resolve] at hr
  | succ f ih =>
    intro t v ht hr
    cases t with
    | var n =>
      simp only [resolve] at hr
      cases hb : w1.b n with
      | none => rw [hb] at hr; simp at hr; subst hr; exact ht
      | some u => rw [hb] at hr; exact ih u v (h.inScope n u hb).2 hr
    | atom s => simp only [resolve] at hr; cases hr; exact ht
    | int i => simp only [resolve] at hr; cases hr; exact ht
    | fn g args =>
      simp only [resolve] at hr
      cases hm : args.mapM (resolve w1.b f) with
      | none => rw [hm] at hr; simp at hr
      | some vs =>
        rw [hm] at hr; simp at hr; subst hr
        rw [own_fn]
        exact mapM_opt_own args vs (fun t htm v hv => ih t v (own_fn.mp ht t htm) hv) hm

theorem resolve_il (h : IlEnv F ρ d w1 w2) : ∀ (f : Nat) (t : Term), Own w1.next t →
    resolve w2.b f (t.rename ρ) = (resolve w1.b f t).map (Term.rename ρ) := by
  intro f
  induction f with
  | zero => intro t _; simp [resolve]
  | succ f ih =>
    intro t ht
    cases t with
    | var n =>
      have hn : n < w1.next := own_var.mp ht
      simp only [Term.rename, resolve]
      rw [h.binds n hn]
      cases hb : w1.b n with
      | none => simp [Term.rename]
      | some u => simp only [Option.map]; exact ih u (h.inScope n u hb).2
    | atom s => simp [resolve, Term.rename]
    | int i => simp [resolve, Term.rename]
    | fn g args =>
      rw [rename_fn]
      simp only [resolve]
      rw [mapM_opt_rename args (fun t htm => ih t (own_fn.mp ht t htm))]
      cases args.mapM (resolve w1.b f) with
      | none => rfl
      | some vs => simp [rename_fn]

theorem mapM_resolve_il (h : IlEnv F ρ d w1 w2) (f : Nat) (ts : List Term) (hts : OwnL w1.next ts) :
    (ts.map (Term.rename ρ)).mapM (resolve w2.b f) = (ts.mapM (resolve w1.b f)).map (List.map (Term.rename ρ)) :=
  mapM_opt_rename ts (fun t ht => resolve_il h f t (hts t ht))

theorem mapM_resolve_own (h : IlEnv F ρ d w1 w2) (f : Nat) (ts vs : List Term) (hts : OwnL w1.next ts)
    (hm : ts.mapM (resolve w1.b f) = some vs) : OwnL w1.next vs :=
  mapM_opt_own ts vs (fun t ht v hv => resolve_own h f t v (hts t ht) hv) hm

/-- the canonical form of resolved own terms is the same on both sides -/
theorem canonVars_il (h : IlEnv F ρ d w1 w2) (vs : List Term) (hvs : OwnL w1.next vs) :
    canonVars (vs.map (Term.rename ρ)) = canonVars vs := by
  apply canonVars_rename
  intro x hx y hy e
  obtain ⟨l, hl, hxl⟩ := List.mem_flatten.mp hx
  obtain ⟨t, ht, rfl⟩ := List.mem_map.mp hl
  obtain ⟨l', hl', hyl⟩ := List.mem_flatten.mp hy
  obtain ⟨t', ht', rfl⟩ := List.mem_map.mp hl'
  exact h.inj x y (hvs t ht x hxl) (hvs t' ht' y hyl) e

end

end Yld
