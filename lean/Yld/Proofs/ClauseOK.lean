/-
  What `compileClause` hands to the code generator satisfies `ClauseOK`: the names it assigns in the
  prologue are distinct, every variable the clause uses is among them, the argument positions are
  within the parameter list, the body code is well-formed.  (The hypothesis of Theorem B for
  functions, discharged for the model of the clause compiler.)
-/
import Yld.Proofs.PyFunction
import Yld.Proofs.FrameLocalEngine
import Yld.Model.Api
namespace Yld

/-! ### `dedup` -/

theorem dedup_spec (xs : List String) : (dedup xs).Nodup ∧ ∀ x, x ∈ dedup xs ↔ x ∈ xs := by
  unfold dedup
  suffices h : ∀ (acc : List String), acc.Nodup →
      (xs.foldl (fun acc x => if acc.contains x then acc else acc ++ [x]) acc).Nodup ∧
      ∀ x, x ∈ xs.foldl (fun acc x => if acc.contains x then acc else acc ++ [x]) acc ↔ x ∈ acc ∨ x ∈ xs by
    simpa using h [] List.nodup_nil
  induction xs with
  | nil => intro acc hn; simp [hn]
  | cons y ys ih =>
    intro acc hn
    simp only [List.foldl_cons]
    by_cases hc : acc.contains y
    · simp only [hc, if_true]
      have hy : y ∈ acc := by simpa using hc
      obtain ⟨h1, h2⟩ := ih acc hn
      refine ⟨h1, fun x => ?_⟩
      rw [h2 x]
      constructor
      · rintro (h | h)
        · exact Or.inl h
        · exact Or.inr (List.mem_cons_of_mem _ h)
      · rintro (h | h)
        · exact Or.inl h
        · rcases List.mem_cons.mp h with rfl | h
          · exact Or.inl hy
          · exact Or.inr h
    · simp only [hc, Bool.false_eq_true, if_false]
      have hy : y ∉ acc := by simpa using hc
      have hn' : (acc ++ [y]).Nodup := by
        rw [List.nodup_append]
        exact ⟨hn, by simp, fun a ha b hb => by
          rcases List.mem_singleton.mp hb with rfl; exact fun e => hy (e ▸ ha)⟩
      obtain ⟨h1, h2⟩ := ih (acc ++ [y]) hn'
      refine ⟨h1, fun x => ?_⟩
      rw [h2 x]
      simp only [List.mem_append, List.mem_cons, List.not_mem_nil, or_false]
      constructor
      · rintro ((h | h) | h)
        · exact Or.inl h
        · exact Or.inr (Or.inl h)
        · exact Or.inr (Or.inr h)
      · rintro (h | h | h)
        · exact Or.inl (Or.inl h)
        · exact Or.inl (Or.inr h)
        · exact Or.inr h

/-! ### The aliased head variables are distinct -/

theorem filter_count_one_nodup (l : List String) : (l.filter fun v => l.count v = 1).Nodup := by
  rw [List.nodup_iff_count]
  intro a
  by_cases h : a ∈ l.filter fun v => l.count v = 1
  · have h1 : l.count a = 1 := by simpa using (List.mem_filter.mp h).2
    have := List.Sublist.count_le a (List.filter_sublist (l := l) (p := fun v => l.count v = 1))
    omega
  · rw [List.count_eq_zero_of_not_mem h]; omega

theorem zipIdx_filterMap_fst {α : Type} (l : List (Option α)) : ∀ n,
    ((l.zipIdx n).filterMap fun (p : Option α × Nat) => p.1.map fun v => (v, p.2)).map Prod.fst = l.filterMap id := by
  induction l with
  | nil => intro n; rfl
  | cons o os ih =>
    intro n
    cases o with
    | none => simp [List.zipIdx_cons, List.filterMap_cons, ih]
    | some v => simp [List.zipIdx_cons, List.filterMap_cons, ih]

def topVars (head : List STerm) : List String := head.filterMap fun a => match a with | .var v => some v | _ => none

theorem filterMap_var_filter (P : String → Bool) (head : List STerm) :
    head.filterMap (fun a => match a with | STerm.var v => if P v then some v else none | _ => none) =
      (topVars head).filter P := by
  unfold topVars
  induction head with
  | nil => rfl
  | cons a as ih =>
    cases a with
    | var v =>
      simp only [List.filterMap_cons, List.filter_cons]
      cases hP : P v <;> simp [ih]
    | _ => simp only [List.filterMap_cons, ih]

theorem headAlias_filterMap (head : List STerm) :
    (headAlias head).filterMap id = (topVars head).filter fun v => (topVars head).count v = 1 := by
  have := filterMap_var_filter (fun v => decide ((topVars head).count v = 1)) head
  rw [← this]
  unfold headAlias topVars
  simp only [List.filterMap_map]
  congr 1
  funext a
  cases a <;> first | rfl | (simp; done) | (simp; rfl)

/-! ### The body code uses the body's variables -/

theorem varsL_nil : Code.varsL [] = [] := by rw [Code.varsL]
theorem varsL_cons (c : Code) (cs : List Code) : Code.varsL (c :: cs) = c.vars ++ Code.varsL cs := by rw [Code.varsL]
theorem varsL_append (a b : List Code) : Code.varsL (a ++ b) = Code.varsL a ++ Code.varsL b := by
  induction a with
  | nil => simp [varsL_nil]
  | cons c cs ih => simp [varsL_cons, ih]
theorem vars_foreach (n : String) (args : List STerm) (body : List Code) :
    (Code.foreach n args body).vars = (args.map STerm.vars).flatten ++ Code.varsL body := by rw [Code.vars]
theorem vars_block (l : Nat) (body : List Code) : (Code.block l body).vars = Code.varsL body := by rw [Code.vars]
theorem vars_yieldF : Code.yieldF.vars = [] := by rw [Code.vars] <;> (intros; contradiction)
theorem vars_yieldT : Code.yieldT.vars = [] := by rw [Code.vars] <;> (intros; contradiction)
theorem vars_ret : Code.ret.vars = [] := by rw [Code.vars] <;> (intros; contradiction)
theorem vars_brk (l : Nat) : (Code.brk l).vars = [] := by rw [Code.vars] <;> (intros; contradiction)

def StackVars (ks : List Body) (v : String) : Prop := ∃ k ∈ ks, v ∈ k.vars

theorem comp_vars (b : Body) (ks : List Body) (n : Nat) :
    ∀ v ∈ Code.varsL (comp b ks n).1, v ∈ b.vars ∨ StackVars ks v := by
  fun_induction comp b ks n <;> intro v hv
  case case1 => simp [varsL_cons, varsL_nil, vars_yieldF] at hv
  case case2 n k ks ih =>
    rcases ih v hv with h | ⟨k', hk', h⟩
    · exact Or.inr ⟨k, by simp, h⟩
    · exact Or.inr ⟨k', by simp [hk'], h⟩
  case case3 => simp [varsL_nil] at hv
  case case4 => simp [varsL_cons, varsL_nil, vars_yieldT, vars_ret] at hv
  case case5 n k ks c n' hx ih =>
    rw [hx] at ih
    simp only [varsL_append, varsL_cons, varsL_nil, vars_ret, List.append_nil] at hv
    rcases ih v hv with h | ⟨k', hk', h⟩
    · exact Or.inr ⟨k, by simp, h⟩
    · exact Or.inr ⟨k', by simp [hk'], h⟩
  case case6 => simp [varsL_cons, varsL_nil, vars_yieldF, vars_brk] at hv
  case case7 n l k ks c n' hx ih =>
    rw [hx] at ih
    simp only [varsL_append, varsL_cons, varsL_nil, vars_brk, List.append_nil] at hv
    rcases ih v hv with h | ⟨k', hk', h⟩
    · exact Or.inr ⟨k, by simp, h⟩
    · exact Or.inr ⟨k', by simp [hk'], h⟩
  case case8 n name args =>
    simp only [varsL_cons, varsL_nil, vars_foreach, vars_yieldF, List.append_nil] at hv
    exact Or.inl (by simpa [Body.vars] using hv)
  case case9 n name args k ks c n' hx ih =>
    rw [hx] at ih
    simp only [varsL_cons, varsL_nil, vars_foreach, List.append_nil, List.mem_append] at hv
    rcases hv with h | h
    · exact Or.inl (by simpa [Body.vars] using h)
    · rcases ih v h with h | ⟨k', hk', h⟩
      · exact Or.inr ⟨k, by simp, h⟩
      · exact Or.inr ⟨k', by simp [hk'], h⟩
  case case10 n a b ks ih =>
    rcases ih v hv with h | ⟨k', hk', h⟩
    · exact Or.inl (by simp [Body.vars, h])
    · rcases List.mem_cons.mp hk' with rfl | hk'
      · exact Or.inl (by simp [Body.vars, h])
      · exact Or.inr ⟨k', hk', h⟩
  case case11 n c t e ks l c1 n1 hx1 c2 n2 hx2 ih1 ih2 =>
    rw [hx1] at ih1; rw [hx2] at ih2
    simp only [varsL_cons, varsL_nil, vars_block, varsL_append, List.append_nil, List.mem_append] at hv
    rcases hv with h | h
    · rcases ih1 v h with h | ⟨k', hk', h⟩
      · exact Or.inl (by simp [Body.vars, h])
      · rcases List.mem_cons.mp hk' with rfl | hk'
        · simp [Body.vars] at h
        · rcases List.mem_cons.mp hk' with rfl | hk'
          · exact Or.inl (by simp [Body.vars, h])
          · exact Or.inr ⟨k', hk', h⟩
    · rcases ih2 v h with h | h
      · exact Or.inl (by simp [Body.vars, h])
      · exact Or.inr h
  case case12 n a b ks hne c1 n1 hx1 c2 n2 hx2 ih1 ih2 =>
    rw [hx1] at ih1; rw [hx2] at ih2
    simp only [varsL_append, List.mem_append] at hv
    rcases hv with h | h
    · rcases ih1 v h with h | h
      · exact Or.inl (by simp [Body.vars, h])
      · exact Or.inr h
    · rcases ih2 v h with h | h
      · exact Or.inl (by simp [Body.vars, h])
      · exact Or.inr h
  case case13 n c t l c1 n1 hx1 ih1 =>
    rw [hx1] at ih1
    simp only [varsL_cons, varsL_nil, vars_block, List.append_nil] at hv
    rcases ih1 v hv with h | ⟨k', hk', h⟩
    · exact Or.inl (by simp [Body.vars, h])
    · simp only [List.mem_cons, List.not_mem_nil, or_false] at hk'
      rcases hk' with rfl | rfl | rfl
      · simp [Body.vars] at h
      · exact Or.inl (by simp [Body.vars, h])
      · simp [Body.vars] at h
  case case14 n c t k ks l c1 n1 hx1 ih1 =>
    rw [hx1] at ih1
    simp only [varsL_cons, varsL_nil, vars_block, List.append_nil] at hv
    rcases ih1 v hv with h | ⟨k', hk', h⟩
    · exact Or.inl (by simp [Body.vars, h])
    · rcases List.mem_cons.mp hk' with rfl | hk'
      · simp [Body.vars] at h
      · rcases List.mem_cons.mp hk' with rfl | hk'
        · exact Or.inl (by simp [Body.vars, h])
        · exact Or.inr ⟨k', hk', h⟩
  case case15 n a l c1 n1 hx1 ih1 =>
    rw [hx1] at ih1
    simp only [varsL_cons, varsL_nil, vars_block, varsL_append, vars_yieldF, List.append_nil] at hv
    rcases ih1 v hv with h | ⟨k', hk', h⟩
    · exact Or.inl (by simp [Body.vars, h])
    · simp only [List.mem_cons, List.not_mem_nil, or_false] at hk'
      rcases hk' with rfl | rfl | rfl <;> simp [Body.vars] at h
  case case16 n a k ks l c1 n1 hx1 c2 n2 hx2 ih1 ih2 =>
    rw [hx1] at ih1; rw [hx2] at ih2
    simp only [varsL_cons, varsL_nil, vars_block, varsL_append, List.append_nil, List.mem_append] at hv
    rcases hv with h | h
    · rcases ih1 v h with h | ⟨k', hk', h⟩
      · exact Or.inl (by simp [Body.vars, h])
      · rcases List.mem_cons.mp hk' with rfl | hk'
        · simp [Body.vars] at h
        · rcases List.mem_cons.mp hk' with rfl | hk'
          · simp [Body.vars] at h
          · exact Or.inr ⟨k', hk', h⟩
    · rcases ih2 v h with h | ⟨k', hk', h⟩
      · exact Or.inr ⟨k, by simp, h⟩
      · exact Or.inr ⟨k', by simp [hk'], h⟩

/-! ### `compileClause` -/

/-- What the front end guarantees about a clause: as many head arguments as the predicate has
    parameters, a source body, and variable names that are neither `ATOM_NIL` nor a parameter name
    (the visitor prefixes every source variable). -/
structure ClauseSrcOK (c : Clause) (m : Nat) : Prop where
  arity : c.head.length = m
  body : BOK [] c.body
  headNil : ∀ t ∈ c.head, t.noNil
  names : ∀ v, (v ∈ (c.head.map STerm.vars).flatten ∨ v ∈ c.body.vars) → ∀ i, v ≠ argName i

theorem topVars_sub (head : List STerm) : ∀ v ∈ topVars head, v ∈ (head.map STerm.vars).flatten := by
  intro v hv
  unfold topVars at hv
  obtain ⟨a, ha, h⟩ := List.mem_filterMap.mp hv
  cases a with
  | var x =>
    simp only [Option.some.injEq] at h
    subst h
    exact List.mem_flatten.mpr ⟨_, List.mem_map.mpr ⟨_, ha, rfl⟩, by simp [STerm.vars]⟩
  | _ => simp at h

theorem compileClause_aliases (c : Clause) (n : Nat) :
    (compileClause c n).1.aliases.map Prod.fst = (topVars c.head).filter fun v => (topVars c.head).count v = 1 := by
  rw [← headAlias_filterMap]
  exact zipIdx_filterMap_fst (headAlias c.head) 0

theorem compileClause_ok (c : Clause) (n m : Nat) (h : ClauseSrcOK c m) : ClauseOK (compileClause c n).1 m := by
  have hb1 := compileClause_aliases c n
  -- names of the three groups
  let bound1 := (compileClause c n).1.aliases.map Prod.fst
  let headVars := (c.head.map STerm.vars).flatten
  have hdh : (compileClause c n).1.declsHead = dedup (headVars.filter fun v => !bound1.contains v) := rfl
  have hdb : (compileClause c n).1.declsBody =
      dedup (c.body.vars.filter fun v => !(bound1 ++ (compileClause c n).1.declsHead).contains v) := rfl
  have hcode : (compileClause c n).1.code = (comp c.body [] n).1 := rfl
  have hb1sub : ∀ v ∈ bound1, v ∈ headVars := by
    intro v hv
    have : v ∈ (topVars c.head).filter fun v => (topVars c.head).count v = 1 := hb1 ▸ hv
    exact topVars_sub _ v (List.mem_filter.mp this).1
  have hdhmem : ∀ v, v ∈ (compileClause c n).1.declsHead ↔ (v ∈ headVars ∧ v ∉ bound1) := by
    intro v
    rw [hdh, (dedup_spec _).2 v, List.mem_filter]
    simp
  have hdbmem : ∀ v, v ∈ (compileClause c n).1.declsBody ↔
      (v ∈ c.body.vars ∧ v ∉ bound1 ∧ v ∉ (compileClause c n).1.declsHead) := by
    intro v
    rw [hdb, (dedup_spec _).2 v, List.mem_filter]
    simp
  have hnames : ∀ v, v ∈ (compileClause c n).1.names ↔
      (v ∈ bound1 ∨ v ∈ (compileClause c n).1.declsHead ∨ v ∈ (compileClause c n).1.declsBody) := by
    intro v; simp [ClauseCode.names, bound1, or_assoc]
  have hhead : ∀ v ∈ headVars, v ∈ (compileClause c n).1.names := by
    intro v hv
    rw [hnames]
    by_cases hb : v ∈ bound1
    · exact Or.inl hb
    · exact Or.inr (Or.inl ((hdhmem v).mpr ⟨hv, hb⟩))
  have hbody : ∀ v ∈ c.body.vars, v ∈ (compileClause c n).1.names := by
    intro v hv
    rw [hnames]
    by_cases hb : v ∈ bound1
    · exact Or.inl hb
    · by_cases hd : v ∈ (compileClause c n).1.declsHead
      · exact Or.inr (Or.inl hd)
      · exact Or.inr (Or.inr ((hdbmem v).mpr ⟨hv, hb, hd⟩))
  refine ⟨?_, ?_, ?_, ?_, ?_, ?_, ?_⟩
  · -- distinct names
    show ((compileClause c n).1.aliases.map Prod.fst ++ (compileClause c n).1.declsHead ++ (compileClause c n).1.declsBody).Nodup
    rw [List.nodup_append, List.nodup_append]
    refine ⟨⟨?_, ?_, ?_⟩, ?_, ?_⟩
    · rw [hb1]; exact filter_count_one_nodup _
    · rw [hdh]; exact (dedup_spec _).1
    · intro a ha b hb e
      subst e
      exact ((hdhmem a).mp hb).2 ha
    · rw [hdb]; exact (dedup_spec _).1
    · intro a ha b hb e
      subst e
      have := (hdbmem a).mp hb
      rcases List.mem_append.mp ha with h1 | h1
      · exact this.2.1 h1
      · exact this.2.2 h1
  · -- no parameter names
    intro v hv i
    rw [hnames] at hv
    rcases hv with hv | hv | hv
    · exact h.names v (Or.inl (hb1sub v hv)) i
    · exact h.names v (Or.inl ((hdhmem v).mp hv).1) i
    · exact h.names v (Or.inr ((hdbmem v).mp hv).1) i
  · -- alias positions
    intro p hp
    have hp' : p ∈ ((headAlias c.head).zipIdx).filterMap fun (x : Option String × Nat) => x.1.map fun v => (v, x.2) := hp
    obtain ⟨x, hx, hxp⟩ := List.mem_filterMap.mp hp'
    have hlt := List.snd_lt_of_mem_zipIdx hx
    cases hx1 : x.1 with
    | none => simp [hx1] at hxp
    | some v =>
      simp only [hx1, Option.map_some, Option.some.injEq] at hxp
      subst hxp
      simp only [headAlias, List.length_map, Nat.add_zero] at hlt
      rw [← h.arity]; exact hlt
  · -- unify positions
    intro p hp
    have hp' : p ∈ (((c.head.zip (headAlias c.head)).zipIdx).filterMap fun (x : (STerm × Option String) × Nat) =>
        match x.1.2 with | none => some (x.2, x.1.1) | some _ => none) := hp
    obtain ⟨x, hx, hxp⟩ := List.mem_filterMap.mp hp'
    have hlt := List.snd_lt_of_mem_zipIdx hx
    cases hx1 : x.1.2 with
    | some v => simp [hx1] at hxp
    | none =>
      simp only [hx1, Option.some.injEq] at hxp
      subst hxp
      simp only [headAlias, List.length_zip, List.length_map, Nat.min_self, Nat.add_zero] at hlt
      rw [← h.arity]; exact hlt
  · -- the head terms
    intro p hp
    have hp' : p ∈ (((c.head.zip (headAlias c.head)).zipIdx).filterMap fun (x : (STerm × Option String) × Nat) =>
        match x.1.2 with | none => some (x.2, x.1.1) | some _ => none) := hp
    obtain ⟨x, hx, hxp⟩ := List.mem_filterMap.mp hp'
    have hmem : x.1.1 ∈ c.head := (List.of_mem_zip (List.fst_mem_of_mem_zipIdx hx)).1
    cases hx1 : x.1.2 with
    | some v => simp [hx1] at hxp
    | none =>
      simp only [hx1, Option.some.injEq] at hxp
      subst hxp
      refine ⟨h.headNil _ hmem, fun v hv => hhead v ?_⟩
      exact List.mem_flatten.mpr ⟨_, List.mem_map.mpr ⟨_, hmem, rfl⟩, hv⟩
  · -- the body code
    intro v hv
    rw [hcode] at hv
    rcases comp_vars c.body [] n v hv with h1 | ⟨k, hk, _⟩
    · exact hbody v h1
    · cases hk
  · rw [hcode]
    exact (comp_wf c.body [] n [] (by simp) h.body (by simp)).1

/-- Every clause of a compiled predicate satisfies the code generator's expectations. -/
theorem compileClauses_ok (m : Nat) : ∀ (cs : List Clause) (n : Nat), (∀ c ∈ cs, ClauseSrcOK c m) →
    ∀ cc ∈ (compileClauses cs n).1, ClauseOK cc m := by
  intro cs
  induction cs with
  | nil => intro n _ cc hcc; simp [compileClauses] at hcc
  | cons c cs ih =>
    intro n hall cc hcc
    simp only [compileClauses, List.mem_cons] at hcc
    rcases hcc with rfl | hcc
    · exact compileClause_ok c n m (hall c (by simp))
    · exact ih _ (fun c' hc' => hall c' (List.mem_cons_of_mem _ hc')) cc hcc

/-- **The printed function is the compiled predicate.** Running the `def` that `Emit` prints for a
    predicate under the Python semantics (what the driver's `python` mode does for the queried
    predicate) is `runDef` in compiled mode, for every consumer and world, provided the engine's
    `query` and `unify` do not look at their consumer's frame. -/
theorem pyTop_def_correct (cfg : Cfg) (f : Nat) (p : Pred) (mode : Mode) (args : List Term)
    (harity : p.arity = args.length) (hsrc : ∀ c ∈ p.clauses, ClauseSrcOK c args.length)
    (hq : ∀ n a, FrameLocal (query cfg f n a)) (hu : ∀ a b, FrameLocal (unify f a b)) :
    runDefPyTop cfg (f + 1) (.prolog p mode) args = runDef cfg (f + 1) (.prolog p .compiled) args := by
  funext k w
  simp only [runDefPyTop, runDef]
  exact py_function_correct (query cfg f) hq f hu p (compilePred p 0).1 args harity
    (compileClauses_ok args.length p.clauses 0 hsrc) k w

/-- … and they do not: for the model engine nothing is assumed. -/
theorem pyTop_def_correct_engine (cfg : Cfg) (f : Nat) (p : Pred) (mode : Mode) (args : List Term)
    (harity : p.arity = args.length) (hsrc : ∀ c ∈ p.clauses, ClauseSrcOK c args.length) :
    runDefPyTop cfg (f + 1) (.prolog p mode) args = runDef cfg (f + 1) (.prolog p .compiled) args :=
  pyTop_def_correct cfg f p mode args harity hsrc (query_frameLocal cfg f) (unify_frameLocal f)

end Yld
