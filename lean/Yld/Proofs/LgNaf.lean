/-
  Negation as failure against the logical reading (C06), stage 1: `\+ G` for a goal `G` of the Horn
  fragment, for a store `D` of closed facts, an abstract meaning of goals (soundness half) and the
  ranked meaning `HN D preds r` (completeness half).

  `solve q env d (\+ G) k w = iteR d k (q G (commitK d) w)`: the search for `G` is run with the consumer
  that answers `commit d` at every yield; `iteR d k` lets `k` run exactly when that search ends normally.

  * `naf_fails`: `commitK d` is a consumer of the class `Recs` with `P := False` (it answers with a reason
    everywhere), so by `query_rec_all` the search does not end normally when an instance of `G` is
    derivable; by the pass of `LgNPass` what comes back is `commit d` or `oof`.
  * `naf_succeeds`: by `query_sound_all` (with `cm := True`) the consumer is called only in worlds where
    `G` holds under every solution of the heap; if no instance of `G` holds, such a world has no
    solution, hence is flagged.  So the run is the run with `commitCycK d`, which signals in flagged
    worlds only; by the pass of `LgNPass` a signal comes back in a flagged world only.
-/
import Yld.Proofs.LgNPass
import Yld.Proofs.LgFRecord
set_option linter.unusedSimpArgs false
set_option linter.unusedVariables false
namespace Yld
namespace Lg
namespace F

variable {D : CDb}

/-- the consumer of the search under `\+` at level `d` -/
def commitK (d : Nat) : K := fun w' => (w', some (.commit d))

/-- the same, but signalling in flagged worlds only -/
def commitCycK (d : Nat) : K := fun w' => (w', if w'.cyc = true then some (.commit d) else none)

theorem solve_neg_call (q : Q) (env : Env) (d : Nat) (name : String) (sargs : List STerm) (k : K) (w : World) :
    solve q env d (.neg (.call name sargs)) k w = iteR d k (q name (sargs.map (STerm.eval env)) (commitK d) w) := by
  simp only [solve]
  rfl

theorem commitK_qk (cm : Prop) (d : Nat) : QK cm (commitK d) :=
  ⟨fun _ => rfl, fun _ => rfl, fun _ => Nat.le_refl _, fun _ w h => h⟩

theorem commitCycK_qk (cm : Prop) (d : Nat) : QK cm (commitCycK d) :=
  ⟨fun _ => rfl, fun _ => rfl, fun _ => Nat.le_refl _, fun _ w h => h⟩

theorem commitK_recs (d : Nat) (θ : Val) (n : Nat) : Recs D (fun _ => False) θ n (commitK d) :=
  ⟨commitK_qk False d, fun _ h => h, fun w' _ _ _ => Done.of_sig _ _⟩

/-- what may come back from the search under `\+`: its private signal, or the engine's fault -/
def ACommit (d : Nat) (s : Sig) (_c : Bool) : Prop := s = .commit d ∨ s = .oof

theorem sigA_commit (d : Nat) : N.SigA (ACommit d) := ⟨fun _ => Or.inr rfl, fun _ h => h⟩

theorem commitK_ok (d : Nat) : N.KOK (ACommit d) (commitK d) := by
  intro w s hs
  simp only [commitK, Option.some.injEq] at hs
  exact Or.inl hs.symm

/-- … the private signal in flagged worlds only -/
def ACyc (d : Nat) (s : Sig) (c : Bool) : Prop := s = .oof ∨ (s = .commit d ∧ c = true)

theorem sigA_cyc (d : Nat) : N.SigA (ACyc d) :=
  ⟨fun _ => Or.inl rfl, fun s h => by
    rcases h with h | ⟨_, h⟩
    · exact Or.inl h
    · cases h⟩

theorem commitCycK_ok (d : Nat) : N.KOK (ACyc d) (commitCycK d) := by
  intro w s hs
  show ACyc d s w.cyc
  simp only [commitCycK] at hs
  split at hs
  · rename_i hc
    simp only [Option.some.injEq] at hs
    exact Or.inr ⟨hs.symm, hc⟩
  · cases hs

section naf
variable {U : String → Bool} {cfg : Cfg} {preds : List Pred} (hc : HC U cfg preds)

include hc in
/-- **`\+ G` fails when an instance of `G` is derivable** (programs without cut): the search for `G` ends
    with the private signal (a plain failure of `\+ G`) or with `oof`; the continuation is not called. -/
theorem naf_fails (hnc : ∀ p ∈ preds, ∀ c ∈ p.clauses, nocut c.body = true) (f d : Nat) {name : String}
    (hU : U name = true) (args : List Term) (w : World) (θ : Val) (hg : Good D False w) (ha : OwnL w.next args)
    (hθ : Solves θ w.b) (r : Nat) (hh : HN D preds r name (args.map (Term.subst θ))) :
    ∃ r : R, (r.2 = none ∨ r.2 = some .oof) ∧ ∀ k : K, iteR d k (query cfg f name args (commitK d) w) = r := by
  have hdone : Done (fun _ => False) (query cfg f name args (commitK d) w) :=
    query_rec_all hc hnc (P := fun _ => False) (fun _ _ _ h => h) r f name hU args w θ (commitK d) hg ha hθ hh
      (commitK_recs d θ w.next)
  have hok : N.ROK (ACommit d) (query cfg f name args (commitK d) w) :=
    N.query_ok hc f (ACommit d) (sigA_commit d) name hU args (commitK d) (commitK_ok d) w
  revert hdone hok
  generalize query cfg f name args (commitK d) w = r0
  obtain ⟨w1, o⟩ := r0
  intro hdone hok
  cases o with
  | none =>
    rcases hdone with h | h
    · exact absurd rfl h
    · exact h.elim
  | some s =>
    rcases hok s rfl with e | e
    · subst e
      exact ⟨(w1, none), Or.inl rfl, fun k => by rw [iteR_commit, if_pos rfl]⟩
    · subst e
      exact ⟨(w1, some .oof), Or.inr rfl, fun k => rfl⟩

include hc in
/-- **`\+ G` succeeds, once and binding nothing, when no instance of `G` holds**: the continuation is
    called in the world the search for `G` ends in (bindings and store of the start) — or the search
    ended with `oof`, or in a flagged world. -/
theorem naf_succeeds {H : String → List Term → Prop} (sem : Sem D preds H) (f d : Nat) {name : String}
    (hU : U name = true) (args : List Term) (w : World) (hg : Good D True w) (ha : OwnL w.next args)
    (hno : ∀ θ, Solves θ w.b → ¬ H name (args.map (Term.subst θ))) :
    (∃ w', w'.b = w.b ∧ w'.db = w.db ∧ ∀ k : K, iteR d k (query cfg f name args (commitK d) w) = k w') ∨
    (∃ r : R, (r.2 = some .oof ∨ r.1.cyc = true) ∧ ∀ k : K, iteR d k (query cfg f name args (commitK d) w) = r) := by
  have e : query cfg f name args (commitK d) w = query cfg f name args (commitCycK d) w := by
    refine query_sound_all hc sem True f name hU args w hg ha _ _ (commitK_qk True d) (commitCycK_qk True d) ?_
    intro w' ⟨hst, hgh⟩
    have hcy : w'.cyc = true := by
      cases hcw : w'.cyc with
      | true => rfl
      | false =>
        exfalso
        obtain ⟨θ, hs, _⟩ := hst.good.solv trivial hcw (fun _ => .atom "")
        exact hno θ (hst.ext θ hs) (hgh θ hs)
    simp only [commitK, commitCycK, hcy, if_true]
  have hok : N.ROK (ACyc d) (query cfg f name args (commitK d) w) := by
    rw [e]
    exact N.query_ok hc f (ACyc d) (sigA_cyc d) name hU args (commitCycK d) (commitCycK_ok d) w
  have hb : (query cfg f name args (commitK d) w).1.b = w.b :=
    (query_qkGen hc True f hU args (commitK d) (commitK_qk True d)).b w
  have hdb : (query cfg f name args (commitK d) w).1.db = w.db :=
    (query_qkGen hc True f hU args (commitK d) (commitK_qk True d)).db w
  revert hok hb hdb
  generalize query cfg f name args (commitK d) w = r0
  obtain ⟨w1, o⟩ := r0
  intro hok hb hdb
  cases o with
  | none => exact Or.inl ⟨w1, hb, hdb, fun k => rfl⟩
  | some s =>
    rcases hok s rfl with e' | ⟨e', hcy⟩
    · subst e'
      exact Or.inr ⟨(w1, some .oof), Or.inl rfl, fun k => rfl⟩
    · subst e'
      exact Or.inr ⟨(w1, none), Or.inr hcy, fun k => by rw [iteR_commit, if_pos rfl]⟩

end naf
end F
end Lg
end Yld
