/-
  Interleaved queries do not interfere (C04, second sentence).

  A query that is suspended at an answer shares the engine with the other suspended generators.
  While it is suspended the others move: they allocate new `Variable` cells and bind and unbind
  cells of their own. They never touch a cell of this query (disjoint variables), and they leave
  the fact store alone. The theorem: the query produces the answers it produces when run alone.

  In the push-style model "the others move while the query is suspended at an answer" is a consumer
  that, after recording the answer, changes the world outside the query's cells. Because allocation
  is a counter, the query's later cells get other numbers than in the run alone, so the two runs are
  compared up to a renaming of cells.

  STATEMENTS IN THIS FILE ARE FIXED (see the task description); the proofs are to be supplied.
-/
import Yld.Model.Api
import Yld.Proofs.Activation
import Yld.Proofs.IlEngine
import Yld.Proofs.WFPreserved
set_option linter.unusedSimpArgs false
set_option linter.unusedVariables false
namespace Yld

/-- What the other suspended generators do between the `i`-th answer of our query and its
    resumption: allocate `alloc i` new cells, and give the cells of their own — the block
    `[lo, lo+m)` they owned when our query started, and the cells just allocated — new contents
    (`rebind i b x`, where `b` is the heap as the answer left it; any term, or unbound). -/
structure Interference where
  alloc : Nat → Nat
  rebind : Nat → Bind → Nat → Option Term

/-- The consumer of the interleaved run: record the answer exactly as the top-level consumer does,
    then let the others move. -/
def interleavedConsumer (fuel : Nat) (args : List Term) (sched : Sched) (lo m : Nat) (I : Interference) : K := fun w =>
  let r := topConsumer fuel args sched w
  let i := (r.1.acc.headD []).length
  let n := r.1.next
  ({ r.1 with next := n + I.alloc i,
              b := fun x => if (lo ≤ x ∧ x < lo + m) ∨ (n ≤ x ∧ x < n + I.alloc i) then I.rebind i r.1.b x else r.1.b x },
   r.2)


/-! ### The pieces of the proof (the pass over the engine is in `IlBase`, `IlSim`, `IlPrim`, `IlClause`, `IlEngine`) -/

section
variable {F : Nat → Prop}

/-- The top-level consumer records the same answer on both sides (the canonical form of the resolved
    query arguments does not depend on the names of the cells), touches no cell and allocates none. -/
theorem topConsumer_il (f : Nat) (args : List Term) (sched : Sched) {ρ : Nat → Nat} {v1 v2 : World}
    (he : IlEnv F ρ 0 v1 v2) (ha : OwnL v1.next args) :
    (topConsumer f (args.map (Term.rename ρ)) sched v2).2 = (topConsumer f args sched v1).2 ∧
    IlEnv F ρ 0 (topConsumer f args sched v1).1 (topConsumer f (args.map (Term.rename ρ)) sched v2).1 ∧
    (topConsumer f args sched v1).1.next = v1.next ∧
    (topConsumer f (args.map (Term.rename ρ)) sched v2).1.next = v2.next := by
  unfold topConsumer
  rw [mapM_resolve_il he f args ha]
  cases hm : args.mapM (resolve v1.b f) with
  | none => exact ⟨rfl, he, rfl, rfl⟩
  | some vs =>
    simp only [Option.map]
    have eacc : v2.acc = v1.acc := (show v1.acc = v2.acc from he.acc).symm
    rw [canonVars_il he vs (mapM_resolve_own he f args vs ha hm), eacc]
    have key : ∀ a : List (List Term), IlEnv F ρ 0 { v1 with acc := a } { v2 with acc := a } :=
      fun a => he.setAcc (d' := 0) (show a = a from rfl)
    cases sched with
    | all => exact ⟨rfl, key _, rfl, rfl⟩
    | stop k =>
      simp only
      split <;> split <;> exact ⟨rfl, key _, rfl, rfl⟩
    | raise k =>
      simp only
      split <;> split <;> exact ⟨rfl, key _, rfl, rfl⟩

/-- What the others may do to side 2 while the query is suspended: allocate, and give any contents to
    cells that are not the image of a cell of side 1 (and that exist afterwards). -/
theorem IlEnv.interfere {ρ : Nat → Nat} {d : Nat} {w1 w2 : World} (h : IlEnv F ρ d w1 w2) (a : Nat) (b' : Bind)
    (hown : ∀ x, x < w1.next → b' (ρ x) = w2.b (ρ x)) (hfresh : ∀ y, w2.next + a ≤ y → b' y = none) :
    IlEnv F ρ d w1 { w2 with next := w2.next + a, b := b' } where
  inj := h.inj
  below x hx := Nat.lt_of_lt_of_le (h.below x hx) (Nat.le_add_right _ _)
  avoid := h.avoid
  fbelow y hy := Nat.lt_of_lt_of_le (h.fbelow y hy) (Nat.le_add_right _ _)
  inScope := h.inScope
  fresh2 := hfresh
  binds x hx := by show b' (ρ x) = _; rw [hown x hx]; exact h.binds x hx
  db := h.db
  stamp := h.stamp
  cyc := h.cyc
  closed := h.closed
  acc := h.acc

/-- The consumer of the interleaved run simulates the top-level consumer: the others only allocate and
    only touch their own block `[lo, lo+m)` (which the renaming avoids for ever) and the cells they
    have just allocated (which are not images of cells of the query). -/
theorem interleavedConsumer_il (f : Nat) (args : List Term) (sched : Sched) (lo m : Nat) (I : Interference)
    (ρ : Nat → Nat) (hid : ∀ x, x < lo → ρ x = x) (ha : OwnL lo args) :
    IlK (fun y => lo ≤ y ∧ y < lo + m) ρ lo 0 (topConsumer f args sched) (interleavedConsumer f args sched lo m I) := by
  intro ρ' v1 v2 hag hn he
  have hargs : args.map (Term.rename ρ') = args := by
    conv => rhs; rw [← List.map_id args]
    apply List.map_congr_left
    intro t ht
    exact rename_self t (fun x hx => by rw [hag x (ha t ht x hx)]; exact hid x (ha t ht x hx))
  have ht := topConsumer_il f args sched he (ha.mono hn)
  rw [hargs] at ht
  obtain ⟨e2, he', n1, n2⟩ := ht
  unfold interleavedConsumer
  simp only
  refine ⟨e2, ρ', Agree.refl _ _, by rw [n1]; exact Nat.le_refl _, ?_⟩
  apply he'.interfere
  · intro x hx
    have h1 : ¬ (lo ≤ ρ' x ∧ ρ' x < lo + m) := he'.avoid x hx
    have h2 := he'.below x hx
    have h3 : ¬ ((topConsumer f args sched v2).1.next ≤ ρ' x ∧
        ρ' x < (topConsumer f args sched v2).1.next + I.alloc ((topConsumer f args sched v2).1.acc.headD []).length) :=
      fun hc => absurd h2 (Nat.not_lt.mpr hc.1)
    simp only [h1, h3, or_self, if_false]
  · intro y hy
    have h1 : ¬ (lo ≤ y ∧ y < lo + m) := by
      intro hc
      have := he'.fbelow y hc
      omega
    have h3 : ¬ ((topConsumer f args sched v2).1.next ≤ y ∧
        y < (topConsumer f args sched v2).1.next + I.alloc ((topConsumer f args sched v2).1.acc.headD []).length) := by
      intro hc; omega
    simp only [h1, h3, or_self, if_false]
    exact he'.fresh2 y (by omega)

end

/-- The two start worlds of the statement are related by the identity renaming; the others' block is
    the set of foreign cells the renaming must avoid. -/
theorem start_ilEnv (e : Engine) (hwf : e.WF) (m : Nat) (b0 : Nat → Option Term) :
    IlEnv (fun y => e.w.next ≤ y ∧ y < e.w.next + m) (fun x => x) 0
      { e.w with acc := [] :: e.w.acc, cyc := false }
      { e.w with acc := [] :: e.w.acc, cyc := false, next := e.w.next + m,
                 b := fun x => if e.w.next ≤ x ∧ x < e.w.next + m then b0 x else e.w.b x } where
  inj x y _ _ e := e
  below x hx := by show x < e.w.next + m; exact Nat.lt_of_lt_of_le hx (Nat.le_add_right _ _)
  avoid x hx := fun hc => absurd hx (Nat.not_lt.mpr hc.1)
  fbelow y hy := hy.2
  inScope x u hx := hwf.inScope x u hx
  fresh2 y hy := by
    have hy' : e.w.next + m ≤ y := hy
    have h1 : ¬ (e.w.next ≤ y ∧ y < e.w.next + m) := fun hc => absurd hc.2 (Nat.not_lt.mpr hy')
    show (if e.w.next ≤ y ∧ y < e.w.next + m then b0 y else e.w.b y) = none
    rw [if_neg h1]
    cases hb : e.w.b y with
    | none => rfl
    | some u => have := (hwf.inScope y u hb).1; omega
  binds x hx := by
    have hx' : x < e.w.next := hx
    have h1 : ¬ (e.w.next ≤ x ∧ x < e.w.next + m) := fun hc => absurd hx' (Nat.not_lt.mpr hc.1)
    show (if e.w.next ≤ x ∧ x < e.w.next + m then b0 x else e.w.b x) = (e.w.b x).map (Term.rename fun x => x)
    rw [if_neg h1]
    cases hb : e.w.b x with
    | none => rfl
    | some u => simp only [Option.map]; rw [rename_self u (fun _ _ => rfl)]
  db := rfl
  stamp := rfl
  cyc := rfl
  closed := hwf.closed
  acc := (rfl : ([] :: e.w.acc) = ([] :: e.w.acc))

/-- **Interleaved queries do not interfere.** Start from any well-formed engine state; let the other
    generators own `m` cells `[lo, lo+m)` beyond the allocated ones, with arbitrary contents `b0`. Run the
    query alone, and run it with the others moving after every answer. Same answers (same order,
    multiplicity), same ending, same fact store; and the cells that existed before are bound afterwards
    as they were. Holds for every limit `f` (also when the limit cuts the search), every consumer
    schedule, every mix of compiled / reference definitions, every interference. -/
theorem interleaved_query_answers (e : Engine) (hwf : e.WF) (mode : Mode) (f : Nat) (name : String) (args : List Term)
    (hargs : ArgsScoped e args) (sched : Sched) (m : Nat) (b0 : Nat → Option Term) (I : Interference) :
    let cfg : Cfg := { blacklist := e.blacklist, defs := e.defs, mode := mode }
    let lo := e.w.next
    let w1 : World := { e.w with acc := [] :: e.w.acc, cyc := false }
    let w2 : World := { w1 with next := lo + m, b := fun x => if lo ≤ x ∧ x < lo + m then b0 x else e.w.b x }
    let r1 := query cfg f name args (topConsumer f args sched) w1
    let r2 := query cfg f name args (interleavedConsumer f args sched lo m I) w2
    r2.2 = r1.2 ∧ r2.1.acc = r1.1.acc ∧ r2.1.db = r1.1.db ∧ r2.1.stamp = r1.1.stamp ∧ r2.1.cyc = r1.1.cyc ∧
      (∀ x, x < lo → r2.1.b x = e.w.b x) := by
  intro cfg lo w1 w2 r1 r2
  have ha : OwnL lo args := hargs
  have hid : args.map (Term.rename fun x => x) = args := by
    conv => rhs; rw [← List.map_id args]
    apply List.map_congr_left
    intro t _
    exact rename_self t (fun _ _ => rfl)
  have hres := query_env cfg hwf.rows (fun y => lo ≤ y ∧ y < lo + m) f name args 0 (fun x => x) w1 w2
    (topConsumer f args sched) (interleavedConsumer f args sched lo m I) (start_ilEnv e hwf m b0) ha
    (interleavedConsumer_il f args sched lo m I (fun x => x) (fun _ _ => rfl) ha)
  rw [hid] at hres
  obtain ⟨esig, ρ', hag, hn, he⟩ := hres
  refine ⟨esig, (show r1.1.acc = r2.1.acc from he.acc).symm, he.db, he.stamp, he.cyc, ?_⟩
  intro x hx
  have hb1 : r1.1.b = e.w.b := query_restoring cfg f name args _ (topConsumer_disciplined f args sched) w1
  have := he.binds x (Nat.lt_of_lt_of_le hx hn)
  rw [hag x hx, hb1] at this
  show r2.1.b x = e.w.b x
  rw [this]
  cases hb : e.w.b x with
  | none => rfl
  | some u =>
    simp only [Option.map]
    rw [rename_self u (fun y hy => hag y ((hwf.inScope x u hb).2 y hy))]


/-! ### Non-vacuity: a concrete engine and a concrete interference to which the theorem applies -/

/-- the default engine with the program `p(a). p(b). q(X,L) :- p(X), findall(Y, p(Y), L).` loaded -/
def ilDemoEngine : Engine :=
  ({} : Engine).load .compiled
    [⟨"p", ⟨[.atom "a"], .tru⟩⟩, ⟨"p", ⟨[.atom "b"], .tru⟩⟩,
     ⟨"q", ⟨[.var "X", .var "L"], .conj (.call "p" [.var "X"]) (.call "findall" [.var "Y", .fn "p" [.var "Y"], .var "L"])⟩⟩] true

theorem ilDemoEngine_wf : ilDemoEngine.WF := wf_load _ Engine.WF.default _ _ _

/-- after the `i`-th answer the others allocate `i + 1` cells and bind every cell of theirs to a
    structure that mentions a neighbouring cell -/
def ilDemoI : Interference :=
  { alloc := fun i => i + 1, rebind := fun i _ x => some (.fn "other" [.var (x + 1), .int i]) }

theorem ilDemo_args : ArgsScoped ilDemoEngine [.var 0, .var 1] := by
  intro t ht x hx
  have hn : ilDemoEngine.w.next = 1000 := rfl
  rw [hn]
  simp only [List.mem_cons, List.not_mem_nil, or_false] at ht
  rcases ht with rfl | rfl <;> simp [Term.vars] at hx <;> omega

example :=
  interleaved_query_answers ilDemoEngine ilDemoEngine_wf .compiled 50 "q" [.var 0, .var 1] ilDemo_args .all 3
    (fun x => some (.var (x + 7))) ilDemoI

#print axioms Yld.query_env
#print axioms Yld.interleaved_query_answers

end Yld
