/-
  Lemmas about the context keys `<name>_<arity>` and `<name>_n` (engine.py: register_function,
  YP.query; yp_generator.py: generate_function).
-/
import Yld.Model.Api
import Std.Data.String.ToNat
namespace Yld

/-- Splitting at the last occurrence of `a`. -/
theorem split_last {α : Type} (a : α) :
    ∀ (r1 r2 x y : List α), a ∉ r1 → a ∉ r2 → r1 ++ a :: x = r2 ++ a :: y → r1 = r2 ∧ x = y := by
  intro r1
  induction r1 with
  | nil =>
    intro r2 x y _ h2 h
    cases r2 with
    | nil => simpa using h
    | cons b bs =>
      simp only [List.nil_append, List.cons_append, List.cons.injEq] at h
      exact absurd (h.1 ▸ List.mem_cons_self) h2
  | cons c cs ih =>
    intro r2 x y h1 h2 h
    cases r2 with
    | nil =>
      simp only [List.nil_append, List.cons_append, List.cons.injEq] at h
      exact absurd (h.1 ▸ List.mem_cons_self) h1
    | cons b bs =>
      simp only [List.cons_append, List.cons.injEq] at h
      have := ih bs x y (fun m => h1 (List.mem_cons_of_mem _ m)) (fun m => h2 (List.mem_cons_of_mem _ m)) h.2
      exact ⟨by rw [h.1, this.1], this.2⟩

/-- The same, splitting at the last occurrence from the right-hand end. -/
theorem split_last_right {α : Type} (a : α) (l1 l2 r1 r2 : List α) (h1 : a ∉ r1) (h2 : a ∉ r2)
    (h : l1 ++ a :: r1 = l2 ++ a :: r2) : l1 = l2 ∧ r1 = r2 := by
  have h' := congrArg List.reverse h
  simp only [List.reverse_append, List.reverse_cons, List.append_assoc, List.singleton_append] at h'
  have := split_last a r1.reverse r2.reverse l1.reverse l2.reverse (by simpa using h1) (by simpa using h2) h'
  exact ⟨List.reverse_inj.mp this.2, List.reverse_inj.mp this.1⟩

theorem predKey_toList (name : String) (n : Nat) :
    (predKey name n).toList = name.toList ++ '_' :: Nat.toDigits 10 n := by
  simp [predKey, String.toList_append]

theorem variadicKey_toList (name : String) :
    (variadicKey name).toList = name.toList ++ '_' :: ['n'] := by
  simp [variadicKey, String.toList_append]

/-- `(name, n) ↦ name_n` is injective: a call never resolves to a definition of another
    name or another arity. -/
theorem predKey_injective (n1 n2 : String) (a1 a2 : Nat) (h : predKey n1 a1 = predKey n2 a2) :
    n1 = n2 ∧ a1 = a2 := by
  have h' := congrArg String.toList h
  rw [predKey_toList, predKey_toList] at h'
  have := split_last_right '_' _ _ _ _ Nat.underscore_not_in_toDigits Nat.underscore_not_in_toDigits h'
  refine ⟨String.toList_inj.mp this.1, ?_⟩
  apply Nat.repr_injective
  apply String.toList_inj.mp
  simpa using this.2

/-- A fixed-arity key is never a variadic key. -/
theorem predKey_ne_variadicKey (n1 n2 : String) (a : Nat) : predKey n1 a ≠ variadicKey n2 := by
  intro h
  have h' := congrArg String.toList h
  rw [predKey_toList, variadicKey_toList] at h'
  have := split_last_right '_' _ _ _ _ Nat.underscore_not_in_toDigits (by decide) h'
  have hd : 'n' ∈ Nat.toDigits 10 a := by rw [this.2]; exact List.mem_singleton.mpr rfl
  have := Nat.isDigit_of_mem_toDigits (by decide) (by decide) hd
  exact absurd this (by decide)

/-- The suffix after the last `_` of a key: digits or `n`. -/
def keyShape (cs : List Char) : Bool :=
  let suffix := (cs.reverse.takeWhile (· != '_')).reverse
  cs.contains '_' && (suffix == ['n'] || (!suffix.isEmpty && suffix.all Char.isDigit))

theorem takeWhile_rev_key (l r : List Char) (hr : '_' ∉ r) :
    ((l ++ '_' :: r).reverse.takeWhile (· != '_')).reverse = r := by
  simp only [List.reverse_append, List.reverse_cons, List.append_assoc, List.singleton_append]
  rw [List.takeWhile_append_of_pos]
  · simp
  · intro c hc
    have : c ∈ r := by simpa using hc
    simp only [bne_iff_ne, ne_eq]
    intro e; subst e; exact hr this

theorem keyShape_predKey (name : String) (n : Nat) : keyShape (predKey name n).toList = true := by
  rw [predKey_toList]
  unfold keyShape
  simp only [takeWhile_rev_key _ _ Nat.underscore_not_in_toDigits]
  have hne : (Nat.toDigits 10 n).isEmpty = false := by
    cases h : Nat.toDigits 10 n with
    | nil => exact absurd h Nat.toDigits_ne_nil
    | cons _ _ => rfl
  have hall : (Nat.toDigits 10 n).all Char.isDigit = true := by
    rw [List.all_eq_true]; intro c hc; exact Nat.isDigit_of_mem_toDigits (by decide) (by decide) hc
  simp [hne, hall]

theorem keyShape_variadicKey (name : String) : keyShape (variadicKey name).toList = true := by
  rw [variadicKey_toList]
  unfold keyShape
  simp only [takeWhile_rev_key _ ['n'] (by decide)]
  simp

/-! ### `eval_context` as an association list -/

theorem lookup_map_set (key : String) (v : List Def) (d : Defs) (h : d.any (·.1 == key) = true) :
    List.lookup key (d.map fun (k, x) => if k == key then (k, v) else (k, x)) = some v := by
  induction d with
  | nil => simp at h
  | cons p ps ih =>
    obtain ⟨k, x⟩ := p
    by_cases hk : k = key
    · subst hk
      simp
    · have h1 : (k == key) = false := by simpa using hk
      have h2 : (key == k) = false := by simpa using (fun e => hk e.symm)
      simp only [List.map_cons, h1, Bool.false_eq_true, if_false, List.lookup, h2]
      apply ih
      simpa [h1] using h

theorem lookup_map_other (key key' : String) (v : List Def) (d : Defs) (hne : key' ≠ key) :
    List.lookup key' (d.map fun (k, x) => if k == key then (k, v) else (k, x)) = List.lookup key' d := by
  induction d with
  | nil => rfl
  | cons p ps ih =>
    obtain ⟨k, x⟩ := p
    by_cases hk : k = key
    · subst hk
      have : (key' == k) = false := by simpa using hne
      simp only [List.map_cons, beq_self_eq_true, if_true, List.lookup_cons, this]
      exact ih
    · have h1 : (k == key) = false := by simpa using hk
      simp only [List.map_cons, h1, Bool.false_eq_true, if_false, List.lookup_cons]
      cases (key' == k)
      · exact ih
      · rfl

theorem lookup_append_new (key : String) (v : List Def) (d : Defs) (h : d.any (·.1 == key) = false) :
    List.lookup key (d ++ [(key, v)]) = some v := by
  induction d with
  | nil => simp
  | cons p ps ih =>
    obtain ⟨k, x⟩ := p
    simp only [List.any_cons, Bool.or_eq_false_iff] at h
    have h2 : (key == k) = false := by
      have : k ≠ key := by simpa using h.1
      simpa using (fun e => this e.symm)
    simp only [List.cons_append, List.lookup_cons, h2]
    exact ih h.2

theorem lookup_append_other (key key' : String) (v : List Def) (d : Defs) (hne : key' ≠ key) :
    List.lookup key' (d ++ [(key, v)]) = List.lookup key' d := by
  induction d with
  | nil =>
    have : (key' == key) = false := by simpa using hne
    simp [List.lookup, this]
  | cons p ps ih =>
    obtain ⟨k, x⟩ := p
    simp only [List.cons_append, List.lookup_cons]
    cases (key' == k)
    · exact ih
    · rfl

theorem get_set_same (d : Defs) (key : String) (v : List Def) : (d.set key v).get key = some v := by
  unfold Defs.set Defs.get
  split
  · rename_i h; exact lookup_map_set key v d h
  · rename_i h; exact lookup_append_new key v d (Bool.eq_false_iff.mpr h)

theorem get_set_other (d : Defs) (key key' : String) (v : List Def) (hne : key' ≠ key) :
    (d.set key v).get key' = d.get key' := by
  unfold Defs.set Defs.get
  split
  · exact lookup_map_other key key' v d hne
  · exact lookup_append_other key key' v d hne

end Yld
