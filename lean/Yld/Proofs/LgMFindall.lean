/-
  findall/3 and once/1 against the logical reading (C09), stage 2: the list comprehension of `findall`.

  `findallCollect f tmpl` plays the role `topConsumer` plays at the API (`LgFApi`, `LgFRecApi`): it binds
  nothing, leaves store and flag alone, allocates a block of cells and appends one element to the top
  list of `acc` — the copy `copyOf v n` of the resolved template `v` into the cells from `n := next` on.

  * every instance of the copy is an instance of `v` (`copyOf_subst`), and every instance of `v` is an
    instance of the copy (`copyOf_cover`): the copy is a renaming of `v`, injective on its variables;
  * soundness (`collected_sound`): the run equals the run with the consumer that collects only where the
    goal holds under every solution of the heap (`query_sound_all`); along that run, unless the world is
    flagged, every collected element is all right (`EOK`): at a collection in an unflagged world the
    heap is `Solvable`, so any instantiation of the unbound variables of `v` extends to a solution `θ`
    of the heap — of the starting heap too — with `tmpl[θ] = v[θ]` (`resolve_subst`);
  * completeness (`collected_complete`): `findallCollect` is a recording consumer for
    `P :=` "some collected element has `tmpl[θ]` as an instance" (`query_rec_all`).
-/
import Yld.Proofs.LgFApi
import Yld.Proofs.LgFRecApi
set_option linter.unusedSimpArgs false
set_option linter.unusedVariables false
namespace Yld
namespace Lg
namespace F

variable {D : CDb}

/-! ### the copy of a resolved term into fresh cells -/

/-- the variables of `v`, first occurrence order -/
def varList (v : Term) : List Nat := (([v].map Term.vars).flatten).eraseDups

/-- what `findallCollect` appends: `rename_variables([v])[0]`, in the cells from `n` on -/
def copyOf (v : Term) (n : Nat) : Term := ((canonVars [v]).1.headD v).rename (· + n)

theorem canonVars_single (v : Term) : (canonVars [v]).1 = [v.rename fun x => (varList v).idxOf x] := rfl

/-- an instance of the copy is an instance of the resolved term -/
theorem copyOf_subst (v : Term) (n : Nat) (ρ : Val) :
    (copyOf v n).subst ρ = v.subst (fun x => ρ ((varList v).idxOf x + n)) := by
  unfold copyOf
  rw [canonVars_single, List.headD_cons, subst_rename, subst_rename]

/-- every instance of the resolved term is an instance of the copy -/
theorem copyOf_cover (v : Term) (n : Nat) (θ : Val) : ∃ ρ : Val, (copyOf v n).subst ρ = v.subst θ := by
  refine ⟨fun i => θ ((varList v).getD (i - n) 0), ?_⟩
  rw [copyOf_subst]
  apply subst_congr
  intro x hx
  have hm : x ∈ varList v := by
    unfold varList
    exact List.mem_eraseDups.mpr (List.mem_flatten.mpr ⟨v.vars, List.mem_map.mpr ⟨v, List.mem_singleton.mpr rfl, rfl⟩, hx⟩)
  have hlt := List.idxOf_lt_length_of_mem hm
  show θ ((varList v).getD ((varList v).idxOf x + n - n) 0) = θ x
  rw [Nat.add_sub_cancel, List.getD_eq_getElem?_getD, List.getElem?_eq_getElem hlt]
  simp

/-! ### what `findallCollect` does -/

theorem findallCollect_none {f : Nat} {tmpl : Term} {w : World} (h : resolve w.b f tmpl = none) :
    findallCollect f tmpl w = (w, some .oof) := by
  unfold findallCollect
  rw [h]

theorem findallCollect_some {f : Nat} {tmpl : Term} {w : World} {v : Term} (h : resolve w.b f tmpl = some v) :
    (findallCollect f tmpl w).2 = none ∧ (findallCollect f tmpl w).1.cyc = w.cyc ∧
    (findallCollect f tmpl w).1.acc.headD [] = w.acc.headD [] ++ [copyOf v w.next] := by
  unfold findallCollect
  rw [h]
  cases hacc : w.acc with
  | nil => exact ⟨rfl, rfl, by simp only [hacc]; rfl⟩
  | cons top rest => exact ⟨rfl, rfl, by simp only [hacc]; rfl⟩

theorem findallCollect_db (f : Nat) (tmpl : Term) (w : World) : (findallCollect f tmpl w).1.db = w.db := by
  unfold findallCollect
  split <;> rfl

theorem findallCollect_next (f : Nat) (tmpl : Term) (w : World) : w.next ≤ (findallCollect f tmpl w).1.next := by
  unfold findallCollect
  split
  · exact Nat.le_add_right _ _
  · exact Nat.le_refl _

theorem findallCollect_qk (cm : Prop) (f : Nat) (tmpl : Term) : QK cm (findallCollect f tmpl) :=
  ⟨findallCollect_disciplined f tmpl, findallCollect_db f tmpl, findallCollect_next f tmpl,
   fun _ => findallCollect_cycMono f tmpl⟩

/-- the top list only grows -/
theorem findallCollect_subset (f : Nat) (tmpl : Term) (w : World) :
    ∀ e ∈ w.acc.headD [], e ∈ (findallCollect f tmpl w).1.acc.headD [] := by
  intro e he
  cases h : resolve w.b f tmpl with
  | none => rw [findallCollect_none h]; exact he
  | some v => rw [(findallCollect_some h).2.2]; exact List.mem_append_left _ he

theorem findallCollect_cyc (f : Nat) (tmpl : Term) (w : World) : (findallCollect f tmpl w).1.cyc = w.cyc := by
  cases h : resolve w.b f tmpl with
  | none => rw [findallCollect_none h]
  | some v => exact (findallCollect_some h).2.1

/-! ### soundness -/

/-- unless the world is flagged, the elements collected so far have the property `E` -/
def AccAll (E : Term → Prop) (w : World) : Prop := w.cyc = false → ∀ e ∈ w.acc.headD [], E e

theorem stepRel_accAll (E : Term → Prop) : StepRel (fun w w' => AccAll E w → AccAll E w') := by
  refine ⟨fun _ h => h, fun h1 h2 h => h2 (h1 h), ?_⟩
  intro w w' hf h hc e he
  rw [hf.acc] at he
  refine h ?_ e he
  cases hw : w.cyc with
  | false => rfl
  | true => rw [hf.cyc hw] at hc; cases hc

/-- every instance of the element is an instance of the template, under a solution of the heap `b` for
    which the goal holds -/
def EOK (H : String → List Term → Prop) (name : String) (args : List Term) (tmpl : Term) (b : Bind) (e : Term) : Prop :=
  ∀ ρ : Val, ∃ θ, Solves θ b ∧ e.subst ρ = tmpl.subst θ ∧ H name (args.map (Term.subst θ))

/-- at a collection in a world with a solvable heap where the goal holds under every solution, the
    collected element is all right -/
theorem copy_ok {H : String → List Term → Prop} {name : String} {args : List Term} {tmpl : Term} {w0 w : World}
    (hs : Solvable w.b) (hext : Ext w0 w) (hgh : GH H name args w) {f : Nat} {v : Term}
    (hr : resolve w.b f tmpl = some v) : EOK H name args tmpl w0.b (copyOf v w.next) := by
  intro ρ
  obtain ⟨θ, hθ, hroot⟩ := hs (fun x => ρ ((varList v).idxOf x + w.next))
  refine ⟨θ, hext θ hθ, ?_, hgh θ hθ⟩
  rw [copyOf_subst, resolve_subst hθ f tmpl v hr]
  exact (subst_congr v (fun x hx => hroot x (resolve_vars_unbound w.b f tmpl v hr x hx))).symm

section sound
variable {U : String → Bool} {cfg : Cfg} {preds : List Pred} (hc : HC U cfg preds)

open Classical in
include hc in
/-- **Soundness of the collected list, for an abstract meaning of goals.** -/
theorem collected_sound {H : String → List Term → Prop} (sem : Sem D preds H) (f f' : Nat) {name : String}
    (hU : U name = true) (args : List Term) (tmpl : Term) (w0 : World) (hg : Good D True w0)
    (ha : OwnL w0.next args) (hacc : w0.acc.headD [] = [])
    (hcyc : (query cfg f name args (findallCollect f' tmpl) w0).1.cyc = false) :
    ∀ e ∈ (query cfg f name args (findallCollect f' tmpl) w0).1.acc.headD [], EOK H name args tmpl w0.b e := by
  let Φ : World → Prop := fun w' => Step D True w0 w' ∧ GH H name args w'
  let k2 : K := fun w' => if Φ w' then findallCollect f' tmpl w' else (w', none)
  have hk2 : QK True k2 := QK.ite (findallCollect_qk True f' tmpl) (idle_qk True) Φ
  have e : query cfg f name args (findallCollect f' tmpl) w0 = query cfg f name args k2 w0 :=
    query_sound_all hc sem True f name hU args w0 hg ha _ _ (findallCollect_qk True f' tmpl) hk2
      (fun w' h => (if_pos (c := Φ w') h).symm)
  rw [e] at hcyc ⊢
  have hrel : KRelP (fun w w' => AccAll (EOK H name args tmpl w0.b) w → AccAll (EOK H name args tmpl w0.b) w') k2 := by
    intro w hinv
    by_cases hΦ : Φ w
    · simp only [k2, if_pos hΦ]
      intro hc' el hel
      rw [findallCollect_cyc] at hc'
      cases hr : resolve w.b f' tmpl with
      | none => rw [findallCollect_none hr] at hel; exact hinv hc' el hel
      | some v =>
        rw [(findallCollect_some hr).2.2] at hel
        rcases List.mem_append.mp hel with h | h
        · exact hinv hc' el h
        · rw [List.mem_singleton.mp h]
          exact copy_ok (hΦ.1.good.solv trivial hc') hΦ.1.ext hΦ.2 hr
    · simp only [k2, if_neg hΦ]; exact hinv
  have := query_relp (stepRel_accAll (EOK H name args tmpl w0.b)) hc f name hU args k2 hrel w0
    (fun _ el hel => by rw [hacc] at hel; cases hel)
  exact this hcyc

end sound

/-! ### completeness -/

/-- some collected element has the instance `inst` -/
def CoveredT (inst : Term) (w : World) : Prop := ∃ e ∈ w.acc.headD [], ∃ ρ : Val, e.subst ρ = inst

theorem coveredT_accOnly (inst : Term) : AccOnly (CoveredT inst) := by
  intro w w' h hp
  unfold CoveredT at hp ⊢
  rw [h]; exact hp

theorem findallCollect_keeps (f : Nat) (tmpl : Term) (inst : Term) :
    KRelP (KeepRel (CoveredT inst)) (findallCollect f tmpl) := by
  intro w ⟨e, he, h⟩
  exact ⟨e, findallCollect_subset f tmpl w e he, h⟩

/-- what the comprehension collects where the instance `θ` of the goal is reached -/
theorem findallCollect_covers (f : Nat) (tmpl : Term) (θ θ' : Val) (n : Nat) (ht : Own n tmpl)
    (hag : ∀ x, x < n → θ' x = θ x) (w : World) (hs : Solves θ' w.b) :
    Done (CoveredT (tmpl.subst θ)) (findallCollect f tmpl w) := by
  cases hr : resolve w.b f tmpl with
  | none => rw [findallCollect_none hr]; exact Done.of_sig _ _
  | some v =>
    obtain ⟨ρ, hρ⟩ := copyOf_cover v w.next θ'
    refine Or.inr ⟨copyOf v w.next, ?_, ρ, ?_⟩
    · rw [(findallCollect_some hr).2.2]; exact List.mem_append_right _ (List.mem_singleton.mpr rfl)
    · rw [hρ, ← resolve_subst hs f tmpl v hr]
      exact subst_congr tmpl (fun x hx => hag x (ht x hx))

theorem findallCollect_recs (f : Nat) (tmpl : Term) (θ : Val) (n : Nat) (ht : Own n tmpl) :
    Recs D (CoveredT (tmpl.subst θ)) θ n (findallCollect f tmpl) :=
  ⟨findallCollect_qk False f tmpl, findallCollect_keeps f tmpl _,
   fun w' _ _ ⟨θ', hag, hs⟩ => findallCollect_covers f tmpl θ θ' n ht hag w' hs⟩

/-- **Completeness of the collected list, for the ranked meaning of goals**: an enumeration that ends
    normally has collected an element of which `tmpl[θ]` is an instance. -/
theorem collected_complete {U : String → Bool} {cfg : Cfg} {preds : List Pred} (hc : HC U cfg preds)
    (hnc : ∀ p ∈ preds, ∀ c ∈ p.clauses, nocut c.body = true) (f f' : Nat) {name : String} (hU : U name = true)
    (args : List Term) (tmpl : Term) (w0 : World) (hg : Good D False w0) (ha : OwnL w0.next args)
    (ht : Own w0.next tmpl) (θ : Val) (hθ : Solves θ w0.b)
    (r : Nat) (hr : HN D preds r name (args.map (Term.subst θ)))
    (hend : (query cfg f name args (findallCollect f' tmpl) w0).2 = none) :
    CoveredT (tmpl.subst θ) (query cfg f name args (findallCollect f' tmpl) w0).1 := by
  rcases query_rec_all hc hnc (coveredT_accOnly _) r f name hU args w0 θ _ hg ha hθ hr
    (findallCollect_recs f' tmpl θ w0.next ht) with h | h
  · exact absurd hend h
  · exact h

end F
end Lg
end Yld
