/-
  The well-formedness of the engine state (`Engine.WF`, the hypothesis of the activation theorem)
  is an invariant of the API: it holds of the constructed engine and is preserved by every
  operation — loading, registering (closed rows), clearing, `assert_fact` and queries
  (any mode of the definitions, any schedule, any fuel) over allocated variables.
-/
import Yld.Proofs.Activation
import Yld.Proofs.Restore2
import Yld.Proofs.Grow
set_option linter.unusedVariables false   -- `hargs` of `wf_query` is not needed by the proof
namespace Yld

/-! ### the definition table -/

theorem defsRowsClosed_set {d : Defs} (h : DefsRowsClosed d) (key : String) {v : List Def}
    (hv : ∀ x ∈ v, DefRowsClosed x) : DefsRowsClosed (d.set key v) := by
  unfold Defs.set
  split
  · intro kd hkd x hx
    obtain ⟨kd0, hm, e⟩ := List.mem_map.mp hkd
    obtain ⟨k0, v0⟩ := kd0
    simp only at e
    by_cases hk : (k0 == key) = true
    · rw [if_pos hk] at e; subst e; exact hv x hx
    · rw [if_neg hk] at e; subst e; exact h _ hm x hx
  · intro kd hkd x hx
    rcases List.mem_append.mp hkd with hm | hm
    · exact h kd hm x hx
    · simp at hm; subst hm; exact hv x hx

theorem defsRowsClosed_get {d : Defs} (h : DefsRowsClosed d) (key : String) :
    ∀ x ∈ (d.get key).getD [], DefRowsClosed x := by
  intro x hx
  unfold Defs.get at hx
  cases hl : d.lookup key with
  | none => rw [hl] at hx; simp at hx
  | some v =>
    rw [hl] at hx
    obtain ⟨kv, hm, e⟩ := lookup_mem _ _ _ hl
    exact h kv hm x (by rw [e]; simpa using hx)

theorem defsRowsClosed_builtin : DefsRowsClosed builtinDefs := by
  intro kd hkd d hd
  obtain ⟨x, _, rfl⟩ := List.mem_map.mp hkd
  simp only [List.mem_singleton] at hd
  subst hd
  trivial

theorem defsRowsClosed_load (m : Mode) (ow : Bool) : ∀ (preds : List Pred) (d : Defs), DefsRowsClosed d →
    DefsRowsClosed (preds.foldl (fun d p =>
      let key := predKey p.name p.arity
      let old := (d.get key).getD []
      d.set key (if ow then [.prolog p m] else old ++ [.prolog p m])) d) := by
  intro preds
  induction preds with
  | nil => intro d h; exact h
  | cons p ps ih =>
    intro d h
    simp only [List.foldl_cons]
    apply ih
    apply defsRowsClosed_set h
    intro x hx
    split at hx
    · simp only [List.mem_singleton] at hx; subst hx; trivial
    · rcases List.mem_append.mp hx with hm | hm
      · exact defsRowsClosed_get h _ x hm
      · simp only [List.mem_singleton] at hm; subst hm; trivial

/-! ### queries -/

/-- through the API: a query does not decrease the allocation counter and keeps the store closed -/
theorem engine_query_grows (e : Engine) (m : Mode) (fuel : Nat) (name : String) (args : List Term) (sched : Sched) :
    WGe e.w (e.query m fuel name args sched).1.w := by
  unfold Engine.query
  simp only
  have key : WGe e.w
      (Yld.query { blacklist := e.blacklist, defs := e.defs, mode := m } fuel name args (topConsumer fuel args sched)
        { e.w with acc := [] :: e.w.acc, cyc := false }).1 :=
    (WGe.of_eq (b := { e.w with acc := [] :: e.w.acc, cyc := false }) rfl rfl).trans
      (query_grow _ fuel name args _ (topConsumer_grow fuel args sched) _)
  cases sched with
  | all => exact key
  | stop k =>
    cases k with
    | zero => exact WGe.refl _
    | succ k => exact key
  | raise k =>
    cases k with
    | zero => exact WGe.refl _
    | succ k => exact key

theorem engine_query_defs (e : Engine) (m : Mode) (fuel : Nat) (name : String) (args : List Term) (sched : Sched) :
    (e.query m fuel name args sched).1.defs = e.defs := rfl

/-! ### the invariant -/

theorem wf_load (e : Engine) (h : e.WF) (m : Mode) (cs : List SClause) (ow : Bool) : (e.load m cs ow).WF :=
  ⟨h.inScope, h.solvable, h.closed, defsRowsClosed_load m ow _ _ h.rows⟩

theorem wf_register (e : Engine) (h : e.WF) (name : String) (arity : Option Nat) (p : PyPred)
    (hp : ∀ c ∈ p.rows, FactClosed c) : (e.register name arity p).WF :=
  ⟨h.inScope, h.solvable, h.closed, defsRowsClosed_set h.rows _ (fun x hx => by
    simp only [List.mem_singleton] at hx; subst hx; exact hp)⟩

theorem wf_clear (e : Engine) (h : e.WF) : e.clear.WF :=
  ⟨h.inScope, h.solvable, fun kv hkv => (by cases hkv), defsRowsClosed_builtin⟩

theorem wf_assertFact (e : Engine) (h : e.WF) (fuel : Nat) (name : String) (args : List Term) (app : Bool) :
    (e.assertFact fuel name args app).1.WF := by
  have hb : (e.assertFact fuel name args app).1.w.b = e.w.b := assertFact_b fuel name args app e.w
  have hg : WGe e.w (e.assertFact fuel name args app).1.w := assertFact_wge fuel name args app e.w
  refine ⟨?_, ?_, hg.2 h.closed, h.rows⟩
  · intro x u hx
    rw [hb] at hx
    obtain ⟨h1, h2⟩ := h.inScope x u hx
    exact ⟨Nat.lt_of_lt_of_le h1 hg.1, fun y hy => Nat.lt_of_lt_of_le (h2 y hy) hg.1⟩
  · rw [hb]; exact h.solvable

/-- a query, however it ends (exhausted, stopped after k answers, consumer raises, cut off by the
    fuel), leaves a well-formed engine -/
theorem wf_query (e : Engine) (h : e.WF) (mode : Mode) (fuel : Nat) (name : String) (args : List Term)
    (hargs : ArgsScoped e args) (sched : Sched) : (e.query mode fuel name args sched).1.WF := by
  have hb := engine_query_restores e mode fuel name args sched
  have hg := engine_query_grows e mode fuel name args sched
  refine ⟨?_, ?_, hg.2 h.closed, ?_⟩
  · intro x u hx
    rw [hb] at hx
    obtain ⟨h1, h2⟩ := h.inScope x u hx
    exact ⟨Nat.lt_of_lt_of_le h1 hg.1, fun y hy => Nat.lt_of_lt_of_le (h2 y hy) hg.1⟩
  · rw [hb]; exact h.solvable
  · rw [engine_query_defs]; exact h.rows

end Yld
