/-
  Theorem A: the code `compile_body` produces has the reference semantics.

  `exec (comp b ks n) k w` and `solve … (b, ks…) k w` end in the same world and with related
  outcomes, where "related" identifies the `break` to the block labelled l with the commit of the
  if-then-else at the nesting level that block stands for.
-/
import Yld.Model.Engine
namespace Yld

def OptRel (ρ : Sig → Sig → Prop) : Option Sig → Option Sig → Prop
  | none, none => True
  | some a, some b => ρ a b
  | _, _ => False

def RelR (ρ : Sig → Sig → Prop) (r1 r2 : R) : Prop := r1.1 = r2.1 ∧ OptRel ρ r1.2 r2.2

/-- IR signals vs reference signals: `brk l ~ commit d` for the pairs in Γ, identity elsewhere. -/
inductive SigRel (Γ : List (Nat × Nat)) : Sig → Sig → Prop
  | ret : SigRel Γ .ret .ret
  | up (s : Sig) : SigRel Γ (.up s) (.up s)
  | stop : SigRel Γ .stop .stop
  | oof : SigRel Γ .oof .oof
  | exn (e : String) : SigRel Γ (.exn e) (.exn e)
  | lab (l d : Nat) : (l, d) ∈ Γ → SigRel Γ (.brk l) (.commit d)

/-- A predicate-call semantics that treats its consumer's reasons as opaque tokens: related
    consumers give related runs, for every relation that relates the faults a call can raise itself
    to themselves. -/
def FaultRefl (ρ : Sig → Sig → Prop) : Prop := ρ .oof .oof ∧ (∀ e, ρ (.exn e) (.exn e)) ∧ ρ .stop .stop

def Parametric (q : Q) : Prop :=
  ∀ ρ, FaultRefl ρ → ∀ name args (K1 K2 : K), (∀ w, RelR ρ (K1 w) (K2 w)) →
    ∀ w, RelR ρ (q name args K1 w) (q name args K2 w)

/-- The consumer of a function body: its reasons belong to the caller's frame. -/
def External (k : K) : Prop := ∀ w, (k w).2 = none ∨ ∃ s, (k w).2 = some (.up s)

/-- Bodies as they come from source text: no `$CUTIF` marker inside. -/
def Src : Body → Prop
  | .cutif _ => False
  | .conj a b | .disj a b | .ite a b => Src a ∧ Src b
  | .neg a => Src a
  | _ => True

/-- Reference semantics of a pending-goals stack: `cutif` commits the if-then-else one level up. -/
def solveS (q : Q) (env : Env) : Nat → List Body → K → World → R
  | _, [], k, w => k w
  | d, .cutif _ :: rest, k, w =>
      match solveS q env (d-1) rest k w with
      | (w', none) => (w', some (.commit (d-1)))
      | r => r
  | d, b :: rest, k, w => solve q env d b (fun w' => solveS q env d rest k w') w

/-- (label, level) of every marker in the stack. -/
def pairs : List Body → Nat → List (Nat × Nat)
  | [], _ => []
  | .cutif l :: rest, d => (l, d-1) :: pairs rest (d-1)
  | _ :: rest, d => pairs rest d

def StackOK : List Body → Nat → Nat → Prop
  | [], _, _ => True
  | .cutif l :: rest, d, n => 0 < d ∧ l ≤ n ∧ (∀ p ∈ pairs rest (d-1), p.1 ≠ l) ∧ StackOK rest (d-1) n
  | b :: rest, d, n => Src b ∧ StackOK rest d n

theorem StackOK_mono (ks : List Body) (d n n' : Nat) (h : StackOK ks d n) (hn : n ≤ n') : StackOK ks d n' := by
  induction ks generalizing d with
  | nil => trivial
  | cons b rest ih =>
    cases b <;> simp only [StackOK] at h ⊢
    all_goals first
      | exact ⟨h.1, ih _ h.2⟩
      | exact ⟨h.1, Nat.le_trans h.2.1 hn, h.2.2.1, ih _ h.2.2.2⟩

theorem pairs_label_le (ks : List Body) (d n : Nat) (h : StackOK ks d n) : ∀ p ∈ pairs ks d, p.1 ≤ n := by
  induction ks generalizing d with
  | nil => intro p hp; cases hp
  | cons b rest ih =>
    cases b <;> simp only [StackOK] at h <;> simp only [pairs]
    all_goals first
      | exact ih _ h.2
      | (intro p hp
         cases hp with
         | head => exact h.2.1
         | tail _ hp' => exact ih _ h.2.2.2 p hp')

theorem pairs_level_lt (ks : List Body) (d n : Nat) (h : StackOK ks d n) : ∀ p ∈ pairs ks d, p.2 < d := by
  induction ks generalizing d with
  | nil => intro p hp; cases hp
  | cons b rest ih =>
    cases b <;> simp only [StackOK] at h <;> simp only [pairs]
    all_goals first
      | exact ih _ h.2
      | (intro p hp
         cases hp with
         | head => simp only; omega
         | tail _ hp' => have := ih _ h.2.2.2 p hp'; omega)


theorem SigRel.mono {Γ Γ' : List (Nat × Nat)} (h : ∀ p ∈ Γ, p ∈ Γ') {a b : Sig} (r : SigRel Γ a b) : SigRel Γ' a b := by
  cases r with
  | ret => exact .ret
  | up s => exact .up s
  | stop => exact .stop
  | oof => exact .oof
  | exn e => exact .exn e
  | lab l d hm => exact .lab l d (h _ hm)

theorem RelR.mono {Γ Γ' : List (Nat × Nat)} (h : ∀ p ∈ Γ, p ∈ Γ') {r1 r2 : R} (r : RelR (SigRel Γ) r1 r2) : RelR (SigRel Γ') r1 r2 := by
  obtain ⟨w1, o1⟩ := r1
  obtain ⟨w2, o2⟩ := r2
  refine ⟨r.1, ?_⟩
  have := r.2
  cases o1 <;> cases o2 <;> simp only [OptRel] at this ⊢
  exact SigRel.mono h this

theorem RelR.refl_ext (Γ : List (Nat × Nat)) (k : K) (hk : External k) (w : World) : RelR (SigRel Γ) (k w) (k w) := by
  refine ⟨rfl, ?_⟩
  rcases hk w with h | ⟨s, h⟩
  · rw [h]; trivial
  · rw [h]; exact .up s

theorem then_sig {ρ : Sig → Sig → Prop} {r1 r2 : R} (h : RelR ρ r1 r2) {s1 s2 : Sig} (hs : ρ s1 s2) :
    RelR ρ (thenSig s1 r1) (thenSig s2 r2) := by
  obtain ⟨w1, o1⟩ := r1
  obtain ⟨w2, o2⟩ := r2
  obtain ⟨hw, ho⟩ := h
  simp only at hw; subst hw
  cases o1 <;> cases o2 <;> simp only [OptRel] at ho
  · exact ⟨rfl, hs⟩
  · exact ⟨rfl, ho⟩

theorem seq_rel {ρ : Sig → Sig → Prop} {r1 r2 : R} (h : RelR ρ r1 r2) {f1 f2 : World → R} (hf : ∀ w, RelR ρ (f1 w) (f2 w)) :
    RelR ρ (andThenR f1 r1) (andThenR f2 r2) := by
  obtain ⟨w1, o1⟩ := r1
  obtain ⟨w2, o2⟩ := r2
  obtain ⟨hw, ho⟩ := h
  simp only at hw; subst hw
  cases o1 <;> cases o2 <;> simp only [OptRel] at ho
  · exact hf w1
  · exact ⟨rfl, ho⟩

/-- A run related under Γ never ends with a break to a label that Γ does not mention. -/
theorem not_brk_of_rel {Γ : List (Nat × Nat)} {r1 r2 : R} (h : RelR (SigRel Γ) r1 r2) (l : Nat) (hl : ∀ p ∈ Γ, p.1 ≠ l) :
    catchBrk l r1 = r1 := by
  obtain ⟨w1, o1⟩ := r1
  obtain ⟨w2, o2⟩ := r2
  obtain ⟨_, ho⟩ := h
  cases o1 with
  | none => rfl
  | some s1 =>
    cases o2 with
    | none => simp only [OptRel] at ho
    | some s2 =>
      simp only [OptRel] at ho
      cases ho with
      | lab l' d' hm =>
        have : l' ≠ l := hl _ hm
        simp [catchBrk, this]
      | ret => rfl
      | up s => rfl
      | stop => rfl
      | oof => rfl
      | exn e => rfl

/-- The breakable block of the compiled code against the if-then-else of the reference. -/
theorem block_ite {Γ : List (Nat × Nat)} {l d : Nat} (hl : ∀ p ∈ Γ, p.1 ≠ l) (hd : ∀ p ∈ Γ, p.2 ≠ d)
    {r1 r2 : R} (h : RelR (SigRel ((l, d) :: Γ)) r1 r2)
    {f1 f2 : World → R} (hf : ∀ w, RelR (SigRel Γ) (f1 w) (f2 w)) :
    RelR (SigRel Γ) (catchBrk l (andThenR f1 r1)) (iteR d f2 r2) := by
  obtain ⟨w1, o1⟩ := r1
  obtain ⟨w2, o2⟩ := r2
  obtain ⟨hw, ho⟩ := h
  simp only at hw; subst hw
  cases o1 with
  | none =>
    cases o2 with
    | some s2 => simp only [OptRel] at ho
    | none =>
      simp only [andThenR_none, iteR_none]
      rw [not_brk_of_rel (hf w1) l hl]
      exact hf w1
  | some s1 =>
    cases o2 with
    | none => simp only [OptRel] at ho
    | some s2 =>
      simp only [OptRel] at ho
      simp only [andThenR_some]
      cases ho with
      | lab l' d' hm =>
        cases hm with
        | head => simp; exact ⟨rfl, trivial⟩
        | tail _ hm' =>
          have h1 : l' ≠ l := hl _ hm'
          have h2 : d' ≠ d := hd _ hm'
          simp only [catchBrk_brk, iteR_commit, h1, h2, if_false]
          exact ⟨rfl, .lab l' d' hm'⟩
      | ret => exact ⟨rfl, .ret⟩
      | up s => exact ⟨rfl, .up s⟩
      | stop => exact ⟨rfl, .stop⟩
      | oof => exact ⟨rfl, .oof⟩
      | exn e => exact ⟨rfl, .exn e⟩


theorem execList_nil (q : Q) (env : Env) (k : K) (w : World) : execList q env [] k w = (w, none) := by
  rw [execList]

theorem execList_cons (q : Q) (env : Env) (c : Code) (cs : List Code) (k : K) (w : World) :
    execList q env (c :: cs) k w = andThenR (fun w' => execList q env cs k w') (exec q env c k w) := by
  rw [execList]

theorem execList_append' (q : Q) (env : Env) (c1 c2 : List Code) (k : K) (w : World) :
    execList q env (c1 ++ c2) k w = andThenR (fun w' => execList q env c2 k w') (execList q env c1 k w) := by
  induction c1 generalizing w with
  | nil => rw [List.nil_append, execList_nil, andThenR_none]
  | cons c cs ih =>
    rw [List.cons_append, execList_cons, execList_cons]
    cases h : exec q env c k w with
    | mk w' s =>
      cases s with
      | none => simp only [andThenR_none]; exact ih w'
      | some s => rfl

theorem execList_single (q : Q) (env : Env) (c : Code) (k : K) (w : World) :
    execList q env [c] k w = exec q env c k w := by
  rw [execList_cons]
  cases exec q env c k w with
  | mk w' s => cases s <;> simp [execList_nil]

theorem exec_yieldF (q : Q) (env : Env) (k : K) (w : World) : exec q env .yieldF k w = k w := by rw [exec]
theorem exec_yieldT (q : Q) (env : Env) (k : K) (w : World) : exec q env .yieldT k w = k w := by rw [exec]
theorem exec_ret (q : Q) (env : Env) (k : K) (w : World) : exec q env .ret k w = (w, some .ret) := by rw [exec]
theorem exec_brk (q : Q) (env : Env) (l : Nat) (k : K) (w : World) : exec q env (.brk l) k w = (w, some (.brk l)) := by rw [exec]
theorem exec_block (q : Q) (env : Env) (l : Nat) (body : List Code) (k : K) (w : World) :
    exec q env (.block l body) k w = catchBrk l (execList q env body k w) := by rw [exec]
theorem exec_foreach (q : Q) (env : Env) (name : String) (args : List STerm) (body : List Code) (k : K) (w : World) :
    exec q env (.foreach name args body) k w = q name (args.map (STerm.eval env)) (fun w' => execList q env body k w') w := by
  rw [exec]

/-- `code ++ [ret]` / `code ++ [brk l]`: run the code, then leave. -/
theorem execList_then_ret (q : Q) (env : Env) (c : List Code) (k : K) (w : World) :
    execList q env (c ++ [.ret]) k w = thenSig .ret (execList q env c k w) := by
  rw [execList_append']
  cases execList q env c k w with
  | mk w' s => cases s <;> simp [execList_single, exec_ret]
theorem execList_then_brk (q : Q) (env : Env) (c : List Code) (l : Nat) (k : K) (w : World) :
    execList q env (c ++ [.brk l]) k w = thenSig (.brk l) (execList q env c k w) := by
  rw [execList_append']
  cases execList q env c k w with
  | mk w' s => cases s <;> simp [execList_single, exec_brk]

theorem pairs_src (b : Body) (rest : List Body) (d : Nat) (h : Src b) : pairs (b :: rest) d = pairs rest d := by
  cases b <;> simp_all [pairs, Src]

theorem solveS_src (q : Q) (env : Env) (d : Nat) (b : Body) (rest : List Body) (k : K) (w : World) (h : Src b) :
    solveS q env d (b :: rest) k w = solve q env d b (fun w' => solveS q env d rest k w') w := by
  cases b <;> simp_all [solveS, Src]

theorem solveS_cond (q : Q) (env : Env) (d l : Nat) (c t : Body) (ks : List Body) (k : K) (w : World)
    (hc : Src c) (ht : Src t) :
    solveS q env (d+1) (c :: .cutif l :: t :: ks) k w =
      solve q env (d+1) c (fun w' => thenSig (.commit d) (solve q env d t (fun w'' => solveS q env d ks k w'') w')) w := by
  rw [solveS_src _ _ _ _ _ _ _ hc]
  congr 1
  funext w'
  have : solveS q env (d+1) (.cutif l :: t :: ks) k w' = thenSig (.commit d) (solveS q env d (t :: ks) k w') := by
    simp only [solveS, thenSig, Nat.add_sub_cancel]
    cases solveS q env d (t :: ks) k w' with | mk w'' s => cases s <;> rfl
  rw [this, solveS_src _ _ _ _ _ _ _ ht]

theorem pairs_cond (d l : Nat) (c t : Body) (ks : List Body) (hc : Src c) (ht : Src t) :
    pairs (c :: .cutif l :: t :: ks) (d+1) = (l, d) :: pairs ks d := by
  rw [pairs_src _ _ _ hc]
  simp only [pairs, Nat.add_sub_cancel]
  rw [pairs_src _ _ _ ht]

theorem StackOK_cond (d l n : Nat) (c t : Body) (ks : List Body) (hc : Src c) (ht : Src t)
    (hk : StackOK ks d n) (hl : n < l) : StackOK (c :: .cutif l :: t :: ks) (d+1) l := by
  have h1 : StackOK (.cutif l :: t :: ks) (d+1) l := by
    simp only [StackOK, Nat.add_sub_cancel]
    refine ⟨Nat.succ_pos _, Nat.le_refl _, ?_, ?_⟩
    · intro p hp
      rw [pairs_src _ _ _ ht] at hp
      have := pairs_label_le ks d n hk p hp
      omega
    · have : StackOK ks d l := StackOK_mono ks d n l hk (Nat.le_of_lt hl)
      cases t <;> simp_all [StackOK, Src]
  cases c with
  | cutif _ => exact absurd hc (by simp [Src])
  | tru | fail | cut | call _ _ | conj _ _ | disj _ _ | ite _ _ | neg _ => exact ⟨hc, h1⟩

theorem StackOK_push (d n : Nat) (b : Body) (ks : List Body) (hb : Src b) (hk : StackOK ks d n) : StackOK (b :: ks) d n := by
  cases b <;> simp_all [StackOK, Src]

theorem StackOK_top (d n : Nat) (b : Body) (ks : List Body) (hb : Src b) (h : StackOK (b :: ks) d n) : StackOK ks d n := by
  cases b <;> simp_all [StackOK, Src]

theorem StackOK_srcTop (d n : Nat) (b : Body) (ks : List Body) (h : StackOK (b :: ks) d n) (hb : ∀ l, b ≠ .cutif l) : Src b := by
  cases b <;> simp_all [StackOK, Src]

theorem comp_correct (q : Q) (hq : Parametric q) (env : Env) (b : Body) (ks : List Body) (n : Nat) :
    n ≤ (comp b ks n).2 ∧
    ∀ d, StackOK (b :: ks) d n → ∀ k, External k → ∀ w,
      RelR (SigRel (pairs (b :: ks) d)) (execList q env (comp b ks n).1 k w) (solveS q env d (b :: ks) k w) := by
  fun_induction comp b ks n
  case case1 n =>
    refine ⟨Nat.le_refl _, fun d _ k hk w => ?_⟩
    simp only [execList_single, exec_yieldF, solveS, solve]
    exact RelR.refl_ext _ k hk w
  case case2 n k0 ks ih =>
    refine ⟨ih.1, fun d hs k hk w => ?_⟩
    have hs' : StackOK (k0 :: ks) d n := by simpa [StackOK, Src] using hs
    have := ih.2 d hs' k hk w
    simpa [solveS, solve, pairs] using this
  case case3 ks n =>
    refine ⟨Nat.le_refl _, fun d _ k _ w => ?_⟩
    simp only [execList_nil, solveS, solve]
    exact ⟨rfl, trivial⟩
  case case4 n =>
    refine ⟨Nat.le_refl _, fun d _ k hk w => ?_⟩
    have e1 : execList q env [Code.yieldT, Code.ret] k w = thenSig .ret (k w) := by
      have := execList_then_ret q env [Code.yieldT] k w
      simpa [execList_single, exec_yieldT] using this
    simp only [e1, solveS, solve]
    exact then_sig (RelR.refl_ext _ k hk w) SigRel.ret
  case case5 n k0 ks c n' hx ih =>
    rw [hx] at ih
    refine ⟨ih.1, fun d hs k hk w => ?_⟩
    have hs' : StackOK (k0 :: ks) d n := by simpa [StackOK, Src] using hs
    have h0 := ih.2 d hs' k hk w
    simp only at h0 ⊢
    rw [execList_then_ret]
    simp only [solveS, solve, pairs]
    exact then_sig h0 SigRel.ret
  case case6 n l =>
    -- `$CUTIF(l)` with nothing after it (never produced by the compiler)
    refine ⟨Nat.le_refl _, fun d hs k hk w => ?_⟩
    have e1 : execList q env [Code.yieldF, Code.brk l] k w = thenSig (.brk l) (k w) := by
      have := execList_then_brk q env [Code.yieldF] l k w
      simpa [execList_single, exec_yieldF] using this
    have e2 : solveS q env d [Body.cutif l] k w = thenSig (.commit (d-1)) (k w) := by
      simp only [solveS, thenSig]
      cases k w with | mk w' s => cases s <;> rfl
    rw [e1, e2]
    refine then_sig (RelR.refl_ext _ k hk w) ?_
    exact .lab l (d-1) (by simp [pairs])
  case case7 n l k0 ks c n' hx ih =>
    rw [hx] at ih
    refine ⟨ih.1, fun d hs k hk w => ?_⟩
    simp only [StackOK] at hs
    have h0 := ih.2 (d-1) hs.2.2.2 k hk w
    simp only at h0 ⊢
    rw [execList_then_brk]
    have e2 : solveS q env d (Body.cutif l :: k0 :: ks) k w = thenSig (.commit (d-1)) (solveS q env (d-1) (k0 :: ks) k w) := by
      simp only [solveS, thenSig]
      cases solveS q env (d-1) (k0 :: ks) k w with | mk w' s => cases s <;> rfl
    rw [e2]
    have hsub : ∀ p ∈ pairs (k0 :: ks) (d-1), p ∈ pairs (Body.cutif l :: k0 :: ks) d := by
      intro p hp; simp only [pairs]; exact List.mem_cons_of_mem _ hp
    refine then_sig (RelR.mono hsub h0) ?_
    exact .lab l (d-1) (by simp [pairs])
  case case8 name args n =>
    refine ⟨Nat.le_refl _, fun d hs k hk w => ?_⟩
    simp only [execList_single, exec_foreach, solveS, solve, pairs, exec_yieldF]
    apply hq (SigRel []) ⟨.oof, fun e => .exn e, .stop⟩
    intro w'
    exact RelR.refl_ext _ k hk w'
  case case9 n name args k0 ks c n' hx ih =>
    rw [hx] at ih
    refine ⟨ih.1, fun d hs k hk w => ?_⟩
    have hs' : StackOK (k0 :: ks) d n := by simpa [StackOK, Src] using hs
    simp only [execList_single, exec_foreach, solveS, solve, pairs]
    apply hq (SigRel (pairs (k0 :: ks) d)) ⟨.oof, fun e => .exn e, .stop⟩
    intro w'
    exact ih.2 d hs' k hk w'
  case case10 n a b ks ih =>
    refine ⟨ih.1, fun d hs k hk w => ?_⟩
    have hab : Src (a.conj b) := StackOK_srcTop d n _ ks hs (by intro l h; cases h)
    have hks := StackOK_top d n _ ks hab hs
    have hs' : StackOK (a :: b :: ks) d n := StackOK_push d n a _ hab.1 (StackOK_push d n b _ hab.2 hks)
    have h0 := ih.2 d hs' k hk w
    rw [pairs_src _ _ _ hab.1, pairs_src _ _ _ hab.2] at h0
    rw [solveS_src _ _ _ _ _ _ _ hab.1] at h0
    have e : (fun w' => solveS q env d (b :: ks) k w') = (fun w' => solve q env d b (fun w'' => solveS q env d ks k w'') w') := by
      funext w'; exact solveS_src _ _ _ _ _ _ _ hab.2
    rw [e] at h0
    rw [pairs_src _ _ _ hab, solveS_src _ _ _ _ _ _ _ hab]
    simpa [solve] using h0
  case case11 n c t e ks l c1 n1 hx1 c2 n2 hx2 ih2 ih1 =>
    rw [hx1] at ih2
    rw [hx2] at ih1
    refine ⟨by have := ih2.1; have := ih1.1; simp only at *; omega, fun d hs k hk w => ?_⟩
    have hsrc : Src ((c.ite t).disj e) := StackOK_srcTop d n _ ks hs (by intro l h; cases h)
    have hks := StackOK_top d n _ ks hsrc hs
    obtain ⟨⟨hc, ht⟩, he⟩ := hsrc
    have hl : n < l := Nat.lt_succ_self n
    have h2 := ih2.2 (d+1) (StackOK_cond d l n c t ks hc ht hks hl) k hk w
    rw [pairs_cond d l c t ks hc ht, solveS_cond q env d l c t ks k w hc ht] at h2
    have hn1 : n ≤ n1 := by have := ih2.1; simp only at this; omega
    have h1 : ∀ w', RelR (SigRel (pairs ks d)) (execList q env c2 k w') (solve q env d e (fun w'' => solveS q env d ks k w'') w') := by
      intro w'
      have := ih1.2 d (StackOK_push d n1 e ks he (StackOK_mono ks d n n1 hks hn1)) k hk w'
      rw [pairs_src _ _ _ he, solveS_src _ _ _ _ _ _ _ he] at this
      exact this
    have hsrc' : Src ((c.ite t).disj e) := ⟨⟨hc, ht⟩, he⟩
    rw [pairs_src _ _ _ hsrc', solveS_src _ _ _ _ _ _ _ hsrc']
    simp only [execList_single, exec_block, execList_append', solve]
    refine block_ite ?_ ?_ h2 h1
    · intro p hp; have := pairs_label_le ks d n hks p hp; omega
    · intro p hp; have := pairs_level_lt ks d n hks p hp; omega
  case case12 n a b ks hne c1 n1 hx1 c2 n2 hx2 ih2 ih1 =>
    rw [hx1] at ih2
    rw [hx2] at ih1
    refine ⟨by have := ih2.1; have := ih1.1; simp only at *; omega, fun d hs k hk w => ?_⟩
    have hsrc : Src (a.disj b) := StackOK_srcTop d n _ ks hs (by intro l h; cases h)
    have hks := StackOK_top d n _ ks hsrc hs
    have hn1 : n ≤ n1 := by have := ih2.1; simpa using this
    have h2 := ih2.2 d (StackOK_push d n a ks hsrc.1 hks) k hk w
    rw [pairs_src _ _ _ hsrc.1, solveS_src _ _ _ _ _ _ _ hsrc.1] at h2
    have h1 : ∀ w', RelR (SigRel (pairs ks d)) (execList q env c2 k w') (solve q env d b (fun w'' => solveS q env d ks k w'') w') := by
      intro w'
      have := ih1.2 d (StackOK_push d n1 b ks hsrc.2 (StackOK_mono ks d n n1 hks hn1)) k hk w'
      rw [pairs_src _ _ _ hsrc.2, solveS_src _ _ _ _ _ _ _ hsrc.2] at this
      exact this
    rw [pairs_src _ _ _ hsrc, solveS_src _ _ _ _ _ _ _ hsrc]
    have e : solve q env d (a.disj b) (fun w' => solveS q env d ks k w') w
        = andThenR (fun w' => solve q env d b (fun w'' => solveS q env d ks k w'') w')
            (solve q env d a (fun w'' => solveS q env d ks k w'') w) := by
      cases a with
      | ite c t => exact absurd rfl (hne c t)
      | tru | fail | cut | cutif _ | call _ _ | conj _ _ | disj _ _ | neg _ => simp only [solve]
    rw [e]
    simp only [execList_append']
    exact seq_rel h2 h1
  case case13 n c t l c1 n1 hx ih =>
    rw [hx] at ih
    refine ⟨by have := ih.1; simp only at *; omega, fun d hs k hk w => ?_⟩
    have hsrc : Src (c.ite t) := StackOK_srcTop d n _ [] hs (by intro l h; cases h)
    have hks : StackOK [Body.tru] d n := by simp [StackOK, Src]
    have hl : n < l := Nat.lt_succ_self n
    have h2 := ih.2 (d+1) (StackOK_cond d l n c t [Body.tru] hsrc.1 hsrc.2 hks hl) k hk w
    rw [pairs_cond d l c t _ hsrc.1 hsrc.2, solveS_cond q env d l c t _ k w hsrc.1 hsrc.2] at h2
    rw [pairs_src _ _ _ hsrc, solveS_src _ _ _ _ _ _ _ hsrc]
    simp only [execList_single, exec_block, solve, solveS, pairs] at h2 ⊢
    have := block_ite (Γ := []) (l := l) (d := d) (by intro p hp; cases hp) (by intro p hp; cases hp) h2
      (f1 := fun w' => (w', none)) (f2 := fun w' => (w', none)) (fun w' => ⟨rfl, trivial⟩)
    have e : andThenR (fun w' => (w', (none : Option Sig))) (execList q env c1 k w) = execList q env c1 k w := by
      cases execList q env c1 k w with | mk w' s => cases s <;> rfl
    rw [e] at this
    exact this
  case case14 n c t k0 ks l c1 n1 hx ih =>
    rw [hx] at ih
    refine ⟨by have := ih.1; simp only at *; omega, fun d hs k hk w => ?_⟩
    have hsrc : Src (c.ite t) := StackOK_srcTop d n _ _ hs (by intro l h; cases h)
    have hks := StackOK_top d n _ _ hsrc hs
    have hl : n < l := Nat.lt_succ_self n
    have h2 := ih.2 (d+1) (StackOK_cond d l n c t (k0 :: ks) hsrc.1 hsrc.2 hks hl) k hk w
    rw [pairs_cond d l c t _ hsrc.1 hsrc.2, solveS_cond q env d l c t _ k w hsrc.1 hsrc.2] at h2
    rw [pairs_src _ _ _ hsrc, solveS_src _ _ _ _ _ _ _ hsrc]
    simp only [execList_single, exec_block, solve]
    have := block_ite (Γ := pairs (k0 :: ks) d) (l := l) (d := d)
      (by intro p hp; have := pairs_label_le _ d n hks p hp; omega)
      (by intro p hp; have := pairs_level_lt _ d n hks p hp; omega) h2
      (f1 := fun w' => (w', none)) (f2 := fun w' => (w', none)) (fun w' => ⟨rfl, trivial⟩)
    have e : andThenR (fun w' => (w', (none : Option Sig))) (execList q env c1 k w) = execList q env c1 k w := by
      cases execList q env c1 k w with | mk w' s => cases s <;> rfl
    rw [e] at this
    exact this
  case case15 n a l c1 n1 hx ih =>
    rw [hx] at ih
    refine ⟨by have := ih.1; simp only at *; omega, fun d hs k hk w => ?_⟩
    have hsrc : Src (a.neg) := StackOK_srcTop d n _ [] hs (by intro l h; cases h)
    have hks : StackOK [Body.tru] d n := by simp [StackOK, Src]
    have hl : n < l := Nat.lt_succ_self n
    have h2 := ih.2 (d+1) (StackOK_cond d l n a .fail [Body.tru] hsrc trivial hks hl) k hk w
    rw [pairs_cond d l a .fail _ hsrc trivial, solveS_cond q env d l a .fail _ k w hsrc trivial] at h2
    rw [pairs_src _ _ _ hsrc, solveS_src _ _ _ _ _ _ _ hsrc]
    simp only [execList_single, exec_block, solve, solveS, pairs, execList_append', exec_yieldF, thenSig_none] at h2 ⊢
    exact block_ite (Γ := []) (l := l) (d := d) (by intro p hp; cases hp) (by intro p hp; cases hp) h2
      (fun w' => RelR.refl_ext _ k hk w')
  case case16 n a k0 ks l c1 n1 hx1 c2 n2 hx2 ih2 ih1 =>
    rw [hx1] at ih2
    rw [hx2] at ih1
    refine ⟨by have := ih2.1; have := ih1.1; simp only at *; omega, fun d hs k hk w => ?_⟩
    have hsrc : Src (a.neg) := StackOK_srcTop d n _ _ hs (by intro l h; cases h)
    have hks := StackOK_top d n _ _ hsrc hs
    have hl : n < l := Nat.lt_succ_self n
    have hn1 : n ≤ n1 := by have := ih2.1; simp only at this; omega
    have h2 := ih2.2 (d+1) (StackOK_cond d l n a .fail (k0 :: ks) hsrc trivial hks hl) k hk w
    rw [pairs_cond d l a .fail _ hsrc trivial, solveS_cond q env d l a .fail _ k w hsrc trivial] at h2
    have h1 : ∀ w', RelR (SigRel (pairs (k0 :: ks) d)) (execList q env c2 k w') (solveS q env d (k0 :: ks) k w') :=
      fun w' => ih1.2 d (StackOK_mono _ d n n1 hks hn1) k hk w'
    rw [pairs_src _ _ _ hsrc, solveS_src _ _ _ _ _ _ _ hsrc]
    simp only [execList_single, exec_block, solve, execList_append', thenSig_none] at h2 ⊢
    exact block_ite (Γ := pairs (k0 :: ks) d) (l := l) (d := d)
      (by intro p hp; have := pairs_label_le _ d n hks p hp; omega)
      (by intro p hp; have := pairs_level_lt _ d n hks p hp; omega) h2 h1

/-- Related under the empty context means equal: no break/commit is in flight at top level. -/
theorem RelR_nil_eq {r1 r2 : R} (h : RelR (SigRel []) r1 r2) : r1 = r2 := by
  obtain ⟨w1, o1⟩ := r1
  obtain ⟨w2, o2⟩ := r2
  obtain ⟨hw, ho⟩ := h
  simp only at hw; subst hw
  cases o1 <;> cases o2 <;> simp only [OptRel] at ho
  · rfl
  · cases ho with
    | lab l d hm => cases hm
    | ret => rfl
    | up s => rfl
    | stop => rfl
    | oof => rfl
    | exn e => rfl

/-- **Theorem A.** For every clause body of the source language — any nesting of `,` `;` `->`
    `\+` `!` calls, true and fail — the code `compile_body` emits has exactly the reference
    semantics: same final world, same outcome, for every consumer of the enclosing function,
    every world, every (parametric) meaning of the predicate calls, and every value of the label
    counter. -/
theorem compile_body_correct (q : Q) (hq : Parametric q) (env : Env) (b : Body) (hb : Src b) (n : Nat)
    (k : K) (hk : External k) (w : World) :
    execList q env (comp b [] n).1 k w = solve q env 0 b k w := by
  have h := (comp_correct q hq env b [] n).2 0 (StackOK_push 0 n b [] hb trivial) k hk w
  rw [pairs_src _ _ _ hb, solveS_src _ _ _ _ _ _ _ hb] at h
  simp only [pairs, solveS] at h
  exact RelR_nil_eq h

end Yld
