/-
  findall/3 and once/1 against the logical reading (C09), stage 1: `once`.

  `onceGen g k w = leaveOnce (g (onceK k) w)` with `onceK k w' := thenSig .stop (wrapK k w')`: the
  consumer of the inner run lets `k` run and then abandons the enumeration.  `onceK k` is as quiet as `k`,
  two such consumers agree where `k1`, `k2` agree; with a `k` that always answers a signal `s` it always
  answers `up s`, so it is a recording consumer for `P := False`, and what comes back from the run is
  `up s` or `oof` (`LgNPass`), which `leaveOnce` does not turn into a normal end.
-/
import Yld.Proofs.LgNPass
import Yld.Proofs.LgNaf
import Yld.Proofs.LgFRecord
set_option linter.unusedSimpArgs false
set_option linter.unusedVariables false
namespace Yld
namespace Lg
namespace F

variable {D : CDb}

/-- the consumer of the run under `once` -/
def onceK (k : K) : K := fun w' => thenSig .stop (wrapK k w')

theorem onceGen_eq (g : Gen) (k : K) (w : World) : onceGen g k w = leaveOnce (g (onceK k) w) := rfl

theorem onceK_fst (k : K) (w : World) : (onceK k w).1 = (k w).1 := by
  unfold onceK
  rw [thenSig_world, wrapK_fst]

theorem onceK_qk {cm : Prop} {k : K} (hk : QK cm k) : QK cm (onceK k) :=
  (hk.wrapK).thenSig .stop

theorem onceK_congr {k1 k2 : K} {w : World} (h : k1 w = k2 w) : onceK k1 w = onceK k2 w := by
  unfold onceK wrapK
  rw [h]

/-- the consumer under `once` of a continuation that always answers `s` -/
theorem onceK_const (s : Sig) : onceK (fun w' => (w', some s)) = fun w' => (w', some (.up s)) := rfl

theorem upK_qk (cm : Prop) (s : Sig) : QK cm (fun w' => (w', some (Sig.up s))) :=
  ⟨fun _ => rfl, fun _ => rfl, fun _ => Nat.le_refl _, fun _ w h => h⟩

theorem upK_recs (s : Sig) (θ : Val) (n : Nat) : Recs D (fun _ => False) θ n (fun w' => (w', some (Sig.up s))) :=
  ⟨upK_qk False s, fun _ h => h, fun w' _ _ _ => Done.of_sig _ _⟩

/-- what may come back from the run under `once`: the continuation's signal, or the engine's fault -/
def AUp (s : Sig) (s' : Sig) (_c : Bool) : Prop := s' = .up s ∨ s' = .oof

theorem sigA_upK (s : Sig) : N.SigA (AUp s) := ⟨fun _ => Or.inr rfl, fun _ h => h⟩

theorem upK_ok (s : Sig) : N.KOK (AUp s) (fun w' => (w', some (Sig.up s))) := by
  intro w s' hs
  simp only [Option.some.injEq] at hs
  exact Or.inl hs.symm

section once
variable {U : String → Bool} {cfg : Cfg} {preds : List Pred} (hc : HC U cfg preds)

include hc in
/-- **once(G) runs its continuation only where `G` holds.** -/
theorem once_sound {H : String → List Term → Prop} (sem : Sem D preds H) (cm : Prop) (f : Nat) {name : String}
    (hU : U name = true) (args : List Term) (w : World) (hg : Good D cm w) (ha : OwnL w.next args)
    (k1 k2 : K) (hk1 : QK cm k1) (hk2 : QK cm k2)
    (hk : ∀ w', Step D cm w w' ∧ GH H name args w' → k1 w' = k2 w') :
    onceGen (query cfg f name args) k1 w = onceGen (query cfg f name args) k2 w := by
  rw [onceGen_eq, onceGen_eq]
  rw [query_sound_all hc sem cm f name hU args w hg ha (onceK k1) (onceK k2) (onceK_qk hk1) (onceK_qk hk2)
    (fun w' h => onceK_congr (hk w' h))]

include hc in
/-- **once(G) does not simply fail when an instance of `G` is derivable** (programs without cut). -/
theorem once_complete (hnc : ∀ p ∈ preds, ∀ c ∈ p.clauses, nocut c.body = true) (f : Nat) {name : String}
    (hU : U name = true) (args : List Term) (w : World) (θ : Val) (hg : Good D False w) (ha : OwnL w.next args)
    (hθ : Solves θ w.b) (r : Nat) (hh : HN D preds r name (args.map (Term.subst θ))) (s : Sig) :
    (onceGen (query cfg f name args) (fun w' => (w', some s)) w).2 ≠ none := by
  rw [onceGen_eq, onceK_const]
  have hdone : Done (fun _ => False) (query cfg f name args (fun w' => (w', some (Sig.up s))) w) :=
    query_rec_all hc hnc (P := fun _ => False) (fun _ _ _ h => h) r f name hU args w θ _ hg ha hθ hh
      (upK_recs s θ w.next)
  have hok : N.ROK (AUp s) (query cfg f name args (fun w' => (w', some (Sig.up s))) w) :=
    N.query_ok hc f (AUp s) (sigA_upK s) name hU args _ (upK_ok s) w
  revert hdone hok
  generalize query cfg f name args (fun w' => (w', some (Sig.up s))) w = r0
  obtain ⟨w1, o⟩ := r0
  intro hdone hok
  cases o with
  | none =>
    rcases hdone with h | h
    · exact absurd rfl h
    · exact h.elim
  | some s' =>
    rcases hok s' rfl with e | e
    · subst e; simp [leaveOnce]
    · subst e; simp [leaveOnce]

end once
end F
end Lg
end Yld
