/-
  Stage A of the completeness proof: flattened normal forms of what the nonterminals of the grammar
  derive (over token lists), and the inversion theorem `sem_of_derives`.
-/
import Yld.Proofs.Grammar
namespace Yld
namespace GC

/-! ### Term-level forms -/

inductive TK where
  | prim | term | btail | ctail (n : Nat)

def isAtomTok : Tok → Bool
  | .atom _ | .num _ | .str _ => true
  | _ => false

/-- Flattened forms: `prim` = a term that is not `term BINOP term` at top level (with `UNOP` applied
    to a primary), `term` = `prim (BINOP prim)*`, `btail` = `(BINOP prim)*`,
    `ctail n` = `(',' term)^n`. -/
inductive TFm : TK → List Tok → Prop
  | atm (a : Tok) (u : List Tok) : isAtomTok a = true → u = [a] → TFm .prim u
  | var (s : String) (u : List Tok) : u = [.var s] → TFm .prim u
  | slash (s n : String) (u : List Tok) : u = [.atom s, .slash, .num n] → TFm .prim u
  | fn0 (a : Tok) (u : List Tok) : isAtomTok a = true → u = [a, .lparen, .rparen] → TFm .prim u
  | fn (a : Tok) (t c : List Tok) (n : Nat) (u : List Tok) : isAtomTok a = true →
      TFm .term t → TFm (.ctail n) c → u = a :: .lparen :: (t ++ (c ++ [.rparen])) → TFm .prim u
  | unop (o : String) (p u : List Tok) : TFm .prim p → u = .unop o :: p → TFm .prim u
  | binfn (o : String) (a b u : List Tok) : TFm .term a → TFm .term b →
      u = .binop o :: .lparen :: (a ++ .comma :: (b ++ [.rparen])) → TFm .prim u
  | paren (t u : List Tok) : TFm .term t → u = .lparen :: (t ++ [.rparen]) → TFm .prim u
  | list0 (u : List Tok) : u = [.lbrack, .rbrack] → TFm .prim u
  | list (t c : List Tok) (n : Nat) (u : List Tok) : TFm .term t → TFm (.ctail n) c →
      u = .lbrack :: (t ++ (c ++ [.rbrack])) → TFm .prim u
  | lbar (t c : List Tok) (n : Nat) (v : String) (u : List Tok) : TFm .term t → TFm (.ctail n) c →
      u = .lbrack :: (t ++ (c ++ [.bar, .var v, .rbrack])) → TFm .prim u
  | lbar1 (t : List Tok) (v : String) (u : List Tok) : TFm .term t →
      u = .lbrack :: (t ++ [.comma, .bar, .var v, .rbrack]) → TFm .prim u
  | term (p tl u : List Tok) : TFm .prim p → TFm .btail tl → u = p ++ tl → TFm .term u
  | bnil (u : List Tok) : u = [] → TFm .btail u
  | bcons (o : String) (p tl u : List Tok) : TFm .prim p → TFm .btail tl →
      u = .binop o :: (p ++ tl) → TFm .btail u
  | cnil (u : List Tok) : u = [] → TFm (.ctail 0) u
  | ccons (t c : List Tok) (n : Nat) (u : List Tok) : TFm .term t → TFm (.ctail n) c →
      u = .comma :: (t ++ c) → TFm (.ctail (n+1)) u

abbrev Prim := TFm .prim
abbrev Term := TFm .term
abbrev BTail := TFm .btail
abbrev CTail (n : Nat) := TFm (.ctail n)

theorem term_of_prim {p : List Tok} (h : Prim p) : Term p :=
  .term p [] p h (.bnil _ rfl) (by simp)

theorem btail_append {a b : List Tok} (ha : BTail a) (hb : BTail b) : BTail (a ++ b) := by
  suffices h : ∀ k, TFm k a → k = TK.btail → BTail (a ++ b) from h _ ha rfl
  clear ha
  intro k ha hk
  induction ha with
  | bnil u hu => subst hu; simpa using hb
  | bcons o p tl u hp htl hu _ ih =>
    subst hu
    exact .bcons o p (tl ++ b) _ hp (ih hk) (by simp)
  | _ => cases hk

theorem term_bin {a b : List Tok} (o : String) (ha : Term a) (hb : Term b) :
    Term (a ++ .binop o :: b) := by
  cases ha with
  | term p tl _ hp htl hu =>
    cases hb with
    | term p' tl' _ hp' htl' hu' =>
      subst hu hu'
      exact .term p (tl ++ .binop o :: (p' ++ tl')) _ hp
        (btail_append htl (.bcons o p' tl' _ hp' htl' rfl)) (by simp)

theorem term_unop {t : List Tok} (o : String) (ht : Term t) : Term (.unop o :: t) := by
  cases ht with
  | term p tl _ hp htl hu =>
    subst hu
    exact .term (.unop o :: p) tl _ (.unop o p _ hp rfl) htl (by simp)

/-- `termlist`: empty or `term (',' term)^n`. -/
def TermList (l : List Tok) : Prop := l = [] ∨ ∃ t c n, Term t ∧ CTail n c ∧ l = t ++ c

/-! ### Body-level forms -/

inductive BK where
  | bprim | body | btail

inductive BFm : BK → List Tok → Prop
  | tru (u : List Tok) : u = [.tru] → BFm .bprim u
  | fail (u : List Tok) : u = [.fail] → BFm .bprim u
  | cut (u : List Tok) : u = [.cut] → BFm .bprim u
  | term (u : List Tok) : Term u → BFm .bprim u
  | naf (b u : List Tok) : BFm .bprim b → u = .naf :: b → BFm .bprim u
  | paren (b u : List Tok) : BFm .body b → u = .lparen :: (b ++ [.rparen]) → BFm .bprim u
  | body (b tl u : List Tok) : BFm .bprim b → BFm .btail tl → u = b ++ tl → BFm .body u
  | tnil (u : List Tok) : u = [] → BFm .btail u
  | tcons (op : Tok) (q : Nat) (b tl u : List Tok) : binPrec op = some q → BFm .bprim b →
      BFm .btail tl → u = op :: (b ++ tl) → BFm .btail u

abbrev BPrim := BFm .bprim
abbrev Body := BFm .body
abbrev BodyTail := BFm .btail

/-- `simplepredicate` -/
def SP (u : List Tok) : Prop := u = [.tru] ∨ u = [.fail] ∨ u = [.cut] ∨ Term u

theorem bprim_of_sp {u : List Tok} (h : SP u) : BPrim u := by
  rcases h with h | h | h | h
  · exact .tru _ h
  · exact .fail _ h
  · exact .cut _ h
  · exact .term _ h

theorem body_of_bprim {b : List Tok} (h : BPrim b) : Body b :=
  .body b [] b h (.tnil _ rfl) (by simp)

theorem bodytail_append {a b : List Tok} (ha : BodyTail a) (hb : BodyTail b) : BodyTail (a ++ b) := by
  suffices h : ∀ k, BFm k a → k = BK.btail → BodyTail (a ++ b) from h _ ha rfl
  clear ha
  intro k ha hk
  induction ha with
  | tnil u hu => subst hu; simpa using hb
  | tcons op q p tl u hq hp htl hu _ ih =>
    subst hu
    exact .tcons op q p (tl ++ b) _ hq hp (ih hk) (by simp)
  | _ => cases hk

theorem body_bin {a b : List Tok} (op : Tok) (q : Nat) (hq : binPrec op = some q)
    (ha : Body a) (hb : Body b) : Body (a ++ op :: b) := by
  cases ha with
  | body p tl _ hp htl hu =>
    cases hb with
    | body p' tl' _ hp' htl' hu' =>
      subst hu hu'
      exact .body p (tl ++ op :: (p' ++ tl')) _ hp
        (bodytail_append htl (.tcons op q p' tl' _ hq hp' htl' rfl)) (by simp)

theorem body_naf {b : List Tok} (hb : Body b) : Body (.naf :: b) := by
  cases hb with
  | body p tl _ hp htl hu =>
    subst hu
    exact .body (.naf :: p) tl _ (.naf p _ hp rfl) htl (by simp)

/-- `clauseordirective` -/
def Clause (u : List Tok) : Prop :=
  (∃ g, SP g ∧ u = g ++ [.dot]) ∨
  (∃ g b, SP g ∧ Body b ∧ u = g ++ .neck :: (b ++ [.dot])) ∨
  (∃ g, SP g ∧ u = .neck :: (g ++ [.dot]))

inductive Prog : List Tok → Prop
  | nil : Prog []
  | cons (c r : List Tok) : Clause c → Prog r → Prog (c ++ r)

/-! ### The interpretation of grammar symbols -/

def Sem : GSym → List Tok → Prop
  | (true, k), u => ∃ t, u = [t] ∧ t.kind = k
  | (false, "program$2"), u => Clause u
  | (false, "program$1"), u => Prog u
  | (false, "program"), u => Prog u
  | (false, "clauseordirective"), u => Clause u
  | (false, "clause"), u => Clause u
  | (false, "directive"), u => Clause u
  | (false, "predicatelist"), _ => True
  | (false, "predicateexpression"), u => Body u
  | (false, "simplepredicate"), u => SP u
  | (false, "termpredicate"), u => Term u
  | (false, "termlist$4"), u => ∃ t, Term t ∧ u = .comma :: t
  | (false, "termlist$3"), u => ∃ n, CTail n u
  | (false, "termlist"), u => TermList u
  | (false, "term$6"), u => ∃ l, TermList l ∧ u = .comma :: l
  | (false, "term$5"), u => u = [] ∨ ∃ l, TermList l ∧ u = .comma :: l
  | (false, "term"), u => Term u
  | (false, "atom"), u => ∃ a, isAtomTok a = true ∧ u = [a]
  | (false, "functor"), u => ∃ a l, isAtomTok a = true ∧ TermList l ∧ u = a :: .lparen :: (l ++ [.rparen])
  | (false, _), _ => False

def SemSeq : List GSym → List Tok → Prop
  | [], u => u = []
  | x :: xs, u => ∃ u1 u2, u = u1 ++ u2 ∧ Sem x u1 ∧ SemSeq xs u2


/-! ### Inversion of token kinds -/

theorem kind_dot {t : Tok} (h : t.kind = "'.'") : t = .dot := by
  cases t <;> first | rfl | (simp [Tok.kind] at h)
theorem kind_neck {t : Tok} (h : t.kind = "':-'") : t = .neck := by
  cases t <;> first | rfl | (simp [Tok.kind] at h)
theorem kind_naf {t : Tok} (h : t.kind = "'\\+'") : t = .naf := by
  cases t <;> first | rfl | (simp [Tok.kind] at h)
theorem kind_comma {t : Tok} (h : t.kind = "','") : t = .comma := by
  cases t <;> first | rfl | (simp [Tok.kind] at h)
theorem kind_arrow {t : Tok} (h : t.kind = "'->'") : t = .arrow := by
  cases t <;> first | rfl | (simp [Tok.kind] at h)
theorem kind_semi {t : Tok} (h : t.kind = "';'") : t = .semi := by
  cases t <;> first | rfl | (simp [Tok.kind] at h)
theorem kind_lparen {t : Tok} (h : t.kind = "'('") : t = .lparen := by
  cases t <;> first | rfl | (simp [Tok.kind] at h)
theorem kind_rparen {t : Tok} (h : t.kind = "')'") : t = .rparen := by
  cases t <;> first | rfl | (simp [Tok.kind] at h)
theorem kind_slash {t : Tok} (h : t.kind = "'/'") : t = .slash := by
  cases t <;> first | rfl | (simp [Tok.kind] at h)
theorem kind_bar {t : Tok} (h : t.kind = "'|'") : t = .bar := by
  cases t <;> first | rfl | (simp [Tok.kind] at h)
theorem kind_tru {t : Tok} (h : t.kind = "TRUE") : t = .tru := by
  cases t <;> first | rfl | (simp [Tok.kind] at h)
theorem kind_fail {t : Tok} (h : t.kind = "FAIL") : t = .fail := by
  cases t <;> first | rfl | (simp [Tok.kind] at h)
theorem kind_cut {t : Tok} (h : t.kind = "CUT") : t = .cut := by
  cases t <;> first | rfl | (simp [Tok.kind] at h)
theorem kind_lbrack {t : Tok} (h : t.kind = "LBRACK") : t = .lbrack := by
  cases t <;> first | rfl | (simp [Tok.kind] at h)
theorem kind_rbrack {t : Tok} (h : t.kind = "RBRACK") : t = .rbrack := by
  cases t <;> first | rfl | (simp [Tok.kind] at h)
theorem kind_var {t : Tok} (h : t.kind = "VARIABLE") : ∃ s, t = .var s := by
  cases t <;> first | exact ⟨_, rfl⟩ | (simp [Tok.kind] at h)
theorem kind_atom {t : Tok} (h : t.kind = "ATOM") : ∃ s, t = .atom s := by
  cases t <;> first | exact ⟨_, rfl⟩ | (simp [Tok.kind] at h)
theorem kind_num {t : Tok} (h : t.kind = "NUMERAL") : ∃ s, t = .num s := by
  cases t <;> first | exact ⟨_, rfl⟩ | (simp [Tok.kind] at h)
theorem kind_str {t : Tok} (h : t.kind = "STRING") : ∃ s, t = .str s := by
  cases t <;> first | exact ⟨_, rfl⟩ | (simp [Tok.kind] at h)
theorem kind_unop {t : Tok} (h : t.kind = "UNOP") : ∃ s, t = .unop s := by
  cases t <;> first | exact ⟨_, rfl⟩ | (simp [Tok.kind] at h)
theorem kind_binop {t : Tok} (h : t.kind = "BINOP") : ∃ s, t = .binop s := by
  cases t <;> first | exact ⟨_, rfl⟩ | (simp [Tok.kind] at h)

theorem prim_of_list {l : List Tok} (h : TermList l) : Prim (.lbrack :: (l ++ [.rbrack])) := by
  rcases h with rfl | ⟨t, c, n, ht, hc, rfl⟩
  · exact .list0 _ rfl
  · exact .list t c n _ ht hc (by simp)

theorem prim_of_functor {a : Tok} {l : List Tok} (ha : isAtomTok a = true) (h : TermList l) :
    Prim (a :: .lparen :: (l ++ [.rparen])) := by
  rcases h with rfl | ⟨t, c, n, ht, hc, rfl⟩
  · exact .fn0 a _ ha rfl
  · exact .fn a t c n _ ha ht hc (by simp)

theorem rule_sound : ∀ pr ∈ Generated.grammar, ∀ u, SemSeq pr.2 u → Sem (false, pr.1) u := by
  simp only [Generated.grammar, List.forall_mem_cons]
  and_intros
  all_goals try (intro u h; simp only [SemSeq, Sem] at h ⊢)
  -- program$2
  · obtain ⟨u1, _, rfl, h1, rfl⟩ := h; simpa using h1
  -- program$1
  · subst h; exact .nil
  · obtain ⟨c, _, rfl, hc, r, _, rfl, hr, rfl⟩ := h
    simpa using Prog.cons c r hc hr
  -- program
  · obtain ⟨u1, _, rfl, h1, rfl⟩ := h; simpa using h1
  -- clauseordirective
  · obtain ⟨u1, _, rfl, h1, rfl⟩ := h; simpa using h1
  · obtain ⟨u1, _, rfl, h1, rfl⟩ := h; simpa using h1
  -- clause
  · obtain ⟨g, _, rfl, hg, _, _, rfl, ⟨t, rfl, hk⟩, rfl⟩ := h
    cases kind_dot hk
    exact .inl ⟨g, hg, by simp⟩
  · obtain ⟨g, _, rfl, hg, _, _, rfl, ⟨t, rfl, hk⟩, b, _, rfl, hb, _, _, rfl, ⟨t', rfl, hk'⟩, rfl⟩ := h
    cases kind_neck hk; cases kind_dot hk'
    exact .inr (.inl ⟨g, b, hg, hb, by simp⟩)
  -- directive
  · obtain ⟨_, _, rfl, ⟨t, rfl, hk⟩, g, _, rfl, hg, _, _, rfl, ⟨t', rfl, hk'⟩, rfl⟩ := h
    cases kind_neck hk; cases kind_dot hk'
    exact .inr (.inr ⟨g, hg, by simp⟩)
  -- predicateexpression
  · obtain ⟨u1, _, rfl, h1, rfl⟩ := h
    simpa using body_of_bprim (bprim_of_sp h1)
  · obtain ⟨_, _, rfl, ⟨t, rfl, hk⟩, b, _, rfl, hb, rfl⟩ := h
    cases kind_naf hk
    simpa using body_naf hb
  · obtain ⟨a, _, rfl, ha, _, _, rfl, ⟨t, rfl, hk⟩, b, _, rfl, hb, rfl⟩ := h
    cases kind_comma hk
    simpa using body_bin .comma 4 rfl ha hb
  · obtain ⟨a, _, rfl, ha, _, _, rfl, ⟨t, rfl, hk⟩, b, _, rfl, hb, rfl⟩ := h
    cases kind_arrow hk
    simpa using body_bin .arrow 3 rfl ha hb
  · obtain ⟨a, _, rfl, ha, _, _, rfl, ⟨t, rfl, hk⟩, b, _, rfl, hb, rfl⟩ := h
    cases kind_semi hk
    simpa using body_bin .semi 2 rfl ha hb
  · obtain ⟨_, _, rfl, ⟨t, rfl, hk⟩, b, _, rfl, hb, _, _, rfl, ⟨t', rfl, hk'⟩, rfl⟩ := h
    cases kind_lparen hk; cases kind_rparen hk'
    exact body_of_bprim (.paren b _ hb (by simp))
  -- simplepredicate
  · obtain ⟨_, _, rfl, ⟨t, rfl, hk⟩, rfl⟩ := h
    cases kind_tru hk; exact .inl rfl
  · obtain ⟨_, _, rfl, ⟨t, rfl, hk⟩, rfl⟩ := h
    cases kind_fail hk; exact .inr (.inl rfl)
  · obtain ⟨_, _, rfl, ⟨t, rfl, hk⟩, rfl⟩ := h
    cases kind_cut hk; exact .inr (.inr (.inl rfl))
  · obtain ⟨u1, _, rfl, h1, rfl⟩ := h
    exact .inr (.inr (.inr (by simpa using h1)))
  -- termpredicate
  · obtain ⟨u1, _, rfl, h1, rfl⟩ := h; simpa using h1
  -- termlist$4
  · obtain ⟨_, _, rfl, ⟨t, rfl, hk⟩, a, _, rfl, ha, rfl⟩ := h
    cases kind_comma hk
    exact ⟨a, ha, by simp⟩
  -- termlist$3
  · subst h; exact ⟨0, .cnil _ rfl⟩
  · obtain ⟨_, _, rfl, ⟨t, ht, rfl⟩, c, _, rfl, ⟨n, hc⟩, rfl⟩ := h
    exact ⟨n+1, .ccons t c n _ ht hc (by simp)⟩
  -- termlist
  · exact .inl h
  · obtain ⟨t, _, rfl, ht, c, _, rfl, ⟨n, hc⟩, rfl⟩ := h
    exact .inr ⟨t, c, n, ht, hc, by simp⟩
  -- term$6
  · obtain ⟨_, _, rfl, ⟨t, rfl, hk⟩, l, _, rfl, hl, rfl⟩ := h
    cases kind_comma hk
    exact ⟨l, hl, by simp⟩
  -- term$5
  · exact .inl h
  · obtain ⟨_, _, rfl, ⟨l, hl, rfl⟩, rfl⟩ := h
    exact .inr ⟨l, hl, by simp⟩
  -- term
  · obtain ⟨_, _, rfl, ⟨a, ha, rfl⟩, rfl⟩ := h
    exact term_of_prim (.atm a _ ha rfl)
  · obtain ⟨_, _, rfl, ⟨a, l, ha, hl, rfl⟩, rfl⟩ := h
    simpa using term_of_prim (prim_of_functor ha hl)
  · obtain ⟨_, _, rfl, ⟨t1, rfl, hk1⟩, _, _, rfl, ⟨t2, rfl, hk2⟩, _, _, rfl, ⟨t3, rfl, hk3⟩, rfl⟩ := h
    obtain ⟨s, rfl⟩ := kind_atom hk1
    cases kind_slash hk2
    obtain ⟨n, rfl⟩ := kind_num hk3
    exact term_of_prim (.slash s n _ rfl)
  · obtain ⟨_, _, rfl, ⟨t, rfl, hk⟩, rfl⟩ := h
    obtain ⟨s, rfl⟩ := kind_var hk
    exact term_of_prim (.var s _ rfl)
  · obtain ⟨_, _, rfl, ⟨t, rfl, hk⟩, a, _, rfl, ha, rfl⟩ := h
    obtain ⟨o, rfl⟩ := kind_unop hk
    simpa using term_unop o ha
  · obtain ⟨a, _, rfl, ha, _, _, rfl, ⟨t, rfl, hk⟩, b, _, rfl, hb, rfl⟩ := h
    obtain ⟨o, rfl⟩ := kind_binop hk
    simpa using term_bin o ha hb
  · obtain ⟨_, _, rfl, ⟨t1, rfl, hk1⟩, _, _, rfl, ⟨t2, rfl, hk2⟩, a, _, rfl, ha, _, _, rfl,
      ⟨t3, rfl, hk3⟩, b, _, rfl, hb, _, _, rfl, ⟨t4, rfl, hk4⟩, rfl⟩ := h
    obtain ⟨o, rfl⟩ := kind_binop hk1
    cases kind_lparen hk2; cases kind_comma hk3; cases kind_rparen hk4
    exact term_of_prim (.binfn o a b _ ha hb (by simp))
  · obtain ⟨_, _, rfl, ⟨t, rfl, hk⟩, b, _, rfl, hb, _, _, rfl, ⟨t', rfl, hk'⟩, rfl⟩ := h
    cases kind_lparen hk; cases kind_rparen hk'
    exact term_of_prim (.paren b _ hb (by simp))
  · obtain ⟨_, _, rfl, ⟨t, rfl, hk⟩, l, _, rfl, hl, _, _, rfl, ⟨t', rfl, hk'⟩, rfl⟩ := h
    cases kind_lbrack hk; cases kind_rbrack hk'
    simpa using term_of_prim (prim_of_list hl)
  · obtain ⟨_, _, rfl, ⟨t1, rfl, hk1⟩, a, _, rfl, ha, x, _, rfl, hx, _, _, rfl, ⟨t2, rfl, hk2⟩,
      _, _, rfl, ⟨t3, rfl, hk3⟩, _, _, rfl, ⟨t4, rfl, hk4⟩, rfl⟩ := h
    cases kind_lbrack hk1; cases kind_bar hk2; cases kind_rbrack hk4
    obtain ⟨v, rfl⟩ := kind_var hk3
    rcases hx with rfl | ⟨l, hl, rfl⟩
    · exact term_of_prim (.lbar a [] 0 v _ ha (.cnil _ rfl) (by simp))
    · rcases hl with rfl | ⟨t, c, n, ht, hc, rfl⟩
      · exact term_of_prim (.lbar1 a v _ ha (by simp))
      · exact term_of_prim (.lbar a (.comma :: (t ++ c)) (n+1) v _ ha (.ccons t c n _ ht hc rfl)
          (by simp))
  -- atom
  · obtain ⟨_, _, rfl, ⟨t, rfl, hk⟩, rfl⟩ := h
    obtain ⟨s, rfl⟩ := kind_atom hk
    exact ⟨_, rfl, rfl⟩
  · obtain ⟨_, _, rfl, ⟨t, rfl, hk⟩, rfl⟩ := h
    obtain ⟨s, rfl⟩ := kind_num hk
    exact ⟨_, rfl, rfl⟩
  · obtain ⟨_, _, rfl, ⟨t, rfl, hk⟩, rfl⟩ := h
    obtain ⟨s, rfl⟩ := kind_str hk
    exact ⟨_, rfl, rfl⟩
  -- functor
  · obtain ⟨_, _, rfl, ⟨a, ha, rfl⟩, _, _, rfl, ⟨t, rfl, hk⟩, l, _, rfl, hl, _, _, rfl,
      ⟨t', rfl, hk'⟩, rfl⟩ := h
    cases kind_lparen hk; cases kind_rparen hk'
    exact ⟨a, l, ha, hl, by simp⟩
  · cases h

/-- kinds of a token list split like the kinds -/
theorem kinds_eq_append {u : List Tok} {k1 k2 : List String} (h : kinds u = k1 ++ k2) :
    ∃ u1 u2, u = u1 ++ u2 ∧ kinds u1 = k1 ∧ kinds u2 = k2 := by
  unfold kinds at h
  obtain ⟨u1, u2, h0, h1, h2⟩ := List.map_eq_append_iff.mp h
  exact ⟨u1, u2, h0, h1, h2⟩

mutual
theorem sem_of_derives : ∀ {x : GSym} {ks : List String}, Derives Generated.grammar x ks →
    ∀ u, kinds u = ks → Sem x u
  | _, _, .term k, u, h => by
      match u, h with
      | [t], h =>
        simp only [kinds, List.map, List.cons.injEq, and_true] at h
        exact ⟨t, rfl, h⟩
  | _, _, .rule lhs rhs ks hm hs, u, h => rule_sound (lhs, rhs) hm u (semseq_of_derives hs u h)
theorem semseq_of_derives : ∀ {xs : List GSym} {ks : List String}, DerivesSeq Generated.grammar xs ks →
    ∀ u, kinds u = ks → SemSeq xs u
  | _, _, .nil, u, h => by
      cases u with
      | nil => rfl
      | cons t ts => simp [kinds] at h
  | _, _, .cons x xs k1 k2 h1 h2, u, h => by
      obtain ⟨u1, u2, rfl, e1, e2⟩ := kinds_eq_append h
      exact ⟨u1, u2, rfl, sem_of_derives h1 u1 e1, semseq_of_derives h2 u2 e2⟩
end

/-- Stage A: a token list whose kinds derive from `program` is a sequence of clauses in flattened form. -/
theorem prog_of_derives {toks : List Tok}
    (h : Derives Generated.grammar (false, "program") (kinds toks)) : Prog toks :=
  sem_of_derives h toks rfl

theorem term_of_derives {toks : List Tok}
    (h : Derives Generated.grammar (false, "term") (kinds toks)) : Term toks :=
  sem_of_derives h toks rfl

end GC
end Yld
