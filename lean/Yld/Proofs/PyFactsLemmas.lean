/-
  Lemmas for `Yld.Proofs.PyFacts` (a registered Python fact predicate is the compiled predicate of
  the same facts): the clause-variable names `R<i>`, `dedup` as `eraseDups`, the shape of a
  canonical row's variable list, allocation of `R0 … R(n-1)`, `unifyHead` as `unifyList`, and the
  frame wrapper `leaveFrame … (wrapK k)` around a generator that is parametric in its consumer.
-/
import Yld.Model.Api
import Yld.Proofs.ActRel
import Yld.Proofs.Parametric
import Yld.Proofs.Keys
namespace Yld
namespace PF

/-! ### the names `R<i>` -/

/-- the clause variable standing for row variable `i` -/
def rname (i : Nat) : String := "R" ++ toString i

theorem rname_inj {a b : Nat} (h : rname a = rname b) : a = b := by
  have h' := congrArg String.toList h
  simp only [rname, String.toList_append, List.append_cancel_left_eq] at h'
  apply Nat.repr_injective
  exact String.toList_inj.mp h'

/-! ### `dedup` is `eraseDups` -/

theorem dedup_fold (xs : List String) : ∀ acc : List String,
    xs.foldl (fun acc x => if acc.contains x then acc else acc ++ [x]) acc
      = acc ++ (xs.filter (fun x => !acc.contains x)).eraseDups := by
  induction xs with
  | nil => intro acc; simp
  | cons x xs ih =>
    intro acc
    rw [List.foldl_cons]
    by_cases hx : acc.contains x = true
    · rw [if_pos hx, ih, List.filter_cons]
      have hx' : x ∈ acc := by simpa using hx
      simp [hx']
    · rw [if_neg hx, ih, List.filter_cons]
      have hx' : (!acc.contains x) = true := by simpa using hx
      rw [if_pos hx', List.eraseDups_cons, List.filter_filter, List.append_assoc, List.singleton_append]
      congr 3
      apply List.filter_congr
      intro y _
      simp only [List.contains_eq_mem, List.mem_append, List.mem_singleton]
      by_cases hy : y = x
      · subst hy; simp
      · simp [hy]

theorem dedup_eq_eraseDups (xs : List String) : dedup xs = xs.eraseDups := by
  unfold dedup
  rw [dedup_fold]
  have : List.filter (fun _ => true) xs = xs := List.filter_eq_self.mpr (fun _ _ => rfl)
  simp [this]

theorem eraseDups_map_inj {α β : Type} [BEq α] [LawfulBEq α] [BEq β] [LawfulBEq β] (g : α → β)
    (hg : ∀ a b, g a = g b → a = b) :
    ∀ (n : Nat) (l : List α), l.length ≤ n → (l.map g).eraseDups = l.eraseDups.map g := by
  intro n
  induction n with
  | zero =>
    intro l hl
    have : l = [] := List.eq_nil_of_length_eq_zero (by omega)
    subst this; simp
  | succ n ih =>
    intro l hl
    cases l with
    | nil => simp
    | cons a l =>
      rw [List.map_cons, List.eraseDups_cons, List.eraseDups_cons, List.map_cons, List.filter_map]
      have hf : List.filter ((fun b => !b == g a) ∘ g) l = List.filter (fun b => !b == a) l := by
        apply List.filter_congr
        intro x _
        simp only [Function.comp]
        by_cases hxa : x = a
        · subst hxa; simp
        · have : g x ≠ g a := fun h => hxa (hg x a h)
          rw [beq_eq_false_iff_ne.mpr this, beq_eq_false_iff_ne.mpr hxa]
      rw [hf, ih]
      have := List.length_filter_le (fun b => !b == a) l
      simp at hl; omega

/-! ### a list of numbers that `idxOf` after `eraseDups` leaves alone is `0,1,…` -/

theorem eraseDups_eq_range' : ∀ (n : Nat) (l : List Nat) (s : Nat), l.length ≤ n →
    (∀ x ∈ l.eraseDups, l.eraseDups.idxOf x + s = x) →
    l.eraseDups = List.range' s l.eraseDups.length := by
  intro n
  induction n with
  | zero =>
    intro l s hl _
    have : l = [] := List.eq_nil_of_length_eq_zero (by omega)
    subst this; simp
  | succ n ih =>
    intro l s hl h
    cases l with
    | nil => simp
    | cons a l =>
      rw [List.eraseDups_cons] at h ⊢
      have ha : a = s := by
        have := h a (by simp)
        simpa using this.symm
      have hlen : (l.filter fun b => !b == a).length ≤ n := by
        have := List.length_filter_le (fun b => !b == a) l
        simp at hl; omega
      have hrest := ih (l.filter fun b => !b == a) (s+1) hlen (by
        intro x hx
        have hxa : x ≠ a := by
          have := (List.mem_filter.mp (List.mem_eraseDups.mp hx)).2
          simpa using this
        have := h x (List.mem_cons_of_mem _ hx)
        rw [List.idxOf_cons, beq_eq_false_iff_ne.mpr (Ne.symm hxa)] at this
        simp only [cond_false] at this
        omega)
      rw [List.length_cons, List.range'_succ, ← hrest, ha]

/-- the variables of a list of terms that `canonVars` leaves alone, in order of first occurrence -/
theorem canon_vars_range (ts : List Term) (n : Nat) (h : canonVars ts = (ts, n)) :
    (ts.map Term.vars).flatten.eraseDups = List.range n := by
  unfold canonVars at h
  simp only [Prod.mk.injEq] at h
  obtain ⟨hmap, hn⟩ := h
  have key : ∀ x ∈ (ts.map Term.vars).flatten.eraseDups,
      (ts.map Term.vars).flatten.eraseDups.idxOf x + 0 = x := by
    intro x hx
    obtain ⟨l, hl, hxl⟩ := List.mem_flatten.mp (List.mem_eraseDups.mp hx)
    obtain ⟨t, ht, rfl⟩ := List.mem_map.mp hl
    have e : t.rename (fun x => (ts.map Term.vars).flatten.eraseDups.idxOf x) = t := by
      have := List.map_inj_left.mp (hmap.trans (List.map_id ts).symm) t ht
      simpa using this
    rw [rename_eq_subst] at e
    conv at e => rhs; rw [← subst_var t]
    have := subst_eq_agree t e x hxl
    injection this with this
  have := eraseDups_eq_range' _ _ 0 (Nat.le_refl _) key
  rw [hn] at this
  rw [this, List.range_eq_range']

/-! ### allocation of `R0 … R(n-1)` -/

theorem allocVars_nil (env : Env) (w : World) : allocVars [] env w = (env, w) := rfl
theorem allocVars_cons (v : String) (vs : List String) (env : Env) (w : World) :
    allocVars (v :: vs) env w = allocVars vs (env ++ [(v, .var w.next)]) { w with next := w.next + 1 } := rfl

theorem allocVars_range' (b : Nat) : ∀ (n s : Nat) (env : Env) (w : World), w.next = s + b →
    allocVars ((List.range' s n).map rname) env w =
      (env ++ (List.range' s n).map (fun i => (rname i, Term.var (i + b))),
       { w with next := w.next + n }) := by
  intro n
  induction n with
  | zero => intro s env w _; simp [allocVars_nil]
  | succ n ih =>
    intro s env w hw
    rw [List.range'_succ, List.map_cons, allocVars_cons, ih (s+1) _ _ (by simp only [hw]; omega)]
    simp only [List.map_cons, List.append_assoc, List.singleton_append, hw, Prod.mk.injEq, true_and]
    congr 1
    omega

theorem allocVars_range (n : Nat) (w : World) :
    allocVars ((List.range n).map rname) [] w =
      ((List.range n).map (fun i => (rname i, Term.var (i + w.next))), { w with next := w.next + n }) := by
  rw [List.range_eq_range', allocVars_range' w.next n 0 [] w (by omega)]
  simp

theorem lookup_rname (b : Nat) (i : Nat) : ∀ (l : List Nat), i ∈ l →
    (l.map (fun i => (rname i, Term.var (i + b)))).lookup (rname i) = some (Term.var (i + b)) := by
  intro l
  induction l with
  | nil => intro h; cases h
  | cons a l ih =>
    intro h
    rw [List.map_cons, List.lookup_cons]
    by_cases hia : i = a
    · subst hia; simp
    · have hne : rname i ≠ rname a := fun e => hia (rname_inj e)
      rw [beq_eq_false_iff_ne.mpr hne]
      rcases List.mem_cons.mp h with h | h
      · exact absurd h hia
      · exact ih h

theorem get_rname (b n i : Nat) (hi : i < n) :
    Env.get ((List.range n).map (fun i => (rname i, Term.var (i + b)))) (rname i) = .var (i + b) := by
  unfold Env.get
  rw [lookup_rname b i _ (List.mem_range.mpr hi)]

/-! ### `unifyHead` over the numbered head arguments is `unifyList` -/

theorem unifyHead_zipIdx (f : Nat) (env : Env) (q : Q) :
    ∀ (hs : List STerm) (pre as : List Term), hs.length = as.length → ∀ (k : K) (w : World),
      unifyHead f env (pre ++ as) ((hs.zipIdx pre.length).map fun (t, i) => (i, t)) (solve q env 0 .tru) k w
        = unifyList (unify f) as (hs.map (STerm.eval env)) k w := by
  intro hs
  induction hs with
  | nil =>
    intro pre as hl k w
    cases as with
    | nil => simp [unifyHead, unifyList, solve]
    | cons a as => simp at hl
  | cons h hs ih =>
    intro pre as hl k w
    cases as with
    | nil => simp at hl
    | cons a as =>
      rw [List.zipIdx_cons, List.map_cons, List.map_cons]
      simp only [unifyHead, unifyList]
      have hget : (pre ++ a :: as).getD pre.length (.atom "$noarg") = a := by simp
      rw [hget]
      congr 1
      funext w'
      have := ih (pre ++ [a]) as (by simpa using hl) k w'
      simpa using this

theorem unifyHead_zipIdx0 (f : Nat) (env : Env) (q : Q) (hs : List STerm) (as : List Term)
    (hl : hs.length = as.length) (k : K) (w : World) :
    unifyHead f env as (hs.zipIdx.map fun (t, i) => (i, t)) (solve q env 0 .tru) k w
      = unifyList (unify f) as (hs.map (STerm.eval env)) k w := by
  have := unifyHead_zipIdx f env q hs [] as hl k w
  simpa using this

/-! ### the frame wrapper around a generator that is parametric in its consumer -/

/-- a signal inside the frame and the signal it is outside -/
def UpRel (a b : Sig) : Prop := a = .up b ∨ (a = b ∧ (b = .oof ∨ b = .stop ∨ ∃ e, b = .exn e))

theorem upRel_fault : FaultRefl UpRel :=
  ⟨Or.inr ⟨rfl, Or.inl rfl⟩, fun e => Or.inr ⟨rfl, Or.inr (Or.inr ⟨e, rfl⟩)⟩, Or.inr ⟨rfl, Or.inr (Or.inl rfl)⟩⟩

theorem wrapK_rel (k : K) : KRel UpRel (wrapK k) k := by
  intro w
  unfold wrapK
  rcases h : k w with ⟨w', o⟩
  cases o with
  | none => exact relNone w'
  | some s => exact relSome w' (Or.inl rfl)

theorem leaveFrame_of_rel {r1 r2 : R} (h : RelR UpRel r1 r2) : leaveFrame r1 = r2 := by
  rcases relCases h with ⟨w, e1, e2⟩ | ⟨w, a, b, e1, e2, hab⟩
  · rw [e1, e2]; rfl
  · rw [e1, e2]
    rcases hab with rfl | ⟨rfl, rfl | rfl | ⟨e, rfl⟩⟩ <;> rfl

theorem leaveFrame_runPy (f : Nat) (rows : List Fact) (r : Option Nat) (i : Nat) (args : List Term) (k : K) (w : World) :
    leaveFrame (runPy f rows r i args (wrapK k) w) = runPy f rows r i args k w :=
  leaveFrame_of_rel (runPy_par UpRel upRel_fault f r args rows i _ _ (wrapK_rel k) w)

/-- clause by clause is row by row, when each clause is its row -/
theorem runClauses_eq_runPy {α : Type} (run : α → Gen) (f : Nat) (args : List Term) (c : Fact → α) :
    ∀ (rows : List Fact), (∀ r ∈ rows, ∀ k w, run (c r) k w = matchFact f r args k w) →
      ∀ (i : Nat) (k : K) (w : World),
        runClauses run (rows.map c) k w = runPy f rows none i args k w := by
  intro rows
  induction rows with
  | nil => intro _ i k w; simp [runClauses, runPy]
  | cons r rows ih =>
    intro h i k w
    rw [List.map_cons]
    simp only [runClauses, runPy]
    rw [h r (by simp)]
    have hi : (none == some i) = false := rfl
    simp only [hi]
    rcases hm : matchFact f r args k w with ⟨w', o⟩
    cases o with
    | none => exact ih (fun r hr => h r (List.mem_cons_of_mem _ hr)) (i+1) k w'
    | some s => rfl

end PF
end Yld
