/-
  Completeness for consumers that *record* (C01, completeness at the API), stage 1.

  `LgComplete` proves: a consumer that is triggered (answers with a reason) wherever the instance `θ`
  of the goal is reached does not let the run end normally.  The consumer of the API is not of this
  kind: it answers `none` and writes the answer down.  Here the same induction — on the height of the
  derivation, all fuels inside — is done for the conclusion

      `Done P r`  :  the run did not end normally, or it ended in a world with `P`

  where `P` is a property of the recorded results only (`AccOnly`: it looks at the field `acc`), and for
  the consumer class `Recs P θ n k`: `k` is quiet, keeps `P`, and wherever the heap admits a solution
  equal to `θ` below `n`, `k` answers with a reason or establishes `P`.  The generators of the Horn
  fragment do not touch `acc` (`Frame`), so once `P` is established it persists (`query_relp` for the
  preorder `KeepRel P`).
-/
import Yld.Proofs.LgComplete
set_option linter.unusedSimpArgs false
set_option linter.unusedVariables false
namespace Yld
namespace Lg

/-- the run did not end normally, or it ended in a world with `P` -/
def Done (P : World → Prop) (r : R) : Prop := r.2 ≠ none ∨ P r.1

/-- `P` is a property of the recorded results -/
def AccOnly (P : World → Prop) : Prop := ∀ w w' : World, w'.acc = w.acc → P w → P w'

/-- `P` persists -/
def KeepRel (P : World → Prop) (w w' : World) : Prop := P w → P w'

theorem stepRel_keep {P : World → Prop} (hP : AccOnly P) : StepRel (KeepRel P) :=
  ⟨fun _ h => h, fun h1 h2 h => h2 (h1 h), fun hf => hP _ _ hf.acc⟩

theorem Done.of_sig {P : World → Prop} (w : World) (s : Sig) : Done P (w, some s) := Or.inl (by simp)

theorem andThenR_done {P : World → Prop} {f : World → R} {r : R} (h : Done P r)
    (hf : ∀ w, KeepRel P w (f w).1) : Done P (andThenR f r) := by
  obtain ⟨w, o⟩ := r
  cases o with
  | some s => rw [andThenR_some]; exact Done.of_sig w s
  | none =>
    rw [andThenR_none]
    rcases h with h | h
    · exact absurd rfl h
    · exact Or.inr (hf w h)

/-- `k` is quiet, keeps `P`, and in every good world, with at least `n` cells, whose heap has a
    solution that is `θ` below `n`, it answers with a reason or establishes `P` -/
structure Recs (P : World → Prop) (θ : Val) (n : Nat) (k : K) : Prop where
  qk : QK False k
  keep : KRelP (KeepRel P) k
  trig : ∀ w', Good False w' → n ≤ w'.next → (∃ θ', (∀ x, x < n → θ' x = θ x) ∧ Solves θ' w'.b) → Done P (k w')

theorem Recs.mono {P : World → Prop} {θ θ' : Val} {n n' : Nat} {k : K} (h : Recs P θ n k) (hn : n ≤ n')
    (hθ : ∀ x, x < n → θ' x = θ x) : Recs P θ' n' k :=
  ⟨h.qk, h.keep, fun w' hg hn' ⟨θ'', ha, hs⟩ => h.trig w' hg (Nat.le_trans hn hn')
    ⟨θ'', fun x hx => (ha x (Nat.lt_of_lt_of_le hx hn)).trans (hθ x hx), hs⟩⟩

theorem Recs.wrapK {P : World → Prop} {θ : Val} {n : Nat} {k : K} (h : Recs P θ n k) : Recs P θ n (wrapK k) := by
  refine ⟨h.qk.wrapK, fun w => by rw [wrapK_fst]; exact h.keep w, fun w' hg hn hex => ?_⟩
  have := h.trig w' hg hn hex
  unfold Yld.wrapK
  cases hk : k w' with
  | mk w'' o =>
    rw [hk] at this
    cases o with
    | none => exact this
    | some s => exact Done.of_sig _ _

theorem leaveFrame_done {P : World → Prop} {r : R} (hh : ∀ s, r.2 = some s → Hard s) (h : Done P r) :
    Done P (leaveFrame r) := by
  obtain ⟨w, o⟩ := r
  cases o with
  | none =>
    rcases h with h | h
    · exact absurd rfl h
    · exact Or.inr (by rw [leaveFrame_fst]; exact h)
  | some s => exact Or.inl (leaveFrame_hard (hh s rfl))

/-- `GShape` of `LgSound`, remembering that what `unify` does after its consumer returns leaves the
    recorded results alone -/
inductive GShapeA (g : Gen) (w : World) (t1 t2 : Term) : Prop
  | oof (r : R) : r.2 = some .oof → (∀ k, g k w = r) → GShapeA g w t1 t2
  | fail (r : R) : r.2 = none → (∀ k, g k w = r) → (∀ θ, Solves θ w.b → t1.subst θ ≠ t2.subst θ) → GShapeA g w t1 t2
  | once (pre : World) (post : World → World) : (∀ k, g k w = ((post (k pre).1), (k pre).2)) →
      UStep False w t1 t2 pre → (∀ w', (post w').acc = w'.acc) → GShapeA g w t1 t2

open Classical in
theorem unify_gshapeA (f : Nat) (t1 t2 : Term) {w : World} (hg : Good False w) (h1 : Own w.next t1)
    (h2 : Own w.next t2) : GShapeA (unify f t1 t2) w t1 t2 := by
  cases unify_ushape f t1 t2 w with
  | oof r hr hk => exact .oof r hr hk
  | fail r hr hk hno _ _ => exact .fail r hr hk hno
  | once pre post hk hiff hpre hpost =>
    have hcore := hpre.core
    simp only [World.core, Prod.mk.injEq] at hcore
    have hsc : WScoped pre := by
      apply Classical.byContradiction
      intro hns
      have e := unify_sagree f t1 t2 w (fun w' => (w', none))
        (fun w' => (w', if WScoped w' then none else some .stop)) hg.sc h1 h2
        (fun w' hs' _ => by simp only [hs', if_true])
      rw [hk, hk] at e
      simp only [hns, if_false, Prod.mk.injEq] at e
      exact absurd e.2 (by simp)
    refine .once pre post hk ⟨⟨hcore.2.1.trans hg.db, hsc, False.elim⟩, hcore.1, hiff⟩ (fun w' => ?_)
    have := hpost.core w'
    simp only [World.core, Prod.mk.injEq] at this
    exact this.2.2.2

theorem Done.post {P : World → Prop} (hP : AccOnly P) {post : World → World} (hpost : ∀ w', (post w').acc = w'.acc)
    {r : R} (h : Done P r) : Done P (post r.1, r.2) := by
  rcases h with h | h
  · exact Or.inl h
  · exact Or.inr (hP _ _ (hpost _) h)

section recording
variable {U : String → Bool} {cfg : Cfg} {preds : List Pred} (hc : HC U cfg preds)
variable (hnc : ∀ p ∈ preds, ∀ c ∈ p.clauses, nocut c.body = true)
variable {P : World → Prop} (hP : AccOnly P)

/-- the statement for goals with a derivation of height at most `r`, at every fuel -/
def QRec (U : String → Bool) (cfg : Cfg) (preds : List Pred) (P : World → Prop) (r : Nat) : Prop :=
  ∀ f name, U name = true → ∀ args w θ k, Good False w → OwnL w.next args → Solves θ w.b →
    HN preds r name (args.map (Term.subst θ)) → Recs P θ w.next k → Done P (query cfg f name args k w)

include hc hP in
theorem solve_keep (f : Nat) (env : Env) (b : Body) (d : Nat) (hb : hornBy U b = true) :
    GRelP (KeepRel P) (solve (query cfg f) env d b) :=
  solve_relp (stepRel_keep hP) _ (fun name hU args => query_relp (stepRel_keep hP) hc f name hU args) env b d hb

include hc hP in
theorem runClauseRef_keep (f : Nat) (c : Clause) (hb : hornBy U c.body = true) (args : List Term) :
    GRelP (KeepRel P) (runClauseRef f (query cfg f) c args) :=
  runClauseRef_relp (stepRel_keep hP) f _ (fun name hU args => query_relp (stepRel_keep hP) hc f name hU args) c hb args

include hc hP in
theorem solve_rec (r f : Nat) (hq : QRec U cfg preds P r) :
    ∀ (b : Body) (d : Nat), hornBy U b = true → nocut b = true → ∀ (env : Env) (w : World) (θ : Val) (k : K),
      Good False w → EnvOwn w.next env → Solves θ w.b →
      bsem (HN preds r) (fun t => (t.eval env).subst θ) b → Recs P θ w.next k →
      Done P (solve (query cfg f) env d b k w)
  | .tru, d, _, _ => by
    intro env w θ k hg he hθ _ hk
    simp only [solve]
    exact hk.trig w hg (Nat.le_refl _) ⟨θ, fun _ _ => rfl, hθ⟩
  | .fail, d, _, _ => by intro env w θ k hg he hθ hb hk; exact hb.elim
  | .cut, d, _, h => by simp [nocut] at h
  | .call name args, d, hh, _ => by
    intro env w θ k hg he hθ hb hk
    simp only [solve]
    refine hq f name (by simpa [hornBy] using hh) _ w θ k hg (evalArgs_own he args) hθ ?_ hk
    rw [List.map_map]
    exact hb
  | .conj a b, d, hh, hn => by
    intro env w θ k hg he hθ hb hk
    simp only [hornBy, nocut, Bool.and_eq_true] at hh hn
    simp only [solve]
    refine solve_rec r f hq a d hh.1 hn.1 env w θ _ hg he hθ hb.1
      ⟨solve_qkGen hc False f env b d hh.2 k hk.qk, fun w' => solve_keep hc hP f env b d hh.2 k hk.keep w', ?_⟩
    intro w' hg' hn' ⟨θ', hag, hs'⟩
    refine solve_rec r f hq b d hh.2 hn.2 env w' θ' k hg' (he.mono hn') hs' ?_ (hk.mono hn' hag)
    refine bsem_congr (isInst_eval env θ) (isInst_eval env θ') b (fun v _ => ?_) hb.2
    simp only [STerm.eval]
    exact subst_congr _ (fun x hx => (hag x (get_own he v x hx)).symm)
  | .disj a b, d, hh, hn => by
    intro env w θ k hg he hθ hb hk
    simp only [hornBy, nocut, Bool.and_eq_true] at hh hn
    rw [solve_disj_eq _ env d a b k w (horn_not_ite hh.1)]
    rcases hb with hb | hb
    · exact andThenR_done (solve_rec r f hq a d hh.1 hn.1 env w θ k hg he hθ hb hk)
        (fun w' => solve_keep hc hP f env b d hh.2 k hk.keep w')
    · have hst : Step False w (solve (query cfg f) env d a k w).1 := (solve_qkGen hc False f env a d hh.1 k hk.qk).step hg
      have hbb : (solve (query cfg f) env d a k w).1.b = w.b := (solve_qkGen hc False f env a d hh.1 k hk.qk).b w
      revert hst hbb
      generalize solve (query cfg f) env d a k w = ra
      obtain ⟨w1, o⟩ := ra
      intro hst hbb
      cases o with
      | some s => rw [andThenR_some]; exact Done.of_sig _ _
      | none =>
        simp only [andThenR_none]
        exact solve_rec r f hq b d hh.2 hn.2 env w1 θ k hst.good (he.mono hst.next) (hbb ▸ hθ) hb
          (hk.mono hst.next (fun _ _ => rfl))
  | .ite _ _, _, h, _ => by simp [hornBy] at h
  | .neg _, _, h, _ => by simp [hornBy] at h
  | .cutif _, _, h, _ => by simp [hornBy] at h

include hP in
/-- head unification cannot fail on a heap that has a solution unifying the heads -/
theorem unifyHead_rec (fuel : Nat) (env : Env) (args : List Term) (g : Gen) (n : Nat) (θ : Val) (k : K)
    (hg : ∀ w, Good False w → w.next = n → Solves θ w.b → Done P (g k w)) :
    ∀ (us : List (Nat × STerm)) (w : World), Good False w → w.next = n → Solves θ w.b →
      (∀ p ∈ us, Own n (args.getD p.1 (.atom "$noarg")) ∧ Own n (p.2.eval env)) →
      (∀ p ∈ us, (args.getD p.1 (.atom "$noarg")).subst θ = (p.2.eval env).subst θ) →
      Done P (unifyHead fuel env args us g k w) := by
  intro us
  induction us with
  | nil => intro w hw hn hθ _ _; simp only [unifyHead]; exact hg w hw hn hθ
  | cons u us ih =>
    obtain ⟨i, t⟩ := u
    intro w hw hn hθ hown heq
    simp only [unifyHead]
    have ho := hown (i, t) List.mem_cons_self
    cases unify_gshapeA fuel (args.getD i (.atom "$noarg")) (t.eval env) hw (hn ▸ ho.1) (hn ▸ ho.2) with
    | oof r hr hk => rw [hk]; exact Or.inl (by rw [hr]; simp)
    | fail r hr hk hno => exact absurd (heq (i, t) List.mem_cons_self) (hno θ hθ)
    | once pre post hk hu hacc =>
      rw [hk]
      refine Done.post hP hacc ?_
      exact ih pre hu.good (hu.next.trans hn) ((hu.sol θ).mpr ⟨hθ, heq (i, t) List.mem_cons_self⟩)
        (fun p hp => hown p (List.mem_cons_of_mem _ hp)) (fun p hp => heq p (List.mem_cons_of_mem _ hp))

include hc hP in
/-- the clause of the derivation -/
theorem runClauseRef_rec (r f : Nat) (hq : QRec U cfg preds P r) (c : Clause) (args : List Term) (w : World)
    (θ : Val) (k : K) (ι : STerm → Term) (hι : IsInst ι) (hg : Good False w) (ha : OwnL w.next args)
    (hθ : Solves θ w.b) (hlen : c.head.length = args.length) (hb : hornBy U c.body = true)
    (hn : nocut c.body = true) (hargs : args.map (Term.subst θ) = c.head.map ι)
    (hbody : bsem (HN preds r) ι c.body) (hk : Recs P θ w.next k) :
    Done P (runClauseRef f (query cfg f) c args k w) := by
  unfold runClauseRef
  simp only
  generalize hnm : dedup ((c.head.map STerm.vars).flatten ++ c.body.vars) = names
  rw [allocVars_eq]
  simp only [List.nil_append]
  -- the solution on the fresh cells
  have hmem : ∀ v, v ∈ names ↔ v ∈ (c.head.map STerm.vars).flatten ++ c.body.vars := by
    intro v; rw [← hnm]; exact (dedup_spec _).2 v
  have hθ1 : Solves (extθ θ w.next names ι) w.b :=
    solves_agree hg.sc hθ (fun x hx => extθ_below θ w.next names ι hx)
  have henv : EnvOwn (w.next + names.length) (freshAssoc names w.next) := by
    have := allocVars_envOwn names [] w (fun p hp => by cases hp)
    rw [allocVars_eq] at this
    simpa using this
  have hvar : ∀ v ∈ names, ((freshAssoc names w.next).get v).subst (extθ θ w.next names ι) = ι (.var v) := by
    intro v hv
    rw [freshAssoc_get names w.next v hv]
    simp only [Term.subst]
    exact extθ_fresh θ w.next names ι hv
  have hterm : ∀ t : STerm, (∀ v ∈ t.vars, v ∈ names) →
      (t.eval (freshAssoc names w.next)).subst (extθ θ w.next names ι) = ι t := by
    intro t ht
    refine IsInst.ext (isInst_eval (freshAssoc names w.next) (extθ θ w.next names ι)) hι t (fun v hv => ?_)
    simp only [STerm.eval]
    exact hvar v (ht v hv)
  have hg1 : Good False { w with next := w.next + names.length } :=
    ⟨hg.db, hg.sc.of_b rfl (Nat.le_add_right _ _), False.elim⟩
  refine unifyHead_rec hP f (freshAssoc names w.next) args _ (w.next + names.length) (extθ θ w.next names ι) k ?_
    _ _ hg1 rfl hθ1 ?_ ?_
  · -- the body
    intro w2 hw2 hn2 hs2
    refine solve_rec hc hP r f hq c.body 0 hb hn _ w2 _ k hw2 (hn2 ▸ henv) hs2 ?_ ?_
    · refine bsem_congr hι (isInst_eval _ _) c.body (fun v hv => ?_) hbody
      simp only [STerm.eval]
      exact (hvar v ((hmem v).mpr (List.mem_append_right _ hv))).symm
    · exact hk.mono (by rw [hn2]; exact Nat.le_add_right _ _) (fun x hx => extθ_below θ w.next names ι hx)
  · intro p hp
    refine ⟨?_, eval_own henv _⟩
    rw [List.getD_eq_getElem?_getD]
    cases hi : args[p.1]? with
    | none => exact own_atom _ _
    | some a => exact (ha a (List.mem_of_getElem? hi)).mono (Nat.le_add_right _ _)
  · intro p hp
    obtain ⟨q, hq', rfl⟩ := List.mem_map.mp hp
    obtain ⟨t, i⟩ := q
    have hti : c.head[i]? = some t := List.mk_mem_zipIdx_iff_getElem?.mp hq'
    have hi : i < c.head.length := by
      rcases Nat.lt_or_ge i c.head.length with h | h
      · exact h
      · rw [List.getElem?_eq_none h] at hti; cases hti
    have hi' : i < args.length := hlen ▸ hi
    have ht : t = c.head[i] := by rw [List.getElem?_eq_getElem hi] at hti; exact (Option.some.inj hti).symm
    simp only [List.getD_eq_getElem?_getD, List.getElem?_eq_getElem hi', Option.getD_some]
    rw [hterm t (fun v hv => (hmem v).mpr (List.mem_append_left _ (by
      simp only [List.mem_flatten, List.mem_map]
      exact ⟨t.vars, ⟨t, List.mem_of_getElem? hti, rfl⟩, hv⟩)))]
    have e1 : (args[i]).subst (extθ θ w.next names ι) = (args[i]).subst θ :=
      subst_congr _ (fun x hx => extθ_below θ w.next names ι (ha _ (List.getElem_mem hi') x hx))
    rw [e1, ht]
    have := congrArg (fun l => l[i]?) hargs
    simp only [List.getElem?_map, List.getElem?_eq_getElem hi, List.getElem?_eq_getElem hi', Option.map_some] at this
    exact Option.some.inj this

include hc hnc in
/-- in a program without cut, what the clauses of a predicate hand to the frame is never a private signal -/
theorem runClauses_hard (f : Nat) (p : Pred) (hp : p ∈ preds) (args : List Term) (k : K) (hkh : HardK k) :
    ∀ (cs : List Clause), (∀ c' ∈ cs, c' ∈ p.clauses) → ∀ (w : World) (s : Sig),
      (runClauses (fun c => runClauseRef f (query cfg f) c args) cs k w).2 = some s → Hard s := by
  intro cs
  induction cs with
  | nil => intro _ w s h; simp [runClauses] at h
  | cons c' cs ih =>
    intro hsub w s
    have hc'p := hsub c' List.mem_cons_self
    have hhard := runClauseRef_hard cfg f c' ((hc.shape p hp).2.2 c' hc'p).2 (hnc p hp c' hc'p) args k hkh w
    rw [runClauses_cons_eq]
    revert hhard
    generalize runClauseRef f (query cfg f) c' args k w = r1
    obtain ⟨w1, o⟩ := r1
    intro hhard
    cases o with
    | some s' => rw [andThenR_some]; intro h; exact hhard s h
    | none =>
      rw [andThenR_none]
      exact ih (fun c'' h'' => hsub c'' (List.mem_cons_of_mem _ h'')) w1 s

include hc hnc hP in
/-- the clauses of the predicate: those before the clause of the derivation end with a reason or with the
    world restored; those after it keep what it has established -/
theorem runClauses_rec (r f : Nat) (hq : QRec U cfg preds P r) (p : Pred) (hp : p ∈ preds) (args : List Term)
    (hpa : p.arity = args.length) (c : Clause) (θ : Val) (n0 : Nat) (k : K)
    (ι : STerm → Term) (hι : IsInst ι) (hargs : args.map (Term.subst θ) = c.head.map ι)
    (hbody : bsem (HN preds r) ι c.body) (hk : Recs P θ n0 k) (ha : OwnL n0 args) :
    ∀ (cs : List Clause), (∀ c' ∈ cs, c' ∈ p.clauses) → c ∈ cs → ∀ (w : World), Good False w → n0 ≤ w.next →
      Solves θ w.b →
      Done P (runClauses (fun c => runClauseRef f (query cfg f) c args) cs k w) := by
  intro cs
  induction cs with
  | nil => intro _ hc' ; cases hc'
  | cons c' cs ih =>
    intro hsub hmem w hg hn hθ
    have hc'p := hsub c' List.mem_cons_self
    have hsh := (hc.shape p hp).2.2 c' hc'p
    have hnc' := hnc p hp c' hc'p
    rw [runClauses_cons_eq]
    have hqk := runClauseRef_qkGen hc False f c' hsh.2 args k hk.qk
    have hst : Step False w (runClauseRef f (query cfg f) c' args k w).1 := hqk.step hg
    have hbb : (runClauseRef f (query cfg f) c' args k w).1.b = w.b := hqk.b w
    have hrest : ∀ w', KeepRel P w' (runClauses (fun c => runClauseRef f (query cfg f) c args) cs k w').1 :=
      fun w' => runClauses_relp (stepRel_keep hP) _ cs
        (fun c'' h'' => runClauseRef_keep hc hP f c'' ((hc.shape p hp).2.2 c'' (hsub c'' (List.mem_cons_of_mem _ h''))).2 args)
        k hk.keep w'
    have hfirst : c' = c → Done P (runClauseRef f (query cfg f) c' args k w) := by
      intro e
      subst e
      exact runClauseRef_rec hc hP r f hq c' args w θ k ι hι hg (ha.mono hn) hθ (hsh.1.trans hpa) hsh.2 hnc' hargs
        hbody (hk.mono hn (fun _ _ => rfl))
    rcases List.mem_cons.mp hmem with e | hm
    · exact andThenR_done (hfirst e.symm) hrest
    · revert hst hbb
      generalize runClauseRef f (query cfg f) c' args k w = r1
      obtain ⟨w1, o⟩ := r1
      intro hst hbb
      cases o with
      | some s => rw [andThenR_some]; exact Done.of_sig _ _
      | none =>
        simp only [andThenR_none]
        exact ih (fun c'' h'' => hsub c'' (List.mem_cons_of_mem _ h'')) hm w1 hst.good (Nat.le_trans hn hst.next)
          (hbb ▸ hθ)

include hc hnc hP in
/-- **Completeness for recording consumers, for the ranked meaning of goals.** -/
theorem query_rec_all : ∀ r, QRec U cfg preds P r := by
  intro r
  induction r with
  | zero => intro f name hU args w θ k hg ha hθ hh hk; exact hh.elim
  | succ r ih =>
    intro f name hU args w θ k hg ha hθ hh hk
    cases f with
    | zero => simp only [query]; exact Done.of_sig _ _
    | succ f =>
      rw [query_succ_nil _ _ _ _ _ _ hg.db]
      rcases hh with ⟨hn, a, hargs⟩ | ⟨p, hp, c, hcm, ι, hι, hn, hargs, hbody⟩
      · -- `=`
        subst hn
        have hlen2 : args.length = 2 := by
          have := congrArg List.length hargs
          simpa using this
        obtain ⟨x, y, rfl⟩ := length_two hlen2
        simp only [List.map_cons, List.map_nil, List.cons.injEq, and_true] at hargs
        have hxy : x.subst θ = y.subst θ := hargs.1.trans hargs.2.symm
        rcases tail_eq hc f x y with h | ⟨n, h⟩
        · rw [h]; exact Done.of_sig _ _
        · rw [h]
          cases unify_gshapeA n x y hg (ha x (by simp)) (ha y (by simp)) with
          | oof r1 hr hk1 => rw [hk1]; exact Or.inl (by rw [hr]; simp)
          | fail r1 hr hk1 hno => exact absurd hxy (hno θ hθ)
          | once pre post hk1 hu hacc =>
            rw [hk1]
            refine Done.post hP hacc ?_
            exact hk.trig pre hu.good (Nat.le_of_eq hu.next.symm) ⟨θ, fun _ _ => rfl, (hu.sol θ).mpr ⟨hθ, hxy⟩⟩
      · -- a clause of the program
        subst hn
        have hsh := (hc.shape p hp).2.2 c hcm
        have hlen : args.length = p.arity := by
          have := congrArg List.length hargs
          simp only [List.length_map] at this
          rw [this]; exact hsh.1
        rcases tail_user hc f p hp args hlen with h | ⟨n, h⟩
        · rw [h]; exact Done.of_sig _ _
        · rw [h]
          exact leaveFrame_done
            (runClauses_hard hc hnc n p hp args (wrapK k) (hardK_wrapK k) p.clauses (fun _ h => h) w)
            (runClauses_rec hc hnc hP r n ih p hp args hlen.symm c θ w.next (wrapK k) ι hι hargs hbody hk.wrapK ha
              p.clauses (fun _ h => h) hcm w hg (Nat.le_refl _) hθ)

end recording

end Lg
end Yld
