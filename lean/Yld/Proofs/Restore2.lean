/-
  Theorem R (restoration), part 2: the whole engine.
-/
import Yld.Proofs.Restore
import Yld.Proofs.Parametric
namespace Yld

theorem thenSig_world (s : Sig) (r : R) : (thenSig s r).1 = r.1 := by
  obtain ⟨w, o⟩ := r; cases o <;> rfl
theorem catchBrk_world (l : Nat) (r : R) : (catchBrk l r).1 = r.1 := by
  obtain ⟨w, o⟩ := r
  cases o with
  | none => rfl
  | some s =>
    cases s <;> try rfl
    simp only [catchBrk_brk]; split <;> rfl
theorem leaveFrame_world (r : R) : (leaveFrame r).1 = r.1 := by
  obtain ⟨w, o⟩ := r
  cases o with
  | none => rfl
  | some s => cases s <;> rfl
theorem leaveOnce_world (r : R) : (leaveOnce r).1 = r.1 := by
  obtain ⟨w, o⟩ := r
  cases o with
  | none => rfl
  | some s => cases s <;> rfl

theorem andThenR_b (f : World → R) (r : R) (b0 : Bind) (hr : r.1.b = b0) (hf : ∀ w, w.b = b0 → (f w).1.b = b0) :
    (andThenR f r).1.b = b0 := by
  obtain ⟨w, o⟩ := r
  cases o with
  | none => simp only [andThenR_none]; exact hf w hr
  | some s => exact hr
theorem iteR_b (d : Nat) (f : World → R) (r : R) (b0 : Bind) (hr : r.1.b = b0) (hf : ∀ w, w.b = b0 → (f w).1.b = b0) :
    (iteR d f r).1.b = b0 := by
  obtain ⟨w, o⟩ := r
  cases o with
  | none => simp only [iteR_none]; exact hf w hr
  | some s =>
    cases s <;> try exact hr
    simp only [iteR_commit]; split <;> exact hr

theorem setFacts_b (w : World) (n : String) (a : Nat) (fs : List Fact) : (w.setFacts n a fs).b = w.b := by
  unfold World.setFacts; simp only; split <;> rfl

theorem wrapK_disciplined (k : K) (hk : Disciplined k) : Disciplined (wrapK k) := by
  intro w; unfold wrapK
  have := hk w
  cases h : k w with
  | mk w' s => rw [h] at this; cases s <;> exact this

theorem matchFact_restoring (f : Nat) (fact : Fact) (args : List Term) : Restoring (matchFact f fact args) := by
  intro k hk w
  unfold matchFact
  simp only
  split
  · exact unifyList_restores (unify f) (unify_restoring f) _ _ k hk _
  · rfl

theorem matchAll_restoring (f : Nat) (args : List Term) : ∀ cs, Restoring (matchAll f args cs) := by
  intro cs
  induction cs with
  | nil => intro k _ w; rfl
  | cons c cs ih =>
    intro k hk w
    simp only [matchAll]
    have h1 := matchFact_restoring f c args k hk w
    cases h : matchFact f c args k w with
    | mk w' s =>
      rw [h] at h1
      cases s with
      | none => simp only; rw [ih k hk w']; exact h1
      | some s => exact h1

theorem matchDynamic_restoring (f : Nat) (name : String) (args : List Term) : Restoring (matchDynamic f name args) := by
  intro k hk w; unfold matchDynamic; exact matchAll_restoring f args _ k hk w

theorem retractLoop_restoring (f : Nat) (name : String) (args : List Term) : ∀ cs, Restoring (retractLoop f name args cs) := by
  intro cs
  induction cs with
  | nil => intro k _ w; rfl
  | cons c cs ih =>
    intro k hk w
    simp only [retractLoop]
    split
    · have hk' : Disciplined (fun w' => k (w'.setFacts name args.length ((w'.facts name args.length).filter (·.id != c.id)))) := by
        intro w'; simp only; rw [hk, setFacts_b]
      have h1 := matchFact_restoring f c args _ hk' w
      cases h : matchFact f c args (fun w' => k (w'.setFacts name args.length ((w'.facts name args.length).filter (·.id != c.id)))) w with
      | mk w' s =>
        rw [h] at h1
        cases s with
        | none => simp only; rw [ih k hk w']; exact h1
        | some s => exact h1
    · exact ih k hk w

theorem runPy_restoring (f : Nat) (r : Option Nat) (args : List Term) : ∀ rows i, Restoring (runPy f rows r i args) := by
  intro rows
  induction rows with
  | nil => intro i k _ w; simp only [runPy]; split <;> rfl
  | cons row rows ih =>
    intro i k hk w
    simp only [runPy]
    split
    · rfl
    · have h1 := matchFact_restoring f row args k hk w
      cases h : matchFact f row args k w with
      | mk w' s =>
        rw [h] at h1
        cases s with
        | none => simp only; rw [ih (i+1) k hk w']; exact h1
        | some s => exact h1

def QRestoring (q : Q) : Prop := ∀ name args, Restoring (q name args)

theorem exec_restoring (q : Q) (hq : QRestoring q) (env : Env) :
    (∀ c, Restoring (exec q env c)) ∧ (∀ cs, Restoring (execList q env cs)) := by
  have key : ∀ c, Restoring (exec q env c) := by
    intro c
    induction c using Code.rec (motive_2 := fun cs => Restoring (execList q env cs)) with
    | yieldF => intro k hk w; rw [exec_yieldF]; exact hk w
    | yieldT => intro k hk w; rw [exec_yieldT]; exact hk w
    | ret => intro k _ w; rw [exec_ret]
    | brk l => intro k _ w; rw [exec_brk]
    | block l body ih => intro k hk w; rw [exec_block, catchBrk_world]; exact ih k hk w
    | foreach name args body ih =>
      intro k hk w
      rw [exec_foreach]
      exact hq name _ _ (fun w' => ih k hk w') w
    | nil => intro k _ w; rw [execList_nil]
    | cons c cs ihc ihcs =>
      intro k hk w
      rw [execList_cons]
      exact andThenR_b _ _ w.b (ihc k hk w) (fun w' hw' => by rw [ihcs k hk w']; exact hw')
  refine ⟨key, ?_⟩
  intro cs
  induction cs with
  | nil => intro k _ w; rw [execList_nil]
  | cons c cs ih =>
    intro k hk w
    rw [execList_cons]
    exact andThenR_b _ _ w.b (key c k hk w) (fun w' hw' => by rw [ih k hk w']; exact hw')

theorem solve_restoring (q : Q) (hq : QRestoring q) (env : Env) :
    ∀ (b : Body) (d : Nat), Restoring (solve q env d b)
  | .tru, d => by intro k hk w; simp only [solve]; exact hk w
  | .fail, d => by intro k _ w; simp only [solve]
  | .cutif l, d => by intro k hk w; simp only [solve]; exact hk w
  | .cut, d => by intro k hk w; simp only [solve]; rw [thenSig_world]; exact hk w
  | .call name args, d => by intro k hk w; simp only [solve]; exact hq name _ k hk w
  | .conj a b, d => by
    intro k hk w
    simp only [solve]
    exact solve_restoring q hq env a d _ (fun w' => solve_restoring q hq env b d k hk w') w
  | .disj (.ite c t) e, d => by
    intro k hk w
    simp only [solve]
    refine iteR_b d _ _ w.b ?_ (fun w' hw' => by rw [solve_restoring q hq env e d k hk w']; exact hw')
    exact solve_restoring q hq env c (d+1) _ (fun w' => by rw [thenSig_world]; exact solve_restoring q hq env t d k hk w') w
  | .disj .tru b, d => by
    intro k hk w
    rw [solve_disj_eq q env d .tru b k w (by intro c t h; cases h)]
    exact andThenR_b _ _ w.b (solve_restoring q hq env .tru d k hk w) (fun w' hw' => by rw [solve_restoring q hq env b d k hk w']; exact hw')
  | .disj .fail b, d => by
    intro k hk w
    rw [solve_disj_eq q env d .fail b k w (by intro c t h; cases h)]
    exact andThenR_b _ _ w.b (solve_restoring q hq env .fail d k hk w) (fun w' hw' => by rw [solve_restoring q hq env b d k hk w']; exact hw')
  | .disj .cut b, d => by
    intro k hk w
    rw [solve_disj_eq q env d .cut b k w (by intro c t h; cases h)]
    exact andThenR_b _ _ w.b (solve_restoring q hq env .cut d k hk w) (fun w' hw' => by rw [solve_restoring q hq env b d k hk w']; exact hw')
  | .disj (.cutif l) b, d => by
    intro k hk w
    rw [solve_disj_eq q env d (.cutif l) b k w (by intro c t h; cases h)]
    exact andThenR_b _ _ w.b (solve_restoring q hq env (.cutif l) d k hk w) (fun w' hw' => by rw [solve_restoring q hq env b d k hk w']; exact hw')
  | .disj (.call nm ar) b, d => by
    intro k hk w
    rw [solve_disj_eq q env d (.call nm ar) b k w (by intro c t h; cases h)]
    exact andThenR_b _ _ w.b (solve_restoring q hq env (.call nm ar) d k hk w) (fun w' hw' => by rw [solve_restoring q hq env b d k hk w']; exact hw')
  | .disj (.conj a1 a2) b, d => by
    intro k hk w
    rw [solve_disj_eq q env d (.conj a1 a2) b k w (by intro c t h; cases h)]
    exact andThenR_b _ _ w.b (solve_restoring q hq env (.conj a1 a2) d k hk w) (fun w' hw' => by rw [solve_restoring q hq env b d k hk w']; exact hw')
  | .disj (.disj a1 a2) b, d => by
    intro k hk w
    rw [solve_disj_eq q env d (.disj a1 a2) b k w (by intro c t h; cases h)]
    exact andThenR_b _ _ w.b (solve_restoring q hq env (.disj a1 a2) d k hk w) (fun w' hw' => by rw [solve_restoring q hq env b d k hk w']; exact hw')
  | .disj (.neg a1) b, d => by
    intro k hk w
    rw [solve_disj_eq q env d (.neg a1) b k w (by intro c t h; cases h)]
    exact andThenR_b _ _ w.b (solve_restoring q hq env (.neg a1) d k hk w) (fun w' hw' => by rw [solve_restoring q hq env b d k hk w']; exact hw')
  | .ite c t, d => by
    intro k hk w
    simp only [solve]
    refine iteR_b d _ _ w.b ?_ (fun w' hw' => hw')
    exact solve_restoring q hq env c (d+1) _ (fun w' => by rw [thenSig_world]; exact solve_restoring q hq env t d k hk w') w
  | .neg a, d => by
    intro k hk w
    simp only [solve]
    refine iteR_b d _ _ w.b ?_ (fun w' hw' => by rw [hk w']; exact hw')
    exact solve_restoring q hq env a (d+1) _ (fun w' => rfl) w


theorem allocVars_b (names : List String) (env : Env) (w : World) : (allocVars names env w).2.b = w.b := by
  induction names generalizing env w with
  | nil => rfl
  | cons n ns ih =>
    have step : allocVars (n :: ns) env w = allocVars ns (env ++ [(n, .var w.next)]) { w with next := w.next + 1 } := by
      simp [allocVars, World.fresh]
    rw [step, ih]

theorem unifyHead_restoring (fuel : Nat) (env : Env) (args : List Term) (g : Gen) (hg : Restoring g) :
    ∀ us, Restoring (unifyHead fuel env args us g) := by
  intro us
  induction us with
  | nil => simpa [unifyHead] using hg
  | cons u us ih =>
    obtain ⟨i, t⟩ := u
    intro k hk w
    simp only [unifyHead]
    exact unify_restoring fuel _ _ _ (fun w' => ih k hk w') w

theorem runClauseCompiled_restoring (fuel : Nat) (q : Q) (hq : QRestoring q) (cc : ClauseCode) (args : List Term) :
    Restoring (runClauseCompiled fuel q cc args) := by
  intro k hk w
  unfold runClauseCompiled
  simp only
  rw [unifyHead_restoring fuel _ args _ ((exec_restoring q hq _).2 _) _ k hk _, allocVars_b, allocVars_b]

theorem runClauseRef_restoring (fuel : Nat) (q : Q) (hq : QRestoring q) (c : Clause) (args : List Term) :
    Restoring (runClauseRef fuel q c args) := by
  intro k hk w
  unfold runClauseRef
  simp only
  rw [unifyHead_restoring fuel _ args _ (solve_restoring q hq _ _ 0) _ k hk _, allocVars_b]

theorem runClauseRefBody_restoring (fuel : Nat) (q : Q) (hq : QRestoring q) (cc : ClauseCode) (body : Body) (args : List Term) :
    Restoring (runClauseRefBody fuel q cc body args) := by
  intro k hk w
  unfold runClauseRefBody
  simp only
  rw [unifyHead_restoring fuel _ args _ (solve_restoring q hq _ _ 0) _ k hk _, allocVars_b, allocVars_b]

theorem runClauses_restoring {α : Type} (run : α → Gen) (hrun : ∀ c, Restoring (run c)) : ∀ cs, Restoring (runClauses run cs) := by
  intro cs
  induction cs with
  | nil => intro k _ w; rfl
  | cons c cs ih =>
    intro k hk w
    simp only [runClauses]
    have h1 := hrun c k hk w
    cases h : run c k w with
    | mk w' s =>
      rw [h] at h1
      cases s with
      | none => simp only; rw [ih k hk w']; exact h1
      | some s => exact h1

theorem onceGen_restoring (g : Gen) (hg : Restoring g) : Restoring (onceGen g) := by
  intro k hk w
  unfold onceGen
  rw [leaveOnce_world]
  exact hg _ (fun w' => by rw [thenSig_world]; exact wrapK_disciplined k hk w') w

theorem findallCollect_disciplined (f : Nat) (tmpl : Term) : Disciplined (findallCollect f tmpl) := by
  intro w
  unfold findallCollect
  split <;> rfl

theorem assertFact_b (f : Nat) (name : String) (vs : List Term) (app : Bool) (w : World) :
    (assertFact f name vs app w).1.b = w.b := by
  unfold assertFact
  split
  · rfl
  · simp only; exact setFacts_b _ _ _ _

theorem factMatches_b (f : Nat) (c : Fact) (args : List Term) (w : World) : (factMatches f c args w).1.b = w.b := by
  unfold factMatches
  have h := matchFact_restoring f c args (fun w' => (w', some .stop)) (fun _ => rfl) w
  generalize matchFact f c args (fun w' => (w', some Sig.stop)) w = r at h
  obtain ⟨w', o⟩ := r
  cases o with
  | none => exact h
  | some s => cases s <;> exact h

theorem retractAllLoop_b (f : Nat) (args : List Term) : ∀ (cs keep : List Fact) (w : World),
    (retractAllLoop f args cs keep w).1.b = w.b := by
  intro cs
  induction cs with
  | nil => intro keep w; rfl
  | cons c cs ih =>
    intro keep w
    simp only [retractAllLoop]
    have h := factMatches_b f c args w
    generalize factMatches f c args w = r at h
    obtain ⟨w', res⟩ := r
    cases res with
    | error s => exact h
    | ok bb => cases bb <;> (simp only; rw [ih]; exact h)

def AllRestoring (cfg : Cfg) (f : Nat) : Prop :=
  (∀ name args, Restoring (query cfg f name args)) ∧
  (∀ ds args, Restoring (runChain cfg f ds args)) ∧
  (∀ d args, Restoring (runDef cfg f d args)) ∧
  (∀ b args, Restoring (runBuiltin cfg f b args)) ∧
  (∀ g extra, Restoring (callGoal cfg f g extra))

theorem allRestoring (cfg : Cfg) : ∀ f, AllRestoring cfg f := by
  intro f
  induction f with
  | zero =>
    refine ⟨?_, ?_, ?_, ?_, ?_⟩ <;> intros <;> intro k _ w
    · simp only [query]
    · simp only [runChain]
    · simp only [runDef]
    · simp only [runBuiltin]
    · simp only [callGoal]
  | succ f ih =>
    obtain ⟨ihQ, ihC, ihD, ihB, ihG⟩ := ih
    refine ⟨?_, ?_, ?_, ?_, ?_⟩
    · intro name args k hk w
      simp only [query]
      have h1 := matchDynamic_restoring f name args k hk w
      cases h : matchDynamic f name args k w with
      | mk w1 o =>
        rw [h] at h1
        cases o with
        | some s => exact h1
        | none =>
          simp only
          split
          · exact h1
          · split
            · exact h1
            · rw [ihC _ args k hk w1]; exact h1
    · intro ds args k hk w
      cases ds with
      | nil => simp only [runChain]
      | cons d ds =>
        simp only [runChain]
        have h1 := ihD d args k hk w
        cases h : runDef cfg f d args k w with
        | mk w1 o =>
          rw [h] at h1
          cases o with
          | some s => exact h1
          | none => simp only; rw [ihC ds args k hk w1]; exact h1
    · intro d args k hk w
      cases d with
      | prolog p mode =>
        simp only [runDef]
        cases mode with
        | compiled =>
          simp only; rw [leaveFrame_world]
          exact runClauses_restoring _ (fun cc => runClauseCompiled_restoring f _ ihQ cc args) _ _ (wrapK_disciplined k hk) w
        | reference =>
          simp only; rw [leaveFrame_world]
          exact runClauses_restoring _ (fun c => runClauseRef_restoring f _ ihQ c args) _ _ (wrapK_disciplined k hk) w
        | refbody =>
          simp only; rw [leaveFrame_world]
          exact runClauses_restoring _ (fun (x : ClauseCode × Clause) => runClauseRefBody_restoring f _ ihQ x.1 x.2.body args) _ _ (wrapK_disciplined k hk) w
      | py p => simp only [runDef]; exact runPy_restoring f _ args _ _ k hk w
      | builtin b => simp only [runDef]; exact ihB b args k hk w
    · intro b args k hk w
      simp only [runBuiltin]
      split
      · exact unify_restoring f _ _ k hk w
      · rename_i a b
        have h1 := ihQ "=" [a, b] (fun w' => (w', some .stop)) (fun _ => rfl) w
        generalize query cfg f "=" [a, b] (fun w' => (w', some Sig.stop)) w = r at h1
        obtain ⟨w1, o⟩ := r
        cases o with
        | none => simp only; rw [hk w1]; exact h1
        | some s => cases s <;> exact h1
      · exact ihG _ _ k hk w
      · exact onceGen_restoring _ (ihG _ _) k hk w
      · rename_i tmpl g bag
        have h1 := ihG g [] (findallCollect f tmpl) (findallCollect_disciplined f tmpl) { w with acc := [] :: w.acc }
        generalize callGoal cfg f g [] (findallCollect f tmpl) { w with acc := [] :: w.acc } = r at h1
        obtain ⟨w1, o⟩ := r
        cases o with
        | none => simp only; rw [unify_restoring f _ _ k hk _]; exact h1
        | some s => exact h1
      · rename_i t
        cases hfn : factNameArgs f w t with
        | error s => rfl
        | ok na =>
          obtain ⟨name, as⟩ := na
          simp only
          have h1 := assertFact_b f name as true w
          generalize assertFact f name as true w = r at h1
          obtain ⟨w1, o⟩ := r
          cases o with
          | none => simp only; rw [hk w1]; exact h1
          | some s => exact h1
      · rename_i t
        cases hfn : factNameArgs f w t with
        | error s => rfl
        | ok na =>
          obtain ⟨name, as⟩ := na
          simp only
          have h1 := assertFact_b f name as false w
          generalize assertFact f name as false w = r at h1
          obtain ⟨w1, o⟩ := r
          cases o with
          | none => simp only; rw [hk w1]; exact h1
          | some s => exact h1
      · rename_i t
        cases hfn : factNameArgs f w t with
        | error s => rfl
        | ok na =>
          obtain ⟨name, as⟩ := na
          simp only
          exact retractLoop_restoring f name as _ k hk w
      · rename_i t
        cases hfn : factNameArgs f w t with
        | error s => rfl
        | ok na =>
          obtain ⟨name, as⟩ := na
          simp only
          have h1 := retractAllLoop_b f as (w.facts name as.length) [] w
          generalize retractAllLoop f as (w.facts name as.length) [] w = r at h1
          obtain ⟨w1, res⟩ := r
          cases res with
          | ok keep => simp only; rw [hk, setFacts_b]; exact h1
          | error s => exact h1
      · rfl
    · intro g extra k hk w
      simp only [callGoal]
      split
      · rfl
      · exact ihQ _ _ k hk w
      · exact ihQ _ _ k hk w
      · rfl

/-- **Theorem R.** Whatever is queried, under every definition table, at every fuel: when the
    query generator has ended — exhausted, closed or dropped after any answer, unwound by an
    exception of the consumer or of a user predicate, or aborted by the recursion limit — every
    binding cell is in the state it had before the generator was started. -/
theorem query_restoring (cfg : Cfg) (f : Nat) (name : String) (args : List Term) : Restoring (query cfg f name args) :=
  (allRestoring cfg f).1 name args

theorem topConsumer_disciplined (fuel : Nat) (args : List Term) (sched : Sched) : Disciplined (topConsumer fuel args sched) := by
  intro w
  unfold topConsumer
  split
  · rfl
  · simp only
    repeat (first | rfl | split)

/-- Through the API: whatever the query, the engine's definitions, the fuel and the way the
    consumer ends the enumeration (exhaust it, close it after the k-th answer, raise at the k-th
    answer, never start it), all variables are afterwards bound exactly as before. -/
theorem engine_query_restores (e : Engine) (m : Mode) (fuel : Nat) (name : String) (args : List Term) (sched : Sched) :
    (e.query m fuel name args sched).1.w.b = e.w.b := by
  unfold Engine.query
  simp only
  cases sched with
  | all => exact query_restoring _ fuel name args _ (topConsumer_disciplined fuel args _) _
  | stop k =>
    cases k with
    | zero => rfl
    | succ k => exact query_restoring _ fuel name args _ (topConsumer_disciplined fuel args _) _
  | raise k =>
    cases k with
    | zero => rfl
    | succ k => exact query_restoring _ fuel name args _ (topConsumer_disciplined fuel args _) _

theorem evaluate_bounded_restores (e : Engine) (m : Mode) (limit : Nat) (name : String) (args : List Term) (r : Option Nat) :
    (e.evaluateBounded m limit name args r).1.w.b = e.w.b := by
  unfold Engine.evaluateBounded
  exact engine_query_restores e m limit name args _


end Yld
