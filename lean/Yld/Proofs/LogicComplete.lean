/-
  Completeness at the API (C01): a search that runs to its end has *recorded* every consequence.

  `Yld.Proofs.Logic` proves completeness at the generator level, with the consumer `waitFor θ` that is
  triggered when the instance θ of the goal is reached. Here the statement is about what the caller of
  the API gets: the list of recorded answers. If the enumeration of all answers of a cut-free Horn
  program ends normally (`ending = none`: not cut off by the limit, no exception), then every instance
  of the goal that follows from the program is an instance of one of the recorded answers.

  STATEMENTS IN THIS FILE ARE FIXED (see the task description); proofs to be supplied.

  The proofs are in `Yld.Proofs.LcRecord` (the completeness induction of `LgComplete`, re-done for
  consumers that record instead of answering with a reason) and `Yld.Proofs.LcApi` (the collecting
  consumer of the API is such a consumer); see `LOGIC_COMPLETE_REPORT.md`.
-/
import Yld.Proofs.Logic
import Yld.Proofs.LcApi
namespace Yld

/-- **Completeness at the API.** -/
theorem answers_cover_all_consequences (e : Engine) (hwf : e.WF) (preds : List Pred)
    (h : HornCfg { blacklist := e.blacklist, defs := e.defs, mode := .reference } preds)
    (hnocut : ∀ p ∈ preds, ∀ c ∈ p.clauses, c.body.cutFree = true) (hdb : e.w.db = [])
    (f : Nat) (name : String) (args : List Term) (hname : userName name = true) (hargs : ArgsScoped e args)
    (hend : (e.query .reference f name args .all).2.ending = none)
    (θ : Nat → Term) (hθ : Solves θ e.w.b) (hh : Holds preds name (args.map (Term.subst θ))) :
    ∃ ans ∈ (e.query .reference f name args .all).2.answers,
      ∃ ts, ans = .fn "$ans" ts ∧ ∃ ρ : Nat → Term, ts.map (Term.subst ρ) = args.map (Term.subst θ) := by
  obtain ⟨r, hr⟩ := holds_hn preds hh
  have hg : Lg.Good False { e.w with acc := [] :: e.w.acc, cyc := false } := ⟨hdb, hwf.inScope, False.elim⟩
  unfold Engine.query at hend ⊢
  simp only [Bool.false_eq_true, if_false] at hend ⊢
  exact Lg.answers_complete h.hc (fun p hp c hc => by rw [← cutFree_eq_nocut]; exact hnocut p hp c hc) f hname
    args _ hg hargs θ hθ r hr hend

/-- Soundness and completeness together, for a completed enumeration: the instances of the recorded
    answers are exactly the instances of the goal (under solutions of the starting heap) that follow
    from the program. -/
theorem answers_are_exactly_the_consequences (e : Engine) (hwf : e.WF) (preds : List Pred)
    (h : HornCfg { blacklist := e.blacklist, defs := e.defs, mode := .reference } preds)
    (hnocut : ∀ p ∈ preds, ∀ c ∈ p.clauses, c.body.cutFree = true) (hdb : e.w.db = [])
    (f : Nat) (name : String) (args : List Term) (hname : userName name = true) (hargs : ArgsScoped e args)
    (hend : (e.query .reference f name args .all).2.ending = none)
    (hc : (e.query .reference f name args .all).2.cyc = false) :
    (∀ ans ∈ (e.query .reference f name args .all).2.answers,
      ∃ ts, ans = .fn "$ans" ts ∧ ∀ ρ : Nat → Term, Holds preds name (ts.map (Term.subst ρ))) ∧
    (∀ θ, Solves θ e.w.b → Holds preds name (args.map (Term.subst θ)) →
      ∃ ans ∈ (e.query .reference f name args .all).2.answers,
        ∃ ts, ans = .fn "$ans" ts ∧ ∃ ρ : Nat → Term, ts.map (Term.subst ρ) = args.map (Term.subst θ)) :=
  ⟨answers_are_consequences e hwf preds h hdb f name args hname hargs .all hc,
   fun θ hθ hh => answers_cover_all_consequences e hwf preds h hnocut hdb f name args hname hargs hend θ hθ hh⟩

/-! ### Non-vacuity: the program `app/3` of `Yld.Proofs.Logic`

The goal `app(X,Y,[a])` (`X`, `Y` the cells 0 and 1; the engine as constructed has 1000 cells), the
instance `X = [a], Y = []`: a completed enumeration has recorded an answer of which `app([a],[],[a])`
is an instance. The hypothesis `ending = none` is satisfiable: from the limit 8 on the enumeration
ends normally, with the two answers `app([],[a],[a])` and `app([a],[],[a])` (the `#eval` below; by
evaluation of the compiled model, not in the kernel — the kernel does not reduce `query`). -/

theorem appEngine_wf : appEngine.WF := wf_load _ Engine.WF.default _ _ _

theorem appGoal_argsScoped : ArgsScoped appEngine appGoal := by
  simp [ArgsScoped, appGoal, appEngine, Engine.load, Term.vars, mkList]

theorem appθ_solves_engine : Solves appθ appEngine.w.b := fun x u h => by cases h

example (f : Nat) (hend : (appEngine.query .reference f "app" appGoal .all).2.ending = none) :
    ∃ ans ∈ (appEngine.query .reference f "app" appGoal .all).2.answers,
      ∃ ts, ans = .fn "$ans" ts ∧ ∃ ρ : Nat → Term, ts.map (Term.subst ρ) = appGoal.map (Term.subst appθ) :=
  answers_cover_all_consequences appEngine appEngine_wf [appPred] app_hornCfg app_nocut rfl f "app" appGoal
    (by decide) appGoal_argsScoped hend appθ (appθ_solves_engine) appGoal_holds

#eval (appEngine.query .reference 8 "app" appGoal .all).2.ending
#eval (appEngine.query .reference 8 "app" appGoal .all).2.answers

#print axioms answers_cover_all_consequences
#print axioms answers_are_exactly_the_consequences

end Yld
