/-
  Unification yields at most once, and when it yields the two terms denote the same term.
  `Res b t t'` is the relational form of `get_value`: under the bindings b the term t dereferences,
  at every depth, to t'. No fuel, no acyclicity assumption: if a term has no finite value under b
  (cyclic bindings), `Res b t _` is simply empty, and "denote the same" is stated as
  "have the same values".
-/
import Yld.Proofs.Restore
namespace Yld

/-- How a generator that yields at most once looks from outside: either it never calls its
    consumer (its outcome does not depend on the consumer at all), or it calls it exactly once, on
    a world that does not depend on the consumer, and post-processes the world the consumer hands
    back while handing the consumer's answer on unchanged. -/
inductive Shape (g : Gen) (w : World) : Prop
  | never (r : R) : (∀ k, g k w = r) → Shape g w
  | once (pre : World) (post : World → World) : (∀ k, g k w = ((post (k pre).1), (k pre).2)) → Shape g w

theorem bindGen_shape (x : Nat) (t : Term) (w : World) : Shape (bindGen x t) w :=
  Shape.once { w with b := bind w.b x t } (fun w' => { w' with b := unbind w'.b x }) (fun _ => rfl)

theorem unifyList_shape (u : Term → Term → Gen) (hu : ∀ a b w, Shape (u a b) w) :
    ∀ as bs w, Shape (unifyList u as bs) w := by
  intro as
  induction as with
  | nil =>
    intro bs w
    cases bs with
    | nil => exact Shape.once w id (fun k => by simp [unifyList])
    | cons b bs => exact Shape.never (w, none) (fun k => by simp [unifyList])
  | cons a as ih =>
    intro bs w
    cases bs with
    | nil => exact Shape.never (w, none) (fun k => by simp [unifyList])
    | cons b bs =>
      cases hu a b w with
      | never r h => exact Shape.never r (fun k => by simp only [unifyList]; exact h _)
      | once pre post h =>
        cases ih bs pre with
        | never r2 h2 =>
          exact Shape.never (post r2.1, r2.2) (fun k => by simp only [unifyList]; rw [h]; simp only [h2])
        | once pre2 post2 h2 =>
          exact Shape.once pre2 (fun w' => post (post2 w')) (fun k => by simp only [unifyList]; rw [h]; simp only [h2])

theorem shape_of_eq {g g' : Gen} {w w' : World} (h : ∀ k, g k w = g' k w') (s : Shape g' w') : Shape g w := by
  cases s with
  | never r hr => exact Shape.never r (fun k => by rw [h, hr])
  | once pre post hr => exact Shape.once pre post (fun k => by rw [h, hr])

theorem shape_yield (w : World) {g : Gen} (h : ∀ k, g k w = k w) : Shape g w :=
  Shape.once w id (fun k => by rw [h]; rfl)

theorem shape_fail (w : World) {g : Gen} (h : ∀ k, g k w = (w, none)) : Shape g w := Shape.never (w, none) h

/-- unify yields at most once: its consumer is called zero times or exactly once, on a world fixed
    by the terms and the starting world alone. -/
theorem unify_shape (f : Nat) : ∀ t1 t2 w, Shape (unify f t1 t2) w := by
  induction f with
  | zero => intro t1 t2 w; exact Shape.never (w, some .oof) (fun k => by simp [unify])
  | succ f ih =>
    intro t1 t2 w
    cases h1 : walk w.b (f+1) t1 with
    | none => exact Shape.never (w, some .oof) (fun k => by simp [unify, h1])
    | some a1 =>
      cases h2 : walk w.b (f+1) t2 with
      | none => exact Shape.never (w, some .oof) (fun k => by simp [unify, h1, h2])
      | some a2 =>
        cases a1 with
        | var x =>
          cases a2 with
          | var y =>
            by_cases hxy : x = y
            · exact shape_yield w (fun k => by simp [unify, h1, h2, hxy])
            · exact shape_of_eq (g' := bindGen x (.var y)) (w' := w) (fun k => by simp [unify, h1, h2, hxy]) (bindGen_shape _ _ _)
          | atom s => exact shape_of_eq (g' := bindGen x (.atom s)) (w' := markCyc cycFuel x (.atom s) w) (fun k => by simp only [unify, h1, h2]) (bindGen_shape _ _ _)
          | int i => exact shape_of_eq (g' := bindGen x (.int i)) (w' := markCyc cycFuel x (.int i) w) (fun k => by simp only [unify, h1, h2]) (bindGen_shape _ _ _)
          | fn g as => exact shape_of_eq (g' := bindGen x (.fn g as)) (w' := markCyc cycFuel x (.fn g as) w) (fun k => by simp only [unify, h1, h2]) (bindGen_shape _ _ _)
        | atom s =>
          cases a2 with
          | var y => exact shape_of_eq (g' := bindGen y (.atom s)) (w' := markCyc cycFuel y (.atom s) w) (fun k => by simp only [unify, h1, h2]) (bindGen_shape _ _ _)
          | atom s' =>
            by_cases hs : s = s'
            · exact shape_yield w (fun k => by simp [unify, h1, h2, hs])
            · exact shape_fail w (fun k => by simp [unify, h1, h2, hs])
          | int i => exact shape_fail w (fun k => by simp [unify, h1, h2])
          | fn g as => exact shape_fail w (fun k => by simp [unify, h1, h2])
        | int i =>
          cases a2 with
          | var y => exact shape_of_eq (g' := bindGen y (.int i)) (w' := markCyc cycFuel y (.int i) w) (fun k => by simp only [unify, h1, h2]) (bindGen_shape _ _ _)
          | atom s' => exact shape_fail w (fun k => by simp [unify, h1, h2])
          | int j =>
            by_cases hs : i = j
            · exact shape_yield w (fun k => by simp [unify, h1, h2, hs])
            · exact shape_fail w (fun k => by simp [unify, h1, h2, hs])
          | fn g as => exact shape_fail w (fun k => by simp [unify, h1, h2])
        | fn g as =>
          cases a2 with
          | var y => exact shape_of_eq (g' := bindGen y (.fn g as)) (w' := markCyc cycFuel y (.fn g as) w) (fun k => by simp only [unify, h1, h2]) (bindGen_shape _ _ _)
          | atom s' => exact shape_fail w (fun k => by simp [unify, h1, h2])
          | int j => exact shape_fail w (fun k => by simp [unify, h1, h2])
          | fn g' as' =>
            by_cases hg : g = g' ∧ as.length = as'.length
            · exact shape_of_eq (g' := unifyList (unify f) as as') (w' := w)
                (fun k => by simp only [unify, h1, h2, hg, and_self, if_true]) (unifyList_shape (unify f) ih as as' w)
            · exact shape_fail w (fun k => by simp only [unify, h1, h2, hg, if_false])

mutual
/-- `Res b t t'`: under the bindings b, the term t dereferences (at every depth) to t'. -/
inductive Res (b : Bind) : Term → Term → Prop
  | varU (x : Nat) : b x = none → Res b (.var x) (.var x)
  | varB (x : Nat) (t t' : Term) : b x = some t → Res b t t' → Res b (.var x) t'
  | atom (s : String) : Res b (.atom s) (.atom s)
  | int (i : Int) : Res b (.int i) (.int i)
  | fn (g : String) (as as' : List Term) : ResL b as as' → Res b (.fn g as) (.fn g as')
inductive ResL (b : Bind) : List Term → List Term → Prop
  | nil : ResL b [] []
  | cons (a a' : Term) (as as' : List Term) : Res b a a' → ResL b as as' → ResL b (a :: as) (a' :: as')
end

/-- t1 and t2 denote the same term under b. -/
def Same (b : Bind) (t1 t2 : Term) : Prop := ∀ t', Res b t1 t' ↔ Res b t2 t'
def SameL (b : Bind) (as bs : List Term) : Prop := ∀ ts, ResL b as ts ↔ ResL b bs ts

/-- b' is b with one more (previously unbound) variable bound. -/
def Ext1 (b b' : Bind) : Prop := ∃ x u, b x = none ∧ b' = bind b x u

/-- b' agrees with b wherever b is bound. -/
def Extends (b b' : Bind) : Prop := ∀ x t, b x = some t → b' x = some t

theorem Ext1.extends {b b' : Bind} (h : Ext1 b b') : Extends b b' := by
  obtain ⟨x, u, hx, rfl⟩ := h
  intro y t hy
  unfold bind
  by_cases hyx : y = x
  · subst hyx; rw [hx] at hy; cases hy
  · simp [hyx, hy]

theorem res_var_bound {b : Bind} {x : Nat} {t t' : Term} (h : b x = some t) : Res b (.var x) t' ↔ Res b t t' := by
  constructor
  · intro r
    cases r with
    | varU _ hu => rw [h] at hu; cases hu
    | varB _ t0 _ h0 r0 => rw [h] at h0; cases h0; exact r0
  · intro r; exact .varB x t t' h r

/-- walking does not change what a term denotes, under any extension of the bindings walked. -/
theorem walk_res {b b' : Bind} (he : Extends b b') : ∀ (f : Nat) (t a : Term), walk b f t = some a →
    ∀ t', Res b' t t' ↔ Res b' a t' := by
  intro f
  induction f with
  | zero => intro t a h; simp [walk] at h
  | succ f ih =>
    intro t a h t'
    cases t with
    | var n =>
      simp only [walk] at h
      cases hb : b n with
      | none => rw [hb] at h; simp at h; subst h; exact Iff.rfl
      | some u =>
        rw [hb] at h; simp only at h
        rw [res_var_bound (he n u hb)]
        exact ih u a h t'
    | atom s => simp [walk] at h; subst h; exact Iff.rfl
    | int i => simp [walk] at h; subst h; exact Iff.rfl
    | fn g as => simp [walk] at h; subst h; exact Iff.rfl


theorem res_fn_iff {b : Bind} {g : String} {as : List Term} {t : Term} :
    Res b (.fn g as) t ↔ ∃ ts, t = .fn g ts ∧ ResL b as ts := by
  constructor
  · intro r; cases r with | fn _ _ ts h => exact ⟨ts, rfl, h⟩
  · rintro ⟨ts, rfl, h⟩; exact .fn g as ts h

theorem resL_cons_iff {b : Bind} {a : Term} {as ts : List Term} :
    ResL b (a :: as) ts ↔ ∃ a' as', ts = a' :: as' ∧ Res b a a' ∧ ResL b as as' := by
  constructor
  · intro r; cases r with | cons _ a' _ as' h1 h2 => exact ⟨a', as', rfl, h1, h2⟩
  · rintro ⟨a', as', rfl, h1, h2⟩; exact .cons a a' as as' h1 h2

theorem bind_other {b : Bind} {x y : Nat} {u : Term} (h : y ≠ x) : bind b x u y = b y := by
  simp [bind, h]
theorem bind_self {b : Bind} {x : Nat} {u : Term} : bind b x u x = some u := by
  simp [bind]

mutual
/-- resolving t under the extended bindings = resolving its old value under them -/
theorem res_ext {b : Bind} {x : Nat} {u : Term} (hx : b x = none) :
    ∀ {t t' : Term}, Res b t t' → ∀ t'', Res (bind b x u) t t'' ↔ Res (bind b x u) t' t''
  | _, _, .varU y hy, t'' => Iff.rfl
  | _, _, .varB y s t' hy r, t'' => by
      have hyx : y ≠ x := by intro e; subst e; rw [hx] at hy; cases hy
      rw [res_var_bound (by rw [bind_other hyx]; exact hy)]
      exact res_ext hx r t''
  | _, _, .atom s, t'' => Iff.rfl
  | _, _, .int i, t'' => Iff.rfl
  | _, _, .fn g as as' h, t'' => by
      rw [res_fn_iff, res_fn_iff]
      constructor
      · rintro ⟨ts, e, r⟩; exact ⟨ts, e, (resL_ext hx h ts).mp r⟩
      · rintro ⟨ts, e, r⟩; exact ⟨ts, e, (resL_ext hx h ts).mpr r⟩
theorem resL_ext {b : Bind} {x : Nat} {u : Term} (hx : b x = none) :
    ∀ {as as' : List Term}, ResL b as as' → ∀ ts, ResL (bind b x u) as ts ↔ ResL (bind b x u) as' ts
  | _, _, .nil, ts => Iff.rfl
  | _, _, .cons a a' as as' h1 h2, ts => by
      rw [resL_cons_iff, resL_cons_iff]
      constructor
      · rintro ⟨c, cs, e, r1, r2⟩; exact ⟨c, cs, e, (res_ext hx h1 c).mp r1, (resL_ext hx h2 cs).mp r2⟩
      · rintro ⟨c, cs, e, r1, r2⟩; exact ⟨c, cs, e, (res_ext hx h1 c).mpr r1, (resL_ext hx h2 cs).mpr r2⟩
end

mutual
/-- a value under the extended bindings factors through a value under the old ones -/
theorem res_unext {b : Bind} {x : Nat} {u : Term} (hx : b x = none) :
    ∀ {t t'' : Term}, Res (bind b x u) t t'' → ∃ t', Res b t t' ∧ Res (bind b x u) t' t''
  | _, _, .varU y hy => by
      have hyx : y ≠ x := by intro e; subst e; rw [bind_self] at hy; cases hy
      rw [bind_other hyx] at hy
      exact ⟨.var y, .varU y hy, .varU y (by rw [bind_other hyx]; exact hy)⟩
  | _, _, .varB y s t'' hy r => by
      by_cases hyx : y = x
      · subst hyx
        exact ⟨.var y, .varU y hx, .varB y s t'' hy r⟩
      · rw [bind_other hyx] at hy
        obtain ⟨s', r1, r2⟩ := res_unext hx r
        exact ⟨s', .varB y s s' hy r1, r2⟩
  | _, _, .atom s => ⟨.atom s, .atom s, .atom s⟩
  | _, _, .int i => ⟨.int i, .int i, .int i⟩
  | _, _, .fn g as ts h => by
      obtain ⟨as', r1, r2⟩ := resL_unext hx h
      exact ⟨.fn g as', .fn g as as' r1, .fn g as' ts r2⟩
theorem resL_unext {b : Bind} {x : Nat} {u : Term} (hx : b x = none) :
    ∀ {as ts : List Term}, ResL (bind b x u) as ts → ∃ as', ResL b as as' ∧ ResL (bind b x u) as' ts
  | _, _, .nil => ⟨[], .nil, .nil⟩
  | _, _, .cons a c as cs h1 h2 => by
      obtain ⟨a', r1, r2⟩ := res_unext hx h1
      obtain ⟨as', r3, r4⟩ := resL_unext hx h2
      exact ⟨a' :: as', .cons a a' as as' r1 r3, .cons a' c as' cs r2 r4⟩
end

/-- What two terms have in common is kept when one more variable gets bound. -/
theorem same_ext1 {b b' : Bind} (h : Ext1 b b') {t1 t2 : Term} (hs : Same b t1 t2) : Same b' t1 t2 := by
  obtain ⟨x, u, hx, rfl⟩ := h
  intro t''
  constructor
  · intro r
    obtain ⟨t', r1, r2⟩ := res_unext hx r
    exact (res_ext hx ((hs t').mp r1) t'').mpr r2
  · intro r
    obtain ⟨t', r1, r2⟩ := res_unext hx r
    exact (res_ext hx ((hs t').mpr r1) t'').mpr r2

/-- finitely many such steps -/
inductive Ext : Bind → Bind → Prop
  | refl (b : Bind) : Ext b b
  | step {b b' b'' : Bind} : Ext b b' → Ext1 b' b'' → Ext b b''

theorem same_ext {b b' : Bind} (h : Ext b b') {t1 t2 : Term} (hs : Same b t1 t2) : Same b' t1 t2 := by
  induction h with
  | refl => exact hs
  | step _ h1 ih => exact same_ext1 h1 ih

theorem Ext.trans {b b' b'' : Bind} (h1 : Ext b b') (h2 : Ext b' b'') : Ext b b'' := by
  induction h2 with
  | refl => exact h1
  | step _ hs ih => exact .step ih hs

theorem Ext.extends {b b' : Bind} (h : Ext b b') : Extends b b' := by
  induction h with
  | refl => intro x t hx; exact hx
  | step _ h1 ih => intro x t hx; exact h1.extends x t (ih x t hx)


/-- like `Shape`, with a fact about the world on which the consumer is called -/
inductive ShapeP (P : World → Prop) (g : Gen) (w : World) : Prop
  | never (r : R) : (∀ k, g k w = r) → ShapeP P g w
  | once (pre : World) (post : World → World) : P pre → (∀ k, g k w = ((post (k pre).1), (k pre).2)) → ShapeP P g w

theorem shapeP_of_eq {P : World → Prop} {g g' : Gen} {w w' : World} (h : ∀ k, g k w = g' k w') (s : ShapeP P g' w') : ShapeP P g w := by
  cases s with
  | never r hr => exact .never r (fun k => by rw [h, hr])
  | once pre post hp hr => exact .once pre post hp (fun k => by rw [h, hr])

theorem shapeP_mono {P Q : World → Prop} {g : Gen} {w : World} (h : ∀ p, P p → Q p) (s : ShapeP P g w) : ShapeP Q g w := by
  cases s with
  | never r hr => exact .never r hr
  | once pre post hp hr => exact .once pre post (h _ hp) hr

inductive SameAll (b : Bind) : List Term → List Term → Prop
  | nil : SameAll b [] []
  | cons {a c : Term} {as cs : List Term} : Same b a c → SameAll b as cs → SameAll b (a :: as) (c :: cs)

theorem sameAll_ext {b b' : Bind} (h : Ext b b') {as bs : List Term} (hs : SameAll b as bs) : SameAll b' as bs := by
  induction hs with
  | nil => exact .nil
  | cons h1 _ ih => exact .cons (same_ext h h1) ih

theorem sameAll_resL {b : Bind} {as bs : List Term} (hs : SameAll b as bs) : ∀ ts, ResL b as ts ↔ ResL b bs ts := by
  induction hs with
  | nil => intro ts; exact Iff.rfl
  | cons h1 _ ih =>
    intro ts
    rw [resL_cons_iff, resL_cons_iff]
    constructor
    · rintro ⟨c, cs, e, r1, r2⟩; exact ⟨c, cs, e, (h1 c).mp r1, (ih cs).mp r2⟩
    · rintro ⟨c, cs, e, r1, r2⟩; exact ⟨c, cs, e, (h1 c).mpr r1, (ih cs).mpr r2⟩

theorem same_fn {b : Bind} {g : String} {as bs : List Term} (hs : SameAll b as bs) : Same b (.fn g as) (.fn g bs) := by
  intro t
  rw [res_fn_iff, res_fn_iff]
  constructor
  · rintro ⟨ts, e, r⟩; exact ⟨ts, e, (sameAll_resL hs ts).mp r⟩
  · rintro ⟨ts, e, r⟩; exact ⟨ts, e, (sameAll_resL hs ts).mpr r⟩

theorem unifyList_sound (u : Term → Term → Gen)
    (hu : ∀ a b w, ShapeP (fun pre => Ext w.b pre.b ∧ Same pre.b a b) (u a b) w) :
    ∀ as bs w, ShapeP (fun pre => Ext w.b pre.b ∧ SameAll pre.b as bs) (unifyList u as bs) w := by
  intro as
  induction as with
  | nil =>
    intro bs w
    cases bs with
    | nil => exact .once w id ⟨.refl _, .nil⟩ (fun k => by simp [unifyList])
    | cons b bs => exact .never (w, none) (fun k => by simp [unifyList])
  | cons a as ih =>
    intro bs w
    cases bs with
    | nil => exact .never (w, none) (fun k => by simp [unifyList])
    | cons b bs =>
      cases hu a b w with
      | never r h => exact .never r (fun k => by simp only [unifyList]; exact h _)
      | once pre post hp h =>
        cases ih bs pre with
        | never r2 h2 => exact .never (post r2.1, r2.2) (fun k => by simp only [unifyList]; rw [h]; simp only [h2])
        | once pre2 post2 hp2 h2 =>
          refine .once pre2 (fun w' => post (post2 w')) ⟨hp.1.trans hp2.1, .cons (same_ext hp2.1 hp.2) hp2.2⟩ ?_
          intro k; simp only [unifyList]; rw [h]; simp only [h2]


theorem extends_refl (b : Bind) : Extends b b := fun _ _ h => h

theorem markCyc_b' (f x : Nat) (t : Term) (w : World) : (markCyc f x t w).b = w.b := markCyc_b f x t w

/-- binding the walked variable to the walked other side makes the two original terms denote the same -/
theorem same_after_bind {b : Bind} {f : Nat} {t1 t2 a2 : Term} {x : Nat}
    (h1 : walk b f t1 = some (.var x)) (h2 : walk b f t2 = some a2) :
    Same (bind b x a2) t1 t2 := by
  have hx : b x = none := walk_var_unbound b f t1 x h1
  have he : Extends b (bind b x a2) := (Ext1.extends ⟨x, a2, hx, rfl⟩)
  intro t'
  rw [walk_res he f t1 _ h1 t', walk_res he f t2 _ h2 t', res_var_bound bind_self]

theorem same_symm {b : Bind} {t1 t2 : Term} (h : Same b t1 t2) : Same b t2 t1 := fun t' => (h t').symm

theorem bindGen_shapeP (x : Nat) (t : Term) (w : World) (P : World → Prop) (hP : P { w with b := bind w.b x t }) :
    ShapeP P (bindGen x t) w :=
  .once { w with b := bind w.b x t } (fun w' => { w' with b := unbind w'.b x }) hP (fun _ => rfl)

/-- **Soundness of unification.** Whenever unify calls its consumer, it does so once, on a world
    whose bindings extend the starting ones by binding previously unbound variables only, and under
    which the two terms denote the same term (dereference, at every depth, to the same terms). -/
theorem unify_sound (f : Nat) : ∀ t1 t2 w, ShapeP (fun pre => Ext w.b pre.b ∧ Same pre.b t1 t2) (unify f t1 t2) w := by
  induction f with
  | zero => intro t1 t2 w; exact .never (w, some .oof) (fun k => by simp [unify])
  | succ f ih =>
    intro t1 t2 w
    cases h1 : walk w.b (f+1) t1 with
    | none => exact .never (w, some .oof) (fun k => by simp [unify, h1])
    | some a1 =>
      cases h2 : walk w.b (f+1) t2 with
      | none => exact .never (w, some .oof) (fun k => by simp [unify, h1, h2])
      | some a2 =>
        -- both sides walk to the same thing: nothing to bind
        have same_walk : a1 = a2 → Same w.b t1 t2 := by
          intro e; subst e; intro t'
          rw [walk_res (extends_refl _) (f+1) t1 _ h1 t', walk_res (extends_refl _) (f+1) t2 _ h2 t']
        -- bind the left variable
        have bindL : ∀ x, a1 = .var x → ∀ w', w'.b = w.b →
            ShapeP (fun pre => Ext w.b pre.b ∧ Same pre.b t1 t2) (bindGen x a2) w' := by
          intro x e w' hw'
          subst e
          apply bindGen_shapeP
          simp only [hw']
          exact ⟨.step (.refl _) ⟨x, a2, walk_var_unbound _ _ _ _ h1, rfl⟩, same_after_bind h1 h2⟩
        have bindR : ∀ y, a2 = .var y → ∀ w', w'.b = w.b →
            ShapeP (fun pre => Ext w.b pre.b ∧ Same pre.b t1 t2) (bindGen y a1) w' := by
          intro y e w' hw'
          subst e
          apply bindGen_shapeP
          simp only [hw']
          exact ⟨.step (.refl _) ⟨y, a1, walk_var_unbound _ _ _ _ h2, rfl⟩, same_symm (same_after_bind h2 h1)⟩
        cases a1 with
        | var x =>
          cases a2 with
          | var y =>
            by_cases hxy : x = y
            · exact .once w id ⟨.refl _, same_walk (by rw [hxy])⟩ (fun k => by simp [unify, h1, h2, hxy])
            · exact shapeP_of_eq (g' := bindGen x (.var y)) (w' := w) (fun k => by simp [unify, h1, h2, hxy]) (bindL x rfl w rfl)
          | atom s => exact shapeP_of_eq (g' := bindGen x (.atom s)) (w' := markCyc cycFuel x (.atom s) w) (fun k => by simp only [unify, h1, h2]) (bindL x rfl _ (markCyc_b _ _ _ _))
          | int i => exact shapeP_of_eq (g' := bindGen x (.int i)) (w' := markCyc cycFuel x (.int i) w) (fun k => by simp only [unify, h1, h2]) (bindL x rfl _ (markCyc_b _ _ _ _))
          | fn g as => exact shapeP_of_eq (g' := bindGen x (.fn g as)) (w' := markCyc cycFuel x (.fn g as) w) (fun k => by simp only [unify, h1, h2]) (bindL x rfl _ (markCyc_b _ _ _ _))
        | atom s =>
          cases a2 with
          | var y => exact shapeP_of_eq (g' := bindGen y (.atom s)) (w' := markCyc cycFuel y (.atom s) w) (fun k => by simp only [unify, h1, h2]) (bindR y rfl _ (markCyc_b _ _ _ _))
          | atom s' =>
            by_cases hs : s = s'
            · exact .once w id ⟨.refl _, same_walk (by rw [hs])⟩ (fun k => by simp [unify, h1, h2, hs])
            · exact .never (w, none) (fun k => by simp [unify, h1, h2, hs])
          | int i => exact .never (w, none) (fun k => by simp [unify, h1, h2])
          | fn g as => exact .never (w, none) (fun k => by simp [unify, h1, h2])
        | int i =>
          cases a2 with
          | var y => exact shapeP_of_eq (g' := bindGen y (.int i)) (w' := markCyc cycFuel y (.int i) w) (fun k => by simp only [unify, h1, h2]) (bindR y rfl _ (markCyc_b _ _ _ _))
          | atom s' => exact .never (w, none) (fun k => by simp [unify, h1, h2])
          | int j =>
            by_cases hs : i = j
            · exact .once w id ⟨.refl _, same_walk (by rw [hs])⟩ (fun k => by simp [unify, h1, h2, hs])
            · exact .never (w, none) (fun k => by simp [unify, h1, h2, hs])
          | fn g as => exact .never (w, none) (fun k => by simp [unify, h1, h2])
        | fn g as =>
          cases a2 with
          | var y => exact shapeP_of_eq (g' := bindGen y (.fn g as)) (w' := markCyc cycFuel y (.fn g as) w) (fun k => by simp only [unify, h1, h2]) (bindR y rfl _ (markCyc_b _ _ _ _))
          | atom s' => exact .never (w, none) (fun k => by simp [unify, h1, h2])
          | int j => exact .never (w, none) (fun k => by simp [unify, h1, h2])
          | fn g' as' =>
            by_cases hg : g = g' ∧ as.length = as'.length
            · refine shapeP_of_eq (g' := unifyList (unify f) as as') (w' := w)
                (fun k => by simp only [unify, h1, h2, hg, and_self, if_true]) ?_
              refine shapeP_mono ?_ (unifyList_sound (unify f) ih as as' w)
              rintro pre ⟨he, hs⟩
              refine ⟨he, ?_⟩
              intro t'
              rw [walk_res he.extends (f+1) t1 _ h1 t', walk_res he.extends (f+1) t2 _ h2 t', hg.1]
              exact same_fn hs t'
            · exact .never (w, none) (fun k => by simp only [unify, h1, h2, hg, if_false])


end Yld
