/-
  The logical reading with dynamic facts (C01, C07), stage 0: the vocabulary of `LgBase`, for a run
  whose fact store is the constant `D` (closed facts) instead of the empty store.

  `Good D cm w` is `Lg.Good cm w` with `w.db = D.db` in place of `w.db = []`; everything else in
  `LgBase`/`LgPass` (`QK`, `Ext`, `WScoped`, `Frame`, `StepRel`, the unary pass `query_relp`, `QKGen`) does
  not mention the store's contents and is used as it is.
-/
import Yld.Proofs.LgPass
import Yld.Proofs.ActPrim
set_option linter.unusedSimpArgs false
set_option linter.unusedVariables false
namespace Yld

/-- a fact store all of whose facts mention their private variables only -/
structure CDb where
  db : List ((String × Nat) × List Fact)
  closed : DbClosed db

namespace Lg
namespace F

/-- a world in which a Horn query may be started: the store is `D`, bindings within the allocated
    cells; under `cm`: unflagged heaps are acyclic -/
structure Good (D : CDb) (cm : Prop) (w : World) : Prop where
  db : w.db = D.db
  sc : WScoped w
  solv : cm → w.cyc = false → Solvable w.b

/-- a world reached from `w` -/
structure Step (D : CDb) (cm : Prop) (w w' : World) : Prop where
  good : Good D cm w'
  ext : Ext w w'
  next : w.next ≤ w'.next

variable {D : CDb}

theorem Step.refl {cm : Prop} {w : World} (h : Good D cm w) : Step D cm w w := ⟨h, Ext.refl w, Nat.le_refl _⟩
theorem Step.trans {cm : Prop} {a b c : World} (h1 : Step D cm a b) (h2 : Step D cm b c) : Step D cm a c :=
  ⟨h2.good, h1.ext.trans h2.ext, Nat.le_trans h1.next h2.next⟩

end F

variable {D : CDb}

/-- what a quiet consumer hands back is as good as what it was given -/
theorem QK.goodF {cm : Prop} {k : K} (hk : QK cm k) {w : World} (h : F.Good D cm w) : F.Good D cm (k w).1 := by
  refine ⟨(hk.db w).trans h.db, h.sc.of_b (hk.b w) (hk.next w), fun hcm hc => ?_⟩
  rw [hk.b w]
  refine h.solv hcm ?_
  cases hw : w.cyc with
  | false => rfl
  | true => rw [hk.cyc hcm w hw] at hc; cases hc

theorem QK.stepF {cm : Prop} {k : K} (hk : QK cm k) {w : World} (h : F.Good D cm w) : F.Step D cm w (k w).1 :=
  ⟨hk.goodF h, Ext.of_b (hk.b w), hk.next w⟩

namespace F

/-! ### the generators over the store keep quiet consumers quiet -/

theorem matchFact_qkGen (cm : Prop) (f : Nat) (c : Fact) (args : List Term) : QKGen cm (matchFact f c args) :=
  qkGen_of (matchFact_restoring f c args) (matchFact_relp stepRel_db f c args) (matchFact_grow f c args)
    (matchFact_cycGen f c args)

theorem matchAll_qkGen (cm : Prop) (f : Nat) (args : List Term) (cs : List Fact) : QKGen cm (matchAll f args cs) :=
  qkGen_of (matchAll_restoring f args cs) (matchAll_relp stepRel_db f args cs) (matchAll_grow f args cs)
    (matchAll_cycGen f args cs)

theorem matchDynamic_qkGen (cm : Prop) (f : Nat) (name : String) (args : List Term) :
    QKGen cm (matchDynamic f name args) :=
  qkGen_of (matchDynamic_restoring f name args) (matchDynamic_relp stepRel_db f name args)
    (matchDynamic_grow f name args) (matchDynamic_cycGen f name args)

/-- the part of `query` after the dynamic facts, in the unary pass -/
theorem qtail_relp {Rel : World → World → Prop} (hR : StepRel Rel) {U : String → Bool} {cfg : Cfg}
    {preds : List Pred} (hc : HC U cfg preds) (f : Nat) {name : String} (hU : U name = true) (args : List Term) :
    GRelP Rel (qtail cfg f name args) := by
  intro k hk w1
  cases tailCase hc f hU args with
  | none h => rw [h]; exact hR.refl _
  | oof h => rw [h]; exact hR.refl _
  | eq a b n _ _ _ h => rw [h]; exact unify_relp hR n a b k hk w1
  | user p n hp hpn hpa hf h =>
    rw [h, leaveFrame_world]
    refine runClauses_relp hR _ _ (fun c hcm => ?_) _ (wrapK_relp hR hk) w1
    exact runClauseRef_relp hR n _ (fun name hU args => query_relp hR hc n name hU args) c
      ((hc.shape p hp).2.2 c hcm).2 args

/-- the facts the store holds under a key are closed -/
theorem lookup_closed (D : CDb) (name : String) (n : Nat) : ∀ c ∈ (D.db.lookup (name, n)).getD [], FactClosed c := by
  have := facts_closed (w := { db := D.db }) D.closed name n
  exact this

theorem facts_eq {w : World} (h : w.db = D.db) (name : String) (n : Nat) :
    w.facts name n = (D.db.lookup (name, n)).getD [] := by
  unfold World.facts; rw [h]

/-! ### the renaming of a closed fact to a fresh block of cells -/

theorem fact_renamed_own {c : Fact} (hc : FactClosed c) (base : Nat) :
    OwnL (base + c.nvars) (c.args.map (Term.rename (· + base))) := by
  intro t ht
  obtain ⟨a, ha, rfl⟩ := List.mem_map.mp ht
  exact own_rename (n := c.nvars) (fun x hx => hc a ha x hx) (fun x hx => by show x + base < base + c.nvars; omega)

theorem fact_renamed_subst (c : Fact) (base : Nat) (θ : Val) :
    (c.args.map (Term.rename (· + base))).map (Term.subst θ) = c.args.map (Term.subst fun i => θ (i + base)) := by
  rw [List.map_map]
  apply List.map_congr_left
  intro t _
  exact subst_rename _ _ _

end F
end Lg
end Yld
