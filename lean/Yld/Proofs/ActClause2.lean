/-
  The two activations of one clause, and of the clauses of a predicate.
-/
import Yld.Proofs.ActPrologue
set_option linter.unusedSimpArgs false
set_option linter.unusedVariables false
namespace Yld

theorem allocVars_eq (names : List String) : ∀ (env : Env) (w : World),
    allocVars names env w = (env ++ freshAssoc names w.next, { w with next := w.next + names.length }) := by
  induction names with
  | nil => intro env w; simp [allocVars_nil, freshAssoc]
  | cons v vs ih =>
    intro env w
    rw [allocVars_cons, ih]
    simp only [World.fresh, freshAssoc, List.append_assoc, List.singleton_append, List.length_cons, Prod.mk.injEq, true_and]
    congr 1
    omega

theorem WRel.bump {S : Cpl} {ds : List (Nat × Nat)} {w1 w2 : World} (hw : WRel S ds w1 w2) (k1 k2 : Nat) :
    WRel S ds { w1 with next := w1.next + k1 } { w2 with next := w2.next + k2 } :=
  ⟨hw.core.mono (Nat.le_add_right _ _) (Nat.le_add_right _ _), hw.solv1, hw.solv2, hw.cyc1, hw.cyc2, hw.db, hw.closed,
    hw.stamp, hw.acc.mono (Nat.le_add_right _ _) (Nat.le_add_right _ _)⟩

theorem actCpl_sub (S : Cpl) (env1 env2 : Env) (args1 args2 : List Term) (eqs1 eqs2 : List (Nat × STerm))
    (vars : List String) : Sub (actCpl S env1 env2 args1 args2 eqs1 eqs2 vars) S := fun _ _ h => h.1

/-- **One clause**: the textbook activation and the aliased activation of the same clause, on
    corresponding arguments, in related worlds, with related consumers and any relation-respecting
    meaning of calls. -/
theorem clause_sim {P : Sig → Prop} (hP : OofLike P) {q1 q2 : Q} (hq : QSim P q1 q2) (hc1 : QCyc q1) (hc2 : QCyc q2)
    (c : Clause) (n : Nat) (f1 f2 : Nat) {S : Cpl} {ds : List (Nat × Nat)} {args1 args2 : List Term} {K1 K2 : K}
    {w1 w2 : World} (ha : Forall₂ (TRel S) args1 args2) (hw : WRel S ds w1 w2) (hK : KSim P S ds K1 K2)
    (cm1 : CycMono K1) (cm2 : CycMono K2) :
    RSim P ds w1 w2 (runClauseRef f1 q1 c args1 K1 w1)
      (runClauseRefBody f2 q2 (compileClause c n).1 c.body args2 K2 w2) := by
  obtain ⟨al, c1, c2, pr⟩ := prologue_compile c n args2 w1.next w2.next
  unfold runClauseRef runClauseRefBody
  simp only [allocVars_eq, List.nil_append]
  rw [unifyHead_eq, unifyHead_eq]
  have hw' : WRel S ds { w1 with next := w1.next + (clauseNames c).length }
      { w2 with next := w2.next + (compileClause c n).1.declsHead.length + (compileClause c n).1.declsBody.length } :=
    ⟨hw.core.mono (Nat.le_add_right _ _) (by simp only; omega), hw.solv1, hw.solv2, hw.cyc1, hw.cyc2, hw.db, hw.closed,
      hw.stamp, hw.acc.mono (Nat.le_add_right _ _) (by simp only; omega)⟩
  refine RSim.rebase (w1' := { w1 with next := w1.next + (clauseNames c).length })
    (w2' := { w2 with next := w2.next + (compileClause c n).1.declsHead.length + (compileClause c n).1.declsBody.length })
    ?_ rfl rfl (Nat.le_add_right _ _) (by simp only; omega)
  have hbody : ∀ v ∈ c.body.vars, v ∈ clauseNames c := by
    intro v hv
    exact ((dedup_spec _).2 v).mpr (List.mem_append.mpr (Or.inr hv))
  refine head_sim hP hw' hw.core.supp ha pr f1 f2 ?_
    (solve_cycGen q1 hc1 _ c.body 0 K1 cm1) (solve_cycGen q2 hc2 _ c.body 0 K2 cm2)
  intro S' hs v1 v2 hv
  have hsub := actCpl_sub S (freshAssoc (clauseNames c) w1.next)
    (((compileClause c n).1.aliases.map fun (p : String × Nat) => (p.1, args2.getD p.2 (.atom "$noarg")))
            ++ freshAssoc (compileClause c n).1.declsHead w2.next
            ++ freshAssoc (compileClause c n).1.declsBody (w2.next + (compileClause c n).1.declsHead.length))
    args1 args2 (c.head.zipIdx.map fun (p : STerm × Nat) => (p.2, p.1)) (compileClause c n).1.unifs (clauseNames c)
  refine solve_sim hP hq hc1 hc2 c.body 0 S' ds ?_ K1 K2 (hK.sub (hs.trans hsub)) cm1 cm2 v1 v2 hv
  intro v hv' θ1 θ2 hθ
  exact (hs _ _ hθ).2.2.2 v (hbody v hv')

theorem compileClauses_cons (c : Clause) (cs : List Clause) (n : Nat) :
    (compileClauses (c :: cs) n).1 = (compileClause c n).1 :: (compileClauses cs (compileClause c n).2).1 := by
  simp only [compileClauses]

/-- the clauses of one predicate, in order -/
theorem runClauses_sim {P : Sig → Prop} (hP : OofLike P) {q1 q2 : Q} (hq : QSim P q1 q2) (hc1 : QCyc q1) (hc2 : QCyc q2)
    (f1 f2 : Nat) {S : Cpl} {ds : List (Nat × Nat)} {args1 args2 : List Term} {K1 K2 : K}
    (ha : Forall₂ (TRel S) args1 args2) (hK : KSim P S ds K1 K2) (cm1 : CycMono K1) (cm2 : CycMono K2) :
    ∀ (cs : List Clause) (n : Nat) {w1 w2 : World}, WRel S ds w1 w2 →
      RSim P ds w1 w2 (runClauses (fun c => runClauseRef f1 q1 c args1) cs K1 w1)
        (runClauses (fun (x : ClauseCode × Clause) => runClauseRefBody f2 q2 x.1 x.2.body args2)
          ((compileClauses cs n).1.zip cs) K2 w2) := by
  intro cs
  induction cs with
  | nil => intro n w1 w2 hw; simp only [compileClauses, List.zip_nil_right, runClauses]; exact RSim.same hw none
  | cons c cs ih =>
    intro n w1 w2 hw
    rw [compileClauses_cons]
    simp only [List.zip_cons_cons, runClauses]
    exact sim_andThen hw (clause_sim hP hq hc1 hc2 c n f1 f2 ha hw hK cm1 cm2)
      (fun v1 v2 hv => ih (compileClause c n).2 hv)
      (runClauses_cycGen _ (fun c => runClauseRef_cycGen f1 q1 hc1 c args1) cs K1 cm1)
      (runClauses_cycGen _ (fun (x : ClauseCode × Clause) => runClauseRefBody_cycGen f2 q2 hc2 x.1 x.2.body args2) _ K2 cm2)

end Yld
