/-
  The logical reading of Horn programs (C01), stage 2: soundness.

  `Only cm Φ g w` — the generator `g`, started in `w`, calls its consumer only in worlds satisfying `Φ`:
  two quiet consumers that agree on `Φ` give the same run.  Proved for `unify` (Φ: the solutions of
  the heap at the yield are the solutions of the starting heap that unify the two terms; the world is
  `Good` again), for the head unifications of a clause, for `solve` on Horn bodies, for the clauses of
  a predicate and, by induction on the fuel, for `query` on goals of the Horn fragment — relative to
  an abstract meaning `H` of goals that is closed under the clauses (`Sem`).
-/
import Yld.Proofs.LgPass
set_option linter.unusedSimpArgs false
set_option linter.unusedVariables false
namespace Yld
namespace Lg

/-! ### `unify` stays within the allocated cells -/

theorem walk_own {w : World} (hs : WScoped w) : ∀ (f : Nat) (t a : Term), Own w.next t →
    walk w.b f t = some a → Own w.next a := by
  intro f
  induction f with
  | zero => intro t a _ h; simp [walk] at h
  | succ f ih =>
    intro t a ht h
    cases t with
    | var n =>
      simp only [walk] at h
      cases hb : w.b n with
      | none => rw [hb] at h; simp at h; subst h; exact ht
      | some u => rw [hb] at h; simp only at h; exact ih u a (hs n u hb).2 h
    | atom s => simp [walk] at h; subst h; exact ht
    | int i => simp [walk] at h; subst h; exact ht
    | fn g as => simp [walk] at h; subst h; exact ht

/-- the consumers agree on scoped worlds with allocation counter `n` -/
def SAgree (n : Nat) (k1 k2 : K) : Prop := ∀ w', WScoped w' → w'.next = n → k1 w' = k2 w'

theorem scoped_bind {w : World} (hs : WScoped w) {x : Nat} {t : Term} (hx : x < w.next) (ht : Own w.next t) :
    WScoped { w with b := bind w.b x t } := by
  intro y u hy
  simp only [bind] at hy
  by_cases e : y = x
  · subst e; simp at hy; subst hy; exact ⟨hx, ht⟩
  · simp only [e, if_false] at hy; exact hs y u hy

theorem markCyc_scoped {w : World} (hs : WScoped w) (f x : Nat) (t : Term) : WScoped (markCyc f x t w) := by
  intro y u hy
  rw [markCyc_b] at hy
  rw [markCyc_next]
  exact hs y u hy

theorem bindGen_sagree {x : Nat} {t : Term} {k1 k2 : K} {w : World} (hs : WScoped w) (hx : x < w.next)
    (ht : Own w.next t) (h : SAgree w.next k1 k2) : bindGen x t k1 w = bindGen x t k2 w := by
  unfold bindGen
  have e : k1 { w with b := bind w.b x t } = k2 { w with b := bind w.b x t } := h _ (scoped_bind hs hx ht) rfl
  simp only [e]

theorem markBind_sagree {x : Nat} {t : Term} {k1 k2 : K} {w : World} (hs : WScoped w) (hx : x < w.next)
    (ht : Own w.next t) (h : SAgree w.next k1 k2) (cf : Nat) :
    bindGen x t k1 (markCyc cf x t w) = bindGen x t k2 (markCyc cf x t w) := by
  refine bindGen_sagree (markCyc_scoped hs _ _ _) ?_ ?_ ?_
  · rw [markCyc_next]; exact hx
  · rw [markCyc_next]; exact ht
  · rw [markCyc_next]; exact h

theorem unifyList_sagree (u : Term → Term → Gen)
    (hu : ∀ a b w k1 k2, WScoped w → Own w.next a → Own w.next b → SAgree w.next k1 k2 → u a b k1 w = u a b k2 w) :
    ∀ as bs w k1 k2, WScoped w → OwnL w.next as → OwnL w.next bs → SAgree w.next k1 k2 →
      unifyList u as bs k1 w = unifyList u as bs k2 w := by
  intro as
  induction as with
  | nil =>
    intro bs w k1 k2 hs _ _ h
    cases bs with
    | nil => simp only [unifyList]; exact h w hs rfl
    | cons b bs => simp only [unifyList]
  | cons a as ih =>
    intro bs w k1 k2 hs ha hb h
    cases bs with
    | nil => simp only [unifyList]
    | cons b bs =>
      simp only [unifyList]
      have ha' := ownL_cons.mp ha
      have hb' := ownL_cons.mp hb
      refine hu a b w _ _ hs ha'.1 hb'.1 ?_
      intro w' hs' hn
      exact ih bs w' k1 k2 hs' (hn ▸ ha'.2) (hn ▸ hb'.2) (hn ▸ h)

theorem unify_sagree (f : Nat) : ∀ t1 t2 w k1 k2, WScoped w → Own w.next t1 → Own w.next t2 →
    SAgree w.next k1 k2 → unify f t1 t2 k1 w = unify f t1 t2 k2 w := by
  induction f with
  | zero => intro t1 t2 w k1 k2 _ _ _ _; simp only [unify]
  | succ f ih =>
    intro t1 t2 w k1 k2 hs ht1 ht2 h
    simp only [unify]
    cases h1 : walk w.b (f+1) t1 with
    | none => rfl
    | some a1 =>
      cases h2 : walk w.b (f+1) t2 with
      | none => rfl
      | some a2 =>
        have o1 := walk_own hs _ _ _ ht1 h1
        have o2 := walk_own hs _ _ _ ht2 h2
        simp only
        cases a1 with
        | var x =>
          have hx : x < w.next := own_var.mp o1
          cases a2 with
          | var y =>
            simp only
            split
            · exact h w hs rfl
            · exact bindGen_sagree hs hx o2 h
          | atom s => exact markBind_sagree hs hx o2 h _
          | int i => exact markBind_sagree hs hx o2 h _
          | fn g as => exact markBind_sagree hs hx o2 h _
        | atom s =>
          cases a2 with
          | var y => exact markBind_sagree hs (own_var.mp o2) o1 h _
          | atom s' =>
            simp only
            split
            · exact h w hs rfl
            · rfl
          | int i => rfl
          | fn g as => rfl
        | int i =>
          cases a2 with
          | var y => exact markBind_sagree hs (own_var.mp o2) o1 h _
          | atom s' => rfl
          | int j =>
            simp only
            split
            · exact h w hs rfl
            · rfl
          | fn g as => rfl
        | fn g as =>
          cases a2 with
          | var y => exact markBind_sagree hs (own_var.mp o2) o1 h _
          | atom s' => rfl
          | int j => rfl
          | fn g' as' =>
            simp only
            split
            · exact unifyList_sagree (unify f) ih as as' w k1 k2 hs (own_fn.mp o1) (own_fn.mp o2) h
            · rfl

/-! ### `Only` -/

/-- `g`, started in `w`, calls its consumer only in worlds satisfying `Φ` -/
def Only (cm : Prop) (Φ : World → Prop) (g : Gen) (w : World) : Prop :=
  ∀ k1 k2, QK cm k1 → QK cm k2 → (∀ w', Φ w' → k1 w' = k2 w') → g k1 w = g k2 w

/-- the world at the yield of `unify t1 t2` started in `w` -/
structure UStep (cm : Prop) (w : World) (t1 t2 : Term) (w' : World) : Prop where
  good : Good cm w'
  next : w'.next = w.next
  sol : ∀ θ, Solves θ w'.b ↔ (Solves θ w.b ∧ t1.subst θ = t2.subst θ)

theorem UStep.step {cm : Prop} {w w' : World} {t1 t2 : Term} (h : UStep cm w t1 t2 w') : Step cm w w' :=
  ⟨h.good, fun θ hθ => ((h.sol θ).mp hθ).1, Nat.le_of_eq h.next.symm⟩

/-- `UShape`, with what the later stages need: the world at the yield is `Good` again, the allocation
    counter has not moved -/
inductive GShape (cm : Prop) (g : Gen) (w : World) (t1 t2 : Term) : Prop
  | oof (r : R) : r.2 = some .oof → (∀ k, g k w = r) → GShape cm g w t1 t2
  | fail (r : R) : r.2 = none → (∀ k, g k w = r) → (∀ θ, Solves θ w.b → t1.subst θ ≠ t2.subst θ) → GShape cm g w t1 t2
  | once (pre : World) (post : World → World) : (∀ k, g k w = ((post (k pre).1), (k pre).2)) →
      UStep cm w t1 t2 pre → GShape cm g w t1 t2

open Classical in
theorem unify_gshape {cm : Prop} (f : Nat) (t1 t2 : Term) {w : World} (hg : Good cm w) (h1 : Own w.next t1)
    (h2 : Own w.next t2) : GShape cm (unify f t1 t2) w t1 t2 := by
  cases unify_ushape f t1 t2 w with
  | oof r hr hk => exact .oof r hr hk
  | fail r hr hk hno _ _ => exact .fail r hr hk hno
  | once pre post hk hiff hpre hpost =>
    have hcore := hpre.core
    simp only [World.core, Prod.mk.injEq] at hcore
    have hsc : WScoped pre := by
      apply Classical.byContradiction
      intro hns
      have e := unify_sagree f t1 t2 w (fun w' => (w', none))
        (fun w' => (w', if WScoped w' then none else some .stop)) hg.sc h1 h2
        (fun w' hs' _ => by simp only [hs', if_true])
      rw [hk, hk] at e
      simp only [hns, if_false, Prod.mk.injEq] at e
      exact absurd e.2 (by simp)
    refine .once pre post hk ⟨⟨hcore.2.1.trans hg.db, hsc, fun hcm hc => ?_⟩, hcore.1, hiff⟩
    exact hpre.solv hc (hg.solv hcm (hpre.cycm hc))

/-- `unify` calls its consumer (any consumer) only on a good world whose solutions are the solutions of
    the starting heap that unify the two terms -/
theorem unify_only {cm : Prop} (f : Nat) (t1 t2 : Term) {w : World} (hg : Good cm w) (h1 : Own w.next t1)
    (h2 : Own w.next t2) (k1 k2 : K) (h : ∀ w', UStep cm w t1 t2 w' → k1 w' = k2 w') :
    unify f t1 t2 k1 w = unify f t1 t2 k2 w := by
  cases unify_gshape (cm := cm) f t1 t2 hg h1 h2 with
  | oof r _ hk => rw [hk, hk]
  | fail r _ hk _ => rw [hk, hk]
  | once pre post hk hu => rw [hk k1, hk k2, h pre hu]

/-! ### the meaning of goals, abstractly -/

/-- `H` is closed under `=` and under the clauses of the program, in all their instances -/
structure Sem (preds : List Pred) (H : String → List Term → Prop) : Prop where
  eq : ∀ a, H "=" [a, a]
  clause : ∀ p ∈ preds, ∀ c ∈ p.clauses, ∀ ι, IsInst ι → bsem H ι c.body → H p.name (c.head.map ι)

/-- the goal holds under every solution of the heap -/
def GH (H : String → List Term → Prop) (name : String) (args : List Term) (w' : World) : Prop :=
  ∀ θ, Solves θ w'.b → H name (args.map (Term.subst θ))

/-- the body holds under every solution of the heap -/
def BH (H : String → List Term → Prop) (env : Env) (b : Body) (w' : World) : Prop :=
  ∀ θ, Solves θ w'.b → bsem H (fun t => (t.eval env).subst θ) b

/-- the clause applies to the goal under every solution of the heap -/
def CH (H : String → List Term → Prop) (c : Clause) (args : List Term) (w' : World) : Prop :=
  ∀ θ, Solves θ w'.b → ∃ ι, IsInst ι ∧ args.map (Term.subst θ) = c.head.map ι ∧ bsem H ι c.body

theorem runClauses_cons_eq {α : Type} (run : α → Gen) (c : α) (cs : List α) (k : K) (w : World) :
    runClauses run (c :: cs) k w = andThenR (fun w' => runClauses run cs k w') (run c k w) := by
  simp only [runClauses]
  cases h : run c k w with
  | mk w' s => cases s <;> rfl

theorem allocVars_envOwn (names : List String) : ∀ (env : Env) (w : World), EnvOwn w.next env →
    EnvOwn (allocVars names env w).2.next (allocVars names env w).1 := by
  induction names with
  | nil => intro env w h; exact h
  | cons v vs ih =>
    intro env w h
    rw [allocVars_cons]
    apply ih
    intro p hp
    simp only [World.fresh]
    rcases List.mem_append.mp hp with hm | hm
    · exact (h p hm).mono (Nat.le_succ _)
    · simp only [List.mem_singleton] at hm
      subst hm
      exact own_var.mpr (Nat.lt_succ_self _)

section sound
variable {U : String → Bool} {cfg : Cfg} {preds : List Pred} (hc : HC U cfg preds)
variable {H : String → List Term → Prop} (sem : Sem preds H) (cm : Prop)

/-- the statement for goals, at fuel `f` -/
def QSound (U : String → Bool) (cfg : Cfg) (H : String → List Term → Prop) (cm : Prop) (f : Nat) : Prop :=
  ∀ name, U name = true → ∀ args w, Good cm w → OwnL w.next args →
    Only cm (fun w' => Step cm w w' ∧ GH H name args w') (query cfg f name args) w

include hc in
theorem solve_sound (f : Nat) (hq : QSound U cfg H cm f) :
    ∀ (b : Body) (d : Nat), hornBy U b = true → ∀ (env : Env) (w : World), Good cm w → EnvOwn w.next env →
      Only cm (fun w' => Step cm w w' ∧ BH H env b w') (solve (query cfg f) env d b) w
  | .tru, d, _ => by
    intro env w hg he k1 k2 hk1 hk2 hk
    simp only [solve]
    exact hk w ⟨Step.refl hg, fun θ _ => trivial⟩
  | .fail, d, _ => by
    intro env w hg he k1 k2 hk1 hk2 hk
    simp only [solve]
  | .cut, d, _ => by
    intro env w hg he k1 k2 hk1 hk2 hk
    simp only [solve]
    rw [hk w ⟨Step.refl hg, fun θ _ => trivial⟩]
  | .call name args, d, hb => by
    intro env w hg he k1 k2 hk1 hk2 hk
    simp only [solve]
    refine hq name (by simpa [hornBy] using hb) _ w hg (evalArgs_own he args) k1 k2 hk1 hk2 ?_
    intro w' ⟨hst, hgh⟩
    refine hk w' ⟨hst, fun θ hθ => ?_⟩
    have := hgh θ hθ
    rw [List.map_map] at this
    exact this
  | .conj a b, d, hb => by
    intro env w hg he k1 k2 hk1 hk2 hk
    simp only [hornBy, Bool.and_eq_true] at hb
    simp only [solve]
    refine solve_sound f hq a d hb.1 env w hg he _ _ (solve_qkGen hc cm f env b d hb.2 k1 hk1)
      (solve_qkGen hc cm f env b d hb.2 k2 hk2) ?_
    intro w' ⟨hst, ha⟩
    refine solve_sound f hq b d hb.2 env w' hst.good (he.mono hst.next) k1 k2 hk1 hk2 ?_
    intro w'' ⟨hst', hb'⟩
    exact hk w'' ⟨hst.trans hst', fun θ hθ => ⟨ha θ (hst'.ext θ hθ), hb' θ hθ⟩⟩
  | .disj a b, d, hb => by
    intro env w hg he k1 k2 hk1 hk2 hk
    simp only [hornBy, Bool.and_eq_true] at hb
    rw [solve_disj_eq _ env d a b k1 w (horn_not_ite hb.1), solve_disj_eq _ env d a b k2 w (horn_not_ite hb.1)]
    have e1 : solve (query cfg f) env d a k1 w = solve (query cfg f) env d a k2 w :=
      solve_sound f hq a d hb.1 env w hg he k1 k2 hk1 hk2
        (fun w' ⟨hst, ha⟩ => hk w' ⟨hst, fun θ hθ => Or.inl (ha θ hθ)⟩)
    rw [e1]
    have hst : Step cm w (solve (query cfg f) env d a k2 w).1 := (solve_qkGen hc cm f env a d hb.1 k2 hk2).step hg
    revert hst
    generalize solve (query cfg f) env d a k2 w = r
    obtain ⟨w1, o⟩ := r
    intro hst
    cases o with
    | some s => rfl
    | none =>
      simp only [andThenR_none]
      exact solve_sound f hq b d hb.2 env w1 hst.good (he.mono hst.next) k1 k2 hk1 hk2
        (fun w'' ⟨hst', hb'⟩ => hk w'' ⟨hst.trans hst', fun θ hθ => Or.inr (hb' θ hθ)⟩)
  | .ite _ _, _, h => by simp [hornBy] at h
  | .neg _, _, h => by simp [hornBy] at h
  | .cutif _, _, h => by simp [hornBy] at h

/-- the head unifications of a clause, then `g` -/
theorem unifyHead_sound (fuel : Nat) (env : Env) (args : List Term) (g : Gen) (n : Nat) (Ψ : World → Prop)
    (hg : ∀ w, Good cm w → w.next = n → Only cm (fun w' => Step cm w w' ∧ Ψ w') g w) :
    ∀ (us : List (Nat × STerm)) (w : World), Good cm w → w.next = n →
      (∀ p ∈ us, Own n (args.getD p.1 (.atom "$noarg")) ∧ Own n (p.2.eval env)) →
      Only cm (fun w' => Step cm w w' ∧
          (∀ θ, Solves θ w'.b → ∀ p ∈ us, (args.getD p.1 (.atom "$noarg")).subst θ = (p.2.eval env).subst θ) ∧ Ψ w')
        (unifyHead fuel env args us g) w := by
  intro us
  induction us with
  | nil =>
    intro w hw hn _ k1 k2 hk1 hk2 hk
    simp only [unifyHead]
    exact hg w hw hn k1 k2 hk1 hk2 (fun w' ⟨hst, hΨ⟩ => hk w' ⟨hst, fun _ _ p hp => (by cases hp), hΨ⟩)
  | cons u us ih =>
    obtain ⟨i, t⟩ := u
    intro w hw hn hown k1 k2 hk1 hk2 hk
    simp only [unifyHead]
    have ho := hown (i, t) List.mem_cons_self
    refine unify_only fuel _ _ hw (hn ▸ ho.1) (hn ▸ ho.2) _ _ ?_
    intro w1 hu
    refine ih w1 hu.good (hu.next.trans hn) (fun p hp => hown p (List.mem_cons_of_mem _ hp)) k1 k2 hk1 hk2 ?_
    intro w' ⟨hst, heqs, hΨ⟩
    refine hk w' ⟨hu.step.trans hst, fun θ hθ p hp => ?_, hΨ⟩
    rcases List.mem_cons.mp hp with rfl | hp'
    · exact ((hu.sol θ).mp (hst.ext θ hθ)).2
    · exact heqs θ hθ p hp'

include hc in
/-- one clause under textbook activation -/
theorem runClauseRef_sound (f : Nat) (hq : QSound U cfg H cm f) (c : Clause) (args : List Term) (w : World)
    (hg : Good cm w) (ha : OwnL w.next args) (hlen : c.head.length = args.length) (hb : hornBy U c.body = true) :
    Only cm (fun w' => Step cm w w' ∧ CH H c args w') (runClauseRef f (query cfg f) c args) w := by
  intro k1 k2 hk1 hk2 hk
  unfold runClauseRef
  simp only
  generalize hnm : dedup ((c.head.map STerm.vars).flatten ++ c.body.vars) = names
  have hb1 : (allocVars names [] w).2.b = w.b := allocVars_b _ _ _
  have hn1 : w.next ≤ (allocVars names [] w).2.next := (allocVars_grow names [] w).1
  have hd1 : (allocVars names [] w).2.db = w.db := (allocVars_grow names [] w).2
  have hc1 : (allocVars names [] w).2.cyc = w.cyc := allocVars_cyc _ _ _
  have he1 : EnvOwn (allocVars names [] w).2.next (allocVars names [] w).1 :=
    allocVars_envOwn names [] w (fun p hp => by cases hp)
  revert hb1 hn1 hd1 hc1 he1
  generalize (allocVars names [] w).1 = env
  generalize (allocVars names [] w).2 = w1
  intro hb1 hn1 hd1 hc1 he1
  have hg1 : Good cm w1 := ⟨hd1.trans hg.db, hg.sc.of_b hb1 hn1, fun hcm h => by rw [hb1]; exact hg.solv hcm (hc1 ▸ h)⟩
  have hst1 : Step cm w w1 := ⟨hg1, Ext.of_b hb1, hn1⟩
  refine unifyHead_sound cm f env args (solve (query cfg f) env 0 c.body) w1.next (BH H env c.body)
    (fun w2 hw2 hn2 => solve_sound hc cm f hq c.body 0 hb env w2 hw2 (hn2 ▸ he1))
    _ w1 hg1 rfl ?_ k1 k2 hk1 hk2 ?_
  · intro p hp
    refine ⟨?_, eval_own he1 _⟩
    rw [List.getD_eq_getElem?_getD]
    cases hi : args[p.1]? with
    | none => exact own_atom _ _
    | some a => exact (ha a (List.mem_of_getElem? hi)).mono hn1
  · intro w' ⟨hst, heqs, hbh⟩
    refine hk w' ⟨hst1.trans hst, fun θ hθ => ⟨fun t => (t.eval env).subst θ, isInst_eval env θ, ?_, hbh θ hθ⟩⟩
    apply List.ext_getElem
    · simp only [List.length_map]; exact hlen.symm
    · intro i h1 h2
      simp only [List.length_map] at h1 h2
      simp only [List.getElem_map]
      have hm : (i, c.head[i]) ∈ c.head.zipIdx.map (fun (p : STerm × Nat) => (p.2, p.1)) := by
        refine List.mem_map.mpr ⟨(c.head[i], i), ?_, rfl⟩
        exact List.mk_mem_zipIdx_iff_getElem?.mpr (List.getElem?_eq_getElem h2)
      have := heqs θ hθ (i, c.head[i]) hm
      simp only [List.getD_eq_getElem?_getD, List.getElem?_eq_getElem h1, Option.getD_some] at this
      exact this

include hc in
/-- the clauses of a predicate, in order -/
theorem runClauses_sound (f : Nat) (hq : QSound U cfg H cm f) (args : List Term) :
    ∀ (cs : List Clause) (w : World), (∀ c ∈ cs, c.head.length = args.length ∧ hornBy U c.body = true) →
      Good cm w → OwnL w.next args →
      Only cm (fun w' => Step cm w w' ∧ ∃ c ∈ cs, CH H c args w')
        (runClauses (fun c => runClauseRef f (query cfg f) c args) cs) w := by
  intro cs
  induction cs with
  | nil => intro w _ _ _ k1 k2 _ _ _; simp only [runClauses]
  | cons c cs ih =>
    intro w hcs hg ha k1 k2 hk1 hk2 hk
    rw [runClauses_cons_eq, runClauses_cons_eq]
    have hcc := hcs c List.mem_cons_self
    have e1 : runClauseRef f (query cfg f) c args k1 w = runClauseRef f (query cfg f) c args k2 w :=
      runClauseRef_sound hc cm f hq c args w hg ha hcc.1 hcc.2 k1 k2 hk1 hk2
        (fun w' ⟨hst, hch⟩ => hk w' ⟨hst, c, List.mem_cons_self, hch⟩)
    simp only [e1]
    have hst : Step cm w (runClauseRef f (query cfg f) c args k2 w).1 :=
      (runClauseRef_qkGen hc cm f c hcc.2 args k2 hk2).step hg
    revert hst
    generalize runClauseRef f (query cfg f) c args k2 w = r
    obtain ⟨w1, o⟩ := r
    intro hst
    cases o with
    | some s => rfl
    | none =>
      simp only [andThenR_none]
      exact ih w1 (fun c' hc' => hcs c' (List.mem_cons_of_mem _ hc')) hst.good (ha.mono hst.next) k1 k2 hk1 hk2
        (fun w'' ⟨hst', c', hc', hch⟩ => hk w'' ⟨hst.trans hst', c', List.mem_cons_of_mem _ hc', hch⟩)

include hc sem in
/-- **Soundness, for an abstract meaning of goals.** -/
theorem query_sound_all : ∀ f, QSound U cfg H cm f := by
  intro f
  induction f using Nat.strongRecOn with
  | _ f ih =>
    intro name hU args w hg ha k1 k2 hk1 hk2 hk
    cases f with
    | zero => simp only [query]
    | succ f =>
      rw [query_succ_nil _ _ _ _ _ _ hg.db, query_succ_nil _ _ _ _ _ _ hg.db]
      cases tailCase hc f hU args with
      | none h => rw [h, h]
      | oof h => rw [h, h]
      | eq a b n hn hargs hf h =>
        rw [h, h]
        subst hn hargs
        refine unify_only n a b hg (ha a (by simp)) (ha b (by simp)) k1 k2
          (fun w' hu => hk w' ⟨hu.step, fun θ hθ => ?_⟩)
        have e := ((hu.sol θ).mp hθ).2
        simp only [List.map_cons, List.map_nil]
        rw [e]
        exact sem.eq _
      | user p n hp hpn hpa hf h =>
        rw [h, h]
        have hsh := (hc.shape p hp).2.2
        have e : runClauses (fun c => runClauseRef n (query cfg n) c args) p.clauses (wrapK k1) w
            = runClauses (fun c => runClauseRef n (query cfg n) c args) p.clauses (wrapK k2) w := by
          refine runClauses_sound hc cm n (ih n (by omega)) args p.clauses w
            (fun c hcm => ⟨((hsh c hcm).1).trans hpa, (hsh c hcm).2⟩) hg ha _ _ hk1.wrapK hk2.wrapK ?_
          intro w' ⟨hst, c, hcm, hch⟩
          have e2 : k1 w' = k2 w' := by
            refine hk w' ⟨hst, fun θ hθ => ?_⟩
            obtain ⟨ι, hι, e, hb⟩ := hch θ hθ
            rw [e, ← hpn]
            exact sem.clause p hp c hcm ι hι hb
          simp only [wrapK, e2]
        rw [e]

end sound

end Lg
end Yld
