/-
  Everything proved on the way to `Yld.Proofs.Activation` (aliased activation = textbook activation,
  observationally), collected.  Every statement is proved completely.

  Stage 0/1 — the relation and the primitive layer
    ActBase      substitution / renaming / variables of terms; `Forall₂`
    ActVariant   `canonVars_variant` (terms that are instances of each other have the same canonical
                 form), `canonVars_closed`, `canonVars_length`
    ActCyc       the ghost flag `cyc` is never reset: `CycMono`, `CycGen`, `allCyc` (unary engine pass)
    ActSem       `Solvable` (acyclic heap, semantically), `resolve_subst`, `solvable_bind`, `markCyc_clean`
    ActShape     `UShape`: what `unify` / `unifyList` do as seen by the caller (`unify_ushape`)
    ActRel       couplings `Cpl`, `TRel`, `Core`, `Supp`, blocks of new cells (`Core.block`), the result
                 lists of findall (`FV`, `Core.fv`)
    ActSim       `WRel`, `Proper`, `RSim`, `KSim`; outcome combinators; `sim_shapes`, `sim_eqs`, `unify_sim`
    ActObs       `walk_heads` (corresponding terms dereference to the same kind of term),
                 `resolve_variants` (their resolved forms have the same canonical form)
    ActPrim      `matchFact_sim`, `matchDynamic_sim`, `retractLoop_sim`, `runPy_sim`, `assertFact_sim`,
                 `factNameArgs_sim`, `retractAllLoop_sim`, `findallCollect_sim`, `topConsumer_sim`
  Stage 2 — one clause
    ActClause    `solve_sim` (bodies), `headGen_ushape`, `Prologue`, `head_sim`
    ActPrologue  `prologue_compile`: what `compileClause` sets up satisfies `Prologue`
    ActClause2   `clause_sim` (runClauseRef vs runClauseRefBody, any relation-respecting `q`), `runClauses_sim`
  Stage 3 — the engine
    ActBuiltin   `builtin_sim` (=, \=, call, once, findall, assertz/a, retract, retractall)
    ActEngine    `allSim`: query / runChain / runDef / runBuiltin / callGoal by induction on the fuel
    Activation   `reference_eq_refbody_wf`, `reference_eq_refbody_unbound`; why the statement without
                 well-formedness hypotheses is false
-/
import Yld.Proofs.ActBase
import Yld.Proofs.ActVariant
import Yld.Proofs.ActCyc
import Yld.Proofs.ActSem
import Yld.Proofs.ActShape
import Yld.Proofs.ActRel
import Yld.Proofs.ActSim
import Yld.Proofs.ActObs
import Yld.Proofs.ActPrim
import Yld.Proofs.ActClause
import Yld.Proofs.ActPrologue
import Yld.Proofs.ActClause2
import Yld.Proofs.ActBuiltin
import Yld.Proofs.ActEngine
