/-
  Program level: the engine running the compiled code of a program equals the engine running the
  same clause activations with the bodies under the reference semantics — for every program whose
  bodies come from source text, every query, every consumer, every world and every fuel.
-/
import Yld.Proofs.Parametric
import Yld.Model.Parser
namespace Yld

def Def.withMode (m : Mode) : Def → Def
  | .prolog p _ => .prolog p m
  | d => d

def Cfg.withMode (cfg : Cfg) (m : Mode) : Cfg :=
  { cfg with defs := cfg.defs.map fun (kd : String × List Def) => (kd.1, kd.2.map (Def.withMode m)) }

/-- every clause body in the definition table is a source body (no `$CUTIF` marker) -/
def SrcDefs (defs : Defs) : Prop :=
  ∀ kd ∈ defs, ∀ d ∈ kd.2, ∀ p m, d = Def.prolog p m → ∀ c ∈ p.clauses, Src c.body

theorem get_withMode (defs : Defs) (m : Mode) (key : String) :
    Defs.get (defs.map fun (kd : String × List Def) => (kd.1, kd.2.map (Def.withMode m))) key
      = (Defs.get defs key).map (List.map (Def.withMode m)) := by
  unfold Defs.get
  induction defs with
  | nil => rfl
  | cons kd rest ih =>
    obtain ⟨k, ds⟩ := kd
    simp only [List.map_cons, List.lookup_cons]
    cases (key == k)
    · exact ih
    · rfl

theorem get_mem (defs : Defs) (key : String) (ds : List Def) (h : Defs.get defs key = some ds) : (key, ds) ∈ defs := by
  unfold Defs.get at h
  induction defs with
  | nil => simp at h
  | cons kd rest ih =>
    obtain ⟨k, ds'⟩ := kd
    simp only [List.lookup_cons] at h
    cases hk : (key == k) with
    | false => rw [hk] at h; exact List.mem_cons_of_mem _ (ih h)
    | true =>
      rw [hk] at h
      simp only [Option.some.injEq] at h
      have : key = k := by simpa using hk
      subst this; subst h
      exact List.mem_cons_self

theorem wrapK_external (k : K) : External (wrapK k) := by
  intro w
  unfold wrapK
  cases k w with
  | mk w' s =>
    cases s with
    | none => left; rfl
    | some s => right; exact ⟨s, rfl⟩

theorem unifyHead_congr (fuel : Nat) (env : Env) (args : List Term) (g1 g2 : Gen) (k : K)
    (h : ∀ w, g1 k w = g2 k w) : ∀ us w, unifyHead fuel env args us g1 k w = unifyHead fuel env args us g2 k w := by
  intro us
  induction us with
  | nil => intro w; simpa [unifyHead] using h w
  | cons u us ih =>
    obtain ⟨i, t⟩ := u
    intro w
    simp only [unifyHead]
    congr 1
    funext w'
    exact ih w'

theorem compileClause_code (c : Clause) (n : Nat) : (compileClause c n).1.code = (comp c.body [] n).1 := by
  simp [compileClause]

/-- One clause: the generated code of the body may be replaced by the reference semantics. -/
theorem clause_correct (fuel : Nat) (q : Q) (hq : Parametric q) (c : Clause) (hc : Src c.body) (n : Nat)
    (args : List Term) (k : K) (hk : External k) (w : World) :
    runClauseCompiled fuel q (compileClause c n).1 args k w
      = runClauseRefBody fuel q (compileClause c n).1 c.body args k w := by
  unfold runClauseCompiled runClauseRefBody
  simp only
  apply unifyHead_congr
  intro w'
  rw [compileClause_code]
  exact compile_body_correct q hq _ c.body hc n k hk w'

theorem clauses_correct (fuel : Nat) (q : Q) (hq : Parametric q) (args : List Term) (k : K) (hk : External k) :
    ∀ (cs : List Clause) (n : Nat) (w : World), (∀ c ∈ cs, Src c.body) →
      runClauses (fun cc => runClauseCompiled fuel q cc args) (compileClauses cs n).1 k w
        = runClauses (fun (x : ClauseCode × Clause) => runClauseRefBody fuel q x.1 x.2.body args)
            ((compileClauses cs n).1.zip cs) k w := by
  intro cs
  induction cs with
  | nil => intro n w _; simp [compileClauses, runClauses]
  | cons c cs ih =>
    intro n w hsrc
    simp only [compileClauses, List.zip_cons_cons, runClauses]
    rw [clause_correct fuel q hq c (hsrc c List.mem_cons_self) n args k hk w]
    cases runClauseRefBody fuel q (compileClause c n).1 c.body args k w with
    | mk w' s =>
      cases s with
      | none => simp only; exact ih _ w' (fun c' hc' => hsrc c' (List.mem_cons_of_mem _ hc'))
      | some s => rfl

def SrcChain (ds : List Def) : Prop := ∀ d ∈ ds, ∀ p m, d = Def.prolog p m → ∀ c ∈ p.clauses, Src c.body

def AllEq (cfg : Cfg) (f : Nat) : Prop :=
  (∀ name args, query (cfg.withMode .compiled) f name args = query (cfg.withMode .refbody) f name args) ∧
  (∀ ds args, SrcChain ds → runChain (cfg.withMode .compiled) f (ds.map (Def.withMode .compiled)) args
      = runChain (cfg.withMode .refbody) f (ds.map (Def.withMode .refbody)) args) ∧
  (∀ d args, SrcChain [d] → runDef (cfg.withMode .compiled) f (d.withMode .compiled) args
      = runDef (cfg.withMode .refbody) f (d.withMode .refbody) args) ∧
  (∀ b args, runBuiltin (cfg.withMode .compiled) f b args = runBuiltin (cfg.withMode .refbody) f b args) ∧
  (∀ g extra, callGoal (cfg.withMode .compiled) f g extra = callGoal (cfg.withMode .refbody) f g extra)

theorem allEq (cfg : Cfg) (hsrc : SrcDefs cfg.defs) : ∀ f, AllEq cfg f := by
  intro f
  induction f with
  | zero =>
    refine ⟨?_, ?_, ?_, ?_, ?_⟩ <;> intros <;> funext k w
    · simp only [query]
    · simp only [runChain]
    · simp only [runDef]
    · simp only [runBuiltin]
    · simp only [callGoal]
  | succ f ih =>
    obtain ⟨ihQ, ihC, ihD, ihB, ihG⟩ := ih
    have hq : query (cfg.withMode .compiled) f = query (cfg.withMode .refbody) f := by
      funext name args; exact ihQ name args
    refine ⟨?_, ?_, ?_, ?_, ?_⟩
    · -- query
      intro name args
      funext k w
      simp only [query]
      have hbl : (cfg.withMode .compiled).blacklist = (cfg.withMode .refbody).blacklist := rfl
      cases matchDynamic f name args k w with
      | mk w1 o =>
        cases o with
        | some s => rfl
        | none =>
          simp only [hbl]
          split
          · rfl
          · simp only [Cfg.withMode, get_withMode]
            cases h1 : Defs.get cfg.defs (predKey name args.length) with
            | some ds =>
              simp only [Option.map_some, Option.orElse]
              have : SrcChain ds := fun d hd p m hpm c hc => hsrc _ (get_mem _ _ _ h1) d hd p m hpm c hc
              exact congrFun (congrFun (ihC ds args this) k) w1
            | none =>
              simp only [Option.map_none, Option.orElse]
              cases h2 : Defs.get cfg.defs (variadicKey name) with
              | some ds =>
                simp only [Option.map_some]
                have : SrcChain ds := fun d hd p m hpm c hc => hsrc _ (get_mem _ _ _ h2) d hd p m hpm c hc
                exact congrFun (congrFun (ihC ds args this) k) w1
              | none => rfl
    · -- runChain
      intro ds args hds
      funext k w
      cases ds with
      | nil => simp only [List.map_nil, runChain]
      | cons d ds =>
        simp only [List.map_cons, runChain]
        have hd : SrcChain [d] := fun d' hd' p m hpm c hc => by
          have : d' = d := by simpa using hd'
          subst this
          exact hds d' List.mem_cons_self p m hpm c hc
        rw [congrFun (congrFun (ihD d args hd) k) w]
        cases runDef (cfg.withMode .refbody) f (d.withMode .refbody) args k w with
        | mk w1 o =>
          cases o with
          | some s => rfl
          | none =>
            simp only
            exact congrFun (congrFun (ihC ds args (fun d' hd' => hds d' (List.mem_cons_of_mem _ hd'))) k) w1
    · -- runDef
      intro d args hd
      funext k w
      cases d with
      | prolog p m =>
        simp only [Def.withMode, runDef]
        rw [hq]
        congr 1
        have hsrcp : ∀ c ∈ p.clauses, Src c.body := hd _ List.mem_cons_self p m rfl
        exact clauses_correct f (query (cfg.withMode .refbody) f) (query_parametric _ f) args (wrapK k) (wrapK_external k)
          p.clauses 0 w hsrcp
      | py p => simp only [Def.withMode, runDef]
      | builtin b => simp only [Def.withMode, runDef]; exact congrFun (congrFun (ihB b args) k) w
    · -- runBuiltin
      intro b args
      funext k w
      simp only [runBuiltin, hq, ihG]
    · -- callGoal
      intro g extra
      funext k w
      simp only [callGoal, hq]

/-- **Program-level correctness of the compiler model.** For every definition table whose clause
    bodies are source bodies, running the generated code and running the reference semantics of
    the bodies (under the same clause activation) are the same generator: same answers in the same
    order, same bindings at each answer, same reaction to every consumer, same faults, same final
    world — at every fuel. -/
theorem program_correct (cfg : Cfg) (hsrc : SrcDefs cfg.defs) (f : Nat) (name : String) (args : List Term) :
    query (cfg.withMode .compiled) f name args = query (cfg.withMode .refbody) f name args :=
  (allEq cfg hsrc f).1 name args

theorem bodyOfRaw_goal_term (t : RTerm) (b : Body) (h : bodyOfRaw (.goal (.term t)) = .ok b) : ∃ n as, b = .call n as := by
  simp only [bodyOfRaw] at h
  cases hg : goalOfTerm t with
  | error e => rw [hg] at h; cases h
  | ok r =>
    obtain ⟨n, isNum, args⟩ := r
    rw [hg] at h
    change (match List.mapM RTerm.toSTerm args with
      | some as => Except.ok (if isNum = true then Body.call n [.numfn n as] else Body.call n as)
      | none => Except.error FrontErr.crash) = Except.ok b at h
    split at h
    · cases h; split <;> exact ⟨_, _, rfl⟩
    · cases h

theorem bodyOfRaw_bin (a b : RBody) (mk : Body → Body → Body) (r : Body)
    (h : (do let x ← bodyOfRaw a; let y ← bodyOfRaw b; pure (mk x y) : Except FrontErr Body) = .ok r) :
    ∃ a' b', bodyOfRaw a = .ok a' ∧ bodyOfRaw b = .ok b' ∧ r = mk a' b' := by
  cases ha : bodyOfRaw a with
  | error e => rw [ha] at h; cases h
  | ok a' =>
    cases hb : bodyOfRaw b with
    | error e => rw [ha, hb] at h; cases h
    | ok b' => rw [ha, hb] at h; cases h; exact ⟨a', b', rfl, rfl, rfl⟩

/-- What the front end builds from source text never contains the compiler's internal marker. -/
theorem bodyOfRaw_src : ∀ (rb : RBody) (b : Body), bodyOfRaw rb = .ok b → Src b := by
  intro rb
  induction rb with
  | goal g =>
    intro b h
    cases g with
    | tru => simp only [bodyOfRaw] at h; cases h; trivial
    | fail => simp only [bodyOfRaw] at h; cases h; trivial
    | cut => simp only [bodyOfRaw] at h; cases h; trivial
    | term t => obtain ⟨n, as, rfl⟩ := bodyOfRaw_goal_term t b h; trivial
  | conj a b iha ihb =>
    intro r h
    simp only [bodyOfRaw] at h
    obtain ⟨a', b', ha, hb, rfl⟩ := bodyOfRaw_bin a b Body.conj r h
    exact ⟨iha a' ha, ihb b' hb⟩
  | disj a b iha ihb =>
    intro r h
    simp only [bodyOfRaw] at h
    obtain ⟨a', b', ha, hb, rfl⟩ := bodyOfRaw_bin a b Body.disj r h
    exact ⟨iha a' ha, ihb b' hb⟩
  | ite a b iha ihb =>
    intro r h
    simp only [bodyOfRaw] at h
    obtain ⟨a', b', ha, hb, rfl⟩ := bodyOfRaw_bin a b Body.ite r h
    exact ⟨iha a' ha, ihb b' hb⟩
  | neg a iha =>
    intro r h
    simp only [bodyOfRaw] at h
    cases ha : bodyOfRaw a with
    | error e => rw [ha] at h; cases h
    | ok a' => rw [ha] at h; cases h; exact iha a' ha

end Yld
