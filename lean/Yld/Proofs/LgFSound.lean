/-
  The logical reading with dynamic facts (C01, C07), stage 1: soundness.

  `LgSound`, for a run whose store is the constant `D`: the worlds are `Good D cm` (store `D`), the
  abstract meaning `H` of goals is closed under `=`, the clauses *and the facts of `D`* (`Sem D`).  The
  proofs for `unify`, head unification, bodies, clauses are those of `LgSound` (transitivity with
  `w.db = D.db` in place of `w.db = []`).  New: the branch of `query` over the stored facts —
  `matchFact` (a fresh block of cells for the fact's variables, `unifyList` of the argument lists; the
  yield heap is characterised like that of head unification, `ulist_gshape`), `matchAll`,
  `matchDynamic` — and `query` as facts-then-definitions (`qtail_sound`, `query_sound_all`).
-/
import Yld.Proofs.LgFBase
import Yld.Proofs.LgSound
set_option linter.unusedSimpArgs false
set_option linter.unusedVariables false
namespace Yld
namespace Lg
namespace F

variable {D : CDb}

/-! ### the unification generators, as seen from a good world -/

/-- `UShape` for any set of equations `E`, with what the later stages need: the world at the yield is
    `Good` again, the allocation counter has not moved, and what the generator does after its consumer
    returns leaves the recorded results alone -/
inductive GShapeU (D : CDb) (cm : Prop) (E : Val → Prop) (g : Gen) (w : World) : Prop
  | oof (r : R) : r.2 = some .oof → (∀ k, g k w = r) → GShapeU D cm E g w
  | fail (r : R) : r.2 = none → (∀ k, g k w = r) → (∀ θ, Solves θ w.b → ¬ E θ) → GShapeU D cm E g w
  | once (pre : World) (post : World → World) : (∀ k, g k w = ((post (k pre).1), (k pre).2)) →
      Good D cm pre → pre.next = w.next → (∀ θ, Solves θ pre.b ↔ (Solves θ w.b ∧ E θ)) →
      (∀ w', (post w').acc = w'.acc) → GShapeU D cm E g w

open Classical in
/-- from the shape of `ActShape`, for a generator that treats consumers agreeing on scoped worlds alike -/
theorem gshapeU_of {cm : Prop} {E : Val → Prop} {g : Gen} {w : World} (hg : Good D cm w) (s : UShape E g w)
    (hsa : ∀ k1 k2, SAgree w.next k1 k2 → g k1 w = g k2 w) : GShapeU D cm E g w := by
  cases s with
  | oof r hr hk => exact .oof r hr hk
  | fail r hr hk hno _ _ => exact .fail r hr hk hno
  | once pre post hk hiff hpre hpost =>
    have hcore := hpre.core
    simp only [World.core, Prod.mk.injEq] at hcore
    have hsc : WScoped pre := by
      apply Classical.byContradiction
      intro hns
      have e := hsa (fun w' => (w', none)) (fun w' => (w', if WScoped w' then none else some .stop))
        (fun w' hs' _ => by simp only [hs', if_true])
      rw [hk, hk] at e
      simp only [hns, if_false, Prod.mk.injEq] at e
      exact absurd e.2 (by simp)
    refine .once pre post hk ⟨hcore.2.1.trans hg.db, hsc, fun hcm hc => ?_⟩ hcore.1 hiff (fun w' => ?_)
    · exact hpre.solv hc (hg.solv hcm (hpre.cycm hc))
    · have := hpost.core w'
      simp only [World.core, Prod.mk.injEq] at this
      exact this.2.2.2

theorem unify_gshapeU {cm : Prop} (f : Nat) (t1 t2 : Term) {w : World} (hg : Good D cm w) (h1 : Own w.next t1)
    (h2 : Own w.next t2) : GShapeU D cm (fun θ => t1.subst θ = t2.subst θ) (unify f t1 t2) w :=
  gshapeU_of hg (unify_ushape f t1 t2 w) (fun k1 k2 h => unify_sagree f t1 t2 w k1 k2 hg.sc h1 h2 h)

theorem ulist_gshapeU {cm : Prop} (f : Nat) (as bs : List Term) {w : World} (hg : Good D cm w) (h1 : OwnL w.next as)
    (h2 : OwnL w.next bs) :
    GShapeU D cm (fun θ => as.map (Term.subst θ) = bs.map (Term.subst θ)) (unifyList (unify f) as bs) w :=
  gshapeU_of hg (unifyList_ushape (unify f) (unify_ushape f) as bs w)
    (fun k1 k2 h => unifyList_sagree (unify f) (unify_sagree f) as bs w k1 k2 hg.sc h1 h2 h)

/-- the world at the yield of `unify t1 t2` started in `w` -/
structure UStep (D : CDb) (cm : Prop) (w : World) (t1 t2 : Term) (w' : World) : Prop where
  good : Good D cm w'
  next : w'.next = w.next
  sol : ∀ θ, Solves θ w'.b ↔ (Solves θ w.b ∧ t1.subst θ = t2.subst θ)

theorem UStep.step {cm : Prop} {w w' : World} {t1 t2 : Term} (h : UStep D cm w t1 t2 w') : Step D cm w w' :=
  ⟨h.good, fun θ hθ => ((h.sol θ).mp hθ).1, Nat.le_of_eq h.next.symm⟩

/-- `UShape`, with what the later stages need: the world at the yield is `Good` again, the allocation
    counter has not moved -/
inductive GShape (D : CDb) (cm : Prop) (g : Gen) (w : World) (t1 t2 : Term) : Prop
  | oof (r : R) : r.2 = some .oof → (∀ k, g k w = r) → GShape D cm g w t1 t2
  | fail (r : R) : r.2 = none → (∀ k, g k w = r) → (∀ θ, Solves θ w.b → t1.subst θ ≠ t2.subst θ) → GShape D cm g w t1 t2
  | once (pre : World) (post : World → World) : (∀ k, g k w = ((post (k pre).1), (k pre).2)) →
      UStep D cm w t1 t2 pre → GShape D cm g w t1 t2



theorem unify_gshape {cm : Prop} (f : Nat) (t1 t2 : Term) {w : World} (hg : Good D cm w) (h1 : Own w.next t1)
    (h2 : Own w.next t2) : GShape D cm (unify f t1 t2) w t1 t2 := by
  cases unify_gshapeU (cm := cm) f t1 t2 hg h1 h2 with
  | oof r hr hk => exact .oof r hr hk
  | fail r hr hk hno => exact .fail r hr hk hno
  | once pre post hk hgood hn hiff _ => exact .once pre post hk ⟨hgood, hn, hiff⟩

/-- `unify` calls its consumer (any consumer) only on a good world whose solutions are the solutions of
    the starting heap that unify the two terms -/

theorem unify_only {cm : Prop} (f : Nat) (t1 t2 : Term) {w : World} (hg : Good D cm w) (h1 : Own w.next t1)
    (h2 : Own w.next t2) (k1 k2 : K) (h : ∀ w', UStep D cm w t1 t2 w' → k1 w' = k2 w') :
    unify f t1 t2 k1 w = unify f t1 t2 k2 w := by
  cases unify_gshape (cm := cm) f t1 t2 hg h1 h2 with
  | oof r _ hk => rw [hk, hk]
  | fail r _ hk _ => rw [hk, hk]
  | once pre post hk hu => rw [hk k1, hk k2, h pre hu]





/-! ### the meaning of goals, abstractly -/

/-- `H` is closed under `=`, under the clauses of the program and under the facts of the store, in all
    their instances -/
structure Sem (D : CDb) (preds : List Pred) (H : String → List Term → Prop) : Prop where
  eq : ∀ a, H "=" [a, a]
  clause : ∀ p ∈ preds, ∀ c ∈ p.clauses, ∀ ι, IsInst ι → bsem H ι c.body → H p.name (c.head.map ι)
  fact : ∀ name (c : Fact) (τ : Val), c ∈ (D.db.lookup (name, c.args.length)).getD [] →
    H name (c.args.map (Term.subst τ))

/-- the fact applies to the goal under every solution of the heap -/
def FH (c : Fact) (args : List Term) (w' : World) : Prop :=
  ∀ θ, Solves θ w'.b → ∃ τ : Val, args.map (Term.subst θ) = c.args.map (Term.subst τ)

section sound
variable {U : String → Bool} {cfg : Cfg} {preds : List Pred} (hc : HC U cfg preds)
variable {H : String → List Term → Prop} (sem : Sem D preds H) (cm : Prop)

/-- the statement for goals, at fuel `f` -/
def QSound (D : CDb) (U : String → Bool) (cfg : Cfg) (H : String → List Term → Prop) (cm : Prop) (f : Nat) : Prop :=
  ∀ name, U name = true → ∀ args w, Good D cm w → OwnL w.next args →
    Only cm (fun w' => Step D cm w w' ∧ GH H name args w') (query cfg f name args) w

include hc in
theorem solve_sound (f : Nat) (hq : QSound D U cfg H cm f) :
    ∀ (b : Body) (d : Nat), hornBy U b = true → ∀ (env : Env) (w : World), Good D cm w → EnvOwn w.next env →
      Only cm (fun w' => Step D cm w w' ∧ BH H env b w') (solve (query cfg f) env d b) w
  | .tru, d, _ => by
    intro env w hg he k1 k2 hk1 hk2 hk
    simp only [solve]
    exact hk w ⟨Step.refl hg, fun θ _ => trivial⟩
  | .fail, d, _ => by
    intro env w hg he k1 k2 hk1 hk2 hk
    simp only [solve]
  | .cut, d, _ => by
    intro env w hg he k1 k2 hk1 hk2 hk
    simp only [solve]
    rw [hk w ⟨Step.refl hg, fun θ _ => trivial⟩]
  | .call name args, d, hb => by
    intro env w hg he k1 k2 hk1 hk2 hk
    simp only [solve]
    refine hq name (by simpa [hornBy] using hb) _ w hg (evalArgs_own he args) k1 k2 hk1 hk2 ?_
    intro w' ⟨hst, hgh⟩
    refine hk w' ⟨hst, fun θ hθ => ?_⟩
    have := hgh θ hθ
    rw [List.map_map] at this
    exact this
  | .conj a b, d, hb => by
    intro env w hg he k1 k2 hk1 hk2 hk
    simp only [hornBy, Bool.and_eq_true] at hb
    simp only [solve]
    refine solve_sound f hq a d hb.1 env w hg he _ _ (solve_qkGen hc cm f env b d hb.2 k1 hk1)
      (solve_qkGen hc cm f env b d hb.2 k2 hk2) ?_
    intro w' ⟨hst, ha⟩
    refine solve_sound f hq b d hb.2 env w' hst.good (he.mono hst.next) k1 k2 hk1 hk2 ?_
    intro w'' ⟨hst', hb'⟩
    exact hk w'' ⟨hst.trans hst', fun θ hθ => ⟨ha θ (hst'.ext θ hθ), hb' θ hθ⟩⟩
  | .disj a b, d, hb => by
    intro env w hg he k1 k2 hk1 hk2 hk
    simp only [hornBy, Bool.and_eq_true] at hb
    rw [solve_disj_eq _ env d a b k1 w (horn_not_ite hb.1), solve_disj_eq _ env d a b k2 w (horn_not_ite hb.1)]
    have e1 : solve (query cfg f) env d a k1 w = solve (query cfg f) env d a k2 w :=
      solve_sound f hq a d hb.1 env w hg he k1 k2 hk1 hk2
        (fun w' ⟨hst, ha⟩ => hk w' ⟨hst, fun θ hθ => Or.inl (ha θ hθ)⟩)
    rw [e1]
    have hst : Step D cm w (solve (query cfg f) env d a k2 w).1 := (solve_qkGen hc cm f env a d hb.1 k2 hk2).stepF hg
    revert hst
    generalize solve (query cfg f) env d a k2 w = r
    obtain ⟨w1, o⟩ := r
    intro hst
    cases o with
    | some s => rfl
    | none =>
      simp only [andThenR_none]
      exact solve_sound f hq b d hb.2 env w1 hst.good (he.mono hst.next) k1 k2 hk1 hk2
        (fun w'' ⟨hst', hb'⟩ => hk w'' ⟨hst.trans hst', fun θ hθ => Or.inr (hb' θ hθ)⟩)
  | .ite _ _, _, h => by simp [hornBy] at h
  | .neg _, _, h => by simp [hornBy] at h
  | .cutif _, _, h => by simp [hornBy] at h

/-- the head unifications of a clause, then `g` -/
theorem unifyHead_sound (fuel : Nat) (env : Env) (args : List Term) (g : Gen) (n : Nat) (Ψ : World → Prop)
    (hg : ∀ w, Good D cm w → w.next = n → Only cm (fun w' => Step D cm w w' ∧ Ψ w') g w) :
    ∀ (us : List (Nat × STerm)) (w : World), Good D cm w → w.next = n →
      (∀ p ∈ us, Own n (args.getD p.1 (.atom "$noarg")) ∧ Own n (p.2.eval env)) →
      Only cm (fun w' => Step D cm w w' ∧
          (∀ θ, Solves θ w'.b → ∀ p ∈ us, (args.getD p.1 (.atom "$noarg")).subst θ = (p.2.eval env).subst θ) ∧ Ψ w')
        (unifyHead fuel env args us g) w := by
  intro us
  induction us with
  | nil =>
    intro w hw hn _ k1 k2 hk1 hk2 hk
    simp only [unifyHead]
    exact hg w hw hn k1 k2 hk1 hk2 (fun w' ⟨hst, hΨ⟩ => hk w' ⟨hst, fun _ _ p hp => (by cases hp), hΨ⟩)
  | cons u us ih =>
    obtain ⟨i, t⟩ := u
    intro w hw hn hown k1 k2 hk1 hk2 hk
    simp only [unifyHead]
    have ho := hown (i, t) List.mem_cons_self
    refine unify_only fuel _ _ hw (hn ▸ ho.1) (hn ▸ ho.2) _ _ ?_
    intro w1 hu
    refine ih w1 hu.good (hu.next.trans hn) (fun p hp => hown p (List.mem_cons_of_mem _ hp)) k1 k2 hk1 hk2 ?_
    intro w' ⟨hst, heqs, hΨ⟩
    refine hk w' ⟨hu.step.trans hst, fun θ hθ p hp => ?_, hΨ⟩
    rcases List.mem_cons.mp hp with rfl | hp'
    · exact ((hu.sol θ).mp (hst.ext θ hθ)).2
    · exact heqs θ hθ p hp'

include hc in
/-- one clause under textbook activation -/
theorem runClauseRef_sound (f : Nat) (hq : QSound D U cfg H cm f) (c : Clause) (args : List Term) (w : World)
    (hg : Good D cm w) (ha : OwnL w.next args) (hlen : c.head.length = args.length) (hb : hornBy U c.body = true) :
    Only cm (fun w' => Step D cm w w' ∧ CH H c args w') (runClauseRef f (query cfg f) c args) w := by
  intro k1 k2 hk1 hk2 hk
  unfold runClauseRef
  simp only
  generalize hnm : dedup ((c.head.map STerm.vars).flatten ++ c.body.vars) = names
  have hb1 : (allocVars names [] w).2.b = w.b := allocVars_b _ _ _
  have hn1 : w.next ≤ (allocVars names [] w).2.next := (allocVars_grow names [] w).1
  have hd1 : (allocVars names [] w).2.db = w.db := (allocVars_grow names [] w).2
  have hc1 : (allocVars names [] w).2.cyc = w.cyc := allocVars_cyc _ _ _
  have he1 : EnvOwn (allocVars names [] w).2.next (allocVars names [] w).1 :=
    allocVars_envOwn names [] w (fun p hp => by cases hp)
  revert hb1 hn1 hd1 hc1 he1
  generalize (allocVars names [] w).1 = env
  generalize (allocVars names [] w).2 = w1
  intro hb1 hn1 hd1 hc1 he1
  have hg1 : Good D cm w1 := ⟨hd1.trans hg.db, hg.sc.of_b hb1 hn1, fun hcm h => by rw [hb1]; exact hg.solv hcm (hc1 ▸ h)⟩
  have hst1 : Step D cm w w1 := ⟨hg1, Ext.of_b hb1, hn1⟩
  refine unifyHead_sound cm f env args (solve (query cfg f) env 0 c.body) w1.next (BH H env c.body)
    (fun w2 hw2 hn2 => solve_sound hc cm f hq c.body 0 hb env w2 hw2 (hn2 ▸ he1))
    _ w1 hg1 rfl ?_ k1 k2 hk1 hk2 ?_
  · intro p hp
    refine ⟨?_, eval_own he1 _⟩
    rw [List.getD_eq_getElem?_getD]
    cases hi : args[p.1]? with
    | none => exact own_atom _ _
    | some a => exact (ha a (List.mem_of_getElem? hi)).mono hn1
  · intro w' ⟨hst, heqs, hbh⟩
    refine hk w' ⟨hst1.trans hst, fun θ hθ => ⟨fun t => (t.eval env).subst θ, isInst_eval env θ, ?_, hbh θ hθ⟩⟩
    apply List.ext_getElem
    · simp only [List.length_map]; exact hlen.symm
    · intro i h1 h2
      simp only [List.length_map] at h1 h2
      simp only [List.getElem_map]
      have hm : (i, c.head[i]) ∈ c.head.zipIdx.map (fun (p : STerm × Nat) => (p.2, p.1)) := by
        refine List.mem_map.mpr ⟨(c.head[i], i), ?_, rfl⟩
        exact List.mk_mem_zipIdx_iff_getElem?.mpr (List.getElem?_eq_getElem h2)
      have := heqs θ hθ (i, c.head[i]) hm
      simp only [List.getD_eq_getElem?_getD, List.getElem?_eq_getElem h1, Option.getD_some] at this
      exact this

include hc in
/-- the clauses of a predicate, in order -/
theorem runClauses_sound (f : Nat) (hq : QSound D U cfg H cm f) (args : List Term) :
    ∀ (cs : List Clause) (w : World), (∀ c ∈ cs, c.head.length = args.length ∧ hornBy U c.body = true) →
      Good D cm w → OwnL w.next args →
      Only cm (fun w' => Step D cm w w' ∧ ∃ c ∈ cs, CH H c args w')
        (runClauses (fun c => runClauseRef f (query cfg f) c args) cs) w := by
  intro cs
  induction cs with
  | nil => intro w _ _ _ k1 k2 _ _ _; simp only [runClauses]
  | cons c cs ih =>
    intro w hcs hg ha k1 k2 hk1 hk2 hk
    rw [runClauses_cons_eq, runClauses_cons_eq]
    have hcc := hcs c List.mem_cons_self
    have e1 : runClauseRef f (query cfg f) c args k1 w = runClauseRef f (query cfg f) c args k2 w :=
      runClauseRef_sound hc cm f hq c args w hg ha hcc.1 hcc.2 k1 k2 hk1 hk2
        (fun w' ⟨hst, hch⟩ => hk w' ⟨hst, c, List.mem_cons_self, hch⟩)
    simp only [e1]
    have hst : Step D cm w (runClauseRef f (query cfg f) c args k2 w).1 :=
      (runClauseRef_qkGen hc cm f c hcc.2 args k2 hk2).stepF hg
    revert hst
    generalize runClauseRef f (query cfg f) c args k2 w = r
    obtain ⟨w1, o⟩ := r
    intro hst
    cases o with
    | some s => rfl
    | none =>
      simp only [andThenR_none]
      exact ih w1 (fun c' hc' => hcs c' (List.mem_cons_of_mem _ hc')) hst.good (ha.mono hst.next) k1 k2 hk1 hk2
        (fun w'' ⟨hst', c', hc', hch⟩ => hk w'' ⟨hst.trans hst', c', List.mem_cons_of_mem _ hc', hch⟩)


/-! ### the stored facts -/

theorem matchAll_cons_eq (f : Nat) (args : List Term) (c : Fact) (cs : List Fact) (k : K) (w : World) :
    matchAll f args (c :: cs) k w = andThenR (fun w' => matchAll f args cs k w') (matchFact f c args k w) := by
  simp only [matchAll]
  cases h : matchFact f c args k w with
  | mk w' s => cases s <;> rfl

/-- the world in which `matchFact` unifies the argument lists: the fact's cells allocated -/
theorem good_alloc {w : World} (hg : Good D cm w) (n : Nat) : Good D cm { w with next := w.next + n } :=
  ⟨hg.db, hg.sc.of_b rfl (Nat.le_add_right _ _), hg.solv⟩

theorem step_alloc {w : World} (hg : Good D cm w) (n : Nat) : Step D cm w { w with next := w.next + n } :=
  ⟨good_alloc cm hg n, Ext.of_b rfl, Nat.le_add_right _ _⟩

/-- one stored fact: the consumer is called only where the goal is an instance of the fact -/
theorem matchFact_sound (f : Nat) (c : Fact) (hcl : FactClosed c) (args : List Term) (w : World)
    (hg : Good D cm w) (ha : OwnL w.next args) :
    Only cm (fun w' => Step D cm w w' ∧ args.length = c.args.length ∧ FH c args w') (matchFact f c args) w := by
  intro k1 k2 hk1 hk2 hk
  unfold matchFact
  simp only
  split
  · rename_i hlen
    have hg1 := good_alloc cm hg c.nvars
    cases ulist_gshapeU (cm := cm) f args (c.args.map (Term.rename (· + w.next))) hg1
        (ha.mono (Nat.le_add_right _ _)) (fact_renamed_own hcl w.next) with
    | oof r _ h => rw [h, h]
    | fail r _ h _ => rw [h, h]
    | once pre post h hgood hn hiff _ =>
      rw [h k1, h k2]
      have e : k1 pre = k2 pre := by
        refine hk pre ⟨(step_alloc cm hg c.nvars).trans ⟨hgood, fun θ hθ => ((hiff θ).mp hθ).1, Nat.le_of_eq hn.symm⟩,
          hlen, fun θ hθ => ⟨fun i => θ (i + w.next), ?_⟩⟩
        rw [← fact_renamed_subst]
        exact ((hiff θ).mp hθ).2
      rw [e]
  · rfl

/-- the facts stored under the goal's key, in order -/
theorem matchAll_sound (f : Nat) (args : List Term) :
    ∀ (cs : List Fact) (w : World), (∀ c ∈ cs, FactClosed c) → Good D cm w → OwnL w.next args →
      Only cm (fun w' => Step D cm w w' ∧ ∃ c ∈ cs, args.length = c.args.length ∧ FH c args w')
        (matchAll f args cs) w := by
  intro cs
  induction cs with
  | nil => intro w _ _ _ k1 k2 _ _ _; simp only [matchAll]
  | cons c cs ih =>
    intro w hcs hg ha k1 k2 hk1 hk2 hk
    rw [matchAll_cons_eq, matchAll_cons_eq]
    have e1 : matchFact f c args k1 w = matchFact f c args k2 w :=
      matchFact_sound cm f c (hcs c List.mem_cons_self) args w hg ha k1 k2 hk1 hk2
        (fun w' ⟨hst, hl, hfh⟩ => hk w' ⟨hst, c, List.mem_cons_self, hl, hfh⟩)
    simp only [e1]
    have hst : Step D cm w (matchFact f c args k2 w).1 := (matchFact_qkGen cm f c args k2 hk2).stepF hg
    revert hst
    generalize matchFact f c args k2 w = r
    obtain ⟨w1, o⟩ := r
    intro hst
    cases o with
    | some s => rfl
    | none =>
      simp only [andThenR_none]
      exact ih w1 (fun c' hc' => hcs c' (List.mem_cons_of_mem _ hc')) hst.good (ha.mono hst.next) k1 k2 hk1 hk2
        (fun w'' ⟨hst', c', hc', h'⟩ => hk w'' ⟨hst.trans hst', c', List.mem_cons_of_mem _ hc', h'⟩)

include sem in
/-- the branch of `query` over the store -/
theorem matchDynamic_sound (f : Nat) (name : String) (args : List Term) (w : World) (hg : Good D cm w)
    (ha : OwnL w.next args) :
    Only cm (fun w' => Step D cm w w' ∧ GH H name args w') (matchDynamic f name args) w := by
  intro k1 k2 hk1 hk2 hk
  unfold matchDynamic
  rw [facts_eq hg.db]
  refine matchAll_sound cm f args _ w (lookup_closed D name args.length) hg ha k1 k2 hk1 hk2 ?_
  intro w' ⟨hst, c, hc, hl, hfh⟩
  refine hk w' ⟨hst, fun θ hθ => ?_⟩
  obtain ⟨τ, e⟩ := hfh θ hθ
  rw [e]
  exact sem.fact name c τ (hl ▸ hc)

/-! ### `query`: the facts, then the definitions -/

include hc sem in
/-- the definitions, given the statement for goals at smaller fuel -/
theorem qtail_sound (f : Nat) (ih : ∀ m, m < f + 1 → QSound D U cfg H cm m) {name : String} (hU : U name = true)
    (args : List Term) (w : World) (hg : Good D cm w) (ha : OwnL w.next args) :
    Only cm (fun w' => Step D cm w w' ∧ GH H name args w') (qtail cfg f name args) w := by
  intro k1 k2 hk1 hk2 hk
  cases tailCase hc f hU args with
  | none h => rw [h, h]
  | oof h => rw [h, h]
  | eq a b n hn hargs hf h =>
    rw [h, h]
    subst hn hargs
    refine unify_only n a b hg (ha a (by simp)) (ha b (by simp)) k1 k2
      (fun w' hu => hk w' ⟨hu.step, fun θ hθ => ?_⟩)
    have e := ((hu.sol θ).mp hθ).2
    simp only [List.map_cons, List.map_nil]
    rw [e]
    exact sem.eq _
  | user p n hp hpn hpa hf h =>
    rw [h, h]
    have hsh := (hc.shape p hp).2.2
    have e : runClauses (fun c => runClauseRef n (query cfg n) c args) p.clauses (wrapK k1) w
        = runClauses (fun c => runClauseRef n (query cfg n) c args) p.clauses (wrapK k2) w := by
      refine runClauses_sound hc cm n (ih n (by omega)) args p.clauses w
        (fun c hcm => ⟨((hsh c hcm).1).trans hpa, (hsh c hcm).2⟩) hg ha _ _ hk1.wrapK hk2.wrapK ?_
      intro w' ⟨hst, c, hcm, hch⟩
      have e2 : k1 w' = k2 w' := by
        refine hk w' ⟨hst, fun θ hθ => ?_⟩
        obtain ⟨ι, hι, e, hb⟩ := hch θ hθ
        rw [e, ← hpn]
        exact sem.clause p hp c hcm ι hι hb
      simp only [wrapK, e2]
    rw [e]

include hc sem in
/-- **Soundness, for an abstract meaning of goals and any store of closed facts.** -/
theorem query_sound_all : ∀ f, QSound D U cfg H cm f := by
  intro f
  induction f using Nat.strongRecOn with
  | _ f ih =>
    intro name hU args w hg ha k1 k2 hk1 hk2 hk
    cases f with
    | zero => simp only [query]
    | succ f =>
      rw [query_succ, query_succ]
      have e1 : matchDynamic f name args k1 w = matchDynamic f name args k2 w :=
        matchDynamic_sound sem cm f name args w hg ha k1 k2 hk1 hk2 hk
      rw [e1]
      have hst : Step D cm w (matchDynamic f name args k2 w).1 := (matchDynamic_qkGen cm f name args k2 hk2).stepF hg
      revert hst
      generalize matchDynamic f name args k2 w = r
      obtain ⟨w1, o⟩ := r
      intro hst
      cases o with
      | some s => rfl
      | none =>
        simp only [andThenR_none]
        exact qtail_sound hc sem cm f ih hU args w1 hst.good (ha.mono hst.next) k1 k2 hk1 hk2
          (fun w' ⟨hst', hgh⟩ => hk w' ⟨hst.trans hst', hgh⟩)

end sound

end F
end Lg
end Yld
