/-
  The fact store under retract and retractall: unification never touches the store, so what a
  retract's consumer sees is the store with exactly the matched fact removed.
-/
import Yld.Proofs.UnifySound
import Yld.Proofs.Store
namespace Yld

/-- `Shape`, with the store: the generator calls its consumer at most once, on a world with the
    store it started with, and does nothing to the store the consumer hands back. -/
inductive DBShape (g : Gen) (w : World) : Prop
  | never (r : R) : r.1.db = w.db → (∀ k, g k w = r) → DBShape g w
  | once (pre : World) (post : World → World) : pre.db = w.db → (∀ w', (post w').db = w'.db) →
      (∀ k, g k w = ((post (k pre).1), (k pre).2)) → DBShape g w

theorem dbshape_of_eq {g g' : Gen} {w w' : World} (hdb : w'.db = w.db) (h : ∀ k, g k w = g' k w') (s : DBShape g' w') : DBShape g w := by
  cases s with
  | never r hr hk => exact .never r (hr.trans hdb) (fun k => by rw [h, hk])
  | once pre post hp hq hk => exact .once pre post (hp.trans hdb) hq (fun k => by rw [h, hk])

theorem bindGen_dbshape (x : Nat) (t : Term) (w : World) : DBShape (bindGen x t) w :=
  .once { w with b := bind w.b x t } (fun w' => { w' with b := unbind w'.b x }) rfl (fun _ => rfl) (fun _ => rfl)

theorem unifyList_dbshape (u : Term → Term → Gen) (hu : ∀ a b w, DBShape (u a b) w) :
    ∀ as bs w, DBShape (unifyList u as bs) w := by
  intro as
  induction as with
  | nil =>
    intro bs w
    cases bs with
    | nil => exact .once w id rfl (fun _ => rfl) (fun k => by simp [unifyList])
    | cons b bs => exact .never (w, none) rfl (fun k => by simp [unifyList])
  | cons a as ih =>
    intro bs w
    cases bs with
    | nil => exact .never (w, none) rfl (fun k => by simp [unifyList])
    | cons b bs =>
      cases hu a b w with
      | never r hr h => exact .never r hr (fun k => by simp only [unifyList]; exact h _)
      | once pre post hp hq h =>
        cases ih bs pre with
        | never r2 hr2 h2 =>
          exact .never (post r2.1, r2.2) (by rw [hq, hr2, hp]) (fun k => by simp only [unifyList]; rw [h]; simp only [h2])
        | once pre2 post2 hp2 hq2 h2 =>
          exact .once pre2 (fun w' => post (post2 w')) (hp2.trans hp) (fun w' => by rw [hq, hq2])
            (fun k => by simp only [unifyList]; rw [h]; simp only [h2])

theorem markCyc_db (f x : Nat) (t : Term) (w : World) : (markCyc f x t w).db = w.db := by
  unfold markCyc
  split
  · split <;> rfl
  · rfl

theorem unify_dbshape (f : Nat) : ∀ t1 t2 w, DBShape (unify f t1 t2) w := by
  induction f with
  | zero => intro t1 t2 w; exact .never (w, some .oof) rfl (fun k => by simp [unify])
  | succ f ih =>
    intro t1 t2 w
    cases h1 : walk w.b (f+1) t1 with
    | none => exact .never (w, some .oof) rfl (fun k => by simp [unify, h1])
    | some a1 =>
      cases h2 : walk w.b (f+1) t2 with
      | none => exact .never (w, some .oof) rfl (fun k => by simp [unify, h1, h2])
      | some a2 =>
        have yield_ : (∀ k, unify (f+1) t1 t2 k w = k w) → DBShape (unify (f+1) t1 t2) w :=
          fun h => .once w id rfl (fun _ => rfl) (fun k => by rw [h]; rfl)
        have fail_ : (∀ k, unify (f+1) t1 t2 k w = (w, none)) → DBShape (unify (f+1) t1 t2) w :=
          fun h => .never (w, none) rfl h
        cases a1 with
        | var x =>
          cases a2 with
          | var y =>
            by_cases hxy : x = y
            · exact yield_ (fun k => by simp [unify, h1, h2, hxy])
            · exact dbshape_of_eq (g' := bindGen x (.var y)) (w' := w) rfl (fun k => by simp [unify, h1, h2, hxy]) (bindGen_dbshape _ _ _)
          | atom s =>
            exact dbshape_of_eq (g' := bindGen x (.atom s)) (w' := markCyc cycFuel x (.atom s) w) (markCyc_db _ _ _ _) (fun k => by simp only [unify, h1, h2]) (bindGen_dbshape _ _ _)
          | int i =>
            exact dbshape_of_eq (g' := bindGen x (.int i)) (w' := markCyc cycFuel x (.int i) w) (markCyc_db _ _ _ _) (fun k => by simp only [unify, h1, h2]) (bindGen_dbshape _ _ _)
          | fn g as =>
            exact dbshape_of_eq (g' := bindGen x (.fn g as)) (w' := markCyc cycFuel x (.fn g as) w) (markCyc_db _ _ _ _) (fun k => by simp only [unify, h1, h2]) (bindGen_dbshape _ _ _)
        | atom s =>
          cases a2 with
          | var y =>
            exact dbshape_of_eq (g' := bindGen y (.atom s)) (w' := markCyc cycFuel y (.atom s) w) (markCyc_db _ _ _ _) (fun k => by simp only [unify, h1, h2]) (bindGen_dbshape _ _ _)
          | atom s' =>
            by_cases hs : s = s'
            · exact yield_ (fun k => by simp [unify, h1, h2, hs])
            · exact fail_ (fun k => by simp [unify, h1, h2, hs])
          | int i => exact fail_ (fun k => by simp [unify, h1, h2])
          | fn g as => exact fail_ (fun k => by simp [unify, h1, h2])
        | int i =>
          cases a2 with
          | var y =>
            exact dbshape_of_eq (g' := bindGen y (.int i)) (w' := markCyc cycFuel y (.int i) w) (markCyc_db _ _ _ _) (fun k => by simp only [unify, h1, h2]) (bindGen_dbshape _ _ _)
          | atom s' => exact fail_ (fun k => by simp [unify, h1, h2])
          | int j =>
            by_cases hs : i = j
            · exact yield_ (fun k => by simp [unify, h1, h2, hs])
            · exact fail_ (fun k => by simp [unify, h1, h2, hs])
          | fn g as => exact fail_ (fun k => by simp [unify, h1, h2])
        | fn g as =>
          cases a2 with
          | var y =>
            exact dbshape_of_eq (g' := bindGen y (.fn g as)) (w' := markCyc cycFuel y (.fn g as) w) (markCyc_db _ _ _ _) (fun k => by simp only [unify, h1, h2]) (bindGen_dbshape _ _ _)
          | atom s' => exact fail_ (fun k => by simp [unify, h1, h2])
          | int j => exact fail_ (fun k => by simp [unify, h1, h2])
          | fn g' as' =>
            by_cases hg : g = g' ∧ as.length = as'.length
            · exact dbshape_of_eq (g' := unifyList (unify f) as as') (w' := w) rfl
                (fun k => by simp only [unify, h1, h2, hg, and_self, if_true]) (unifyList_dbshape (unify f) ih as as' w)
            · exact fail_ (fun k => by simp only [unify, h1, h2, hg, if_false])

/-- Matching a stored fact: at most one call of the consumer, the store as it was. -/
theorem matchFact_dbshape (f : Nat) (c : Fact) (args : List Term) (w : World) : DBShape (matchFact f c args) w := by
  by_cases hl : args.length = c.args.length
  · exact dbshape_of_eq (g' := unifyList (unify f) args (c.args.map (Term.rename (· + w.next))))
      (w' := { w with next := w.next + c.nvars }) rfl (fun k => by simp [matchFact, hl])
      (unifyList_dbshape (unify f) (unify_dbshape f) _ _ _)
  · exact .never ({ w with next := w.next + c.nvars }, none) rfl (fun k => by simp [matchFact, hl])

theorem facts_of_db {w w' : World} (h : w'.db = w.db) (n : String) (a : Nat) : w'.facts n a = w.facts n a := by
  simp [World.facts, h]

/-- **One step of `retract`.** For the next fact `c` of the snapshot that is still in the store:
    either it does not match (the consumer is not called, the store is as it was, the loop goes on
    with the rest of the snapshot), or the consumer is called exactly once, in a world whose facts
    of this name/arity are the current ones with exactly `c` removed (order kept) and whose other
    predicates are untouched; when the consumer resumes, the loop goes on with the rest. -/
theorem retract_step (f : Nat) (name : String) (args : List Term) (c : Fact) (cs : List Fact) (w : World)
    (hin : (w.facts name args.length).any (·.id == c.id) = true) :
    (∃ w', w'.db = w.db ∧ ∀ k, retractLoop f name args (c :: cs) k w = retractLoop f name args cs k w')
    ∨ (∃ r : R, r.1.db = w.db ∧ r.2 ≠ none ∧ ∀ k, retractLoop f name args (c :: cs) k w = r)
    ∨ (∃ (pre : World) (post : World → World), pre.db = w.db ∧ (∀ w', (post w').db = w'.db) ∧
        ∀ k, retractLoop f name args (c :: cs) k w =
          andThenR (fun w' => retractLoop f name args cs k w')
            (post (k (pre.setFacts name args.length ((w.facts name args.length).filter (·.id != c.id)))).1,
             (k (pre.setFacts name args.length ((w.facts name args.length).filter (·.id != c.id)))).2)) := by
  cases matchFact_dbshape f c args w with
  | never r hr hk =>
    obtain ⟨w', o⟩ := r
    cases o with
    | none =>
      left
      refine ⟨w', hr, fun k => ?_⟩
      simp only [retractLoop, hin, if_true, hk]
    | some s =>
      right; left
      refine ⟨(w', some s), hr, by simp, fun k => ?_⟩
      simp only [retractLoop, hin, if_true, hk]
  | once pre post hp hq hk =>
    right; right
    refine ⟨pre, post, hp, hq, fun k => ?_⟩
    simp only [retractLoop, hin, if_true, hk, facts_of_db hp]
    generalize k (pre.setFacts name args.length ((w.facts name args.length).filter (·.id != c.id))) = r
    obtain ⟨w', o⟩ := r
    cases o <;> rfl

/-- … and what the consumer sees there: exactly `c` is gone from this predicate, nothing else changed. -/
theorem retract_answer_store (name : String) (n : Nat) (c : Fact) (pre w : World) (hp : pre.db = w.db) :
    (pre.setFacts name n ((w.facts name n).filter (·.id != c.id))).facts name n = (w.facts name n).filter (·.id != c.id)
    ∧ ∀ name' n', (name', n') ≠ (name, n) →
        (pre.setFacts name n ((w.facts name n).filter (·.id != c.id))).facts name' n' = w.facts name' n' := by
  refine ⟨facts_setFacts_same _ _ _ _, fun name' n' hne => ?_⟩
  rw [facts_setFacts_other _ _ _ _ _ _ hne, facts_of_db hp]

/-- A fact that was removed from the store in the meantime is skipped. -/
theorem retract_skips_removed (f : Nat) (name : String) (args : List Term) (c : Fact) (cs : List Fact) (k : K) (w : World)
    (hout : (w.facts name args.length).any (·.id == c.id) = false) :
    retractLoop f name args (c :: cs) k w = retractLoop f name args cs k w := by
  simp [retractLoop, hout]

/-- **retractall** keeps a sublist: it only deletes, never reorders, never adds; and it never
    touches the store while it decides (the new list is stored afterwards, in one step). -/
theorem retractAll_keeps_sublist (f : Nat) (args : List Term) : ∀ (cs keep : List Fact) (w w' : World) (keep' : List Fact),
    retractAllLoop f args cs keep w = (w', .ok keep') → ∃ sub, keep' = keep ++ sub ∧ sub.Sublist cs := by
  intro cs
  induction cs with
  | nil => intro keep w w' keep' h; simp [retractAllLoop] at h; exact ⟨[], by simp [h.2], List.Sublist.refl _⟩
  | cons c cs ih =>
    intro keep w w' keep' h
    simp only [retractAllLoop] at h
    split at h
    · obtain ⟨sub, h1, h2⟩ := ih _ _ _ _ h
      exact ⟨sub, h1, h2.cons _⟩
    · obtain ⟨sub, h1, h2⟩ := ih _ _ _ _ h
      exact ⟨c :: sub, by simp [h1], h2.cons_cons _⟩
    · cases h

end Yld
