/-
  Acyclic heaps, semantically: `Solvable b` — the unbound variables of `b` can be given any values
  and the bindings then determine a solution.  Kept by every binding the ghost check `markCyc` does
  not flag.  `resolve` computes the value of a term under every solution.
-/
import Yld.Proofs.ActBase
set_option linter.unusedSimpArgs false
set_option linter.unusedVariables false
namespace Yld

abbrev Val := Nat → Term

/-- the unbound variables can be given any values (there is no cycle through a structure) -/
def Solvable (b : Bind) : Prop := ∀ ρ : Val, ∃ θ : Val, Solves θ b ∧ ∀ x, b x = none → θ x = ρ x

theorem solvable_empty : Solvable Bind.empty := fun ρ => ⟨ρ, fun x u h => by simp [Bind.empty] at h, fun _ _ => rfl⟩

theorem mapM_some_forall₂ {g : Term → Option Term} :
    ∀ (l vs : List Term), l.mapM g = some vs → Forall₂ (fun t v => g t = some v) l vs := by
  intro l
  induction l with
  | nil => intro vs h; simp at h; subst h; exact .nil
  | cons t l ih =>
    intro vs h
    rw [List.mapM_cons] at h
    cases h1 : g t with
    | none => rw [h1] at h; simp at h
    | some a =>
      rw [h1] at h
      cases h2 : l.mapM g with
      | none => rw [h2] at h; simp at h
      | some as' =>
        rw [h2] at h
        simp at h
        subst h
        exact .cons h1 (ih as' h2)

theorem forall₂_mapM_some {g : Term → Option Term} :
    ∀ (l vs : List Term), Forall₂ (fun t v => g t = some v) l vs → l.mapM g = some vs := by
  intro l vs h
  induction h with
  | nil => simp
  | cons h1 _ ih => rw [List.mapM_cons, h1, ih]; rfl

theorem resolve_fn_some {b : Bind} {f : Nat} {g : String} {args : List Term} {v : Term}
    (h : resolve b (f+1) (.fn g args) = some v) :
    ∃ vs, v = .fn g vs ∧ Forall₂ (fun t v => resolve b f t = some v) args vs := by
  simp only [resolve] at h
  cases h1 : args.mapM (resolve b f) with
  | none => rw [h1] at h; simp at h
  | some vs =>
    rw [h1] at h; simp at h
    exact ⟨vs, h.symm, mapM_some_forall₂ _ _ h1⟩

/-- under a solution of the heap a term and its resolved form have the same value -/
theorem resolve_subst {θ : Val} {b : Bind} (hθ : Solves θ b) :
    ∀ (f : Nat) (t v : Term), resolve b f t = some v → t.subst θ = v.subst θ := by
  intro f
  induction f with
  | zero => intro t v h; simp [resolve] at h
  | succ f ih =>
    intro t v h
    cases t with
    | var n =>
      simp only [resolve] at h
      cases hb : b n with
      | none => rw [hb] at h; simp at h; subst h; rfl
      | some u =>
        rw [hb] at h; simp only at h
        rw [← ih u v h]
        simpa [Term.subst] using hθ n u hb
    | atom s => simp [resolve] at h; subst h; rfl
    | int i => simp [resolve] at h; subst h; rfl
    | fn g args =>
      obtain ⟨vs, rfl, hall⟩ := resolve_fn_some h
      rw [subst_fn, subst_fn]
      congr 1
      clear h
      induction hall with
      | nil => rfl
      | cons h1 _ ih2 => simp only [List.map_cons]; rw [ih _ _ h1, ih2]

/-- the variables of a resolved term are unbound -/
theorem resolve_vars_unbound (b : Bind) :
    ∀ (f : Nat) (t v : Term), resolve b f t = some v → ∀ x ∈ v.vars, b x = none := by
  intro f
  induction f with
  | zero => intro t v h; simp [resolve] at h
  | succ f ih =>
    intro t v h
    cases t with
    | var n =>
      simp only [resolve] at h
      cases hb : b n with
      | none =>
        rw [hb] at h; simp at h; subst h
        intro x hx; simp [Term.vars] at hx; subst hx; exact hb
      | some u => rw [hb] at h; simp only at h; exact ih u v h
    | atom s => simp [resolve] at h; subst h; intro x hx; simp [Term.vars] at hx
    | int i => simp [resolve] at h; subst h; intro x hx; simp [Term.vars] at hx
    | fn g args =>
      obtain ⟨vs, rfl, hall⟩ := resolve_fn_some h
      intro x hx
      obtain ⟨a, ha, hxa⟩ := mem_vars_fn.mp hx
      clear hx h
      induction hall with
      | nil => cases ha
      | cons h1 _ ih2 =>
        cases ha with
        | head => exact ih _ _ h1 x hxa
        | tail _ ha' => exact ih2 ha'

/-- binding an unbound variable to a term whose value does not contain it keeps the heap acyclic -/
theorem solvable_bind {b : Bind} {x : Nat} {t t' : Term} {f : Nat} (hx : b x = none)
    (hr : resolve b f t = some t') (hnot : x ∉ t'.vars) (hs : Solvable b) : Solvable (bind b x t) := by
  intro ρ
  obtain ⟨θ, hθ, hroot⟩ := hs (fun y => if y = x then t'.subst ρ else ρ y)
  refine ⟨θ, (solves_bind hx).mpr ⟨hθ, ?_⟩, ?_⟩
  · rw [hroot x hx, resolve_subst hθ f t t' hr]
    simp only [if_true]
    apply subst_congr
    intro y hy
    have hyx : y ≠ x := fun e => hnot (e ▸ hy)
    rw [hroot y (resolve_vars_unbound b f t t' hr y hy)]
    simp [hyx]
  · intro y hy
    by_cases hyx : y = x
    · subst hyx; simp [bind] at hy
    · simp only [bind, hyx, if_false] at hy
      rw [hroot y hy]; simp [hyx]

theorem markCyc_clean {f x : Nat} {t : Term} {w : World} (h : (markCyc f x t w).cyc = false) :
    w.cyc = false ∧ ∃ t', resolve w.b f t = some t' ∧ x ∉ t'.vars := by
  unfold markCyc at h
  cases hr : resolve w.b f t with
  | none => rw [hr] at h; simp at h
  | some t' =>
    rw [hr] at h
    simp only at h
    by_cases hc : t'.vars.contains x = true
    · rw [if_pos hc] at h; simp at h
    · rw [if_neg hc] at h
      refine ⟨h, t', rfl, ?_⟩
      intro hm; apply hc; simpa using hm

theorem markCyc_cyc_mono {f x : Nat} {t : Term} {w : World} (h : w.cyc = true) : (markCyc f x t w).cyc = true := by
  unfold markCyc
  split
  · split
    · rfl
    · exact h
  · rfl

theorem markCyc_next (f x : Nat) (t : Term) (w : World) : (markCyc f x t w).next = w.next := by
  unfold markCyc; split
  · split <;> rfl
  · rfl
theorem markCyc_stamp (f x : Nat) (t : Term) (w : World) : (markCyc f x t w).stamp = w.stamp := by
  unfold markCyc; split
  · split <;> rfl
  · rfl
theorem markCyc_acc (f x : Nat) (t : Term) (w : World) : (markCyc f x t w).acc = w.acc := by
  unfold markCyc; split
  · split <;> rfl
  · rfl
theorem markCyc_db' (f x : Nat) (t : Term) (w : World) : (markCyc f x t w).db = w.db := by
  unfold markCyc; split
  · split <;> rfl
  · rfl

/-- walking ends at a non-variable or at an unbound variable, and keeps the value -/
theorem walk_eq_var_or {b : Bind} : ∀ (f : Nat) (t a : Term), walk b f t = some a →
    (∃ x, a = .var x ∧ b x = none) ∨ (∀ x, a ≠ .var x) := by
  intro f t a h
  cases a with
  | var x => exact Or.inl ⟨x, rfl, walk_var_unbound b f t x h⟩
  | atom s => exact Or.inr (fun x e => by cases e)
  | int i => exact Or.inr (fun x e => by cases e)
  | fn g as => exact Or.inr (fun x e => by cases e)

end Yld
