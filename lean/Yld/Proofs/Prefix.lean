/-
  The limit only cuts: the answers collected with a smaller limit are a prefix of the answers
  collected with a larger limit.
-/
import Yld.Proofs.FuelMono
import Yld.Proofs.PrefixPass
namespace Yld

/-- the recording consumer only extends the result lists -/
theorem topConsumer_ext (fuel : Nat) (args : List Term) (sched : Sched) : KExt (topConsumer fuel args sched) := by
  intro w
  unfold topConsumer
  cases args.mapM (resolve w.b fuel) with
  | none => exact WLe.refl _
  | some vs =>
    simp only
    unfold WLe
    cases w.acc with
    | nil => simp
    | cons top rest =>
      cases sched with
      | all => simp [LevelPre.refl]
      | stop k => simp only; split <;> simp [LevelPre.refl]
      | raise k => simp only; split <;> simp [LevelPre.refl]

theorem topConsumer_belowA (f : Nat) (args : List Term) (sched : Sched) :
    KBelowA (fun s => s = Sig.oof) (topConsumer f args sched) (topConsumer (f + 1) args sched) := by
  intro w
  have hR := topConsumer_ext (f+1) args sched w
  unfold topConsumer at hR ⊢
  cases h : args.mapM (resolve w.b f) with
  | none => exact BelowA.sig (P := fun s => s = Sig.oof) (s := Sig.oof) w rfl hR
  | some vs =>
    have := mapM_opt_mono (g := resolve w.b f) (g' := resolve w.b (f+1)) args vs
      (fun t _ a ha => resolve_mono w.b f t a ha) h
    rw [this]
    exact Or.inr rfl

/-- **What `evaluate_bounded` returns is a prefix of the answer sequence**: the answers recorded by
    the collecting consumer with limit `f` are a prefix of those recorded with limit `f + 1` … -/
theorem bounded_answers_prefix (e : Engine) (mode : Mode) (f : Nat) (name : String) (args : List Term) :
    (e.query mode f name args .all).2.answers <+: (e.query mode (f + 1) name args .all).2.answers := by
  unfold Engine.query
  simp only [Bool.false_eq_true, if_false]
  have hb := (allBelowA { blacklist := e.blacklist, defs := e.defs, mode := mode } f).1 _ oofOnly_ok name args
    _ _ (topConsumer_belowA f args .all) (topConsumer_ext (f+1) args .all)
    { e.w with acc := [] :: e.w.acc, cyc := false }
  rcases hb with ⟨s, _, _, h3⟩ | hb
  · exact LevelPre.headD h3
  · rw [hb]; exact List.prefix_refl _

/-- … and with every larger limit. -/
theorem bounded_answers_prefix_le (e : Engine) (mode : Mode) (f f' : Nat) (hle : f ≤ f') (name : String) (args : List Term) :
    (e.query mode f name args .all).2.answers <+: (e.query mode f' name args .all).2.answers := by
  induction hle with
  | refl => exact List.prefix_refl _
  | @step n _ ih => exact ih.trans (bounded_answers_prefix e mode n name args)

end Yld
