/-
  Interleaving, stage 2: the primitive generators — stored facts (`matchFact` allocates a block on both
  sides: the renaming is extended), `retract`, registered Python predicates, `assert` (stores the
  canonical form: the same fact on both sides), `retractall`, the collector of `findall`.
-/
import Yld.Proofs.IlSim
set_option linter.unusedSimpArgs false
set_option linter.unusedVariables false
namespace Yld

/-- a generator with an argument list respects the relation -/
def ArgsIl (F : Nat → Prop) (d : Nat) (g : List Term → Gen) : Prop :=
  ∀ (args : List Term) (ρ : Nat → Nat) (w1 w2 : World) (k1 k2 : K), IlEnv F ρ d w1 w2 → OwnL w1.next args →
    IlK F ρ w1.next d k1 k2 → IlRes F ρ w1.next d (g args k1 w1) (g (args.map (Term.rename ρ)) k2 w2)

section
variable {F : Nat → Prop} {d : Nat}

/-- … and can therefore be used as a consumer later on -/
theorem ArgsIl.asK {g : List Term → Gen} (hg : ArgsIl F d g) {ρ : Nat → Nat} {n : Nat} {args : List Term} {k1 k2 : K}
    (ha : OwnL n args) (hk : IlK F ρ n d k1 k2) :
    IlK F ρ n d (fun w => g args k1 w) (fun w => g (args.map (Term.rename ρ)) k2 w) := by
  intro ρ' v1 v2 hag hn he
  have := hg args ρ' v1 v2 k1 k2 he (ha.mono hn) (hk.mono hag hn)
  rw [map_rename_agree hag ha] at this
  exact this

theorem fact_args_il (ρ : Nat → Nat) (n1 n2 : Nat) {c : Fact} (hc : FactClosed c) :
    c.args.map (Term.rename (· + n2)) = (c.args.map (Term.rename (· + n1))).map (Term.rename (extρ ρ n1 n2)) := by
  rw [List.map_map]
  apply List.map_congr_left
  intro t ht
  simp only [Function.comp]
  rw [rename_rename]
  apply rename_congr
  intro x hx
  exact (extρ_new ρ n1 n2 x).symm

theorem fact_args_own (n1 : Nat) {c : Fact} (hc : FactClosed c) :
    OwnL (n1 + c.nvars) (c.args.map (Term.rename (· + n1))) := by
  intro t ht
  obtain ⟨t0, ht0, rfl⟩ := List.mem_map.mp ht
  exact own_rename (n := c.nvars) (fun x hx => hc t0 ht0 x hx) (fun x hx => by omega)

theorem matchFact_il (f : Nat) {c : Fact} (hc : FactClosed c) : ArgsIl F d (matchFact f c) := by
  intro args ρ w1 w2 k1 k2 h ha hk
  unfold matchFact
  simp only [List.length_map]
  have he := h.alloc c.nvars
  have hag := extρ_agree ρ w1.next w2.next
  split
  · rw [fact_args_il ρ w1.next w2.next hc, ← map_rename_agree hag ha]
    exact (unifyList_il (unify_il f) args _ _ _ _ k1 k2 he (ha.mono (Nat.le_add_right _ _)) (fact_args_own _ hc)
      (hk.mono hag (Nat.le_add_right _ _))).weaken hag (Nat.le_add_right _ _)
  · exact ⟨rfl, _, hag, Nat.le_add_right _ _, he⟩

theorem matchAll_il (f : Nat) : ∀ (cs : List Fact), (∀ c ∈ cs, FactClosed c) → ArgsIl F d (fun args => matchAll f args cs) := by
  intro cs
  induction cs with
  | nil => intro _ args ρ w1 w2 k1 k2 h _ _; simp only [matchAll]; exact IlRes.same h none
  | cons c cs ih =>
    intro hcl args ρ w1 w2 k1 k2 h ha hk
    simp only [matchAll]
    exact il_andThen (matchFact_il f (hcl c (by simp)) args ρ w1 w2 k1 k2 h ha hk)
      ((ih (fun c hc => hcl c (by simp [hc]))).asK ha hk)

theorem matchDynamic_il (f : Nat) (name : String) : ArgsIl F d (matchDynamic f name) := by
  intro args ρ w1 w2 k1 k2 h ha hk
  unfold matchDynamic
  rw [List.length_map, facts_eq h.db]
  exact matchAll_il f _ (facts_closed h.closed _ _) args ρ w1 w2 k1 k2 h ha hk

/-- the consumer of `retract`: remove the fact, then go on -/
theorem ilK_setFacts {ρ : Nat → Nat} {n : Nat} {k1 k2 : K} (hk : IlK F ρ n d k1 k2) (name : String) (a : Nat)
    (p : Fact → Bool) :
    IlK F ρ n d (fun w' => k1 (w'.setFacts name a ((w'.facts name a).filter p)))
      (fun w' => k2 (w'.setFacts name a ((w'.facts name a).filter p))) := by
  intro ρ' v1 v2 hag hn he
  simp only
  rw [facts_eq he.db]
  have hfs : ∀ c ∈ (v1.facts name a).filter p, FactClosed c :=
    fun c hc => facts_closed he.closed name a c (List.mem_filter.mp hc).1
  have := hk ρ' _ _ hag (by rw [setFacts_next]; exact hn) (he.setFacts name a hfs)
  rw [setFacts_next] at this
  exact this

theorem retractLoop_il (f : Nat) (name : String) : ∀ (cs : List Fact), (∀ c ∈ cs, FactClosed c) →
    ArgsIl F d (fun args => retractLoop f name args cs) := by
  intro cs
  induction cs with
  | nil => intro _ args ρ w1 w2 k1 k2 h _ _; simp only [retractLoop]; exact IlRes.same h none
  | cons c cs ih =>
    intro hcl args ρ w1 w2 k1 k2 h ha hk
    have ih' := ih (fun c hc => hcl c (by simp [hc]))
    simp only [retractLoop, List.length_map]
    rw [facts_eq h.db]
    split
    · exact il_andThen
        (matchFact_il f (hcl c (by simp)) args ρ w1 w2 _ _ h ha (ilK_setFacts hk name _ _))
        (ih'.asK ha hk)
    · exact ih' args ρ w1 w2 k1 k2 h ha hk

theorem runPy_il (f : Nat) (r : Option Nat) : ∀ (rows : List Fact), (∀ c ∈ rows, FactClosed c) → ∀ (i : Nat),
    ArgsIl F d (fun args => runPy f rows r i args) := by
  intro rows
  induction rows with
  | nil =>
    intro _ i args ρ w1 w2 k1 k2 h _ _
    simp only [runPy]
    split
    · exact IlRes.same h _
    · exact IlRes.same h none
  | cons row rows ih =>
    intro hcl i args ρ w1 w2 k1 k2 h ha hk
    simp only [runPy]
    split
    · exact IlRes.same h _
    · exact il_andThen (matchFact_il f (hcl row (by simp)) args ρ w1 w2 k1 k2 h ha hk)
        ((ih (fun c hc => hcl c (by simp [hc])) (i+1)).asK ha hk)

/-! ### assert -/

theorem assertFact_il (f : Nat) (name : String) (app : Bool) {ρ : Nat → Nat} {w1 w2 : World} {vals : List Term}
    (h : IlEnv F ρ d w1 w2) (hv : OwnL w1.next vals) :
    IlRes F ρ w1.next d (assertFact f name vals app w1) (assertFact f name (vals.map (Term.rename ρ)) app w2) := by
  unfold assertFact
  rw [mapM_resolve_il h f vals hv]
  cases hm : vals.mapM (resolve w1.b f) with
  | none => exact IlRes.same h _
  | some vs =>
    simp only [Option.map]
    rw [canonVars_il h vs (mapM_resolve_own h f vals vs hv hm), List.length_map, facts_eq h.db, h.stamp]
    have hnew : ∀ c ∈ (if app = true then w1.facts name vals.length ++ [{ id := w1.stamp, nvars := (canonVars vs).2, args := (canonVars vs).1 }]
        else { id := w1.stamp, nvars := (canonVars vs).2, args := (canonVars vs).1 } :: w1.facts name vals.length), FactClosed c := by
      intro c hc
      have hnewfact : FactClosed { id := w1.stamp, nvars := (canonVars vs).2, args := (canonVars vs).1 } :=
        fun t ht x hx => canonVars_closed vs t ht x hx
      split at hc
      · rcases List.mem_append.mp hc with hm | hm
        · exact facts_closed h.closed _ _ c hm
        · simp at hm; subst hm; exact hnewfact
      · rcases List.mem_cons.mp hc with hm | hm
        · subst hm; exact hnewfact
        · exact facts_closed h.closed _ _ c hm
    have he := (h.setFacts name vals.length hnew).setStamp (w1.stamp + 1)
    refine ⟨rfl, ρ, Agree.refl _ _, ?_, he⟩
    show w1.next ≤ (w1.setFacts _ _ _).next
    rw [setFacts_next]
    exact Nat.le_refl _

theorem factNameArgs_il {ρ : Nat → Nat} {w1 w2 : World} (h : IlEnv F ρ d w1 w2) (f : Nat) {t : Term}
    (ht : Own w1.next t) :
    (∃ s, factNameArgs f w1 t = .error s ∧ factNameArgs f w2 (t.rename ρ) = .error s) ∨
    (∃ g as, factNameArgs f w1 t = .ok (g, as) ∧ factNameArgs f w2 (t.rename ρ) = .ok (g, as.map (Term.rename ρ)) ∧
        OwnL w1.next as) := by
  unfold factNameArgs
  rw [walk_il h f t ht]
  cases hw : walk w1.b f t with
  | none => exact Or.inl ⟨_, rfl, rfl⟩
  | some a =>
    have ho := walk_own h f t a ht hw
    simp only [Option.map]
    cases a with
    | var x => simp only [rename_var]; exact Or.inl ⟨_, rfl, rfl⟩
    | atom s => simp only [rename_atom]; exact Or.inr ⟨s, [], rfl, rfl, ownL_nil _⟩
    | int i => simp only [rename_int]; exact Or.inl ⟨_, rfl, rfl⟩
    | fn g as => simp only [rename_fn]; exact Or.inr ⟨g, as, rfl, rfl, own_fn.mp ho⟩

/-! ### retractall -/

/-- related outcomes of the loops that return a value instead of yielding -/
def IlResE {α : Type} (F : Nat → Prop) (ρ : Nat → Nat) (n d : Nat) (x1 x2 : World × α) : Prop :=
  x2.2 = x1.2 ∧ ∃ ρ', Agree n ρ ρ' ∧ n ≤ x1.1.next ∧ IlEnv F ρ' d x1.1 x2.1

theorem factMatches_il (f : Nat) {c : Fact} (hc : FactClosed c) {ρ : Nat → Nat} {w1 w2 : World} {args : List Term}
    (h : IlEnv F ρ d w1 w2) (ha : OwnL w1.next args) :
    IlResE F ρ w1.next d (factMatches f c args w1) (factMatches f c (args.map (Term.rename ρ)) w2) := by
  unfold factMatches
  have := matchFact_il f hc args ρ w1 w2 (fun w' => (w', some .stop)) (fun w' => (w', some .stop)) h ha
    (fun ρ' v1 v2 _ _ he => IlRes.same he _)
  obtain ⟨v1, v2, o, ρ', e1, e2, hag, hn, he⟩ := ilCases this
  rw [e1, e2]
  cases o with
  | none => exact ⟨rfl, ρ', hag, hn, he⟩
  | some s => cases s <;> exact ⟨rfl, ρ', hag, hn, he⟩

theorem retractAllLoop_il (f : Nat) : ∀ (cs : List Fact), (∀ c ∈ cs, FactClosed c) → ∀ (keep : List Fact)
    (ρ : Nat → Nat) (w1 w2 : World) (args : List Term), IlEnv F ρ d w1 w2 → OwnL w1.next args →
    IlResE F ρ w1.next d (retractAllLoop f args cs keep w1) (retractAllLoop f (args.map (Term.rename ρ)) cs keep w2) := by
  intro cs
  induction cs with
  | nil => intro _ keep ρ w1 w2 args h _; simp only [retractAllLoop]; exact ⟨rfl, ρ, Agree.refl _ _, Nat.le_refl _, h⟩
  | cons c cs ih =>
    intro hcl keep ρ w1 w2 args h ha
    simp only [retractAllLoop]
    obtain ⟨e, ρ', hag, hn, he⟩ := factMatches_il f (hcl c (by simp)) h ha
    revert e hn he
    generalize factMatches f c args w1 = x1
    generalize factMatches f c (args.map (Term.rename ρ)) w2 = x2
    obtain ⟨v1, r1⟩ := x1
    obtain ⟨v2, r2⟩ := x2
    intro e hn he
    simp only at e hn he
    subst e
    have hcl' : ∀ c ∈ cs, FactClosed c := fun c hc => hcl c (by simp [hc])
    have key : ∀ keep', IlResE F ρ w1.next d (retractAllLoop f args cs keep' v1)
        (retractAllLoop f (args.map (Term.rename ρ)) cs keep' v2) := by
      intro keep'
      have := ih hcl' keep' ρ' v1 v2 args he (ha.mono hn)
      rw [map_rename_agree hag ha] at this
      obtain ⟨e', ρ'', hag', hn', he'⟩ := this
      exact ⟨e', ρ'', hag.trans hag' hn, Nat.le_trans hn hn', he'⟩
    cases r2 with
    | error s => exact ⟨rfl, ρ', hag, hn, he⟩
    | ok b =>
      cases b with
      | true => exact key _
      | false => exact key _

/-! ### the collector of findall -/

theorem canonVars_single (v : Term) : ∃ c, (canonVars [v]).1 = [c] := by
  unfold canonVars
  exact ⟨_, rfl⟩

theorem IlEnv.setAcc {ρ : Nat → Nat} {d' : Nat} {w1 w2 : World} (h : IlEnv F ρ d w1 w2) {a1 a2 : List (List Term)}
    (ha : IlAcc ρ w1.next d' a1 a2) : IlEnv F ρ d' { w1 with acc := a1 } { w2 with acc := a2 } :=
  ⟨h.inj, h.below, h.avoid, h.fbelow, h.inScope, h.fresh2, h.binds, h.db, h.stamp, h.cyc, h.closed, ha⟩

theorem findallCollect_il (f : Nat) {ρ : Nat → Nat} {n : Nat} {tmpl : Term} (ht : Own n tmpl) :
    IlK F ρ n (d+1) (findallCollect f tmpl) (findallCollect f (tmpl.rename ρ)) := by
  intro ρ' v1 v2 hag hn he
  rw [← rename_agree hag ht]
  have ht' := ht.mono hn
  unfold findallCollect
  rw [resolve_il he f tmpl ht']
  cases hr : resolve v1.b f tmpl with
  | none => exact IlRes.same he _
  | some v =>
    simp only [Option.map]
    have hov := resolve_own he f tmpl v ht' hr
    have hcv : canonVars [v.rename ρ'] = canonVars [v] :=
      canonVars_il he [v] (ownL_cons.mpr ⟨hov, ownL_nil _⟩)
    rw [hcv]
    obtain ⟨c, hc⟩ := canonVars_single v
    have hcl : ∀ x ∈ c.vars, x < (canonVars [v]).2 := canonVars_closed [v] c (by rw [hc]; simp)
    rw [hc]
    simp only [List.headD_cons]
    generalize (canonVars [v]).2 = m at hcl
    have he' := he.alloc m
    have hag' := extρ_agree ρ' v1.next v2.next
    have hle : v1.next ≤ v1.next + m := Nat.le_add_right _ _
    have hacc := he.acc
    have e2 : c.rename (· + v2.next) = (c.rename (· + v1.next)).rename (extρ ρ' v1.next v2.next) := by
      rw [rename_rename]
      apply rename_congr
      intro x hx
      exact (extρ_new ρ' v1.next v2.next x).symm
    have hown : Own (v1.next + m) (c.rename (· + v1.next)) :=
      own_rename (n := m) hcl (fun x hx => by omega)
    cases h1 : v1.acc with
    | nil => rw [h1] at hacc; exact hacc.elim
    | cons l1 a1 =>
      cases h2 : v2.acc with
      | nil => rw [h1, h2] at hacc; exact hacc.elim
      | cons l2 a2 =>
        rw [h1, h2] at hacc
        simp only
        refine ⟨rfl, _, hag', hle, he'.setAcc ?_⟩
        refine ⟨⟨?_, ?_⟩, IlAcc.mono hag' hle hacc.2⟩
        · have := (hacc.1.mono hag' hle).1
          rw [this, e2, List.map_append]
          rfl
        · exact ownL_append (hacc.1.2.mono hle) (ownL_cons.mpr ⟨hown, ownL_nil _⟩)

end

end Yld
