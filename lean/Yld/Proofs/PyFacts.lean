/-
  A registered Python predicate is interchangeable with the compiled predicate of the same facts (C20).

  A Python predicate of the harness/model kind unifies its arguments with each of its rows in turn
  (`runPy`: `matchFact` per row). The Prolog predicate whose clauses are those rows written as facts does
  the same through clause activation (`runClauseRef`: a new variable per clause variable, head
  unification left to right, the body `true`). The theorem: as definitions (`runDef`) the two are the same
  generator — same yields, same worlds (cells allocated, bindings), same outcome for every consumer —
  provided the rows are in the canonical form `assertFact`/`canonVars` produces (variables numbered
  0,1,… in order of first occurrence, non-negative integers) and have as many arguments as the call.

  STATEMENTS AND DEFINITIONS IN THIS FILE ARE FIXED (see the task description); proofs to be supplied.
-/
import Yld.Model.Api
import Yld.Proofs.ActRel
import Yld.Proofs.PyFactsLemmas
namespace Yld

/-- a row's term as a source term: variable `i` becomes the clause variable `R<i>` -/
def Term.toSTerm : Term → STerm
  | .var n => .var ("R" ++ toString n)
  | .atom s => .atom s
  | .int i => .num i.toNat
  | .fn g args => .fn g (args.attach.map fun ⟨a, _⟩ => a.toSTerm)

/-- the row written as a fact clause -/
def factClause (row : Fact) : Clause := { head := row.args.map Term.toSTerm, body := .tru }

def Term.intsNonneg : Term → Bool
  | .int i => decide (0 ≤ i)
  | .fn _ args => args.attach.all fun ⟨a, _⟩ => a.intsNonneg
  | _ => true

/-- the row is as `canonVars` makes it: its variables are `0 … nvars-1` in order of first occurrence -/
structure RowOK (row : Fact) : Prop where
  canon : canonVars row.args = (row.args, row.nvars)
  ints : ∀ t ∈ row.args, t.intsNonneg = true

namespace PF

/-! ### a row's terms as source terms -/

theorem toSTerm_fn (g : String) (args : List Term) :
    Term.toSTerm (.fn g args) = .fn g (args.map Term.toSTerm) := by
  simp [Term.toSTerm]

theorem svars_fn (g : String) (args : List STerm) :
    STerm.vars (.fn g args) = (args.map STerm.vars).flatten := by
  simp [STerm.vars]

theorem seval_fn (env : Env) (g : String) (args : List STerm) :
    STerm.eval env (.fn g args) = .fn g (args.map (STerm.eval env)) := by
  simp [STerm.eval]

theorem intsNonneg_fn (g : String) (args : List Term) :
    Term.intsNonneg (.fn g args) = args.all Term.intsNonneg := by
  simp [Term.intsNonneg]

/-- the clause variables of a row term are the names of its variables -/
theorem toSTerm_vars (t : Term) : t.toSTerm.vars = t.vars.map rname := by
  induction t using Term.rec (motive_2 := fun ts =>
      ((ts.map Term.toSTerm).map STerm.vars).flatten = ((ts.map Term.vars).flatten).map rname) with
  | var n => simp [Term.toSTerm, STerm.vars, Term.vars, rname]
  | atom s => simp [Term.toSTerm, STerm.vars, Term.vars]
  | int i => simp [Term.toSTerm, STerm.vars, Term.vars]
  | fn g args ih => rw [toSTerm_fn, svars_fn, vars_fn, ih]
  | nil => rfl
  | cons a as iha ihas =>
    simp only [List.map_cons, List.flatten_cons, List.map_append]
    rw [iha, ihas]

theorem toSTerms_vars (ts : List Term) :
    ((ts.map Term.toSTerm).map STerm.vars).flatten = ((ts.map Term.vars).flatten).map rname := by
  induction ts with
  | nil => rfl
  | cons a as ih =>
    simp only [List.map_cons, List.flatten_cons, List.map_append]
    rw [toSTerm_vars, ih]

/-- a row term evaluates, in an environment that maps `R<x>` to the cell `x + b`, to its renaming -/
theorem toSTerm_eval (env : Env) (b : Nat) (t : Term)
    (henv : ∀ x ∈ t.vars, env.get (rname x) = .var (x + b)) (hint : t.intsNonneg = true) :
    t.toSTerm.eval env = t.rename (· + b) := by
  induction t using Term.rec (motive_2 := fun ts =>
      (∀ t ∈ ts, ∀ x ∈ t.vars, env.get (rname x) = .var (x + b)) → (∀ t ∈ ts, t.intsNonneg = true) →
      (ts.map Term.toSTerm).map (STerm.eval env) = ts.map (Term.rename (· + b))) with
  | var n =>
    simp only [Term.toSTerm, STerm.eval, Term.rename]
    exact henv n (by simp [Term.vars])
  | atom s => simp [Term.toSTerm, STerm.eval, Term.rename]
  | int i =>
    simp only [Term.intsNonneg, decide_eq_true_eq] at hint
    simp only [Term.toSTerm, STerm.eval, Term.rename]
    rw [Int.toNat_of_nonneg hint]
  | fn g args ih =>
    rw [toSTerm_fn, seval_fn, rename_fn, ih]
    · intro t ht x hx
      exact henv x (mem_vars_fn.mpr ⟨t, ht, hx⟩)
    · intro t ht
      rw [intsNonneg_fn] at hint
      exact List.all_eq_true.mp hint t ht
  | nil => rfl
  | cons a as iha ihas =>
    rename_i h1 h2
    simp only [List.map_cons]
    rw [iha (h1 a (by simp)) (h2 a (by simp)),
      ihas (fun t ht => h1 t (by simp [ht])) (fun t ht => h2 t (by simp [ht]))]

/-! ### one row -/

/-- activating the fact clause of a canonical row is matching the row -/
theorem runClauseRef_factClause (f : Nat) (q : Q) (row : Fact) (args : List Term) (hok : RowOK row)
    (hlen : row.args.length = args.length) (k : K) (w : World) :
    runClauseRef f q (factClause row) args k w = matchFact f row args k w := by
  have hrange := canon_vars_range row.args row.nvars hok.canon
  have hnames : dedup (((factClause row).head.map STerm.vars).flatten ++ (factClause row).body.vars)
      = (List.range row.nvars).map rname := by
    simp only [factClause, Body.vars, List.append_nil]
    rw [toSTerms_vars, dedup_eq_eraseDups,
      eraseDups_map_inj rname (fun a b h => rname_inj h) _ _ (Nat.le_refl _), hrange]
  unfold runClauseRef matchFact
  simp only [hnames, allocVars_range]
  rw [if_pos hlen.symm]
  show unifyHead f _ args ((factClause row).head.zipIdx.map fun (t, i) => (i, t)) (solve q _ 0 .tru) k _ = _
  rw [unifyHead_zipIdx0 f _ q _ _ (by simp [factClause, hlen])]
  congr 1
  simp only [factClause, List.map_map]
  apply List.map_congr_left
  intro t ht
  simp only [Function.comp]
  apply toSTerm_eval
  · intro x hx
    apply get_rname
    have hmem : x ∈ (row.args.map Term.vars).flatten.eraseDups :=
      List.mem_eraseDups.mpr (List.mem_flatten.mpr ⟨_, List.mem_map.mpr ⟨t, ht, rfl⟩, hx⟩)
    rw [hrange] at hmem
    exact List.mem_range.mp hmem
  · exact hok.ints t ht

end PF
open PF in
/-- **Interchangeable.** -/
theorem py_pred_is_the_fact_predicate (cfg : Cfg) (f : Nat) (name : String) (rows : List Fact) (args : List Term)
    (hok : ∀ r ∈ rows, RowOK r) (hlen : ∀ r ∈ rows, r.args.length = args.length) (k : K) (w : World) :
    runDef cfg (f+1) (.py { rows := rows, raiseAt := none }) args k w =
    runDef cfg (f+1) (.prolog { name := name, arity := args.length, clauses := rows.map factClause } .reference) args k w := by
  simp only [runDef]
  rw [runClauses_eq_runPy (fun c => runClauseRef f (query cfg f) c args) f args factClause rows
    (fun r hr k w => runClauseRef_factClause f (query cfg f) r args (hok r hr) (hlen r hr) k w) 0]
  rw [leaveFrame_runPy]

namespace PF

/-! ### non-vacuity: two concrete rows in canonical form -/

/-- `p(a, X, X)` and `p(b, 3, f(Y))` -/
def exRows : List Fact :=
  [{ id := 0, nvars := 1, args := [.atom "a", .var 0, .var 0] },
   { id := 1, nvars := 1, args := [.atom "b", .int 3, .fn "f" [.var 0]] }]

theorem exRows_ok : ∀ r ∈ exRows, RowOK r := by
  intro r hr
  simp only [exRows, List.mem_cons, List.not_mem_nil, or_false] at hr
  rcases hr with rfl | rfl
  · refine ⟨by simp [canonVars, Term.vars, Term.rename, List.eraseDups_cons, List.idxOf_cons], ?_⟩
    intro t ht
    simp only [List.mem_cons, List.not_mem_nil, or_false] at ht
    rcases ht with rfl | rfl | rfl <;> simp [Term.intsNonneg]
  · refine ⟨by simp [canonVars, Term.vars, Term.rename, List.eraseDups_cons, List.idxOf_cons], ?_⟩
    intro t ht
    simp only [List.mem_cons, List.not_mem_nil, or_false] at ht
    rcases ht with rfl | rfl | rfl <;> simp [Term.intsNonneg]

example (cfg : Cfg) (f : Nat) (x y z : Term) (k : K) (w : World) :
    runDef cfg (f+1) (.py { rows := exRows, raiseAt := none }) [x, y, z] k w =
    runDef cfg (f+1) (.prolog { name := "p", arity := 3, clauses := exRows.map factClause } .reference) [x, y, z] k w :=
  py_pred_is_the_fact_predicate cfg f "p" exRows [x, y, z] exRows_ok
    (by intro r hr
        simp only [exRows, List.mem_cons, List.not_mem_nil, or_false] at hr
        rcases hr with rfl | rfl <;> rfl) k w

/-- the answers (the arguments as each yield leaves them), the cells allocated and the outcome -/
def exRun (d : Def) : List (List Term) × Nat × Option Sig :=
  let args : List Term := [.var 0, .var 1, .var 2]
  let k : K := fun w' => ({ w' with acc := w'.acc ++ [(args.map (resolve w'.b 50)).map (·.getD (.atom "?"))] }, none)
  let r := runDef { blacklist := [], defs := [] } 50 d args k { next := 3 }
  (r.1.acc, r.1.next, r.2)

#eval exRun (.py { rows := exRows, raiseAt := none })
#eval exRun (.prolog { name := "p", arity := 3, clauses := exRows.map factClause } .reference)

end PF

#print axioms py_pred_is_the_fact_predicate

end Yld
