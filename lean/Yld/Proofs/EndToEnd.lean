/-
  From the printed Python text to the textbook semantics, in one statement.
-/
import Yld.Proofs.PyDeep
import Yld.Proofs.Activation
namespace Yld

/-- `Cfg.mode` is not read by the engine (the mode is stored with each definition). -/
def AllModeIrr (cfg : Cfg) (m : Mode) (f : Nat) : Prop :=
  (∀ name args, query { cfg with mode := m } f name args = query cfg f name args) ∧
  (∀ ds args, runChain { cfg with mode := m } f ds args = runChain cfg f ds args) ∧
  (∀ d args, runDef { cfg with mode := m } f d args = runDef cfg f d args) ∧
  (∀ b args, runBuiltin { cfg with mode := m } f b args = runBuiltin cfg f b args) ∧
  (∀ g extra, callGoal { cfg with mode := m } f g extra = callGoal cfg f g extra)

theorem allModeIrr (cfg : Cfg) (m : Mode) : ∀ f, AllModeIrr cfg m f := by
  intro f
  induction f with
  | zero =>
    refine ⟨?_, ?_, ?_, ?_, ?_⟩ <;> intros <;> funext k w
    · simp [query]
    · simp [runChain]
    · simp [runDef]
    · simp [runBuiltin]
    · simp [callGoal]
  | succ f ih =>
    obtain ⟨ihQ, ihC, ihD, ihB, ihG⟩ := ih
    have hQ : query { cfg with mode := m } f = query cfg f := by funext n a; exact ihQ n a
    have hG : callGoal { cfg with mode := m } f = callGoal cfg f := by funext g e; exact ihG g e
    have hC : runChain { cfg with mode := m } f = runChain cfg f := by funext ds a; exact ihC ds a
    have hD : runDef { cfg with mode := m } f = runDef cfg f := by funext d a; exact ihD d a
    have hB : runBuiltin { cfg with mode := m } f = runBuiltin cfg f := by funext b a; exact ihB b a
    refine ⟨?_, ?_, ?_, ?_, ?_⟩
    · intro name args; funext k w; simp only [query, hC]
    · intro ds args
      cases ds with
      | nil => funext k w; simp [runChain]
      | cons d ds => funext k w; simp only [runChain, hD, hC]
    · intro d args
      cases d with
      | prolog p md => funext k w; cases md <;> simp only [runDef, hQ]
      | py p => funext k w; simp [runDef]
      | builtin b => funext k w; simp only [runDef, hB]
    · intro b args; funext k w; simp only [runBuiltin, hQ, hG]
    · intro g extra; funext k w; simp only [callGoal, hQ]

theorem query_mode_irrelevant (cfg : Cfg) (m : Mode) (f : Nat) (name : String) (args : List Term) :
    query { cfg with mode := m } f name args = query cfg f name args := (allModeIrr cfg m f).1 name args

/-- python mode (every predicate interpreted from its printed text) = compiled mode, at the API -/
theorem engine_python_eq_compiled (e : Engine) (hpy : DefsPyOK e.defs) (mode : Mode) (f : Nat) (name : String)
    (args : List Term) (sched : Sched) :
    e.query mode f name args sched true = e.query mode f name args sched false := by
  unfold Engine.query
  simp only [if_true, Bool.false_eq_true, if_false]
  cases sched with
  | all => simp only [queryD_eq { blacklist := e.blacklist, defs := e.defs, mode := mode } hpy]
  | stop k => cases k <;> simp only [queryD_eq { blacklist := e.blacklist, defs := e.defs, mode := mode } hpy]
  | raise k => cases k <;> simp only [queryD_eq { blacklist := e.blacklist, defs := e.defs, mode := mode } hpy]

/-- compiled mode = reference bodies under the generated activation, at the API -/
theorem engine_compiled_eq_refbody (e : Engine) (hsrc : SrcDefs e.defs) (f : Nat) (name : String)
    (args : List Term) (sched : Sched) :
    ((e.withMode .compiled).query .compiled f name args sched).2 = ((e.withMode .refbody).query .refbody f name args sched).2 := by
  have key : ∀ (k : K) (w : World),
      query { blacklist := e.blacklist, defs := (e.withMode .compiled).defs, mode := .compiled } f name args k w =
      query { blacklist := e.blacklist, defs := (e.withMode .refbody).defs, mode := .refbody } f name args k w := by
    intro k w
    have h := program_correct { blacklist := e.blacklist, defs := e.defs, mode := .compiled } hsrc f name args
    have e1 : ({ blacklist := e.blacklist, defs := (e.withMode .compiled).defs, mode := Mode.compiled } : Cfg) =
        (({ blacklist := e.blacklist, defs := e.defs, mode := Mode.compiled } : Cfg).withMode .compiled) := rfl
    have e2 : ({ blacklist := e.blacklist, defs := (e.withMode .refbody).defs, mode := Mode.refbody } : Cfg) =
        { (({ blacklist := e.blacklist, defs := e.defs, mode := Mode.compiled } : Cfg).withMode .refbody) with mode := .refbody } := rfl
    rw [e1, e2, h]
    exact (congrFun (congrFun (query_mode_irrelevant
      (({ blacklist := e.blacklist, defs := e.defs, mode := Mode.compiled } : Cfg).withMode .refbody) .refbody f name args) k) w).symm
  have key2 : query { blacklist := e.blacklist, defs := (e.withMode .compiled).defs, mode := .compiled } f name args =
      query { blacklist := e.blacklist, defs := (e.withMode .refbody).defs, mode := .refbody } f name args := by
    funext k w; exact key k w
  unfold Engine.query
  simp only [Engine.withMode, Bool.false_eq_true, if_false] at key2 ⊢
  cases sched with
  | all => simp only [key2]
  | stop k => cases k <;> simp only [key2]
  | raise k => cases k <;> simp only [key2]

/-- **From the printed Python text to the textbook semantics.** For a well-formed engine whose
    definitions come from the front end, every predicate being run by interpreting the Python text
    the compiler prints for it (mode `python`), a query over allocated variables records the same
    answers and ends in the same way as under the reference semantics of the clause bodies with the
    textbook clause activation — unless one of the two runs is cut off by the fuel or creates a cyclic
    term.  (Theorem B: text = compiled model; Theorem A + parametricity: compiled = reference bodies;
    activation theorem: generated activation = textbook activation.) -/
theorem printed_text_has_textbook_semantics (e : Engine) (hwf : e.WF) (hsrc : SrcDefs e.defs)
    (hpy : DefsPyOK (e.withMode .compiled).defs) (f : Nat) (name : String) (args : List Term)
    (hargs : ArgsScoped e args) (sched : Sched)
    (h1 : ((e.withMode .reference).query .reference f name args sched).2.ending ≠ some .oof)
    (h2 : ((e.withMode .compiled).query .compiled f name args sched true).2.ending ≠ some .oof)
    (hc1 : ((e.withMode .reference).query .reference f name args sched).2.cyc = false)
    (hc2 : ((e.withMode .compiled).query .compiled f name args sched true).2.cyc = false) :
    ((e.withMode .compiled).query .compiled f name args sched true).2.answers
      = ((e.withMode .reference).query .reference f name args sched).2.answers ∧
    ((e.withMode .compiled).query .compiled f name args sched true).2.ending
      = ((e.withMode .reference).query .reference f name args sched).2.ending := by
  have hA := engine_python_eq_compiled (e.withMode .compiled) hpy .compiled f name args sched
  have hB := engine_compiled_eq_refbody e hsrc f name args sched
  rw [hA] at h2 hc2 ⊢
  rw [hB] at h2 hc2 ⊢
  have := reference_eq_refbody_wf e hwf f name args hargs sched h1 h2 hc1 hc2
  exact ⟨this.1.symm, this.2.symm⟩

end Yld
