/-
  What the unification generators do, as seen by a caller (a refinement of `MShape` of
  `Yld.Proofs.UnifyMGU`): out of fuel; or no yield, no solution, world handed back as it was; or
  exactly one yield, on a heap whose solutions are the solutions of the starting heap that satisfy
  the equations — with the bookkeeping the simulation needs (the other fields of the world are left
  alone, the heap is restored afterwards, an unflagged heap stays acyclic).
-/
import Yld.Proofs.ActSem
set_option linter.unusedSimpArgs false
set_option linter.unusedVariables false
namespace Yld

/-- the fields the unification generators leave alone -/
def World.core (w : World) : Nat × List ((String × Nat) × List Fact) × Nat × List (List Term) :=
  (w.next, w.db, w.stamp, w.acc)

structure PreOK (w pre : World) : Prop where
  core : pre.core = w.core
  cycm : pre.cyc = false → w.cyc = false
  solv : pre.cyc = false → Solvable w.b → Solvable pre.b

structure PostOK (w pre : World) (post : World → World) : Prop where
  core : ∀ w', (post w').core = w'.core
  cyc : ∀ w', (post w').cyc = w'.cyc
  b : ∀ w', w'.b = pre.b → (post w').b = w.b

inductive UShape (U : Val → Prop) (g : Gen) (w : World) : Prop
  | oof (r : R) : r.2 = some .oof → (∀ k, g k w = r) → UShape U g w
  | fail (r : R) : r.2 = none → (∀ k, g k w = r) → (∀ θ, Solves θ w.b → ¬ U θ) →
      r.1.core = w.core → r.1.b = w.b → UShape U g w
  | once (pre : World) (post : World → World) : (∀ k, g k w = ((post (k pre).1), (k pre).2)) →
      (∀ θ, Solves θ pre.b ↔ (Solves θ w.b ∧ U θ)) → PreOK w pre → PostOK w pre post → UShape U g w

theorem ushape_congr {U U' : Val → Prop} {g : Gen} {w : World}
    (h : ∀ θ, Solves θ w.b → (U θ ↔ U' θ)) (s : UShape U g w) : UShape U' g w := by
  cases s with
  | oof r hr hk => exact .oof r hr hk
  | fail r hr hk hno hc hb => exact .fail r hr hk (fun θ hθ hu => hno θ hθ ((h θ hθ).mpr hu)) hc hb
  | once pre post hk hiff hpre hpost =>
    refine .once pre post hk (fun θ => ?_) hpre hpost
    rw [hiff θ]
    exact ⟨fun ⟨a, b⟩ => ⟨a, (h θ a).mp b⟩, fun ⟨a, b⟩ => ⟨a, (h θ a).mpr b⟩⟩

theorem ushape_of_fun {U : Val → Prop} {g g' : Gen} {w : World}
    (h : ∀ k, g k w = g' k w) (s : UShape U g' w) : UShape U g w := by
  cases s with
  | oof r hr hk => exact .oof r hr (fun k => by rw [h, hk])
  | fail r hr hk hno hc hb => exact .fail r hr (fun k => by rw [h, hk]) hno hc hb
  | once pre post hk hiff hpre hpost => exact .once pre post (fun k => by rw [h, hk]) hiff hpre hpost

theorem ushape_yield {U : Val → Prop} (w : World) {g : Gen} (h : ∀ k, g k w = k w)
    (hU : ∀ θ, Solves θ w.b → U θ) : UShape U g w :=
  .once w id (fun k => by rw [h]; rfl) (fun θ => ⟨fun a => ⟨a, hU θ a⟩, fun a => a.1⟩)
    ⟨rfl, id, fun _ h => h⟩ ⟨fun _ => rfl, fun _ => rfl, fun _ h => h⟩

theorem ushape_fail {U : Val → Prop} (w : World) {g : Gen} (h : ∀ k, g k w = (w, none))
    (hU : ∀ θ, Solves θ w.b → ¬ U θ) : UShape U g w := .fail (w, none) rfl h hU rfl rfl

theorem ushape_oof {U : Val → Prop} (w : World) {g : Gen} (h : ∀ k, g k w = (w, some .oof)) : UShape U g w :=
  .oof (w, some .oof) rfl h

/-- one generator inside the loop of another: the equations of both -/
theorem ushape_seq {Ua Ub : Val → Prop} {ga gb : Gen} {w : World} (sa : UShape Ua ga w)
    (sb : ∀ pre, UShape Ub gb pre) :
    UShape (fun θ => Ua θ ∧ Ub θ) (fun k w => ga (fun w' => gb k w') w) w := by
  cases sa with
  | oof r hr h => exact .oof r hr (fun k => h _)
  | fail r hr h hno hc hb => exact .fail r hr (fun k => h _) (fun θ hθ hu => hno θ hθ hu.1) hc hb
  | once pre post h hiff hpre hpost =>
    cases sb pre with
    | oof r2 hr2 h2 => exact .oof (post r2.1, r2.2) hr2 (fun k => by rw [h]; simp only [h2])
    | fail r2 hr2 h2 hno hc2 hb2 =>
      refine .fail (post r2.1, r2.2) hr2 (fun k => by rw [h]; simp only [h2]) ?_ ?_ ?_
      · intro θ hθ hu
        exact hno θ ((hiff θ).mpr ⟨hθ, hu.1⟩) hu.2
      · show (post r2.1).core = w.core
        rw [hpost.core, hc2, hpre.core]
      · exact hpost.b _ hb2
    | once pre2 post2 h2 hiff2 hpre2 hpost2 =>
      refine .once pre2 (fun w' => post (post2 w')) (fun k => by rw [h]; simp only [h2]) ?_ ?_ ?_
      · intro θ
        rw [hiff2 θ, hiff θ]
        exact ⟨fun ⟨⟨a, b⟩, c⟩ => ⟨a, b, c⟩, fun ⟨a, b, c⟩ => ⟨⟨a, b⟩, c⟩⟩
      · exact ⟨by rw [hpre2.core, hpre.core], fun hc => hpre.cycm (hpre2.cycm hc),
          fun hc hs => hpre2.solv hc (hpre.solv (hpre2.cycm hc) hs)⟩
      · exact ⟨fun w' => by rw [hpost.core, hpost2.core], fun w' => by rw [hpost.cyc, hpost2.cyc],
          fun w' hw' => hpost.b _ (hpost2.b _ hw')⟩

theorem bindGen_ushape (x : Nat) (t : Term) (w : World) (hx : w.b x = none)
    (hs : w.cyc = false → Solvable w.b → Solvable (bind w.b x t)) :
    UShape (fun θ => θ x = t.subst θ) (bindGen x t) w :=
  .once { w with b := bind w.b x t } (fun w' => { w' with b := unbind w'.b x }) (fun _ => rfl)
    (fun θ => solves_bind hx) ⟨rfl, id, hs⟩
    ⟨fun _ => rfl, fun _ => rfl, fun w' hw' => by
      show unbind w'.b x = w.b
      rw [hw']; exact unbind_bind _ _ _ hx⟩

/-- `bindGen` after the ghost check -/
theorem markBind_ushape (x : Nat) (t : Term) (w : World) (hx : w.b x = none) :
    UShape (fun θ => θ x = t.subst θ) (fun k w => bindGen x t k (markCyc cycFuel x t w)) w := by
  have hb : (markCyc cycFuel x t w).b = w.b := markCyc_b _ _ _ _
  have hcore : (markCyc cycFuel x t w).core = w.core := by
    simp only [World.core, markCyc_next, markCyc_db', markCyc_stamp, markCyc_acc]
  have s := bindGen_ushape x t (markCyc cycFuel x t w) (by rw [hb]; exact hx) (by
    intro hc hs
    obtain ⟨_, t', hr, hnot⟩ := markCyc_clean hc
    rw [hb] at hs ⊢
    exact solvable_bind hx hr hnot hs)
  cases s with
  | oof r hr hk => exact .oof r hr hk
  | fail r hr hk hno hc hb' => exact .fail r hr hk (fun θ hθ => hno θ (hb ▸ hθ)) (hc.trans hcore) (hb'.trans hb)
  | once pre post hk hiff hpre hpost =>
    refine .once pre post hk (fun θ => by rw [hiff θ, hb]) ?_ ?_
    · exact ⟨hpre.core.trans hcore, fun hc => (markCyc_clean (hpre.cycm hc)).1,
        fun hc hs => hpre.solv hc (hb ▸ hs)⟩
    · exact ⟨hpost.core, hpost.cyc, fun w' hw' => (hpost.b w' hw').trans hb⟩

theorem unifyList_ushape (u : Term → Term → Gen)
    (hu : ∀ a b w, UShape (fun θ => a.subst θ = b.subst θ) (u a b) w) :
    ∀ as bs w, UShape (fun θ => as.map (Term.subst θ) = bs.map (Term.subst θ)) (unifyList u as bs) w := by
  intro as
  induction as with
  | nil =>
    intro bs w
    cases bs with
    | nil => exact ushape_yield w (fun k => by simp [unifyList]) (fun θ _ => by simp)
    | cons b bs => exact ushape_fail w (fun k => by simp [unifyList]) (fun θ _ h => by simp at h)
  | cons a as ih =>
    intro bs w
    cases bs with
    | nil => exact ushape_fail w (fun k => by simp [unifyList]) (fun θ _ h => by simp at h)
    | cons b bs =>
      have s := ushape_seq (hu a b w) (fun pre => ih bs pre)
      apply ushape_congr (U := fun θ => a.subst θ = b.subst θ ∧ as.map (Term.subst θ) = bs.map (Term.subst θ))
      · intro θ _; simp only [List.map_cons, List.cons.injEq]
      · exact ushape_of_fun (fun k => by simp only [unifyList]) s

/-- **`unify`, as seen by its caller.** -/
theorem unify_ushape (f : Nat) : ∀ t1 t2 w, UShape (fun θ => t1.subst θ = t2.subst θ) (unify f t1 t2) w := by
  induction f with
  | zero => intro t1 t2 w; exact ushape_oof w (fun k => by simp [unify])
  | succ f ih =>
    intro t1 t2 w
    cases h1 : walk w.b (f+1) t1 with
    | none => exact ushape_oof w (fun k => by simp [unify, h1])
    | some a1 =>
      cases h2 : walk w.b (f+1) t2 with
      | none => exact ushape_oof w (fun k => by simp [unify, h1, h2])
      | some a2 =>
        apply ushape_congr (U := fun θ => a1.subst θ = a2.subst θ)
          (fun θ hθ => by rw [walk_subst hθ _ _ _ h1, walk_subst hθ _ _ _ h2])
        cases a1 with
        | var x =>
          have hx := walk_var_unbound w.b _ _ _ h1
          cases a2 with
          | var y =>
            have hy := walk_var_unbound w.b _ _ _ h2
            by_cases hxy : x = y
            · exact ushape_yield w (fun k => by simp [unify, h1, h2, hxy]) (fun θ _ => by simp [hxy])
            · apply ushape_congr (U := fun θ => θ x = (Term.var y).subst θ) (fun θ _ => by simp [Term.subst])
              refine ushape_of_fun (g' := bindGen x (.var y)) (fun k => by simp [unify, h1, h2, hxy])
                (bindGen_ushape _ _ _ hx ?_)
              intro _ hs
              refine solvable_bind (f := 1) (t' := .var y) hx (by simp [resolve, hy]) ?_ hs
              simp [Term.vars]; exact hxy
          | atom s =>
            apply ushape_congr (U := fun θ => θ x = (Term.atom s).subst θ) (fun θ _ => by simp [Term.subst])
            exact ushape_of_fun (fun k => by simp only [unify, h1, h2]) (markBind_ushape x _ w hx)
          | int i =>
            apply ushape_congr (U := fun θ => θ x = (Term.int i).subst θ) (fun θ _ => by simp [Term.subst])
            exact ushape_of_fun (fun k => by simp only [unify, h1, h2]) (markBind_ushape x _ w hx)
          | fn g as =>
            apply ushape_congr (U := fun θ => θ x = (Term.fn g as).subst θ) (fun θ _ => by simp [Term.subst])
            exact ushape_of_fun (fun k => by simp only [unify, h1, h2]) (markBind_ushape x _ w hx)
        | atom s =>
          cases a2 with
          | var y =>
            have hy := walk_var_unbound w.b _ _ _ h2
            apply ushape_congr (U := fun θ => θ y = (Term.atom s).subst θ) (fun θ _ => by simp only [Term.subst]; exact ⟨Eq.symm, Eq.symm⟩)
            exact ushape_of_fun (fun k => by simp only [unify, h1, h2]) (markBind_ushape y _ w hy)
          | atom s' =>
            by_cases hs : s = s'
            · exact ushape_yield w (fun k => by simp [unify, h1, h2, hs]) (fun θ _ => by simp [hs])
            · exact ushape_fail w (fun k => by simp [unify, h1, h2, hs]) (fun θ _ h => by simp [Term.subst] at h; exact hs h)
          | int i => exact ushape_fail w (fun k => by simp [unify, h1, h2]) (fun θ _ h => by simp [Term.subst] at h)
          | fn g as => exact ushape_fail w (fun k => by simp [unify, h1, h2]) (fun θ _ h => by simp [Term.subst] at h)
        | int i =>
          cases a2 with
          | var y =>
            have hy := walk_var_unbound w.b _ _ _ h2
            apply ushape_congr (U := fun θ => θ y = (Term.int i).subst θ) (fun θ _ => by simp only [Term.subst]; exact ⟨Eq.symm, Eq.symm⟩)
            exact ushape_of_fun (fun k => by simp only [unify, h1, h2]) (markBind_ushape y _ w hy)
          | atom s' => exact ushape_fail w (fun k => by simp [unify, h1, h2]) (fun θ _ h => by simp [Term.subst] at h)
          | int j =>
            by_cases hs : i = j
            · exact ushape_yield w (fun k => by simp [unify, h1, h2, hs]) (fun θ _ => by simp [hs])
            · exact ushape_fail w (fun k => by simp [unify, h1, h2, hs]) (fun θ _ h => by simp [Term.subst] at h; exact hs h)
          | fn g as => exact ushape_fail w (fun k => by simp [unify, h1, h2]) (fun θ _ h => by simp [Term.subst] at h)
        | fn g as =>
          cases a2 with
          | var y =>
            have hy := walk_var_unbound w.b _ _ _ h2
            apply ushape_congr (U := fun θ => θ y = (Term.fn g as).subst θ) (fun θ _ => by simp only [Term.subst]; exact ⟨Eq.symm, Eq.symm⟩)
            exact ushape_of_fun (fun k => by simp only [unify, h1, h2]) (markBind_ushape y _ w hy)
          | atom s' => exact ushape_fail w (fun k => by simp [unify, h1, h2]) (fun θ _ h => by simp [Term.subst] at h)
          | int j => exact ushape_fail w (fun k => by simp [unify, h1, h2]) (fun θ _ h => by simp [Term.subst] at h)
          | fn g' as' =>
            by_cases hg : g = g' ∧ as.length = as'.length
            · apply ushape_congr (U := fun θ => as.map (Term.subst θ) = as'.map (Term.subst θ))
                (fun θ _ => by rw [subst_fn, subst_fn]; simp [hg.1])
              exact ushape_of_fun (g' := unifyList (unify f) as as')
                (fun k => by simp only [unify, h1, h2, hg, and_self, if_true]) (unifyList_ushape (unify f) ih as as' w)
            · refine ushape_fail w (fun k => by simp only [unify, h1, h2, hg, if_false]) (fun θ _ h => hg ?_)
              rw [subst_fn, subst_fn] at h
              simp only [Term.fn.injEq] at h
              exact ⟨h.1, by simpa using congrArg List.length h.2⟩

end Yld
