/-
  If-then-else against the logical reading (C06).

  `( C -> T ; E )` runs `T` under the first answer of `C`, and `E` when `C` has no answer. For a
  condition `C` that is a goal of a cut-free Horn program (with any closed fact store), in terms of
  `HoldsF` (`Yld.Proofs.LogicFacts`):

  * if some instance of `C` (under a solution of the heap) follows from program and store, the else
    branch is never run: the outcome does not depend on `E` (or the limit cuts the search for `C` off,
    again independently of `E`);
  * if no instance of `C` follows, the construct is its else branch, run in a world with the bindings and
    the store it started with (or the search for `C` was cut off) — PROVIDED THE SEARCH FOR `C` BUILDS NO
    CYCLIC TERM.
  The same for `( C -> T )` without else, which then simply fails.

  Statement 1 is proved as fixed.  Statements 2 and 3 as fixed are FALSE of the model
  (`ite_is_else_statement_false`, `if_then_fails_statement_false` below: the condition `X = f(X)`, of which
  no instance follows, has an answer — without occurs check — in a flagged world; the then branch runs,
  and the outcome depends on the continuation).  They are proved with one more hypothesis, `hacyc`: the
  run of `\+ C` ends unflagged (no cyclic term was built in the search for `C`).  The conclusions are
  unchanged.  In addition (`ite_is_else_or_cyclic`, `if_then_fails_or_cyclic`): under the fixed hypotheses
  alone, the fixed conclusion or — for continuations that never reset the ghost flag — a flagged outcome.
  See `LOGIC_ITE_REPORT.md`.

  Proofs: `LgIPass` (a binary pass over the Horn part of the engine: two consumers that answer alike
  except where the first abandons with a given reason), `LgIte` (the statements for an abstract meaning
  of goals / the ranked meaning).
-/
import Yld.Proofs.LogicNaf
import Yld.Proofs.LgIPass
import Yld.Proofs.LgIte
set_option linter.unusedVariables false
namespace Yld

/-- **A provable condition: the else branch is dead.** -/
theorem ite_else_not_run_when_condition_provable (cfg : Cfg) (preds : List Pred) (h : HornCfg cfg preds)
    (hnocut : ∀ p ∈ preds, ∀ c ∈ p.clauses, c.body.cutFree = true)
    (f : Nat) (env : Env) (d : Nat) (name : String) (sargs : List STerm) (hname : userName name = true)
    (t e1 e2 : Body) (w : World) (hcl : DbClosed w.db) (hsc : w.Scoped)
    (hargs : ∀ a ∈ sargs.map (STerm.eval env), ∀ x ∈ a.vars, x < w.next)
    (θ : Nat → Term) (hθ : Solves θ w.b)
    (hh : HoldsF w.db preds name ((sargs.map (STerm.eval env)).map (Term.subst θ))) (k : K) :
    solve (query cfg f) env d (.disj (.ite (.call name sargs) t) e1) k w =
    solve (query cfg f) env d (.disj (.ite (.call name sargs) t) e2) k w := by
  obtain ⟨r, hr⟩ := holdsF_hn ⟨w.db, hcl⟩ preds hh
  exact Lg.F.ite_else_dead (D := ⟨w.db, hcl⟩) h.hc
    (fun p hp c hc => by rw [← cutFree_eq_nocut]; exact hnocut p hp c hc) f d env hname sargs t e1 e2 w θ
    ⟨rfl, hsc, False.elim⟩ hargs hθ r hr k

/-! ### Statements 2 and 3

The fixed statements, verbatim, as propositions (they are refuted below):

    theorem ite_is_else_when_condition_not_provable (cfg : Cfg) (preds : List Pred) (h : HornCfg cfg preds)
        (f : Nat) (env : Env) (d : Nat) (name : String) (sargs : List STerm) (hname : userName name = true)
        (t e : Body) (w : World) (hcl : DbClosed w.db) (hsc : w.Scoped)
        (hargs : ∀ a ∈ sargs.map (STerm.eval env), ∀ x ∈ a.vars, x < w.next)
        (hno : ∀ θ, Solves θ w.b → ¬ HoldsF w.db preds name ((sargs.map (STerm.eval env)).map (Term.subst θ)))
        (hsolv : Solvable w.b) :
        (∃ w', w'.b = w.b ∧ w'.db = w.db ∧
          ∀ k : K, solve (query cfg f) env d (.disj (.ite (.call name sargs) t) e) k w = solve (query cfg f) env d e k w') ∨
        (∃ r : R, (r.2 = some .oof ∨ (∃ x, r.2 = some (.exn x)) ∨ r.1.cyc = true) ∧
          ∀ k : K, solve (query cfg f) env d (.disj (.ite (.call name sargs) t) e) k w = r)

    theorem if_then_fails_when_condition_not_provable (cfg : Cfg) (preds : List Pred) (h : HornCfg cfg preds)
        (f : Nat) (env : Env) (d : Nat) (name : String) (sargs : List STerm) (hname : userName name = true)
        (t : Body) (w : World) (hcl : DbClosed w.db) (hsc : w.Scoped)
        (hargs : ∀ a ∈ sargs.map (STerm.eval env), ∀ x ∈ a.vars, x < w.next)
        (hno : ∀ θ, Solves θ w.b → ¬ HoldsF w.db preds name ((sargs.map (STerm.eval env)).map (Term.subst θ)))
        (hsolv : Solvable w.b) :
        ∃ r : R, (r.2 = none ∨ r.2 = some .oof ∨ (∃ x, r.2 = some (.exn x)) ∨ r.1.cyc = true) ∧
          ∀ k : K, solve (query cfg f) env d (.ite (.call name sargs) t) k w = r
-/

/-- statement 2 as fixed -/
def IteIsElseStatement : Prop :=
  ∀ (cfg : Cfg) (preds : List Pred) (h : HornCfg cfg preds)
    (f : Nat) (env : Env) (d : Nat) (name : String) (sargs : List STerm) (hname : userName name = true)
    (t e : Body) (w : World) (hcl : DbClosed w.db) (hsc : w.Scoped)
    (hargs : ∀ a ∈ sargs.map (STerm.eval env), ∀ x ∈ a.vars, x < w.next)
    (hno : ∀ θ, Solves θ w.b → ¬ HoldsF w.db preds name ((sargs.map (STerm.eval env)).map (Term.subst θ)))
    (hsolv : Solvable w.b),
    (∃ w', w'.b = w.b ∧ w'.db = w.db ∧
      ∀ k : K, solve (query cfg f) env d (.disj (.ite (.call name sargs) t) e) k w = solve (query cfg f) env d e k w') ∨
    (∃ r : R, (r.2 = some .oof ∨ (∃ x, r.2 = some (.exn x)) ∨ r.1.cyc = true) ∧
      ∀ k : K, solve (query cfg f) env d (.disj (.ite (.call name sargs) t) e) k w = r)

/-- statement 3 as fixed -/
def IfThenFailsStatement : Prop :=
  ∀ (cfg : Cfg) (preds : List Pred) (h : HornCfg cfg preds)
    (f : Nat) (env : Env) (d : Nat) (name : String) (sargs : List STerm) (hname : userName name = true)
    (t : Body) (w : World) (hcl : DbClosed w.db) (hsc : w.Scoped)
    (hargs : ∀ a ∈ sargs.map (STerm.eval env), ∀ x ∈ a.vars, x < w.next)
    (hno : ∀ θ, Solves θ w.b → ¬ HoldsF w.db preds name ((sargs.map (STerm.eval env)).map (Term.subst θ)))
    (hsolv : Solvable w.b),
    ∃ r : R, (r.2 = none ∨ r.2 = some .oof ∨ (∃ x, r.2 = some (.exn x)) ∨ r.1.cyc = true) ∧
      ∀ k : K, solve (query cfg f) env d (.ite (.call name sargs) t) k w = r

/-! ### The counterexample: `( X = f(X) -> true ; fail )` and `( X = f(X) -> true )`

On `factWorld` (program `app/3` and the two facts of `LogicFacts.lean`; `X` is the unbound cell 0), limit 5.
No instance of `X = f(X)` follows from program and store (no term is `f` of itself), and the starting heap
is empty.  But the engine unifies without occurs check: `X = f(X)` binds `X` to `f(X)` (flagging the world)
and yields.  So the then branch runs and the continuation is called: with the continuation
`fun w => (w, none)` the construct ends normally, with `fun w => (w, some (exn "a"))` it raises `exn "a"`.
The outcome is neither that of the else branch `fail` nor one and the same for every continuation. -/

/-- `X = f(X)` as source text; `X` is the cell 0 -/
def cycArgs : List STerm := [.var "X", .fn "f" [.var "X"]]
def cycEnv : Env := [("X", .var 0)]
def cycGoal : List Term := [.var 0, .fn "f" [.var 0]]

theorem cycArgs_eval : cycArgs.map (STerm.eval cycEnv) = cycGoal := by
  simp [cycArgs, cycEnv, cycGoal, STerm.eval, Env.get, List.lookup]

/-- two continuations -/
def cycK1 : K := fun w => (w, none)
def cycK2 : K := fun w => (w, some (.exn "a"))

theorem cyc_ite_else_k1 :
    (solve (query appCfg 5) cycEnv 0 (.disj (.ite (.call "=" cycArgs) .tru) .fail) cycK1 factWorld).2 = none := by
  rw [Lg.F.solve_ite_else_call, cycArgs_eval]
  decide

theorem cyc_ite_else_k2 :
    (solve (query appCfg 5) cycEnv 0 (.disj (.ite (.call "=" cycArgs) .tru) .fail) cycK2 factWorld).2 = some (.exn "a") := by
  rw [Lg.F.solve_ite_else_call, cycArgs_eval]
  decide

theorem cyc_ite_k1 : (solve (query appCfg 5) cycEnv 0 (.ite (.call "=" cycArgs) .tru) cycK1 factWorld).2 = none := by
  rw [Lg.F.solve_ite_call, cycArgs_eval]
  decide

theorem cyc_ite_k2 :
    (solve (query appCfg 5) cycEnv 0 (.ite (.call "=" cycArgs) .tru) cycK2 factWorld).2 = some (.exn "a") := by
  rw [Lg.F.solve_ite_call, cycArgs_eval]
  decide

/-- no term is `f` of itself -/
theorem fn_self_ne (a : Term) : a ≠ .fn "f" [a] := by
  intro e
  have := congrArg sizeOf e
  simp at this
  omega

/-- no instance of `X = f(X)` follows from program and store -/
theorem cyc_not (a : Term) : ¬ HoldsF factDb [appPred] "=" [a, .fn "f" [a]] := by
  have key : ∀ name args, HoldsF factDb [appPred] name args → name = "=" → args = [a, .fn "f" [a]] → False := by
    intro name args hh
    cases hh with
    | eq a' =>
      intro _ ha
      simp only [List.cons.injEq, and_true] at ha
      exact fn_self_ne a (ha.1.symm.trans ha.2)
    | fact name c τ hc =>
      intro hn ha
      subst hn
      have hlen : c.args.length = 2 := by simpa using congrArg List.length ha
      rw [hlen] at hc
      have e2 : dbFacts factDb "=" 2 = [] := by rfl
      rw [e2] at hc
      cases hc
    | clause p c σ hp hcm hb =>
      intro hn
      have : p = appPred := by simpa using hp
      subst this
      exact absurd hn (by decide)
  intro hh
  exact key _ _ hh rfl rfl

theorem cyc_hno : ∀ θ, Solves θ factWorld.b →
    ¬ HoldsF factWorld.db [appPred] "=" ((cycArgs.map (STerm.eval cycEnv)).map (Term.subst θ)) := by
  intro θ _ hh
  rw [cycArgs_eval] at hh
  refine cyc_not (θ 0) ?_
  have hh' : HoldsF factDb [appPred] _ _ := hh
  simpa [cycGoal, Term.subst] using hh'

theorem cyc_hargs : ∀ a ∈ cycArgs.map (STerm.eval cycEnv), ∀ x ∈ a.vars, x < factWorld.next := by
  rw [cycArgs_eval]
  simp [cycGoal, factWorld, Term.vars]

/-- the conclusion of statement 2 fails for `( X = f(X) -> true ; fail )` in `factWorld`, limit 5 -/
theorem cyc_ite_else_conclusion_false :
    ¬ ((∃ w', w'.b = factWorld.b ∧ w'.db = factWorld.db ∧ ∀ k : K,
        solve (query appCfg 5) cycEnv 0 (.disj (.ite (.call "=" cycArgs) .tru) .fail) k factWorld =
          solve (query appCfg 5) cycEnv 0 .fail k w') ∨
      (∃ r : R, (r.2 = some .oof ∨ (∃ x, r.2 = some (.exn x)) ∨ r.1.cyc = true) ∧ ∀ k : K,
        solve (query appCfg 5) cycEnv 0 (.disj (.ite (.call "=" cycArgs) .tru) .fail) k factWorld = r)) := by
  intro hst
  rcases hst with ⟨w', _, _, hk⟩ | ⟨r, _, hk⟩
  · have h2 := congrArg Prod.snd (hk cycK2)
    rw [cyc_ite_else_k2] at h2
    simp only [solve] at h2
    cases h2
  · have h1 := congrArg Prod.snd (hk cycK1)
    have h2 := congrArg Prod.snd (hk cycK2)
    rw [cyc_ite_else_k1] at h1
    rw [cyc_ite_else_k2, ← h1] at h2
    cases h2

/-- **Statement 2 as fixed is false of the model.** -/
theorem ite_is_else_statement_false : ¬ IteIsElseStatement := fun hst =>
  cyc_ite_else_conclusion_false
    (hst appCfg [appPred] app_hornCfg 5 cycEnv 0 "=" cycArgs (by decide) .tru .fail factWorld factDb_closed
      factWorld_scoped cyc_hargs cyc_hno solvable_empty)

/-- **Statement 3 as fixed is false of the model.** -/
theorem if_then_fails_statement_false : ¬ IfThenFailsStatement := by
  intro hst
  obtain ⟨r, _, hk⟩ := hst appCfg [appPred] app_hornCfg 5 cycEnv 0 "=" cycArgs (by decide) .tru factWorld factDb_closed
    factWorld_scoped cyc_hargs cyc_hno solvable_empty
  have h1 := congrArg Prod.snd (hk cycK1)
  have h2 := congrArg Prod.snd (hk cycK2)
  rw [cyc_ite_k1] at h1
  rw [cyc_ite_k2, ← h1] at h2
  cases h2

/-! ### The corrected statements

One hypothesis more, `hacyc`: the run of `\+ C` from `w` (with the continuation that does nothing) ends in an
unflagged world, i.e. the search for `C` builds no cyclic term.  Conclusions as fixed. -/

/-- **A condition without a provable instance: the construct is its else branch.** -/
theorem ite_is_else_when_condition_not_provable (cfg : Cfg) (preds : List Pred) (h : HornCfg cfg preds)
    (f : Nat) (env : Env) (d : Nat) (name : String) (sargs : List STerm) (hname : userName name = true)
    (t e : Body) (w : World) (hcl : DbClosed w.db) (hsc : w.Scoped)
    (hargs : ∀ a ∈ sargs.map (STerm.eval env), ∀ x ∈ a.vars, x < w.next)
    (hno : ∀ θ, Solves θ w.b → ¬ HoldsF w.db preds name ((sargs.map (STerm.eval env)).map (Term.subst θ)))
    (hsolv : Solvable w.b)
    -- ADDED: the search for the condition builds no cyclic term
    (hacyc : (solve (query cfg f) env d (.neg (.call name sargs)) (fun w' => (w', none)) w).1.cyc = false) :
    (∃ w', w'.b = w.b ∧ w'.db = w.db ∧
      ∀ k : K, solve (query cfg f) env d (.disj (.ite (.call name sargs) t) e) k w = solve (query cfg f) env d e k w') ∨
    (∃ r : R, (r.2 = some .oof ∨ (∃ x, r.2 = some (.exn x)) ∨ r.1.cyc = true) ∧
      ∀ k : K, solve (query cfg f) env d (.disj (.ite (.call name sargs) t) e) k w = r) := by
  rw [Lg.F.solve_neg_call, Lg.F.iteR_fail_world] at hacyc
  rcases Lg.F.ite_is_else (D := ⟨w.db, hcl⟩) h.hc (sem_holdsF ⟨w.db, hcl⟩ preds) f d env hname sargs t e w
    ⟨rfl, hsc, fun _ _ => hsolv⟩ hargs hno hacyc with h1 | ⟨r, hr, hk⟩
  · exact Or.inl h1
  · exact Or.inr ⟨r, Or.inl hr, hk⟩

/-- `( C -> T )` without else fails when no instance of `C` follows. -/
theorem if_then_fails_when_condition_not_provable (cfg : Cfg) (preds : List Pred) (h : HornCfg cfg preds)
    (f : Nat) (env : Env) (d : Nat) (name : String) (sargs : List STerm) (hname : userName name = true)
    (t : Body) (w : World) (hcl : DbClosed w.db) (hsc : w.Scoped)
    (hargs : ∀ a ∈ sargs.map (STerm.eval env), ∀ x ∈ a.vars, x < w.next)
    (hno : ∀ θ, Solves θ w.b → ¬ HoldsF w.db preds name ((sargs.map (STerm.eval env)).map (Term.subst θ)))
    (hsolv : Solvable w.b)
    -- ADDED: the search for the condition builds no cyclic term
    (hacyc : (solve (query cfg f) env d (.neg (.call name sargs)) (fun w' => (w', none)) w).1.cyc = false) :
    ∃ r : R, (r.2 = none ∨ r.2 = some .oof ∨ (∃ x, r.2 = some (.exn x)) ∨ r.1.cyc = true) ∧
      ∀ k : K, solve (query cfg f) env d (.ite (.call name sargs) t) k w = r := by
  rw [Lg.F.solve_neg_call, Lg.F.iteR_fail_world] at hacyc
  obtain ⟨r, hr, _, _, hk⟩ := Lg.F.if_then_fails (D := ⟨w.db, hcl⟩) h.hc (sem_holdsF ⟨w.db, hcl⟩ preds) f d env hname
    sargs t w ⟨rfl, hsc, fun _ _ => hsolv⟩ hargs hno hacyc
  refine ⟨r, ?_, hk⟩
  rcases hr with hr | hr
  · exact Or.inl hr
  · exact Or.inr (Or.inl hr)

/-! ### Without the added hypothesis

What remains true of the fixed hypotheses alone: one more alternative in the conclusion, for continuations
that never reset the ghost flag (`CycMono`, `Yld.Proofs.ActCyc`) — the run ends in a flagged world (the
search for `C` has built a cyclic term and then answered; the then branch has run, and the outcome depends
on it and on the continuation). -/

/-- statement 2 without `hacyc`: the else branch, or cut off, or — flag-monotone continuations — flagged -/
theorem ite_is_else_or_cyclic (cfg : Cfg) (preds : List Pred) (h : HornCfg cfg preds)
    (f : Nat) (env : Env) (d : Nat) (name : String) (sargs : List STerm) (hname : userName name = true)
    (t e : Body) (w : World) (hcl : DbClosed w.db) (hsc : w.Scoped)
    (hargs : ∀ a ∈ sargs.map (STerm.eval env), ∀ x ∈ a.vars, x < w.next)
    (hno : ∀ θ, Solves θ w.b → ¬ HoldsF w.db preds name ((sargs.map (STerm.eval env)).map (Term.subst θ)))
    (hsolv : Solvable w.b) :
    (∃ w', w'.b = w.b ∧ w'.db = w.db ∧
      ∀ k : K, solve (query cfg f) env d (.disj (.ite (.call name sargs) t) e) k w = solve (query cfg f) env d e k w') ∨
    (∃ r : R, (r.2 = some .oof ∨ (∃ x, r.2 = some (.exn x)) ∨ r.1.cyc = true) ∧
      ∀ k : K, solve (query cfg f) env d (.disj (.ite (.call name sargs) t) e) k w = r) ∨
    (∀ k : K, CycMono k → (solve (query cfg f) env d (.disj (.ite (.call name sargs) t) e) k w).1.cyc = true) := by
  rcases Lg.F.ite_is_else_or_flagged (D := ⟨w.db, hcl⟩) h.hc (sem_holdsF ⟨w.db, hcl⟩ preds) f d env hname sargs t e w
    ⟨rfl, hsc, fun _ _ => hsolv⟩ hargs hno with h1 | ⟨r, hr, hk⟩ | h3
  · exact Or.inl h1
  · exact Or.inr (Or.inl ⟨r, Or.inl hr, hk⟩)
  · exact Or.inr (Or.inr h3)

/-- statement 3 without `hacyc` -/
theorem if_then_fails_or_cyclic (cfg : Cfg) (preds : List Pred) (h : HornCfg cfg preds)
    (f : Nat) (env : Env) (d : Nat) (name : String) (sargs : List STerm) (hname : userName name = true)
    (t : Body) (w : World) (hcl : DbClosed w.db) (hsc : w.Scoped)
    (hargs : ∀ a ∈ sargs.map (STerm.eval env), ∀ x ∈ a.vars, x < w.next)
    (hno : ∀ θ, Solves θ w.b → ¬ HoldsF w.db preds name ((sargs.map (STerm.eval env)).map (Term.subst θ)))
    (hsolv : Solvable w.b) :
    (∃ r : R, (r.2 = none ∨ r.2 = some .oof ∨ (∃ x, r.2 = some (.exn x)) ∨ r.1.cyc = true) ∧
      ∀ k : K, solve (query cfg f) env d (.ite (.call name sargs) t) k w = r) ∨
    (∀ k : K, CycMono k → (solve (query cfg f) env d (.ite (.call name sargs) t) k w).1.cyc = true) := by
  rcases Lg.F.if_then_fails_or_flagged (D := ⟨w.db, hcl⟩) h.hc (sem_holdsF ⟨w.db, hcl⟩ preds) f d env hname sargs t w
    ⟨rfl, hsc, fun _ _ => hsolv⟩ hargs hno with ⟨r, hr, _, _, hk⟩ | h2
  · refine Or.inl ⟨r, ?_, hk⟩
    rcases hr with hr | hr
    · exact Or.inl hr
    · exact Or.inr (Or.inl hr)
  · exact Or.inr h2

/-- in the counterexample the hypothesis `hacyc` fails, as it must: the run of `\\+ X = f(X)` ends in a
    flagged world (by the corrected statement 2 and `cyc_ite_else_conclusion_false`) -/
theorem cyc_flagged :
    (solve (query appCfg 5) cycEnv 0 (.neg (.call "=" cycArgs)) (fun w' => (w', none)) factWorld).1.cyc = true := by
  cases hc : (solve (query appCfg 5) cycEnv 0 (.neg (.call "=" cycArgs)) (fun w' => (w', none)) factWorld).1.cyc with
  | true => rfl
  | false =>
    exact absurd (ite_is_else_when_condition_not_provable appCfg [appPred] app_hornCfg 5 cycEnv 0 "=" cycArgs (by decide)
      .tru .fail factWorld factDb_closed factWorld_scoped cyc_hargs cyc_hno solvable_empty hc)
      cyc_ite_else_conclusion_false

/-! ### Non-vacuity: `factEngine`'s program `app/3` and store (`item(a)`, `app([b], Y, [b|Y])`)

`( app(X, Y, [a,b]) -> T ; E )` does not depend on `E` in `factWorld` (the instance `X = [a,b], Y = []` of the
condition follows from program and store, `appGoalF_holds`); `( item(zzz) -> T ; E )` and
`( item(zzz) -> T )` are `E`, resp. fail (`item_zzz_not` of `LogicNaf.lean`; the search for `item(zzz)` ends
unflagged at every limit, `item_zzz_run`). -/

/-- theorem 1 applies: any then branch, any two else branches, any continuation, any limit -/
example (f d : Nat) (t e1 e2 : Body) (k : K) :
    solve (query appCfg f) nafEnv d (.disj (.ite (.call "app" nafArgs) t) e1) k factWorld =
    solve (query appCfg f) nafEnv d (.disj (.ite (.call "app" nafArgs) t) e2) k factWorld :=
  ite_else_not_run_when_condition_provable appCfg [appPred] app_hornCfg app_nocut f nafEnv d "app" nafArgs (by decide)
    t e1 e2 factWorld factDb_closed factWorld_scoped (by rw [nafArgs_eval]; exact appGoalF_scoped) appθF appθF_solves
    (by rw [nafArgs_eval]; exact appGoalF_holds) k

/-- the stored facts under `item/1` against `item(zzz)`: the atoms differ -/
theorem item_zzz_facts (f : Nat) (k : K) :
    matchDynamic f "item" [.atom "zzz"] k factWorld =
      ({ factWorld with next := factWorld.next + 0 }, if f = 0 then some .oof else none) := by
  have hf : factWorld.facts "item" [Term.atom "zzz"].length = [itemFact] := by rfl
  unfold matchDynamic
  rw [hf, Lg.F.matchAll_cons_eq]
  cases f with
  | zero => simp [matchFact, itemFact, unifyList, unify, Term.rename]
  | succ f => simp [matchFact, itemFact, unifyList, unify, walk, Term.rename, matchAll]

/-- the search for `item(zzz)` builds no cyclic term, at any limit, whatever the consumer -/
theorem item_zzz_run (f : Nat) (k : K) : (query appCfg f "item" [.atom "zzz"] k factWorld).1.cyc = false := by
  cases f with
  | zero => simp only [query]; rfl
  | succ f =>
    rw [Lg.query_succ, item_zzz_facts]
    split
    · rfl
    · rw [andThenR_none]
      cases Lg.tailCase app_hornCfg.hc f (name := "item") (by decide) [.atom "zzz"] with
      | none h => rw [h]; rfl
      | oof h => rw [h]; rfl
      | eq a b n hn _ _ h => exact absurd hn (by decide)
      | user p n hp hpn hpa hf h =>
        have : p = appPred := by simpa using hp
        subst this
        exact absurd hpn (by decide)

theorem item_zzz_acyc (f d : Nat) :
    (solve (query appCfg f) [] d (.neg (.call "item" [.atom "zzz"])) (fun w' => (w', none)) factWorld).1.cyc = false := by
  rw [Lg.F.solve_neg_call, Lg.F.iteR_fail_world]
  have e : [STerm.atom "zzz"].map (STerm.eval []) = [Term.atom "zzz"] := by simp [STerm.eval]
  rw [e]
  exact item_zzz_run f _

/-- theorem 2 applies: `( item(zzz) -> T ; E )` is `E`, bindings and store as before -/
example (f d : Nat) (t e : Body) :
    (∃ w', w'.b = factWorld.b ∧ w'.db = factWorld.db ∧ ∀ k : K,
      solve (query appCfg f) [] d (.disj (.ite (.call "item" [.atom "zzz"]) t) e) k factWorld =
        solve (query appCfg f) [] d e k w') ∨
    (∃ r : R, (r.2 = some .oof ∨ (∃ x, r.2 = some (.exn x)) ∨ r.1.cyc = true) ∧ ∀ k : K,
      solve (query appCfg f) [] d (.disj (.ite (.call "item" [.atom "zzz"]) t) e) k factWorld = r) :=
  ite_is_else_when_condition_not_provable appCfg [appPred] app_hornCfg f [] d "item" [.atom "zzz"] (by decide) t e
    factWorld factDb_closed factWorld_scoped (by simp [STerm.eval, Term.vars])
    (fun θ _ hh => item_zzz_not (by
      have hh' : HoldsF factDb [appPred] _ _ := hh
      simpa [STerm.eval, Term.subst] using hh')) solvable_empty (item_zzz_acyc f d)

/-- theorem 3 applies: `( item(zzz) -> T )` fails -/
example (f d : Nat) (t : Body) :
    ∃ r : R, (r.2 = none ∨ r.2 = some .oof ∨ (∃ x, r.2 = some (.exn x)) ∨ r.1.cyc = true) ∧ ∀ k : K,
      solve (query appCfg f) [] d (.ite (.call "item" [.atom "zzz"]) t) k factWorld = r :=
  if_then_fails_when_condition_not_provable appCfg [appPred] app_hornCfg f [] d "item" [.atom "zzz"] (by decide) t
    factWorld factDb_closed factWorld_scoped (by simp [STerm.eval, Term.vars])
    (fun θ _ hh => item_zzz_not (by
      have hh' : HoldsF factDb [appPred] _ _ := hh
      simpa [STerm.eval, Term.subst] using hh')) solvable_empty (item_zzz_acyc f d)

/- the model, evaluated (limit 12; the continuation raises `exn "called"`, the then branch is `true`, the
    else branch raises nothing): the provable condition runs the then branch, the other two the else
    branch `fail` — and the counterexample `X = f(X)` runs the then branch -/
#eval (solve (query appCfg 12) nafEnv 0 (.disj (.ite (.call "app" nafArgs) .tru) .fail) nafProbe factWorld).2
#eval (solve (query appCfg 12) [] 0 (.disj (.ite (.call "item" [.atom "zzz"]) .tru) .fail) nafProbe factWorld).2
#eval (solve (query appCfg 12) [] 0 (.disj (.ite (.call "app" [.list [.atom "a"], .list [], .list [.atom "b"]]) .tru) .fail)
  nafProbe factWorld).2
#eval (solve (query appCfg 12) cycEnv 0 (.disj (.ite (.call "=" cycArgs) .tru) .fail) nafProbe factWorld).2

#print axioms ite_else_not_run_when_condition_provable
#print axioms ite_is_else_when_condition_not_provable
#print axioms if_then_fails_when_condition_not_provable
#print axioms ite_is_else_statement_false
#print axioms if_then_fails_statement_false
#print axioms ite_is_else_or_cyclic
#print axioms if_then_fails_or_cyclic

end Yld
