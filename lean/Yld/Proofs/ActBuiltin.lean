/-
  The builtins, given the simulation of `query` and `call` one fuel level below.
-/
import Yld.Proofs.ActClause2
import Yld.Proofs.StoreShape
set_option linter.unusedSimpArgs false
set_option linter.unusedVariables false
namespace Yld

def GSim (P : Sig → Prop) (g1 g2 : List Term → Gen) : Prop :=
  ∀ (S : Cpl) (ds : List (Nat × Nat)) (args1 args2 : List Term) (K1 K2 : K) (w1 w2 : World),
    Forall₂ (TRel S) args1 args2 → WRel S ds w1 w2 → KSim P S ds K1 K2 → CycMono K1 → CycMono K2 →
    RSim P ds w1 w2 (g1 args1 K1 w1) (g2 args2 K2 w2)

/-- `call/N` on corresponding goals -/
def CallSim (P : Sig → Prop) (cg1 cg2 : Term → List Term → Gen) : Prop :=
  ∀ (S : Cpl) (ds : List (Nat × Nat)) (g1 g2 : Term) (extra1 extra2 : List Term) (K1 K2 : K)
    (w1 w2 : World), TRel S g1 g2 → Forall₂ (TRel S) extra1 extra2 → WRel S ds w1 w2 → KSim P S ds K1 K2 →
    CycMono K1 → CycMono K2 → RSim P ds w1 w2 (cg1 g1 extra1 K1 w1) (cg2 g2 extra2 K2 w2)

theorem ksim_probe (P : Sig → Prop) (S : Cpl) (ds : List (Nat × Nat)) (s : Sig) :
    KSim P S ds (fun w' => (w', some s)) (fun w' => (w', some s)) := fun S' _ v1 v2 hv => RSim.same hv _

/-- `\=`: no answer of `=` -/
theorem neq_sim {P : Sig → Prop} (hP : OofLike P) {S : Cpl} {ds : List (Nat × Nat)} {w1 w2 : World} {K1 K2 : K}
    {r1 r2 : R} (hw : WRel S ds w1 w2) (hK : KSim P S ds K1 K2) (cm1 : CycMono K1) (cm2 : CycMono K2)
    (h : RSim P ds w1 w2 r1 r2) :
    RSim P ds w1 w2
      (match (generalizing := false) r1 with
        | (w', some .stop) => (w', none)
        | (w', none) => K1 w'
        | r => r)
      (match (generalizing := false) r2 with
        | (w', some .stop) => (w', none)
        | (w', none) => K2 w'
        | r => r) := by
  obtain ⟨v1, o1⟩ := r1
  obtain ⟨v2, o2⟩ := r2
  rcases h with (h | h | h | h) | h
  · obtain ⟨s, e, hs⟩ := h
    simp only at e; subst e
    have hne : s ≠ .stop := fun e => hP.stop (e ▸ hs)
    cases s <;> first | exact absurd rfl hne | exact Or.inl (Or.inl ⟨_, rfl, hs⟩)
  · obtain ⟨s, e, hs⟩ := h
    simp only at e; subst e
    have hne : s ≠ .stop := fun e => hP.stop (e ▸ hs)
    cases s <;> first | exact absurd rfl hne | exact Or.inl (Or.inr (Or.inl ⟨_, rfl, hs⟩))
  · refine Or.inl (Or.inr (Or.inr (Or.inl ?_)))
    cases o1 with
    | none => exact cm1 _ h
    | some s => cases s <;> exact h
  · refine Or.inl (Or.inr (Or.inr (Or.inr ?_)))
    cases o2 with
    | none => exact cm2 _ h
    | some s => cases s <;> exact h
  · have e : o1 = o2 := h.sig
    subst e
    cases o1 with
    | none => exact (hK S (Sub.refl S) v1 v2 (h.wrel hw)).rebase h.b1 h.b2 h.next1 h.next2
    | some s =>
      cases s with
      | stop => exact Or.inr ⟨rfl, h.b1, h.b2, h.next1, h.next2, h.cyc1, h.cyc2, h.db, h.closed, h.stamp, h.acc⟩
      | _ => exact Or.inr h

theorem findall_sim {P : Sig → Prop} (hP : OofLike P) (f : Nat) {cg1 cg2 : Term → List Term → Gen}
    (hG : CallSim P cg1 cg2) {S : Cpl} {ds : List (Nat × Nat)} {t1 t2 g1 g2 bag1 bag2 : Term} {K1 K2 : K} {w1 w2 : World}
    (ht : TRel S t1 t2) (hg : TRel S g1 g2) (hb : TRel S bag1 bag2) (hw : WRel S ds w1 w2) (hK : KSim P S ds K1 K2)
    (cm1 : CycMono K1) (cm2 : CycMono K2) :
    RSim P ds w1 w2
      (match cg1 g1 [] (findallCollect f t1) { w1 with acc := [] :: w1.acc } with
        | (w', none) => unify f bag1 (mkList (w'.acc.headD [])) K1 { w' with acc := w'.acc.tail }
        | (w', s) => ({ w' with acc := w'.acc.tail }, s))
      (match cg2 g2 [] (findallCollect f t2) { w2 with acc := [] :: w2.acc } with
        | (w', none) => unify f bag2 (mkList (w'.acc.headD [])) K2 { w' with acc := w'.acc.tail }
        | (w', s) => ({ w' with acc := w'.acc.tail }, s)) := by
  have hw0 : WRel S ((w1.next, w2.next) :: ds) { w1 with acc := [] :: w1.acc } { w2 with acc := [] :: w2.acc } := by
    obtain ⟨fl1, fl2, base, e1, e2, hfl⟩ := hw.acc
    exact ⟨hw.core, hw.solv1, hw.solv2, hw.cyc1, hw.cyc2, hw.db, hw.closed, hw.stamp,
      ⟨[] :: fl1, [] :: fl2, base, by simp [e1], by simp [e2], .cons (.nil (Nat.le_refl _) (Nat.le_refl _)) hfl⟩⟩
  have h := hG S _ g1 g2 [] [] _ _ _ _ hg .nil hw0 (findallCollect_sim hP f f ht)
    (findallCollect_cycMono f t1) (findallCollect_cycMono f t2)
  generalize cg1 g1 [] (findallCollect f t1) { w1 with acc := [] :: w1.acc } = r1 at h
  generalize cg2 g2 [] (findallCollect f t2) { w2 with acc := [] :: w2.acc } = r2 at h
  obtain ⟨v1, o1⟩ := r1
  obtain ⟨v2, o2⟩ := r2
  rcases h with (h | h | h | h) | hp
  · obtain ⟨s, e, hs⟩ := h
    simp only at e; subst e
    exact Or.inl (Or.inl ⟨s, rfl, hs⟩)
  · obtain ⟨s, e, hs⟩ := h
    simp only at e; subst e
    exact Or.inl (Or.inr (Or.inl ⟨s, rfl, hs⟩))
  · refine Or.inl (Or.inr (Or.inr (Or.inl ?_)))
    cases o1 with
    | none => exact unify_cycGen f _ _ K1 cm1 _ h
    | some s => exact h
  · refine Or.inl (Or.inr (Or.inr (Or.inr ?_)))
    cases o2 with
    | none => exact unify_cycGen f _ _ K2 cm2 _ h
    | some s => exact h
  · have e : o1 = o2 := hp.sig
    subst e
    obtain ⟨fl1, fl2, base, e1, e2, hfl⟩ := hp.acc
    simp only at e1 e2
    cases hfl with
    | @cons _ _ l1 l2 _ fl1' fl2' hfv hrest =>
      have hacc : AccRel ds v1.acc.tail v2.acc.tail v1.next v2.next :=
        ⟨fl1', fl2', base, by rw [e1]; rfl, by rw [e2]; rfl, hrest⟩
      cases o1 with
      | some s =>
        exact Or.inr ⟨rfl, hp.b1, hp.b2, hp.next1, hp.next2, hp.cyc1, hp.cyc2, hp.db, hp.closed, hp.stamp, hacc⟩
      | none =>
        have hb1 : v1.b = w1.b := hp.b1
        have hb2 : v2.b = w2.b := hp.b2
        obtain ⟨S', hsub, hcore', hl⟩ := Core.fv (b1 := w1.b) (b2 := w2.b) hfv hw.core
        have hwv : WRel S' ds { v1 with acc := v1.acc.tail } { v2 with acc := v2.acc.tail } :=
          ⟨by show Core S' v1.b v2.b v1.next v2.next; rw [hb1, hb2]; exact hcore',
            by show Solvable v1.b; rw [hb1]; exact hw.solv1, by show Solvable v2.b; rw [hb2]; exact hw.solv2,
            hp.cyc1, hp.cyc2, hp.db, hp.closed, hp.stamp, hacc⟩
        have h1 : v1.acc.headD [] = l1 := by rw [e1]; rfl
        have h2 : v2.acc.headD [] = l2 := by rw [e2]; rfl
        simp only [h1, h2]
        exact (unify_sim hP f f hwv (hb.sub hsub) (TRel.mkList hl) (hK.sub hsub) cm1 cm2).rebase hb1 hb2
          hp.next1 hp.next2

/-- `assertz` / `asserta` -/
theorem assert_sim {P : Sig → Prop} (hP : OofLike P) (f : Nat) (app : Bool) {S : Cpl} {ds : List (Nat × Nat)}
    {t1 t2 : Term} {K1 K2 : K} {w1 w2 : World} (ht : TRel S t1 t2) (hw : WRel S ds w1 w2) (hK : KSim P S ds K1 K2)
    (cm1 : CycMono K1) (cm2 : CycMono K2) :
    RSim P ds w1 w2
      (match factNameArgs f w1 t1 with
        | .error s => (w1, some s)
        | .ok (name, as) =>
            match assertFact f name as app w1 with
            | (w', none) => K1 w'
            | r => r)
      (match factNameArgs f w2 t2 with
        | .error s => (w2, some s)
        | .ok (name, as) =>
            match assertFact f name as app w2 with
            | (w', none) => K2 w'
            | r => r) := by
  have hf := factNameArgs_sim f f hw ht
  generalize factNameArgs f w1 t1 = x1 at hf
  generalize factNameArgs f w2 t2 = x2 at hf
  cases hf with
  | oof1 r => exact RSim.esc1 w1 hP.oof _
  | oof2 r => exact RSim.esc2 _ w2 hP.oof
  | err s => exact RSim.same hw (some s)
  | ok name as1 as2 h =>
    exact sim_andThen hw (assertFact_sim hP f f name app hw h) (fun v1 v2 hv => hK S (Sub.refl S) v1 v2 hv) cm1 cm2

theorem retract_sim {P : Sig → Prop} (hP : OofLike P) (f : Nat) {S : Cpl} {ds : List (Nat × Nat)}
    {t1 t2 : Term} {K1 K2 : K} {w1 w2 : World} (ht : TRel S t1 t2) (hw : WRel S ds w1 w2) (hK : KSim P S ds K1 K2)
    (cm1 : CycMono K1) (cm2 : CycMono K2) :
    RSim P ds w1 w2
      (match factNameArgs f w1 t1 with
        | .error s => (w1, some s)
        | .ok (name, as) => retractLoop f name as (w1.facts name as.length) K1 w1)
      (match factNameArgs f w2 t2 with
        | .error s => (w2, some s)
        | .ok (name, as) => retractLoop f name as (w2.facts name as.length) K2 w2) := by
  have hf := factNameArgs_sim f f hw ht
  generalize factNameArgs f w1 t1 = x1 at hf
  generalize factNameArgs f w2 t2 = x2 at hf
  cases hf with
  | oof1 r => exact RSim.esc1 w1 hP.oof _
  | oof2 r => exact RSim.esc2 _ w2 hP.oof
  | err s => exact RSim.same hw (some s)
  | ok name as1 as2 h =>
    simp only
    rw [← h.length_eq, ← facts_eq hw.db]
    exact retractLoop_sim hP f f name h hK cm1 cm2 _ (facts_closed hw.closed _ _) hw

theorem retractall_sim {P : Sig → Prop} (hP : OofLike P) (f : Nat) {S : Cpl} {ds : List (Nat × Nat)}
    {t1 t2 : Term} {K1 K2 : K} {w1 w2 : World} (ht : TRel S t1 t2) (hw : WRel S ds w1 w2) (hK : KSim P S ds K1 K2)
    (cm1 : CycMono K1) (cm2 : CycMono K2) :
    RSim P ds w1 w2
      (match factNameArgs f w1 t1 with
        | .error s => (w1, some s)
        | .ok (name, as) =>
            match retractAllLoop f as (w1.facts name as.length) [] w1 with
            | (w', .ok keep) => K1 (w'.setFacts name as.length keep)
            | (w', .error s) => (w', some s))
      (match factNameArgs f w2 t2 with
        | .error s => (w2, some s)
        | .ok (name, as) =>
            match retractAllLoop f as (w2.facts name as.length) [] w2 with
            | (w', .ok keep) => K2 (w'.setFacts name as.length keep)
            | (w', .error s) => (w', some s)) := by
  have hf := factNameArgs_sim f f hw ht
  generalize factNameArgs f w1 t1 = x1 at hf
  generalize factNameArgs f w2 t2 = x2 at hf
  cases hf with
  | oof1 r => exact RSim.esc1 w1 hP.oof _
  | oof2 r => exact RSim.esc2 _ w2 hP.oof
  | err s => exact RSim.same hw (some s)
  | ok name as1 as2 h =>
    simp only
    rw [← h.length_eq, ← facts_eq hw.db]
    have hcl := facts_closed hw.closed name as1.length
    have hr := retractAllLoop_sim (P := P) hP f f h (w1.facts name as1.length) hcl [] hw
    cases hx1 : retractAllLoop f as1 (w1.facts name as1.length) [] w1 with
    | mk v1 e1 =>
      cases hx2 : retractAllLoop f as2 (w1.facts name as1.length) [] w2 with
      | mk v2 e2 =>
        rw [hx1, hx2] at hr
        rcases hr with (hr | hr | hr | hr) | ⟨he, hp⟩
        · obtain ⟨s, e, hs⟩ := hr
          simp only at e; subst e
          exact Or.inl (Or.inl ⟨s, rfl, hs⟩)
        · obtain ⟨s, e, hs⟩ := hr
          simp only at e; subst e
          exact Or.inl (Or.inr (Or.inl ⟨s, rfl, hs⟩))
        · refine Or.inl (Or.inr (Or.inr (Or.inl ?_)))
          cases e1 with
          | error s => exact hr
          | ok keep => exact cm1 _ (by rw [setFacts_cyc]; exact hr)
        · refine Or.inl (Or.inr (Or.inr (Or.inr ?_)))
          cases e2 with
          | error s => exact hr
          | ok keep => exact cm2 _ (by rw [setFacts_cyc]; exact hr)
        · simp only at he; subst he
          cases e1 with
          | error s =>
            exact Or.inr ⟨rfl, hp.b1, hp.b2, hp.next1, hp.next2, hp.cyc1, hp.cyc2, hp.db, hp.closed, hp.stamp, hp.acc⟩
          | ok keep =>
            obtain ⟨sub, hk, hsl⟩ := retractAll_keeps_sublist f as1 _ [] w1 v1 keep hx1
            have hkeep : ∀ c ∈ keep, FactClosed c := by
              intro c hc
              rw [hk] at hc
              exact hcl c (hsl.subset (by simpa using hc))
            have hwv : WRel S ds v1 v2 := hp.wrel hw
            refine RSim.rebase (hK S (Sub.refl S) _ _ (hwv.setFacts name as1.length hkeep)) ?_ ?_ ?_ ?_
            · rw [setFacts_b]; exact hp.b1
            · rw [setFacts_b]; exact hp.b2
            · rw [setFacts_next]; exact hp.next1
            · rw [setFacts_next]; exact hp.next2

/-- **The builtins**, given `query` and `call` one level below. -/
theorem builtin_sim (c1 c2 : Cfg) (f : Nat)
    (ihQ : ∀ P, OofLike P → QSim P (query c1 f) (query c2 f))
    (ihG : ∀ P, OofLike P → CallSim P (callGoal c1 f) (callGoal c2 f))
    (P : Sig → Prop) (hP : OofLike P) (b : String) : GSim P (runBuiltin c1 (f+1) b) (runBuiltin c2 (f+1) b) := by
  intro S ds args1 args2 K1 K2 w1 w2 ha hw hK cm1 cm2
  simp only [runBuiltin]
  split
  case h_1 =>
    cases ha with
    | cons h1 ha => cases ha with | cons h2 ha => cases ha; simp only; exact unify_sim hP f f hw h1 h2 hK cm1 cm2
  case h_2 =>
    cases ha with
    | cons h1 ha =>
      cases ha with
      | cons h2 ha =>
        cases ha
        simp only
        exact neq_sim hP hw hK cm1 cm2
          (ihQ P hP "=" S ds _ _ _ _ w1 w2 (.cons h1 (.cons h2 .nil)) hw (ksim_probe P S ds .stop) (fun w h => h) (fun w h => h))
  case h_3 =>
    cases ha with
    | cons hg he => simp only; exact ihG P hP S ds _ _ _ _ K1 K2 w1 w2 hg he hw hK cm1 cm2
  case h_4 =>
    cases ha with
    | cons hg ha =>
      cases ha
      simp only
      unfold onceGen
      apply sim_leaveOnce hP
      refine ihG (UpP P) (UpP_ok P) S ds _ _ [] [] _ _ w1 w2 hg .nil hw ?_ ?_ ?_
      · intro S' hs v1 v2 hv
        exact sim_thenSig .stop (sim_wrapK hK S' hs v1 v2 hv)
      · intro w h; simp only; rw [thenSig_world]; exact wrapK_cycMono K1 cm1 w h
      · intro w h; simp only; rw [thenSig_world]; exact wrapK_cycMono K2 cm2 w h
  case h_5 =>
    cases ha with
    | cons ht ha =>
      cases ha with
      | cons hg ha =>
        cases ha with
        | cons hb ha =>
          cases ha
          simp only
          exact findall_sim hP f (ihG P hP) ht hg hb hw hK cm1 cm2
  case h_6 =>
    cases ha with
    | cons ht ha => cases ha; simp only; exact assert_sim hP f true ht hw hK cm1 cm2
  case h_7 =>
    cases ha with
    | cons ht ha => cases ha; simp only; exact assert_sim hP f false ht hw hK cm1 cm2
  case h_8 =>
    cases ha with
    | cons ht ha => cases ha; simp only; exact retract_sim hP f ht hw hK cm1 cm2
  case h_9 =>
    cases ha with
    | cons ht ha => cases ha; simp only; exact retractall_sim hP f ht hw hK cm1 cm2
  case h_10 =>
    rename_i h1 h2 h3 h4 h5 h6 h7 h8 h9
    split
    case h_10 => exact RSim.same hw _
    case h_1 =>
      cases ha with
      | cons _ ha => cases ha with | cons _ ha => cases ha; exact (h1 _ _ rfl rfl).elim
    case h_2 =>
      cases ha with
      | cons _ ha => cases ha with | cons _ ha => cases ha; exact (h2 _ _ rfl rfl).elim
    case h_3 =>
      cases ha with
      | cons _ ha => exact (h3 _ _ rfl rfl).elim
    case h_4 =>
      cases ha with
      | cons _ ha => cases ha; exact (h4 _ rfl rfl).elim
    case h_5 =>
      cases ha with
      | cons _ ha =>
        cases ha with
        | cons _ ha => cases ha with | cons _ ha => cases ha; exact (h5 _ _ _ rfl rfl).elim
    case h_6 =>
      cases ha with
      | cons _ ha => cases ha; exact (h6 _ rfl rfl).elim
    case h_7 =>
      cases ha with
      | cons _ ha => cases ha; exact (h7 _ rfl rfl).elim
    case h_8 =>
      cases ha with
      | cons _ ha => cases ha; exact (h8 _ rfl rfl).elim
    case h_9 =>
      cases ha with
      | cons _ ha => cases ha; exact (h9 _ rfl rfl).elim

end Yld
