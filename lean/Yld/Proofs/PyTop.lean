/-
  The driver's `python` mode (`queryPyTop`: the queried predicate is run from the Python text
  printed for it) is `query` in compiled mode, for every definition table whose Prolog definitions
  come from the front end and are in compiled mode.
-/
import Yld.Proofs.ClauseOK
import Yld.Proofs.Keys
namespace Yld

/-- Definition tables as `Engine.load` builds them from front-end output. -/
def DefsPyOK (defs : Defs) : Prop :=
  ∀ key chain, defs.get key = some chain → ∀ p m, Def.prolog p m ∈ chain →
    key = predKey p.name p.arity ∧ m = .compiled ∧ ∀ c ∈ p.clauses, ClauseSrcOK c p.arity

theorem runDefPyTop_eq (cfg : Cfg) (f : Nat) (d : Def) (args : List Term)
    (hd : ∀ p m, d = .prolog p m → p.arity = args.length ∧ m = .compiled ∧ ∀ c ∈ p.clauses, ClauseSrcOK c p.arity) :
    runDefPyTop cfg f d args = runDef cfg f d args := by
  cases f with
  | zero => funext k w; simp [runDefPyTop, runDef]
  | succ f =>
    cases d with
    | prolog p m =>
      obtain ⟨ha, hm, hs⟩ := hd p m rfl
      subst hm
      exact pyTop_def_correct_engine cfg f p .compiled args ha (by rw [← ha]; exact hs)
    | py p => funext k w; simp [runDefPyTop]
    | builtin b => funext k w; simp [runDefPyTop]

theorem runChainPyTop_eq (cfg : Cfg) (args : List Term) : ∀ (f : Nat) (ds : List Def),
    (∀ p m, Def.prolog p m ∈ ds → p.arity = args.length ∧ m = .compiled ∧ ∀ c ∈ p.clauses, ClauseSrcOK c p.arity) →
    runChainPyTop cfg f ds args = runChain cfg f ds args := by
  intro f
  induction f with
  | zero => intro ds _; funext k w; simp [runChainPyTop, runChain]
  | succ f ih =>
    intro ds hds
    cases ds with
    | nil => funext k w; simp [runChainPyTop, runChain]
    | cons d ds =>
      funext k w
      simp only [runChainPyTop, runChain]
      rw [runDefPyTop_eq cfg f d args (fun p m e => hds p m (by rw [e]; simp)),
        ih ds (fun p m h => hds p m (List.mem_cons_of_mem _ h))]
      rcases runDef cfg f d args k w with ⟨w', o⟩
      cases o <;> rfl

/-- **The `python` mode of the driver is the compiled mode.** -/
theorem queryPyTop_eq (cfg : Cfg) (hdefs : DefsPyOK cfg.defs) (f : Nat) (name : String) (args : List Term) :
    queryPyTop cfg f name args = query cfg f name args := by
  cases f with
  | zero => funext k w; simp [queryPyTop, query]
  | succ f =>
    funext k w
    simp only [queryPyTop, query]
    rcases matchDynamic f name args k w with ⟨w1, o⟩
    cases o with
    | some s => rfl
    | none =>
      simp only
      split
      · rfl
      · cases h1 : cfg.defs.get (predKey name args.length) with
        | some chain =>
          simp only [Option.orElse]
          rw [runChainPyTop_eq cfg args f chain (fun p m hm => by
            obtain ⟨hk, hmode, hs⟩ := hdefs _ _ h1 p m hm
            exact ⟨((predKey_injective _ _ _ _ hk).2).symm, hmode, hs⟩)]
        | none =>
          simp only [Option.orElse]
          cases h2 : cfg.defs.get (variadicKey name) with
          | none => rfl
          | some chain =>
            simp only
            rw [runChainPyTop_eq cfg args f chain (fun p m hm => by
              obtain ⟨hk, _, _⟩ := hdefs _ _ h2 p m hm
              exact absurd hk.symm (predKey_ne_variadicKey _ _ _))]

end Yld
