/-
  The engine only extends `acc`: every generator of the engine, run with a consumer that only
  extends the result lists on the stack `acc` (level by level), only extends them itself.
  (`findall` pushes a level, runs its goal with the collecting consumer, pops: balanced.)
-/
import Yld.Proofs.FuelMono
namespace Yld

/-- level-wise prefix: every level of `a` is a prefix of the level of `a'` at the same depth
    (`a'` may have further levels below). -/
def LevelPre : List (List Term) → List (List Term) → Prop
  | [], _ => True
  | _ :: _, [] => False
  | x :: a, y :: b => x <+: y ∧ LevelPre a b

@[simp] theorem LevelPre_nil (b : List (List Term)) : LevelPre [] b = True := by
  cases b <;> rfl
@[simp] theorem LevelPre_cons_nil (x : List Term) (a : List (List Term)) : LevelPre (x :: a) [] = False := rfl
@[simp] theorem LevelPre_cons_cons (x y : List Term) (a b : List (List Term)) :
    LevelPre (x :: a) (y :: b) = (x <+: y ∧ LevelPre a b) := rfl

theorem LevelPre.refl : ∀ a, LevelPre a a
  | [] => by simp
  | x :: a => by simp [LevelPre.refl a]

theorem LevelPre.trans : ∀ {a b c}, LevelPre a b → LevelPre b c → LevelPre a c
  | [], _, _, _, _ => by simp
  | _ :: _, [], _, h, _ => by simp at h
  | _ :: _, _ :: _, [], _, h => by simp at h
  | x :: a, y :: b, z :: c, h1, h2 => by
    simp only [LevelPre_cons_cons] at h1 h2 ⊢
    exact ⟨h1.1.trans h2.1, LevelPre.trans h1.2 h2.2⟩

theorem LevelPre.push {a b : List (List Term)} (h : LevelPre a b) : LevelPre ([] :: a) ([] :: b) := by
  simp [h]

theorem LevelPre.tail : ∀ {a b : List (List Term)}, LevelPre a b → LevelPre a.tail b.tail
  | [], _, _ => by simp
  | _ :: _, [], h => by simp at h
  | x :: a, y :: b, h => by
    simp only [LevelPre_cons_cons] at h
    simpa using h.2

theorem LevelPre.headD : ∀ {a b : List (List Term)}, LevelPre a b → a.headD [] <+: b.headD []
  | [], _, _ => by simp
  | _ :: _, [], h => by simp at h
  | x :: a, y :: b, h => by
    simp only [LevelPre_cons_cons] at h
    simpa using h.1

/-- the result stack of the second world extends that of the first -/
def WLe (w w' : World) : Prop := LevelPre w.acc w'.acc

theorem WLe.refl (w : World) : WLe w w := LevelPre.refl _
theorem WLe.trans {a b c : World} (h1 : WLe a b) (h2 : WLe b c) : WLe a c := LevelPre.trans h1 h2
theorem WLe.of_acc {a b c : World} (h : a.acc = b.acc) (h2 : WLe b c) : WLe a c := by
  unfold WLe at *; rw [h]; exact h2
theorem WLe.acc_of {a b c : World} (h2 : WLe a b) (h : b.acc = c.acc) : WLe a c := by
  unfold WLe at *; rw [← h]; exact h2
theorem WLe.of_eq {a b : World} (h : a.acc = b.acc) : WLe a b := by
  unfold WLe; rw [h]; exact LevelPre.refl _

/-- a consumer that only extends the result lists -/
def KExt (k : K) : Prop := ∀ w, WLe w (k w).1
def GExt (g : Gen) : Prop := ∀ k, KExt k → KExt (g k)

/-! ### outcome combinators -/

@[simp] theorem thenSig_fst (s : Sig) (r : R) : (thenSig s r).1 = r.1 := by
  obtain ⟨w, o⟩ := r; cases o <;> rfl
@[simp] theorem catchBrk_fst (l : Nat) (r : R) : (catchBrk l r).1 = r.1 := by
  obtain ⟨w, o⟩ := r
  cases o with
  | none => rfl
  | some s =>
    cases s <;> try rfl
    simp only [catchBrk_brk]; split <;> rfl
@[simp] theorem wrapK_fst (k : K) (w : World) : (wrapK k w).1 = (k w).1 := by
  unfold wrapK
  generalize k w = r
  obtain ⟨w', o⟩ := r; cases o <;> rfl
@[simp] theorem leaveFrame_fst (r : R) : (leaveFrame r).1 = r.1 := by
  obtain ⟨w, o⟩ := r
  cases o with
  | none => rfl
  | some s => cases s <;> rfl
@[simp] theorem leaveOnce_fst (r : R) : (leaveOnce r).1 = r.1 := by
  obtain ⟨w, o⟩ := r
  cases o with
  | none => rfl
  | some s => cases s <;> rfl

theorem andThenR_ext {f : World → R} (hf : ∀ w, WLe w (f w).1) (r : R) : WLe r.1 (andThenR f r).1 := by
  obtain ⟨w, o⟩ := r
  cases o with
  | none => exact hf w
  | some s => exact WLe.refl _

theorem iteR_ext {f : World → R} (hf : ∀ w, WLe w (f w).1) (d : Nat) (r : R) : WLe r.1 (iteR d f r).1 := by
  obtain ⟨w, o⟩ := r
  cases o with
  | none => exact hf w
  | some s =>
    cases s <;> try exact WLe.refl _
    simp only [iteR_commit]; split <;> exact WLe.refl _

/-- `match r with | (w', none) => f w' | r => r` is `andThenR` -/
theorem andThenR_def (f : World → R) (r : R) :
    (match r with | (w', none) => f w' | r => r) = andThenR f r := by
  obtain ⟨w, o⟩ := r; cases o <;> rfl

theorem seq_ext {w : World} {r : R} {f : World → R} (h1 : WLe w r.1) (hf : ∀ w, WLe w (f w).1) :
    WLe w (andThenR f r).1 := h1.trans (andThenR_ext hf r)

/-! ### world updates that do not touch `acc` -/

@[simp] theorem setFacts_acc (w : World) (name : String) (n : Nat) (fs : List Fact) :
    (w.setFacts name n fs).acc = w.acc := by
  unfold World.setFacts
  simp only
  split <;> rfl

@[simp] theorem markCyc_acc (f x : Nat) (t : Term) (w : World) : (markCyc f x t w).acc = w.acc := by
  unfold markCyc
  split
  · split <;> rfl
  · rfl

theorem allocVars_acc (names : List String) : ∀ (env : Env) (w : World),
    (allocVars names env w).2.acc = w.acc := by
  induction names with
  | nil => intro env w; rfl
  | cons v vs ih =>
    intro env w
    have e : allocVars (v :: vs) env w = allocVars vs (env ++ [(v, .var w.next)]) w.fresh.2 := rfl
    rw [e, ih]; rfl

theorem assertFact_acc (f : Nat) (name : String) (vs : List Term) (app : Bool) (w : World) :
    (assertFact f name vs app w).1.acc = w.acc := by
  unfold assertFact
  split
  · rfl
  · simp

/-! ### unification -/

theorem bindGen_ext (x : Nat) (t : Term) : GExt (bindGen x t) := by
  intro k hk w
  unfold bindGen
  have h := hk { w with b := bind w.b x t }
  revert h
  generalize k { w with b := bind w.b x t } = r
  obtain ⟨w', o⟩ := r
  intro h; exact h

theorem unifyList_ext (u : Term → Term → Gen) (hu : ∀ a b, GExt (u a b)) :
    ∀ as bs, GExt (unifyList u as bs) := by
  intro as
  induction as with
  | nil =>
    intro bs k hk w
    cases bs with
    | nil => simpa [unifyList] using hk w
    | cons b bs => simp only [unifyList]; exact WLe.refl _
  | cons a as ih =>
    intro bs k hk w
    cases bs with
    | nil => simp only [unifyList]; exact WLe.refl _
    | cons b bs =>
      simp only [unifyList]
      exact hu a b _ (fun w' => ih bs k hk w') w

theorem unify_ext (f : Nat) : ∀ t1 t2, GExt (unify f t1 t2) := by
  induction f with
  | zero => intro t1 t2 k _ w; rw [unify]; exact WLe.refl _
  | succ f ih =>
    intro t1 t2 k hk w
    rw [unify]
    cases h1 : walk w.b (f+1) t1 with
    | none => exact WLe.refl _
    | some a1 =>
      cases h2 : walk w.b (f+1) t2 with
      | none => exact WLe.refl _
      | some a2 =>
        simp only
        cases a1 <;> cases a2 <;> simp only
        all_goals first
          | exact WLe.refl _
          | exact bindGen_ext _ _ k hk _
          | exact WLe.of_acc (markCyc_acc _ _ _ _).symm (bindGen_ext _ _ k hk _)
          | (split
             · first | exact hk w | exact unifyList_ext (unify f) ih _ _ k hk w
             · first | exact WLe.refl _ | exact bindGen_ext _ _ k hk _)

/-! ### facts -/

theorem matchFact_ext (f : Nat) (fact : Fact) (args : List Term) : GExt (matchFact f fact args) := by
  intro k hk w
  unfold matchFact
  simp only
  split
  · exact WLe.of_acc (b := { w with next := w.next + fact.nvars }) rfl
      (unifyList_ext _ (unify_ext f) _ _ k hk _)
  · exact WLe.refl _

theorem matchAll_ext (f : Nat) (args : List Term) : ∀ cs, GExt (matchAll f args cs) := by
  intro cs
  induction cs with
  | nil => intro k _ w; simp only [matchAll]; exact WLe.refl _
  | cons c cs ih =>
    intro k hk w
    simp only [matchAll]
    exact seq_ext (matchFact_ext f c args k hk w) (fun w' => ih k hk w')

theorem matchDynamic_ext (f : Nat) (name : String) (args : List Term) : GExt (matchDynamic f name args) := by
  intro k hk w
  unfold matchDynamic
  exact matchAll_ext f args _ k hk w

theorem retractLoop_ext (f : Nat) (name : String) (args : List Term) :
    ∀ cs, GExt (retractLoop f name args cs) := by
  intro cs
  induction cs with
  | nil => intro k _ w; simp only [retractLoop]; exact WLe.refl _
  | cons c cs ih =>
    intro k hk w
    simp only [retractLoop]
    split
    · refine seq_ext (matchFact_ext f c args _ (fun w' => ?_) w) (fun w' => ih k hk w')
      exact WLe.of_acc (setFacts_acc _ _ _ _).symm (hk _)
    · exact ih k hk w

theorem runPy_ext (f : Nat) (r : Option Nat) (args : List Term) :
    ∀ rows i, GExt (runPy f rows r i args) := by
  intro rows
  induction rows with
  | nil =>
    intro i k _ w
    simp only [runPy]
    split <;> exact WLe.refl _
  | cons row rows ih =>
    intro i k hk w
    simp only [runPy]
    split
    · exact WLe.refl _
    · exact seq_ext (matchFact_ext f row args k hk w) (fun w' => ih (i+1) k hk w')

theorem factMatches_ext (f : Nat) (c : Fact) (args : List Term) (w : World) :
    WLe w (factMatches f c args w).1 := by
  unfold factMatches
  have h := matchFact_ext f c args (fun w' => (w', some .stop)) (fun w' => WLe.refl _) w
  revert h
  generalize matchFact f c args (fun w' => (w', some Sig.stop)) w = r
  obtain ⟨w', o⟩ := r
  intro h
  cases o with
  | none => exact h
  | some s => cases s <;> exact h

theorem retractAllLoop_ext (f : Nat) (args : List Term) :
    ∀ (cs keep : List Fact) (w : World), WLe w (retractAllLoop f args cs keep w).1 := by
  intro cs
  induction cs with
  | nil => intro keep w; simp only [retractAllLoop]; exact WLe.refl _
  | cons c cs ih =>
    intro keep w
    simp only [retractAllLoop]
    have h := factMatches_ext f c args w
    revert h
    generalize factMatches f c args w = r
    obtain ⟨w', (s | b)⟩ := r
    · intro h; exact h
    · intro h
      cases b
      · exact h.trans (ih _ _)
      · exact h.trans (ih _ _)

theorem findallCollect_ext (f : Nat) (tmpl : Term) : KExt (findallCollect f tmpl) := by
  intro w
  unfold findallCollect
  split
  · unfold WLe
    simp only
    cases w.acc with
    | nil => simp
    | cons top rest => simp [LevelPre.refl]
  · exact WLe.refl _

/-! ### clause bodies -/

def QExt (q : Q) : Prop := ∀ name args, GExt (q name args)

theorem exec_ext (q : Q) (hq : QExt q) (env : Env) :
    (∀ c, GExt (exec q env c)) ∧ (∀ cs, GExt (execList q env cs)) := by
  have key : ∀ c, GExt (exec q env c) := by
    intro c
    induction c using Code.rec (motive_2 := fun cs => GExt (execList q env cs)) with
    | yieldF => intro k hk w; rw [exec_yieldF]; exact hk w
    | yieldT => intro k hk w; rw [exec_yieldT]; exact hk w
    | ret => intro k _ w; rw [exec_ret]; exact WLe.refl _
    | brk l => intro k _ w; rw [exec_brk]; exact WLe.refl _
    | block l body ih =>
      intro k hk w
      rw [exec_block, catchBrk_fst]
      exact ih k hk w
    | foreach name args body ih =>
      intro k hk w
      rw [exec_foreach]
      exact hq name _ _ (fun w' => ih k hk w') w
    | nil => intro k _ w; rw [execList_nil]; exact WLe.refl _
    | cons c cs ihc ihcs =>
      intro k hk w
      rw [execList_cons]
      exact seq_ext (ihc k hk w) (fun w' => ihcs k hk w')
  refine ⟨key, ?_⟩
  intro cs
  induction cs with
  | nil => intro k _ w; rw [execList_nil]; exact WLe.refl _
  | cons c cs ih =>
    intro k hk w
    rw [execList_cons]
    exact seq_ext (key c k hk w) (fun w' => ih k hk w')

theorem thenSig_ext {w : World} {r : R} (s : Sig) (h : WLe w r.1) : WLe w (thenSig s r).1 := by
  rw [thenSig_fst]; exact h

theorem solve_ext (q : Q) (hq : QExt q) (env : Env) :
    ∀ (b : Body) (d : Nat), GExt (solve q env d b)
  | .tru, d => by intro k hk w; simp only [solve]; exact hk w
  | .fail, d => by intro k _ w; simp only [solve]; exact WLe.refl _
  | .cutif l, d => by intro k hk w; simp only [solve]; exact hk w
  | .cut, d => by intro k hk w; simp only [solve]; exact thenSig_ext _ (hk w)
  | .call name args, d => by intro k hk w; simp only [solve]; exact hq name _ k hk w
  | .conj a b, d => by
    intro k hk w
    simp only [solve]
    exact solve_ext q hq env a d _ (fun w' => solve_ext q hq env b d k hk w') w
  | .disj (.ite c t) e, d => by
    intro k hk w
    simp only [solve]
    exact (solve_ext q hq env c (d+1) _ (fun w' => thenSig_ext _ (solve_ext q hq env t d k hk w')) w).trans
      (iteR_ext (fun w' => solve_ext q hq env e d k hk w') d _)
  | .disj .tru b, d => by
    intro k hk w
    rw [solve_disj_eq q env d .tru b k w (by intro c t h; cases h)]
    exact seq_ext (solve_ext q hq env .tru d k hk w) (fun w' => solve_ext q hq env b d k hk w')
  | .disj .fail b, d => by
    intro k hk w
    rw [solve_disj_eq q env d .fail b k w (by intro c t h; cases h)]
    exact seq_ext (solve_ext q hq env .fail d k hk w) (fun w' => solve_ext q hq env b d k hk w')
  | .disj .cut b, d => by
    intro k hk w
    rw [solve_disj_eq q env d .cut b k w (by intro c t h; cases h)]
    exact seq_ext (solve_ext q hq env .cut d k hk w) (fun w' => solve_ext q hq env b d k hk w')
  | .disj (.cutif l) b, d => by
    intro k hk w
    rw [solve_disj_eq q env d (.cutif l) b k w (by intro c t h; cases h)]
    exact seq_ext (solve_ext q hq env (.cutif l) d k hk w) (fun w' => solve_ext q hq env b d k hk w')
  | .disj (.call nm ar) b, d => by
    intro k hk w
    rw [solve_disj_eq q env d (.call nm ar) b k w (by intro c t h; cases h)]
    exact seq_ext (solve_ext q hq env (.call nm ar) d k hk w) (fun w' => solve_ext q hq env b d k hk w')
  | .disj (.conj a1 a2) b, d => by
    intro k hk w
    rw [solve_disj_eq q env d (.conj a1 a2) b k w (by intro c t h; cases h)]
    exact seq_ext (solve_ext q hq env (.conj a1 a2) d k hk w) (fun w' => solve_ext q hq env b d k hk w')
  | .disj (.disj a1 a2) b, d => by
    intro k hk w
    rw [solve_disj_eq q env d (.disj a1 a2) b k w (by intro c t h; cases h)]
    exact seq_ext (solve_ext q hq env (.disj a1 a2) d k hk w) (fun w' => solve_ext q hq env b d k hk w')
  | .disj (.neg a1) b, d => by
    intro k hk w
    rw [solve_disj_eq q env d (.neg a1) b k w (by intro c t h; cases h)]
    exact seq_ext (solve_ext q hq env (.neg a1) d k hk w) (fun w' => solve_ext q hq env b d k hk w')
  | .ite c t, d => by
    intro k hk w
    simp only [solve]
    exact (solve_ext q hq env c (d+1) _ (fun w' => thenSig_ext _ (solve_ext q hq env t d k hk w')) w).trans
      (iteR_ext (fun w' => WLe.refl _) d _)
  | .neg a, d => by
    intro k hk w
    simp only [solve]
    exact (solve_ext q hq env a (d+1) _ (fun w' => WLe.refl _) w).trans (iteR_ext hk d _)

/-! ### clause activation -/

theorem runClauses_ext {α : Type} (run : α → Gen) (hrun : ∀ c, GExt (run c)) :
    ∀ cs, GExt (runClauses run cs) := by
  intro cs
  induction cs with
  | nil => intro k _ w; simp only [runClauses]; exact WLe.refl _
  | cons c cs ih =>
    intro k hk w
    simp only [runClauses]
    exact seq_ext (hrun c k hk w) (fun w' => ih k hk w')

theorem unifyHead_ext (fuel : Nat) (env : Env) (args : List Term) (g : Gen) (hg : GExt g) :
    ∀ us, GExt (unifyHead fuel env args us g) := by
  intro us
  induction us with
  | nil => simpa [unifyHead] using hg
  | cons u us ih =>
    obtain ⟨i, t⟩ := u
    intro k hk w
    simp only [unifyHead]
    exact unify_ext fuel _ _ _ (fun w' => ih k hk w') w

theorem runClauseCompiled_ext (fuel : Nat) (q : Q) (hq : QExt q) (cc : ClauseCode) (args : List Term) :
    GExt (runClauseCompiled fuel q cc args) := by
  intro k hk w
  unfold runClauseCompiled
  simp only
  refine WLe.of_acc ?_ (unifyHead_ext fuel _ args _ ((exec_ext q hq _).2 _) _ k hk _)
  rw [allocVars_acc, allocVars_acc]

theorem runClauseRef_ext (fuel : Nat) (q : Q) (hq : QExt q) (c : Clause) (args : List Term) :
    GExt (runClauseRef fuel q c args) := by
  intro k hk w
  unfold runClauseRef
  simp only
  refine WLe.of_acc ?_ (unifyHead_ext fuel _ args _ (solve_ext q hq _ _ 0) _ k hk _)
  rw [allocVars_acc]

theorem runClauseRefBody_ext (fuel : Nat) (q : Q) (hq : QExt q) (cc : ClauseCode) (body : Body)
    (args : List Term) : GExt (runClauseRefBody fuel q cc body args) := by
  intro k hk w
  unfold runClauseRefBody
  simp only
  refine WLe.of_acc ?_ (unifyHead_ext fuel _ args _ (solve_ext q hq _ _ 0) _ k hk _)
  rw [allocVars_acc, allocVars_acc]

theorem wrapK_ext {k : K} (hk : KExt k) : KExt (wrapK k) := by
  intro w; rw [wrapK_fst]; exact hk w

theorem onceGen_ext (g : Gen) (hg : GExt g) : GExt (onceGen g) := by
  intro k hk w
  unfold onceGen
  rw [leaveOnce_fst]
  exact hg _ (fun w' => thenSig_ext _ (wrapK_ext hk w')) w

/-! ### the engine -/

def AllExt (cfg : Cfg) (f : Nat) : Prop :=
  (∀ name args, GExt (query cfg f name args)) ∧
  (∀ ds args, GExt (runChain cfg f ds args)) ∧
  (∀ d args, GExt (runDef cfg f d args)) ∧
  (∀ b args, GExt (runBuiltin cfg f b args)) ∧
  (∀ g extra, GExt (callGoal cfg f g extra))

theorem allExt (cfg : Cfg) : ∀ f, AllExt cfg f := by
  intro f
  induction f with
  | zero =>
    refine ⟨?_, ?_, ?_, ?_, ?_⟩ <;> intros <;> intro k _ w
    · rw [query]; exact WLe.refl _
    · rw [runChain]; exact WLe.refl _
    · rw [runDef]; exact WLe.refl _
    · rw [runBuiltin]; exact WLe.refl _
    · rw [callGoal]; exact WLe.refl _
  | succ f ih =>
    obtain ⟨ihQ, ihC, ihD, ihB, ihG⟩ := ih
    refine ⟨?_, ?_, ?_, ?_, ?_⟩
    · -- query
      intro name args k hk w
      rw [query]
      refine seq_ext (matchDynamic_ext f name args k hk w) (fun w' => ?_)
      split
      · exact WLe.refl _
      · split
        · exact WLe.refl _
        · exact ihC _ args k hk w'
    · -- runChain
      intro ds args k hk w
      cases ds with
      | nil => rw [runChain]; exact WLe.refl _
      | cons d ds =>
        rw [runChain]
        exact seq_ext (ihD d args k hk w) (fun w' => ihC ds args k hk w')
    · -- runDef
      intro d args k hk w
      cases d with
      | prolog p mode =>
        simp only [runDef]
        have hq : QExt (query cfg f) := ihQ
        cases mode with
        | compiled =>
          simp only
          rw [leaveFrame_fst]
          exact runClauses_ext _ (fun cc => runClauseCompiled_ext f _ hq cc args) _ _ (wrapK_ext hk) w
        | reference =>
          simp only
          rw [leaveFrame_fst]
          exact runClauses_ext _ (fun c => runClauseRef_ext f _ hq c args) _ _ (wrapK_ext hk) w
        | refbody =>
          simp only
          rw [leaveFrame_fst]
          exact runClauses_ext _ (fun (x : ClauseCode × Clause) => runClauseRefBody_ext f _ hq x.1 x.2.body args) _ _ (wrapK_ext hk) w
      | py p => rw [runDef]; exact runPy_ext f _ args _ _ k hk w
      | builtin b => rw [runDef]; exact ihB b args k hk w
    · -- runBuiltin
      intro b args k hk w
      simp only [runBuiltin]
      split
      · -- "="
        exact unify_ext f _ _ k hk w
      · -- "\\="
        rename_i a b
        have h := ihQ "=" [a, b] (fun w' => (w', some .stop)) (fun w' => WLe.refl _) w
        revert h
        generalize query cfg f "=" [a, b] (fun w' => (w', some Sig.stop)) w = r
        obtain ⟨w1, o⟩ := r
        intro h
        cases o with
        | none => exact h.trans (hk w1)
        | some s => cases s <;> exact h
      · -- call
        exact ihG _ _ k hk w
      · -- once
        exact onceGen_ext _ (ihG _ _) k hk w
      · -- findall
        rename_i tmpl g bag
        have h := ihG g [] _ (findallCollect_ext f tmpl) { w with acc := [] :: w.acc }
        revert h
        generalize callGoal cfg f g [] (findallCollect f tmpl) { w with acc := [] :: w.acc } = r
        obtain ⟨w1, o⟩ := r
        intro h
        have h' : WLe w { w1 with acc := w1.acc.tail } := LevelPre.tail (a := [] :: w.acc) h
        cases o with
        | none => exact h'.trans (unify_ext f _ _ k hk _)
        | some s => exact h'
      · -- assertz
        rename_i t
        cases factNameArgs f w t with
        | error s => exact WLe.refl _
        | ok na =>
          obtain ⟨name, as⟩ := na
          simp only
          have h := assertFact_acc f name as true w
          revert h
          generalize assertFact f name as true w = r
          obtain ⟨w1, o⟩ := r
          intro h
          cases o with
          | none => exact WLe.of_acc h.symm (hk w1)
          | some s => exact WLe.of_eq h.symm
      · -- asserta
        rename_i t
        cases factNameArgs f w t with
        | error s => exact WLe.refl _
        | ok na =>
          obtain ⟨name, as⟩ := na
          simp only
          have h := assertFact_acc f name as false w
          revert h
          generalize assertFact f name as false w = r
          obtain ⟨w1, o⟩ := r
          intro h
          cases o with
          | none => exact WLe.of_acc h.symm (hk w1)
          | some s => exact WLe.of_eq h.symm
      · -- retract
        rename_i t
        cases factNameArgs f w t with
        | error s => exact WLe.refl _
        | ok na =>
          obtain ⟨name, as⟩ := na
          exact retractLoop_ext f name as _ k hk w
      · -- retractall
        rename_i t
        cases factNameArgs f w t with
        | error s => exact WLe.refl _
        | ok na =>
          obtain ⟨name, as⟩ := na
          simp only
          have h := retractAllLoop_ext f as (w.facts name as.length) [] w
          revert h
          generalize retractAllLoop f as (w.facts name as.length) [] w = r
          obtain ⟨w1, (s | keep)⟩ := r
          · intro h; exact h
          · intro h
            exact h.trans (WLe.of_acc (setFacts_acc _ _ _ _).symm (hk _))
      · -- wrong number of arguments
        exact WLe.refl _
    · -- callGoal
      intro g extra k hk w
      rw [callGoal]
      cases walk w.b (f+1) g with
      | none => exact WLe.refl _
      | some a =>
        cases a with
        | var n => exact WLe.refl _
        | atom s => exact ihQ _ _ k hk w
        | int i => exact WLe.refl _
        | fn name as => exact ihQ _ _ k hk w

theorem query_ext (cfg : Cfg) (f : Nat) (name : String) (args : List Term) : GExt (query cfg f name args) :=
  (allExt cfg f).1 name args

end Yld
