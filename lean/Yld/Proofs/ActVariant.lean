import Yld.Model.Engine
import Yld.Proofs.ActBase
namespace Yld

/-- two substitutions with the same effect on a term agree on its variables -/
theorem subst_eq_agree {σ σ' : Nat → Term} (t : Term) (h : t.subst σ = t.subst σ') :
    ∀ x ∈ t.vars, σ x = σ' x := by
  induction t using Term.rec (motive_2 := fun ts => ts.map (Term.subst σ) = ts.map (Term.subst σ') →
      ∀ t ∈ ts, ∀ x ∈ t.vars, σ x = σ' x) with
  | var n =>
    intro x hx
    simp [Term.vars] at hx
    subst hx
    simpa [Term.subst] using h
  | atom s => intro x hx; simp [Term.vars] at hx
  | int i => intro x hx; simp [Term.vars] at hx
  | fn g args ih =>
    intro x hx
    rw [subst_fn, subst_fn] at h
    obtain ⟨a, ha, hxa⟩ := mem_vars_fn.mp hx
    exact ih (by injection h) a ha x hxa
  | nil => rename_i t ht x hx; cases ht
  | cons a as iha ihas =>
    rename_i hm t ht x hx
    simp only [List.map_cons, List.cons.injEq] at hm
    rcases List.mem_cons.mp ht with rfl | ht
    · exact iha hm.1 x hx
    · exact ihas hm.2 t ht x hx

/-- renaming only looks at the variables of the term -/
theorem rename_congr {r r' : Nat → Nat} (t : Term) (h : ∀ x ∈ t.vars, r x = r' x) :
    t.rename r = t.rename r' := by
  rw [rename_eq_subst, rename_eq_subst]
  exact subst_congr t (fun x hx => by rw [h x hx])

theorem rename_rename (r s : Nat → Nat) (t : Term) :
    (t.rename r).rename s = t.rename (fun x => s (r x)) := by
  rw [rename_eq_subst s, subst_rename, rename_eq_subst (fun x => s (r x))]

/-- a substitution instance of a non-variable is a non-variable -/
theorem eq_var_of_subst_eq_var {σ : Nat → Term} {t : Term} {x : Nat} (h : t.subst σ = .var x) :
    ∃ n, t = .var n := by
  cases t with
  | var n => exact ⟨n, rfl⟩
  | atom s => simp [Term.subst] at h
  | int i => simp [Term.subst] at h
  | fn g args => rw [subst_fn] at h; cases h

theorem flatten_vars_map_rename (r : Nat → Nat) (ts : List Term) :
    ((ts.map (Term.rename r)).map Term.vars).flatten = ((ts.map Term.vars).flatten).map r := by
  induction ts with
  | nil => rfl
  | cons a as ih =>
    simp only [List.map_cons, List.flatten_cons, List.map_append]
    rw [ih, vars_rename]

theorem eraseDups_map_of_injOn (r : Nat → Nat) :
    ∀ (n : Nat) (l : List Nat), l.length ≤ n → (∀ x ∈ l, ∀ y ∈ l, r x = r y → x = y) →
      (l.map r).eraseDups = l.eraseDups.map r := by
  intro n
  induction n with
  | zero =>
    intro l hl _
    have : l = [] := List.eq_nil_of_length_eq_zero (by omega)
    subst this; simp
  | succ n ih =>
    intro l hl hinj
    cases l with
    | nil => simp
    | cons a l =>
      rw [List.map_cons, List.eraseDups_cons, List.eraseDups_cons, List.map_cons, List.filter_map]
      have hf : List.filter ((fun b => !b == r a) ∘ r) l = List.filter (fun b => !b == a) l := by
        apply List.filter_congr
        intro x hx
        simp only [Function.comp]
        by_cases hxa : x = a
        · subst hxa; simp
        · have : r x ≠ r a := fun h => hxa (hinj x (by simp [hx]) a (by simp) h)
          rw [beq_eq_false_iff_ne.mpr this, beq_eq_false_iff_ne.mpr hxa]
      rw [hf, ih]
      · have := List.length_filter_le (fun b => !b == a) l
        simp at hl; omega
      · intro x hx y hy
        exact hinj x (List.mem_cons_of_mem _ (List.mem_filter.mp hx).1)
          y (List.mem_cons_of_mem _ (List.mem_filter.mp hy).1)

theorem idxOf_map_of_inj (r : Nat → Nat) (x : Nat) (l : List Nat)
    (h : ∀ y ∈ l, r y = r x → y = x) : List.idxOf (r x) (l.map r) = List.idxOf x l := by
  induction l with
  | nil => simp
  | cons a l ih =>
    rw [List.map_cons, List.idxOf_cons, List.idxOf_cons, ih (fun y hy => h y (List.mem_cons_of_mem _ hy))]
    by_cases hax : a = x
    · subst hax; rw [beq_self_eq_true, beq_self_eq_true]
    · have : r a ≠ r x := fun e => hax (h a (by simp) e)
      rw [beq_eq_false_iff_ne.mpr this, beq_eq_false_iff_ne.mpr hax]

/-- canonical form is invariant under a renaming injective on the variables -/
theorem canonVars_rename (r : Nat → Nat) (ts : List Term)
    (hinj : ∀ x ∈ (ts.map Term.vars).flatten, ∀ y ∈ (ts.map Term.vars).flatten, r x = r y → x = y) :
    canonVars (ts.map (Term.rename r)) = canonVars ts := by
  unfold canonVars
  simp only
  rw [flatten_vars_map_rename, eraseDups_map_of_injOn r _ _ (Nat.le_refl _) hinj, List.length_map,
    List.map_map]
  congr 1
  apply List.map_congr_left
  intro t ht
  simp only [Function.comp]
  rw [rename_rename]
  apply rename_congr
  intro x hx
  have hxV : x ∈ (ts.map Term.vars).flatten :=
    List.mem_flatten.mpr ⟨_, List.mem_map.mpr ⟨t, ht, rfl⟩, hx⟩
  apply idxOf_map_of_inj
  intro y hy
  exact hinj y (List.mem_eraseDups.mp hy) x hxV

/-- Two lists of terms that are instances of each other are variants: they have the same canonical form. -/
theorem canonVars_variant (vs1 vs2 : List Term) (ρ1 ρ2 : Nat → Term)
    (h12 : vs2 = vs1.map (Term.subst ρ1)) (h21 : vs1 = vs2.map (Term.subst ρ2)) :
    canonVars vs1 = canonVars vs2 := by
  have hkey : ∀ t ∈ vs1, ∀ x ∈ t.vars, (ρ1 x).subst ρ2 = .var x := by
    intro t ht x hx
    have h : vs1.map (fun t => (t.subst ρ1).subst ρ2) = vs1.map id := by
      rw [List.map_id]
      conv => rhs; rw [h21, h12]
      rw [List.map_map]; rfl
    have ht' : (t.subst ρ1).subst ρ2 = t := List.map_inj_left.mp h t ht
    rw [subst_subst] at ht'
    conv at ht' => rhs; rw [← subst_var t]
    exact subst_eq_agree t ht' x hx
  let r : Nat → Nat := fun x => match ρ1 x with | .var n => n | _ => 0
  have hr1 : ∀ t ∈ vs1, ∀ x ∈ t.vars, ρ1 x = .var (r x) := by
    intro t ht x hx
    obtain ⟨n, hn⟩ := eq_var_of_subst_eq_var (hkey t ht x hx)
    simp only [r, hn]
  have hr2 : ∀ t ∈ vs1, ∀ x ∈ t.vars, ρ2 (r x) = .var x := by
    intro t ht x hx
    have := hkey t ht x hx
    rw [hr1 t ht x hx] at this
    simpa [Term.subst] using this
  have hvs2 : vs2 = vs1.map (Term.rename r) := by
    rw [h12]
    apply List.map_congr_left
    intro t ht
    rw [rename_eq_subst]
    exact subst_congr t (hr1 t ht)
  rw [hvs2]
  symm
  apply canonVars_rename
  intro x hx y hy hxy
  obtain ⟨l, hl, hxl⟩ := List.mem_flatten.mp hx
  obtain ⟨t, ht, rfl⟩ := List.mem_map.mp hl
  obtain ⟨l', hl', hyl⟩ := List.mem_flatten.mp hy
  obtain ⟨t', ht', rfl⟩ := List.mem_map.mp hl'
  have h1 := hr2 t ht x hxl
  have h2 := hr2 t' ht' y hyl
  rw [hxy, h2] at h1
  injection h1 with h1
  exact h1.symm

/-- The canonical form is closed: its variables are 0 … count-1. -/
theorem canonVars_closed (ts : List Term) :
    ∀ t ∈ (canonVars ts).1, ∀ x ∈ t.vars, x < (canonVars ts).2 := by
  intro t ht x hx
  unfold canonVars at ht ⊢
  simp only at ht ⊢
  obtain ⟨t0, ht0, rfl⟩ := List.mem_map.mp ht
  rw [vars_rename] at hx
  obtain ⟨y, hy, rfl⟩ := List.mem_map.mp hx
  apply List.idxOf_lt_length_iff.mpr
  apply List.mem_eraseDups.mpr
  exact List.mem_flatten.mpr ⟨_, List.mem_map.mpr ⟨t0, ht0, rfl⟩, hy⟩

theorem canonVars_length (ts : List Term) : (canonVars ts).1.length = ts.length := by
  simp [canonVars]

end Yld
