/-
  The model parser accepts every sentence of the grammar (the converse of `Grammar.lean`):
  the recogniser and the grammar of prolog.g4 define the same language of token-kind strings.

  Stage A (`GCForms.lean`): inversion — what each nonterminal derives, in flattened form.
  Stage B (`GCTerm.lean`), Stage C (`GCBody.lean`): the parsers accept the flattened forms, with fuel
  `3 * (length of the whole input) + c`.
  Stage D (here): clauses, programs.
-/
import Yld.Proofs.GCBody
namespace Yld
namespace GC

theorem sp_start {g : List Tok} (h : SP g) : ∃ x g', g = x :: g' ∧ x ≠ .neck := by
  rcases h with rfl | rfl | rfl | ht
  · exact ⟨_, _, rfl, by simp⟩
  · exact ⟨_, _, rfl, by simp⟩
  · exact ⟨_, _, rfl, by simp⟩
  · obtain ⟨x, t', rfl, hx⟩ := term_start ht
    exact ⟨x, t', rfl, by intro h; subst h; cases hx⟩

theorem pcs_fact {f : Nat} {x : Tok} {r rest : List Tok} {st : PS} {g : RGoal} (hn : x ≠ .neck)
    (h : parseGoal f (x :: r) {} = .ok (g, .dot :: rest, st)) :
    parseClauseSyn f (x :: r) = .ok rest := by
  cases x <;> simp_all [parseClauseSyn]

theorem pcs_rule {f : Nat} {x : Tok} {r rest rest2 : List Tok} {st st2 : PS} {g : RGoal} {b : RBody}
    (hn : x ≠ .neck) (h : parseGoal f (x :: r) {} = .ok (g, .neck :: rest, st))
    (h2 : parseBody f 0 rest {} = .ok (b, .dot :: rest2, st2)) :
    parseClauseSyn f (x :: r) = .ok rest2 := by
  cases x <;> simp_all [parseClauseSyn]

theorem pcs_directive {f : Nat} {r rest : List Tok} {st : PS} {g : RGoal}
    (h : parseGoal f r {} = .ok (g, .dot :: rest, st)) :
    parseClauseSyn f (.neck :: r) = .ok rest := by
  simp [parseClauseSyn, h]

/-- One clause in flattened form is consumed by `parseClauseSyn`. -/
theorem clause_complete (f : Nat) (c rem : List Tok) (hc : Clause c)
    (hf : 3 * (c ++ rem).length + 4 ≤ f) : parseClauseSyn f (c ++ rem) = .ok rem := by
  rcases hc with ⟨g, hg, rfl⟩ | ⟨g, b, hg, hb, rfl⟩ | ⟨g, hg, rfl⟩
  · obtain ⟨r, st1, h1⟩ := goal_complete f g (.dot :: rem) {} hg (TF_cons rfl) (by simp at hf ⊢; omega)
    obtain ⟨x, g', rfl, hx⟩ := sp_start hg
    simpa using pcs_fact hx h1
  · obtain ⟨r, st1, h1⟩ := goal_complete f g (.neck :: (b ++ .dot :: rem)) {} hg (TF_cons rfl)
      (by simp at hf ⊢; omega)
    obtain ⟨r2, st2, h2⟩ := parseBody_complete f b (.dot :: rem) {} hb (.inr ⟨_, rfl⟩)
      (by simp at hf ⊢; omega)
    obtain ⟨x, g', rfl, hx⟩ := sp_start hg
    simpa using pcs_rule hx h1 h2
  · obtain ⟨r, st1, h1⟩ := goal_complete f g (.dot :: rem) {} hg (TF_cons rfl) (by simp at hf ⊢; omega)
    simpa using pcs_directive h1

theorem clause_ne_nil {c : List Tok} (hc : Clause c) : ∃ x c', c = x :: c' := by
  rcases hc with ⟨g, hg, rfl⟩ | ⟨g, b, hg, hb, rfl⟩ | ⟨g, hg, rfl⟩
  · obtain ⟨x, g', rfl, -⟩ := sp_start hg; exact ⟨_, _, rfl⟩
  · obtain ⟨x, g', rfl, -⟩ := sp_start hg; exact ⟨_, _, rfl⟩
  · exact ⟨_, _, rfl⟩

theorem prog_complete {toks : List Tok} (h : Prog toks) :
    ∀ f, toks.length + 1 ≤ f → recogniseToks f toks = true := by
  induction h with
  | nil =>
    intro f hf
    cases f with
    | zero => omega
    | succ f => simp [recogniseToks]
  | cons c r hc _ ih =>
    intro f hf
    cases f with
    | zero => omega
    | succ f =>
      have hcl := clause_complete (4 * (c ++ r).length + 16) c r hc (by omega)
      obtain ⟨x, c', rfl⟩ := clause_ne_nil hc
      simp only [List.cons_append] at hcl ⊢
      simp only [recogniseToks, hcl]
      exact ih f (by simp at hf; omega)

end GC

/-- Every token list whose kinds derive from `program` is accepted by the recogniser (with the fuel
    `recognise` gives it). -/
theorem recogniseToks_complete (toks : List Tok)
    (h : Derives Generated.grammar (false, "program") (kinds toks)) :
    recogniseToks (toks.length + 1) toks = true :=
  GC.prog_complete (GC.prog_of_derives h) _ (Nat.le_refl _)

/-- The recogniser decides the language of the grammar. -/
theorem recogniseToks_iff (toks : List Tok) :
    recogniseToks (toks.length + 1) toks = true ↔ Derives Generated.grammar (false, "program") (kinds toks) :=
  ⟨recogniseToks_sound _ toks, recogniseToks_complete toks⟩

end Yld
