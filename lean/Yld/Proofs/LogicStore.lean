/-
  The fact store and the logical reading (C07, C13): what assert and retractall do to `HoldsF`.

  `HoldsF db preds` (Yld.Proofs.LogicFacts) reads the stored facts as unit clauses. The database
  operations change that reading in exactly the expected way:
  * the reading is monotone in the store: more facts, more consequences;
  * after `assertFact` the store is closed again, every instance of the asserted term (as it was resolved
    at the moment of the assertion) is a consequence, and everything that followed before still follows;
  * replacing the facts of one predicate by a sublist (what `retract` and `retractall` do) can only remove
    consequences.

  STATEMENTS IN THIS FILE ARE FIXED (see the task description); proofs to be supplied.
-/
import Yld.Proofs.LogicFacts
import Yld.Proofs.LgStore
namespace Yld

/-- store `db'` has every fact of store `db` (under the same name and arity) -/
def DbLe (db db' : List ((String × Nat) × List Fact)) : Prop :=
  ∀ name arity, ∀ c ∈ dbFacts db name arity, c ∈ dbFacts db' name arity

/-- **More facts, more consequences.** -/
theorem holdsF_mono (preds : List Pred) (db db' : List ((String × Nat) × List Fact)) (hle : DbLe db db')
    (name : String) (args : List Term) (h : HoldsF db preds name args) : HoldsF db' preds name args := by
  refine HoldsF.rec (motive_1 := fun name args _ => HoldsF db' preds name args)
    (motive_2 := fun σ b _ => BHoldsF db' preds σ b) ?_ ?_ ?_ ?_ ?_ ?_ ?_ ?_ ?_ h
  · intro a; exact .eq a
  · intro name c τ hc; exact .fact name c τ (hle name _ c hc)
  · intro p c σ hp hc _ hb; exact .clause p c σ hp hc hb
  · intro σ; exact .tru σ
  · intro σ; exact .cut σ
  · intro σ name args _ hh; exact .call σ name args hh
  · intro σ a b _ _ ha hb; exact .conj σ a b ha hb
  · intro σ a b _ ha; exact .disjL σ a b ha
  · intro σ a b _ hb; exact .disjR σ a b hb

/-- **assert adds its fact to the consequences, and nothing is lost.** `vs` are the asserted arguments
    as resolved at the moment of the assertion; the stored fact is their canonical form, so every instance
    of it (τ instantiates the variables the resolved arguments left open, numbered by first occurrence)
    follows afterwards. The store stays closed. -/
theorem assert_adds_a_consequence (preds : List Pred) (f : Nat) (name : String) (values vs : List Term) (app : Bool)
    (w : World) (hcl : DbClosed w.db) (hres : values.mapM (resolve w.b f) = some vs) :
    (assertFact f name values app w).2 = none ∧
    DbClosed (assertFact f name values app w).1.db ∧
    DbLe w.db (assertFact f name values app w).1.db ∧
    (assertFact f name values app w).1.b = w.b ∧
    ∀ τ : Nat → Term, HoldsF (assertFact f name values app w).1.db preds name ((canonVars vs).1.map (Term.subst τ)) := by
  have hwge := assertFact_wge f name values app w
  have hb := assertFact_b f name values app w
  rw [assertFact_eq f name values vs app w hres] at hwge hb ⊢
  refine ⟨rfl, hwge.2 hcl, ?_, hb, ?_⟩
  · intro n a c hc
    show c ∈ dbFacts (w.setFacts name values.length _).db n a
    rw [dbFacts_setFacts]
    split
    · rename_i e
      cases e
      rw [dbFacts_eq_facts] at hc
      cases app
      · simp only [Bool.false_eq_true, if_false]; exact List.mem_cons_of_mem _ hc
      · simp only [if_true]; exact List.mem_append_left _ hc
    · exact hc
  · intro τ
    have hlen : (canonVars vs).1.length = values.length := by
      rw [canonVars_length, mapM_opt_length _ _ hres]
    refine HoldsF.fact name { id := w.stamp, nvars := (canonVars vs).2, args := (canonVars vs).1 } τ ?_
    show _ ∈ dbFacts (w.setFacts name values.length _).db name (canonVars vs).1.length
    rw [hlen, dbFacts_setFacts, if_pos rfl]
    cases app
    · simp only [Bool.false_eq_true, if_false]; exact List.mem_cons_self
    · simp only [if_true]; exact List.mem_append_right _ (List.mem_singleton.mpr rfl)

/-- **Keeping a sublist of a predicate's facts can only remove consequences** (`retract`, `retractall`). -/
theorem setFacts_sublist_removes_only (preds : List Pred) (w : World) (name : String) (arity : Nat) (keep : List Fact)
    (hsub : ∀ c ∈ keep, c ∈ w.facts name arity) :
    DbLe (w.setFacts name arity keep).db w.db ∧
    ∀ n a, HoldsF (w.setFacts name arity keep).db preds n a → HoldsF w.db preds n a := by
  have hle : DbLe (w.setFacts name arity keep).db w.db := by
    intro n a c hc
    rw [dbFacts_setFacts] at hc
    split at hc
    · rename_i e
      cases e
      exact hsub c hc
    · exact hc
  exact ⟨hle, fun n a h => holdsF_mono preds _ _ hle n a h⟩

#print axioms holdsF_mono
#print axioms assert_adds_a_consequence
#print axioms setFacts_sublist_removes_only

end Yld
