/-
  One clause: bodies under the reference semantics with corresponding environments (`solve_sim`),
  and the two activations of the same clause (`clause_sim`).
-/
import Yld.Proofs.ActPrim
import Yld.Proofs.PyFunction
set_option linter.unusedSimpArgs false
set_option linter.unusedVariables false
set_option linter.unusedSectionVars false
namespace Yld

/-- a relation-respecting pair of meanings of calls -/
def QSim (P : Sig → Prop) (q1 q2 : Q) : Prop :=
  ∀ (name : String) (S : Cpl) (ds : List (Nat × Nat)) (args1 args2 : List Term) (K1 K2 : K) (w1 w2 : World),
    Forall₂ (TRel S) args1 args2 → WRel S ds w1 w2 → KSim P S ds K1 K2 → CycMono K1 → CycMono K2 →
    RSim P ds w1 w2 (q1 name args1 K1 w1) (q2 name args2 K2 w2)

def EnvRel (S : Cpl) (vars : List String) (env1 env2 : Env) : Prop := ∀ v ∈ vars, TRel S (env1.get v) (env2.get v)

theorem EnvRel.mono {S : Cpl} {vs vs' : List String} {e1 e2 : Env} (h : EnvRel S vs e1 e2) (hs : ∀ v ∈ vs', v ∈ vs) :
    EnvRel S vs' e1 e2 := fun v hv => h v (hs v hv)
theorem EnvRel.sub {S S' : Cpl} {vs : List String} {e1 e2 : Env} (h : EnvRel S vs e1 e2) (hs : Sub S' S) :
    EnvRel S' vs e1 e2 := fun v hv => (h v hv).sub hs

theorem eval_trel {S : Cpl} {env1 env2 : Env} (t : STerm) (h : EnvRel S t.vars env1 env2) :
    TRel S (t.eval env1) (t.eval env2) := by
  induction t using STerm.rec (motive_2 := fun ts => (∀ t ∈ ts, EnvRel S t.vars env1 env2) →
      Forall₂ (TRel S) (ts.map (STerm.eval env1)) (ts.map (STerm.eval env2))) with
  | var n => simp only [STerm.eval]; exact h n (by simp [STerm.vars])
  | atom s => simp only [STerm.eval]; exact TRel.atom S s
  | num n => simp only [STerm.eval]; exact TRel.int S _
  | fn f args ih =>
    rw [eval_fn', eval_fn']
    refine TRel.fn f (ih ?_)
    intro t ht v hv; apply h; rw [vars_fn']; exact List.mem_flatten.mpr ⟨_, List.mem_map.mpr ⟨t, ht, rfl⟩, hv⟩
  | numfn f args ih =>
    rw [eval_numfn', eval_numfn']
    refine TRel.fn f (ih ?_)
    intro t ht v hv; apply h; rw [vars_numfn']; exact List.mem_flatten.mpr ⟨_, List.mem_map.mpr ⟨t, ht, rfl⟩, hv⟩
  | list items ih =>
    rw [eval_list', eval_list']
    refine TRel.mkList (ih ?_)
    intro t ht v hv; apply h; rw [vars_list']; exact List.mem_flatten.mpr ⟨_, List.mem_map.mpr ⟨t, ht, rfl⟩, hv⟩
  | lpair a b iha ihb =>
    simp only [STerm.eval]
    exact TRel.fn "." (.cons (iha (fun v hv => h v (by simp [STerm.vars, hv])))
      (.cons (ihb (fun v hv => h v (by simp [STerm.vars, hv]))) .nil))
  | nil => exact .nil
  | cons a as iha ihas =>
    rename_i hall
    simp only [List.map_cons]
    exact .cons (iha (hall a (by simp))) (ihas (fun t ht => hall t (by simp [ht])))

theorem evalArgs_trel {S : Cpl} {env1 env2 : Env} (args : List STerm)
    (h : EnvRel S (args.map STerm.vars).flatten env1 env2) :
    Forall₂ (TRel S) (args.map (STerm.eval env1)) (args.map (STerm.eval env2)) := by
  induction args with
  | nil => exact .nil
  | cons a as ih =>
    simp only [List.map_cons]
    exact .cons (eval_trel a (h.mono (by intro v hv; simp [hv])))
      (ih (h.mono (by intro v hv; simp only [List.map_cons, List.flatten_cons, List.mem_append]; exact Or.inr hv)))

/-! ### bodies -/

def SolveSim (P : Sig → Prop) (q1 q2 : Q) (env1 env2 : Env) (b : Body) : Prop :=
  ∀ (d : Nat) (S : Cpl) (ds : List (Nat × Nat)), EnvRel S b.vars env1 env2 →
    ∀ K1 K2, KSim P S ds K1 K2 → CycMono K1 → CycMono K2 →
    ∀ w1 w2, WRel S ds w1 w2 → RSim P ds w1 w2 (solve q1 env1 d b K1 w1) (solve q2 env2 d b K2 w2)

section
variable {P : Sig → Prop} (hP : OofLike P) {q1 q2 : Q} (hq : QSim P q1 q2) (hc1 : QCyc q1) (hc2 : QCyc q2)
  {env1 env2 : Env}
include hP hq hc1 hc2

theorem solveSim_disj_plain {a b : Body} (hne : ∀ c t, a ≠ .ite c t)
    (iha : SolveSim P q1 q2 env1 env2 a) (ihb : SolveSim P q1 q2 env1 env2 b) :
    SolveSim P q1 q2 env1 env2 (.disj a b) := by
  intro d S ds he K1 K2 hK c1 c2 w1 w2 hw
  rw [solve_disj_eq q1 env1 d a b K1 w1 hne, solve_disj_eq q2 env2 d a b K2 w2 hne]
  have hea : EnvRel S a.vars env1 env2 := he.mono (by intro v hv; simp [Body.vars, hv])
  have heb : EnvRel S b.vars env1 env2 := he.mono (by intro v hv; simp [Body.vars, hv])
  exact sim_andThen hw (iha d S ds hea K1 K2 hK c1 c2 w1 w2 hw)
    (fun v1 v2 hv => ihb d S ds heb K1 K2 hK c1 c2 v1 v2 hv)
    (solve_cycGen q1 hc1 env1 b d K1 c1) (solve_cycGen q2 hc2 env2 b d K2 c2)

theorem cycMono_thenSolve (q : Q) (hc : QCyc q) (env : Env) (s : Sig) (t : Body) (d : Nat) (k : K) (c : CycMono k) :
    CycMono (fun w' => thenSig s (solve q env d t k w')) := by
  intro w h
  simp only
  rw [thenSig_world]
  exact solve_cycGen q hc env t d k c w h

theorem solve_sim : ∀ (b : Body), SolveSim P q1 q2 env1 env2 b
  | .tru => by intro d S ds he K1 K2 hK c1 c2 w1 w2 hw; simp only [solve]; exact hK S (Sub.refl S) w1 w2 hw
  | .fail => by intro d S ds he K1 K2 hK c1 c2 w1 w2 hw; simp only [solve]; exact RSim.same hw none
  | .cutif l => by intro d S ds he K1 K2 hK c1 c2 w1 w2 hw; simp only [solve]; exact hK S (Sub.refl S) w1 w2 hw
  | .cut => by
    intro d S ds he K1 K2 hK c1 c2 w1 w2 hw; simp only [solve]
    exact sim_thenSig .ret (hK S (Sub.refl S) w1 w2 hw)
  | .call name args => by
    intro d S ds he K1 K2 hK c1 c2 w1 w2 hw; simp only [solve]
    exact hq name S ds _ _ K1 K2 w1 w2 (evalArgs_trel args he) hw hK c1 c2
  | .conj a b => by
    intro d S ds he K1 K2 hK c1 c2 w1 w2 hw
    simp only [solve]
    have hea : EnvRel S a.vars env1 env2 := he.mono (by intro v hv; simp [Body.vars, hv])
    have heb : EnvRel S b.vars env1 env2 := he.mono (by intro v hv; simp [Body.vars, hv])
    refine solve_sim a d S ds hea _ _ ?_ (solve_cycGen q1 hc1 env1 b d K1 c1) (solve_cycGen q2 hc2 env2 b d K2 c2) w1 w2 hw
    intro S' hs v1 v2 hv
    exact solve_sim b d S' ds (heb.sub hs) K1 K2 (hK.sub hs) c1 c2 v1 v2 hv
  | .disj (.ite c t) e => by
    intro d S ds he K1 K2 hK c1 c2 w1 w2 hw
    simp only [solve]
    have hec : EnvRel S c.vars env1 env2 := he.mono (by intro v hv; simp [Body.vars, hv])
    have het : EnvRel S t.vars env1 env2 := he.mono (by intro v hv; simp [Body.vars, hv])
    have hee : EnvRel S e.vars env1 env2 := he.mono (by intro v hv; simp [Body.vars, hv])
    refine sim_iteR hP d hw ?_ (fun v1 v2 hv => solve_sim e d S ds hee K1 K2 hK c1 c2 v1 v2 hv)
      (solve_cycGen q1 hc1 env1 e d K1 c1) (solve_cycGen q2 hc2 env2 e d K2 c2)
    refine solve_sim c (d+1) S ds hec _ _ ?_ (cycMono_thenSolve hP hq hc1 hc2 q1 hc1 env1 _ t d K1 c1)
      (cycMono_thenSolve hP hq hc1 hc2 q2 hc2 env2 _ t d K2 c2) w1 w2 hw
    intro S' hs v1 v2 hv
    exact sim_thenSig _ (solve_sim t d S' ds (het.sub hs) K1 K2 (hK.sub hs) c1 c2 v1 v2 hv)
  | .disj .tru b => solveSim_disj_plain hP hq hc1 hc2 (by intro c t h; cases h) (solve_sim .tru) (solve_sim b)
  | .disj .fail b => solveSim_disj_plain hP hq hc1 hc2 (by intro c t h; cases h) (solve_sim .fail) (solve_sim b)
  | .disj .cut b => solveSim_disj_plain hP hq hc1 hc2 (by intro c t h; cases h) (solve_sim .cut) (solve_sim b)
  | .disj (.cutif l) b => solveSim_disj_plain hP hq hc1 hc2 (by intro c t h; cases h) (solve_sim (.cutif l)) (solve_sim b)
  | .disj (.call nm ar) b => solveSim_disj_plain hP hq hc1 hc2 (by intro c t h; cases h) (solve_sim (.call nm ar)) (solve_sim b)
  | .disj (.conj a1 a2) b => solveSim_disj_plain hP hq hc1 hc2 (by intro c t h; cases h) (solve_sim (.conj a1 a2)) (solve_sim b)
  | .disj (.disj a1 a2) b => solveSim_disj_plain hP hq hc1 hc2 (by intro c t h; cases h) (solve_sim (.disj a1 a2)) (solve_sim b)
  | .disj (.neg a1) b => solveSim_disj_plain hP hq hc1 hc2 (by intro c t h; cases h) (solve_sim (.neg a1)) (solve_sim b)
  | .ite c t => by
    intro d S ds he K1 K2 hK c1 c2 w1 w2 hw
    simp only [solve]
    have hec : EnvRel S c.vars env1 env2 := he.mono (by intro v hv; simp [Body.vars, hv])
    have het : EnvRel S t.vars env1 env2 := he.mono (by intro v hv; simp [Body.vars, hv])
    refine sim_iteR hP d hw ?_ (fun v1 v2 hv => RSim.same hv none) (fun w h => h) (fun w h => h)
    refine solve_sim c (d+1) S ds hec _ _ ?_ (cycMono_thenSolve hP hq hc1 hc2 q1 hc1 env1 _ t d K1 c1)
      (cycMono_thenSolve hP hq hc1 hc2 q2 hc2 env2 _ t d K2 c2) w1 w2 hw
    intro S' hs v1 v2 hv
    exact sim_thenSig _ (solve_sim t d S' ds (het.sub hs) K1 K2 (hK.sub hs) c1 c2 v1 v2 hv)
  | .neg a => by
    intro d S ds he K1 K2 hK c1 c2 w1 w2 hw
    simp only [solve]
    have hea : EnvRel S a.vars env1 env2 := he.mono (by intro v hv; simp [Body.vars, hv])
    refine sim_iteR hP d hw ?_ (fun v1 v2 hv => hK S (Sub.refl S) v1 v2 hv) c1 c2
    exact solve_sim a (d+1) S ds hea _ _ (fun S' hs v1 v2 hv => RSim.same hv _) (fun w h => h) (fun w h => h) w1 w2 hw

end

/-! ### head unification -/

/-- the head unifications alone -/
def headGen (fuel : Nat) (env : Env) (args : List Term) (eqs : List (Nat × STerm)) : Gen :=
  unifyHead fuel env args eqs (fun k w => k w)

theorem unifyHead_eq (fuel : Nat) (env : Env) (args : List Term) (g : Gen) :
    ∀ (eqs : List (Nat × STerm)) (k : K) (w : World),
      unifyHead fuel env args eqs g k w = headGen fuel env args eqs (g k) w := by
  intro eqs
  induction eqs with
  | nil => intro k w; rfl
  | cons p rest ih =>
    obtain ⟨i, t⟩ := p
    intro k w
    simp only [headGen, unifyHead]
    congr 1
    funext w'
    exact ih k w'

def noArg' : Term := .atom "$noarg"

/-- the equations the head unifications impose -/
def HeadEqs (env : Env) (args : List Term) (eqs : List (Nat × STerm)) (θ : Val) : Prop :=
  ∀ p ∈ eqs, (args.getD p.1 (.atom "$noarg")).subst θ = (p.2.eval env).subst θ

theorem headGen_ushape (fuel : Nat) (env : Env) (args : List Term) :
    ∀ (eqs : List (Nat × STerm)) (w : World), UShape (HeadEqs env args eqs) (headGen fuel env args eqs) w := by
  intro eqs
  induction eqs with
  | nil => intro w; exact ushape_yield w (fun k => rfl) (fun θ _ p hp => by cases hp)
  | cons p rest ih =>
    obtain ⟨i, t⟩ := p
    intro w
    have s := ushape_seq (unify_ushape fuel (args.getD i (.atom "$noarg")) (t.eval env) w) (fun pre => ih pre)
    refine ushape_congr ?_ (ushape_of_fun (fun k => by simp only [headGen, unifyHead]) s)
    intro θ _
    unfold HeadEqs
    simp only [List.forall_mem_cons]

theorem eval_subst_eq (t : STerm) (e1 e2 : Env) (θ1 θ2 : Val)
    (h : ∀ v ∈ t.vars, (e1.get v).subst θ1 = (e2.get v).subst θ2) : (t.eval e1).subst θ1 = (t.eval e2).subst θ2 :=
  eval_trel (S := fun a b => a = θ1 ∧ b = θ2) t
    (fun v hv a b hab => by obtain ⟨ha, hb⟩ := hab; subst ha; subst hb; exact h v hv) θ1 θ2 ⟨rfl, rfl⟩

/-- the coupling after the head unifications: corresponding clause variables have the same value -/
def actCpl (S : Cpl) (env1 env2 : Env) (args1 args2 : List Term) (eqs1 eqs2 : List (Nat × STerm))
    (vars : List String) : Cpl := fun θ1 θ2 =>
  S θ1 θ2 ∧ HeadEqs env1 args1 eqs1 θ1 ∧ HeadEqs env2 args2 eqs2 θ2 ∧
    ∀ V ∈ vars, (env1.get V).subst θ1 = (env2.get V).subst θ2

/-- what the two prologues have set up, abstractly: side 1 has a new cell `c1 V` for every clause
    variable; side 2 has the call's argument for an aliased variable (`al V = some i`) and a new
    cell `c2 V` for the others; side 2 unifies the head arguments that are not aliased. -/
structure Prologue (n1 n2 n1' n2' : Nat) (env1 env2 : Env) (args2 : List Term) (eqs1 eqs2 : List (Nat × STerm))
    (vars : List String) (al : String → Option Nat) (c1 c2 : String → Nat) : Prop where
  sub21 : ∀ p ∈ eqs2, p ∈ eqs1
  split : ∀ p ∈ eqs1, p ∈ eqs2 ∨ ∃ V, p.2 = .var V ∧ al V = some p.1
  alias : ∀ V i, V ∈ vars → al V = some i → (i, STerm.var V) ∈ eqs1
  eqvars : ∀ p ∈ eqs1, ∀ v ∈ p.2.vars, v ∈ vars
  e1 : ∀ V ∈ vars, env1.get V = .var (c1 V) ∧ n1 ≤ c1 V ∧ c1 V < n1'
  inj1 : ∀ V ∈ vars, ∀ V' ∈ vars, c1 V = c1 V' → V = V'
  e2a : ∀ V ∈ vars, ∀ i, al V = some i → env2.get V = args2.getD i (.atom "$noarg")
  e2b : ∀ V ∈ vars, al V = none → env2.get V = .var (c2 V) ∧ n2 ≤ c2 V ∧ c2 V < n2'
  inj2 : ∀ V ∈ vars, ∀ V' ∈ vars, al V = none → al V' = none → c2 V = c2 V' → V = V'

theorem head_sim {P : Sig → Prop} (hP : OofLike P) {S : Cpl} {ds : List (Nat × Nat)} {w1 w2 : World}
    (hw : WRel S ds w1 w2) {n1 n2 : Nat} (hsupp0 : Supp S n1 n2)
    {args1 args2 : List Term} (ha : Forall₂ (TRel S) args1 args2) {env1 env2 : Env}
    {eqs1 eqs2 : List (Nat × STerm)} {vars : List String} {al : String → Option Nat} {c1 c2 : String → Nat}
    (pr : Prologue n1 n2 w1.next w2.next env1 env2 args2 eqs1 eqs2 vars al c1 c2)
    (f1 f2 : Nat) {K1 K2 : K} (hK : KSim P (actCpl S env1 env2 args1 args2 eqs1 eqs2 vars) ds K1 K2)
    (cm1 : CycMono K1) (cm2 : CycMono K2) :
    RSim P ds w1 w2 (headGen f1 env1 args1 eqs1 K1 w1) (headGen f2 env2 args2 eqs2 K2 w2) := by
  have harg : ∀ i, TRel S (args1.getD i (.atom "$noarg")) (args2.getD i (.atom "$noarg")) :=
    fun i => ha.getD (TRel.atom S _) i
  have henv1 : ∀ V ∈ vars, ∀ θ : Val, (env1.get V).subst θ = θ (c1 V) := by
    intro V hV θ; rw [(pr.e1 V hV).1]; simp [Term.subst]
  have henv2 : ∀ V ∈ vars, al V = none → ∀ θ : Val, (env2.get V).subst θ = θ (c2 V) := by
    intro V hV hal θ; rw [(pr.e2b V hV hal).1]; simp [Term.subst]
  refine sim_shapes hP (S' := actCpl S env1 env2 args1 args2 eqs1 eqs2 vars) hw
    (headGen_ushape f1 env1 args1 eqs1 w1) (headGen_ushape f2 env2 args2 eqs2 w2)
    (fun θ1 θ2 h => ⟨h.1, h.2.1, h.2.2.1⟩) ?_ ?_ ?_ hK cm1 cm2
  · -- every solution of side 1 has a partner
    intro θ1 hθ1 hu1
    obtain ⟨θ2, hs⟩ := hw.core.tot1 θ1 hθ1
    let θ2' : Val := fun x =>
      if h : ∃ V, V ∈ vars ∧ al V = none ∧ c2 V = x then θ1 (c1 (Classical.choose h)) else θ2 x
    have hagree : ∀ x, x < n2 → θ2' x = θ2 x := by
      intro x hx
      have : ¬ ∃ V, V ∈ vars ∧ al V = none ∧ c2 V = x := by
        rintro ⟨V, hV, hal, e⟩
        have := (pr.e2b V hV hal).2.1
        omega
      simp only [θ2', this, dif_neg, not_false_eq_true]
    have hval : ∀ V ∈ vars, al V = none → θ2' (c2 V) = θ1 (c1 V) := by
      intro V hV hal
      have hex : ∃ V', V' ∈ vars ∧ al V' = none ∧ c2 V' = c2 V := ⟨V, hV, hal, rfl⟩
      simp only [θ2', hex, dif_pos]
      obtain ⟨h1, h2, h3⟩ := Classical.choose_spec hex
      rw [pr.inj2 _ h1 V hV h2 hal h3]
    have hs' : S θ1 θ2' := hsupp0 θ1 θ2 θ1 θ2' hs (fun _ _ => rfl) hagree
    have henv : ∀ V ∈ vars, (env1.get V).subst θ1 = (env2.get V).subst θ2' := by
      intro V hV
      cases hal : al V with
      | none => rw [henv1 V hV, henv2 V hV hal, hval V hV hal]
      | some i =>
        rw [pr.e2a V hV i hal, ← harg i θ1 θ2' hs']
        have := hu1 (i, .var V) (pr.alias V i hV hal)
        simp only [STerm.eval] at this
        exact this.symm
    refine ⟨θ2', hs', hu1, ?_, henv⟩
    intro p hp
    have hp1 := pr.sub21 p hp
    rw [← harg p.1 θ1 θ2' hs', hu1 p hp1]
    exact eval_subst_eq p.2 env1 env2 θ1 θ2' (fun v hv => henv v (pr.eqvars p hp1 v hv))
  · -- every solution of side 2 has a partner
    intro θ2 hθ2 hu2
    obtain ⟨θ1, hs⟩ := hw.core.tot2 θ2 hθ2
    let θ1' : Val := fun x =>
      if h : ∃ V, V ∈ vars ∧ c1 V = x then (env2.get (Classical.choose h)).subst θ2 else θ1 x
    have hagree : ∀ x, x < n1 → θ1' x = θ1 x := by
      intro x hx
      have : ¬ ∃ V, V ∈ vars ∧ c1 V = x := by
        rintro ⟨V, hV, e⟩
        have := (pr.e1 V hV).2.1
        omega
      simp only [θ1', this, dif_neg, not_false_eq_true]
    have hval : ∀ V ∈ vars, θ1' (c1 V) = (env2.get V).subst θ2 := by
      intro V hV
      have hex : ∃ V', V' ∈ vars ∧ c1 V' = c1 V := ⟨V, hV, rfl⟩
      simp only [θ1', hex, dif_pos]
      obtain ⟨h1, h3⟩ := Classical.choose_spec hex
      rw [pr.inj1 _ h1 V hV h3]
    have hs' : S θ1' θ2 := hsupp0 θ1 θ2 θ1' θ2 hs hagree (fun _ _ => rfl)
    have henv : ∀ V ∈ vars, (env1.get V).subst θ1' = (env2.get V).subst θ2 := by
      intro V hV; rw [henv1 V hV, hval V hV]
    refine ⟨θ1', hs', ?_, hu2, henv⟩
    intro p hp
    rw [harg p.1 θ1' θ2 hs']
    rcases pr.split p hp with hp2 | ⟨V, hpv, hal⟩
    · rw [hu2 p hp2]
      exact (eval_subst_eq p.2 env1 env2 θ1' θ2 (fun v hv => henv v (pr.eqvars p hp v hv))).symm
    · have hV : V ∈ vars := pr.eqvars p hp V (by rw [hpv]; simp [STerm.vars])
      rw [hpv]
      simp only [STerm.eval]
      rw [henv V hV, pr.e2a V hV p.1 hal]
  · -- the coupling looks at the cells allocated so far only
    intro θ1 θ2 θ1' θ2' ⟨hs, hu1, hu2, henv⟩ a1 a2
    have hs' : S θ1' θ2' := hw.core.supp θ1 θ2 θ1' θ2' hs a1 a2
    have st1 : ∀ V ∈ vars, (env1.get V).subst θ1' = (env1.get V).subst θ1 := by
      intro V hV; rw [henv1 V hV, henv1 V hV]; exact a1 _ (pr.e1 V hV).2.2
    have st2 : ∀ V ∈ vars, (env2.get V).subst θ2' = (env2.get V).subst θ2 := by
      intro V hV
      cases hal : al V with
      | none => rw [henv2 V hV hal, henv2 V hV hal]; exact a2 _ (pr.e2b V hV hal).2.2
      | some i => rw [pr.e2a V hV i hal]; exact (harg i).stable2 hw.core.supp hs a2
    refine ⟨hs', ?_, ?_, ?_⟩
    · intro p hp
      rw [(harg p.1).stable1 hw.core.supp hs a1, hu1 p hp]
      exact (eval_subst_eq p.2 env1 env1 θ1' θ1 (fun v hv => st1 v (pr.eqvars p hp v hv))).symm
    · intro p hp
      rw [(harg p.1).stable2 hw.core.supp hs a2, hu2 p hp]
      exact (eval_subst_eq p.2 env2 env2 θ2' θ2 (fun v hv => st2 v (pr.eqvars p (pr.sub21 p hp) v hv))).symm
    · intro V hV
      rw [st1 V hV, st2 V hV]; exact henv V hV

end Yld
