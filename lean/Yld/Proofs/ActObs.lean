/-
  What related worlds let one observe: corresponding terms dereference to the same kind of term
  (`head_rel`), and their fully resolved forms are variants of each other (`resolve_variants`).
-/
import Yld.Proofs.ActSim
set_option linter.unusedSimpArgs false
set_option linter.unusedVariables false
namespace Yld

theorem WRel.pair {S : Cpl} {ds : List (Nat × Nat)} {w1 w2 : World} (hw : WRel S ds w1 w2) : ∃ θ1 θ2, S θ1 θ2 := by
  obtain ⟨θ1, hθ1⟩ := solvable_nonempty hw.solv1
  obtain ⟨θ2, hs⟩ := hw.core.tot1 θ1 hθ1
  exact ⟨θ1, θ2, hs⟩

theorem WRel.pair_root1 {S : Cpl} {ds : List (Nat × Nat)} {w1 w2 : World} (hw : WRel S ds w1 w2) {x : Nat}
    (hx : w1.b x = none) (v : Term) : ∃ θ1 θ2, S θ1 θ2 ∧ θ1 x = v := by
  obtain ⟨θ1, hθ1, hr⟩ := hw.solv1 (fun _ => v)
  obtain ⟨θ2, hs⟩ := hw.core.tot1 θ1 hθ1
  exact ⟨θ1, θ2, hs, hr x hx⟩

theorem WRel.pair_root2 {S : Cpl} {ds : List (Nat × Nat)} {w1 w2 : World} (hw : WRel S ds w1 w2) {x : Nat}
    (hx : w2.b x = none) (v : Term) : ∃ θ1 θ2, S θ1 θ2 ∧ θ2 x = v := by
  obtain ⟨θ2, hθ2, hr⟩ := hw.solv2 (fun _ => v)
  obtain ⟨θ1, hs⟩ := hw.core.tot2 θ2 hθ2
  exact ⟨θ1, θ2, hs, hr x hx⟩

theorem trelL_of_map_eq {S : Cpl} : ∀ (l1 l2 : List Term), l1.length = l2.length →
    (∀ θ1 θ2, S θ1 θ2 → l1.map (Term.subst θ1) = l2.map (Term.subst θ2)) → Forall₂ (TRel S) l1 l2 := by
  intro l1
  induction l1 with
  | nil => intro l2 hl _; cases l2 with | nil => exact .nil | cons _ _ => simp at hl
  | cons a as ih =>
    intro l2 hl h
    cases l2 with
    | nil => simp at hl
    | cons b bs =>
      refine .cons (fun θ1 θ2 hs => ?_) (ih bs (by simpa using hl) (fun θ1 θ2 hs => ?_))
      · have := h θ1 θ2 hs; simp only [List.map_cons, List.cons.injEq] at this; exact this.1
      · have := h θ1 θ2 hs; simp only [List.map_cons, List.cons.injEq] at this; exact this.2

/-- what corresponding dereferenced terms look like -/
inductive HeadRel (S : Cpl) : Term → Term → Prop
  | var (x y : Nat) : HeadRel S (.var x) (.var y)
  | atom (s : String) : HeadRel S (.atom s) (.atom s)
  | int (i : Int) : HeadRel S (.int i) (.int i)
  | fn (g : String) (as1 as2 : List Term) : Forall₂ (TRel S) as1 as2 → HeadRel S (.fn g as1) (.fn g as2)

theorem walk_trel {S : Cpl} {ds : List (Nat × Nat)} {w1 w2 : World} (hw : WRel S ds w1 w2) {t1 t2 a1 a2 : Term}
    (ht : TRel S t1 t2) {f1 f2 : Nat} (h1 : walk w1.b f1 t1 = some a1) (h2 : walk w2.b f2 t2 = some a2) :
    TRel S a1 a2 := by
  intro θ1 θ2 hs
  rw [← walk_subst (hw.core.sol1 _ _ hs) _ _ _ h1, ← walk_subst (hw.core.sol2 _ _ hs) _ _ _ h2]
  exact ht _ _ hs

theorem head_rel {S : Cpl} {ds : List (Nat × Nat)} {w1 w2 : World} (hw : WRel S ds w1 w2) {a1 a2 : Term}
    (ha : TRel S a1 a2) (r1 : ∀ x, a1 = .var x → w1.b x = none) (r2 : ∀ x, a2 = .var x → w2.b x = none) :
    HeadRel S a1 a2 := by
  cases a1 with
  | var x =>
    have hx := r1 x rfl
    cases a2 with
    | var y => exact .var x y
    | atom s =>
      obtain ⟨θ1, θ2, hs, hv⟩ := hw.pair_root1 hx (.int 0)
      have := ha θ1 θ2 hs; simp [Term.subst, hv] at this
    | int i =>
      obtain ⟨θ1, θ2, hs, hv⟩ := hw.pair_root1 hx (.atom "")
      have := ha θ1 θ2 hs; simp [Term.subst, hv] at this
    | fn g as =>
      obtain ⟨θ1, θ2, hs, hv⟩ := hw.pair_root1 hx (.atom "")
      have := ha θ1 θ2 hs; rw [subst_fn] at this; simp [Term.subst, hv] at this
  | atom s =>
    cases a2 with
    | var y =>
      obtain ⟨θ1, θ2, hs, hv⟩ := hw.pair_root2 (r2 y rfl) (.int 0)
      have := ha θ1 θ2 hs; simp [Term.subst, hv] at this
    | atom s' =>
      obtain ⟨θ1, θ2, hs⟩ := hw.pair
      have := ha θ1 θ2 hs; simp [Term.subst] at this; subst this; exact .atom s
    | int i =>
      obtain ⟨θ1, θ2, hs⟩ := hw.pair
      have := ha θ1 θ2 hs; simp [Term.subst] at this
    | fn g as =>
      obtain ⟨θ1, θ2, hs⟩ := hw.pair
      have := ha θ1 θ2 hs; rw [subst_fn] at this; simp [Term.subst] at this
  | int i =>
    cases a2 with
    | var y =>
      obtain ⟨θ1, θ2, hs, hv⟩ := hw.pair_root2 (r2 y rfl) (.atom "")
      have := ha θ1 θ2 hs; simp [Term.subst, hv] at this
    | atom s' =>
      obtain ⟨θ1, θ2, hs⟩ := hw.pair
      have := ha θ1 θ2 hs; simp [Term.subst] at this
    | int j =>
      obtain ⟨θ1, θ2, hs⟩ := hw.pair
      have := ha θ1 θ2 hs; simp [Term.subst] at this; subst this; exact .int i
    | fn g as =>
      obtain ⟨θ1, θ2, hs⟩ := hw.pair
      have := ha θ1 θ2 hs; rw [subst_fn] at this; simp [Term.subst] at this
  | fn g as =>
    cases a2 with
    | var y =>
      obtain ⟨θ1, θ2, hs, hv⟩ := hw.pair_root2 (r2 y rfl) (.atom "")
      have := ha θ1 θ2 hs; rw [subst_fn] at this; simp [Term.subst, hv] at this
    | atom s' =>
      obtain ⟨θ1, θ2, hs⟩ := hw.pair
      have := ha θ1 θ2 hs; rw [subst_fn] at this; simp [Term.subst] at this
    | int j =>
      obtain ⟨θ1, θ2, hs⟩ := hw.pair
      have := ha θ1 θ2 hs; rw [subst_fn] at this; simp [Term.subst] at this
    | fn g' as' =>
      obtain ⟨θ1, θ2, hs⟩ := hw.pair
      have h0 := ha θ1 θ2 hs
      rw [subst_fn, subst_fn] at h0
      simp only [Term.fn.injEq] at h0
      obtain ⟨hg, hl⟩ := h0
      subst hg
      have hlen : as.length = as'.length := by simpa using congrArg List.length hl
      refine .fn g as as' (trelL_of_map_eq as as' hlen (fun θ1 θ2 hs => ?_))
      have := ha θ1 θ2 hs
      rw [subst_fn, subst_fn] at this
      simp only [Term.fn.injEq, true_and] at this
      exact this

/-- the kind of term corresponding terms dereference to -/
theorem walk_heads {S : Cpl} {ds : List (Nat × Nat)} {w1 w2 : World} (hw : WRel S ds w1 w2) {t1 t2 a1 a2 : Term}
    (ht : TRel S t1 t2) {f1 f2 : Nat} (h1 : walk w1.b f1 t1 = some a1) (h2 : walk w2.b f2 t2 = some a2) :
    HeadRel S a1 a2 :=
  head_rel hw (walk_trel hw ht h1 h2) (fun x e => walk_var_unbound _ _ _ _ (e ▸ h1))
    (fun x e => walk_var_unbound _ _ _ _ (e ▸ h2))

theorem mapM_resolve_subst {θ : Val} {b : Bind} (hθ : Solves θ b) {f : Nat} :
    ∀ (l v : List Term), l.mapM (resolve b f) = some v → l.map (Term.subst θ) = v.map (Term.subst θ) := by
  intro l v h
  have := mapM_some_forall₂ l v h
  induction this with
  | nil => rfl
  | cons h1 _ ih =>
    simp only [List.map_cons]
    rw [resolve_subst hθ _ _ _ h1, ih (forall₂_mapM_some _ _ ‹_›)]

theorem mapM_resolve_id {θ : Val} {b : Bind} (hid : ∀ x, b x = none → θ x = .var x) {f : Nat} :
    ∀ (l v : List Term), l.mapM (resolve b f) = some v → v.map (Term.subst θ) = v := by
  intro l v h
  have := mapM_some_forall₂ l v h
  induction this with
  | nil => rfl
  | @cons t v' ts vs h1 _ ih =>
    simp only [List.map_cons]
    rw [ih (forall₂_mapM_some _ _ ‹_›)]
    congr 1
    rw [subst_congr (θ' := Term.var) v' (fun x hx => hid x (resolve_vars_unbound b f t v' h1 x hx)), subst_var]

/-- **The resolved forms of corresponding terms are variants**: they have the same canonical form. -/
theorem resolve_variants {S : Cpl} {ds : List (Nat × Nat)} {w1 w2 : World} (hw : WRel S ds w1 w2) {l1 l2 : List Term}
    (hl : Forall₂ (TRel S) l1 l2) {f1 f2 : Nat} {v1 v2 : List Term}
    (h1 : l1.mapM (resolve w1.b f1) = some v1) (h2 : l2.mapM (resolve w2.b f2) = some v2) :
    canonVars v1 = canonVars v2 := by
  -- v1 is an instance of v2
  obtain ⟨θ1, hθ1, hr1⟩ := hw.solv1 Term.var
  obtain ⟨θ2, hs⟩ := hw.core.tot1 θ1 hθ1
  have e1 : v1 = v2.map (Term.subst θ2) := by
    rw [← mapM_resolve_subst (hw.core.sol2 _ _ hs) l2 v2 h2, ← TRelL.map_eq hl hs,
      mapM_resolve_subst hθ1 l1 v1 h1, mapM_resolve_id hr1 l1 v1 h1]
  -- and v2 of v1
  obtain ⟨η2, hη2, hr2⟩ := hw.solv2 Term.var
  obtain ⟨η1, hs'⟩ := hw.core.tot2 η2 hη2
  have e2 : v2 = v1.map (Term.subst η1) := by
    rw [← mapM_resolve_subst (hw.core.sol1 _ _ hs') l1 v1 h1, TRelL.map_eq hl hs',
      mapM_resolve_subst hη2 l2 v2 h2, mapM_resolve_id hr2 l2 v2 h2]
  exact canonVars_variant v1 v2 η1 θ2 e2 e1

end Yld
