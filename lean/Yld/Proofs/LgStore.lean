/-
  Helpers for `Yld.Proofs.LogicStore`: the facts of the store (`dbFacts`) after `setFacts`, `assertFact`
  unfolded when its arguments resolve, `mapM` in `Option` preserves the length.
-/
import Yld.Proofs.LogicFacts
import Yld.Proofs.Store
namespace Yld

theorem dbFacts_eq_facts (w : World) (name : String) (arity : Nat) : dbFacts w.db name arity = w.facts name arity := rfl

theorem mapM_opt_length {g : Term → Option Term} :
    ∀ (l vs : List Term), l.mapM g = some vs → vs.length = l.length := by
  intro l
  induction l with
  | nil => intro vs h; simp at h; subst h; rfl
  | cons t l ih =>
    intro vs h
    rw [List.mapM_cons] at h
    cases h1 : g t with
    | none => rw [h1] at h; simp at h
    | some a =>
      rw [h1] at h
      cases h2 : l.mapM g with
      | none => rw [h2] at h; simp at h
      | some as' =>
        rw [h2] at h
        simp at h
        subst h
        simp [ih as' h2]

/-- the facts of the store after `setFacts`: `fs` under the key, unchanged elsewhere -/
theorem dbFacts_setFacts (w : World) (name : String) (arity : Nat) (fs : List Fact) (n : String) (a : Nat) :
    dbFacts (w.setFacts name arity fs).db n a = if (n, a) = (name, arity) then fs else dbFacts w.db n a := by
  rw [dbFacts_eq_facts, dbFacts_eq_facts]
  by_cases h : (n, a) = (name, arity)
  · rw [if_pos h]
    cases h
    exact facts_setFacts_same w name arity fs
  · rw [if_neg h]
    exact facts_setFacts_other w name n arity a fs h

/-- `assertFact` when the arguments resolve -/
theorem assertFact_eq (f : Nat) (name : String) (values vs : List Term) (app : Bool) (w : World)
    (hres : values.mapM (resolve w.b f) = some vs) :
    assertFact f name values app w =
      ({ (w.setFacts name values.length
          (if app then w.facts name values.length ++ [{ id := w.stamp, nvars := (canonVars vs).2, args := (canonVars vs).1 }]
           else { id := w.stamp, nvars := (canonVars vs).2, args := (canonVars vs).1 } :: w.facts name values.length))
         with stamp := w.stamp + 1 }, none) := by
  unfold assertFact
  rw [hres]

end Yld
