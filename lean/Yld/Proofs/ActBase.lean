/-
  Substitution, renaming and variables of terms: the elementary facts used by the proof that the
  two clause activations are observationally the same (`Yld.Proofs.Activation`).
-/
import Yld.Proofs.UnifyMGU
set_option linter.unusedSimpArgs false
namespace Yld

theorem vars_fn (g : String) (args : List Term) : Term.vars (.fn g args) = (args.map Term.vars).flatten := by
  simp [Term.vars]

theorem rename_fn (r : Nat → Nat) (g : String) (args : List Term) :
    Term.rename r (.fn g args) = .fn g (args.map (Term.rename r)) := by
  simp [Term.rename]

theorem mem_vars_fn {g : String} {args : List Term} {x : Nat} :
    x ∈ Term.vars (.fn g args) ↔ ∃ a ∈ args, x ∈ a.vars := by
  rw [vars_fn, List.mem_flatten]
  constructor
  · rintro ⟨l, hl, hx⟩
    obtain ⟨a, ha, rfl⟩ := List.mem_map.mp hl
    exact ⟨a, ha, hx⟩
  · rintro ⟨a, ha, hx⟩
    exact ⟨_, List.mem_map.mpr ⟨a, ha, rfl⟩, hx⟩

/-- substitution only looks at the variables of the term -/
theorem subst_congr {θ θ' : Nat → Term} (t : Term) (h : ∀ x ∈ t.vars, θ x = θ' x) : t.subst θ = t.subst θ' := by
  induction t using Term.rec (motive_2 := fun ts => (∀ t ∈ ts, ∀ x ∈ t.vars, θ x = θ' x) →
      ts.map (Term.subst θ) = ts.map (Term.subst θ')) with
  | var n => simp only [Term.subst]; exact h n (by simp [Term.vars])
  | atom s => simp [Term.subst, Term.rename, Term.vars]
  | int i => simp [Term.subst, Term.rename, Term.vars]
  | fn g args ih =>
    rw [subst_fn, subst_fn, ih]
    intro t ht x hx
    exact h x (mem_vars_fn.mpr ⟨t, ht, hx⟩)
  | nil => rfl
  | cons a as iha ihas =>
    rename_i hall
    simp only [List.map_cons]
    rw [iha (hall a (by simp)), ihas (fun t ht => hall t (by simp [ht]))]

theorem subst_rename (r : Nat → Nat) (θ : Nat → Term) (t : Term) :
    (t.rename r).subst θ = t.subst (fun x => θ (r x)) := by
  induction t using Term.rec (motive_2 := fun ts =>
      (ts.map (Term.rename r)).map (Term.subst θ) = ts.map (Term.subst fun x => θ (r x))) with
  | var n => simp [Term.subst, Term.rename, Term.vars]
  | atom s => simp [Term.subst, Term.rename, Term.vars]
  | int i => simp [Term.subst, Term.rename, Term.vars]
  | fn g args ih => rw [rename_fn, subst_fn, subst_fn, ih]
  | nil => rfl
  | cons a as iha ihas => simp only [List.map_cons]; rw [iha, ihas]

theorem subst_var (t : Term) : t.subst Term.var = t := by
  induction t using Term.rec (motive_2 := fun ts => ts.map (Term.subst Term.var) = ts) with
  | var n => simp [Term.subst, Term.rename, Term.vars]
  | atom s => simp [Term.subst, Term.rename, Term.vars]
  | int i => simp [Term.subst, Term.rename, Term.vars]
  | fn g args ih => rw [subst_fn, ih]
  | nil => rfl
  | cons a as iha ihas => simp only [List.map_cons]; rw [iha, ihas]

theorem vars_rename (r : Nat → Nat) (t : Term) : (t.rename r).vars = t.vars.map r := by
  induction t using Term.rec (motive_2 := fun ts =>
      ((ts.map (Term.rename r)).map Term.vars).flatten = ((ts.map Term.vars).flatten).map r) with
  | var n => simp [Term.subst, Term.rename, Term.vars]
  | atom s => simp [Term.subst, Term.rename, Term.vars]
  | int i => simp [Term.subst, Term.rename, Term.vars]
  | fn g args ih => rw [rename_fn, vars_fn, vars_fn, ih]
  | nil => rfl
  | cons a as iha ihas =>
    simp only [List.map_cons, List.flatten_cons, List.map_append]
    rw [iha, ihas]

/-- a renaming is a substitution by variables -/
theorem rename_eq_subst (r : Nat → Nat) (t : Term) : t.rename r = t.subst (fun x => .var (r x)) := by
  induction t using Term.rec (motive_2 := fun ts =>
      ts.map (Term.rename r) = ts.map (Term.subst fun x => .var (r x))) with
  | var n => simp [Term.subst, Term.rename, Term.vars]
  | atom s => simp [Term.subst, Term.rename, Term.vars]
  | int i => simp [Term.subst, Term.rename, Term.vars]
  | fn g args ih => rw [rename_fn, subst_fn, ih]
  | nil => rfl
  | cons a as iha ihas => simp only [List.map_cons]; rw [iha, ihas]

/-- substitutions compose -/
theorem subst_subst (θ ρ : Nat → Term) (t : Term) :
    (t.subst θ).subst ρ = t.subst (fun x => (θ x).subst ρ) := by
  induction t using Term.rec (motive_2 := fun ts =>
      (ts.map (Term.subst θ)).map (Term.subst ρ) = ts.map (Term.subst fun x => (θ x).subst ρ)) with
  | var n => simp [Term.subst, Term.rename, Term.vars]
  | atom s => simp [Term.subst, Term.rename, Term.vars]
  | int i => simp [Term.subst, Term.rename, Term.vars]
  | fn g args ih => rw [subst_fn, subst_fn, subst_fn, ih]
  | nil => rfl
  | cons a as iha ihas => simp only [List.map_cons]; rw [iha, ihas]


/-! ### pointwise related lists (core has no `List.Forall₂`) -/

inductive Forall₂ {α β : Type} (R : α → β → Prop) : List α → List β → Prop
  | nil : Forall₂ R [] []
  | cons {a : α} {b : β} {as : List α} {bs : List β} : R a b → Forall₂ R as bs → Forall₂ R (a :: as) (b :: bs)

theorem Forall₂.length_eq {α β : Type} {R : α → β → Prop} {as : List α} {bs : List β} (h : Forall₂ R as bs) :
    as.length = bs.length := by
  induction h with
  | nil => rfl
  | cons _ _ ih => simp [ih]

theorem Forall₂.imp {α β : Type} {R S : α → β → Prop} (hRS : ∀ a b, R a b → S a b) {as : List α} {bs : List β}
    (h : Forall₂ R as bs) : Forall₂ S as bs := by
  induction h with
  | nil => exact .nil
  | cons h1 _ ih => exact .cons (hRS _ _ h1) ih

theorem Forall₂.append {α β : Type} {R : α → β → Prop} {as as' : List α} {bs bs' : List β}
    (h : Forall₂ R as bs) (h' : Forall₂ R as' bs') : Forall₂ R (as ++ as') (bs ++ bs') := by
  induction h with
  | nil => exact h'
  | cons h1 _ ih => exact .cons h1 ih

theorem Forall₂.getD {α β : Type} {R : α → β → Prop} {as : List α} {bs : List β} (h : Forall₂ R as bs)
    {da : α} {db : β} (hd : R da db) (i : Nat) : R (as.getD i da) (bs.getD i db) := by
  induction h generalizing i with
  | nil => simpa using hd
  | cons h1 _ ih =>
    cases i with
    | zero => simpa using h1
    | succ i => simpa using ih i

end Yld
