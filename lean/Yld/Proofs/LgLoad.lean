/-
  The logical reading of Horn programs (C01), stage 5: the definition table after loading a Horn
  program into the engine as constructed (`Engine.load .reference`, overwrite) is `HC`:
  `groupClauses` yields predicates with pairwise different (name, arity), whose clauses are the
  clauses of the script with that name and arity; the load stores each under its own key
  (`predKey` is injective, never a variadic key, and a program predicate's key is not a builtin's
  key because its name is not a builtin's name); what was there before are the builtins.
-/
import Yld.Proofs.LgBase
import Yld.Properties.C08
set_option linter.unusedSimpArgs false
set_option linter.unusedVariables false
namespace Yld
namespace Lg

/-! ### `groupClauses` -/

theorem foldl_inv {α β : Type} (f : β → α → β) (J : β → Prop) : ∀ (l : List α) (b : β), J b →
    (∀ b a, a ∈ l → J b → J (f b a)) → J (l.foldl f b) := by
  intro l
  induction l with
  | nil => intro b h _; exact h
  | cons a l ih =>
    intro b h hs
    rw [List.foldl_cons]
    exact ih _ (hs b a List.mem_cons_self h) (fun b' a' ha' => hs b' a' (List.mem_cons_of_mem _ ha'))

/-- different name or different arity -/
def DiffKey (p q : Pred) : Prop := ¬ (p.name = q.name ∧ p.arity = q.arity)

/-- what `groupClauses cs` consists of -/
def FromScript (cs : List SClause) (p : Pred) : Prop :=
  (∃ c ∈ cs, c.name = p.name) ∧ ∀ cl ∈ p.clauses, cl.head.length = p.arity ∧ ∃ c ∈ cs, c.name = p.name ∧ c.clause = cl

theorem groupClauses_spec (cs : List SClause) :
    (groupClauses cs).Pairwise DiffKey ∧ ∀ p ∈ groupClauses cs, FromScript cs p := by
  unfold groupClauses
  refine foldl_inv _ (fun acc => acc.Pairwise DiffKey ∧ ∀ p ∈ acc, FromScript cs p) cs []
    ⟨List.Pairwise.nil, fun p hp => by cases hp⟩ ?_
  intro acc c hc ⟨hpw, hall⟩
  simp only
  split
  · -- an existing predicate gets one more clause
    refine ⟨?_, ?_⟩
    · rw [List.pairwise_map]
      refine hpw.imp ?_
      intro a b hab
      have e : ∀ x : Pred, (if (x.name == c.name && x.arity == c.clause.head.length) = true then
          { x with clauses := x.clauses ++ [c.clause] } else x).name = x.name ∧
          (if (x.name == c.name && x.arity == c.clause.head.length) = true then
          { x with clauses := x.clauses ++ [c.clause] } else x).arity = x.arity := by
        intro x; split <;> exact ⟨rfl, rfl⟩
      unfold DiffKey
      rw [(e a).1, (e a).2, (e b).1, (e b).2]
      exact hab
    · intro p hp
      obtain ⟨p0, hp0, rfl⟩ := List.mem_map.mp hp
      have h0 := hall p0 hp0
      split
      · rename_i hm
        simp only [Bool.and_eq_true, beq_iff_eq] at hm
        refine ⟨h0.1, ?_⟩
        intro cl hcl
        rcases List.mem_append.mp hcl with h1 | h1
        · exact h0.2 cl h1
        · have : cl = c.clause := by simpa using h1
          subst this
          exact ⟨hm.2.symm, c, hc, hm.1.symm, rfl⟩
      · exact h0
  · -- a new predicate
    rename_i hany
    refine ⟨?_, ?_⟩
    · rw [List.pairwise_append]
      refine ⟨hpw, List.pairwise_singleton _ _, ?_⟩
      intro a ha b hb
      have : b = { name := c.name, arity := c.clause.head.length, clauses := [c.clause] } := by simpa using hb
      subst this
      intro hk
      apply hany
      rw [List.any_eq_true]
      exact ⟨a, ha, by simp [hk.1, hk.2]⟩
    · intro p hp
      rcases List.mem_append.mp hp with h1 | h1
      · exact hall p h1
      · have : p = { name := c.name, arity := c.clause.head.length, clauses := [c.clause] } := by simpa using h1
        subst this
        refine ⟨⟨c, hc, rfl⟩, ?_⟩
        intro cl hcl
        have : cl = c.clause := by simpa using hcl
        subst this
        exact ⟨rfl, c, hc, rfl, rfl⟩

/-! ### the load -/

def loadStep (m : Mode) (d : Defs) (p : Pred) : Defs := d.set (predKey p.name p.arity) [.prolog p m]

theorem load_defs_eq (e : Engine) (m : Mode) (cs : List SClause) :
    (e.load m cs true).defs = (groupClauses cs).foldl (loadStep m) e.defs := by
  unfold Engine.load
  simp only [if_true]
  rfl

theorem foldl_get_other (m : Mode) (key : String) : ∀ (ps : List Pred) (d : Defs),
    (∀ p ∈ ps, predKey p.name p.arity ≠ key) → (ps.foldl (loadStep m) d).get key = d.get key := by
  intro ps
  induction ps with
  | nil => intro d _; rfl
  | cons p ps ih =>
    intro d h
    rw [List.foldl_cons, ih _ (fun q hq => h q (List.mem_cons_of_mem _ hq))]
    exact get_set_other _ _ _ _ (fun e => h p List.mem_cons_self e.symm)

theorem foldl_get_mem (m : Mode) : ∀ (ps : List Pred) (d : Defs), ps.Pairwise DiffKey →
    ∀ p ∈ ps, (ps.foldl (loadStep m) d).get (predKey p.name p.arity) = some [.prolog p m] := by
  intro ps
  induction ps with
  | nil => intro d _ p hp; cases hp
  | cons q qs ih =>
    intro d hpw p hp
    rw [List.pairwise_cons] at hpw
    rw [List.foldl_cons]
    rcases List.mem_cons.mp hp with rfl | hp'
    · rw [foldl_get_other m _ qs _ (fun q' hq' e => hpw.1 q' hq' (by
        have := predKey_injective _ _ _ _ e
        exact ⟨this.1.symm, this.2.symm⟩))]
      exact get_set_same _ _ _
    · exact ih _ hpw.2 p hp'

/-! ### the builtins -/

theorem lookup_some_mem {β : Type} : ∀ (l : List (String × β)) (k : String) (v : β), l.lookup k = some v → (k, v) ∈ l := by
  intro l
  induction l with
  | nil => intro k v h; simp at h
  | cons p ps ih =>
    intro k v h
    obtain ⟨k', v'⟩ := p
    simp only [List.lookup_cons] at h
    cases hk : (k == k') with
    | true =>
      rw [hk] at h
      simp only [Option.some.injEq] at h
      have : k = k' := by simpa using hk
      subst this; subst h
      exact List.mem_cons_self
    | false => rw [hk] at h; exact List.mem_cons_of_mem _ (ih k v h)

theorem variadicKey_injective (a b : String) (h : variadicKey a = variadicKey b) : a = b := by
  have h' := congrArg String.toList h
  rw [variadicKey_toList, variadicKey_toList] at h'
  exact String.toList_inj.mp (split_last_right '_' _ _ _ _ (by decide) (by decide) h').1

/-- the builtins under a fixed-arity key: a goal name that passes the test reaches `=`/2 only -/
theorem builtin_fixed {U : String → Bool} (hU : ∀ b ∈ Generated.builtins.map (·.1), U b = true → b = "=")
    {name : String} {n : Nat} {ds : List Def} (hn : U name = true)
    (h : builtinDefs.get (predKey name n) = some ds) : name = "=" ∧ n = 2 ∧ ds = [.builtin "="] := by
  have hm := lookup_some_mem _ _ _ h
  have fixed : ∀ (b : String) (k : Nat), b ∈ Generated.builtins.map (·.1) → predKey name n = predKey b k →
      ds = [.builtin b] → name = "=" ∧ n = 2 ∧ ds = [.builtin "="] → name = "=" ∧ n = 2 ∧ ds = [.builtin "="] :=
    fun _ _ _ _ _ x => x
  simp only [builtinDefs, Generated.builtins, List.map_cons, List.map_nil, List.mem_cons, Prod.mk.injEq,
    List.mem_nil_iff, or_false] at hm
  have key : ∀ (b : String) (k : Nat) (s : String), s = predKey b k → b ∈ Generated.builtins.map (·.1) →
      predKey name n = s → name = b ∧ n = k ∧ b = "=" := by
    intro b k s hs hb e
    have := predKey_injective _ _ _ _ (e.trans hs)
    exact ⟨this.1, this.2, hU b hb (this.1 ▸ hn)⟩
  rcases hm with ⟨e, rfl⟩ | ⟨e, rfl⟩ | ⟨e, rfl⟩ | ⟨e, rfl⟩ | ⟨e, rfl⟩ | ⟨e, rfl⟩ | ⟨e, rfl⟩ | ⟨e, rfl⟩ | ⟨e, rfl⟩
  · obtain ⟨h1, h2, _⟩ := key "=" 2 _ (by decide) (by decide) e
    exact ⟨h1, h2, rfl⟩
  · obtain ⟨_, _, h3⟩ := key "\\=" 2 _ (by decide) (by decide) e
    exact absurd h3 (by decide)
  · obtain ⟨_, _, h3⟩ := key "findall" 3 _ (by decide) (by decide) e
    exact absurd h3 (by decide)
  · exact absurd (e.trans (by decide : "call_n" = variadicKey "call")) (predKey_ne_variadicKey _ _ _)
  · obtain ⟨_, _, h3⟩ := key "once" 1 _ (by decide) (by decide) e
    exact absurd h3 (by decide)
  · obtain ⟨_, _, h3⟩ := key "assertz" 1 _ (by decide) (by decide) e
    exact absurd h3 (by decide)
  · obtain ⟨_, _, h3⟩ := key "asserta" 1 _ (by decide) (by decide) e
    exact absurd h3 (by decide)
  · obtain ⟨_, _, h3⟩ := key "retract" 1 _ (by decide) (by decide) e
    exact absurd h3 (by decide)
  · obtain ⟨_, _, h3⟩ := key "retractall" 1 _ (by decide) (by decide) e
    exact absurd h3 (by decide)

/-- the builtins under a variadic key: only `call`, which does not pass the test -/
theorem builtin_variadic {U : String → Bool} (hU : ∀ b ∈ Generated.builtins.map (·.1), U b = true → b = "=")
    {name : String} {ds : List Def} (hn : U name = true) (h : builtinDefs.get (variadicKey name) = some ds) : False := by
  have hm := lookup_some_mem _ _ _ h
  simp only [builtinDefs, Generated.builtins, List.map_cons, List.map_nil, List.mem_cons, Prod.mk.injEq,
    List.mem_nil_iff, or_false] at hm
  have key : ∀ (b : String) (k : Nat) (s : String), s = predKey b k → variadicKey name = s → False :=
    fun b k s hs e => predKey_ne_variadicKey b name k (hs.symm.trans e.symm)
  rcases hm with ⟨e, _⟩ | ⟨e, _⟩ | ⟨e, _⟩ | ⟨e, _⟩ | ⟨e, _⟩ | ⟨e, _⟩ | ⟨e, _⟩ | ⟨e, _⟩ | ⟨e, _⟩
  · exact key "=" 2 _ (by decide) e
  · exact key "\\=" 2 _ (by decide) e
  · exact key "findall" 3 _ (by decide) e
  · have : name = "call" := variadicKey_injective _ _ (e.trans (by decide : "call_n" = variadicKey "call"))
    subst this
    exact absurd (hU "call" (by decide) hn) (by decide)
  · exact key "once" 1 _ (by decide) e
  · exact key "assertz" 1 _ (by decide) e
  · exact key "asserta" 1 _ (by decide) e
  · exact key "retract" 1 _ (by decide) e
  · exact key "retractall" 1 _ (by decide) e

/-! ### the table -/

/-- **What the load of a Horn program builds.** -/
theorem hc_of_load {U : String → Bool} (hU : ∀ b ∈ Generated.builtins.map (·.1), U b = true → b = "=")
    (cs : List SClause)
    (hcs : ∀ c ∈ cs, U c.name = true ∧ c.name ≠ "=" ∧ hornBy U c.clause.body = true ∧
                     defaultBlacklist.contains c.name = false) :
    HC U { blacklist := ({} : Engine).blacklist, defs := (({} : Engine).load .reference cs true).defs, mode := .reference }
      (groupClauses cs) := by
  obtain ⟨hpw, hfrom⟩ := groupClauses_spec cs
  have hdefs : (({} : Engine).load .reference cs true).defs
      = (groupClauses cs).foldl (loadStep .reference) builtinDefs := load_defs_eq _ _ _
  have hname : ∀ p ∈ groupClauses cs, U p.name = true ∧ p.name ≠ "=" ∧ defaultBlacklist.contains p.name = false := by
    intro p hp
    obtain ⟨c, hc, e⟩ := (hfrom p hp).1
    rw [← e]
    exact ⟨(hcs c hc).1, (hcs c hc).2.1, (hcs c hc).2.2.2⟩
  have hneq : ∀ p ∈ groupClauses cs, predKey p.name p.arity ≠ predKey "=" 2 :=
    fun p hp e => (hname p hp).2.1 (predKey_injective _ _ _ _ e).1
  refine ⟨?_, ?_, ?_, ?_, ?_⟩
  · intro p hp
    show Defs.get _ _ = _
    rw [hdefs]
    exact foldl_get_mem .reference _ _ hpw p hp
  · intro name n ds hn hl
    simp only at hl
    rw [hdefs] at hl
    by_cases hex : ∃ p ∈ groupClauses cs, predKey p.name p.arity = predKey name n
    · obtain ⟨p, hp, e⟩ := hex
      rw [← e, foldl_get_mem .reference _ _ hpw p hp] at hl
      have := predKey_injective _ _ _ _ e
      refine Or.inr ⟨p, hp, this.1, this.2, ?_⟩
      simpa [Option.orElse] using hl.symm
    · have h1 : ((groupClauses cs).foldl (loadStep .reference) builtinDefs).get (predKey name n)
          = builtinDefs.get (predKey name n) :=
        foldl_get_other _ _ _ _ (fun p hp e => hex ⟨p, hp, e⟩)
      have h2 : ((groupClauses cs).foldl (loadStep .reference) builtinDefs).get (variadicKey name)
          = builtinDefs.get (variadicKey name) :=
        foldl_get_other _ _ _ _ (fun p _ e => predKey_ne_variadicKey _ _ _ e)
      rw [h1, h2] at hl
      cases hb : builtinDefs.get (predKey name n) with
      | some ds' =>
        rw [hb] at hl
        have : ds' = ds := by simpa [Option.orElse] using hl
        subst this
        exact Or.inl (builtin_fixed hU hn hb)
      | none =>
        rw [hb] at hl
        exact (builtin_variadic hU hn (by simpa [Option.orElse] using hl)).elim
  · intro p hp
    refine ⟨(hname p hp).1, (hname p hp).2.1, ?_⟩
    intro cl hcl
    obtain ⟨hlen, c, hc, _, e⟩ := (hfrom p hp).2 cl hcl
    exact ⟨hlen, e ▸ (hcs c hc).2.2.1⟩
  · intro p hp
    exact (hname p hp).2.2
  · refine ⟨(by decide : defaultBlacklist.contains "=" = false), ?_⟩
    show Defs.get _ _ = _
    rw [hdefs, foldl_get_other _ _ _ _ hneq, (by decide : predKey "=" 2 = "=_2")]
    simp [builtinDefs, Generated.builtins, Defs.get]

end Lg
end Yld
