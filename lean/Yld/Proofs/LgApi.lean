/-
  The logical reading of Horn programs (C01), stage 3: the answers recorded by the top-level
  consumer.  The run with `topConsumer` equals the run with the consumer that records only where the
  goal holds (soundness, `LgSound`); along that run every recorded answer has the property that all
  its instances hold — provided the heap at the yield is acyclic, which the ghost flag witnesses.
-/
import Yld.Proofs.LgSound
import Yld.Proofs.ActObs
set_option linter.unusedSimpArgs false
set_option linter.unusedVariables false
namespace Yld
namespace Lg

/-- instantiating the canonical form = instantiating the resolved terms through the renaming -/
theorem canonVars_subst (vs : List Term) (ρ : Val) :
    (canonVars vs).1.map (Term.subst ρ)
      = vs.map (Term.subst fun x => ρ (((vs.map Term.vars).flatten.eraseDups).idxOf x)) := by
  unfold canonVars
  simp only [List.map_map]
  apply List.map_congr_left
  intro t _
  exact subst_rename _ _ _

theorem mapM_resolve_unbound {b : Bind} {f : Nat} : ∀ (l vs : List Term), l.mapM (resolve b f) = some vs →
    ∀ v ∈ vs, ∀ x ∈ v.vars, b x = none := by
  intro l vs h
  have := mapM_some_forall₂ l vs h
  induction this with
  | nil => intro v hv; cases hv
  | @cons t v' ts vs' h1 _ ih =>
    intro v hv x hx
    rcases List.mem_cons.mp hv with rfl | hv'
    · exact resolve_vars_unbound b f t v h1 x hx
    · exact ih (forall₂_mapM_some _ _ ‹_›) v hv' x hx

/-- at a yield with an acyclic heap where the goal holds under every solution, every instance of the
    recorded answer holds -/
theorem answer_instances {H : String → List Term → Prop} {name : String} {args : List Term} {w : World}
    (hs : Solvable w.b) (hgh : GH H name args w) {f : Nat} {vs : List Term}
    (hm : args.mapM (resolve w.b f) = some vs) (ρ : Val) : H name ((canonVars vs).1.map (Term.subst ρ)) := by
  rw [canonVars_subst]
  obtain ⟨θ, hθ, hroot⟩ := hs (fun x => ρ (((vs.map Term.vars).flatten.eraseDups).idxOf x))
  have e1 := mapM_resolve_subst hθ args vs hm
  have e2 : vs.map (Term.subst θ) = vs.map (Term.subst fun x => ρ (((vs.map Term.vars).flatten.eraseDups).idxOf x)) :=
    List.map_congr_left (fun v hv => subst_congr v (fun x hx => hroot x (mapM_resolve_unbound _ _ hm v hv x hx)))
  rw [← e2, ← e1]
  exact hgh θ hθ

/-- the top-level consumer leaves flag and store alone and records at most one answer, of the given form -/
theorem topConsumer_inv (P : Term → Prop) (fuel : Nat) (args : List Term) (sched : Sched) (w : World)
    (hP : ∀ vs, args.mapM (resolve w.b fuel) = some vs → P (.fn "$ans" (canonVars vs).1)) :
    (topConsumer fuel args sched w).1.cyc = w.cyc ∧ (topConsumer fuel args sched w).1.db = w.db ∧
    ∀ a ∈ (topConsumer fuel args sched w).1.acc.headD [], a ∈ w.acc.headD [] ∨ P a := by
  unfold topConsumer
  cases hm : args.mapM (resolve w.b fuel) with
  | none => exact ⟨rfl, rfl, fun a ha => Or.inl ha⟩
  | some vs =>
    have hp := hP vs hm
    simp only
    cases hacc : w.acc with
    | nil =>
      cases sched <;> simp only <;> (try split) <;>
        exact ⟨by first | trivial | rfl, by first | trivial | rfl, fun a ha => by simp at ha; subst ha; exact Or.inr hp⟩
    | cons top rest =>
      cases sched <;> simp only <;> (try split) <;>
        exact ⟨by first | trivial | rfl, by first | trivial | rfl, fun a ha => by
          simp only [List.headD_cons, List.mem_append, List.mem_singleton] at ha
          rcases ha with h | h
          · exact Or.inl (by simp [h])
          · subst h; exact Or.inr hp⟩

theorem topConsumer_qk (fuel : Nat) (args : List Term) (sched : Sched) : QK True (topConsumer fuel args sched) :=
  ⟨topConsumer_disciplined fuel args sched,
   fun w => (topConsumer_inv (fun _ => True) fuel args sched w (fun _ _ => trivial)).2.1,
   fun w => (topConsumer_grow fuel args sched w).1, fun _ => topConsumer_cycMono fuel args sched⟩

theorem idle_qk (cm : Prop) : QK cm (fun w => (w, none)) :=
  ⟨fun _ => rfl, fun _ => rfl, fun _ => Nat.le_refl _, fun _ _ h => h⟩

/-- all instances of the answer hold -/
def AnsOK (H : String → List Term → Prop) (name : String) (ans : Term) : Prop :=
  ∃ ts, ans = .fn "$ans" ts ∧ ∀ ρ : Nat → Term, H name (ts.map (Term.subst ρ))

/-- unless the run was flagged, the answers recorded so far are all right -/
def AccOK (H : String → List Term → Prop) (name : String) (w : World) : Prop :=
  w.cyc = false → ∀ ans ∈ w.acc.headD [], AnsOK H name ans

theorem stepRel_accOK (H : String → List Term → Prop) (name : String) :
    StepRel (fun w w' => AccOK H name w → AccOK H name w') := by
  refine ⟨fun _ h => h, fun h1 h2 h => h2 (h1 h), ?_⟩
  intro w w' hf h hc ans ha
  rw [hf.acc] at ha
  refine h ?_ ans ha
  cases hw : w.cyc with
  | false => rfl
  | true => rw [hf.cyc hw] at hc; cases hc

open Classical in
/-- **Soundness of the recorded answers, for an abstract meaning of goals.** -/
theorem answers_sound {U : String → Bool} {cfg : Cfg} {preds : List Pred} (hc : HC U cfg preds)
    {H : String → List Term → Prop} (sem : Sem preds H) (f : Nat) {name : String} (hU : U name = true)
    (args : List Term) (sched : Sched) (w0 : World) (hg : Good True w0) (ha : OwnL w0.next args)
    (hacc : w0.acc.headD [] = [])
    (hcyc : (query cfg f name args (topConsumer f args sched) w0).1.cyc = false) :
    ∀ ans ∈ (query cfg f name args (topConsumer f args sched) w0).1.acc.headD [], AnsOK H name ans := by
  let Φ : World → Prop := fun w' => Step True w0 w' ∧ GH H name args w'
  let k2 : K := fun w' => if Φ w' then topConsumer f args sched w' else (w', none)
  have hk2 : QK True k2 := QK.ite (topConsumer_qk f args sched) (idle_qk True) Φ
  have e : query cfg f name args (topConsumer f args sched) w0 = query cfg f name args k2 w0 :=
    query_sound_all hc sem True f name hU args w0 hg ha _ _ (topConsumer_qk f args sched) hk2
      (fun w' h => (if_pos (c := Φ w') h).symm)
  rw [e] at hcyc ⊢
  have hrel : KRelP (fun w w' => AccOK H name w → AccOK H name w') k2 := by
    intro w hinv
    by_cases hΦ : Φ w
    · simp only [k2, if_pos hΦ]
      obtain ⟨h1, _, h3⟩ := topConsumer_inv (fun a => w.cyc = false → AnsOK H name a) f args sched w
        (fun vs hm hcw => ⟨_, rfl, answer_instances (hΦ.1.good.solv trivial hcw) hΦ.2 hm⟩)
      intro hc' ans hans
      rw [h1] at hc'
      rcases h3 ans hans with h | h
      · exact hinv hc' ans h
      · exact h hc'
    · simp only [k2, if_neg hΦ]; exact hinv
  have := query_relp (stepRel_accOK H name) hc f name hU args k2 hrel w0
    (fun _ ans hans => by rw [hacc] at hans; cases hans)
  exact this hcyc

end Lg
end Yld
