/-
  The two clause activations give the same answers.

  `Mode.reference` activates a clause as the textbooks do: a new variable for every variable of the
  clause, then the head arguments are unified with the call's arguments left to right
  (`runClauseRef`).  `Mode.refbody` activates it as the generated code does: a head argument that is
  a plain variable occurring once among the top-level head arguments is *identified* with the call's
  argument (no new variable, no unification), the other variables are allocated, the remaining head
  arguments are unified (`runClauseRefBody`).  Both then run the same body under the same reference
  semantics (`solve`).  The two allocate different cells and build different binding chains, so the
  worlds differ; what the top-level consumer records (`topConsumer`: the query arguments resolved at
  every depth and renamed canonically by `canonVars`) and how the query ends are the same —
  provided neither run is cut off by the fuel, neither run created a cyclic term, and the engine and
  the query are well-formed (`Engine.WF`, `ArgsScoped`).

  The statement WITHOUT the well-formedness hypotheses is false: see the comment block at the end of
  this file (query variables at or beyond the allocation counter collide with the "new" variables of
  the textbook activation).
-/
import Yld.Model.Api
import Yld.Proofs.Program
import Yld.Proofs.ActEngine
set_option linter.unusedSimpArgs false
set_option linter.unusedVariables false
namespace Yld

/-- the same engine with every Prolog definition switched to mode `m` (the mode is stored with each
    definition when it is loaded; `runDef` dispatches on it) -/
def Engine.withMode (e : Engine) (m : Mode) : Engine :=
  { e with defs := e.defs.map fun (kd : String × List Def) => (kd.1, kd.2.map (Def.withMode m)) }

/-- Well-formed engine state between two top-level operations:
    * the bindings are within the allocated cells (`inScope`) and acyclic (`solvable`: the unbound
      cells can be given any values) — in particular when nothing is bound, which is what
      `engine_query_restores` guarantees between queries;
    * the stored facts and the rows of registered Python predicates are closed (their variables are
      `0 … nvars-1`), as `assertFact` stores them. -/
structure Engine.WF (e : Engine) : Prop where
  inScope : ∀ x u, e.w.b x = some u → x < e.w.next ∧ ∀ y ∈ u.vars, y < e.w.next
  solvable : Solvable e.w.b
  closed : DbClosed e.w.db
  rows : DefsRowsClosed e.defs

/-- the query mentions allocated cells only (the caller got them from `variable()`) -/
def ArgsScoped (e : Engine) (args : List Term) : Prop := ∀ t ∈ args, ∀ x ∈ t.vars, x < e.w.next

/-- a fresh engine state with nothing bound is well-formed as far as the heap goes -/
theorem Engine.WF.of_unbound (e : Engine) (hb : ∀ x, e.w.b x = none) (hdb : DbClosed e.w.db) (hrows : DefsRowsClosed e.defs) :
    e.WF :=
  ⟨fun x u h => (by rw [hb x] at h; cases h),
   fun ρ => ⟨ρ, fun x u h => (by rw [hb x] at h; cases h), fun _ _ => rfl⟩, hdb, hrows⟩

/-- the engine as constructed (`YP()`): nothing bound, empty store, builtins only -/
theorem Engine.WF.default : ({} : Engine).WF := by
  refine Engine.WF.of_unbound _ (fun _ => rfl) (fun kv h => by cases h) ?_
  intro kd hkd d hd
  obtain ⟨x, _, rfl⟩ := List.mem_map.mp hkd
  simp only [List.mem_singleton] at hd
  subst hd
  trivial

/-- loading scripts keeps the condition on registered rows (Prolog definitions have none) -/
theorem DefRowsClosed.prolog (p : Pred) (m : Mode) : DefRowsClosed (.prolog p m) := trivial

/-- the coupling at the start: the same solution on both sides (as far as allocated cells go) -/
def startCpl (b : Bind) (n : Nat) : Cpl := fun θ1 θ2 => Solves θ1 b ∧ Solves θ2 b ∧ ∀ x, x < n → θ1 x = θ2 x

theorem solves_agree {b : Bind} {n : Nat} (hsc : ∀ x u, b x = some u → x < n ∧ ∀ y ∈ u.vars, y < n) {θ θ' : Val}
    (h : Solves θ b) (e : ∀ x, x < n → θ' x = θ x) : Solves θ' b := by
  intro x u hx
  obtain ⟨h1, h2⟩ := hsc x u hx
  rw [e x h1, h x u hx]
  exact (subst_congr u (fun y hy => e y (h2 y hy))).symm

theorem start_wrel (e : Engine) (hwf : e.WF) :
    WRel (startCpl e.w.b e.w.next) [] { e.w with acc := [] :: e.w.acc, cyc := false }
      { e.w with acc := [] :: e.w.acc, cyc := false } := by
  refine ⟨⟨fun _ _ h => h.1, fun _ _ h => h.2.1, fun θ1 h => ⟨θ1, h, h, fun _ _ => rfl⟩,
      fun θ2 h => ⟨θ2, h, h, fun _ _ => rfl⟩, ?_⟩, hwf.solvable, hwf.solvable, rfl, rfl, rfl, hwf.closed, rfl,
      ⟨[], [], _, rfl, rfl, .nil⟩⟩
  intro θ1 θ2 θ1' θ2' ⟨h1, h2, h3⟩ e1 e2
  exact ⟨solves_agree hwf.inScope h1 e1, solves_agree hwf.inScope h2 e2,
    fun x hx => by rw [e1 x hx, e2 x hx]; exact h3 x hx⟩

theorem start_args (e : Engine) (args : List Term) (ha : ArgsScoped e args) :
    Forall₂ (TRel (startCpl e.w.b e.w.next)) args args := by
  unfold ArgsScoped at ha
  induction args with
  | nil => exact .nil
  | cons t ts ih =>
    refine .cons ?_ (ih (fun t' ht' => ha t' (by simp [ht'])))
    intro θ1 θ2 ⟨_, _, h3⟩
    exact subst_congr t (fun x hx => h3 x (ha t (by simp) x hx))

/-- the two runs of the query proper, related -/
theorem run_sim (e : Engine) (hwf : e.WF) (f : Nat) (name : String) (args : List Term) (ha : ArgsScoped e args)
    (sched : Sched) :
    RSim (fun s => s = Sig.oof) [] { e.w with acc := [] :: e.w.acc, cyc := false }
      { e.w with acc := [] :: e.w.acc, cyc := false }
      (query (cfgOf e.blacklist e.defs .reference) f name args (topConsumer f args sched)
        { e.w with acc := [] :: e.w.acc, cyc := false })
      (query (cfgOf e.blacklist e.defs .refbody) f name args (topConsumer f args sched)
        { e.w with acc := [] :: e.w.acc, cyc := false }) :=
  (allSim e.blacklist e.defs hwf.rows f).1 _ oofOnly_ok name _ [] args args _ _ _ _ (start_args e args ha)
    (start_wrel e hwf) (topConsumer_sim oofOnly_ok f f sched (start_args e args ha))
    (topConsumer_cycMono f args sched) (topConsumer_cycMono f args sched)

/-- what the comparison of two related runs gives at the API -/
theorem observe {w0 : World} {r1 r2 : R} (h : RSim (fun s => s = Sig.oof) [] w0 w0 r1 r2)
    (h1 : r1.2 ≠ some .oof) (h2 : r2.2 ≠ some .oof) (hc1 : r1.1.cyc = false) (hc2 : r2.1.cyc = false) :
    r1.1.acc.headD [] = r2.1.acc.headD [] ∧ r1.2 = r2.2 := by
  rcases h with (h | h | h | h) | h
  · obtain ⟨s, e, rfl⟩ := h; exact absurd e h1
  · obtain ⟨s, e, rfl⟩ := h; exact absurd e h2
  · rw [hc1] at h; cases h
  · rw [hc2] at h; cases h
  · obtain ⟨fl1, fl2, base, e1, e2, hfl⟩ := h.acc
    cases hfl
    simp only [List.nil_append] at e1 e2
    exact ⟨by rw [e1, e2], h.sig⟩

/-- **Aliased activation = textbook activation, observationally** — for a well-formed engine and a
    query over allocated variables. -/
theorem reference_eq_refbody_wf (e : Engine) (hwf : e.WF) (f : Nat) (name : String) (args : List Term)
    (hargs : ArgsScoped e args) (sched : Sched)
    (h1 : ((e.withMode .reference).query .reference f name args sched).2.ending ≠ some .oof)
    (h2 : ((e.withMode .refbody).query .refbody f name args sched).2.ending ≠ some .oof)
    (hc1 : ((e.withMode .reference).query .reference f name args sched).2.cyc = false)
    (hc2 : ((e.withMode .refbody).query .refbody f name args sched).2.cyc = false) :
    ((e.withMode .reference).query .reference f name args sched).2.answers
      = ((e.withMode .refbody).query .refbody f name args sched).2.answers ∧
    ((e.withMode .reference).query .reference f name args sched).2.ending
      = ((e.withMode .refbody).query .refbody f name args sched).2.ending := by
  have hsim := run_sim e hwf f name args hargs sched
  unfold Engine.query at h1 h2 hc1 hc2 ⊢
  simp only [Bool.false_eq_true, if_false] at h1 h2 hc1 hc2 ⊢
  cases sched with
  | all => exact observe hsim h1 h2 hc1 hc2
  | stop k =>
    cases k with
    | zero => exact ⟨rfl, rfl⟩
    | succ k => exact observe hsim h1 h2 hc1 hc2
  | raise k =>
    cases k with
    | zero => exact ⟨rfl, rfl⟩
    | succ k => exact observe hsim h1 h2 hc1 hc2

/-- the same, for an engine with nothing bound (the state between top-level operations) -/
theorem reference_eq_refbody_unbound (e : Engine) (hb : ∀ x, e.w.b x = none) (hdb : DbClosed e.w.db)
    (hrows : DefsRowsClosed e.defs) (f : Nat) (name : String) (args : List Term)
    (hargs : ArgsScoped e args) (sched : Sched)
    (h1 : ((e.withMode .reference).query .reference f name args sched).2.ending ≠ some .oof)
    (h2 : ((e.withMode .refbody).query .refbody f name args sched).2.ending ≠ some .oof)
    (hc1 : ((e.withMode .reference).query .reference f name args sched).2.cyc = false)
    (hc2 : ((e.withMode .refbody).query .refbody f name args sched).2.cyc = false) :
    ((e.withMode .reference).query .reference f name args sched).2.answers
      = ((e.withMode .refbody).query .refbody f name args sched).2.answers ∧
    ((e.withMode .reference).query .reference f name args sched).2.ending
      = ((e.withMode .refbody).query .refbody f name args sched).2.ending :=
  reference_eq_refbody_wf e (Engine.WF.of_unbound e hb hdb hrows) f name args hargs sched h1 h2 hc1 hc2

/-!
### The statement without well-formedness hypotheses is false

The task statement was

```
theorem reference_eq_refbody (e : Engine) (f : Nat) (name : String) (args : List Term) (sched : Sched)
    (h1 : ((e.withMode .reference).query .reference f name args sched).2.ending ≠ some .oof)
    (h2 : ((e.withMode .refbody).query .refbody f name args sched).2.ending ≠ some .oof)
    (hc1 : ((e.withMode .reference).query .reference f name args sched).2.cyc = false)
    (hc2 : ((e.withMode .refbody).query .refbody f name args sched).2.cyc = false) :
    ((e.withMode .reference).query .reference f name args sched).2.answers
      = ((e.withMode .refbody).query .refbody f name args sched).2.answers ∧
    ((e.withMode .reference).query .reference f name args sched).2.ending
      = ((e.withMode .refbody).query .refbody f name args sched).2.ending
```

It quantifies over every engine state and every argument list.  When the query mentions a cell at or
beyond the allocation counter `e.w.next`, the "new" variables of the textbook activation are not new:
they collide with the query's variables, and the aliased activation (which allocates fewer cells)
collides differently.  Counterexamples, evaluated with `#eval` (file `ActivationCounterexample.lean`
at the package root; `lake env lean ActivationCounterexample.lean`), default engine (`w.next = 1000`,
nothing bound, empty store), fuel 100 (or 6), `Sched.all`:

* program `p(X,Y).`, query `p(_1001, _1000)`:
    reference: X ↦ cell 1000, Y ↦ cell 1001; `unify(_1001, _1000)` binds 1001 := 1000, then
      `unify(_1000, _1001)` finds both sides equal: X and Y have become the same variable;
      answers = [`$ans(_0,_0)`], ending `none`, cyc `false`;
    refbody:   X := _1001, Y := _1000, nothing is unified; answers = [`$ans(_0,_1)`], ending `none`, cyc `false`.
* program `p(X,Y) :- X = a, Y = b.`, same query:
    reference: answers = [] (X and Y are one variable, `Y = b` fails after `X = a`);
    refbody:   answers = [`$ans(a,b)`]; both end with `none`, cyc `false`.

With the query over allocated cells (`p(_1, _0)`) both give `$ans(a,b)` — and `reference_eq_refbody_wf`
above proves that this is so in general.  The hypotheses added are exactly what the counterexample
violates (`ArgsScoped`) plus the corresponding conditions on what is already in the engine: bindings
within the allocated cells and acyclic (`Engine.WF.inScope`, `.solvable` — vacuous when nothing is
bound), stored facts and registered rows closed (`.closed`, `.rows` — a stored term with a variable
`≥ nvars` is renamed to a cell beyond the block `matchFact` allocates for it, and collides later in
the same way).
-/

end Yld
