/-
  Every identifier of the emitted Python is identifier-shaped: source text reaches the generated
  code only inside string constants, integer constants, and names of the shape
  `[A-Za-z_][A-Za-z0-9_]*` (variables `V_…` / `x<n>`, parameters, loop variables, flags, function
  keys of identifier-checked head names, the engine API).

  * `compileProgram_idents`: the code generator alone — predicates with identifier names and
    identifier variables give a program whose identifier positions hold identifiers.
  * `lex_good`: the text of every VARIABLE token consists of `isIdChar` characters.
  * `NV.term_good`, `NV.body_good`, `parseClause_good`, `parseProgram_good`, `frontend_good`: the
    parser builds variable names only with `mkVar` (`V_<token text>` / `x<n>`); `toSTerm` and
    `bodyOfRaw` keep the variable names; accepted head names passed `headNameKind`.
  * `groupClauses_inv`: grouping only regroups.
  * `emitted_identifiers_are_identifiers`: the composition, for the whole front end.
-/
import Yld.Model.Emit
import Yld.Model.Parser
import Yld.Proofs.ClauseOK
import Yld.Proofs.Program
import Std.Data.String.ToNat
namespace Yld

mutual
/-- the strings an emitted expression uses in identifier position (variable reads, callees) -/
def PExpr.idents : PExpr → List String
  | .name s => [s]
  | .call f args => f :: PExpr.identsL args
  | .list items => PExpr.identsL items
  | _ => []
def PExpr.identsL : List PExpr → List String
  | [] => []
  | e :: es => e.idents ++ PExpr.identsL es
end

mutual
/-- the strings an emitted statement uses in identifier position -/
def PStmt.idents : PStmt → List String
  | .assign lhs rhs => lhs :: rhs.idents
  | .forIn v it body => v :: it.idents ++ PStmt.identsL body
  | .ifS c body => c.idents ++ PStmt.identsL body
  | .yieldS e => e.idents
  | .defS name params body => name :: params ++ PStmt.identsL body
  | _ => []
def PStmt.identsL : List PStmt → List String
  | [] => []
  | s :: ss => s.idents ++ PStmt.identsL ss
end

/-! ### Strings -/

theorem isAsciiIdent_iff (s : String) :
    isAsciiIdent s = true ↔ ∃ c cs, s.toList = c :: cs ∧ (isLower c || isUpper c || c == '_') = true ∧ ∀ x ∈ cs, isIdChar x = true := by
  unfold isAsciiIdent
  cases h : s.toList with
  | nil => simp
  | cons c cs =>
    simp only [List.all_eq_true, Bool.and_eq_true]
    constructor
    · intro h; exact ⟨c, cs, rfl, h.1, h.2⟩
    · rintro ⟨c', cs', e, h1, h2⟩
      cases e
      exact ⟨h1, h2⟩

theorem isIdChar_of_first {c : Char} (h : (isLower c || isUpper c || c == '_') = true) : isIdChar c = true := by
  unfold isIdChar
  simp only [Bool.or_eq_true] at h ⊢
  rcases h with (h | h) | h
  · exact Or.inl (Or.inl (Or.inl h))
  · exact Or.inl (Or.inl (Or.inr h))
  · exact Or.inr h

/-- an identifier followed by identifier characters is an identifier -/
theorem isAsciiIdent_append (p q : String) (hp : isAsciiIdent p = true) (hq : ∀ c ∈ q.toList, isIdChar c = true) :
    isAsciiIdent (p ++ q) = true := by
  obtain ⟨c, cs, hl, hc, hcs⟩ := (isAsciiIdent_iff p).mp hp
  rw [isAsciiIdent_iff]
  refine ⟨c, cs ++ q.toList, by rw [String.toList_append, hl]; rfl, hc, ?_⟩
  intro x hx
  rcases List.mem_append.mp hx with h | h
  · exact hcs x h
  · exact hq x h

theorem isIdChar_of_isDigit (c : Char) (h : c.isDigit = true) : isIdChar c = true := by
  have : isDigit c = true := by
    simp only [Char.isDigit, Bool.and_eq_true, decide_eq_true_eq] at h
    simp only [isDigit, Bool.and_eq_true, decide_eq_true_eq, Char.le_def]
    exact h
  simp [isIdChar, this]

theorem isIdChar_toString_nat (n : Nat) : ∀ c ∈ (toString n).toList, isIdChar c = true := by
  intro c hc
  have : c ∈ Nat.toDigits 10 n := by simpa using hc
  exact isIdChar_of_isDigit c (Nat.isDigit_of_mem_toDigits (by decide) (by decide) this)

theorem isAsciiIdent_append_nat (p : String) (n : Nat) (hp : isAsciiIdent p = true) :
    isAsciiIdent (p ++ toString n) = true :=
  isAsciiIdent_append p _ hp (isIdChar_toString_nat n)


/-! ### Lists of identifiers -/

/-- all strings of the list are ASCII identifiers -/
def Good (l : List String) : Prop := ∀ n ∈ l, isAsciiIdent n = true

@[simp] theorem good_nil : Good [] := by intro n h; cases h
@[simp] theorem good_cons (a : String) (l : List String) : Good (a :: l) ↔ isAsciiIdent a = true ∧ Good l := by
  simp [Good]
@[simp] theorem good_append (a b : List String) : Good (a ++ b) ↔ Good a ∧ Good b := by
  simp only [Good, List.mem_append]
  exact ⟨fun h => ⟨fun n hn => h n (Or.inl hn), fun n hn => h n (Or.inr hn)⟩,
    fun h n hn => hn.elim (h.1 n) (h.2 n)⟩
theorem good_flatten_map {α : Type} (f : α → List String) (l : List α) :
    Good (l.map f).flatten ↔ ∀ a ∈ l, Good (f a) := by
  induction l with
  | nil => simp
  | cons a as ih => simp [ih]
theorem Good.sub {a b : List String} (h : Good b) (hs : ∀ x ∈ a, x ∈ b) : Good a :=
  fun n hn => h n (hs n hn)

theorem PExpr.identsL_nil : PExpr.identsL [] = [] := by rw [PExpr.identsL]
theorem PExpr.identsL_cons (e : PExpr) (es : List PExpr) : PExpr.identsL (e :: es) = e.idents ++ PExpr.identsL es := by
  rw [PExpr.identsL]
theorem PStmt.identsL_nil : PStmt.identsL [] = [] := by rw [PStmt.identsL]
theorem PStmt.identsL_cons (e : PStmt) (es : List PStmt) : PStmt.identsL (e :: es) = e.idents ++ PStmt.identsL es := by
  rw [PStmt.identsL]
theorem PStmt.identsL_append (a b : List PStmt) : PStmt.identsL (a ++ b) = PStmt.identsL a ++ PStmt.identsL b := by
  induction a with
  | nil => simp [PStmt.identsL_nil]
  | cons s ss ih => simp [PStmt.identsL_cons, ih]

/-! ### The code generator -/

@[simp] theorem lit_query : isAsciiIdent "query" = true := by decide
@[simp] theorem lit_unify : isAsciiIdent "unify" = true := by decide
@[simp] theorem lit_variable : isAsciiIdent "variable" = true := by decide
@[simp] theorem lit_atom : isAsciiIdent "atom" = true := by decide
@[simp] theorem lit_functor : isAsciiIdent "functor" = true := by decide
@[simp] theorem lit_makelist : isAsciiIdent "makelist" = true := by decide
@[simp] theorem lit_listpair : isAsciiIdent "listpair" = true := by decide
@[simp] theorem lit_nil : isAsciiIdent "ATOM_NIL" = true := by decide
@[simp] theorem lit_doBreak : isAsciiIdent "doBreak" = true := by decide
@[simp] theorem lit_underscore : isAsciiIdent "_" = true := by decide

theorem exprOfSTerm_idents (t : STerm) (h : Good t.vars) : Good (exprOfSTerm t).idents := by
  induction t using STerm.rec (motive_2 := fun ts => (∀ t ∈ ts, Good (STerm.vars t)) →
      Good (PExpr.identsL (ts.map exprOfSTerm))) with
  | var n => simpa [exprOfSTerm, PExpr.idents, STerm.vars] using h
  | atom s => simp [exprOfSTerm, PExpr.idents, PExpr.identsL]
  | num n => simp [exprOfSTerm, PExpr.idents]
  | fn f args ih =>
    rw [vars_fn', good_flatten_map] at h
    rw [expr_fn']
    simp [PExpr.idents, PExpr.identsL, ih h]
  | numfn f args ih =>
    rw [vars_numfn', good_flatten_map] at h
    rw [expr_numfn']
    simp [PExpr.idents, PExpr.identsL, ih h]
  | list items ih =>
    rw [vars_list', good_flatten_map] at h
    cases items with
    | nil => simp [exprOfSTerm, PExpr.idents]
    | cons i is =>
      rw [expr_list']
      have := ih h
      simp only [PExpr.idents, PExpr.identsL, good_cons, List.append_nil]
      exact ⟨lit_makelist, this⟩
  | lpair a b iha ihb =>
    simp only [STerm.vars, good_append] at h
    simp [exprOfSTerm, PExpr.idents, PExpr.identsL, iha h.1, ihb h.2]
  | nil => simp [PExpr.identsL]
  | cons t ts iht ihts =>
    rename_i h
    simp only [List.map_cons, PExpr.identsL_cons, good_append]
    exact ⟨iht (h t (by simp)), ihts (fun t' ht' => h t' (by simp [ht']))⟩

theorem exprsOfSTerms_idents (ts : List STerm) (h : ∀ t ∈ ts, Good (STerm.vars t)) :
    Good (PExpr.identsL (ts.map exprOfSTerm)) := by
  induction ts with
  | nil => simp [PExpr.identsL]
  | cons t ts ih =>
    simp only [List.map_cons, PExpr.identsL_cons, good_append]
    exact ⟨exprOfSTerm_idents t (h t (by simp)), ih (fun t' ht' => h t' (by simp [ht']))⟩

theorem labelName_good (l : Nat) : isAsciiIdent (labelName l) = true :=
  isAsciiIdent_append_nat "cutIf" l (by decide)
theorem loopVar_good (l : Nat) : isAsciiIdent ("l" ++ toString l) = true :=
  isAsciiIdent_append_nat "l" l (by decide)
theorem argVar_good (l : Nat) : isAsciiIdent ("arg" ++ toString l) = true :=
  isAsciiIdent_append_nat "arg" l (by decide)

@[simp] theorem labelName_good' (l : Nat) : isAsciiIdent ("cutIf" ++ l.repr) = true := labelName_good l
@[simp] theorem loopVar_good' (l : Nat) : isAsciiIdent ("l" ++ l.repr) = true := loopVar_good l
@[simp] theorem argVar_good' (l : Nat) : isAsciiIdent ("arg" ++ l.repr) = true := argVar_good l

theorem breakCode_idents : Good (PStmt.identsL breakCode) := by
  simp [breakCode, PStmt.identsL, PStmt.idents, PExpr.idents]

theorem stmtOfCode_idents (c : Code) : ∀ lvl, Good c.vars → Good (PStmt.identsL (stmtOfCode lvl c)) := by
  induction c using Code.rec (motive_2 := fun cs => ∀ lvl, Good (Code.varsL cs) →
      Good (PStmt.identsL (stmtsOfCode lvl cs))) with
  | yieldF => intro lvl _; simp [stmtOfCode, PStmt.identsL, PStmt.idents, PExpr.idents]
  | yieldT => intro lvl _; simp [stmtOfCode, PStmt.identsL, PStmt.idents, PExpr.idents]
  | ret => intro lvl _; simp [stmtOfCode, PStmt.identsL, PStmt.idents]
  | brk l =>
    intro lvl _
    simp [stmtOfCode, PStmt.identsL, PStmt.idents, PExpr.idents, labelName_good]
  | block l body ih =>
    intro lvl h
    rw [vars_block] at h
    have hb := breakCode_idents
    cases body with
    | nil => simp [stmtOfCode, PStmt.identsL_cons, PStmt.identsL_nil, PStmt.idents, PExpr.idents, labelName_good, hb]
    | cons b bs =>
      have := ih lvl h
      simp [stmtOfCode, PStmt.identsL_cons, PStmt.identsL_nil, PStmt.idents, PExpr.idents, PExpr.identsL, labelName_good, hb, this]
  | foreach name args body ih =>
    intro lvl h
    rw [vars_foreach, good_append, good_flatten_map] at h
    have hb := breakCode_idents
    have ha := exprsOfSTerms_idents args h.1
    cases body with
    | nil => simp [stmtOfCode, PStmt.identsL_cons, PStmt.identsL_nil, PStmt.idents, PExpr.idents, PExpr.identsL, hb, ha]
    | cons b bs =>
      have := ih (lvl + 1) h.2
      simp [stmtOfCode, PStmt.identsL_cons, PStmt.idents, PExpr.idents, PExpr.identsL, hb, ha, this]
  | nil => simp [stmtsOfCode, PStmt.identsL]
  | cons c cs ihc ihcs =>
    rename_i lvl h
    rw [varsL_cons, good_append] at h
    rw [stmtsOfCode, PStmt.identsL_append, good_append]
    exact ⟨ihc lvl h.1, ihcs lvl h.2⟩

theorem stmtsOfCode_idents (cs : List Code) : ∀ lvl, Good (Code.varsL cs) → Good (PStmt.identsL (stmtsOfCode lvl cs)) := by
  induction cs with
  | nil => intro lvl _; simp [stmtsOfCode, PStmt.identsL]
  | cons c cs ih =>
    intro lvl h
    rw [varsL_cons, good_append] at h
    rw [stmtsOfCode, PStmt.identsL_append, good_append]
    exact ⟨stmtOfCode_idents c lvl h.1, ih lvl h.2⟩

theorem wrapUnifs_idents (code : List Code) (hc : Good (Code.varsL code)) :
    ∀ (unifs : List (Nat × STerm)) (lvl : Nat), (∀ p ∈ unifs, Good (STerm.vars p.2)) →
      Good (PStmt.identsL (wrapUnifs lvl unifs code)) := by
  intro unifs
  induction unifs with
  | nil => intro lvl _; rw [wrapUnifs]; exact stmtsOfCode_idents code lvl hc
  | cons p rest ih =>
    intro lvl h
    obtain ⟨i, t⟩ := p
    have ht := exprOfSTerm_idents t (h (i, t) (by simp))
    have hr := ih (lvl + 1) (fun p hp => h p (by simp [hp]))
    have hb := breakCode_idents
    rw [wrapUnifs]
    have hbody : Good (PStmt.identsL (match wrapUnifs (lvl + 1) rest code with | [] => [PStmt.passS] | b => b)) := by
      split
      · simp [PStmt.identsL, PStmt.idents]
      · exact hr
    simp only [PStmt.identsL_append, good_append]
    refine ⟨?_, hb⟩
    simp only [PStmt.identsL_cons, PStmt.identsL_nil, PStmt.idents, List.append_nil, good_cons, good_append]
    refine ⟨⟨loopVar_good _, ?_⟩, hbody⟩
    simp [PExpr.idents, PExpr.identsL, ht]

theorem stmtsOfClause_idents (cc : ClauseCode) (ha : Good (cc.aliases.map Prod.fst)) (hh : Good cc.declsHead)
    (hb : Good cc.declsBody) (hu : ∀ p ∈ cc.unifs, Good (STerm.vars p.2)) (hc : Good (Code.varsL cc.code)) :
    Good (PStmt.identsL (stmtsOfClause cc)) := by
  have h1 : ∀ (l : List (String × Nat)), Good (l.map Prod.fst) →
      Good (PStmt.identsL (l.map fun (v, i) => PStmt.assign v (.name ("arg" ++ toString (i + 1))))) := by
    intro l
    induction l with
    | nil => intro _; simp [PStmt.identsL]
    | cons p ps ih =>
      intro h
      obtain ⟨v, i⟩ := p
      simp only [List.map_cons, good_cons] at h
      rw [List.map_cons, PStmt.identsL_cons]
      refine (good_append _ _).mpr ⟨?_, ih h.2⟩
      simp [PStmt.idents, PExpr.idents, h.1]
  have h2 : ∀ (l : List String), Good l →
      Good (PStmt.identsL (l.map fun v => PStmt.assign v (.call "variable" []))) := by
    intro l
    induction l with
    | nil => intro _; simp [PStmt.identsL]
    | cons v vs ih =>
      intro h
      simp only [good_cons] at h
      rw [List.map_cons, PStmt.identsL_cons]
      refine (good_append _ _).mpr ⟨?_, ih h.2⟩
      simp [PStmt.idents, PExpr.idents, PExpr.identsL, h.1]
  unfold stmtsOfClause
  simp only [PStmt.identsL_append, good_append]
  exact ⟨⟨⟨h1 _ ha, h2 _ hh⟩, h2 _ hb⟩, wrapUnifs_idents cc.code hc cc.unifs 0 hu⟩

/-- everything `compileClause` hands to the code generator is named by variables of the clause -/
theorem compileClause_idents (c : Clause) (n : Nat) (hh : Good (c.head.map STerm.vars).flatten) (hb : Good c.body.vars) :
    Good (PStmt.identsL (stmtsOfClause (compileClause c n).1)) := by
  have hal := compileClause_aliases c n
  have hdh : (compileClause c n).1.declsHead =
      dedup ((c.head.map STerm.vars).flatten.filter fun v => !((compileClause c n).1.aliases.map (·.1)).contains v) := rfl
  have hdb : (compileClause c n).1.declsBody =
      dedup (c.body.vars.filter fun v => !((compileClause c n).1.aliases.map (·.1) ++ (compileClause c n).1.declsHead).contains v) := rfl
  have hcode : (compileClause c n).1.code = (comp c.body [] n).1 := rfl
  have hun : (compileClause c n).1.unifs = ((c.head.zip (headAlias c.head)).zipIdx).filterMap (fun (x : (STerm × Option String) × Nat) =>
      match x.1.2 with | none => some (x.2, x.1.1) | some _ => none) := rfl
  apply stmtsOfClause_idents
  · rw [hal]
    exact hh.sub fun v hv => topVars_sub _ v (List.mem_filter.mp hv).1
  · rw [hdh]
    exact hh.sub fun v hv => (List.mem_filter.mp (((dedup_spec _).2 v).mp hv)).1
  · rw [hdb]
    exact hb.sub fun v hv => (List.mem_filter.mp (((dedup_spec _).2 v).mp hv)).1
  · intro p hp
    rw [hun] at hp
    obtain ⟨x, hx, hxp⟩ := List.mem_filterMap.mp hp
    obtain ⟨⟨t, o⟩, i⟩ := x
    have ht : t ∈ c.head := (List.of_mem_zip (List.fst_mem_of_mem_zipIdx hx)).1
    have hp2 : p.2 = t := by
      cases o with
      | none => simp only [Option.some.injEq] at hxp; rw [← hxp]
      | some _ => cases hxp
    rw [hp2]
    exact ((good_flatten_map STerm.vars c.head).mp hh) t ht
  · rw [hcode]
    apply hb.sub
    intro v hv
    rcases comp_vars c.body [] n v hv with h | ⟨k, hk, _⟩
    · exact h
    · cases hk

theorem compileClauses_idents : ∀ (cs : List Clause) (n : Nat),
    (∀ c ∈ cs, Good (c.head.map STerm.vars).flatten ∧ Good c.body.vars) →
    Good (PStmt.identsL ((compileClauses cs n).1.map stmtsOfClause).flatten) := by
  intro cs
  induction cs with
  | nil => intro n _; simp [compileClauses, PStmt.identsL]
  | cons c cs ih =>
    intro n h
    have hc := h c (by simp)
    simp only [compileClauses, List.map_cons, List.flatten_cons, PStmt.identsL_append, good_append]
    exact ⟨compileClause_idents c n hc.1 hc.2, ih _ (fun c' hc' => h c' (by simp [hc']))⟩

theorem predKey_good (name : String) (n : Nat) (h : isAsciiIdent name = true) : isAsciiIdent (predKey name n) = true := by
  unfold predKey
  apply isAsciiIdent_append _ _ _ (isIdChar_toString_nat n)
  apply isAsciiIdent_append _ _ h
  intro c hc
  have : c = '_' := by simpa using hc
  subst this
  decide

theorem params_good (n : Nat) : Good ((List.range n).map fun i => "arg" ++ toString (i + 1)) := by
  intro s hs
  obtain ⟨i, _, rfl⟩ := List.mem_map.mp hs
  exact argVar_good _

theorem defOfPred_idents (p : Pred) (ccs : List ClauseCode) (hn : isAsciiIdent p.name = true)
    (hb : Good (PStmt.identsL (ccs.map stmtsOfClause).flatten)) : Good (defOfPred p ccs).idents := by
  unfold defOfPred
  have hbody : Good (PStmt.identsL (match (ccs.map stmtsOfClause).flatten with | [] => [PStmt.passS] | b => b)) := by
    split
    · simp [PStmt.identsL, PStmt.idents]
    · exact hb
  simp only [PStmt.idents, PStmt.identsL_cons, PStmt.identsL_nil, PExpr.idents, PExpr.identsL, good_cons, good_append,
    good_nil, List.append_nil, and_true]
  exact ⟨⟨predKey_good _ _ hn, params_good _⟩, lit_doBreak, lit_underscore, hbody⟩

/-- **The generator only emits identifier-shaped names.** For predicates whose names are ASCII
    identifiers and whose clause variables are ASCII identifiers, every string in identifier
    position of the generated program is an ASCII identifier. -/
theorem compileProgram_idents (preds : List Pred)
    (hname : ∀ p ∈ preds, isAsciiIdent p.name = true)
    (hvars : ∀ p ∈ preds, ∀ c ∈ p.clauses, (∀ v ∈ (c.head.map STerm.vars).flatten, isAsciiIdent v = true) ∧
      (∀ v ∈ c.body.vars, isAsciiIdent v = true)) :
    ∀ n ∈ PStmt.identsL (compileProgram preds), isAsciiIdent n = true := by
  unfold compileProgram
  suffices h : ∀ (preds : List Pred) (acc : List PStmt) (n : Nat),
      (∀ p ∈ preds, isAsciiIdent p.name = true) →
      (∀ p ∈ preds, ∀ c ∈ p.clauses, Good (c.head.map STerm.vars).flatten ∧ Good c.body.vars) →
      Good (PStmt.identsL acc) →
      Good (PStmt.identsL (preds.foldl (fun (x : List PStmt × Nat) p =>
        ((x.1 ++ [defOfPred p (compilePred p x.2).1], (compilePred p x.2).2) : List PStmt × Nat)) (acc, n)).1) from
    h preds [] 0 hname hvars (by simp [PStmt.identsL])
  intro preds
  induction preds with
  | nil => intro acc n _ _ h; exact h
  | cons p ps ih =>
    intro acc n hn hv hacc
    rw [List.foldl_cons]
    apply ih
    · exact fun p' hp' => hn p' (by simp [hp'])
    · exact fun p' hp' => hv p' (by simp [hp'])
    · simp only [PStmt.identsL_append, PStmt.identsL_cons, PStmt.identsL_nil, good_append, List.append_nil]
      exact ⟨hacc, defOfPred_idents p _ (hn p (by simp)) (compileClauses_idents p.clauses n (hv p (by simp)))⟩

/-! ### Grouping by name and arity -/

/-- `groupClauses` only regroups: names and clauses of the result are names and clauses of the input. -/
theorem groupClauses_inv (P : String → Prop) (Q : Clause → Prop) (cs : List SClause)
    (h : ∀ c ∈ cs, P c.name ∧ Q c.clause) :
    ∀ p ∈ groupClauses cs, P p.name ∧ ∀ cl ∈ p.clauses, Q cl := by
  unfold groupClauses
  suffices hs : ∀ (cs : List SClause) (acc : List Pred), (∀ c ∈ cs, P c.name ∧ Q c.clause) →
      (∀ p ∈ acc, P p.name ∧ ∀ cl ∈ p.clauses, Q cl) →
      ∀ p ∈ cs.foldl (fun acc c =>
        let ar := c.clause.head.length
        if acc.any (fun p => p.name == c.name && p.arity == ar) then
          acc.map fun p => if p.name == c.name && p.arity == ar
                           then { p with clauses := p.clauses ++ [c.clause] } else p
        else acc ++ [{ name := c.name, arity := ar, clauses := [c.clause] }]) acc,
        P p.name ∧ ∀ cl ∈ p.clauses, Q cl from
    hs cs [] h (by intro p hp; cases hp)
  intro cs
  induction cs with
  | nil => intro acc _ hacc; exact hacc
  | cons c cs ih =>
    intro acc h hacc
    rw [List.foldl_cons]
    apply ih _ (fun c' hc' => h c' (by simp [hc']))
    have hc := h c (by simp)
    intro p hp
    simp only at hp
    split at hp
    · obtain ⟨p0, hp0, rfl⟩ := List.mem_map.mp hp
      have h0 := hacc p0 hp0
      split
      · refine ⟨h0.1, ?_⟩
        intro cl hcl
        rcases List.mem_append.mp hcl with h1 | h1
        · exact h0.2 cl h1
        · have : cl = c.clause := by simpa using h1
          rw [this]; exact hc.2
      · exact h0
    · rcases List.mem_append.mp hp with h1 | h1
      · exact hacc p h1
      · have : p = { name := c.name, arity := c.clause.head.length, clauses := [c.clause] } := by simpa using h1
        subst this
        refine ⟨hc.1, ?_⟩
        intro cl hcl
        have : cl = c.clause := by simpa using hcl
        rw [this]; exact hc.2

/-! ### The lexer: VARIABLE tokens consist of identifier characters -/

/-- the text of a VARIABLE token consists of identifier characters -/
def TokGood : Tok → Prop
  | .var s => ∀ c ∈ s.toList, isIdChar c = true
  | _ => True

def ToksGood (toks : List Tok) : Prop := ∀ t ∈ toks, TokGood t

theorem ToksGood.tail {t : Tok} {ts : List Tok} (h : ToksGood (t :: ts)) : ToksGood ts :=
  fun x hx => h x (List.mem_cons_of_mem _ hx)
theorem ToksGood.tail2 {t u : Tok} {ts : List Tok} (h : ToksGood (t :: u :: ts)) : ToksGood ts := h.tail.tail
theorem ToksGood.head {s : String} {ts : List Tok} (h : ToksGood (.var s :: ts)) : ∀ c ∈ s.toList, isIdChar c = true :=
  h (.var s) List.mem_cons_self

theorem of_mem_takeWhile {α : Type} (p : α → Bool) : ∀ (l : List α) (x : α), x ∈ l.takeWhile p → p x = true := by
  intro l
  induction l with
  | nil => intro x h; cases h
  | cons a as ih =>
    intro x h
    rw [List.takeWhile_cons] at h
    split at h
    · rcases List.mem_cons.mp h with rfl | h
      · assumption
      · exact ih x h
    · cases h

theorem lexOne_good (cs : List Char) (t : Tok) (n : Nat) (h : lexOne cs = some (some t, n)) : TokGood t := by
  unfold lexOne at h
  split at h
  · cases h
  · rename_i c rest
    split at h
    · cases h
    split at h
    · cases hs : scanComment rest 1 <;> rw [hs] at h <;> cases h
    split at h
    · cases hs : scanString rest 1 false none <;> rw [hs] at h <;> cases h
      trivial
    split at h
    · cases h
      intro x hx
      rw [String.toList_ofList] at hx
      exact of_mem_takeWhile _ _ _ hx
    split at h
    · simp only at h
      split at h
      · cases h; trivial
      split at h
      · cases h; trivial
      · cases h; trivial
    split at h
    · cases h; trivial
    split at h <;> first | (cases h; trivial) | cases h

theorem lexAll_good : ∀ (f : Nat) (cs : List Char) (acc toks : List Tok), ToksGood acc →
    lexAll f cs acc = some toks → ToksGood toks := by
  intro f
  induction f with
  | zero =>
    intro cs acc toks hacc h
    cases cs with
    | nil =>
      simp only [lexAll, Option.some.injEq] at h
      subst h
      exact fun t ht => hacc t (List.mem_reverse.mp ht)
    | cons c cs => simp [lexAll] at h
  | succ f ih =>
    intro cs acc toks hacc h
    cases cs with
    | nil =>
      simp only [lexAll, Option.some.injEq] at h
      subst h
      exact fun t ht => hacc t (List.mem_reverse.mp ht)
    | cons c cs =>
      rw [lexAll] at h
      case x_3 => intro e; cases e
      split at h
      · cases h
      · rename_i t n heq
        refine ih _ _ _ ?_ h
        cases t with
        | none => exact hacc
        | some t =>
          intro x hx
          rcases List.mem_cons.mp hx with rfl | hx
          · exact lexOne_good _ _ _ heq
          · exact hacc x hx

theorem lex_good (s : String) (toks : List Tok) (h : lex s = some toks) : ToksGood toks :=
  lexAll_good _ _ [] toks (by intro t ht; cases ht) h

/-! ### The parser: every variable name it builds is `V_<token text>` or `x<n>` -/

mutual
/-- variable names of a raw term -/
def RTerm.vars : RTerm → List String
  | .var v => [v]
  | .fn _ _ args => RTerm.varsL args
  | .list items => RTerm.varsL items
  | .lpair h t => h.vars ++ t.vars
  | _ => []
def RTerm.varsL : List RTerm → List String
  | [] => []
  | t :: ts => t.vars ++ RTerm.varsL ts
end

def RGoal.vars : RGoal → List String
  | .term t => t.vars
  | _ => []

def RBody.vars : RBody → List String
  | .goal g => g.vars
  | .conj a b | .disj a b | .ite a b => a.vars ++ b.vars
  | .neg a => a.vars

theorem ToksGood.sub {a b : List Tok} (h : ToksGood b) (hs : ∀ x ∈ a, x ∈ b) : ToksGood a :=
  fun x hx => h x (hs x hx)

theorem mkVar_good (s : String) (st : PS) (h : ∀ c ∈ s.toList, isIdChar c = true) : Good (mkVar s st).1.vars := by
  unfold mkVar
  split
  · simp only [RTerm.vars, good_cons, good_nil, and_true]
    exact isAsciiIdent_append_nat "x" _ (by decide)
  · simp only [RTerm.vars, good_cons, good_nil, and_true]
    exact isAsciiIdent_append "V_" s (by decide) h

theorem foldr_lpair_good (items : List RTerm) (tv : RTerm) (hi : Good (RTerm.varsL items)) (ht : Good tv.vars) :
    Good (items.foldr (fun h t => RTerm.lpair h t) tv).vars := by
  induction items with
  | nil => exact ht
  | cons i is ih =>
    simp only [RTerm.varsL, good_append] at hi
    simp only [List.foldr_cons, RTerm.vars, good_append]
    exact ⟨hi.1, ih hi.2⟩

namespace NV

def PP (f : Nat) : Prop := ∀ toks st t rest st', ToksGood toks →
  parsePrimary f toks st = .ok (t, rest, st') → Good t.vars ∧ ToksGood rest
def PA (f : Nat) : Prop := ∀ toks st name isNum t rest st', ToksGood toks →
  parseArgs f toks st name isNum = .ok (t, rest, st') → Good t.vars ∧ ToksGood rest
def PL (f : Nat) : Prop := ∀ toks st items rest st', ToksGood toks →
  parseTermList f toks st = .ok (items, rest, st') → Good (RTerm.varsL items) ∧ ToksGood rest
def PT (f : Nat) : Prop := ∀ toks st t rest st', ToksGood toks →
  parseTerm f toks st = .ok (t, rest, st') → Good t.vars ∧ ToksGood rest
def PB (f : Nat) : Prop := ∀ lhs toks st t rest st', Good lhs.vars → ToksGood toks →
  parseBinTail f lhs toks st = .ok (t, rest, st') → Good t.vars ∧ ToksGood rest

theorem pp_succ (f : Nat) (ihP : PP f) (ihA : PA f) (ihL : PL f) (ihT : PT f) : PP (f+1) := by
  intro toks st t rest st' hg h
  unfold parsePrimary at h
  split at h
  next s n rest1 =>
    cases h
    exact ⟨by simp [RTerm.vars], hg.sub (by intro x hx; simp [hx])⟩
  next s rest1 => exact ihA _ _ _ _ _ _ _ hg.tail2 h
  next s rest1 => exact ihA _ _ _ _ _ _ _ hg.tail2 h
  next s rest1 => exact ihA _ _ _ _ _ _ _ hg.tail2 h
  next s rest1 _ _ => cases h; exact ⟨by simp [RTerm.vars], hg.tail⟩
  next s rest1 _ => cases h; exact ⟨by simp [RTerm.vars], hg.tail⟩
  next s rest1 _ => cases h; exact ⟨by simp [RTerm.vars], hg.tail⟩
  next s rest1 =>
    split at h
    rename_i v st2 heq
    cases h
    have := mkVar_good s st hg.head
    rw [heq] at this
    exact ⟨this, hg.tail⟩
  next o rest1 =>
    split at h
    next t1 rest2 st2 heq =>
      cases h
      obtain ⟨h1, h2⟩ := ihP _ _ _ _ _ hg.tail heq
      exact ⟨by simpa [RTerm.vars, RTerm.varsL] using h1, h2⟩
    next => cases h
  next o rest1 =>
    split at h
    next a rest2 st2 heq =>
      split at h
      next b rest3 st3 heq2 =>
        cases h
        obtain ⟨h1, h2⟩ := ihT _ _ _ _ _ hg.tail2 heq
        obtain ⟨h3, h4⟩ := ihT _ _ _ _ _ h2.tail heq2
        exact ⟨by simp [RTerm.vars, RTerm.varsL, h1, h3], h4.tail⟩
      next => cases h
      next => cases h
    next => cases h
    next => cases h
  next rest1 =>
    split at h
    next t1 rest2 st2 heq =>
      cases h
      obtain ⟨h1, h2⟩ := ihT _ _ _ _ _ hg.tail heq
      exact ⟨h1, h2.tail⟩
    next => cases h
    next => cases h
  next rest1 =>
    cases h
    exact ⟨by simp [RTerm.vars, RTerm.varsL], hg.tail2⟩
  next rest1 _ =>
    split at h
    next items rest2 st2 heq =>
      cases h
      obtain ⟨h1, h2⟩ := ihL _ _ _ _ _ hg.tail heq
      exact ⟨by simpa [RTerm.vars] using h1, h2.tail⟩
    next items v rest2 st2 heq =>
      split at h
      rename_i tv st3 heqv
      cases h
      obtain ⟨h1, h2⟩ := ihL _ _ _ _ _ hg.tail heq
      have := mkVar_good v st2 h2.tail.head
      rw [heqv] at this
      exact ⟨foldr_lpair_good _ _ h1 this, h2.tail2.tail⟩
    next item v rest2 st2 heq =>
      split at h
      rename_i tv st3 heqv
      cases h
      obtain ⟨h1, h2⟩ := ihL _ _ _ _ _ hg.tail heq
      have := mkVar_good v st2 h2.tail2.head
      rw [heqv] at this
      simp only [RTerm.varsL, good_append, good_nil, and_true] at h1
      exact ⟨by simp [RTerm.vars, h1, this], h2.tail2.tail2⟩
    next => cases h
    next => cases h
  next => cases h

theorem pa_succ (f : Nat) (ihL : PL f) : PA (f+1) := by
  intro toks st name isNum t rest st' hg h
  unfold parseArgs at h
  split at h
  next rest1 =>
    cases h
    exact ⟨by simp [RTerm.vars, RTerm.varsL], hg.tail⟩
  next =>
    split at h
    next args rest1 st1 heq =>
      cases h
      obtain ⟨h1, h2⟩ := ihL _ _ _ _ _ hg heq
      exact ⟨by simpa [RTerm.vars] using h1, h2.tail⟩
    next => cases h
    next => cases h

theorem pl_succ (f : Nat) (ihL : PL f) (ihT : PT f) : PL (f+1) := by
  intro toks st items rest st' hg h
  unfold parseTermList at h
  split at h
  next t1 rest1 st1 heq =>
    cases h
    obtain ⟨h1, h2⟩ := ihT _ _ _ _ _ hg heq
    exact ⟨by simpa [RTerm.varsL] using h1, h2⟩
  next t1 rest1 st1 _ heq =>
    split at h
    next ts rest2 st2 heq2 =>
      cases h
      obtain ⟨h1, h2⟩ := ihT _ _ _ _ _ hg heq
      obtain ⟨h3, h4⟩ := ihL _ _ _ _ _ h2.tail heq2
      exact ⟨by simp [RTerm.varsL, h1, h3], h4⟩
    next => cases h
  next t1 rest1 st1 _ _ heq =>
    cases h
    obtain ⟨h1, h2⟩ := ihT _ _ _ _ _ hg heq
    exact ⟨by simpa [RTerm.varsL] using h1, h2⟩
  next => cases h

theorem pt_succ (f : Nat) (ihP : PP f) (ihB : PB f) : PT (f+1) := by
  intro toks st t rest st' hg h
  unfold parseTerm at h
  split at h
  next t1 rest1 st1 heq =>
    obtain ⟨h1, h2⟩ := ihP _ _ _ _ _ hg heq
    exact ihB _ _ _ _ _ _ h1 h2 h
  next => cases h

theorem pb_succ (f : Nat) (ihP : PP f) (ihB : PB f) : PB (f+1) := by
  intro lhs toks st t rest st' hl hg h
  unfold parseBinTail at h
  split at h
  next o rest1 =>
    split at h
    next rhs rest2 st2 heq =>
      obtain ⟨h1, h2⟩ := ihP _ _ _ _ _ hg.tail heq
      exact ihB _ _ _ _ _ _ (by simp [RTerm.vars, RTerm.varsL, hl, h1]) h2 h
    next => cases h
  next =>
    cases h
    exact ⟨hl, hg⟩

theorem term_good : ∀ f, PP f ∧ PA f ∧ PL f ∧ PT f ∧ PB f := by
  intro f
  induction f with
  | zero =>
    refine ⟨?_, ?_, ?_, ?_, ?_⟩
    · intro toks st t rest st' _ h; simp [parsePrimary] at h
    · intro toks st name isNum t rest st' _ h; simp [parseArgs] at h
    · intro toks st items rest st' _ h; simp [parseTermList] at h
    · intro toks st t rest st' _ h; simp [parseTerm] at h
    · intro lhs toks st t rest st' _ _ h; simp [parseBinTail] at h
  | succ f ih =>
    obtain ⟨ihP, ihA, ihL, ihT, ihB⟩ := ih
    exact ⟨pp_succ f ihP ihA ihL ihT, pa_succ f ihL, pl_succ f ihL ihT, pt_succ f ihP ihB,
      pb_succ f ihP ihB⟩

theorem goal_good (f : Nat) (toks : List Tok) (st : PS) (g : RGoal) (rest : List Tok) (st' : PS)
    (hg : ToksGood toks) (h : parseGoal f toks st = .ok (g, rest, st')) : Good g.vars ∧ ToksGood rest := by
  unfold parseGoal at h
  split at h
  next rest1 => cases h; exact ⟨by simp [RGoal.vars], hg.tail⟩
  next rest1 => cases h; exact ⟨by simp [RGoal.vars], hg.tail⟩
  next rest1 => cases h; exact ⟨by simp [RGoal.vars], hg.tail⟩
  next =>
    split at h
    next t rest1 st1 heq =>
      cases h
      exact (term_good f).2.2.2.1 _ _ _ _ _ hg heq
    next => cases h

def BP (f : Nat) : Prop := ∀ toks st b rest st', ToksGood toks →
  parseBodyPrimary f toks st = .ok (b, rest, st') → Good b.vars ∧ ToksGood rest
def BR (f : Nat) : Prop := ∀ toks st b rest st', ToksGood toks →
  parseParenBody f toks st = .ok (b, rest, st') → Good b.vars ∧ ToksGood rest
def BB (f : Nat) : Prop := ∀ p toks st b rest st', ToksGood toks →
  parseBody f p toks st = .ok (b, rest, st') → Good b.vars ∧ ToksGood rest
def BT (f : Nat) : Prop := ∀ p lhs toks st b rest st', Good lhs.vars → ToksGood toks →
  parseBodyTail f p lhs toks st = .ok (b, rest, st') → Good b.vars ∧ ToksGood rest

theorem bp_succ (f : Nat) (ihP : BP f) (ihR : BR f) : BP (f+1) := by
  intro toks st b rest st' hg h
  unfold parseBodyPrimary at h
  split at h
  next rest1 =>
    split at h
    next b1 rest2 st2 heq =>
      cases h
      obtain ⟨h1, h2⟩ := ihP _ _ _ _ _ hg.tail heq
      exact ⟨by simpa [RBody.vars] using h1, h2⟩
    next => cases h
  next rest1 =>
    split at h
    next g rest2 st2 heq =>
      have hgoal := goal_good _ _ _ _ _ _ hg heq
      split at h
      all_goals first
        | (cases h; exact ⟨by simpa [RBody.vars] using hgoal.1, hgoal.2⟩)
        | exact ihR _ _ _ _ _ hg.tail h
    next => cases h
    next => exact ihR _ _ _ _ _ hg.tail h
  next =>
    split at h
    next g rest2 st2 heq =>
      cases h
      have hgoal := goal_good _ _ _ _ _ _ hg heq
      exact ⟨by simpa [RBody.vars] using hgoal.1, hgoal.2⟩
    next => cases h

theorem br_succ (f : Nat) (ihB : BB f) : BR (f+1) := by
  intro toks st b rest st' hg h
  unfold parseParenBody at h
  split at h
  next b1 rest1 st1 heq =>
    cases h
    obtain ⟨h1, h2⟩ := ihB _ _ _ _ _ _ hg heq
    exact ⟨h1, h2.tail⟩
  next => cases h
  next => cases h

theorem bb_succ (f : Nat) (ihP : BP f) (ihT : BT f) : BB (f+1) := by
  intro p toks st b rest st' hg h
  unfold parseBody at h
  split at h
  next lhs rest1 st1 heq =>
    obtain ⟨h1, h2⟩ := ihP _ _ _ _ _ hg heq
    exact ihT _ _ _ _ _ _ _ h1 h2 h
  next => cases h

theorem bt_succ (f : Nat) (ihB : BB f) (ihT : BT f) : BT (f+1) := by
  intro p lhs toks st b rest st' hl hg h
  unfold parseBodyTail at h
  split at h
  next op rest1 =>
    split at h
    next q hq =>
      split at h
      next hge =>
        split at h
        next rhs rest2 st2 heq =>
          obtain ⟨h1, h2⟩ := ihB _ _ _ _ _ _ hg.tail heq
          refine ihT _ _ _ _ _ _ _ ?_ h2 h
          split <;> simp [RBody.vars, hl, h1]
        next => cases h
      next =>
        cases h
        exact ⟨hl, hg⟩
    next =>
      cases h
      exact ⟨hl, hg⟩
  next =>
    cases h
    exact ⟨hl, hg⟩

theorem body_good : ∀ f, BP f ∧ BR f ∧ BB f ∧ BT f := by
  intro f
  induction f with
  | zero =>
    refine ⟨?_, ?_, ?_, ?_⟩
    · intro toks st b rest st' _ h; simp [parseBodyPrimary] at h
    · intro toks st b rest st' _ h; simp [parseParenBody] at h
    · intro p toks st b rest st' _ h; simp [parseBody] at h
    · intro p lhs toks st b rest st' _ _ h; simp [parseBodyTail] at h
  | succ f ih =>
    obtain ⟨ihP, ihR, ihB, ihT⟩ := ih
    exact ⟨bp_succ f ihP ihR, br_succ f ihB, bb_succ f ihP ihT, bt_succ f ihB ihT⟩

end NV

/-! ### From raw terms to clauses -/

theorem toSTerms_eq_mapM (ts : List RTerm) : ts.mapM RTerm.toSTerm = RTerm.toSTerms ts := by
  induction ts with
  | nil => simp [RTerm.toSTerms]
  | cons t ts ih => rw [List.mapM_cons, ih, RTerm.toSTerms]

/-- `toSTerm` keeps the variable names -/
theorem toSTerm_vars (t : RTerm) : ∀ s, t.toSTerm = some s → s.vars = t.vars := by
  induction t using RTerm.rec (motive_2 := fun ts => ∀ ss, RTerm.toSTerms ts = some ss →
      (ss.map STerm.vars).flatten = RTerm.varsL ts) with
  | atom a => intro s h; simp only [RTerm.toSTerm, Option.some.injEq] at h; subst h; simp [STerm.vars, RTerm.vars]
  | num a =>
    intro s h
    simp only [RTerm.toSTerm, Option.map_eq_some_iff] at h
    obtain ⟨n, _, rfl⟩ := h
    simp [STerm.vars, RTerm.vars]
  | var v => intro s h; simp only [RTerm.toSTerm, Option.some.injEq] at h; subst h; simp [STerm.vars, RTerm.vars]
  | fn n isNum args ih =>
    intro s h
    simp only [RTerm.toSTerm, Option.map_eq_some_iff] at h
    obtain ⟨ss, hss, rfl⟩ := h
    cases isNum
    · simp only [Bool.false_eq_true, if_false, vars_fn', RTerm.vars]; exact ih ss hss
    · simp only [if_true, vars_numfn', RTerm.vars]; exact ih ss hss
  | list items ih =>
    intro s h
    simp only [RTerm.toSTerm, Option.map_eq_some_iff] at h
    obtain ⟨ss, hss, rfl⟩ := h
    simp only [vars_list', RTerm.vars]; exact ih ss hss
  | lpair a b iha ihb =>
    intro s h
    simp only [RTerm.toSTerm] at h
    cases ha : a.toSTerm with
    | none => simp [ha] at h
    | some a' =>
      cases hb : b.toSTerm with
      | none => simp [ha, hb] at h
      | some b' =>
        simp [ha, hb] at h
        subst h
        simp [STerm.vars, RTerm.vars, iha a' ha, ihb b' hb]
  | slash => intro s h; simp [RTerm.toSTerm] at h
  | nil => rename_i ss h; simp only [RTerm.toSTerms, Option.some.injEq] at h; subst h; simp [RTerm.varsL]
  | cons t ts iht ihts =>
    rename_i ss h
    simp only [RTerm.toSTerms] at h
    cases ha : t.toSTerm with
    | none => simp [ha] at h
    | some a' =>
      cases hb : RTerm.toSTerms ts with
      | none => simp [ha, hb] at h
      | some b' =>
        simp [ha, hb] at h
        subst h
        simp [RTerm.varsL, iht a' ha, ihts b' hb]

theorem toSTerms_vars (ts : List RTerm) (ss : List STerm) (h : ts.mapM RTerm.toSTerm = some ss) :
    (ss.map STerm.vars).flatten = RTerm.varsL ts := by
  rw [toSTerms_eq_mapM] at h
  induction ts generalizing ss with
  | nil => simp only [RTerm.toSTerms, Option.some.injEq] at h; subst h; simp [RTerm.varsL]
  | cons t ts ih =>
    simp only [RTerm.toSTerms] at h
    cases ha : t.toSTerm with
    | none => simp [ha] at h
    | some a' =>
      cases hb : RTerm.toSTerms ts with
      | none => simp [ha, hb] at h
      | some b' =>
        simp [ha, hb] at h
        subst h
        simp [RTerm.varsL, toSTerm_vars t a' ha, ih b' hb]

theorem goalOfTerm_vars (t : RTerm) (n : String) (isNum : Bool) (args : List RTerm)
    (h : goalOfTerm t = .ok (n, isNum, args)) : RTerm.varsL args = t.vars := by
  unfold goalOfTerm at h
  split at h
  · split at h
    · cases h
    · cases h; simp [RTerm.vars, RTerm.varsL]
  · split at h
    · cases h
    · cases h; simp [RTerm.vars]
  · cases h

/-- `bodyOfRaw` keeps the variable names -/
theorem bodyOfRaw_vars : ∀ (rb : RBody) (b : Body), bodyOfRaw rb = .ok b → b.vars = rb.vars := by
  intro rb
  induction rb with
  | goal g =>
    intro b h
    cases g with
    | tru => simp only [bodyOfRaw] at h; cases h; simp [Body.vars, RBody.vars, RGoal.vars]
    | fail => simp only [bodyOfRaw] at h; cases h; simp [Body.vars, RBody.vars, RGoal.vars]
    | cut => simp only [bodyOfRaw] at h; cases h; simp [Body.vars, RBody.vars, RGoal.vars]
    | term t =>
      simp only [bodyOfRaw] at h
      cases hg : goalOfTerm t with
      | error e => rw [hg] at h; cases h
      | ok r =>
        obtain ⟨n, isNum, args⟩ := r
        rw [hg] at h
        change (match List.mapM RTerm.toSTerm args with
          | some as => Except.ok (if isNum = true then Body.call n [.numfn n as] else Body.call n as)
          | none => Except.error FrontErr.crash) = Except.ok b at h
        split at h
        · rename_i as has
          cases h
          have h1 := toSTerms_vars args as has
          have h2 := goalOfTerm_vars t n isNum args hg
          simp only [RBody.vars, RGoal.vars, ← h2, ← h1]
          split
          · simp [Body.vars, vars_numfn']
          · simp [Body.vars]
        · cases h
  | conj a b iha ihb =>
    intro r h
    simp only [bodyOfRaw] at h
    obtain ⟨a', b', ha, hb, rfl⟩ := bodyOfRaw_bin a b Body.conj r h
    simp [Body.vars, RBody.vars, iha a' ha, ihb b' hb]
  | disj a b iha ihb =>
    intro r h
    simp only [bodyOfRaw] at h
    obtain ⟨a', b', ha, hb, rfl⟩ := bodyOfRaw_bin a b Body.disj r h
    simp [Body.vars, RBody.vars, iha a' ha, ihb b' hb]
  | ite a b iha ihb =>
    intro r h
    simp only [bodyOfRaw] at h
    obtain ⟨a', b', ha, hb, rfl⟩ := bodyOfRaw_bin a b Body.ite r h
    simp [Body.vars, RBody.vars, iha a' ha, ihb b' hb]
  | neg a iha =>
    intro r h
    simp only [bodyOfRaw] at h
    cases ha : bodyOfRaw a with
    | error e => rw [ha] at h; cases h
    | ok a' => rw [ha] at h; cases h; simp [Body.vars, RBody.vars, iha a' ha]

/-- what the proof needs of a source clause -/
def SClause.Good (sc : SClause) : Prop :=
  isAsciiIdent sc.name = true ∧ Yld.Good (sc.clause.head.map STerm.vars).flatten ∧ Yld.Good sc.clause.body.vars

theorem headNameKind_ok (n : String) (h1 : headNameKind n ≠ .bad) (h2 : (headNameKind n == .nonAscii) = false) :
    isAsciiIdent n = true := by
  unfold headNameKind at h1 h2
  split at h1
  · split at h1
    · assumption
    · exact absurd rfl h1
  · rename_i hna
    rw [if_neg hna] at h2
    cases h2

theorem finish_good (h : RGoal) (b : RBody) (rest : List Tok) (st : PS) (c : Option SClause) (na : Bool)
    (rest' : List Tok) (st' : PS) (hh : Good h.vars) (hb : Good b.vars)
    (hf : parseClause.finish h b rest st = .ok ((c, na), rest', st')) :
    rest' = rest ∧ ∀ sc, c = some sc → na = false → sc.Good := by
  unfold parseClause.finish at hf
  split at hf
  · rename_i t
    split at hf
    · cases hf
    · rename_i n isNum args hgt
      split at hf
      · cases hf
      · split at hf
        · cases hf
        · split at hf
          · cases hf
          · rename_i kind hkind
            split at hf
            · rename_i as body has hbody
              cases hf
              refine ⟨rfl, ?_⟩
              intro sc hsc hna
              cases hsc
              refine ⟨headNameKind_ok n ?_ hna, ?_, ?_⟩
              · intro e; exact hkind e
              · show Good (as.map STerm.vars).flatten
                rw [toSTerms_vars args as has, goalOfTerm_vars t n isNum args hgt]
                exact hh
              · show Good body.vars
                rw [bodyOfRaw_vars b body hbody]
                exact hb
            · cases hf
            · cases hf
  · split at hf
    · cases hf
    · cases hf

theorem parseClause_good (f : Nat) (toks : List Tok) (st : PS) (c : Option SClause) (na : Bool)
    (rest : List Tok) (st' : PS) (hg : ToksGood toks)
    (h : parseClause f toks st = .ok ((c, na), rest, st')) :
    ToksGood rest ∧ ∀ sc, c = some sc → na = false → sc.Good := by
  unfold parseClause at h
  split at h
  · rename_i rest0
    split at h
    · rename_i g rest1 st1 heq
      have hgoal := NV.goal_good _ _ _ _ _ _ hg.tail heq
      split at h
      · cases h
        exact ⟨hgoal.2.tail, by intro sc hsc; cases hsc⟩
      · cases h
    · cases h
    · cases h
  · split at h
    · rename_i hd rest1 st1 heq
      have hgoal := NV.goal_good _ _ _ _ _ _ hg heq
      obtain ⟨hr, hc⟩ := finish_good _ _ _ _ _ _ _ _ hgoal.1 (by simp [RBody.vars, RGoal.vars]) h
      exact ⟨hr ▸ hgoal.2.tail, hc⟩
    · rename_i hd rest1 st1 heq
      have hgoal := NV.goal_good _ _ _ _ _ _ hg heq
      split at h
      · rename_i b rest2 st2 heq2
        have hbody := (NV.body_good f).2.2.1 _ _ _ _ _ _ hgoal.2.tail heq2
        obtain ⟨hr, hc⟩ := finish_good _ _ _ _ _ _ _ _ hgoal.1 hbody.1 h
        exact ⟨hr ▸ hbody.2.tail, hc⟩
      · cases h
      · cases h
    · cases h
    · cases h

theorem parseProgram_good : ∀ (f : Nat) (toks : List Tok) (st : PS) (acc : List SClause) (na : Bool)
    (res : List SClause), ToksGood toks → (na = false → ∀ c ∈ acc, c.Good) →
    parseProgram f toks st acc na = .ok (res, false) → ∀ c ∈ res, c.Good := by
  intro f
  induction f with
  | zero => intro toks st acc na res _ _ h; simp [parseProgram] at h
  | succ f ih =>
    intro toks st acc na res hg hacc h
    cases toks with
    | nil =>
      simp only [parseProgram, Except.ok.injEq, Prod.mk.injEq] at h
      obtain ⟨rfl, rfl⟩ := h
      exact fun c hc => hacc rfl c (List.mem_reverse.mp hc)
    | cons tk tks =>
      simp only [parseProgram] at h
      split at h
      · rename_i c na' rest st1 heq
        obtain ⟨hr, hc⟩ := parseClause_good _ _ _ _ _ _ _ hg heq
        refine ih _ _ _ _ _ hr ?_ h
        intro hna
        have hna2 : na = false ∧ na' = false := by simpa using hna
        cases c with
        | none => exact hacc hna2.1
        | some sc =>
          intro x hx
          rcases List.mem_cons.mp hx with rfl | hx
          · exact hc _ rfl hna2.2
          · exact hacc hna2.1 x hx
      · cases h

theorem frontend_good (s : String) (cs : List SClause) (h : frontend s = .ok (cs, false)) : ∀ c ∈ cs, c.Good := by
  unfold frontend at h
  split at h
  · cases h
  · rename_i toks hlex
    exact parseProgram_good _ _ _ _ _ _ (lex_good s toks hlex) (by intro _ c hc; cases hc) h

/-- **Identifiers of the generated code.** For every text the model front end accepts (with ASCII
    head names: the Boolean of `frontend` is `false`), every string in identifier position of the
    generated program is an ASCII Python identifier. -/
theorem emitted_identifiers_are_identifiers (s : String) (cs : List SClause) (h : frontend s = .ok (cs, false)) :
    ∀ n ∈ PStmt.identsL (compileProgram (groupClauses cs)), isAsciiIdent n = true := by
  have hcs := frontend_good s cs h
  have hgrp := groupClauses_inv (fun n => isAsciiIdent n = true)
    (fun cl => Good (cl.head.map STerm.vars).flatten ∧ Good cl.body.vars) cs
    (fun c hc => ⟨(hcs c hc).1, (hcs c hc).2⟩)
  exact compileProgram_idents _ (fun p hp => (hgrp p hp).1) (fun p hp c hc => (hgrp p hp).2 c hc)

end Yld
