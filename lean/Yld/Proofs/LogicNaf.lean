/-
  Negation as failure against the logical reading (C06).

  `\+ G` is `(G -> fail ; true)`: it lets the continuation run exactly when the search for `G` ends
  without an answer. For a goal `G` of a cut-free Horn program (with any closed fact store) the search
  is sound and complete with respect to `HoldsF` (`Yld.Proofs.LogicFacts`), hence:

  * if some instance of `G` (under a solution of the heap) follows from program and store, `\+ G` fails:
    the continuation never runs (or the limit cuts the search off);
  * if no instance of `G` follows, `\+ G` succeeds exactly once, in a world with the bindings and the
    store it started with (or the limit cuts the search off).

  This is negation as *finite* failure, as sound as it can be: "not provable", for every instance.

  STATEMENTS IN THIS FILE ARE FIXED (see the task description); proofs to be supplied.

  Proofs: `LgNPass` (what an outcome may carry, a unary pass over the Horn part of the engine), `LgNaf` (the
  two statements for an abstract meaning of goals / the ranked meaning); see `LOGIC_NAF_REPORT.md`.
-/
import Yld.Proofs.LogicFacts
import Yld.Proofs.LgNPass
import Yld.Proofs.LgNaf
set_option linter.unusedVariables false
namespace Yld

/-- **`\+ G` fails when an instance of `G` is a consequence.** The outcome does not depend on the
    continuation (it never runs), and it is a plain failure or an abnormal end (the limit). -/
theorem naf_fails_when_provable (cfg : Cfg) (preds : List Pred) (h : HornCfg cfg preds)
    (hnocut : ∀ p ∈ preds, ∀ c ∈ p.clauses, c.body.cutFree = true)
    (f : Nat) (env : Env) (d : Nat) (name : String) (sargs : List STerm) (hname : userName name = true)
    (w : World) (hcl : DbClosed w.db) (hsc : w.Scoped)
    (hargs : ∀ t ∈ sargs.map (STerm.eval env), ∀ x ∈ t.vars, x < w.next)
    (θ : Nat → Term) (hθ : Solves θ w.b)
    (hh : HoldsF w.db preds name ((sargs.map (STerm.eval env)).map (Term.subst θ))) :
    ∃ r : R, (r.2 = none ∨ r.2 = some .oof ∨ ∃ e, r.2 = some (.exn e)) ∧
      ∀ k : K, solve (query cfg f) env d (.neg (.call name sargs)) k w = r := by
  obtain ⟨r, hr⟩ := holdsF_hn ⟨w.db, hcl⟩ preds hh
  obtain ⟨r0, h0, hk⟩ := Lg.F.naf_fails (D := ⟨w.db, hcl⟩) h.hc
    (fun p hp c hc => by rw [← cutFree_eq_nocut]; exact hnocut p hp c hc) f d hname (sargs.map (STerm.eval env)) w θ
    ⟨rfl, hsc, False.elim⟩ hargs hθ r hr
  refine ⟨r0, ?_, fun k => by rw [Lg.F.solve_neg_call]; exact hk k⟩
  rcases h0 with h0 | h0
  · exact Or.inl h0
  · exact Or.inr (Or.inl h0)

/-- **`\+ G` succeeds, once and binding nothing, when no instance of `G` is a consequence.** The
    continuation runs in a world with the bindings and the store of the starting world — or the search
    for `G` was cut off. -/
theorem naf_succeeds_when_not_provable (cfg : Cfg) (preds : List Pred) (h : HornCfg cfg preds)
    (f : Nat) (env : Env) (d : Nat) (name : String) (sargs : List STerm) (hname : userName name = true)
    (w : World) (hcl : DbClosed w.db) (hsc : w.Scoped)
    (hargs : ∀ t ∈ sargs.map (STerm.eval env), ∀ x ∈ t.vars, x < w.next)
    (hno : ∀ θ, Solves θ w.b → ¬ HoldsF w.db preds name ((sargs.map (STerm.eval env)).map (Term.subst θ)))
    (hsolv : Solvable w.b) (hcyc : w.cyc = false) :
    (∃ w', w'.b = w.b ∧ w'.db = w.db ∧ ∀ k : K, solve (query cfg f) env d (.neg (.call name sargs)) k w = k w') ∨
    (∃ r : R, (r.2 = some .oof ∨ (∃ e, r.2 = some (.exn e)) ∨ r.1.cyc = true) ∧
      ∀ k : K, solve (query cfg f) env d (.neg (.call name sargs)) k w = r) := by
  rcases Lg.F.naf_succeeds (D := ⟨w.db, hcl⟩) h.hc (sem_holdsF ⟨w.db, hcl⟩ preds) f d hname
    (sargs.map (STerm.eval env)) w ⟨rfl, hsc, fun _ _ => hsolv⟩ hargs hno with ⟨w', hb, hdb, hk⟩ | ⟨r0, h0, hk⟩
  · exact Or.inl ⟨w', hb, hdb, fun k => by rw [Lg.F.solve_neg_call]; exact hk k⟩
  · refine Or.inr ⟨r0, ?_, fun k => by rw [Lg.F.solve_neg_call]; exact hk k⟩
    rcases h0 with h0 | h0
    · exact Or.inl h0
    · exact Or.inr (Or.inr h0)

/-! ### Non-vacuity: `factEngine`'s program `app/3` and store (`item(a)`, `app([b], Y, [b|Y])`)

`\+ app(X, Y, [a,b])` fails in `factWorld` (the instance `X = [a,b], Y = []` follows from program and
store, `appGoalF_holds`); `\+ item(zzz)` and `\+ app([a], [], [b])` succeed (no derivation: by inversion
on `HoldsF`, one level deep). -/

/-- the goal `app(X, Y, [a,b])` as source text, `X`, `Y` the cells 0 and 1 -/
def nafArgs : List STerm := [.var "X", .var "Y", .list [.atom "a", .atom "b"]]
def nafEnv : Env := [("X", .var 0), ("Y", .var 1)]

theorem nafArgs_eval : nafArgs.map (STerm.eval nafEnv) = appGoalF := by
  simp [nafArgs, nafEnv, appGoalF, STerm.eval, Env.get, List.lookup]

/-- theorem 1 applies: `\+ app(X, Y, [a,b])` never lets its continuation run -/
example (f d : Nat) :
    ∃ r : R, (r.2 = none ∨ r.2 = some .oof ∨ ∃ e, r.2 = some (.exn e)) ∧
      ∀ k : K, solve (query appCfg f) nafEnv d (.neg (.call "app" nafArgs)) k factWorld = r :=
  naf_fails_when_provable appCfg [appPred] app_hornCfg app_nocut f nafEnv d "app" nafArgs (by decide) factWorld
    factDb_closed factWorld_scoped (by rw [nafArgs_eval]; exact appGoalF_scoped) appθF appθF_solves
    (by rw [nafArgs_eval]; exact appGoalF_holds)

theorem appPred_name_ne_item : appPred.name ≠ "item" := by decide

/-- no instance of the ground goal `item(zzz)` follows from program and store -/
theorem item_zzz_not : ¬ HoldsF factDb [appPred] "item" [.atom "zzz"] := by
  have key : ∀ name args, HoldsF factDb [appPred] name args → name = "item" → args = [.atom "zzz"] → False := by
    intro name args hh
    cases hh with
    | eq a => intro hn; exact absurd hn (by decide)
    | fact name c τ hc =>
      intro hn ha
      subst hn
      have hlen : c.args.length = 1 := by simpa using congrArg List.length ha
      rw [hlen] at hc
      have hc' : c = itemFact := by simpa [dbFacts, factDb] using hc
      subst hc'
      simp [itemFact, Term.subst] at ha
    | clause p c σ hp hcm hb =>
      intro hn
      have : p = appPred := by simpa using hp
      subst this
      exact absurd hn appPred_name_ne_item
  intro hh
  exact key _ _ hh rfl rfl

/-- theorem 2 applies: `\+ item(zzz)` lets its continuation run once, bindings and store as before —
    or the limit cut the search off -/
example (f d : Nat) :
    (∃ w', w'.b = factWorld.b ∧ w'.db = factWorld.db ∧
      ∀ k : K, solve (query appCfg f) [] d (.neg (.call "item" [.atom "zzz"])) k factWorld = k w') ∨
    (∃ r : R, (r.2 = some .oof ∨ (∃ e, r.2 = some (.exn e)) ∨ r.1.cyc = true) ∧
      ∀ k : K, solve (query appCfg f) [] d (.neg (.call "item" [.atom "zzz"])) k factWorld = r) :=
  naf_succeeds_when_not_provable appCfg [appPred] app_hornCfg f [] d "item" [.atom "zzz"] (by decide) factWorld
    factDb_closed factWorld_scoped (by simp [STerm.eval, Term.vars])
    (fun θ _ hh => item_zzz_not (by
      have hh' : HoldsF factDb [appPred] _ _ := hh
      simpa [STerm.eval, Term.subst] using hh')) solvable_empty rfl

/-- no instance of the ground goal `app([a], [], [b])` follows: the stored fact starts with `[b]`, the
    first clause with `[]`, and the second clause wants the first elements `a` and `b` to be equal -/
theorem app_a_b_not : ¬ HoldsF factDb [appPred] "app" [mkList [.atom "a"], .atom "[]", mkList [.atom "b"]] := by
  have key : ∀ name args, HoldsF factDb [appPred] name args → name = "app" →
      args = [mkList [.atom "a"], .atom "[]", mkList [.atom "b"]] → False := by
    intro name args hh
    cases hh with
    | eq a => intro hn; exact absurd hn (by decide)
    | fact name c τ hc =>
      intro hn ha
      subst hn
      have hlen : c.args.length = 3 := by simpa using congrArg List.length ha
      rw [hlen] at hc
      have e3 : dbFacts factDb "app" 3 = [appFact] := by rfl
      rw [e3] at hc
      have hc' : c = appFact := by simpa using hc
      subst hc'
      simp [appFact, Term.subst, mkList] at ha
    | clause p c σ hp hcm hb =>
      intro _ ha
      have : p = appPred := by simpa using hp
      subst this
      have hcm' : c = appClause1 ∨ c = appClause2 := by simpa [appPred] using hcm
      rcases hcm' with rfl | rfl
      · simp [appClause1, STerm.inst, mkList] at ha
      · simp [appClause2, STerm.inst, mkList] at ha
        obtain ⟨⟨h1, _⟩, _, h2, _⟩ := ha
        rw [h1] at h2
        exact absurd h2 (by simp)
  intro hh
  exact key _ _ hh rfl rfl

example (f d : Nat) :
    (∃ w', w'.b = factWorld.b ∧ w'.db = factWorld.db ∧ ∀ k : K,
      solve (query appCfg f) [] d (.neg (.call "app" [.list [.atom "a"], .list [], .list [.atom "b"]])) k factWorld = k w') ∨
    (∃ r : R, (r.2 = some .oof ∨ (∃ e, r.2 = some (.exn e)) ∨ r.1.cyc = true) ∧ ∀ k : K,
      solve (query appCfg f) [] d (.neg (.call "app" [.list [.atom "a"], .list [], .list [.atom "b"]])) k factWorld = r) :=
  naf_succeeds_when_not_provable appCfg [appPred] app_hornCfg f [] d "app" _ (by decide) factWorld
    factDb_closed factWorld_scoped (by simp [STerm.eval, Term.vars, mkList])
    (fun θ _ hh => app_a_b_not (by
      have hh' : HoldsF factDb [appPred] _ _ := hh
      simpa [STerm.eval, Term.subst, mkList] using hh')) solvable_empty rfl

/-- the model, evaluated (limit 12): `\+ app(X,Y,[a,b])` ends without calling its continuation,
    `\+ item(zzz)` calls it once (the continuation here raises `exn "called"` so that the call shows) -/
def nafProbe : K := fun w' => (w', some (.exn "called"))
#eval (solve (query appCfg 12) nafEnv 0 (.neg (.call "app" nafArgs)) nafProbe factWorld).2
#eval (solve (query appCfg 12) [] 0 (.neg (.call "item" [.atom "zzz"])) nafProbe factWorld).2
#eval (solve (query appCfg 12) [] 0 (.neg (.call "app" [.list [.atom "a"], .list [], .list [.atom "b"]])) nafProbe factWorld).2

#print axioms naf_fails_when_provable
#print axioms naf_succeeds_when_not_provable

end Yld
