/-
  Interleaving, stage 3: one clause.  Clause-local environments hold own terms and are renamed
  along; `exec` (compiled IR) and `solve` (reference semantics) make the same steps on both sides;
  the activation allocates the clause's variables on both sides (the renaming is extended).
-/
import Yld.Proofs.IlPrim
set_option linter.unusedSimpArgs false
set_option linter.unusedVariables false
namespace Yld

def renEnv (ρ : Nat → Nat) (env : Env) : Env := env.map fun p => (p.1, p.2.rename ρ)
def EnvOwn (n : Nat) (env : Env) : Prop := ∀ p ∈ env, Own n p.2

theorem EnvOwn.mono {n n' : Nat} {env : Env} (h : EnvOwn n env) (hn : n ≤ n') : EnvOwn n' env :=
  fun p hp => (h p hp).mono hn

theorem renEnv_agree {n : Nat} {ρ ρ' : Nat → Nat} (h : Agree n ρ ρ') {env : Env} (he : EnvOwn n env) :
    renEnv ρ' env = renEnv ρ env := by
  unfold renEnv
  apply List.map_congr_left
  intro p hp
  rw [rename_agree h (he p hp)]

theorem lookup_renEnv (ρ : Nat → Nat) (v : String) : ∀ (env : Env),
    (renEnv ρ env).lookup v = (env.lookup v).map (Term.rename ρ) := by
  intro env
  induction env with
  | nil => rfl
  | cons p env ih =>
    obtain ⟨k, t⟩ := p
    simp only [renEnv, List.map_cons, List.lookup_cons]
    cases v == k with
    | true => rfl
    | false => exact ih

theorem get_renEnv (ρ : Nat → Nat) (env : Env) (v : String) : (renEnv ρ env).get v = (env.get v).rename ρ := by
  unfold Env.get
  rw [lookup_renEnv]
  cases env.lookup v with
  | none => simp [Term.rename]
  | some t => rfl

theorem lookup_own {n : Nat} (v : String) : ∀ (env : Env), EnvOwn n env → ∀ t, env.lookup v = some t → Own n t := by
  intro env
  induction env with
  | nil => intro _ t h; simp at h
  | cons p env ih =>
    intro he t h
    obtain ⟨k, u⟩ := p
    simp only [List.lookup_cons] at h
    cases hk : (v == k) with
    | true => rw [hk] at h; simp at h; subst h; exact he (k, u) (by simp)
    | false => rw [hk] at h; exact ih (fun p hp => he p (by simp [hp])) t h

theorem get_own {n : Nat} {env : Env} (he : EnvOwn n env) (v : String) : Own n (env.get v) := by
  unfold Env.get
  cases h : env.lookup v with
  | none => exact own_atom n _
  | some t => exact lookup_own v env he t h

theorem eval_rename (ρ : Nat → Nat) (env : Env) (t : STerm) : (t.eval env).rename ρ = t.eval (renEnv ρ env) := by
  induction t using STerm.rec (motive_2 := fun ts =>
      (ts.map (STerm.eval env)).map (Term.rename ρ) = ts.map (STerm.eval (renEnv ρ env))) with
  | var n => simp only [STerm.eval]; exact (get_renEnv ρ env n).symm
  | atom s => simp only [STerm.eval, rename_atom]
  | num n => simp only [STerm.eval, rename_int]
  | fn f args ih => rw [eval_fn', eval_fn', rename_fn, ih]
  | numfn f args ih => rw [eval_numfn', eval_numfn', rename_fn, ih]
  | list items ih => rw [eval_list', eval_list', mkList_rename, ih]
  | lpair a b iha ihb => simp only [STerm.eval, rename_fn, List.map_cons, List.map_nil, iha, ihb]
  | nil => rfl
  | cons a as iha ihas => simp only [List.map_cons, iha, ihas]

theorem eval_own {n : Nat} {env : Env} (he : EnvOwn n env) (t : STerm) : Own n (t.eval env) := by
  induction t using STerm.rec (motive_2 := fun ts => OwnL n (ts.map (STerm.eval env))) with
  | var v => simp only [STerm.eval]; exact get_own he v
  | atom s => simp only [STerm.eval]; exact own_atom n _
  | num m => simp only [STerm.eval]; exact own_int n _
  | fn f args ih => rw [eval_fn']; exact own_fn.mpr ih
  | numfn f args ih => rw [eval_numfn']; exact own_fn.mpr ih
  | list items ih => rw [eval_list']; exact own_mkList ih
  | lpair a b iha ihb =>
    simp only [STerm.eval]
    exact own_fn.mpr (ownL_cons.mpr ⟨iha, ownL_cons.mpr ⟨ihb, ownL_nil n⟩⟩)
  | nil => exact ownL_nil n
  | cons a as iha ihas => simp only [List.map_cons]; exact ownL_cons.mpr ⟨iha, ihas⟩

theorem evalArgs_rename (ρ : Nat → Nat) (env : Env) (args : List STerm) :
    args.map (STerm.eval (renEnv ρ env)) = (args.map (STerm.eval env)).map (Term.rename ρ) := by
  rw [List.map_map]
  apply List.map_congr_left
  intro t _
  exact (eval_rename ρ env t).symm

theorem evalArgs_own {n : Nat} {env : Env} (he : EnvOwn n env) (args : List STerm) :
    OwnL n (args.map (STerm.eval env)) := by
  intro t ht
  obtain ⟨a, _, rfl⟩ := List.mem_map.mp ht
  exact eval_own he a

/-- a generator that depends on a clause environment respects the relation -/
def EnvIl (F : Nat → Prop) (d : Nat) (g : Env → Gen) : Prop :=
  ∀ (env : Env) (ρ : Nat → Nat) (w1 w2 : World) (k1 k2 : K), IlEnv F ρ d w1 w2 → EnvOwn w1.next env →
    IlK F ρ w1.next d k1 k2 → IlRes F ρ w1.next d (g env k1 w1) (g (renEnv ρ env) k2 w2)

/-- `query` as seen from a clause body respects the relation, at every depth of `findall` nesting -/
def IlQ (F : Nat → Prop) (q : Q) : Prop := ∀ d name, ArgsIl F d (q name)

section
variable {F : Nat → Prop} {d : Nat}

theorem EnvIl.asK {g : Env → Gen} (hg : EnvIl F d g) {ρ : Nat → Nat} {n : Nat} {env : Env} {k1 k2 : K}
    (he : EnvOwn n env) (hk : IlK F ρ n d k1 k2) :
    IlK F ρ n d (fun w => g env k1 w) (fun w => g (renEnv ρ env) k2 w) := by
  intro ρ' v1 v2 hag hn hv
  have := hg env ρ' v1 v2 k1 k2 hv (he.mono hn) (hk.mono hag hn)
  rw [renEnv_agree hag he] at this
  exact this

theorem exec_il (q : Q) (hq : IlQ F q) :
    (∀ c, EnvIl F d (fun env => exec q env c)) ∧ (∀ cs, EnvIl F d (fun env => execList q env cs)) := by
  have key : ∀ c, EnvIl F d (fun env => exec q env c) := by
    intro c
    induction c using Code.rec (motive_2 := fun cs => EnvIl F d (fun env => execList q env cs)) with
    | yieldF => intro env ρ w1 w2 k1 k2 h _ hk; simp only; rw [exec_yieldF, exec_yieldF]; exact hk.app h
    | yieldT => intro env ρ w1 w2 k1 k2 h _ hk; simp only; rw [exec_yieldT, exec_yieldT]; exact hk.app h
    | ret => intro env ρ w1 w2 k1 k2 h _ _; simp only; rw [exec_ret, exec_ret]; exact IlRes.same h _
    | brk l => intro env ρ w1 w2 k1 k2 h _ _; simp only; rw [exec_brk, exec_brk]; exact IlRes.same h _
    | block l body ih =>
      intro env ρ w1 w2 k1 k2 h he hk
      simp only
      rw [exec_block, exec_block]
      exact il_catchBrk (ih env ρ w1 w2 k1 k2 h he hk) l
    | foreach name args body ih =>
      intro env ρ w1 w2 k1 k2 h he hk
      simp only
      rw [exec_foreach, exec_foreach, evalArgs_rename]
      exact hq d name _ ρ w1 w2 _ _ h (evalArgs_own he args) (ih.asK he hk)
    | nil => intro env ρ w1 w2 k1 k2 h _ _; simp only; rw [execList_nil, execList_nil]; exact IlRes.same h _
    | cons c cs ihc ihcs =>
      intro env ρ w1 w2 k1 k2 h he hk
      simp only
      rw [execList_cons, execList_cons]
      exact il_andThen (ihc env ρ w1 w2 k1 k2 h he hk) (ihcs.asK he hk)
  refine ⟨key, ?_⟩
  intro cs
  induction cs with
  | nil => intro env ρ w1 w2 k1 k2 h _ _; simp only; rw [execList_nil, execList_nil]; exact IlRes.same h _
  | cons c cs ih =>
    intro env ρ w1 w2 k1 k2 h he hk
    simp only
    rw [execList_cons, execList_cons]
    exact il_andThen (key c env ρ w1 w2 k1 k2 h he hk) (ih.asK he hk)

theorem ilK_thenSig {ρ : Nat → Nat} {n : Nat} {k1 k2 : K} (hk : IlK F ρ n d k1 k2) (s : Sig) :
    IlK F ρ n d (fun w => thenSig s (k1 w)) (fun w => thenSig s (k2 w)) :=
  fun ρ' v1 v2 hag hn hv => il_thenSig (hk ρ' v1 v2 hag hn hv) s

theorem solve_il (q : Q) (hq : IlQ F q) : ∀ (b : Body) (lv : Nat), EnvIl F d (fun env => solve q env lv b)
  | .tru, lv => by intro env ρ w1 w2 k1 k2 h _ hk; simp only [solve]; exact hk.app h
  | .fail, lv => by intro env ρ w1 w2 k1 k2 h _ _; simp only [solve]; exact IlRes.same h _
  | .cutif l, lv => by intro env ρ w1 w2 k1 k2 h _ hk; simp only [solve]; exact hk.app h
  | .cut, lv => by intro env ρ w1 w2 k1 k2 h _ hk; simp only [solve]; exact il_thenSig (hk.app h) _
  | .call name args, lv => by
    intro env ρ w1 w2 k1 k2 h he hk
    simp only [solve]
    rw [evalArgs_rename]
    exact hq d name _ ρ w1 w2 k1 k2 h (evalArgs_own he args) hk
  | .conj a b, lv => by
    intro env ρ w1 w2 k1 k2 h he hk
    simp only [solve]
    exact solve_il q hq a lv env ρ w1 w2 _ _ h he ((solve_il q hq b lv).asK he hk)
  | .disj (.ite c t) e, lv => by
    intro env ρ w1 w2 k1 k2 h he hk
    simp only [solve]
    exact il_iteR
      (solve_il q hq c (lv+1) env ρ w1 w2 _ _ h he (ilK_thenSig ((solve_il q hq t lv).asK he hk) _)) lv
      ((solve_il q hq e lv).asK he hk)
  | .disj .tru b, lv => by
    intro env ρ w1 w2 k1 k2 h he hk
    simp only
    rw [solve_disj_eq q env lv .tru b k1 w1 (by intro c t h; cases h), solve_disj_eq q _ lv .tru b k2 w2 (by intro c t h; cases h)]
    exact il_andThen (solve_il q hq .tru lv env ρ w1 w2 k1 k2 h he hk) ((solve_il q hq b lv).asK he hk)
  | .disj .fail b, lv => by
    intro env ρ w1 w2 k1 k2 h he hk
    simp only
    rw [solve_disj_eq q env lv .fail b k1 w1 (by intro c t h; cases h), solve_disj_eq q _ lv .fail b k2 w2 (by intro c t h; cases h)]
    exact il_andThen (solve_il q hq .fail lv env ρ w1 w2 k1 k2 h he hk) ((solve_il q hq b lv).asK he hk)
  | .disj .cut b, lv => by
    intro env ρ w1 w2 k1 k2 h he hk
    simp only
    rw [solve_disj_eq q env lv .cut b k1 w1 (by intro c t h; cases h), solve_disj_eq q _ lv .cut b k2 w2 (by intro c t h; cases h)]
    exact il_andThen (solve_il q hq .cut lv env ρ w1 w2 k1 k2 h he hk) ((solve_il q hq b lv).asK he hk)
  | .disj (.cutif l) b, lv => by
    intro env ρ w1 w2 k1 k2 h he hk
    simp only
    rw [solve_disj_eq q env lv (.cutif l) b k1 w1 (by intro c t h; cases h), solve_disj_eq q _ lv (.cutif l) b k2 w2 (by intro c t h; cases h)]
    exact il_andThen (solve_il q hq (.cutif l) lv env ρ w1 w2 k1 k2 h he hk) ((solve_il q hq b lv).asK he hk)
  | .disj (.call nm ar) b, lv => by
    intro env ρ w1 w2 k1 k2 h he hk
    simp only
    rw [solve_disj_eq q env lv (.call nm ar) b k1 w1 (by intro c t h; cases h), solve_disj_eq q _ lv (.call nm ar) b k2 w2 (by intro c t h; cases h)]
    exact il_andThen (solve_il q hq (.call nm ar) lv env ρ w1 w2 k1 k2 h he hk) ((solve_il q hq b lv).asK he hk)
  | .disj (.conj a1 a2) b, lv => by
    intro env ρ w1 w2 k1 k2 h he hk
    simp only
    rw [solve_disj_eq q env lv (.conj a1 a2) b k1 w1 (by intro c t h; cases h), solve_disj_eq q _ lv (.conj a1 a2) b k2 w2 (by intro c t h; cases h)]
    exact il_andThen (solve_il q hq (.conj a1 a2) lv env ρ w1 w2 k1 k2 h he hk) ((solve_il q hq b lv).asK he hk)
  | .disj (.disj a1 a2) b, lv => by
    intro env ρ w1 w2 k1 k2 h he hk
    simp only
    rw [solve_disj_eq q env lv (.disj a1 a2) b k1 w1 (by intro c t h; cases h), solve_disj_eq q _ lv (.disj a1 a2) b k2 w2 (by intro c t h; cases h)]
    exact il_andThen (solve_il q hq (.disj a1 a2) lv env ρ w1 w2 k1 k2 h he hk) ((solve_il q hq b lv).asK he hk)
  | .disj (.neg a1) b, lv => by
    intro env ρ w1 w2 k1 k2 h he hk
    simp only
    rw [solve_disj_eq q env lv (.neg a1) b k1 w1 (by intro c t h; cases h), solve_disj_eq q _ lv (.neg a1) b k2 w2 (by intro c t h; cases h)]
    exact il_andThen (solve_il q hq (.neg a1) lv env ρ w1 w2 k1 k2 h he hk) ((solve_il q hq b lv).asK he hk)
  | .ite c t, lv => by
    intro env ρ w1 w2 k1 k2 h he hk
    simp only [solve]
    exact il_iteR
      (solve_il q hq c (lv+1) env ρ w1 w2 _ _ h he (ilK_thenSig ((solve_il q hq t lv).asK he hk) _)) lv
      (fun ρ' v1 v2 _ _ hv => IlRes.same hv none)
  | .neg a, lv => by
    intro env ρ w1 w2 k1 k2 h he hk
    simp only [solve]
    exact il_iteR (solve_il q hq a (lv+1) env ρ w1 w2 _ _ h he (fun ρ' v1 v2 _ _ hv => IlRes.same hv _)) lv hk

/-! ### clause activation -/

theorem allocVars_il (names : List String) : ∀ (env : Env) (ρ : Nat → Nat) (w1 w2 : World), IlEnv F ρ d w1 w2 →
    EnvOwn w1.next env →
    ∃ ρ', Agree w1.next ρ ρ' ∧ w1.next ≤ (allocVars names env w1).2.next ∧
      IlEnv F ρ' d (allocVars names env w1).2 (allocVars names (renEnv ρ env) w2).2 ∧
      (allocVars names (renEnv ρ env) w2).1 = renEnv ρ' (allocVars names env w1).1 ∧
      EnvOwn (allocVars names env w1).2.next (allocVars names env w1).1 := by
  induction names with
  | nil => intro env ρ w1 w2 h he; exact ⟨ρ, Agree.refl _ _, Nat.le_refl _, h, rfl, he⟩
  | cons v vs ih =>
    intro env ρ w1 w2 h he
    rw [allocVars_cons, allocVars_cons]
    have hag := extρ_agree ρ w1.next w2.next
    have h1 := h.alloc 1
    have henv : EnvOwn (w1.next + 1) (env ++ [(v, .var w1.next)]) := by
      intro p hp
      rcases List.mem_append.mp hp with hm | hm
      · exact (he p hm).mono (Nat.le_add_right _ _)
      · simp at hm; subst hm; exact own_var.mpr (Nat.lt_succ_self _)
    have hnew : extρ ρ w1.next w2.next w1.next = w2.next := by
      have := extρ_new ρ w1.next w2.next 0
      simpa using this
    have hren : renEnv ρ env ++ [(v, .var w2.next)] = renEnv (extρ ρ w1.next w2.next) (env ++ [(v, .var w1.next)]) := by
      rw [← renEnv_agree hag he]
      simp only [renEnv, List.map_append, List.map_cons, List.map_nil, rename_var, hnew]
    obtain ⟨ρ', hag', hn', he', e', ho'⟩ := ih (env ++ [(v, .var w1.next)]) (extρ ρ w1.next w2.next)
      { w1 with next := w1.next + 1 } { w2 with next := w2.next + 1 } h1 henv
    simp only [World.fresh]
    rw [hren]
    refine ⟨ρ', hag.trans hag' (Nat.le_add_right _ _), ?_, he', e', ho'⟩
    exact Nat.le_trans (Nat.le_add_right _ 1) hn'

theorem getD_map_rename (ρ : Nat → Nat) (args : List Term) (i : Nat) (s : String) :
    (args.map (Term.rename ρ)).getD i (.atom s) = (args.getD i (.atom s)).rename ρ := by
  simp only [List.getD_eq_getElem?_getD, List.getElem?_map]
  cases args[i]? with
  | none => simp [rename_atom]
  | some t => rfl

theorem getD_own {n : Nat} {args : List Term} (ha : OwnL n args) (i : Nat) (s : String) :
    Own n (args.getD i (.atom s)) := by
  simp only [List.getD_eq_getElem?_getD]
  cases h : args[i]? with
  | none => exact own_atom n _
  | some t => exact ha t (List.mem_of_getElem? h)

theorem unifyHead_il (fuel : Nat) {g : Env → Gen} (hg : EnvIl F d g) (args : List Term) :
    ∀ (us : List (Nat × STerm)) (env : Env) (ρ : Nat → Nat) (w1 w2 : World) (k1 k2 : K), IlEnv F ρ d w1 w2 →
      EnvOwn w1.next env → OwnL w1.next args → IlK F ρ w1.next d k1 k2 →
      IlRes F ρ w1.next d (unifyHead fuel env args us (g env) k1 w1)
        (unifyHead fuel (renEnv ρ env) (args.map (Term.rename ρ)) us (g (renEnv ρ env)) k2 w2) := by
  intro us
  induction us with
  | nil => intro env ρ w1 w2 k1 k2 h he _ hk; simp only [unifyHead]; exact hg env ρ w1 w2 k1 k2 h he hk
  | cons u us ih =>
    obtain ⟨i, t⟩ := u
    intro env ρ w1 w2 k1 k2 h he ha hk
    simp only [unifyHead]
    rw [getD_map_rename, ← eval_rename]
    refine unify_il fuel _ _ ρ w1 w2 _ _ h (getD_own ha i _) (eval_own he t) ?_
    intro ρ' v1 v2 hag hn hv
    have := ih env ρ' v1 v2 k1 k2 hv (he.mono hn) (ha.mono hn) (hk.mono hag hn)
    rw [renEnv_agree hag he, map_rename_agree hag ha] at this
    exact this

theorem aliases_il (ρ : Nat → Nat) (al : List (String × Nat)) (args : List Term) :
    (al.map fun (p : String × Nat) => (p.1, (args.map (Term.rename ρ)).getD p.2 (.atom "$noarg")))
      = renEnv ρ (al.map fun (p : String × Nat) => (p.1, args.getD p.2 (.atom "$noarg"))) := by
  unfold renEnv
  rw [List.map_map]
  apply List.map_congr_left
  intro p _
  simp only [Function.comp, getD_map_rename]

theorem aliases_own {n : Nat} (al : List (String × Nat)) {args : List Term} (ha : OwnL n args) :
    EnvOwn n (al.map fun (p : String × Nat) => (p.1, args.getD p.2 (.atom "$noarg"))) := by
  intro p hp
  obtain ⟨q, _, rfl⟩ := List.mem_map.mp hp
  exact getD_own ha _ _

/-- the common shape of the two activations of the generated code -/
theorem prologue2_il (fuel : Nat) {g : Env → Gen} (hg : EnvIl F d g) (us : List (Nat × STerm)) (n1 n2 : List String)
    {env0 : Env} {args : List Term} {ρ : Nat → Nat} {w1 w2 : World} {k1 k2 : K} (h : IlEnv F ρ d w1 w2)
    (he : EnvOwn w1.next env0) (ha : OwnL w1.next args) (hk : IlK F ρ w1.next d k1 k2) :
    IlRes F ρ w1.next d
      (unifyHead fuel (allocVars n2 (allocVars n1 env0 w1).1 (allocVars n1 env0 w1).2).1 args us
        (g (allocVars n2 (allocVars n1 env0 w1).1 (allocVars n1 env0 w1).2).1) k1
        (allocVars n2 (allocVars n1 env0 w1).1 (allocVars n1 env0 w1).2).2)
      (unifyHead fuel (allocVars n2 (allocVars n1 (renEnv ρ env0) w2).1 (allocVars n1 (renEnv ρ env0) w2).2).1
        (args.map (Term.rename ρ)) us
        (g (allocVars n2 (allocVars n1 (renEnv ρ env0) w2).1 (allocVars n1 (renEnv ρ env0) w2).2).1) k2
        (allocVars n2 (allocVars n1 (renEnv ρ env0) w2).1 (allocVars n1 (renEnv ρ env0) w2).2).2) := by
  obtain ⟨ρ1, hag1, hn1, he1, e1, ho1⟩ := allocVars_il n1 env0 ρ w1 w2 h he
  rw [e1]
  obtain ⟨ρ2, hag2, hn2, he2, e2, ho2⟩ := allocVars_il n2 _ ρ1 _ _ he1 ho1
  rw [e2]
  have hag := hag1.trans hag2 hn1
  have hn := Nat.le_trans hn1 hn2
  rw [← map_rename_agree hag ha]
  exact (unifyHead_il fuel hg args us _ ρ2 _ _ k1 k2 he2 ho2 (ha.mono hn) (hk.mono hag hn)).weaken hag hn

theorem runClauseCompiled_il (fuel : Nat) (q : Q) (hq : IlQ F q) (cc : ClauseCode) :
    ArgsIl F d (runClauseCompiled fuel q cc) := by
  intro args ρ w1 w2 k1 k2 h ha hk
  unfold runClauseCompiled
  simp only
  rw [aliases_il]
  exact prologue2_il fuel (g := fun env => execList q env cc.code) ((exec_il q hq).2 cc.code) cc.unifs cc.declsHead
    cc.declsBody h (aliases_own cc.aliases ha) ha hk

theorem runClauseRefBody_il (fuel : Nat) (q : Q) (hq : IlQ F q) (cc : ClauseCode) (body : Body) :
    ArgsIl F d (runClauseRefBody fuel q cc body) := by
  intro args ρ w1 w2 k1 k2 h ha hk
  unfold runClauseRefBody
  simp only
  rw [aliases_il]
  exact prologue2_il fuel (g := fun env => solve q env 0 body) (solve_il q hq body 0) cc.unifs cc.declsHead
    cc.declsBody h (aliases_own cc.aliases ha) ha hk

theorem runClauseRef_il (fuel : Nat) (q : Q) (hq : IlQ F q) (c : Clause) : ArgsIl F d (runClauseRef fuel q c) := by
  intro args ρ w1 w2 k1 k2 h ha hk
  unfold runClauseRef
  simp only
  have he0 : EnvOwn w1.next ([] : Env) := fun p hp => by cases hp
  obtain ⟨ρ1, hag1, hn1, he1, e1, ho1⟩ := allocVars_il
    (dedup ((c.head.map STerm.vars).flatten ++ c.body.vars)) [] ρ w1 w2 h he0
  have e0 : renEnv ρ ([] : Env) = [] := rfl
  rw [e0] at e1 he1
  rw [e1, ← map_rename_agree hag1 ha]
  exact (unifyHead_il fuel (g := fun env => solve q env 0 c.body) (solve_il q hq c.body 0) args _ _ ρ1 _ _ k1 k2 he1 ho1
    (ha.mono hn1) (hk.mono hag1 hn1)).weaken hag1 hn1

theorem runClauses_il {α : Type} (run : α → List Term → Gen) (hrun : ∀ c, ArgsIl F d (run c)) :
    ∀ cs, ArgsIl F d (fun args => runClauses (fun c => run c args) cs) := by
  intro cs
  induction cs with
  | nil => intro args ρ w1 w2 k1 k2 h _ _; simp only [runClauses]; exact IlRes.same h none
  | cons c cs ih =>
    intro args ρ w1 w2 k1 k2 h ha hk
    simp only [runClauses]
    exact il_andThen (hrun c args ρ w1 w2 k1 k2 h ha hk) (ih.asK ha hk)

theorem onceGen_il {g1 g2 : Gen} {ρ : Nat → Nat} {w1 w2 : World} {k1 k2 : K}
    (hg : ∀ k1' k2', IlK F ρ w1.next d k1' k2' → IlRes F ρ w1.next d (g1 k1' w1) (g2 k2' w2))
    (hk : IlK F ρ w1.next d k1 k2) : IlRes F ρ w1.next d (onceGen g1 k1 w1) (onceGen g2 k2 w2) := by
  unfold onceGen
  apply il_leaveOnce
  apply hg
  exact ilK_thenSig (il_wrapK hk) _

end

end Yld
