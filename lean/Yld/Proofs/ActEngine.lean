/-
  The whole engine: every generator of the mutual block maps corresponding arguments, related
  worlds and related consumers to related outcomes, when every Prolog definition is run with the
  textbook activation on side 1 and with the aliased activation on side 2.
-/
import Yld.Proofs.ActBuiltin
import Yld.Proofs.Program
import Yld.Proofs.StoreShape
set_option linter.unusedSimpArgs false
set_option linter.unusedVariables false
set_option linter.unusedSectionVars false
namespace Yld

/-- the rows of a registered Python predicate are closed facts -/
def DefRowsClosed : Def → Prop
  | .py p => ∀ c ∈ p.rows, FactClosed c
  | _ => True
def DefsRowsClosed (defs : Defs) : Prop := ∀ kd ∈ defs, ∀ d ∈ kd.2, DefRowsClosed d

def cfgOf (bl : List String) (defs : Defs) (m : Mode) : Cfg :=
  { blacklist := bl, defs := defs.map fun (kd : String × List Def) => (kd.1, kd.2.map (Def.withMode m)), mode := m }

section
variable (bl : List String) (defs : Defs) (hdefs : DefsRowsClosed defs)

def AllSim (f : Nat) : Prop :=
  (∀ P, OofLike P → QSim P (query (cfgOf bl defs .reference) f) (query (cfgOf bl defs .refbody) f)) ∧
  (∀ P, OofLike P → ∀ chain : List Def, (∀ d ∈ chain, DefRowsClosed d) →
      GSim P (runChain (cfgOf bl defs .reference) f (chain.map (Def.withMode .reference)))
        (runChain (cfgOf bl defs .refbody) f (chain.map (Def.withMode .refbody)))) ∧
  (∀ P, OofLike P → ∀ d : Def, DefRowsClosed d →
      GSim P (runDef (cfgOf bl defs .reference) f (d.withMode .reference))
        (runDef (cfgOf bl defs .refbody) f (d.withMode .refbody))) ∧
  (∀ P, OofLike P → ∀ b : String,
      GSim P (runBuiltin (cfgOf bl defs .reference) f b) (runBuiltin (cfgOf bl defs .refbody) f b)) ∧
  (∀ P, OofLike P → CallSim P (callGoal (cfgOf bl defs .reference) f) (callGoal (cfgOf bl defs .refbody) f))

theorem orElse_map {α β : Type} (F : α → β) (a b : Option α) :
    (a.map F).orElse (fun _ => b.map F) = (a.orElse fun _ => b).map F := by
  cases a <;> rfl

include hdefs in
theorem allSim : ∀ f, AllSim bl defs f := by
  intro f
  induction f with
  | zero =>
    refine ⟨?_, ?_, ?_, ?_, ?_⟩
    · intro P hP name S ds args1 args2 K1 K2 w1 w2 _ _ _ _ _; rw [query]; exact RSim.esc1 w1 hP.oof _
    · intro P hP chain _ S ds args1 args2 K1 K2 w1 w2 _ _ _ _ _; rw [runChain]; exact RSim.esc1 w1 hP.oof _
    · intro P hP d _ S ds args1 args2 K1 K2 w1 w2 _ _ _ _ _; rw [runDef]; exact RSim.esc1 w1 hP.oof _
    · intro P hP b S ds args1 args2 K1 K2 w1 w2 _ _ _ _ _; rw [runBuiltin]; exact RSim.esc1 w1 hP.oof _
    · intro P hP S ds g1 g2 e1 e2 K1 K2 w1 w2 _ _ _ _ _ _; rw [callGoal]; exact RSim.esc1 w1 hP.oof _
  | succ f ih =>
    obtain ⟨ihQ, ihC, ihD, ihB, ihG⟩ := ih
    have cyR := allCyc (cfgOf bl defs .reference) f
    have cyB := allCyc (cfgOf bl defs .refbody) f
    refine ⟨?_, ?_, ?_, ?_, ?_⟩
    · -- query
      intro P hP name S ds args1 args2 K1 K2 w1 w2 ha hw hK cm1 cm2
      rw [query, query]
      refine sim_andThen hw (matchDynamic_sim hP f f name hw ha hK cm1 cm2) (fun v1 v2 hv => ?_) ?_ ?_
      · have eb1 : (cfgOf bl defs .reference).blacklist = bl := rfl
        have eb2 : (cfgOf bl defs .refbody).blacklist = bl := rfl
        have ed1 : ∀ k, (cfgOf bl defs .reference).defs.get k = (defs.get k).map (List.map (Def.withMode .reference)) :=
          fun k => get_withMode defs _ k
        have ed2 : ∀ k, (cfgOf bl defs .refbody).defs.get k = (defs.get k).map (List.map (Def.withMode .refbody)) :=
          fun k => get_withMode defs _ k
        simp only [eb1, eb2, ed1, ed2, orElse_map, ← ha.length_eq]
        split
        · exact RSim.same hv none
        · cases hch : (defs.get (predKey name args1.length)).orElse (fun _ => defs.get (variadicKey name)) with
          | none => exact RSim.same hv none
          | some chain =>
            simp only [Option.map]
            have hmem : ∃ key, (key, chain) ∈ defs := by
              cases h1 : defs.get (predKey name args1.length) with
              | some c1 =>
                rw [h1] at hch; simp [Option.orElse] at hch; subst hch
                exact ⟨_, get_mem defs _ _ h1⟩
              | none =>
                rw [h1] at hch; simp [Option.orElse] at hch
                exact ⟨_, get_mem defs _ _ hch⟩
            obtain ⟨key, hm⟩ := hmem
            exact ihC P hP chain (fun d hd => hdefs _ hm d hd) S ds args1 args2 K1 K2 v1 v2 ha hv hK cm1 cm2
      · intro w h
        simp only
        split
        · exact h
        · split
          · exact h
          · exact cyR.2.1 _ _ K1 cm1 w h
      · intro w h
        simp only
        split
        · exact h
        · split
          · exact h
          · exact cyB.2.1 _ _ K2 cm2 w h
    · -- runChain
      intro P hP chain hok S ds args1 args2 K1 K2 w1 w2 ha hw hK cm1 cm2
      cases chain with
      | nil => simp only [List.map_nil, runChain]; exact RSim.same hw none
      | cons d rest =>
        simp only [List.map_cons, runChain]
        exact sim_andThen hw (ihD P hP d (hok d (by simp)) S ds args1 args2 K1 K2 w1 w2 ha hw hK cm1 cm2)
          (fun v1 v2 hv => ihC P hP rest (fun d hd => hok d (by simp [hd])) S ds args1 args2 K1 K2 v1 v2 ha hv hK cm1 cm2)
          (cyR.2.1 _ args1 K1 cm1) (cyB.2.1 _ args2 K2 cm2)
    · -- runDef
      intro P hP d hok S ds args1 args2 K1 K2 w1 w2 ha hw hK cm1 cm2
      cases d with
      | prolog p mode =>
        simp only [Def.withMode, runDef]
        apply sim_leaveFrame hP
        unfold compilePred
        exact runClauses_sim (UpP_ok P) (ihQ (UpP P) (UpP_ok P)) (fun n a => cyR.1 n a) (fun n a => cyB.1 n a) f f ha
          (sim_wrapK hK) (wrapK_cycMono K1 cm1) (wrapK_cycMono K2 cm2) p.clauses 0 hw
      | py p =>
        simp only [Def.withMode, runDef]
        exact runPy_sim hP f f p.raiseAt ha hK cm1 cm2 p.rows hok 0 hw
      | builtin b =>
        simp only [Def.withMode, runDef]
        exact ihB P hP b S ds args1 args2 K1 K2 w1 w2 ha hw hK cm1 cm2
    · -- runBuiltin
      exact builtin_sim _ _ f ihQ ihG
    · -- callGoal
      intro P hP S ds g1 g2 e1 e2 K1 K2 w1 w2 hg he hw hK cm1 cm2
      rw [callGoal, callGoal]
      cases h1 : walk w1.b (f+1) g1 with
      | none => exact RSim.esc1 w1 hP.oof _
      | some a1 =>
        cases h2 : walk w2.b (f+1) g2 with
        | none => exact RSim.esc2 _ w2 hP.oof
        | some a2 =>
          cases walk_heads hw hg h1 h2 with
          | var x y => exact RSim.same hw _
          | atom s => exact ihQ P hP s S ds e1 e2 K1 K2 w1 w2 he hw hK cm1 cm2
          | int i => exact RSim.same hw _
          | fn name as1 as2 h => exact ihQ P hP name S ds _ _ K1 K2 w1 w2 (h.append he) hw hK cm1 cm2

end

end Yld
