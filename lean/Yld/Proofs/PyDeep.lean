/-
  Program-level Theorem B: the engine in which *every* Prolog definition is executed by
  interpreting the Python text printed for it (`queryD`, the driver's mode `python`) is the engine
  in compiled mode.
-/
import Yld.Proofs.PyTop
namespace Yld

def DefOK (d : Def) (args : List Term) : Prop :=
  ∀ p m, d = .prolog p m → p.arity = args.length ∧ m = .compiled ∧ ∀ c ∈ p.clauses, ClauseSrcOK c p.arity

def AllD (cfg : Cfg) (f : Nat) : Prop :=
  (∀ name args, queryD cfg f name args = query cfg f name args) ∧
  (∀ ds args, (∀ d ∈ ds, DefOK d args) → runChainD cfg f ds args = runChain cfg f ds args) ∧
  (∀ d args, DefOK d args → runDefD cfg f d args = runDef cfg f d args) ∧
  (∀ b args, runBuiltinD cfg f b args = runBuiltin cfg f b args) ∧
  (∀ g extra, callGoalD cfg f g extra = callGoal cfg f g extra)

theorem allD (cfg : Cfg) (hdefs : DefsPyOK cfg.defs) : ∀ f, AllD cfg f := by
  intro f
  induction f with
  | zero =>
    refine ⟨?_, ?_, ?_, ?_, ?_⟩ <;> intros <;> funext k w
    · simp [queryD, query]
    · simp [runChainD, runChain]
    · simp [runDefD, runDef]
    · simp [runBuiltinD, runBuiltin]
    · simp [callGoalD, callGoal]
  | succ f ih =>
    obtain ⟨ihQ, ihC, ihD, ihB, ihG⟩ := ih
    have hQ : queryD cfg f = query cfg f := by funext name args; exact ihQ name args
    have hG : callGoalD cfg f = callGoal cfg f := by funext g extra; exact ihG g extra
    refine ⟨?_, ?_, ?_, ?_, ?_⟩
    · -- query
      intro name args
      funext k w
      simp only [queryD, query]
      rcases matchDynamic f name args k w with ⟨w1, o⟩
      cases o with
      | some s => rfl
      | none =>
        simp only
        split
        · rfl
        · cases h1 : cfg.defs.get (predKey name args.length) with
          | some chain =>
            simp only [Option.orElse]
            rw [ihC chain args (fun d hd p m e => by
              subst e
              obtain ⟨hk, hmode, hs⟩ := hdefs _ _ h1 p m hd
              exact ⟨((predKey_injective _ _ _ _ hk).2).symm, hmode, hs⟩)]
          | none =>
            simp only [Option.orElse]
            cases h2 : cfg.defs.get (variadicKey name) with
            | none => rfl
            | some chain =>
              simp only
              rw [ihC chain args (fun d hd p m e => by
                subst e
                obtain ⟨hk, _, _⟩ := hdefs _ _ h2 p m hd
                exact absurd hk.symm (predKey_ne_variadicKey _ _ _))]
    · -- runChain
      intro ds args hds
      cases ds with
      | nil => funext k w; simp [runChainD, runChain]
      | cons d ds =>
        funext k w
        simp only [runChainD, runChain]
        rw [ihD d args (hds d (by simp)), ihC ds args (fun d' hd' => hds d' (List.mem_cons_of_mem _ hd'))]
        rcases runDef cfg f d args k w with ⟨w', o⟩
        cases o <;> rfl
    · -- runDef
      intro d args hd
      cases d with
      | prolog p m =>
        obtain ⟨ha, hm, hs⟩ := hd p m rfl
        subst hm
        funext k w
        have := congrFun (congrFun (pyTop_def_correct_engine cfg f p .compiled args ha (by rw [← ha]; exact hs)) k) w
        simp only [runDefPyTop] at this
        simp only [runDefD, hQ]
        exact this
      | py p => funext k w; simp [runDefD, runDef]
      | builtin b => funext k w; simp only [runDefD, runDef, ihB]
    · -- runBuiltin
      intro b args
      funext k w
      simp only [runBuiltinD, hQ, hG]
      split
      · simp only [runBuiltin]
      · rename_i a b
        simp only [runBuiltin]
        rcases query cfg f "=" [a, b] (fun w' => (w', some Sig.stop)) w with ⟨w', o⟩
        cases o with
        | none => rfl
        | some s => cases s <;> rfl
      · simp only [runBuiltin]
      · simp only [runBuiltin]
      · rename_i tmpl g bag
        simp only [runBuiltin]
        rcases callGoal cfg f g [] (findallCollect f tmpl) { w with acc := [] :: w.acc } with ⟨w', o⟩
        cases o <;> rfl
      · rename_i t
        simp only [runBuiltin]
        cases factNameArgs f w t with
        | error s => rfl
        | ok na =>
          obtain ⟨name, as⟩ := na
          simp only
          rcases assertFact f name as true w with ⟨w', o⟩
          cases o <;> rfl
      · rename_i t
        simp only [runBuiltin]
        cases factNameArgs f w t with
        | error s => rfl
        | ok na =>
          obtain ⟨name, as⟩ := na
          simp only
          rcases assertFact f name as false w with ⟨w', o⟩
          cases o <;> rfl
      · rename_i t
        simp only [runBuiltin]
        cases factNameArgs f w t with
        | error s => rfl
        | ok na => rfl
      · rename_i t
        simp only [runBuiltin]
        cases factNameArgs f w t with
        | error s => rfl
        | ok na =>
          obtain ⟨name, as⟩ := na
          simp only
          rcases retractAllLoop f as (w.facts name as.length) [] w with ⟨w', o⟩
          cases o <;> rfl
      · -- no builtin of that name and arity on either side
        simp only [runBuiltin]
    · -- callGoal
      intro g extra
      funext k w
      simp only [callGoalD, hQ]
      split <;> simp_all [callGoal]

/-- **Program-level Theorem B.** With every generated function interpreted from its printed Python
    text — the queried predicate and everything it calls, at any depth — the engine answers every
    query exactly as it does in compiled mode: same answers, order, bindings, store, outcome. -/
theorem queryD_eq (cfg : Cfg) (hdefs : DefsPyOK cfg.defs) (f : Nat) (name : String) (args : List Term) :
    queryD cfg f name args = query cfg f name args :=
  (allD cfg hdefs f).1 name args

end Yld
