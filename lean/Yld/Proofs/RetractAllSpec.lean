/-
  retractall/1 removes exactly the facts that unify with its pattern (C07).

  `factMatches` tries `Answer.match` and looks whether it yields. Through the mgu development: a
  fact is *kept* only if no solution of the heap unifies the pattern with (a fresh copy of) it; a fact
  is *removed* only if — the heap being acyclic and no cyclic term having been built — some solution
  does. Non-linear patterns (`p(X,X)`), aliased variables and partially bound patterns are all
  instances.
-/
import Yld.Proofs.ActShape
import Yld.Proofs.ActCyc
namespace Yld

/-- the pattern unifies with a copy of the fact whose private variables are the cells from `base` on -/
def FactUnifies (b : Bind) (base : Nat) (c : Fact) (args : List Term) : Prop :=
  args.length = c.args.length ∧
  ∃ θ, Solves θ b ∧ args.map (Term.subst θ) = (c.args.map (Term.rename (· + base))).map (Term.subst θ)

/-- What retractall does with the facts `cs`, the next free cell being `n`: the facts it keeps, in
    order; a kept fact does not unify; a dropped one does (when `acyc`). -/
inductive RetractAllSpec (b : Bind) (args : List Term) (acyc : Prop) : Nat → List Fact → List Fact → Prop
  | nil (n : Nat) : RetractAllSpec b args acyc n [] []
  | drop (n : Nat) (c : Fact) (cs kept : List Fact) : (acyc → FactUnifies b n c args) →
      RetractAllSpec b args acyc (n + c.nvars) cs kept → RetractAllSpec b args acyc n (c :: cs) kept
  | keep (n : Nat) (c : Fact) (cs kept : List Fact) : ¬ FactUnifies b n c args →
      RetractAllSpec b args acyc (n + c.nvars) cs kept → RetractAllSpec b args acyc n (c :: cs) (c :: kept)

theorem probe_cycMono : CycMono (fun w' => (w', some Sig.stop)) := fun _ h => h

/-- one test: the world afterwards, and what the verdict means -/
theorem factMatches_spec (f : Nat) (c : Fact) (args : List Term) (w w' : World) (r : Bool)
    (h : factMatches f c args w = (w', .ok r)) :
    w'.b = w.b ∧ w'.next = w.next + c.nvars ∧ w'.db = w.db ∧ (w'.cyc = false → w.cyc = false) ∧
    (r = false → ¬ FactUnifies w.b w.next c args) ∧
    (r = true → Solvable w.b → w'.cyc = false → FactUnifies w.b w.next c args) := by
  have hcyc : w'.cyc = false → w.cyc = false := by
    intro hc
    cases hw : w.cyc with
    | false => rfl
    | true =>
      have := matchFact_cycGen f c args _ probe_cycMono w hw
      have e : w' = (matchFact f c args (fun w' => (w', some Sig.stop)) w).1 := by
        unfold factMatches at h
        generalize matchFact f c args (fun w' => (w', some Sig.stop)) w = q at h
        obtain ⟨q1, q2⟩ := q
        cases q2 with
        | none => simp at h; exact h.1.symm
        | some s => cases s <;> simp at h <;> first | exact h.1.symm | exact h.symm ▸ rfl
      rw [← e] at this
      rw [this] at hc; cases hc
  unfold factMatches matchFact at h
  simp only at h
  by_cases hl : args.length = c.args.length
  · simp only [hl, if_true] at h
    cases unifyList_ushape (unify f) (unify_ushape f) args (c.args.map (Term.rename (· + w.next)))
        { w with next := w.next + c.nvars } with
    | oof q hq hk =>
      rw [hk] at h
      obtain ⟨q1, q2⟩ := q
      simp only at hq; subst hq
      simp at h
    | fail q hq hk hno hcore hb =>
      rw [hk] at h
      obtain ⟨q1, q2⟩ := q
      simp only at hq; subst hq
      simp only [Prod.mk.injEq, Except.ok.injEq] at h
      obtain ⟨rfl, rfl⟩ := h
      have hcore' : q1.next = w.next + c.nvars ∧ q1.db = w.db := by
        simp only [World.core, Prod.mk.injEq] at hcore
        exact ⟨hcore.1, hcore.2.1⟩
      refine ⟨hb, hcore'.1, hcore'.2, hcyc, fun _ => ?_, fun h => by cases h⟩
      rintro ⟨_, θ, hθ, hu⟩
      exact hno θ hθ hu
    | once pre post hk hiff hpre hpost =>
      rw [hk] at h
      simp only [Prod.mk.injEq, Except.ok.injEq] at h
      obtain ⟨rfl, rfl⟩ := h
      have hb : (post pre).b = w.b := hpost.b pre rfl
      have hcore : (post pre).core = ({ w with next := w.next + c.nvars } : World).core := by
        rw [hpost.core pre, hpre.core]
      simp only [World.core, Prod.mk.injEq] at hcore
      refine ⟨hb, hcore.1, hcore.2.1, hcyc, (fun h => by cases h), fun _ hs hc => ?_⟩
      rw [hpost.cyc] at hc
      obtain ⟨θ, hθ, _⟩ := hpre.solv hc hs (fun _ => .atom "a")
      exact ⟨hl, θ, ((hiff θ).mp hθ).1, ((hiff θ).mp hθ).2⟩
  · simp only [hl, if_false] at h
    simp only [Prod.mk.injEq, Except.ok.injEq] at h
    obtain ⟨rfl, rfl⟩ := h
    exact ⟨rfl, rfl, rfl, hcyc, fun _ hu => hl hu.1, fun h => by cases h⟩

/-- **retractall, characterised.** Whatever the pattern, the heap and the facts: the bindings are as
    before; what is kept is `keep` followed by the facts of `cs` that do not unify with the pattern,
    in their order; what is dropped unifies with it (on an acyclic heap when no cyclic term was built). -/
theorem retractAll_spec (f : Nat) (args : List Term) : ∀ (cs keep : List Fact) (w w' : World) (keep' : List Fact),
    retractAllLoop f args cs keep w = (w', .ok keep') →
    w'.b = w.b ∧ w'.db = w.db ∧ (w'.cyc = false → w.cyc = false) ∧
    ∃ kept, keep' = keep ++ kept ∧ RetractAllSpec w.b args (Solvable w.b ∧ w'.cyc = false) w.next cs kept := by
  intro cs
  induction cs with
  | nil =>
    intro keep w w' keep' h
    simp only [retractAllLoop, Prod.mk.injEq, Except.ok.injEq] at h
    obtain ⟨rfl, rfl⟩ := h
    exact ⟨rfl, rfl, id, [], by simp, .nil _⟩
  | cons c cs ih =>
    intro keep w w' keep' h
    rw [retractAllLoop] at h
    cases hm : factMatches f c args w with
    | mk w1 r =>
      rw [hm] at h
      cases r with
      | error s => simp at h
      | ok r =>
        obtain ⟨hb1, hn1, hd1, hc1, hfalse, htrue⟩ := factMatches_spec f c args w w1 r hm
        cases r with
        | true =>
          simp only at h
          obtain ⟨hb, hd, hc, kept, hk, hspec⟩ := ih keep w1 w' keep' h
          refine ⟨hb.trans hb1, hd.trans hd1, fun x => hc1 (hc x), kept, hk, ?_⟩
          rw [hb1, hn1] at hspec
          exact .drop _ _ _ _ (fun ⟨hs, hcw⟩ => htrue rfl hs (hc hcw)) hspec
        | false =>
          simp only at h
          obtain ⟨hb, hd, hc, kept, hk, hspec⟩ := ih (keep ++ [c]) w1 w' keep' h
          refine ⟨hb.trans hb1, hd.trans hd1, fun x => hc1 (hc x), c :: kept, by simp [hk], ?_⟩
          rw [hb1, hn1] at hspec
          exact .keep _ _ _ _ (hfalse rfl) hspec

end Yld
