/-
  The fact store as an association list: lookup after update (helpers for C07, C13, C14).
-/
import Yld.Model.Api
import Yld.Proofs.Assoc
namespace Yld

theorem setFacts_db (w : World) (n : String) (a : Nat) (fs : List Fact) :
    (w.setFacts n a fs).db = Assoc.upd w.db (n, a) fs := by
  unfold World.setFacts Assoc.upd
  simp only
  split <;> rfl

theorem facts_setFacts_same (w : World) (n : String) (a : Nat) (fs : List Fact) :
    (w.setFacts n a fs).facts n a = fs := by
  unfold World.facts
  rw [setFacts_db, Assoc.lookup_upd_same]; rfl

theorem facts_setFacts_other (w : World) (n n' : String) (a a' : Nat) (fs : List Fact) (hne : (n', a') ≠ (n, a)) :
    (w.setFacts n a fs).facts n' a' = w.facts n' a' := by
  unfold World.facts
  rw [setFacts_db, Assoc.lookup_upd_other _ _ _ _ hne]

end Yld
