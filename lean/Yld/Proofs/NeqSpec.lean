/-
  `\=`/2 against its standard definition: it succeeds, once and binding nothing, when the two terms
  have no unifier, and fails when they have one.  (`builtin_neq` is `(X = Y -> fail ; true)`, run
  through `query("=", …)`; the statements are for an engine whose `=` is the builtin and has no
  dynamic facts of its own, as in a fresh engine.)
-/
import Yld.Proofs.ActShape
namespace Yld

/-- `=`/2 is the builtin: not redefined, not shadowed by dynamic facts. -/
structure StdEq (cfg : Cfg) (w : World) : Prop where
  isBuiltin : cfg.defs.get (predKey "=" 2) = some [.builtin "="]
  notBlack : cfg.blacklist.contains "=" = false
  noFacts : w.facts "=" 2 = []

theorem query_eq_is_unify (cfg : Cfg) (w : World) (h : StdEq cfg w) (f : Nat) (a b : Term) (k : K) :
    query cfg (f+4) "=" [a, b] k w = unify f a b k w := by
  have hm : matchDynamic (f+3) "=" [a, b] k w = (w, none) := by
    simp only [matchDynamic, List.length_cons, List.length_nil, h.noFacts]
    simp [matchAll]
  rw [query]
  simp only [hm, h.notBlack, List.length_cons, List.length_nil, h.isBuiltin]
  simp only [Bool.false_eq_true, if_false, Option.orElse]
  rw [runChain, runDef, runBuiltin]
  cases hu : unify f a b k w with
  | mk w' s =>
    cases s with
    | none => simp [runChain]
    | some s => rfl

/-- what `builtin_neq` makes of the outcome of its `X = Y` probe -/
def neqOut (k : K) : R → R
  | (w', some .stop) => (w', none)
  | (w', none) => k w'
  | r => r

theorem neq_unfold (cfg : Cfg) (w : World) (h : StdEq cfg w) (f : Nat) (a b : Term) (k : K) :
    runBuiltin cfg (f+5) "\\=" [a, b] k w = neqOut k (unify f a b (fun w' => (w', some .stop)) w) := by
  rw [runBuiltin]
  simp only [query_eq_is_unify cfg w h]
  generalize unify f a b _ w = r
  obtain ⟨w', s⟩ := r
  cases s with
  | none => rfl
  | some s => cases s <;> rfl

/-- **Unifiable terms: `\=` fails.** If some solution of the heap makes the two terms equal, `a \= b`
    never runs its continuation: its outcome does not depend on the continuation, and it is a plain
    failure (or the recursion limit). -/
theorem neq_fails_when_unifiable (cfg : Cfg) (w : World) (h : StdEq cfg w) (f : Nat) (a b : Term)
    (θ : Val) (hθ : Solves θ w.b) (hu : a.subst θ = b.subst θ) :
    ∃ r : R, (r.2 = none ∨ r.2 = some .oof) ∧ ∀ k, runBuiltin cfg (f+5) "\\=" [a, b] k w = r := by
  cases unify_ushape f a b w with
  | oof r hr hk =>
    refine ⟨r, Or.inr hr, fun k => ?_⟩
    rw [neq_unfold cfg w h, hk]
    obtain ⟨w', s⟩ := r
    simp only at hr; subst hr; rfl
  | fail r hr hk hno _ _ => exact absurd hu (hno θ hθ)
  | once pre post hk _ _ _ =>
    refine ⟨(post pre, none), Or.inl rfl, fun k => ?_⟩
    rw [neq_unfold cfg w h, hk]; rfl

/-- **Terms without a unifier: `\=` succeeds once and binds nothing.** The continuation runs exactly
    once, in a world with the bindings, counter, store and collectors of the starting world. -/
theorem neq_succeeds_without_unifier (cfg : Cfg) (w : World) (h : StdEq cfg w) (f : Nat) (a b : Term)
    (hno : ∀ θ, Solves θ w.b → a.subst θ ≠ b.subst θ) (hsolv : Solvable w.b) (hcyc : w.cyc = false) :
    (∃ w', w'.b = w.b ∧ w'.core = w.core ∧ ∀ k, runBuiltin cfg (f+5) "\\=" [a, b] k w = k w') ∨
    (∃ r : R, r.2 = some .oof ∧ ∀ k, runBuiltin cfg (f+5) "\\=" [a, b] k w = r) ∨
    (∃ r : R, r.1.cyc = true ∧ ∀ k, runBuiltin cfg (f+5) "\\=" [a, b] k w = r) := by
  cases unify_ushape f a b w with
  | oof r hr hk =>
    refine Or.inr (Or.inl ⟨r, hr, fun k => ?_⟩)
    rw [neq_unfold cfg w h, hk]
    obtain ⟨w', s⟩ := r
    simp only at hr; subst hr; rfl
  | fail r hr hk _ hcore hb =>
    refine Or.inl ⟨r.1, hb, hcore, fun k => ?_⟩
    rw [neq_unfold cfg w h, hk]
    obtain ⟨w', s⟩ := r
    simp only at hr; subst hr; rfl
  | once pre post hk hiff hpre hpost =>
    -- the unification went through: then either the heap became cyclic (flagged), or there is a unifier
    by_cases hc : pre.cyc = false
    · obtain ⟨θ, hθ, _⟩ := hpre.solv hc hsolv (fun _ => .atom "a")
      exact absurd ((hiff θ).mp hθ).2 (hno θ ((hiff θ).mp hθ).1)
    · refine Or.inr (Or.inr ⟨(post pre, none), ?_, fun k => ?_⟩)
      · simp only [hpost.cyc]; simpa using hc
      · rw [neq_unfold cfg w h, hk]; rfl

/-- … and conversely: on an acyclic heap, when `\=` fails (its continuation — here one that would
    answer `stop` — is not run) and no cyclic term was built, the two terms do have a unifier. -/
theorem neq_fails_only_when_unifiable (cfg : Cfg) (w : World) (h : StdEq cfg w) (f : Nat) (a b : Term)
    (hsolv : Solvable w.b)
    (hfail : (runBuiltin cfg (f+5) "\\=" [a, b] (fun w' => (w', some .stop)) w).2 = none)
    (hc : (runBuiltin cfg (f+5) "\\=" [a, b] (fun w' => (w', some .stop)) w).1.cyc = false) :
    ∃ θ, Solves θ w.b ∧ a.subst θ = b.subst θ := by
  rw [neq_unfold cfg w h] at hfail hc
  cases unify_ushape f a b w with
  | oof r hr hk =>
    rw [hk] at hfail
    obtain ⟨w', s⟩ := r
    simp only at hr; subst hr; cases hfail
  | fail r hr hk _ _ _ =>
    rw [hk] at hfail
    obtain ⟨w', s⟩ := r
    simp only at hr; subst hr; cases hfail
  | once pre post hk hiff hpre hpost =>
    rw [hk] at hc
    have hc : (post pre).cyc = false := hc
    rw [hpost.cyc] at hc
    obtain ⟨θ, hθ, _⟩ := hpre.solv hc hsolv (fun _ => .atom "a")
    exact ⟨θ, (hiff θ).mp hθ⟩

end Yld
