/-
  The logical reading with dynamic facts (C01, C07), stage 4: completeness at the API (`LcApi`, for a
  store `D` of closed facts): the collecting consumer of the API is a recording consumer.
-/
import Yld.Proofs.LgFRecord
import Yld.Proofs.LcApi
set_option linter.unusedSimpArgs false
set_option linter.unusedVariables false
namespace Yld
namespace Lg
namespace F

variable {D : CDb}

theorem topConsumer_recs (f : Nat) (args : List Term) (θ : Val) (n : Nat) (ha : OwnL n args) :
    Recs D (Covered (args.map (Term.subst θ))) θ n (topConsumer f args .all) :=
  ⟨⟨(topConsumer_qk f args .all).b, (topConsumer_qk f args .all).db, (topConsumer_qk f args .all).next, False.elim⟩,
   topConsumer_keeps f args .all _,
   fun w' _ _ ⟨θ', hag, hs⟩ => topConsumer_covers f args θ θ' n ha hag w' hs⟩

/-- **Completeness of the recorded answers, for the ranked meaning of goals**: a run of the collecting
    consumer that ends normally has recorded an answer of which `args[θ]` is an instance. -/
theorem answers_complete {U : String → Bool} {cfg : Cfg} {preds : List Pred} (hc : HC U cfg preds)
    (hnc : ∀ p ∈ preds, ∀ c ∈ p.clauses, nocut c.body = true) (f : Nat) {name : String} (hU : U name = true)
    (args : List Term) (w0 : World) (hg : Good D False w0) (ha : OwnL w0.next args) (θ : Val) (hθ : Solves θ w0.b)
    (r : Nat) (hr : HN D preds r name (args.map (Term.subst θ)))
    (hend : (query cfg f name args (topConsumer f args .all) w0).2 = none) :
    Covered (args.map (Term.subst θ)) (query cfg f name args (topConsumer f args .all) w0).1 := by
  rcases query_rec_all hc hnc (covered_accOnly _) r f name hU args w0 θ _ hg ha hθ hr
    (topConsumer_recs f args θ w0.next ha) with h | h
  · exact absurd hend h
  · exact h

end F
end Lg
end Yld
