/-
  The logical reading of Horn programs (C01), stage 1: what a goal of the Horn fragment runs
  (`TailCase`: nothing, `unify`, or the clauses of one program predicate under textbook activation),
  and a unary pass over that part of the engine for any preorder on worlds that contains the steps of
  Horn generators (`Frame`: the fact store and the result lists are left alone, the ghost flag is
  not reset).  Consequences: quiet consumers stay quiet under the generators of the fragment
  (`QKGen`).
-/
import Yld.Proofs.LgBase
set_option linter.unusedSimpArgs false
set_option linter.unusedVariables false
namespace Yld
namespace Lg

/-! ### `query`, unfolded -/

/-- what `query` does after the dynamic facts -/
def qtail (cfg : Cfg) (f : Nat) (name : String) (args : List Term) : Gen := fun k w1 =>
  if cfg.blacklist.contains name then (w1, none) else
  match (cfg.defs.get (predKey name args.length)).orElse (fun _ => cfg.defs.get (variadicKey name)) with
  | none => (w1, none)
  | some chain => runChain cfg f chain args k w1

theorem query_succ (cfg : Cfg) (f : Nat) (name : String) (args : List Term) (k : K) (w : World) :
    query cfg (f+1) name args k w = andThenR (qtail cfg f name args k) (matchDynamic f name args k w) := by
  simp only [query]
  cases h : matchDynamic f name args k w with
  | mk w1 o =>
    cases o with
    | none =>
      simp only [andThenR_none, qtail]
      split
      · rfl
      · generalize (cfg.defs.get (predKey name args.length)).orElse (fun _ => cfg.defs.get (variadicKey name)) = o
        cases o <;> rfl
    | some s => simp only [andThenR_some]

theorem runChain_single (cfg : Cfg) (f : Nat) (d : Def) (args : List Term) (k : K) (w : World) :
    runChain cfg (f+1) [d] args k w = runDef cfg f d args k w := by
  cases f with
  | zero => simp only [runChain, runDef]
  | succ f =>
    simp only [runChain]
    cases h : runDef cfg (f+1) d args k w with
    | mk w1 o =>
      cases o with
      | none => rfl
      | some s => rfl

theorem runBuiltin_eq (cfg : Cfg) (f : Nat) (a b : Term) (k : K) (w : World) :
    runBuiltin cfg (f+1) "=" [a, b] k w = unify f a b k w := by
  simp only [runBuiltin]

theorem runDef_ref (cfg : Cfg) (f : Nat) (p : Pred) (args : List Term) (k : K) (w : World) :
    runDef cfg (f+1) (.prolog p .reference) args k w =
      leaveFrame (runClauses (fun c => runClauseRef f (query cfg f) c args) p.clauses (wrapK k) w) := by
  simp only [runDef]

theorem runDef_builtin (cfg : Cfg) (f : Nat) (b : String) (args : List Term) (k : K) (w : World) :
    runDef cfg (f+1) (.builtin b) args k w = runBuiltin cfg f b args k w := by
  simp only [runDef]

/-- with no dynamic facts the store is not consulted -/
theorem matchDynamic_nil (f : Nat) (name : String) (args : List Term) (k : K) (w : World) (h : w.db = []) :
    matchDynamic f name args k w = (w, none) := by
  unfold matchDynamic World.facts
  rw [h]
  simp [matchAll]

theorem query_succ_nil (cfg : Cfg) (f : Nat) (name : String) (args : List Term) (k : K) (w : World) (h : w.db = []) :
    query cfg (f+1) name args k w = qtail cfg f name args k w := by
  rw [query_succ, matchDynamic_nil f name args k w h, andThenR_none]

/-- What a goal of the Horn fragment runs once the dynamic facts are through: nothing (unknown or
    hidden name), the fuel runs out before the definition is reached, `unify` (for `=`), or the
    clauses of the program predicate. -/
inductive TailCase (cfg : Cfg) (preds : List Pred) (f : Nat) (name : String) (args : List Term) : Prop
  | none : (∀ k w, qtail cfg f name args k w = (w, none)) → TailCase cfg preds f name args
  | oof : (∀ k w, qtail cfg f name args k w = (w, some .oof)) → TailCase cfg preds f name args
  | eq (a b : Term) (n : Nat) : name = "=" → args = [a, b] → f = n + 3 →
      (∀ k w, qtail cfg f name args k w = unify n a b k w) → TailCase cfg preds f name args
  | user (p : Pred) (n : Nat) : p ∈ preds → p.name = name → p.arity = args.length → f = n + 2 →
      (∀ k w, qtail cfg f name args k w =
        leaveFrame (runClauses (fun c => runClauseRef n (query cfg n) c args) p.clauses (wrapK k) w)) →
      TailCase cfg preds f name args

theorem tailCase {U : String → Bool} {cfg : Cfg} {preds : List Pred} (hc : HC U cfg preds) (f : Nat)
    {name : String} (hU : U name = true) (args : List Term) : TailCase cfg preds f name args := by
  by_cases hbl : cfg.blacklist.contains name = true
  · exact .none (fun k w => by simp only [qtail, hbl, if_true])
  · cases hl : (cfg.defs.get (predKey name args.length)).orElse (fun _ => cfg.defs.get (variadicKey name)) with
    | none => exact .none (fun k w => by simp only [qtail, hbl, hl]; rfl)
    | some ds =>
      have hq : ∀ k w, qtail cfg f name args k w = runChain cfg f ds args k w := by
        intro k w; simp only [qtail, hbl, hl]; rfl
      rcases hc.only name args.length ds hU hl with ⟨hn, hlen, hds⟩ | ⟨p, hp, hpn, hpa, hds⟩
      · subst hds
        match args, hlen with
        | [a, b], _ =>
          match f with
          | 0 => exact .oof (fun k w => by rw [hq]; simp only [runChain])
          | 1 => exact .oof (fun k w => by rw [hq, runChain_single]; simp only [runDef])
          | 2 => exact .oof (fun k w => by rw [hq, runChain_single, runDef_builtin]; simp only [runBuiltin])
          | n+3 =>
            exact .eq a b n hn rfl rfl (fun k w => by rw [hq, runChain_single, runDef_builtin, runBuiltin_eq])
      · subst hds
        match f with
        | 0 => exact .oof (fun k w => by rw [hq]; simp only [runChain])
        | 1 => exact .oof (fun k w => by rw [hq, runChain_single]; simp only [runDef])
        | n+2 => exact .user p n hp hpn hpa rfl (fun k w => by rw [hq, runChain_single, runDef_ref])

/-! ### the pass -/

theorem frame_b (w : World) (b : Bind) : Frame w { w with b := b } := ⟨rfl, rfl, id⟩

theorem markCyc_frame (f x : Nat) (t : Term) (w : World) : Frame w (markCyc f x t w) :=
  ⟨markCyc_db' _ _ _ _, markCyc_acc _ _ _ _, markCyc_cyc _ _ _ _⟩

theorem allocVars_frame (names : List String) (env : Env) (w : World) : Frame w (allocVars names env w).2 :=
  ⟨(allocVars_grow names env w).2, allocVars_acc names env w, fun h => by rw [allocVars_cyc]; exact h⟩

theorem horn_not_ite {U : String → Bool} {a : Body} (h : hornBy U a = true) : ∀ c t, a ≠ .ite c t := by
  intro c t e; subst e; simp [hornBy] at h

section relpass
variable {Rel : World → World → Prop} (hR : StepRel Rel)
include hR

theorem andThenR_relp {f : World → R} (hf : ∀ w, Rel w (f w).1) {w : World} {r : R} (h : Rel w r.1) :
    Rel w (andThenR f r).1 := by
  obtain ⟨w', o⟩ := r
  cases o with
  | none => exact hR.trans h (hf w')
  | some s => exact h

theorem bindGen_relp (x : Nat) (t : Term) : GRelP Rel (bindGen x t) := by
  intro k hk w
  unfold bindGen
  have h := hk { w with b := bind w.b x t }
  revert h
  generalize k { w with b := bind w.b x t } = r
  obtain ⟨w', o⟩ := r
  intro h
  exact hR.trans (hR.trans (hR.step (frame_b w _)) h) (hR.step (frame_b w' _))

theorem unifyList_relp (u : Term → Term → Gen) (hu : ∀ a b, GRelP Rel (u a b)) :
    ∀ as bs, GRelP Rel (unifyList u as bs) := by
  intro as
  induction as with
  | nil =>
    intro bs k hk w
    cases bs with
    | nil => simpa [unifyList] using hk w
    | cons b bs => simp only [unifyList]; exact hR.refl _
  | cons a as ih =>
    intro bs k hk w
    cases bs with
    | nil => simp only [unifyList]; exact hR.refl _
    | cons b bs =>
      simp only [unifyList]
      exact hu a b _ (fun w' => ih bs k hk w') w

theorem unify_relp (f : Nat) : ∀ t1 t2, GRelP Rel (unify f t1 t2) := by
  induction f with
  | zero => intro t1 t2 k _ w; rw [unify]; exact hR.refl _
  | succ f ih =>
    intro t1 t2 k hk w
    rw [unify]
    cases h1 : walk w.b (f+1) t1 with
    | none => exact hR.refl _
    | some a1 =>
      cases h2 : walk w.b (f+1) t2 with
      | none => exact hR.refl _
      | some a2 =>
        simp only
        cases a1 <;> cases a2 <;> simp only
        all_goals first
          | exact hR.refl _
          | exact bindGen_relp hR _ _ k hk _
          | exact hR.trans (hR.step (markCyc_frame _ _ _ _)) (bindGen_relp hR _ _ k hk _)
          | (split
             · first | exact hk w | exact unifyList_relp hR (unify f) ih _ _ k hk w
             · first | exact hR.refl _ | exact bindGen_relp hR _ _ k hk _)

theorem matchFact_relp (f : Nat) (fact : Fact) (args : List Term) : GRelP Rel (matchFact f fact args) := by
  intro k hk w
  unfold matchFact
  simp only
  split
  · exact hR.trans (hR.step (w' := { w with next := w.next + fact.nvars }) ⟨rfl, rfl, id⟩)
      (unifyList_relp hR _ (unify_relp hR f) _ _ k hk _)
  · exact hR.step ⟨rfl, rfl, id⟩

theorem matchAll_relp (f : Nat) (args : List Term) : ∀ cs, GRelP Rel (matchAll f args cs) := by
  intro cs
  induction cs with
  | nil => intro k _ w; simp only [matchAll]; exact hR.refl _
  | cons c cs ih =>
    intro k hk w
    simp only [matchAll]
    exact andThenR_relp hR (fun w' => ih k hk w') (matchFact_relp hR f c args k hk w)

theorem matchDynamic_relp (f : Nat) (name : String) (args : List Term) : GRelP Rel (matchDynamic f name args) := by
  intro k hk w
  unfold matchDynamic
  exact matchAll_relp hR f args _ k hk w

theorem unifyHead_relp (fuel : Nat) (env : Env) (args : List Term) (g : Gen) (hg : GRelP Rel g) :
    ∀ us, GRelP Rel (unifyHead fuel env args us g) := by
  intro us
  induction us with
  | nil => simpa [unifyHead] using hg
  | cons u us ih =>
    obtain ⟨i, t⟩ := u
    intro k hk w
    simp only [unifyHead]
    exact unify_relp hR fuel _ _ _ (fun w' => ih k hk w') w

theorem solve_relp {U : String → Bool} (q : Q) (hq : ∀ name, U name = true → ∀ args, GRelP Rel (q name args)) (env : Env) :
    ∀ (b : Body) (d : Nat), hornBy U b = true → GRelP Rel (solve q env d b)
  | .tru, d, _ => by intro k hk w; simp only [solve]; exact hk w
  | .fail, d, _ => by intro k _ w; simp only [solve]; exact hR.refl _
  | .cut, d, _ => by intro k hk w; simp only [solve]; rw [thenSig_world]; exact hk w
  | .call name args, d, h => by
    intro k hk w; simp only [solve]
    exact hq name (by simpa [hornBy] using h) _ k hk w
  | .conj a b, d, h => by
    intro k hk w
    simp only [hornBy, Bool.and_eq_true] at h
    simp only [solve]
    exact solve_relp q hq env a d h.1 _ (fun w' => solve_relp q hq env b d h.2 k hk w') w
  | .disj a b, d, h => by
    intro k hk w
    simp only [hornBy, Bool.and_eq_true] at h
    rw [solve_disj_eq q env d a b k w (horn_not_ite h.1)]
    exact andThenR_relp hR (fun w' => solve_relp q hq env b d h.2 k hk w') (solve_relp q hq env a d h.1 k hk w)
  | .ite _ _, _, h => by simp [hornBy] at h
  | .neg _, _, h => by simp [hornBy] at h
  | .cutif _, _, h => by simp [hornBy] at h

theorem runClauseRef_relp {U : String → Bool} (fuel : Nat) (q : Q)
    (hq : ∀ name, U name = true → ∀ args, GRelP Rel (q name args)) (c : Clause) (hc : hornBy U c.body = true)
    (args : List Term) : GRelP Rel (runClauseRef fuel q c args) := by
  intro k hk w
  unfold runClauseRef
  simp only
  exact hR.trans (hR.step (allocVars_frame _ _ _))
    (unifyHead_relp hR fuel _ args _ (solve_relp hR q hq _ _ 0 hc) _ k hk _)

theorem runClauses_relp {α : Type} (run : α → Gen) : ∀ cs : List α, (∀ c ∈ cs, GRelP Rel (run c)) →
    GRelP Rel (runClauses run cs) := by
  intro cs
  induction cs with
  | nil => intro _ k _ w; simp only [runClauses]; exact hR.refl _
  | cons c cs ih =>
    intro hrun k hk w
    simp only [runClauses]
    have h1 := hrun c List.mem_cons_self k hk w
    cases h : run c k w with
    | mk w' s =>
      rw [h] at h1
      cases s with
      | none => exact hR.trans h1 (ih (fun c' hc' => hrun c' (List.mem_cons_of_mem _ hc')) k hk w')
      | some s => exact h1

theorem wrapK_relp {k : K} (hk : KRelP Rel k) : KRelP Rel (wrapK k) := by
  intro w; rw [wrapK_fst]; exact hk w

/-- **The pass.** Every goal of the Horn fragment, at every fuel. -/
theorem query_relp {U : String → Bool} {cfg : Cfg} {preds : List Pred} (hc : HC U cfg preds) :
    ∀ f name, U name = true → ∀ args, GRelP Rel (query cfg f name args) := by
  intro f
  induction f using Nat.strongRecOn with
  | _ f ih =>
    intro name hU args k hk w
    cases f with
    | zero => simp only [query]; exact hR.refl _
    | succ f =>
      rw [query_succ]
      refine andThenR_relp hR (fun w1 => ?_) (matchDynamic_relp hR f name args k hk w)
      cases tailCase hc f hU args with
      | none h => rw [h]; exact hR.refl _
      | oof h => rw [h]; exact hR.refl _
      | eq a b n _ _ _ h => rw [h]; exact unify_relp hR n a b k hk w1
      | user p n hp hpn hpa hf h =>
        rw [h, leaveFrame_world]
        refine runClauses_relp hR _ _ (fun c hcm => ?_) _ (wrapK_relp hR hk) w1
        exact runClauseRef_relp hR n _ (ih n (by omega)) c ((hc.shape p hp).2.2 c hcm).2 args

end relpass

/-! ### quiet consumers stay quiet -/

theorem stepRel_db : StepRel (fun w w' => w'.db = w.db) :=
  ⟨fun _ => rfl, fun h1 h2 => h2.trans h1, fun h => h.db⟩

/-- a quiet consumer is one of the consumers of `Yld.Proofs.Grow` -/
theorem QK.kgrow {cm : Prop} {k : K} (hk : QK cm k) : KGrow k :=
  fun w => ⟨hk.next w, fun h => by rw [hk.db w]; exact h⟩

/-- the generator keeps quiet consumers quiet -/
def QKGen (cm : Prop) (g : Gen) : Prop := ∀ k, QK cm k → QK cm (fun w => g k w)

theorem qkGen_of {cm : Prop} {g : Gen} (h1 : Restoring g) (h2 : GRelP (fun w w' => w'.db = w.db) g)
    (h3 : GGrow g) (h4 : CycGen g) : QKGen cm g :=
  fun k hk => ⟨fun w => h1 k hk.b w, fun w => h2 k hk.db w, fun w => (h3 k hk.kgrow w).1,
    fun hcm => h4 k (hk.cyc hcm)⟩

theorem query_qkGen {U : String → Bool} {cfg : Cfg} {preds : List Pred} (hc : HC U cfg preds) (cm : Prop)
    (f : Nat) {name : String} (hU : U name = true) (args : List Term) : QKGen cm (query cfg f name args) :=
  qkGen_of (query_restoring cfg f name args) (query_relp stepRel_db hc f name hU args)
    (query_grow cfg f name args) (query_cycGen cfg f name args)

theorem unify_qkGen (cm : Prop) (f : Nat) (a b : Term) : QKGen cm (unify f a b) :=
  qkGen_of (unify_restoring f a b) (unify_relp stepRel_db f a b) (unify_grow f a b) (unify_cycGen f a b)

theorem solve_qkGen {U : String → Bool} {cfg : Cfg} {preds : List Pred} (hc : HC U cfg preds) (cm : Prop)
    (f : Nat) (env : Env) (b : Body) (d : Nat) (hb : hornBy U b = true) : QKGen cm (solve (query cfg f) env d b) :=
  qkGen_of (solve_restoring _ (query_restoring cfg f) env b d)
    (solve_relp stepRel_db _ (fun name hU args => query_relp stepRel_db hc f name hU args) env b d hb)
    (solve_grow _ (query_grow cfg f) env b d) (solve_cycGen _ (query_cycGen cfg f) env b d)

theorem runClauseRef_qkGen {U : String → Bool} {cfg : Cfg} {preds : List Pred} (hc : HC U cfg preds) (cm : Prop)
    (f : Nat) (c : Clause) (hb : hornBy U c.body = true) (args : List Term) :
    QKGen cm (runClauseRef f (query cfg f) c args) :=
  qkGen_of (runClauseRef_restoring f _ (query_restoring cfg f) c args)
    (runClauseRef_relp stepRel_db f _ (fun name hU args => query_relp stepRel_db hc f name hU args) c hb args)
    (runClauseRef_grow f _ (query_grow cfg f) c args) (runClauseRef_cycGen f _ (query_cycGen cfg f) c args)

end Lg
end Yld
