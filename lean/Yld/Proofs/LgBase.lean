/-
  The logical reading of Horn programs (C01), stage 0: vocabulary that does not mention the
  inductive definition of `Holds` (which lives in `Yld.Proofs.Logic`, whose statements are fixed and
  which imports these files):

  * `IsInst ι`   — `ι : STerm → Term` is compositional (an "instance function"); both
                   `STerm.inst σ` and `fun t => (t.eval env).subst θ` are, and an instance function is
                   determined by its values on variables;
  * `bsem H ι b` — truth of a Horn body under an instance function, given the meaning `H` of goals;
  * `Body.hornBy U`, `Body.nocut`, `HC U cfg preds` — `Body.horn`, `Body.cutFree`, `HornCfg` with the
                   name test as a parameter;
  * `QK cm k`    — quiet consumers (`Quiet`), optionally (`cm`) monotone in the ghost flag `cyc`;
  * `WScoped`, `Good`, `Ext`, `Frame`.
-/
import Yld.Proofs.IlClause
import Yld.Proofs.Grow
import Yld.Proofs.ActCyc
import Yld.Proofs.ActShape
import Yld.Proofs.ActClause2
set_option linter.unusedSimpArgs false
set_option linter.unusedVariables false
namespace Yld
namespace Lg

/-! ### instance functions -/

/-- `ι` commutes with the constructors of source terms -/
structure IsInst (ι : STerm → Term) : Prop where
  atom : ∀ s, ι (.atom s) = .atom s
  num : ∀ n, ι (.num n) = .int n
  fn : ∀ f args, ι (.fn f args) = .fn f (args.map ι)
  numfn : ∀ f args, ι (.numfn f args) = .fn f (args.map ι)
  list : ∀ items, ι (.list items) = mkList (items.map ι)
  lpair : ∀ h t, ι (.lpair h t) = .fn "." [ι h, ι t]

/-- an instance function is determined by what it does to the variables -/
theorem IsInst.ext {ι ι' : STerm → Term} (h : IsInst ι) (h' : IsInst ι') (t : STerm)
    (hv : ∀ v ∈ t.vars, ι (.var v) = ι' (.var v)) : ι t = ι' t := by
  induction t using STerm.rec (motive_2 := fun ts =>
      (∀ v ∈ (ts.map STerm.vars).flatten, ι (.var v) = ι' (.var v)) → ts.map ι = ts.map ι') with
  | var n => exact hv n (by simp [STerm.vars])
  | atom s => rw [h.atom, h'.atom]
  | num n => rw [h.num, h'.num]
  | fn f args ih => rw [h.fn, h'.fn, ih (by rw [← vars_fn']; exact hv)]
  | numfn f args ih => rw [h.numfn, h'.numfn, ih (by rw [← vars_numfn']; exact hv)]
  | list items ih => rw [h.list, h'.list, ih (by rw [← vars_list']; exact hv)]
  | lpair a b iha ihb =>
    rw [h.lpair, h'.lpair, iha (fun v hm => hv v (by simp [STerm.vars, hm])),
      ihb (fun v hm => hv v (by simp [STerm.vars, hm]))]
  | nil => rfl
  | cons a as iha ihas =>
    rename_i hv'
    simp only [List.map_cons]
    rw [iha (fun v hm => hv' v (by simp [hm])), ihas (fun v hm => hv' v (by
      simp only [List.map_cons, List.flatten_cons, List.mem_append]; exact Or.inr hm))]

theorem subst_atom (θ : Nat → Term) (s : String) : Term.subst θ (.atom s) = .atom s := by simp [Term.subst]
theorem subst_int (θ : Nat → Term) (i : Int) : Term.subst θ (.int i) = .int i := by simp [Term.subst]

theorem mkList_subst (θ : Nat → Term) (ts : List Term) : (mkList ts).subst θ = mkList (ts.map (Term.subst θ)) := by
  induction ts with
  | nil => simp [mkList, Term.subst]
  | cons t ts ih => simp only [mkList, subst_fn, List.map_cons, List.map_nil, ih]

/-- evaluating in an environment and then applying a valuation is an instance function -/
theorem isInst_eval (env : Env) (θ : Nat → Term) : IsInst (fun t => (t.eval env).subst θ) where
  atom s := by simp only [STerm.eval, subst_atom]
  num n := by simp only [STerm.eval, subst_int]
  fn f args := by simp only [eval_fn', subst_fn, List.map_map]; rfl
  numfn f args := by simp only [eval_numfn', subst_fn, List.map_map]; rfl
  list items := by simp only [eval_list', mkList_subst, List.map_map]; rfl
  lpair h t := by simp only [STerm.eval, subst_fn, List.map_cons, List.map_nil]

/-! ### Horn bodies -/

/-- truth of a Horn body under the instance function `ι`, given the meaning `H` of goals -/
def bsem (H : String → List Term → Prop) (ι : STerm → Term) : Body → Prop
  | .tru => True
  | .cut => True
  | .call name args => H name (args.map ι)
  | .conj a b => bsem H ι a ∧ bsem H ι b
  | .disj a b => bsem H ι a ∨ bsem H ι b
  | _ => False

/-- `Body.horn`, with the test on goal names as a parameter -/
def hornBy (U : String → Bool) : Body → Bool
  | .tru | .fail | .cut => true
  | .call name _ => U name
  | .conj a b => hornBy U a && hornBy U b
  | .disj a b => hornBy U a && hornBy U b
  | .ite _ _ | .neg _ | .cutif _ => false

/-- `Body.cutFree` -/
def nocut : Body → Bool
  | .cut => false
  | .conj a b | .disj a b | .ite a b => nocut a && nocut b
  | .neg a => nocut a
  | _ => true

theorem bsem_mono {H H' : String → List Term → Prop} (hH : ∀ n a, H n a → H' n a) (ι : STerm → Term) :
    ∀ b : Body, bsem H ι b → bsem H' ι b
  | .tru, h => h
  | .cut, h => h
  | .fail, h => h
  | .cutif _, h => h
  | .ite _ _, h => h
  | .neg _, h => h
  | .call name args, h => hH _ _ h
  | .conj a b, h => ⟨bsem_mono hH ι a h.1, bsem_mono hH ι b h.2⟩
  | .disj a b, h => h.elim (fun x => Or.inl (bsem_mono hH ι a x)) (fun x => Or.inr (bsem_mono hH ι b x))

/-- the body's truth depends on the instance function only through the body's variables -/
theorem bsem_congr {H : String → List Term → Prop} {ι ι' : STerm → Term} (h : IsInst ι) (h' : IsInst ι') :
    ∀ b : Body, (∀ v ∈ b.vars, ι (.var v) = ι' (.var v)) → bsem H ι b → bsem H ι' b
  | .tru, _, x => x
  | .cut, _, x => x
  | .fail, _, x => x
  | .cutif _, _, x => x
  | .ite _ _, _, x => x
  | .neg _, _, x => x
  | .call name args, hv, x => by
    simp only [bsem] at x ⊢
    have : args.map ι' = args.map ι := by
      apply List.map_congr_left
      intro t ht
      exact (IsInst.ext h h' t (fun v hm => hv v (by
        simp only [Body.vars, List.mem_flatten, List.mem_map]
        exact ⟨t.vars, ⟨t, ht, rfl⟩, hm⟩))).symm
    rw [this]; exact x
  | .conj a b, hv, x =>
    ⟨bsem_congr h h' a (fun v hm => hv v (by simp [Body.vars, hm])) x.1,
     bsem_congr h h' b (fun v hm => hv v (by simp [Body.vars, hm])) x.2⟩
  | .disj a b, hv, x =>
    x.elim (fun y => Or.inl (bsem_congr h h' a (fun v hm => hv v (by simp [Body.vars, hm])) y))
      (fun y => Or.inr (bsem_congr h h' b (fun v hm => hv v (by simp [Body.vars, hm])) y))

/-- `HornCfg`, with the test on goal names as a parameter -/
structure HC (U : String → Bool) (cfg : Cfg) (preds : List Pred) : Prop where
  user : ∀ p ∈ preds, cfg.defs.get (predKey p.name p.arity) = some [.prolog p .reference]
  only : ∀ name n ds, U name = true →
      ((cfg.defs.get (predKey name n)).orElse (fun _ => cfg.defs.get (variadicKey name))) = some ds →
      (name = "=" ∧ n = 2 ∧ ds = [.builtin "="]) ∨ ∃ p ∈ preds, p.name = name ∧ p.arity = n ∧ ds = [.prolog p .reference]
  shape : ∀ p ∈ preds, U p.name = true ∧ p.name ≠ "=" ∧
      ∀ c ∈ p.clauses, c.head.length = p.arity ∧ hornBy U c.body = true
  visible : ∀ p ∈ preds, cfg.blacklist.contains p.name = false
  eqVisible : cfg.blacklist.contains "=" = false ∧ cfg.defs.get (predKey "=" 2) = some [.builtin "="]

/-! ### consumers and worlds -/

/-- a quiet consumer (`Quiet` of `Yld.Proofs.Logic`), which under `cm` also never resets the ghost
    flag `cyc` -/
structure QK (cm : Prop) (k : K) : Prop where
  b : ∀ w, (k w).1.b = w.b
  db : ∀ w, (k w).1.db = w.db
  next : ∀ w, w.next ≤ (k w).1.next
  cyc : cm → CycMono k

/-- `World.Scoped` -/
def WScoped (w : World) : Prop := ∀ x u, w.b x = some u → x < w.next ∧ Own w.next u

/-- the solutions of `w'` are solutions of `w` -/
def Ext (w w' : World) : Prop := ∀ θ, Solves θ w'.b → Solves θ w.b

theorem Ext.refl (w : World) : Ext w w := fun _ h => h
theorem Ext.trans {a b c : World} (h1 : Ext a b) (h2 : Ext b c) : Ext a c := fun θ h => h1 θ (h2 θ h)
theorem Ext.of_b {a b : World} (h : b.b = a.b) : Ext a b := fun θ hθ => h ▸ hθ

/-- a world in which a Horn query may be started: no dynamic facts, bindings within the allocated
    cells; under `cm`: unflagged heaps are acyclic -/
structure Good (cm : Prop) (w : World) : Prop where
  db : w.db = []
  sc : WScoped w
  solv : cm → w.cyc = false → Solvable w.b

/-- a world reached from `w` -/
structure Step (cm : Prop) (w w' : World) : Prop where
  good : Good cm w'
  ext : Ext w w'
  next : w.next ≤ w'.next

theorem Step.refl {cm : Prop} {w : World} (h : Good cm w) : Step cm w w := ⟨h, Ext.refl w, Nat.le_refl _⟩
theorem Step.trans {cm : Prop} {a b c : World} (h1 : Step cm a b) (h2 : Step cm b c) : Step cm a c :=
  ⟨h2.good, h1.ext.trans h2.ext, Nat.le_trans h1.next h2.next⟩

theorem WScoped.of_b {w w' : World} (h : WScoped w) (hb : w'.b = w.b) (hn : w.next ≤ w'.next) : WScoped w' := by
  intro x u hx
  rw [hb] at hx
  obtain ⟨h1, h2⟩ := h x u hx
  exact ⟨Nat.lt_of_lt_of_le h1 hn, h2.mono hn⟩

/-- what a quiet consumer hands back is as good as what it was given -/
theorem QK.good {cm : Prop} {k : K} (hk : QK cm k) {w : World} (h : Good cm w) : Good cm (k w).1 := by
  refine ⟨(hk.db w).trans h.db, h.sc.of_b (hk.b w) (hk.next w), fun hcm hc => ?_⟩
  rw [hk.b w]
  refine h.solv hcm ?_
  cases hw : w.cyc with
  | false => rfl
  | true => rw [hk.cyc hcm w hw] at hc; cases hc

theorem QK.step {cm : Prop} {k : K} (hk : QK cm k) {w : World} (h : Good cm w) : Step cm w (k w).1 :=
  ⟨hk.good h, Ext.of_b (hk.b w), hk.next w⟩

theorem QK.wrapK {cm : Prop} {k : K} (hk : QK cm k) : QK cm (wrapK k) := by
  have e : ∀ w, (Yld.wrapK k w).1 = (k w).1 := by
    intro w; unfold Yld.wrapK
    cases h : k w with
    | mk w' s => cases s <;> rfl
  exact ⟨fun w => by rw [e]; exact hk.b w, fun w => by rw [e]; exact hk.db w, fun w => by rw [e]; exact hk.next w,
    fun hcm => wrapK_cycMono k (hk.cyc hcm)⟩

theorem QK.thenSig {cm : Prop} {k : K} (hk : QK cm k) (s : Sig) : QK cm (fun w => thenSig s (k w)) :=
  ⟨fun w => by simp only [thenSig_world]; exact hk.b w, fun w => by simp only [thenSig_world]; exact hk.db w,
   fun w => by simp only [thenSig_world]; exact hk.next w,
   fun hcm w hw => by simp only [thenSig_world]; exact hk.cyc hcm w hw⟩

/-- the classical merge of two quiet consumers -/
theorem QK.ite {cm : Prop} {k1 k2 : K} (h1 : QK cm k1) (h2 : QK cm k2) (P : World → Prop) [DecidablePred P] :
    QK cm (fun w => if P w then k1 w else k2 w) := by
  refine ⟨fun w => ?_, fun w => ?_, fun w => ?_, fun hcm w hw => ?_⟩ <;> show _ <;> split
  · exact h1.b w
  · exact h2.b w
  · exact h1.db w
  · exact h2.db w
  · exact h1.next w
  · exact h2.next w
  · exact h1.cyc hcm w hw
  · exact h2.cyc hcm w hw

/-! ### the fields that the generators of the Horn fragment leave alone -/

structure Frame (w w' : World) : Prop where
  db : w'.db = w.db
  acc : w'.acc = w.acc
  cyc : w.cyc = true → w'.cyc = true

/-- a preorder on worlds that contains every step of a Horn generator -/
structure StepRel (Rel : World → World → Prop) : Prop where
  refl : ∀ w, Rel w w
  trans : ∀ {a b c}, Rel a b → Rel b c → Rel a c
  step : ∀ {w w'}, Frame w w' → Rel w w'

def KRelP (Rel : World → World → Prop) (k : K) : Prop := ∀ w, Rel w (k w).1
def GRelP (Rel : World → World → Prop) (g : Gen) : Prop := ∀ k, KRelP Rel k → KRelP Rel (g k)

end Lg
end Yld
