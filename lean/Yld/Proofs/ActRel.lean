/-
  The simulation relation between a run with the textbook activation (side 1) and a run with the
  aliased activation (side 2).

  The two heaps bind different cells in different orders, so they are not compared syntactically
  but through their *solutions* (`Solves θ b`, `Yld.Proofs.UnifyMGU`): a coupling `S θ1 θ2` relates
  the solutions of the two heaps ("θ1 and θ2 give corresponding clause variables the same value").
  Terms correspond when they have the same value under coupled solutions (`TRel`).  Why this is
  kept by binding, on both sides: `unify` leaves exactly the solutions of the starting heap that
  satisfy the equation (`UShape.once`); equations between corresponding terms cut corresponding
  subsets out of a coupling; so the restricted coupling couples the two new heaps — in whatever
  order, orientation and number of steps the two sides bind.  Allocation refines the coupling by
  equations on cells neither heap nor coupling has looked at (`Supp`).
-/
import Yld.Proofs.ActShape
import Yld.Proofs.ActVariant
import Yld.Proofs.ActCyc
import Yld.Proofs.FuelMono
set_option linter.unusedSimpArgs false
set_option linter.unusedVariables false
namespace Yld

abbrev Cpl := Val → Val → Prop

def Sub (S' S : Cpl) : Prop := ∀ θ1 θ2, S' θ1 θ2 → S θ1 θ2
theorem Sub.refl (S : Cpl) : Sub S S := fun _ _ h => h
theorem Sub.trans {S S' S'' : Cpl} (h1 : Sub S'' S') (h2 : Sub S' S) : Sub S'' S := fun _ _ h => h2 _ _ (h1 _ _ h)

/-- corresponding terms: the same value under coupled solutions -/
def TRel (S : Cpl) (t1 t2 : Term) : Prop := ∀ θ1 θ2, S θ1 θ2 → t1.subst θ1 = t2.subst θ2

theorem TRel.sub {S S' : Cpl} (h : Sub S' S) {t1 t2 : Term} (ht : TRel S t1 t2) : TRel S' t1 t2 :=
  fun θ1 θ2 hs => ht θ1 θ2 (h _ _ hs)

theorem TRelL.sub {S S' : Cpl} (h : Sub S' S) {l1 l2 : List Term} (ht : Forall₂ (TRel S) l1 l2) :
    Forall₂ (TRel S') l1 l2 := ht.imp (fun _ _ => TRel.sub h)

theorem TRelL.map_eq {S : Cpl} {l1 l2 : List Term} (ht : Forall₂ (TRel S) l1 l2) {θ1 θ2 : Val} (hs : S θ1 θ2) :
    l1.map (Term.subst θ1) = l2.map (Term.subst θ2) := by
  induction ht with
  | nil => rfl
  | cons h _ ih => simp only [List.map_cons]; rw [h θ1 θ2 hs, ih]

theorem TRel.atom (S : Cpl) (s : String) : TRel S (.atom s) (.atom s) := fun _ _ _ => by simp [Term.subst]
theorem TRel.int (S : Cpl) (i : Int) : TRel S (.int i) (.int i) := fun _ _ _ => by simp [Term.subst]
theorem TRel.fn {S : Cpl} (g : String) {l1 l2 : List Term} (h : Forall₂ (TRel S) l1 l2) :
    TRel S (.fn g l1) (.fn g l2) := fun θ1 θ2 hs => by rw [subst_fn, subst_fn, TRelL.map_eq h hs]

theorem TRel.mkList {S : Cpl} {l1 l2 : List Term} (h : Forall₂ (TRel S) l1 l2) : TRel S (mkList l1) (mkList l2) := by
  induction h with
  | nil => exact TRel.atom S _
  | cons h1 _ ih => exact TRel.fn "." (.cons h1 (.cons ih .nil))

/-- the coupling only looks at the cells below `n1` / `n2` -/
def Supp (S : Cpl) (n1 n2 : Nat) : Prop :=
  ∀ θ1 θ2 θ1' θ2', S θ1 θ2 → (∀ x, x < n1 → θ1' x = θ1 x) → (∀ x, x < n2 → θ2' x = θ2 x) → S θ1' θ2'

/-- `S` couples the solutions of `b1` with the solutions of `b2` -/
structure Core (S : Cpl) (b1 b2 : Bind) (n1 n2 : Nat) : Prop where
  sol1 : ∀ θ1 θ2, S θ1 θ2 → Solves θ1 b1
  sol2 : ∀ θ1 θ2, S θ1 θ2 → Solves θ2 b2
  tot1 : ∀ θ1, Solves θ1 b1 → ∃ θ2, S θ1 θ2
  tot2 : ∀ θ2, Solves θ2 b2 → ∃ θ1, S θ1 θ2
  supp : Supp S n1 n2

theorem Core.mono {S : Cpl} {b1 b2 : Bind} {n1 n2 n1' n2' : Nat} (h : Core S b1 b2 n1 n2)
    (h1 : n1 ≤ n1') (h2 : n2 ≤ n2') : Core S b1 b2 n1' n2' :=
  ⟨h.sol1, h.sol2, h.tot1, h.tot2, fun θ1 θ2 θ1' θ2' hs e1 e2 =>
    h.supp θ1 θ2 θ1' θ2' hs (fun x hx => e1 x (Nat.lt_of_lt_of_le hx h1)) (fun x hx => e2 x (Nat.lt_of_lt_of_le hx h2))⟩

/-- corresponding terms do not depend on cells above the support, on either side -/
theorem TRel.stable1 {S : Cpl} {n1 n2 : Nat} (hsupp : Supp S n1 n2) {t1 t2 : Term} (ht : TRel S t1 t2)
    {θ1 θ2 θ1' : Val} (hs : S θ1 θ2) (e : ∀ x, x < n1 → θ1' x = θ1 x) : t1.subst θ1' = t1.subst θ1 := by
  rw [ht θ1 θ2 hs, ht θ1' θ2 (hsupp θ1 θ2 θ1' θ2 hs e (fun _ _ => rfl))]
theorem TRel.stable2 {S : Cpl} {n1 n2 : Nat} (hsupp : Supp S n1 n2) {t1 t2 : Term} (ht : TRel S t1 t2)
    {θ1 θ2 θ2' : Val} (hs : S θ1 θ2) (e : ∀ x, x < n2 → θ2' x = θ2 x) : t2.subst θ2' = t2.subst θ2 := by
  rw [← ht θ1 θ2 hs, ← ht θ1 θ2' (hsupp θ1 θ2 θ1 θ2' hs (fun _ _ => rfl) e)]

/-- a block of `n` new cells on each side, coupled cell by cell -/
def blockCpl (S : Cpl) (m1 m2 n : Nat) : Cpl := fun θ1 θ2 => S θ1 θ2 ∧ ∀ i, i < n → θ1 (m1 + i) = θ2 (m2 + i)

theorem blockCpl_sub (S : Cpl) (m1 m2 n : Nat) : Sub (blockCpl S m1 m2 n) S := fun _ _ h => h.1

theorem Core.block {S : Cpl} {b1 b2 : Bind} {n1 n2 : Nat} (h : Core S b1 b2 n1 n2) {m1 m2 : Nat}
    (h1 : n1 ≤ m1) (h2 : n2 ≤ m2) (n : Nat) : Core (blockCpl S m1 m2 n) b1 b2 (m1 + n) (m2 + n) := by
  refine ⟨fun θ1 θ2 hs => h.sol1 θ1 θ2 hs.1, fun θ1 θ2 hs => h.sol2 θ1 θ2 hs.1, ?_, ?_, ?_⟩
  · intro θ1 hθ1
    obtain ⟨θ2, hs⟩ := h.tot1 θ1 hθ1
    refine ⟨fun x => if m2 ≤ x ∧ x < m2 + n then θ1 (m1 + (x - m2)) else θ2 x, ?_, ?_⟩
    · refine h.supp θ1 θ2 _ _ hs (fun _ _ => rfl) (fun x hx => ?_)
      have : ¬ (m2 ≤ x ∧ x < m2 + n) := fun hh => by omega
      simp only [this, if_false]
    · intro i hi
      have : m2 ≤ m2 + i ∧ m2 + i < m2 + n := ⟨by omega, by omega⟩
      simp only [this, and_self, if_true]
      congr 2; omega
  · intro θ2 hθ2
    obtain ⟨θ1, hs⟩ := h.tot2 θ2 hθ2
    refine ⟨fun x => if m1 ≤ x ∧ x < m1 + n then θ2 (m2 + (x - m1)) else θ1 x, ?_, ?_⟩
    · refine h.supp θ1 θ2 _ _ hs (fun x hx => ?_) (fun _ _ => rfl)
      have : ¬ (m1 ≤ x ∧ x < m1 + n) := fun hh => by omega
      simp only [this, if_false]
    · intro i hi
      have : m1 ≤ m1 + i ∧ m1 + i < m1 + n := ⟨by omega, by omega⟩
      simp only [this, and_self, if_true]
      congr 2; omega
  · intro θ1 θ2 θ1' θ2' hs e1 e2
    refine ⟨h.supp θ1 θ2 θ1' θ2' hs.1 (fun x hx => e1 x (by omega)) (fun x hx => e2 x (by omega)), ?_⟩
    intro i hi
    rw [e1 _ (by omega), e2 _ (by omega)]
    exact hs.2 i hi

/-- a closed term copied into the two blocks -/
theorem TRel.block (S : Cpl) (m1 m2 n : Nat) (c : Term) (hc : ∀ x ∈ c.vars, x < n) :
    TRel (blockCpl S m1 m2 n) (c.rename (· + m1)) (c.rename (· + m2)) := by
  intro θ1 θ2 hs
  rw [subst_rename, subst_rename]
  apply subst_congr
  intro x hx
  have := hs.2 x (hc x hx)
  simpa [Nat.add_comm] using this

/-! ### the result lists of `findall`: variants of each other, over cells nobody else has seen -/

inductive FV : Nat → Nat → List Term → List Term → Nat → Nat → Prop
  | nil {lo1 lo2 hi1 hi2 : Nat} : lo1 ≤ hi1 → lo2 ≤ hi2 → FV lo1 lo2 [] [] hi1 hi2
  | cons {lo1 lo2 m1 m2 n : Nat} {c : Term} {l1 l2 : List Term} {hi1 hi2 : Nat} :
      lo1 ≤ m1 → lo2 ≤ m2 → (∀ x ∈ c.vars, x < n) → FV (m1 + n) (m2 + n) l1 l2 hi1 hi2 →
      FV lo1 lo2 (c.rename (· + m1) :: l1) (c.rename (· + m2) :: l2) hi1 hi2

theorem FV.le {lo1 lo2 hi1 hi2 : Nat} {l1 l2 : List Term} (h : FV lo1 lo2 l1 l2 hi1 hi2) : lo1 ≤ hi1 ∧ lo2 ≤ hi2 := by
  induction h with
  | nil h1 h2 => exact ⟨h1, h2⟩
  | cons h1 h2 _ _ ih => exact ⟨by omega, by omega⟩

theorem FV.mono {lo1 lo2 hi1 hi2 : Nat} {l1 l2 : List Term} (h : FV lo1 lo2 l1 l2 hi1 hi2) {hi1' hi2' : Nat}
    (e1 : hi1 ≤ hi1') (e2 : hi2 ≤ hi2') : FV lo1 lo2 l1 l2 hi1' hi2' := by
  induction h with
  | nil h1 h2 => exact .nil (by omega) (by omega)
  | cons h1 h2 hc _ ih => exact .cons h1 h2 hc (ih e1 e2)

theorem FV.snoc {lo1 lo2 hi1 hi2 : Nat} {l1 l2 : List Term} (h : FV lo1 lo2 l1 l2 hi1 hi2) (n : Nat) (c : Term)
    (hc : ∀ x ∈ c.vars, x < n) :
    FV lo1 lo2 (l1 ++ [c.rename (· + hi1)]) (l2 ++ [c.rename (· + hi2)]) (hi1 + n) (hi2 + n) := by
  induction h with
  | nil h1 h2 => exact .cons h1 h2 hc (.nil (Nat.le_refl _) (Nat.le_refl _))
  | cons h1 h2 hc' _ ih => exact .cons h1 h2 hc' ih

/-- the coupling extended by the result lists -/
theorem Core.fv {b1 b2 : Bind} {lo1 lo2 hi1 hi2 : Nat} {l1 l2 : List Term} (hfv : FV lo1 lo2 l1 l2 hi1 hi2) :
    ∀ {S : Cpl}, Core S b1 b2 lo1 lo2 →
      ∃ S', Sub S' S ∧ Core S' b1 b2 hi1 hi2 ∧ Forall₂ (TRel S') l1 l2 := by
  induction hfv with
  | nil h1 h2 => intro S h; exact ⟨S, Sub.refl S, h.mono h1 h2, .nil⟩
  | @cons lo1 lo2 m1 m2 n c l1 l2 hi1 hi2 h1 h2 hc _ ih =>
    intro S h
    obtain ⟨S', hsub, hcore, hl⟩ := ih (h.block h1 h2 n)
    exact ⟨S', Sub.trans hsub (blockCpl_sub S m1 m2 n), hcore,
      .cons (TRel.sub hsub (TRel.block S m1 m2 n c hc)) hl⟩

end Yld
