/-
  Lemmas about line splitting (helpers for C19; not property statements).
-/
import Yld.Model.Cli
namespace Yld

def noBreak (l : List Char) : Prop := ∀ c ∈ l, c ≠ '\n' ∧ c ≠ '\r'

theorem splitAux_ne_nil (b : Bool) (cs : List Char) : splitAux b cs ≠ [] := by
  induction cs generalizing b with
  | nil => simp [splitAux]
  | cons c rest ih =>
    simp only [splitAux]
    split
    · split
      · exact ih false
      · simp
    · split
      · simp
      · split <;> simp

theorem splitAux_no_breaks (b : Bool) (cs : List Char) : ∀ l ∈ splitAux b cs, noBreak l := by
  induction cs generalizing b with
  | nil => intro l hl; simp [splitAux] at hl; subst hl; intro c hc; cases hc
  | cons c rest ih =>
    intro l hl
    simp only [splitAux] at hl
    split at hl
    · split at hl
      · exact ih false l hl
      · simp at hl; rcases hl with rfl | h
        · intro c hc; cases hc
        · exact ih false l h
    · split at hl
      · simp at hl; rcases hl with rfl | h
        · intro c hc; cases hc
        · exact ih true l h
      · rename_i hn hr
        split at hl
        · rename_i l0 ls heq
          simp at hl
          rcases hl with rfl | h
          · intro x hx
            simp at hx
            rcases hx with rfl | hx
            · exact ⟨hn, hr⟩
            · exact ih false l0 (by rw [heq]; simp) x hx
          · exact ih false l (by rw [heq]; simp [h])
        · simp at hl; subst hl
          intro x hx; simp at hx; subst hx; exact ⟨hn, hr⟩

theorem splitAux_line (l rest : List Char) (h : noBreak l) :
    splitAux false (l ++ '\n' :: rest) = l :: splitAux false rest := by
  induction l with
  | nil => simp [splitAux]
  | cons c l' ih =>
    have hc := h c (List.mem_cons_self)
    have ih' := ih (fun x hx => h x (List.mem_cons_of_mem _ hx))
    simp only [List.cons_append, splitAux, hc.1, hc.2, if_false, ih']


/-- The lines of `comment_lines(msg)` followed by any text: the prefixed segments, then the
    lines of the text. -/
theorem pyLines_commentLines_append (msg code : List Char) :
    pyLines (commentLines msg ++ code) = (splitLines msg).map (fun l => '#' :: ' ' :: l) ++ pyLines code := by
  unfold pyLines commentLines splitLines
  have hseg := splitAux_no_breaks false msg
  generalize splitAux false msg = segs at hseg
  induction segs with
  | nil => simp
  | cons l ls ih =>
    simp only [List.map_cons, List.flatten_cons, List.cons_append, List.append_assoc, List.nil_append]
    have hl : noBreak ('#' :: ' ' :: l) := by
      intro c hc
      simp at hc
      rcases hc with rfl | rfl | hc
      · decide
      · decide
      · exact hseg l List.mem_cons_self c hc
    have := splitAux_line ('#' :: ' ' :: l) ((ls.map fun l => '#' :: ' ' :: l ++ ['\n']).flatten ++ code) hl
    simp only [List.cons_append] at this
    have ih' := ih (fun l' hl' => hseg l' (List.mem_cons_of_mem _ hl'))
    simp only [List.cons_append, List.append_assoc] at ih'
    rw [this, ih']

end Yld
