import Yld.Proofs.ActClause
import Yld.Proofs.ClauseOK
namespace Yld

/-- all variables of a clause, as `runClauseRef` lists them -/
def clauseNames (c : Clause) : List String := dedup ((c.head.map STerm.vars).flatten ++ c.body.vars)

theorem zipIdx_swap_eq (c : Clause) :
    (c.head.zipIdx.map fun (t, i) => (i, t)) = c.head.zipIdx.map fun (p : STerm × Nat) => (p.2, p.1) := rfl

theorem aliases_map_eq (cc : ClauseCode) (args : List Term) :
    (cc.aliases.map fun (v, i) => (v, args.getD i (.atom "$noarg"))) =
      cc.aliases.map fun (p : String × Nat) => (p.1, args.getD p.2 (.atom "$noarg")) := rfl

/-! ### association lists -/

theorem Env.get_of_lookup {env : Env} {v : String} {t : Term} (h : env.lookup v = some t) : env.get v = t := by
  simp [Env.get, h]

theorem freshAssoc_lookup_mem : ∀ (names : List String) (b : Nat) (v : String), v ∈ names →
    (freshAssoc names b).lookup v = some (.var (b + names.idxOf v)) := by
  intro names
  induction names with
  | nil => intro b v h; cases h
  | cons x xs ih =>
    intro b v h
    by_cases e : v = x
    · subst e
      simp [freshAssoc]
    · have hx : v ∈ xs := by
        rcases List.mem_cons.mp h with h | h
        · exact absurd h e
        · exact h
      have e1 : (v == x) = false := by simpa using e
      have e2 : (x == v) = false := by simpa using fun h => e h.symm
      simp only [freshAssoc, List.lookup, e1, List.idxOf_cons, e2, cond_false]
      rw [ih (b + 1) v hx]
      congr 2
      omega

theorem freshAssoc_lookup_not_mem : ∀ (names : List String) (b : Nat) (v : String), v ∉ names →
    (freshAssoc names b).lookup v = none := by
  intro names
  induction names with
  | nil => intro b v _; rfl
  | cons x xs ih =>
    intro b v h
    have e : v ≠ x := fun e => h (e ▸ List.mem_cons_self)
    have hx : v ∉ xs := fun hx => h (List.mem_cons_of_mem _ hx)
    have e1 : (v == x) = false := by simpa using e
    simp only [freshAssoc, List.lookup, e1]
    exact ih (b + 1) v hx

theorem freshAssoc_get (names : List String) (b : Nat) (v : String) (h : v ∈ names) :
    (freshAssoc names b).get v = .var (b + names.idxOf v) :=
  Env.get_of_lookup (freshAssoc_lookup_mem names b v h)

theorem lookup_map_snd {β γ : Type} (f : β → γ) (k : String) : ∀ (l : List (String × β)),
    (l.map fun p => (p.1, f p.2)).lookup k = (l.lookup k).map f := by
  intro l
  induction l with
  | nil => rfl
  | cons p ps ih =>
    simp only [List.map_cons, List.lookup]
    cases (k == p.1) with
    | true => rfl
    | false => exact ih

theorem alookup_of_mem_nodup {β : Type} (k : String) (v : β) : ∀ (l : List (String × β)),
    (l.map Prod.fst).Nodup → (k, v) ∈ l → l.lookup k = some v := by
  intro l
  induction l with
  | nil => intro _ h; cases h
  | cons p ps ih =>
    intro hn hm
    rw [List.map_cons, List.nodup_cons] at hn
    rcases List.mem_cons.mp hm with e | hm'
    · subst e
      simp [List.lookup]
    · have : k ≠ p.1 := by
        intro e
        exact hn.1 (e ▸ List.mem_map.mpr ⟨_, hm', rfl⟩)
      have e1 : (k == p.1) = false := by simpa using this
      obtain ⟨p1, p2⟩ := p
      simp only [List.lookup, e1]
      exact ih hn.2 hm'

theorem mem_of_lookup {β : Type} (k : String) (v : β) : ∀ (l : List (String × β)),
    l.lookup k = some v → (k, v) ∈ l := by
  intro l
  induction l with
  | nil => intro h; cases h
  | cons p ps ih =>
    intro h
    obtain ⟨p1, p2⟩ := p
    simp only [List.lookup] at h
    cases e : (k == p1) with
    | true =>
      rw [e] at h
      have : k = p1 := by simpa using e
      subst this
      simp only [Option.some.injEq] at h
      subst h
      exact List.mem_cons_self
    | false =>
      rw [e] at h
      exact List.mem_cons_of_mem _ (ih h)

theorem lookup_none_iff {β : Type} (k : String) (l : List (String × β)) :
    l.lookup k = none ↔ k ∉ l.map Prod.fst := by
  rw [List.lookup_eq_none_iff]
  constructor
  · intro h hm
    obtain ⟨p, hp, e⟩ := List.mem_map.mp hm
    have := h p hp
    simp [e] at this
  · intro h p hp
    have : k ≠ p.1 := fun e => h (List.mem_map.mpr ⟨p, hp, e.symm⟩)
    simpa using this

theorem idxOf_inj {l : List String} {a b : String} (ha : a ∈ l) (hb : b ∈ l)
    (h : l.idxOf a = l.idxOf b) : a = b := by
  have la := List.idxOf_lt_length_of_mem ha
  have lb := List.idxOf_lt_length_of_mem hb
  have h1 : l[l.idxOf a]? = some a := by rw [List.getElem?_eq_getElem la, List.getElem_idxOf la]
  have h2 : l[l.idxOf b]? = some b := by rw [List.getElem?_eq_getElem lb, List.getElem_idxOf lb]
  rw [h, h2] at h1
  exact (Option.some.inj h1).symm

/-! ### the pieces of `compileClause`, by position -/

/-- what `headAlias` does with one head argument -/
def aliasOf (tops : List String) (a : STerm) : Option String :=
  match a with
  | .var v => if tops.count v = 1 then some v else none
  | _ => none

theorem headAlias_getElem? (head : List STerm) (i : Nat) :
    (headAlias head)[i]? = head[i]?.map (aliasOf (topVars head)) := by
  unfold headAlias
  rw [List.getElem?_map]
  rfl

theorem aliasOf_some {tops : List String} {a : STerm} {v : String} (h : aliasOf tops a = some v) : a = .var v := by
  cases a with
  | var x =>
    simp only [aliasOf] at h
    split at h
    · simp only [Option.some.injEq] at h; rw [h]
    · cases h
  | _ => simp [aliasOf] at h

theorem headAlias_some {head : List STerm} {i : Nat} {v : String}
    (h : (headAlias head)[i]? = some (some v)) : head[i]? = some (.var v) := by
  rw [headAlias_getElem?] at h
  cases e : head[i]? with
  | none => rw [e] at h; cases h
  | some a =>
    rw [e] at h
    simp only [Option.map_some, Option.some.injEq] at h
    rw [aliasOf_some h]

theorem mem_head_swap (head : List STerm) (i : Nat) (t : STerm) :
    (i, t) ∈ (head.zipIdx.map fun (p : STerm × Nat) => (p.2, p.1)) ↔ head[i]? = some t := by
  rw [List.mem_map]
  constructor
  · rintro ⟨⟨t', i'⟩, hm, e⟩
    simp only [Prod.mk.injEq] at e
    obtain ⟨rfl, rfl⟩ := e
    exact List.mem_zipIdx_iff_getElem?.mp hm
  · intro h
    exact ⟨(t, i), List.mem_zipIdx_iff_getElem?.mpr h, rfl⟩

theorem mem_aliases (c : Clause) (n : Nat) (v : String) (i : Nat) :
    (v, i) ∈ (compileClause c n).1.aliases ↔ (headAlias c.head)[i]? = some (some v) := by
  have hal : (compileClause c n).1.aliases =
      ((headAlias c.head).zipIdx).filterMap fun (x : Option String × Nat) => x.1.map fun v => (v, x.2) := rfl
  rw [hal, List.mem_filterMap]
  constructor
  · rintro ⟨⟨o, i'⟩, hm, e⟩
    cases o with
    | none => cases e
    | some v' =>
      simp only [Option.map_some, Option.some.injEq, Prod.mk.injEq] at e
      obtain ⟨rfl, rfl⟩ := e
      exact List.mem_zipIdx_iff_getElem?.mp hm
  · intro h
    exact ⟨(some v, i), List.mem_zipIdx_iff_getElem?.mpr h, rfl⟩

theorem mem_unifs (c : Clause) (n : Nat) (i : Nat) (t : STerm) :
    (i, t) ∈ (compileClause c n).1.unifs ↔ c.head[i]? = some t ∧ (headAlias c.head)[i]? = some none := by
  have hu : (compileClause c n).1.unifs =
      (((c.head.zip (headAlias c.head)).zipIdx).filterMap fun (x : (STerm × Option String) × Nat) =>
        match x.1.2 with | none => some (x.2, x.1.1) | some _ => none) := rfl
  rw [hu, List.mem_filterMap]
  constructor
  · rintro ⟨⟨⟨t', o⟩, i'⟩, hm, e⟩
    cases o with
    | some v' => cases e
    | none =>
      simp only [Option.some.injEq, Prod.mk.injEq] at e
      obtain ⟨rfl, rfl⟩ := e
      have := List.mem_zipIdx_iff_getElem?.mp hm
      exact List.getElem?_zip_eq_some.mp this
  · intro h
    exact ⟨((t, none), i), List.mem_zipIdx_iff_getElem?.mpr (List.getElem?_zip_eq_some.mpr h), rfl⟩

theorem aliases_nodup (c : Clause) (n : Nat) : ((compileClause c n).1.aliases.map Prod.fst).Nodup := by
  rw [compileClause_aliases]; exact filter_count_one_nodup _

theorem Env.get_append_of_lookup {e e' : Env} {v : String} {t : Term} (h : e.lookup v = some t) :
    Env.get (e ++ e') v = t := by
  apply Env.get_of_lookup
  rw [List.lookup_append, h]; rfl

theorem Env.get_append_of_none {e e' : Env} {v : String} (h : e.lookup v = none) :
    Env.get (e ++ e') v = Env.get e' v := by
  simp only [Env.get, List.lookup_append, h, Option.none_or]

theorem prologue_compile (c : Clause) (n : Nat) (args2 : List Term) (m1 m2 : Nat) :
    ∃ (al : String → Option Nat) (c1 c2 : String → Nat),
      Prologue m1 m2 (m1 + (clauseNames c).length)
        (m2 + (compileClause c n).1.declsHead.length + (compileClause c n).1.declsBody.length)
        (freshAssoc (clauseNames c) m1)
        (((compileClause c n).1.aliases.map fun (p : String × Nat) => (p.1, args2.getD p.2 (.atom "$noarg")))
            ++ freshAssoc (compileClause c n).1.declsHead m2
            ++ freshAssoc (compileClause c n).1.declsBody (m2 + (compileClause c n).1.declsHead.length))
        args2
        (c.head.zipIdx.map fun (p : STerm × Nat) => (p.2, p.1))
        (compileClause c n).1.unifs
        (clauseNames c) al c1 c2 := by
  -- the three groups of names
  let bound1 := (compileClause c n).1.aliases.map Prod.fst
  let headVars := (c.head.map STerm.vars).flatten
  have hdh : (compileClause c n).1.declsHead = dedup (headVars.filter fun v => !bound1.contains v) := rfl
  have hdb : (compileClause c n).1.declsBody =
      dedup (c.body.vars.filter fun v => !(bound1 ++ (compileClause c n).1.declsHead).contains v) := rfl
  have hdhmem : ∀ v, v ∈ (compileClause c n).1.declsHead ↔ (v ∈ headVars ∧ v ∉ bound1) := by
    intro v
    rw [hdh, (dedup_spec _).2 v, List.mem_filter]
    simp
  have hdbmem : ∀ v, v ∈ (compileClause c n).1.declsBody ↔
      (v ∈ c.body.vars ∧ v ∉ bound1 ∧ v ∉ (compileClause c n).1.declsHead) := by
    intro v
    rw [hdb, (dedup_spec _).2 v, List.mem_filter]
    simp
  have hnames : ∀ v, v ∈ clauseNames c ↔ (v ∈ headVars ∨ v ∈ c.body.vars) := by
    intro v
    unfold clauseNames
    rw [(dedup_spec _).2 v, List.mem_append]
  have hnodup := aliases_nodup c n
  generalize hA : (compileClause c n).1.aliases = A at *
  generalize hDH : (compileClause c n).1.declsHead = DH at *
  generalize hDB : (compileClause c n).1.declsBody = DB at *
  have hb1 : bound1 = A.map Prod.fst := by rw [← hA]
  have hmA : ∀ v i, (v, i) ∈ A ↔ (headAlias c.head)[i]? = some (some v) := by
    intro v i; rw [← hA]; exact mem_aliases c n v i
  have hdecl : ∀ V ∈ clauseNames c, A.lookup V = none → V ∈ DH ∨ (V ∉ DH ∧ V ∈ DB) := by
    intro V hV hal
    have hb : V ∉ bound1 := hb1 ▸ (lookup_none_iff V A).mp hal
    by_cases hd : V ∈ DH
    · exact Or.inl hd
    · refine Or.inr ⟨hd, ?_⟩
      rcases (hnames V).mp hV with h | h
      · exact absurd ((hdhmem V).mpr ⟨h, hb⟩) hd
      · exact (hdbmem V).mpr ⟨h, hb, hd⟩
  refine ⟨fun V => A.lookup V, fun V => m1 + (clauseNames c).idxOf V,
    fun V => if V ∈ DH then m2 + DH.idxOf V else m2 + DH.length + DB.idxOf V, ?_⟩
  refine ⟨?_, ?_, ?_, ?_, ?_, ?_, ?_, ?_, ?_⟩
  · -- sub21
    rintro ⟨i, t⟩ hp
    exact (mem_head_swap c.head i t).mpr ((mem_unifs c n i t).mp hp).1
  · -- split
    rintro ⟨i, t⟩ hp
    have ht := (mem_head_swap c.head i t).mp hp
    have hha := headAlias_getElem? c.head i
    rw [ht, Option.map_some] at hha
    cases e : aliasOf (topVars c.head) t with
    | none =>
      rw [e] at hha
      exact Or.inl ((mem_unifs c n i t).mpr ⟨ht, hha⟩)
    | some v =>
      rw [e] at hha
      refine Or.inr ⟨v, aliasOf_some e, ?_⟩
      exact alookup_of_mem_nodup v i A hnodup ((hmA v i).mpr hha)
  · -- alias
    intro V i _ hal
    have := (hmA V i).mp (mem_of_lookup V i A hal)
    exact (mem_head_swap c.head i _).mpr (headAlias_some this)
  · -- eqvars
    rintro ⟨i, t⟩ hp v hv
    have ht := (mem_head_swap c.head i t).mp hp
    have hmem : t ∈ c.head := List.mem_of_getElem? ht
    exact (hnames v).mpr (Or.inl (List.mem_flatten.mpr ⟨_, List.mem_map.mpr ⟨_, hmem, rfl⟩, hv⟩))
  · -- e1
    intro V hV
    refine ⟨freshAssoc_get _ _ _ hV, Nat.le_add_right _ _, ?_⟩
    have := List.idxOf_lt_length_of_mem hV
    omega
  · -- inj1
    intro V hV V' hV' h
    exact idxOf_inj hV hV' (by omega)
  · -- e2a
    intro V _ i hal
    rw [List.append_assoc]
    apply Env.get_append_of_lookup
    rw [lookup_map_snd (fun j => args2.getD j (.atom "$noarg")) V A, hal]
    rfl
  · -- e2b
    intro V hV hal
    have hal' : A.lookup V = none := hal
    rw [List.append_assoc, Env.get_append_of_none (by
      rw [lookup_map_snd (fun j => args2.getD j (.atom "$noarg")) V A, hal']; rfl)]
    rcases hdecl V hV hal' with hd | ⟨hd, hb⟩
    · simp only [hd, if_true]
      refine ⟨Env.get_append_of_lookup (freshAssoc_lookup_mem _ _ _ hd), Nat.le_add_right _ _, ?_⟩
      have := List.idxOf_lt_length_of_mem hd
      omega
    · simp only [hd, if_false]
      rw [Env.get_append_of_none (freshAssoc_lookup_not_mem _ _ _ hd)]
      refine ⟨freshAssoc_get _ _ _ hb, by omega, ?_⟩
      have := List.idxOf_lt_length_of_mem hb
      omega
  · -- inj2
    intro V hV V' hV' hal hal' h
    rcases hdecl V hV hal with hd | ⟨hd, hb⟩ <;> rcases hdecl V' hV' hal' with hd' | ⟨hd', hb'⟩
    · simp only [hd, hd', if_true] at h
      exact idxOf_inj hd hd' (by omega)
    · simp only [hd, hd', if_true, if_false] at h
      have := List.idxOf_lt_length_of_mem hd
      omega
    · simp only [hd, hd', if_true, if_false] at h
      have := List.idxOf_lt_length_of_mem hd'
      omega
    · simp only [hd, hd', if_false] at h
      exact idxOf_inj hb hb' (by omega)

end Yld
