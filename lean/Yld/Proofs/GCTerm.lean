/-
  Stage B of the completeness proof: the term-level parsers
  (1) never run out of fuel when the fuel is at least `3 * input length + c` (on any input), and
  (2) accept the flattened forms of `GCForms.lean` when followed by a FOLLOW token.
-/
import Yld.Proofs.GCForms
namespace Yld
namespace GC

/-! ### No fuel error, and progress, on arbitrary input -/

/-- the result is not a fuel error, and if it is `ok`, fewer than `n` tokens are left -/
def Good {α : Type} (n : Nat) : PR α → Prop
  | .ok (_, rest, _) => rest.length < n
  | .error e => e ≠ .fuel

theorem Good.mono {α : Type} {n m : Nat} {r : PR α} (h : Good n r) (hnm : n ≤ m) : Good m r := by
  rcases r with e | ⟨t, r, s⟩
  · exact h
  · exact Nat.lt_of_lt_of_le h hnm

def NP (f : Nat) : Prop := ∀ toks st, 3 * toks.length + 1 ≤ f → Good toks.length (parsePrimary f toks st)
def NA (f : Nat) : Prop := ∀ toks st name isNum, 3 * toks.length + 4 ≤ f →
  Good toks.length (parseArgs f toks st name isNum)
def NL (f : Nat) : Prop := ∀ toks st, 3 * toks.length + 3 ≤ f → Good toks.length (parseTermList f toks st)
def NT (f : Nat) : Prop := ∀ toks st, 3 * toks.length + 2 ≤ f → Good toks.length (parseTerm f toks st)
def NB (f : Nat) : Prop := ∀ lhs toks st, 3 * toks.length + 1 ≤ f →
  Good (toks.length + 1) (parseBinTail f lhs toks st)

/-- case split on the first token of `r` -/
macro "head_cases " r:ident : tactic =>
  `(tactic| ((rcases $r:ident with _ | ⟨tk, $r:ident⟩) <;> (try cases tk)))

theorem np_succ (f : Nat) (ihP : NP f) (ihA : NA f) (ihL : NL f) (ihT : NT f) : NP (f+1) := by
  intro toks st hf
  unfold parsePrimary
  split
  case h_1 => simp [Good]; omega
  case h_2 =>
    exact (ihA _ _ _ _ (by simp at hf ⊢; omega)).mono (by simp; omega)
  case h_3 =>
    exact (ihA _ _ _ _ (by simp at hf ⊢; omega)).mono (by simp; omega)
  case h_4 =>
    exact (ihA _ _ _ _ (by simp at hf ⊢; omega)).mono (by simp; omega)
  case h_5 => simp [Good]
  case h_6 => simp [Good]
  case h_7 => simp [Good]
  case h_8 =>
    generalize mkVar _ st = p
    rcases p with ⟨_, _⟩
    simp [Good]
  case h_9 o rest =>
    have h := ihP rest st (by simp at hf ⊢; omega)
    generalize parsePrimary f rest st = r at h ⊢
    rcases r with e | ⟨t, r, s⟩
    · exact h
    · simp [Good] at h ⊢; omega
  case h_10 o rest =>
    have h := ihT rest st (by simp at hf ⊢; omega)
    generalize parseTerm f rest st = r at h ⊢
    rcases r with e | ⟨t, r, s⟩
    · exact h
    · simp only [Good] at h
      head_cases r
      case cons.comma =>
        dsimp only
        have h2 := ihT r s (by simp at hf h ⊢; omega)
        generalize parseTerm f r s = r2 at h2 ⊢
        rcases r2 with e | ⟨t2, r2, s2⟩
        · exact h2
        · simp only [Good] at h2
          head_cases r2
          case cons.rparen => simp [Good] at h h2 ⊢; omega
          all_goals simp [Good]
      all_goals simp [Good]
  case h_11 rest =>
    have h := ihT rest st (by simp at hf ⊢; omega)
    generalize parseTerm f rest st = r at h ⊢
    rcases r with e | ⟨t, r, s⟩
    · exact h
    · simp only [Good] at h
      head_cases r
      case cons.rparen => simp [Good] at h ⊢; omega
      all_goals simp [Good]
  case h_12 => simp [Good]; omega
  case h_13 rest _ =>
    have h := ihL rest st (by simp at hf ⊢; omega)
    generalize parseTermList f rest st = r at h ⊢
    rcases r with e | ⟨t, r, s⟩
    · exact h
    · simp only [Good] at h
      split <;> simp_all [Good] <;> omega
  case h_14 => simp [Good]

theorem na_succ (f : Nat) (ihL : NL f) : NA (f+1) := by
  intro toks st name isNum hf
  unfold parseArgs
  split
  · simp [Good]
  · have h := ihL toks st (by omega)
    generalize parseTermList f toks st = r at h ⊢
    rcases r with e | ⟨t, r, s⟩
    · exact h
    · simp only [Good] at h
      split <;> simp_all [Good] <;> omega

theorem nl_succ (f : Nat) (ihL : NL f) (ihT : NT f) : NL (f+1) := by
  intro toks st hf
  unfold parseTermList
  have h := ihT toks st (by omega)
  generalize parseTerm f toks st = r at h ⊢
  rcases r with e | ⟨t, r, s⟩
  · exact h
  · simp only [Good] at h
    split
    next heq =>
      cases heq
      simp [Good] at h ⊢; omega
    next heq =>
      cases heq
      rename_i r1 _
      have h2 := ihL r1 s (by simp at h ⊢; omega)
      generalize parseTermList f r1 s = r2 at h2 ⊢
      rcases r2 with e | ⟨t2, r2, s2⟩
      · exact h2
      · simp [Good] at h h2 ⊢; omega
    next heq =>
      cases heq
      simp [Good] at h ⊢; omega
    next heq => cases heq

theorem nt_succ (f : Nat) (ihP : NP f) (ihB : NB f) : NT (f+1) := by
  intro toks st hf
  unfold parseTerm
  have h := ihP toks st (by omega)
  generalize parsePrimary f toks st = r at h ⊢
  rcases r with e | ⟨t, r, s⟩
  · exact h
  · simp only [Good] at h
    exact (ihB t r s (by omega)).mono (by omega)

theorem nb_succ (f : Nat) (ihP : NP f) (ihB : NB f) : NB (f+1) := by
  intro lhs toks st hf
  unfold parseBinTail
  split
  next o rest =>
    have h := ihP rest st (by simp at hf ⊢; omega)
    generalize parsePrimary f rest st = r at h ⊢
    rcases r with e | ⟨t, r, s⟩
    · exact h
    · simp only [Good] at h
      exact (ihB _ r s (by simp at hf ⊢; omega)).mono (by simp; omega)
  next => simp [Good]

theorem term_nofuel : ∀ f, NP f ∧ NA f ∧ NL f ∧ NT f ∧ NB f := by
  intro f
  induction f with
  | zero =>
    refine ⟨?_, ?_, ?_, ?_, ?_⟩
    · intro toks st h; omega
    · intro toks st name isNum h; omega
    · intro toks st h; omega
    · intro toks st h; omega
    · intro lhs toks st h; omega
  | succ f ih =>
    obtain ⟨ihP, ihA, ihL, ihT, ihB⟩ := ih
    exact ⟨np_succ f ihP ihA ihL ihT, na_succ f ihL, nl_succ f ihL ihT, nt_succ f ihP ihB,
      nb_succ f ihP ihB⟩


/-! ### FOLLOW conditions -/

/-- tokens that can follow a term -/
def tfol : Tok → Bool
  | .comma | .rparen | .rbrack | .bar | .dot | .neck | .arrow | .semi => true
  | _ => false

/-- tokens a term can start with -/
def tstart : Tok → Bool
  | .atom _ | .num _ | .str _ | .var _ | .unop _ | .binop _ | .lparen | .lbrack => true
  | _ => false

def TF (rest : List Tok) : Prop := ∃ x r, rest = x :: r ∧ tfol x = true
def PF (rest : List Tok) : Prop := TF rest ∨ ∃ o r, rest = .binop o :: r
def LF (rest : List Tok) : Prop :=
  (∃ r, rest = .rparen :: r) ∨ (∃ r, rest = .rbrack :: r) ∨ (∃ r, rest = .bar :: r) ∨
    (∃ r, rest = .comma :: .bar :: r)

theorem TF_cons {x : Tok} {r : List Tok} (h : tfol x = true) : TF (x :: r) := ⟨x, r, rfl, h⟩

theorem LF.tf {rest : List Tok} (h : LF rest) : TF rest := by
  rcases h with ⟨r, rfl⟩ | ⟨r, rfl⟩ | ⟨r, rfl⟩ | ⟨r, rfl⟩ <;> exact TF_cons rfl

theorem prim_start {p : List Tok} (h : Prim p) : ∃ x p', p = x :: p' ∧ tstart x = true := by
  cases h with
  | atm a _ ha hu => subst hu; cases a <;> simp [isAtomTok] at ha <;> exact ⟨_, _, rfl, rfl⟩
  | var s _ hu => exact ⟨_, _, hu, rfl⟩
  | slash s n _ hu => exact ⟨_, _, hu, rfl⟩
  | fn0 a _ ha hu => subst hu; cases a <;> simp [isAtomTok] at ha <;> exact ⟨_, _, rfl, rfl⟩
  | fn a t c n _ ha _ _ hu => subst hu; cases a <;> simp [isAtomTok] at ha <;> exact ⟨_, _, rfl, rfl⟩
  | unop o p _ _ hu => exact ⟨_, _, hu, rfl⟩
  | binfn o a b _ _ _ hu => exact ⟨_, _, hu, rfl⟩
  | paren t _ _ hu => exact ⟨_, _, hu, rfl⟩
  | list0 _ hu => exact ⟨_, _, hu, rfl⟩
  | list t c n _ _ _ hu => exact ⟨_, _, hu, rfl⟩
  | lbar t c n v _ _ _ hu => exact ⟨_, _, hu, rfl⟩
  | lbar1 t v _ _ hu => exact ⟨_, _, hu, rfl⟩

theorem term_start {t : List Tok} (h : Term t) : ∃ x t', t = x :: t' ∧ tstart x = true := by
  cases h with
  | term p tl _ hp _ hu =>
    obtain ⟨x, p', rfl, hx⟩ := prim_start hp
    exact ⟨x, p' ++ tl, by simp [hu], hx⟩

/-! ### Equations of the parsers on inputs of known shape -/

theorem pp_atom {f : Nat} {s : String} {rest : List Tok} {st : PS}
    (h1 : ∀ r, rest ≠ .lparen :: r) (h2 : ∀ r, rest ≠ .slash :: r) :
    parsePrimary (f+1) (.atom s :: rest) st = .ok (.atom s, rest, st) := by
  rcases rest with _ | ⟨x, r⟩
  · simp [parsePrimary]
  · cases x <;> simp_all [parsePrimary]

theorem pp_num {f : Nat} {s : String} {rest : List Tok} {st : PS}
    (h1 : ∀ r, rest ≠ .lparen :: r) :
    parsePrimary (f+1) (.num s :: rest) st = .ok (.num s, rest, st) := by
  rcases rest with _ | ⟨x, r⟩
  · simp [parsePrimary]
  · cases x <;> simp_all [parsePrimary]

theorem pp_str {f : Nat} {s : String} {rest : List Tok} {st : PS}
    (h1 : ∀ r, rest ≠ .lparen :: r) :
    parsePrimary (f+1) (.str s :: rest) st = .ok (.atom (unquote s), rest, st) := by
  rcases rest with _ | ⟨x, r⟩
  · simp [parsePrimary]
  · cases x <;> simp_all [parsePrimary]

theorem pp_fn {a : Tok} (ha : isAtomTok a = true) : ∃ name isNum, ∀ f rest st,
    parsePrimary (f+1) (a :: .lparen :: rest) st = parseArgs f rest st name isNum := by
  cases a <;> simp [isAtomTok] at ha
  case atom s => exact ⟨s, false, fun f rest st => by simp [parsePrimary]⟩
  case num s => exact ⟨s, true, fun f rest st => by simp [parsePrimary]⟩
  case str s => exact ⟨unquote s, false, fun f rest st => by simp [parsePrimary]⟩

theorem pp_lbrack_list {f : Nat} {toks rest : List Tok} {st st1 : PS} {items : List RTerm}
    (h : ∀ r, toks ≠ .rbrack :: r)
    (h1 : parseTermList f toks st = .ok (items, .rbrack :: rest, st1)) :
    parsePrimary (f+1) (.lbrack :: toks) st = .ok (.list items, rest, st1) := by
  rcases toks with _ | ⟨x, r⟩
  · simp [parsePrimary, h1]
  · cases x <;> simp_all [parsePrimary]

theorem pp_lbrack_bar {f : Nat} {toks rest : List Tok} {st st1 : PS} {items : List RTerm} {v : String}
    (h : ∀ r, toks ≠ .rbrack :: r)
    (h1 : parseTermList f toks st = .ok (items, .bar :: .var v :: .rbrack :: rest, st1)) :
    ∃ t st2, parsePrimary (f+1) (.lbrack :: toks) st = .ok (t, rest, st2) := by
  refine ⟨items.foldr (fun h t => .lpair h t) (mkVar v st1).1, (mkVar v st1).2, ?_⟩
  rcases toks with _ | ⟨x, r⟩
  · simp [parsePrimary, h1]
  · cases x <;> first | exact absurd rfl (h _) | simp [parsePrimary, h1]

theorem pp_lbrack_bar1 {f : Nat} {toks rest : List Tok} {st st1 : PS} {item : RTerm} {v : String}
    (h : ∀ r, toks ≠ .rbrack :: r)
    (h1 : parseTermList f toks st = .ok ([item], .comma :: .bar :: .var v :: .rbrack :: rest, st1)) :
    ∃ t st2, parsePrimary (f+1) (.lbrack :: toks) st = .ok (t, rest, st2) := by
  refine ⟨.lpair item (mkVar v st1).1, (mkVar v st1).2, ?_⟩
  rcases toks with _ | ⟨x, r⟩
  · simp [parsePrimary, h1]
  · cases x <;> first | exact absurd rfl (h _) | simp [parsePrimary, h1]

theorem pa_ne {f : Nat} {toks rest : List Tok} {st st1 : PS} {name : String} {isNum : Bool}
    {args : List RTerm} (h : ∀ r, toks ≠ .rparen :: r)
    (h1 : parseTermList f toks st = .ok (args, .rparen :: rest, st1)) :
    parseArgs (f+1) toks st name isNum = .ok (.fn name isNum args, rest, st1) := by
  rcases toks with _ | ⟨x, r⟩
  · simp [parseArgs, h1]
  · cases x <;> simp_all [parseArgs]

theorem ne_of_tstart {x y : Tok} {t r : List Tok} (hx : tstart x = true) (hy : tstart y = false) :
    x :: t ≠ y :: r := by
  intro h
  cases h
  rw [hx] at hy
  cases hy

/-! ### Completeness on flattened forms -/

def CP (f : Nat) : Prop := ∀ p rest st, Prim p → PF rest → 3 * (p ++ rest).length + 1 ≤ f →
  ∃ t st', parsePrimary f (p ++ rest) st = .ok (t, rest, st')
def CA (f : Nat) : Prop := ∀ l rest st name isNum, TermList l →
  3 * (l ++ .rparen :: rest).length + 4 ≤ f →
  ∃ t st', parseArgs f (l ++ .rparen :: rest) st name isNum = .ok (t, rest, st')
def CL (f : Nat) : Prop := ∀ t c n rest st, Term t → CTail n c → LF rest →
  3 * (t ++ (c ++ rest)).length + 3 ≤ f →
  ∃ items st', parseTermList f (t ++ (c ++ rest)) st = .ok (items, rest, st') ∧ items.length = n + 1
def CTm (f : Nat) : Prop := ∀ t rest st, Term t → TF rest → 3 * (t ++ rest).length + 2 ≤ f →
  ∃ r st', parseTerm f (t ++ rest) st = .ok (r, rest, st')
def CB (f : Nat) : Prop := ∀ tl rest lhs st, BTail tl → TF rest → 3 * (tl ++ rest).length + 1 ≤ f →
  ∃ r st', parseBinTail f lhs (tl ++ rest) st = .ok (r, rest, st')

theorem PF.not_lparen {rest : List Tok} (h : PF rest) : ∀ r, rest ≠ .lparen :: r := by
  intro r hr
  subst hr
  rcases h with ⟨x, r', h, hx⟩ | ⟨o, r', h⟩
  · cases h; cases hx
  · cases h

theorem PF.not_slash {rest : List Tok} (h : PF rest) : ∀ r, rest ≠ .slash :: r := by
  intro r hr
  subst hr
  rcases h with ⟨x, r', h, hx⟩ | ⟨o, r', h⟩
  · cases h; cases hx
  · cases h

theorem cp_succ (f : Nat) (ihP : CP f) (ihA : CA f) (ihL : CL f) (ihT : CTm f) : CP (f+1) := by
  intro p rest st hp hrest hf
  cases hp with
  | atm a _ ha hu =>
    subst hu
    cases a <;> simp [isAtomTok] at ha
    · exact ⟨_, _, pp_atom hrest.not_lparen hrest.not_slash⟩
    · exact ⟨_, _, pp_num hrest.not_lparen⟩
    · exact ⟨_, _, pp_str hrest.not_lparen⟩
  | var s _ hu =>
    subst hu
    exact ⟨(mkVar s st).1, (mkVar s st).2, by simp [parsePrimary]⟩
  | slash s n _ hu =>
    subst hu
    exact ⟨_, _, by simp [parsePrimary]; exact ⟨rfl, rfl⟩⟩
  | fn0 a _ ha hu =>
    subst hu
    obtain ⟨name, isNum, heq⟩ := pp_fn ha
    obtain ⟨t, st', h⟩ := ihA [] rest st name isNum (.inl rfl) (by simp at hf ⊢; omega)
    exact ⟨t, st', by simpa [heq] using h⟩
  | fn a t c n _ ha ht hc hu =>
    subst hu
    obtain ⟨name, isNum, heq⟩ := pp_fn ha
    obtain ⟨r, st', h⟩ := ihA (t ++ c) rest st name isNum (.inr ⟨t, c, n, ht, hc, rfl⟩)
      (by simp at hf ⊢; omega)
    exact ⟨r, st', by simpa [heq] using h⟩
  | unop o p _ hp hu =>
    subst hu
    obtain ⟨r, st', h⟩ := ihP p rest st hp hrest (by simp at hf ⊢; omega)
    exact ⟨_, _, by simp [parsePrimary, h]; exact ⟨rfl, rfl⟩⟩
  | binfn o a b _ ha hb hu =>
    subst hu
    obtain ⟨r1, st1, h1⟩ := ihT a (.comma :: (b ++ .rparen :: rest)) st ha (TF_cons rfl)
      (by simp at hf ⊢; omega)
    obtain ⟨r2, st2, h2⟩ := ihT b (.rparen :: rest) st1 hb (TF_cons rfl) (by simp at hf ⊢; omega)
    exact ⟨_, _, by simp [parsePrimary, h1, h2]; exact ⟨rfl, rfl⟩⟩
  | paren t _ ht hu =>
    subst hu
    obtain ⟨r1, st1, h1⟩ := ihT t (.rparen :: rest) st ht (TF_cons rfl) (by simp at hf ⊢; omega)
    exact ⟨_, _, by simp [parsePrimary, h1]; exact ⟨rfl, rfl⟩⟩
  | list0 _ hu =>
    subst hu
    exact ⟨_, _, by simp [parsePrimary]; exact ⟨rfl, rfl⟩⟩
  | list t c n _ ht hc hu =>
    subst hu
    obtain ⟨x, t', rfl, hx⟩ := term_start ht
    obtain ⟨items, st1, h1, -⟩ := ihL _ c n (.rbrack :: rest) st ht hc (.inr (.inl ⟨_, rfl⟩))
      (by simp at hf ⊢; omega)
    exact ⟨_, _, by simpa using pp_lbrack_list (fun r => ne_of_tstart hx rfl) h1⟩
  | lbar t c n v _ ht hc hu =>
    subst hu
    obtain ⟨x, t', rfl, hx⟩ := term_start ht
    obtain ⟨items, st1, h1, -⟩ := ihL _ c n (.bar :: .var v :: .rbrack :: rest) st ht hc
      (.inr (.inr (.inl ⟨_, rfl⟩))) (by simp at hf ⊢; omega)
    simpa using pp_lbrack_bar (fun r => ne_of_tstart hx rfl) h1
  | lbar1 t v _ ht hu =>
    subst hu
    obtain ⟨x, t', rfl, hx⟩ := term_start ht
    obtain ⟨items, st1, h1, hlen⟩ := ihL _ [] 0 (.comma :: .bar :: .var v :: .rbrack :: rest) st ht
      (.cnil _ rfl) (.inr (.inr (.inr ⟨_, rfl⟩))) (by simp at hf ⊢; omega)
    match items, hlen with
    | [item], _ =>
      simpa using pp_lbrack_bar1 (fun r => ne_of_tstart hx rfl) h1


theorem ca_succ (f : Nat) (ihL : CL f) : CA (f+1) := by
  intro l rest st name isNum hl hf
  rcases hl with rfl | ⟨t, c, n, ht, hc, rfl⟩
  · exact ⟨_, _, by simp [parseArgs]; exact ⟨rfl, rfl⟩⟩
  · obtain ⟨x, t', rfl, hx⟩ := term_start ht
    obtain ⟨items, st1, h1, -⟩ := ihL _ c n (.rparen :: rest) st ht hc (.inl ⟨_, rfl⟩)
      (by simp at hf ⊢; omega)
    exact ⟨_, _, by simpa using pa_ne (name := name) (isNum := isNum) (fun r => ne_of_tstart hx rfl) h1⟩

theorem pl_last {f : Nat} {toks rest : List Tok} {st st1 : PS} {t : RTerm}
    (h : parseTerm f toks st = .ok (t, rest, st1)) (hr : LF rest) :
    parseTermList (f+1) toks st = .ok ([t], rest, st1) := by
  unfold parseTermList
  rw [h]
  rcases hr with ⟨r, rfl⟩ | ⟨r, rfl⟩ | ⟨r, rfl⟩ | ⟨r, rfl⟩ <;> rfl

theorem pl_comma {f : Nat} {toks rest rest2 : List Tok} {st st1 st2 : PS} {t : RTerm} {ts : List RTerm}
    (h : parseTerm f toks st = .ok (t, .comma :: rest, st1)) (hb : ∀ r, rest ≠ .bar :: r)
    (h2 : parseTermList f rest st1 = .ok (ts, rest2, st2)) :
    parseTermList (f+1) toks st = .ok (t :: ts, rest2, st2) := by
  unfold parseTermList
  rw [h]
  rcases rest with _ | ⟨x, r⟩
  · simp [h2]
  · cases x <;> first | exact absurd rfl (hb _) | simp [h2]

theorem cl_succ (f : Nat) (ihL : CL f) (ihT : CTm f) : CL (f+1) := by
  intro t c n rest st ht hc hrest hf
  cases hc with
  | cnil _ hu =>
    subst hu
    obtain ⟨r, st1, h1⟩ := ihT t rest st ht hrest.tf (by simp at hf ⊢; omega)
    exact ⟨[r], st1, by simpa using pl_last h1 hrest, rfl⟩
  | ccons t2 c2 n2 _ ht2 hc2 hu =>
    subst hu
    obtain ⟨r, st1, h1⟩ := ihT t (.comma :: (t2 ++ (c2 ++ rest))) st ht (TF_cons rfl)
      (by simp at hf ⊢; omega)
    obtain ⟨items, st2, h2, hlen⟩ := ihL t2 c2 n2 rest st1 ht2 hc2 hrest (by simp at hf ⊢; omega)
    obtain ⟨x, t', rfl, hx⟩ := term_start ht2
    refine ⟨r :: items, st2, ?_, by simp [hlen]⟩
    have := pl_comma h1 (fun r => ne_of_tstart hx rfl) h2
    simpa using this

theorem ct_succ (f : Nat) (ihP : CP f) (ihB : CB f) : CTm (f+1) := by
  intro t rest st ht hrest hf
  cases ht with
  | term p tl _ hp htl hu =>
    subst hu
    have hpf : PF (tl ++ rest) := by
      cases htl with
      | bnil _ hu => subst hu; exact .inl hrest
      | bcons o p' tl' _ _ _ hu => subst hu; exact .inr ⟨o, _, rfl⟩
    obtain ⟨r, st1, h1⟩ := ihP p (tl ++ rest) st hp hpf (by simp at hf ⊢; omega)
    obtain ⟨r2, st2, h2⟩ := ihB tl rest r st1 htl hrest (by simp at hf ⊢; omega)
    refine ⟨r2, st2, ?_⟩
    unfold parseTerm
    simp only [List.append_assoc]
    rw [h1]
    exact h2

theorem cb_succ (f : Nat) (ihP : CP f) (ihB : CB f) : CB (f+1) := by
  intro tl rest lhs st htl hrest hf
  cases htl with
  | bnil _ hu =>
    subst hu
    obtain ⟨x, r, rfl, hx⟩ := hrest
    refine ⟨lhs, st, ?_⟩
    cases x <;> simp [tfol] at hx <;> simp [parseBinTail]
  | bcons o p tl' _ hp htl' hu =>
    subst hu
    have hpf : PF (tl' ++ rest) := by
      cases htl' with
      | bnil _ hu => subst hu; exact .inl hrest
      | bcons o p' tl' _ _ _ hu => subst hu; exact .inr ⟨o, _, rfl⟩
    obtain ⟨r, st1, h1⟩ := ihP p (tl' ++ rest) st hp hpf (by simp at hf ⊢; omega)
    obtain ⟨r2, st2, h2⟩ := ihB tl' rest (.fn o false [lhs, r]) st1 htl' hrest (by simp at hf ⊢; omega)
    refine ⟨r2, st2, ?_⟩
    simp only [List.cons_append, List.append_assoc, parseBinTail]
    rw [h1]
    exact h2

theorem term_complete : ∀ f, CP f ∧ CA f ∧ CL f ∧ CTm f ∧ CB f := by
  intro f
  induction f with
  | zero =>
    refine ⟨?_, ?_, ?_, ?_, ?_⟩
    · intro p rest st _ _ h; omega
    · intro l rest st name isNum _ h; omega
    · intro t c n rest st _ _ _ h; omega
    · intro t rest st _ _ h; omega
    · intro tl rest lhs st _ _ h; omega
  | succ f ih =>
    obtain ⟨ihP, ihA, ihL, ihT, ihB⟩ := ih
    exact ⟨cp_succ f ihP ihA ihL ihT, ca_succ f ihL, cl_succ f ihL ihT, ct_succ f ihP ihB,
      cb_succ f ihP ihB⟩

end GC
end Yld
