/-
  If-then-else against the logical reading (C06), stage 1: `( C -> T ; E )` and `( C -> T )` for a
  condition `C` that is a goal of the Horn fragment, for a store `D` of closed facts, an abstract meaning
  of goals (soundness half) and the ranked meaning `HN D preds r` (completeness half).

  `solve q env d (C -> T ; E) k w = iteR d (solve q env d E k) (q C (iteK q env d T k) w)`: the search for `C`
  is run with the consumer `iteK q env d T k` that runs `T` (with the continuation `k`) and then answers
  `commit d`, so that it *never* answers "resume"; `iteR d _` lets the else branch run exactly when that
  search ends normally.  Nothing is known about `T` and `k`: the consumer is not quiet.  What replaces
  quietness is the binary pass of `LgIPass`:

  * `cond_answers`: the search with a consumer that never resumes is the search with `commitK d` (the
    consumer under `\+`), or does not end normally; the search with `commitK d` does not end normally
    when an instance of `C` is derivable (`query_rec_all`, as in `LgNaf.naf_fails`).  So the search does
    not end normally and `iteR` does not look at the else branch.
  * `cond_search`: by soundness the search with `commitK d`, when no instance of `C` holds, ends
    normally or with `oof`, bindings and store of the start, or with `commit d` in a flagged world
    (as in `LgNaf.naf_succeeds`).
  * `cond_no_answer`: if the search with `commitK d` does not end with `commit d`, no consumer is ever
    called: the search is the same for every consumer.
  * `cond_flagged`: if the search with `commitK d` ends in a flagged world, so does the search with every
    consumer that never resets the flag.

  `ite_is_else`, `if_then_fails`: the statements under the proviso that the search with `commitK d` ends
  unflagged (without it they are false: `Yld.Proofs.LogicIte`); `ite_is_else_or_flagged`,
  `if_then_fails_or_flagged`: without the proviso, with one more alternative for flag-monotone continuations.
-/
import Yld.Proofs.LgIPass
import Yld.Proofs.LgNaf
set_option linter.unusedSimpArgs false
set_option linter.unusedVariables false
namespace Yld
namespace Lg
namespace F

variable {D : CDb}

/-- the consumer of the search for the condition of an if-then(-else) at level `d`: the then branch,
    then the private signal -/
def iteK (q : Q) (env : Env) (d : Nat) (t : Body) (k : K) : K :=
  fun w' => thenSig (.commit d) (solve q env d t k w')

theorem solve_ite_else_call (q : Q) (env : Env) (d : Nat) (name : String) (sargs : List STerm) (t e : Body) (k : K)
    (w : World) :
    solve q env d (.disj (.ite (.call name sargs) t) e) k w =
      iteR d (fun w' => solve q env d e k w') (q name (sargs.map (STerm.eval env)) (iteK q env d t k) w) := by
  simp only [solve]
  rfl

theorem solve_ite_call (q : Q) (env : Env) (d : Nat) (name : String) (sargs : List STerm) (t : Body) (k : K)
    (w : World) :
    solve q env d (.ite (.call name sargs) t) k w =
      iteR d (fun w' => (w', none)) (q name (sargs.map (STerm.eval env)) (iteK q env d t k) w) := by
  simp only [solve]
  rfl

theorem thenSig_ne_none (s : Sig) (r : R) : (thenSig s r).2 ≠ none := by
  obtain ⟨w, o⟩ := r
  cases o with
  | none => rw [thenSig_none]; simp
  | some x => rw [thenSig_some]; simp

/-- the consumer never answers "resume" -/
theorem iteK_ne_none (q : Q) (env : Env) (d : Nat) (t : Body) (k : K) (w' : World) : (iteK q env d t k w').2 ≠ none :=
  thenSig_ne_none _ _

/-- `iteR` looks at the else branch only when the search for the condition ended normally -/
theorem iteR_congr (d : Nat) (f1 f2 : World → R) {r : R} (h : r.2 ≠ none) : iteR d f1 r = iteR d f2 r := by
  obtain ⟨w, o⟩ := r
  cases o with
  | none => exact absurd rfl h
  | some s => cases s <;> rfl

/-- `iteR` with the failing else branch ends where the search for the condition ended -/
theorem iteR_fail_world (d : Nat) (r : R) : (iteR d (fun w' => (w', none)) r).1 = r.1 := by
  obtain ⟨w, o⟩ := r
  cases o with
  | none => rfl
  | some s =>
    cases s with
    | commit d' =>
      rw [iteR_commit]
      split <;> rfl
    | _ => rfl

section ite
variable {U : String → Bool} {cfg : Cfg} {preds : List Pred} (hc : HC U cfg preds)

include hc in
/-- **The search for a condition of which an instance is derivable does not end normally**, for every
    consumer that never answers "resume" (programs without cut). -/
theorem cond_answers (hnc : ∀ p ∈ preds, ∀ c ∈ p.clauses, nocut c.body = true) (f : Nat) {name : String}
    (hU : U name = true) (args : List Term) (w : World) (θ : Val) (hg : Good D False w) (ha : OwnL w.next args)
    (hθ : Solves θ w.b) (r : Nat) (hh : HN D preds r name (args.map (Term.subst θ)))
    (k1 : K) (hk1 : ∀ w', (k1 w').2 ≠ none) : (query cfg f name args k1 w).2 ≠ none := by
  have hdone : Done (fun _ => False) (query cfg f name args (commitK 0) w) :=
    query_rec_all hc hnc (P := fun _ => False) (fun _ _ _ h => h) r f name hU args w θ (commitK 0) hg ha hθ hh
      (commitK_recs 0 θ w.next)
  have hrel : I.RelA False (fun _ => True) (query cfg f name args k1 w) (query cfg f name args (commitK 0) w) := by
    refine I.query_rel hc False f (fun _ => True) name hU args k1 (commitK 0) False.elim (fun w' => Or.inr ⟨?_, False.elim⟩) w
    have h := hk1 w'
    revert h
    generalize k1 w' = r1
    obtain ⟨w1, o⟩ := r1
    intro h
    cases o with
    | none => exact absurd rfl h
    | some s => exact ⟨s, rfl, trivial⟩
  rcases hrel with e | ⟨⟨s, hs, _⟩, _⟩
  · rw [e]
    rcases hdone with h | h
    · exact h
    · exact h.elim
  · rw [hs]; simp

include hc in
/-- **A derivable condition: the else branch is dead.** -/
theorem ite_else_dead (hnc : ∀ p ∈ preds, ∀ c ∈ p.clauses, nocut c.body = true) (f d : Nat) (env : Env)
    {name : String} (hU : U name = true) (sargs : List STerm) (t e1 e2 : Body) (w : World) (θ : Val)
    (hg : Good D False w) (ha : OwnL w.next (sargs.map (STerm.eval env))) (hθ : Solves θ w.b) (r : Nat)
    (hh : HN D preds r name ((sargs.map (STerm.eval env)).map (Term.subst θ))) (k : K) :
    solve (query cfg f) env d (.disj (.ite (.call name sargs) t) e1) k w =
    solve (query cfg f) env d (.disj (.ite (.call name sargs) t) e2) k w := by
  rw [solve_ite_else_call, solve_ite_else_call]
  exact iteR_congr d _ _
    (cond_answers hc hnc f hU _ w θ hg ha hθ r hh (iteK (query cfg f) env d t k) (iteK_ne_none _ env d t k))

include hc in
/-- **The search for a condition of which no instance holds**, run with the consumer `commitK d` of `\+`:
    it ends with the bindings and the store of the start, and normally, or with `oof`, or with the
    private signal in a flagged world. -/
theorem cond_search {H : String → List Term → Prop} (sem : Sem D preds H) (f d : Nat) {name : String}
    (hU : U name = true) (args : List Term) (w : World) (hg : Good D True w) (ha : OwnL w.next args)
    (hno : ∀ θ, Solves θ w.b → ¬ H name (args.map (Term.subst θ))) :
    (query cfg f name args (commitK d) w).1.b = w.b ∧ (query cfg f name args (commitK d) w).1.db = w.db ∧
    ((query cfg f name args (commitK d) w).2 = none ∨ (query cfg f name args (commitK d) w).2 = some .oof ∨
     ((query cfg f name args (commitK d) w).2 = some (.commit d) ∧ (query cfg f name args (commitK d) w).1.cyc = true)) := by
  have e : query cfg f name args (commitK d) w = query cfg f name args (commitCycK d) w := by
    refine query_sound_all hc sem True f name hU args w hg ha _ _ (commitK_qk True d) (commitCycK_qk True d) ?_
    intro w' ⟨hst, hgh⟩
    have hcy : w'.cyc = true := by
      cases hcw : w'.cyc with
      | true => rfl
      | false =>
        exfalso
        obtain ⟨θ, hs, _⟩ := hst.good.solv trivial hcw (fun _ => .atom "")
        exact hno θ (hst.ext θ hs) (hgh θ hs)
    simp only [commitK, commitCycK, hcy, if_true]
  have hok : N.ROK (ACyc d) (query cfg f name args (commitK d) w) := by
    rw [e]
    exact N.query_ok hc f (ACyc d) (sigA_cyc d) name hU args (commitCycK d) (commitCycK_ok d) w
  have hb : (query cfg f name args (commitK d) w).1.b = w.b :=
    (query_qkGen hc True f hU args (commitK d) (commitK_qk True d)).b w
  have hdb : (query cfg f name args (commitK d) w).1.db = w.db :=
    (query_qkGen hc True f hU args (commitK d) (commitK_qk True d)).db w
  refine ⟨hb, hdb, ?_⟩
  revert hok
  generalize query cfg f name args (commitK d) w = r0
  obtain ⟨w1, o⟩ := r0
  intro hok
  cases o with
  | none => exact Or.inl rfl
  | some s =>
    rcases hok s rfl with e' | ⟨e', hcy⟩
    · subst e'; exact Or.inr (Or.inl rfl)
    · subst e'; exact Or.inr (Or.inr ⟨rfl, hcy⟩)

include hc in
/-- **A search that, run with `commitK d`, does not end with the private signal has no answer at all**:
    it is the same search for every consumer (none is ever called). -/
theorem cond_no_answer (f d : Nat) {name : String} (hU : U name = true) (args : List Term) (w : World)
    (hne : (query cfg f name args (commitK d) w).2 ≠ some (.commit d)) (k2 : K) :
    query cfg f name args k2 w = query cfg f name args (commitK d) w := by
  have hrel : I.RelA False (fun s => s = .commit d) (query cfg f name args (commitK d) w) (query cfg f name args k2 w) :=
    I.query_rel hc False f (fun s => s = .commit d) name hU args (commitK d) k2 False.elim
      (fun w' => Or.inr ⟨⟨.commit d, rfl, rfl⟩, False.elim⟩) w
  rcases hrel with e | ⟨⟨s, hs, e⟩, _⟩
  · exact e.symm
  · subst e
    exact absurd hs hne

include hc in
/-- **A search that, run with `commitK d`, ends in a flagged world ends in a flagged world with every
    consumer that never resets the flag.** -/
theorem cond_flagged (f d : Nat) {name : String} (hU : U name = true) (args : List Term) (w : World)
    (hcy : (query cfg f name args (commitK d) w).1.cyc = true) (k2 : K) (hk2 : CycMono k2) :
    (query cfg f name args k2 w).1.cyc = true := by
  have hrel : I.RelA True (fun s => s = .commit d) (query cfg f name args (commitK d) w) (query cfg f name args k2 w) :=
    I.query_rel hc True f (fun s => s = .commit d) name hU args (commitK d) k2 (fun _ => hk2)
      (fun w' => Or.inr ⟨⟨.commit d, rfl, rfl⟩, fun _ h => hk2 w' h⟩) w
  rcases hrel with e | ⟨_, h⟩
  · rw [← e]; exact hcy
  · exact h trivial hcy

include hc in
/-- **A condition of which no instance holds**: the search for it is the same for every consumer, and ends
    normally or with `oof`, bindings and store of the start — or, run with `commitK d`, it ends with the
    private signal in a flagged world (it has built a cyclic term and then yielded). -/
theorem cond_cases {H : String → List Term → Prop} (sem : Sem D preds H) (f d : Nat) {name : String}
    (hU : U name = true) (args : List Term) (w : World) (hg : Good D True w) (ha : OwnL w.next args)
    (hno : ∀ θ, Solves θ w.b → ¬ H name (args.map (Term.subst θ))) :
    (∃ r0 : R, r0.1.b = w.b ∧ r0.1.db = w.db ∧ (r0.2 = none ∨ r0.2 = some .oof) ∧
      ∀ k2 : K, query cfg f name args k2 w = r0) ∨
    ((query cfg f name args (commitK d) w).2 = some (.commit d) ∧ (query cfg f name args (commitK d) w).1.cyc = true) := by
  obtain ⟨hb, hdb, ho⟩ := cond_search hc sem f d hU args w hg ha hno
  have hl : ((query cfg f name args (commitK d) w).2 = none ∨ (query cfg f name args (commitK d) w).2 = some .oof) →
      ∃ r0 : R, r0.1.b = w.b ∧ r0.1.db = w.db ∧ (r0.2 = none ∨ r0.2 = some .oof) ∧
        ∀ k2 : K, query cfg f name args k2 w = r0 := by
    intro ho'
    refine ⟨_, hb, hdb, ho', fun k2 => cond_no_answer hc f d hU args w ?_ k2⟩
    rcases ho' with h | h <;> rw [h] <;> simp
  rcases ho with h | h | h
  · exact Or.inl (hl (Or.inl h))
  · exact Or.inl (hl (Or.inr h))
  · exact Or.inr h

include hc in
/-- **A condition of which no instance holds, in a search that builds no cyclic term**: the search for it is
    the same for every consumer, and ends normally or with `oof`, bindings and store of the start. -/
theorem cond_fails {H : String → List Term → Prop} (sem : Sem D preds H) (f d : Nat) {name : String}
    (hU : U name = true) (args : List Term) (w : World) (hg : Good D True w) (ha : OwnL w.next args)
    (hno : ∀ θ, Solves θ w.b → ¬ H name (args.map (Term.subst θ)))
    (hflag : (query cfg f name args (commitK d) w).1.cyc = false) :
    ∃ r0 : R, r0.1.b = w.b ∧ r0.1.db = w.db ∧ (r0.2 = none ∨ r0.2 = some .oof) ∧
      ∀ k2 : K, query cfg f name args k2 w = r0 := by
  rcases cond_cases hc sem f d hU args w hg ha hno with h | ⟨_, h⟩
  · exact h
  · rw [hflag] at h; cases h

include hc in
/-- **A condition without a derivable instance: the construct is its else branch** (or the search for the
    condition was cut off), provided the search for the condition builds no cyclic term. -/
theorem ite_is_else {H : String → List Term → Prop} (sem : Sem D preds H) (f d : Nat) (env : Env) {name : String}
    (hU : U name = true) (sargs : List STerm) (t e : Body) (w : World) (hg : Good D True w)
    (ha : OwnL w.next (sargs.map (STerm.eval env)))
    (hno : ∀ θ, Solves θ w.b → ¬ H name ((sargs.map (STerm.eval env)).map (Term.subst θ)))
    (hflag : (query cfg f name (sargs.map (STerm.eval env)) (commitK d) w).1.cyc = false) :
    (∃ w', w'.b = w.b ∧ w'.db = w.db ∧
      ∀ k : K, solve (query cfg f) env d (.disj (.ite (.call name sargs) t) e) k w = solve (query cfg f) env d e k w') ∨
    (∃ r : R, r.2 = some .oof ∧
      ∀ k : K, solve (query cfg f) env d (.disj (.ite (.call name sargs) t) e) k w = r) := by
  obtain ⟨r0, hb, hdb, ho, hk⟩ := cond_fails hc sem f d hU _ w hg ha hno hflag
  obtain ⟨w1, o⟩ := r0
  rcases ho with h | h
  · simp only at h
    subst h
    exact Or.inl ⟨w1, hb, hdb, fun k => by rw [solve_ite_else_call, hk]; rfl⟩
  · simp only at h
    subst h
    exact Or.inr ⟨(w1, some .oof), rfl, fun k => by rw [solve_ite_else_call, hk]; rfl⟩

include hc in
/-- `( C -> T )` without else fails when no instance of `C` holds (same proviso). -/
theorem if_then_fails {H : String → List Term → Prop} (sem : Sem D preds H) (f d : Nat) (env : Env) {name : String}
    (hU : U name = true) (sargs : List STerm) (t : Body) (w : World) (hg : Good D True w)
    (ha : OwnL w.next (sargs.map (STerm.eval env)))
    (hno : ∀ θ, Solves θ w.b → ¬ H name ((sargs.map (STerm.eval env)).map (Term.subst θ)))
    (hflag : (query cfg f name (sargs.map (STerm.eval env)) (commitK d) w).1.cyc = false) :
    ∃ r : R, (r.2 = none ∨ r.2 = some .oof) ∧ r.1.b = w.b ∧ r.1.db = w.db ∧
      ∀ k : K, solve (query cfg f) env d (.ite (.call name sargs) t) k w = r := by
  obtain ⟨r0, hb, hdb, ho, hk⟩ := cond_fails hc sem f d hU _ w hg ha hno hflag
  obtain ⟨w1, o⟩ := r0
  rcases ho with h | h
  · simp only at h
    subst h
    exact ⟨(w1, none), Or.inl rfl, hb, hdb, fun k => by rw [solve_ite_call, hk]; rfl⟩
  · simp only at h
    subst h
    exact ⟨(w1, some .oof), Or.inr rfl, hb, hdb, fun k => by rw [solve_ite_call, hk]; rfl⟩

/-- the consumer of the condition never resets the flag when the continuation does not -/
theorem iteK_cycMono (cfg : Cfg) (f : Nat) (env : Env) (d : Nat) (t : Body) (k : K) (hk : CycMono k) :
    CycMono (iteK (query cfg f) env d t k) := by
  intro w' h
  unfold iteK
  rw [thenSig_world]
  exact solve_cycGen _ (fun name args => query_cycGen cfg f name args) env t d k hk w' h

include hc in
/-- **Without the proviso**: the construct is its else branch, or the search for the condition was cut off,
    or — for continuations that never reset the ghost flag — it ends in a flagged world. -/
theorem ite_is_else_or_flagged {H : String → List Term → Prop} (sem : Sem D preds H) (f d : Nat) (env : Env)
    {name : String} (hU : U name = true) (sargs : List STerm) (t e : Body) (w : World) (hg : Good D True w)
    (ha : OwnL w.next (sargs.map (STerm.eval env)))
    (hno : ∀ θ, Solves θ w.b → ¬ H name ((sargs.map (STerm.eval env)).map (Term.subst θ))) :
    (∃ w', w'.b = w.b ∧ w'.db = w.db ∧
      ∀ k : K, solve (query cfg f) env d (.disj (.ite (.call name sargs) t) e) k w = solve (query cfg f) env d e k w') ∨
    (∃ r : R, r.2 = some .oof ∧
      ∀ k : K, solve (query cfg f) env d (.disj (.ite (.call name sargs) t) e) k w = r) ∨
    (∀ k : K, CycMono k → (solve (query cfg f) env d (.disj (.ite (.call name sargs) t) e) k w).1.cyc = true) := by
  rcases cond_cases hc sem f d hU _ w hg ha hno with ⟨r0, hb, hdb, ho, hk⟩ | ⟨_, hcy⟩
  · obtain ⟨w1, o⟩ := r0
    rcases ho with h | h
    · simp only at h
      subst h
      exact Or.inl ⟨w1, hb, hdb, fun k => by rw [solve_ite_else_call, hk]; rfl⟩
    · simp only at h
      subst h
      exact Or.inr (Or.inl ⟨(w1, some .oof), rfl, fun k => by rw [solve_ite_else_call, hk]; rfl⟩)
  · refine Or.inr (Or.inr (fun k hk => ?_))
    rw [solve_ite_else_call]
    exact iteR_cyc d _ _ (cond_flagged hc f d hU _ w hcy _ (iteK_cycMono cfg f env d t k hk))
      (solve_cycGen _ (fun name args => query_cycGen cfg f name args) env e d k hk)

include hc in
/-- the same for `( C -> T )` -/
theorem if_then_fails_or_flagged {H : String → List Term → Prop} (sem : Sem D preds H) (f d : Nat) (env : Env)
    {name : String} (hU : U name = true) (sargs : List STerm) (t : Body) (w : World) (hg : Good D True w)
    (ha : OwnL w.next (sargs.map (STerm.eval env)))
    (hno : ∀ θ, Solves θ w.b → ¬ H name ((sargs.map (STerm.eval env)).map (Term.subst θ))) :
    (∃ r : R, (r.2 = none ∨ r.2 = some .oof) ∧ r.1.b = w.b ∧ r.1.db = w.db ∧
      ∀ k : K, solve (query cfg f) env d (.ite (.call name sargs) t) k w = r) ∨
    (∀ k : K, CycMono k → (solve (query cfg f) env d (.ite (.call name sargs) t) k w).1.cyc = true) := by
  rcases cond_cases hc sem f d hU _ w hg ha hno with ⟨r0, hb, hdb, ho, hk⟩ | ⟨_, hcy⟩
  · obtain ⟨w1, o⟩ := r0
    rcases ho with h | h
    · simp only at h
      subst h
      exact Or.inl ⟨(w1, none), Or.inl rfl, hb, hdb, fun k => by rw [solve_ite_call, hk]; rfl⟩
    · simp only at h
      subst h
      exact Or.inl ⟨(w1, some .oof), Or.inr rfl, hb, hdb, fun k => by rw [solve_ite_call, hk]; rfl⟩
  · refine Or.inr (fun k hk => ?_)
    rw [solve_ite_call]
    exact iteR_cyc d _ _ (cond_flagged hc f d hU _ w hcy _ (iteK_cycMono cfg f env d t k hk)) (fun _ h => h)

end ite
end F
end Lg
end Yld
