/-
  Fuel monotonicity, with the recorded results: when the run with the smaller fuel is cut off, the
  result lists it has on the stack `acc` are, level by level, prefixes of those the run with the
  larger fuel has when it returns from the same call.

  Same pass over the engine as `Yld.Proofs.FuelMono`, for the order `BelowA P`; the run on the
  right goes on after the run on the left was cut off, and `Yld.Proofs.AccExt` says that whatever it
  does then only extends the lists.
-/
import Yld.Proofs.AccExt
namespace Yld

/-- the left run was cut off with a reason in `P` and what it has recorded is level-wise a prefix
    of what the right run has recorded, or the two runs are the same -/
def BelowA (P : Sig → Prop) (r r' : R) : Prop := (∃ s, r.2 = some s ∧ P s ∧ WLe r.1 r'.1) ∨ r = r'
def KBelowA (P : Sig → Prop) (K1 K2 : K) : Prop := ∀ w, BelowA P (K1 w) (K2 w)
def GenBelowA (P : Sig → Prop) (g g' : Gen) : Prop :=
  ∀ K1 K2, KBelowA P K1 K2 → KExt K2 → ∀ w, BelowA P (g K1 w) (g' K2 w)

theorem BelowA.sig {P : Sig → Prop} (w : World) {s : Sig} (hs : P s) {r' : R} (h : WLe w r'.1) :
    BelowA P (w, some s) r' := Or.inl ⟨s, rfl, hs, h⟩

theorem belowACases {P : Sig → Prop} {r r' : R} (h : BelowA P r r') :
    (∃ w s, r = (w, some s) ∧ P s ∧ WLe w r'.1) ∨ r = r' := by
  rcases h with ⟨s, h1, h2, h3⟩ | h
  · obtain ⟨w, o⟩ := r
    simp only at h1; subst h1
    exact Or.inl ⟨w, s, rfl, h2, h3⟩
  · exact Or.inr h

/-! ### generic combinators -/

theorem belowA_andThen {P : Sig → Prop} {r r' : R} (h : BelowA P r r') {f f' : World → R}
    (hf : ∀ w, BelowA P (f w) (f' w)) (he : ∀ w, WLe w (f' w).1) :
    BelowA P (andThenR f r) (andThenR f' r') := by
  rcases belowACases h with ⟨w, s, e, hs, hw⟩ | e
  · subst e; exact BelowA.sig w hs (hw.trans (andThenR_ext he r'))
  · subst e
    obtain ⟨w, o⟩ := r
    cases o with
    | none => exact hf w
    | some s => exact Or.inr rfl

theorem belowA_thenSig {P : Sig → Prop} {r r' : R} (h : BelowA P r r') (s : Sig) :
    BelowA P (thenSig s r) (thenSig s r') := by
  rcases belowACases h with ⟨w, s', e, hs, hw⟩ | e
  · subst e; exact BelowA.sig w hs (by rw [thenSig_fst]; exact hw)
  · subst e; exact Or.inr rfl

theorem belowA_catchBrk {P : Sig → Prop} (hP : OofLike P) {r r' : R} (h : BelowA P r r') (l : Nat) :
    BelowA P (catchBrk l r) (catchBrk l r') := by
  rcases belowACases h with ⟨w, s, e, hs, hw⟩ | e
  · subst e
    have : catchBrk l (w, some s) = (w, some s) := by
      cases s <;> first | rfl | exact absurd hs (hP.brk _)
    rw [this]; exact BelowA.sig w hs (by rw [catchBrk_fst]; exact hw)
  · subst e; exact Or.inr rfl

theorem belowA_iteR {P : Sig → Prop} (hP : OofLike P) {r r' : R} (h : BelowA P r r') (d : Nat)
    {f f' : World → R} (hf : ∀ w, BelowA P (f w) (f' w)) (he : ∀ w, WLe w (f' w).1) :
    BelowA P (iteR d f r) (iteR d f' r') := by
  rcases belowACases h with ⟨w, s, e, hs, hw⟩ | e
  · subst e
    have : iteR d f (w, some s) = (w, some s) := by
      cases s <;> first | rfl | exact absurd hs (hP.commit _)
    rw [this]; exact BelowA.sig w hs (hw.trans (iteR_ext he d r'))
  · subst e
    obtain ⟨w, o⟩ := r
    cases o with
    | none => exact hf w
    | some s =>
      have : iteR d f (w, some s) = iteR d f' (w, some s) := by cases s <;> rfl
      rw [this]; exact Or.inr rfl

theorem belowA_wrapK {P : Sig → Prop} {K1 K2 : K} (hK : KBelowA P K1 K2) :
    KBelowA (UpP P) (wrapK K1) (wrapK K2) := by
  intro w
  rcases belowACases (hK w) with ⟨w', s, e, hs, hw⟩ | e
  · have : wrapK K1 w = (w', some (.up s)) := by unfold wrapK; rw [e]
    rw [this]; exact BelowA.sig w' (.up hs) (by rw [wrapK_fst]; exact hw)
  · unfold wrapK; rw [e]; exact Or.inr rfl

theorem belowA_leaveFrame {P : Sig → Prop} (hP : OofLike P) {r r' : R} (h : BelowA (UpP P) r r') :
    BelowA P (leaveFrame r) (leaveFrame r') := by
  rcases belowACases h with ⟨w, s, e, hs, hw⟩ | e
  · subst e
    have hw' : WLe w (leaveFrame r').1 := by rw [leaveFrame_fst]; exact hw
    cases hs with
    | oof => exact BelowA.sig w hP.oof hw'
    | up h' => exact BelowA.sig w h' hw'
  · subst e; exact Or.inr rfl

theorem belowA_leaveOnce {P : Sig → Prop} (hP : OofLike P) {r r' : R} (h : BelowA (UpP P) r r') :
    BelowA P (leaveOnce r) (leaveOnce r') := by
  rcases belowACases h with ⟨w, s, e, hs, hw⟩ | e
  · subst e
    have hw' : WLe w (leaveOnce r').1 := by rw [leaveOnce_fst]; exact hw
    cases hs with
    | oof => exact BelowA.sig w hP.oof hw'
    | up h' => exact BelowA.sig w h' hw'
  · subst e; exact Or.inr rfl

/-! ### unification -/

theorem bindGen_belowA (P : Sig → Prop) (x : Nat) (t : Term) : GenBelowA P (bindGen x t) (bindGen x t) := by
  intro K1 K2 hK _ w
  unfold bindGen
  rcases belowACases (hK { w with b := bind w.b x t }) with ⟨w', s, e, hs, hw⟩ | e
  · revert hw
    generalize K2 { w with b := bind w.b x t } = r2
    obtain ⟨w2, o2⟩ := r2
    intro hw
    simp only [e]
    exact BelowA.sig _ hs hw
  · rw [e]; exact Or.inr rfl

theorem unifyList_belowA (P : Sig → Prop) (u u' : Term → Term → Gen)
    (hu : ∀ a b, GenBelowA P (u a b) (u' a b)) (hu' : ∀ a b, GExt (u' a b)) :
    ∀ as bs, GenBelowA P (unifyList u as bs) (unifyList u' as bs) := by
  intro as
  induction as with
  | nil =>
    intro bs K1 K2 hK _ w
    cases bs with
    | nil => simpa [unifyList] using hK w
    | cons b bs => simp only [unifyList]; exact Or.inr rfl
  | cons a as ih =>
    intro bs K1 K2 hK hE w
    cases bs with
    | nil => simp only [unifyList]; exact Or.inr rfl
    | cons b bs =>
      simp only [unifyList]
      exact hu a b _ _ (fun w' => ih bs K1 K2 hK hE w') (fun w' => unifyList_ext u' hu' as bs K2 hE w') w

theorem unify_belowA (P : Sig → Prop) (hP : OofLike P) (f : Nat) :
    ∀ t1 t2, GenBelowA P (unify f t1 t2) (unify (f+1) t1 t2) := by
  induction f with
  | zero => intro t1 t2 K1 K2 _ hE w; rw [unify]; exact BelowA.sig w hP.oof (unify_ext _ t1 t2 K2 hE w)
  | succ f ih =>
    intro t1 t2 K1 K2 hK hE w
    rw [unify]
    cases h1 : walk w.b (f+1) t1 with
    | none => exact BelowA.sig w hP.oof (unify_ext _ t1 t2 K2 hE w)
    | some a1 =>
      cases h2 : walk w.b (f+1) t2 with
      | none => exact BelowA.sig w hP.oof (unify_ext _ t1 t2 K2 hE w)
      | some a2 =>
        rw [unify, walk_mono _ _ _ _ h1, walk_mono _ _ _ _ h2]
        simp only
        cases a1 <;> cases a2 <;> simp only
        all_goals first
          | exact Or.inr rfl
          | exact bindGen_belowA P _ _ K1 K2 hK hE _
          | (split
             · first | exact hK w | exact unifyList_belowA P (unify f) (unify (f+1)) ih (unify_ext (f+1)) _ _ K1 K2 hK hE w
             · first | exact Or.inr rfl | exact bindGen_belowA P _ _ K1 K2 hK hE _)

/-! ### facts -/

theorem matchFact_belowA (P : Sig → Prop) (hP : OofLike P) (f : Nat) (fact : Fact) (args : List Term) :
    GenBelowA P (matchFact f fact args) (matchFact (f+1) fact args) := by
  intro K1 K2 hK hE w
  unfold matchFact
  simp only
  split
  · exact unifyList_belowA P _ _ (unify_belowA P hP f) (unify_ext (f+1)) _ _ K1 K2 hK hE _
  · exact Or.inr rfl

theorem matchAll_belowA (P : Sig → Prop) (hP : OofLike P) (f : Nat) (args : List Term) :
    ∀ cs, GenBelowA P (matchAll f args cs) (matchAll (f+1) args cs) := by
  intro cs
  induction cs with
  | nil => intro K1 K2 _ _ w; simp only [matchAll]; exact Or.inr rfl
  | cons c cs ih =>
    intro K1 K2 hK hE w
    simp only [matchAll]
    exact belowA_andThen (matchFact_belowA P hP f c args K1 K2 hK hE w) (fun w' => ih K1 K2 hK hE w')
      (fun w' => matchAll_ext (f+1) args cs K2 hE w')

theorem matchDynamic_belowA (P : Sig → Prop) (hP : OofLike P) (f : Nat) (name : String) (args : List Term) :
    GenBelowA P (matchDynamic f name args) (matchDynamic (f+1) name args) := by
  intro K1 K2 hK hE w
  unfold matchDynamic
  exact matchAll_belowA P hP f args _ K1 K2 hK hE w

theorem retractLoop_belowA (P : Sig → Prop) (hP : OofLike P) (f : Nat) (name : String) (args : List Term) :
    ∀ cs, GenBelowA P (retractLoop f name args cs) (retractLoop (f+1) name args cs) := by
  intro cs
  induction cs with
  | nil => intro K1 K2 _ _ w; simp only [retractLoop]; exact Or.inr rfl
  | cons c cs ih =>
    intro K1 K2 hK hE w
    simp only [retractLoop]
    split
    · exact belowA_andThen
        (matchFact_belowA P hP f c args
          (fun w' => K1 (w'.setFacts name args.length ((w'.facts name args.length).filter (·.id != c.id))))
          (fun w' => K2 (w'.setFacts name args.length ((w'.facts name args.length).filter (·.id != c.id))))
          (fun w' => hK _) (fun w' => WLe.of_acc (setFacts_acc _ _ _ _).symm (hE _)) w)
        (fun w' => ih K1 K2 hK hE w')
        (fun w' => retractLoop_ext (f+1) name args cs K2 hE w')
    · exact ih K1 K2 hK hE w

theorem runPy_belowA (P : Sig → Prop) (hP : OofLike P) (f : Nat) (r : Option Nat) (args : List Term) :
    ∀ rows i, GenBelowA P (runPy f rows r i args) (runPy (f+1) rows r i args) := by
  intro rows
  induction rows with
  | nil =>
    intro i K1 K2 _ _ w
    simp only [runPy]
    exact Or.inr rfl
  | cons row rows ih =>
    intro i K1 K2 hK hE w
    simp only [runPy]
    split
    · exact Or.inr rfl
    · exact belowA_andThen (matchFact_belowA P hP f row args K1 K2 hK hE w) (fun w' => ih (i+1) K1 K2 hK hE w')
        (fun w' => runPy_ext (f+1) r args rows (i+1) K2 hE w')

theorem factMatches_belowA (P : Sig → Prop) (hP : OofLike P) (f : Nat) (c : Fact) (args : List Term) (w : World) :
    (∃ w' s, factMatches f c args w = (w', .error s) ∧ P s ∧ WLe w' (factMatches (f+1) c args w).1) ∨
      factMatches f c args w = factMatches (f+1) c args w := by
  unfold factMatches
  have h := matchFact_belowA P hP f c args (fun w' => (w', some .stop)) (fun w' => (w', some .stop))
    (fun _ => Or.inr rfl) (fun _ => WLe.refl _) w
  rcases belowACases h with ⟨w', s, e, hs, hw⟩ | e
  · left
    rw [e]
    refine ⟨w', s, ?_, hs, ?_⟩
    · cases s <;> first | rfl | exact absurd hs hP.stop
    · revert hw
      generalize matchFact (f+1) c args (fun w' => (w', some Sig.stop)) w = r
      obtain ⟨w2, o2⟩ := r
      intro hw
      cases o2 with
      | none => exact hw
      | some s2 => cases s2 <;> exact hw
  · right; rw [e]

theorem retractAllLoop_belowA (P : Sig → Prop) (hP : OofLike P) (f : Nat) (args : List Term) :
    ∀ (cs keep : List Fact) (w : World),
      (∃ w' s, retractAllLoop f args cs keep w = (w', .error s) ∧ P s ∧
          WLe w' (retractAllLoop (f+1) args cs keep w).1) ∨
        retractAllLoop f args cs keep w = retractAllLoop (f+1) args cs keep w := by
  intro cs
  induction cs with
  | nil => intro keep w; right; simp only [retractAllLoop]
  | cons c cs ih =>
    intro keep w
    simp only [retractAllLoop]
    rcases factMatches_belowA P hP f c args w with ⟨w', s, e, hs, hw⟩ | e
    · left; rw [e]
      refine ⟨w', s, rfl, hs, ?_⟩
      revert hw
      generalize factMatches (f+1) c args w = r
      obtain ⟨w2, (s2 | b)⟩ := r
      · intro hw; exact hw
      · intro hw
        cases b
        · exact hw.trans (retractAllLoop_ext _ _ _ _ _)
        · exact hw.trans (retractAllLoop_ext _ _ _ _ _)
    · rw [← e]
      rcases factMatches f c args w with ⟨w', (s | b)⟩
      · right; rfl
      · cases b
        · exact ih _ _
        · exact ih _ _

theorem findallCollect_belowA (P : Sig → Prop) (hP : OofLike P) (f : Nat) (tmpl : Term) :
    KBelowA P (findallCollect f tmpl) (findallCollect (f+1) tmpl) := by
  intro w
  have hR := findallCollect_ext (f+1) tmpl w
  unfold findallCollect at hR ⊢
  cases h : resolve w.b f tmpl with
  | none => exact BelowA.sig w hP.oof hR
  | some v => rw [resolve_mono _ _ _ _ h]; exact Or.inr rfl

/-! ### clause bodies -/

def QBelowA (P : Sig → Prop) (q q' : Q) : Prop := ∀ name args, GenBelowA P (q name args) (q' name args)

theorem exec_belowA (P : Sig → Prop) (hP : OofLike P) (q q' : Q) (hq : QBelowA P q q') (hq' : QExt q') (env : Env) :
    (∀ c, GenBelowA P (exec q env c) (exec q' env c)) ∧ (∀ cs, GenBelowA P (execList q env cs) (execList q' env cs)) := by
  have key : ∀ c, GenBelowA P (exec q env c) (exec q' env c) := by
    intro c
    induction c using Code.rec (motive_2 := fun cs => GenBelowA P (execList q env cs) (execList q' env cs)) with
    | yieldF => intro K1 K2 hK _ w; rw [exec_yieldF, exec_yieldF]; exact hK w
    | yieldT => intro K1 K2 hK _ w; rw [exec_yieldT, exec_yieldT]; exact hK w
    | ret => intro K1 K2 _ _ w; rw [exec_ret, exec_ret]; exact Or.inr rfl
    | brk l => intro K1 K2 _ _ w; rw [exec_brk, exec_brk]; exact Or.inr rfl
    | block l body ih =>
      intro K1 K2 hK hE w
      rw [exec_block, exec_block]
      exact belowA_catchBrk hP (ih K1 K2 hK hE w) l
    | foreach name args body ih =>
      intro K1 K2 hK hE w
      rw [exec_foreach, exec_foreach]
      exact hq name _ _ _ (fun w' => ih K1 K2 hK hE w') (fun w' => (exec_ext q' hq' env).2 body K2 hE w') w
    | nil => intro K1 K2 _ _ w; rw [execList_nil, execList_nil]; exact Or.inr rfl
    | cons c cs ihc ihcs =>
      intro K1 K2 hK hE w
      rw [execList_cons, execList_cons]
      exact belowA_andThen (ihc K1 K2 hK hE w) (fun w' => ihcs K1 K2 hK hE w')
        (fun w' => (exec_ext q' hq' env).2 cs K2 hE w')
  refine ⟨key, ?_⟩
  intro cs
  induction cs with
  | nil => intro K1 K2 _ _ w; rw [execList_nil, execList_nil]; exact Or.inr rfl
  | cons c cs ih =>
    intro K1 K2 hK hE w
    rw [execList_cons, execList_cons]
    exact belowA_andThen (key c K1 K2 hK hE w) (fun w' => ih K1 K2 hK hE w')
      (fun w' => (exec_ext q' hq' env).2 cs K2 hE w')

theorem solve_belowA (P : Sig → Prop) (hP : OofLike P) (q q' : Q) (hq : QBelowA P q q') (hq' : QExt q') (env : Env) :
    ∀ (b : Body) (d : Nat), GenBelowA P (solve q env d b) (solve q' env d b)
  | .tru, d => by intro K1 K2 hK _ w; simp only [solve]; exact hK w
  | .fail, d => by intro K1 K2 _ _ w; simp only [solve]; exact Or.inr rfl
  | .cutif l, d => by intro K1 K2 hK _ w; simp only [solve]; exact hK w
  | .cut, d => by intro K1 K2 hK _ w; simp only [solve]; exact belowA_thenSig (hK w) _
  | .call name args, d => by intro K1 K2 hK hE w; simp only [solve]; exact hq name _ K1 K2 hK hE w
  | .conj a b, d => by
    intro K1 K2 hK hE w
    simp only [solve]
    exact solve_belowA P hP q q' hq hq' env a d _ _ (fun w' => solve_belowA P hP q q' hq hq' env b d K1 K2 hK hE w')
      (fun w' => solve_ext q' hq' env b d K2 hE w') w
  | .disj (.ite c t) e, d => by
    intro K1 K2 hK hE w
    simp only [solve]
    exact belowA_iteR hP
      (solve_belowA P hP q q' hq hq' env c (d+1) _ _
        (fun w' => belowA_thenSig (solve_belowA P hP q q' hq hq' env t d K1 K2 hK hE w') _)
        (fun w' => thenSig_ext _ (solve_ext q' hq' env t d K2 hE w')) w) d
      (fun w' => solve_belowA P hP q q' hq hq' env e d K1 K2 hK hE w')
      (fun w' => solve_ext q' hq' env e d K2 hE w')
  | .disj .tru b, d => by
    intro K1 K2 hK hE w
    rw [solve_disj_eq q env d .tru b K1 w (by intro c t h; cases h), solve_disj_eq q' env d .tru b K2 w (by intro c t h; cases h)]
    exact belowA_andThen (solve_belowA P hP q q' hq hq' env .tru d K1 K2 hK hE w) (fun w' => solve_belowA P hP q q' hq hq' env b d K1 K2 hK hE w')
      (fun w' => solve_ext q' hq' env b d K2 hE w')
  | .disj .fail b, d => by
    intro K1 K2 hK hE w
    rw [solve_disj_eq q env d .fail b K1 w (by intro c t h; cases h), solve_disj_eq q' env d .fail b K2 w (by intro c t h; cases h)]
    exact belowA_andThen (solve_belowA P hP q q' hq hq' env .fail d K1 K2 hK hE w) (fun w' => solve_belowA P hP q q' hq hq' env b d K1 K2 hK hE w')
      (fun w' => solve_ext q' hq' env b d K2 hE w')
  | .disj .cut b, d => by
    intro K1 K2 hK hE w
    rw [solve_disj_eq q env d .cut b K1 w (by intro c t h; cases h), solve_disj_eq q' env d .cut b K2 w (by intro c t h; cases h)]
    exact belowA_andThen (solve_belowA P hP q q' hq hq' env .cut d K1 K2 hK hE w) (fun w' => solve_belowA P hP q q' hq hq' env b d K1 K2 hK hE w')
      (fun w' => solve_ext q' hq' env b d K2 hE w')
  | .disj (.cutif l) b, d => by
    intro K1 K2 hK hE w
    rw [solve_disj_eq q env d (.cutif l) b K1 w (by intro c t h; cases h), solve_disj_eq q' env d (.cutif l) b K2 w (by intro c t h; cases h)]
    exact belowA_andThen (solve_belowA P hP q q' hq hq' env (.cutif l) d K1 K2 hK hE w) (fun w' => solve_belowA P hP q q' hq hq' env b d K1 K2 hK hE w')
      (fun w' => solve_ext q' hq' env b d K2 hE w')
  | .disj (.call nm ar) b, d => by
    intro K1 K2 hK hE w
    rw [solve_disj_eq q env d (.call nm ar) b K1 w (by intro c t h; cases h), solve_disj_eq q' env d (.call nm ar) b K2 w (by intro c t h; cases h)]
    exact belowA_andThen (solve_belowA P hP q q' hq hq' env (.call nm ar) d K1 K2 hK hE w) (fun w' => solve_belowA P hP q q' hq hq' env b d K1 K2 hK hE w')
      (fun w' => solve_ext q' hq' env b d K2 hE w')
  | .disj (.conj a1 a2) b, d => by
    intro K1 K2 hK hE w
    rw [solve_disj_eq q env d (.conj a1 a2) b K1 w (by intro c t h; cases h), solve_disj_eq q' env d (.conj a1 a2) b K2 w (by intro c t h; cases h)]
    exact belowA_andThen (solve_belowA P hP q q' hq hq' env (.conj a1 a2) d K1 K2 hK hE w) (fun w' => solve_belowA P hP q q' hq hq' env b d K1 K2 hK hE w')
      (fun w' => solve_ext q' hq' env b d K2 hE w')
  | .disj (.disj a1 a2) b, d => by
    intro K1 K2 hK hE w
    rw [solve_disj_eq q env d (.disj a1 a2) b K1 w (by intro c t h; cases h), solve_disj_eq q' env d (.disj a1 a2) b K2 w (by intro c t h; cases h)]
    exact belowA_andThen (solve_belowA P hP q q' hq hq' env (.disj a1 a2) d K1 K2 hK hE w) (fun w' => solve_belowA P hP q q' hq hq' env b d K1 K2 hK hE w')
      (fun w' => solve_ext q' hq' env b d K2 hE w')
  | .disj (.neg a1) b, d => by
    intro K1 K2 hK hE w
    rw [solve_disj_eq q env d (.neg a1) b K1 w (by intro c t h; cases h), solve_disj_eq q' env d (.neg a1) b K2 w (by intro c t h; cases h)]
    exact belowA_andThen (solve_belowA P hP q q' hq hq' env (.neg a1) d K1 K2 hK hE w) (fun w' => solve_belowA P hP q q' hq hq' env b d K1 K2 hK hE w')
      (fun w' => solve_ext q' hq' env b d K2 hE w')
  | .ite c t, d => by
    intro K1 K2 hK hE w
    simp only [solve]
    exact belowA_iteR hP
      (solve_belowA P hP q q' hq hq' env c (d+1) _ _
        (fun w' => belowA_thenSig (solve_belowA P hP q q' hq hq' env t d K1 K2 hK hE w') _)
        (fun w' => thenSig_ext _ (solve_ext q' hq' env t d K2 hE w')) w) d
      (fun w' => Or.inr rfl) (fun w' => WLe.refl _)
  | .neg a, d => by
    intro K1 K2 hK hE w
    simp only [solve]
    exact belowA_iteR hP (solve_belowA P hP q q' hq hq' env a (d+1) _ _ (fun w' => Or.inr rfl) (fun w' => WLe.refl _) w) d hK hE

/-! ### clause activation -/

theorem runClauses_belowA {α : Type} (P : Sig → Prop) (run run' : α → Gen)
    (hrun : ∀ c, GenBelowA P (run c) (run' c)) (hrun' : ∀ c, GExt (run' c)) :
    ∀ cs, GenBelowA P (runClauses run cs) (runClauses run' cs) := by
  intro cs
  induction cs with
  | nil => intro K1 K2 _ _ w; simp only [runClauses]; exact Or.inr rfl
  | cons c cs ih =>
    intro K1 K2 hK hE w
    simp only [runClauses]
    exact belowA_andThen (hrun c K1 K2 hK hE w) (fun w' => ih K1 K2 hK hE w')
      (fun w' => runClauses_ext run' hrun' cs K2 hE w')

theorem unifyHead_belowA (P : Sig → Prop) (hP : OofLike P) (fuel : Nat) (env : Env) (args : List Term) (g g' : Gen)
    (hg : GenBelowA P g g') (hg' : GExt g') :
    ∀ us, GenBelowA P (unifyHead fuel env args us g) (unifyHead (fuel+1) env args us g') := by
  intro us
  induction us with
  | nil => simpa [unifyHead] using hg
  | cons u us ih =>
    obtain ⟨i, t⟩ := u
    intro K1 K2 hK hE w
    simp only [unifyHead]
    exact unify_belowA P hP fuel _ _ _ _ (fun w' => ih K1 K2 hK hE w')
      (fun w' => unifyHead_ext (fuel+1) env args g' hg' us K2 hE w') w

theorem runClauseCompiled_belowA (P : Sig → Prop) (hP : OofLike P) (fuel : Nat) (q q' : Q) (hq : QBelowA P q q')
    (hq' : QExt q') (cc : ClauseCode) (args : List Term) :
    GenBelowA P (runClauseCompiled fuel q cc args) (runClauseCompiled (fuel+1) q' cc args) := by
  intro K1 K2 hK hE w
  unfold runClauseCompiled
  simp only
  exact unifyHead_belowA P hP fuel _ args _ _ ((exec_belowA P hP q q' hq hq' _).2 _) ((exec_ext q' hq' _).2 _) _ K1 K2 hK hE _

theorem runClauseRef_belowA (P : Sig → Prop) (hP : OofLike P) (fuel : Nat) (q q' : Q) (hq : QBelowA P q q')
    (hq' : QExt q') (c : Clause) (args : List Term) :
    GenBelowA P (runClauseRef fuel q c args) (runClauseRef (fuel+1) q' c args) := by
  intro K1 K2 hK hE w
  unfold runClauseRef
  simp only
  exact unifyHead_belowA P hP fuel _ args _ _ (solve_belowA P hP q q' hq hq' _ _ 0) (solve_ext q' hq' _ _ 0) _ K1 K2 hK hE _

theorem runClauseRefBody_belowA (P : Sig → Prop) (hP : OofLike P) (fuel : Nat) (q q' : Q) (hq : QBelowA P q q')
    (hq' : QExt q') (cc : ClauseCode) (body : Body) (args : List Term) :
    GenBelowA P (runClauseRefBody fuel q cc body args) (runClauseRefBody (fuel+1) q' cc body args) := by
  intro K1 K2 hK hE w
  unfold runClauseRefBody
  simp only
  exact unifyHead_belowA P hP fuel _ args _ _ (solve_belowA P hP q q' hq hq' _ _ 0) (solve_ext q' hq' _ _ 0) _ K1 K2 hK hE _

theorem onceGen_belowA (P : Sig → Prop) (hP : OofLike P) (g g' : Gen) (hg : GenBelowA (UpP P) g g') :
    GenBelowA P (onceGen g) (onceGen g') := by
  intro K1 K2 hK hE w
  unfold onceGen
  apply belowA_leaveOnce hP
  apply hg
  · intro w'
    exact belowA_thenSig (belowA_wrapK hK w') _
  · intro w'
    exact thenSig_ext _ (wrapK_ext hE w')

/-! ### the engine -/

def AllBelowA (cfg : Cfg) (f : Nat) : Prop :=
  (∀ P, OofLike P → ∀ name args, GenBelowA P (query cfg f name args) (query cfg (f+1) name args)) ∧
  (∀ P, OofLike P → ∀ ds args, GenBelowA P (runChain cfg f ds args) (runChain cfg (f+1) ds args)) ∧
  (∀ P, OofLike P → ∀ d args, GenBelowA P (runDef cfg f d args) (runDef cfg (f+1) d args)) ∧
  (∀ P, OofLike P → ∀ b args, GenBelowA P (runBuiltin cfg f b args) (runBuiltin cfg (f+1) b args)) ∧
  (∀ P, OofLike P → ∀ g extra, GenBelowA P (callGoal cfg f g extra) (callGoal cfg (f+1) g extra))

theorem allBelowA (cfg : Cfg) : ∀ f, AllBelowA cfg f := by
  intro f
  induction f with
  | zero =>
    obtain ⟨eQ, eC, eD, eB, eG⟩ := allExt cfg 1
    refine ⟨?_, ?_, ?_, ?_, ?_⟩ <;> intro P hP <;> intros <;> intro K1 K2 _ hE w
    · rw [query]; exact BelowA.sig w hP.oof (eQ _ _ K2 hE w)
    · rw [runChain]; exact BelowA.sig w hP.oof (eC _ _ K2 hE w)
    · rw [runDef]; exact BelowA.sig w hP.oof (eD _ _ K2 hE w)
    · rw [runBuiltin]; exact BelowA.sig w hP.oof (eB _ _ K2 hE w)
    · rw [callGoal]; exact BelowA.sig w hP.oof (eG _ _ K2 hE w)
  | succ f ih =>
    obtain ⟨ihQ, ihC, ihD, ihB, ihG⟩ := ih
    obtain ⟨eQ, eC, eD, eB, eG⟩ := allExt cfg (f+1)
    obtain ⟨eQ2, eC2, eD2, eB2, eG2⟩ := allExt cfg (f+1+1)
    refine ⟨?_, ?_, ?_, ?_, ?_⟩
    · -- query
      intro P hP name args K1 K2 hK hE w
      rw [query, query]
      refine belowA_andThen (matchDynamic_belowA P hP f name args K1 K2 hK hE w) (fun w' => ?_) (fun w' => ?_)
      · split
        · exact Or.inr rfl
        · split
          · exact Or.inr rfl
          · exact ihC P hP _ args K1 K2 hK hE w'
      · split
        · exact WLe.refl _
        · split
          · exact WLe.refl _
          · exact eC _ args K2 hE w'
    · -- runChain
      intro P hP ds args K1 K2 hK hE w
      cases ds with
      | nil => rw [runChain, runChain]; exact Or.inr rfl
      | cons d ds =>
        rw [runChain, runChain]
        exact belowA_andThen (ihD P hP d args K1 K2 hK hE w) (fun w' => ihC P hP ds args K1 K2 hK hE w')
          (fun w' => eC ds args K2 hE w')
    · -- runDef
      intro P hP d args K1 K2 hK hE w
      cases d with
      | prolog p mode =>
        simp only [runDef]
        have hq : QBelowA (UpP P) (query cfg f) (query cfg (f+1)) := fun name args => ihQ (UpP P) (UpP_ok P) name args
        have hq' : QExt (query cfg (f+1)) := eQ
        cases mode with
        | compiled =>
          simp only
          apply belowA_leaveFrame hP
          exact runClauses_belowA (UpP P) _ _ (fun cc => runClauseCompiled_belowA (UpP P) (UpP_ok P) f _ _ hq hq' cc args)
            (fun cc => runClauseCompiled_ext (f+1) _ hq' cc args) _ _ _ (belowA_wrapK hK) (wrapK_ext hE) w
        | reference =>
          simp only
          apply belowA_leaveFrame hP
          exact runClauses_belowA (UpP P) _ _ (fun c => runClauseRef_belowA (UpP P) (UpP_ok P) f _ _ hq hq' c args)
            (fun c => runClauseRef_ext (f+1) _ hq' c args) _ _ _ (belowA_wrapK hK) (wrapK_ext hE) w
        | refbody =>
          simp only
          apply belowA_leaveFrame hP
          exact runClauses_belowA (UpP P) _ _
            (fun (x : ClauseCode × Clause) => runClauseRefBody_belowA (UpP P) (UpP_ok P) f _ _ hq hq' x.1 x.2.body args)
            (fun (x : ClauseCode × Clause) => runClauseRefBody_ext (f+1) _ hq' x.1 x.2.body args)
            _ _ _ (belowA_wrapK hK) (wrapK_ext hE) w
      | py p => rw [runDef, runDef]; exact runPy_belowA P hP f _ args _ _ K1 K2 hK hE w
      | builtin b => rw [runDef, runDef]; exact ihB P hP b args K1 K2 hK hE w
    · -- runBuiltin
      intro P hP b args K1 K2 hK hE w
      simp only [runBuiltin]
      split
      · -- "="
        exact unify_belowA P hP f _ _ K1 K2 hK hE w
      · -- "\\="
        rename_i a b
        have h := ihQ P hP "=" [a, b] (fun w' => (w', some .stop)) (fun w' => (w', some .stop))
          (fun _ => Or.inr rfl) (fun _ => WLe.refl _) w
        rcases belowACases h with ⟨w', s, e, hs, hw⟩ | e
        · rw [e]
          have hne : s ≠ .stop := fun h => hP.stop (h ▸ hs)
          refine Or.inl ⟨s, ?_, hs, ?_⟩
          · cases s <;> first | rfl | exact absurd rfl hne
          · have : WLe w' (match query cfg (f+1) "=" [a, b] (fun w' => (w', some Sig.stop)) w with
                | (w', some .stop) => (w', none)
                | (w', none) => K2 w'
                | r => r).1 := by
              revert hw
              generalize query cfg (f+1) "=" [a, b] (fun w' => (w', some Sig.stop)) w = r2
              obtain ⟨w2, o2⟩ := r2
              intro hw
              cases o2 with
              | none => exact hw.trans (hE w2)
              | some s2 => cases s2 <;> exact hw
            cases s <;> first | exact this | exact absurd rfl hne
        · rw [← e]
          rcases query cfg f "=" [a, b] (fun w' => (w', some Sig.stop)) w with ⟨w1, o⟩
          cases o with
          | none => exact hK w1
          | some s => cases s <;> exact Or.inr rfl
      · -- call
        exact ihG P hP _ _ K1 K2 hK hE w
      · -- once
        exact onceGen_belowA P hP _ _ (ihG (UpP P) (UpP_ok P) _ _) K1 K2 hK hE w
      · -- findall
        rename_i tmpl g bag
        have h := ihG P hP g [] _ _ (findallCollect_belowA P hP f tmpl) (findallCollect_ext (f+1) tmpl)
          { w with acc := [] :: w.acc }
        rcases belowACases h with ⟨w', s, e, hs, hw⟩ | e
        · rw [e]
          refine Or.inl ⟨s, rfl, hs, ?_⟩
          revert hw
          generalize callGoal cfg (f+1) g [] (findallCollect (f+1) tmpl) { w with acc := [] :: w.acc } = r2
          obtain ⟨w2, o2⟩ := r2
          intro hw
          have hw' : WLe { w' with acc := w'.acc.tail } { w2 with acc := w2.acc.tail } := LevelPre.tail hw
          cases o2 with
          | none => exact hw'.trans (unify_ext (f+1) _ _ K2 hE _)
          | some s2 => exact hw'
        · rw [← e]
          rcases callGoal cfg f g [] (findallCollect f tmpl) { w with acc := [] :: w.acc } with ⟨w1, o⟩
          cases o with
          | none => exact unify_belowA P hP f _ _ K1 K2 hK hE _
          | some s => exact Or.inr rfl
      · -- assertz
        rename_i t
        have hR := eB2 "assertz" [t] K2 hE w
        simp only [runBuiltin] at hR
        rcases factNameArgs_below f w t with e | e
        · rw [e]; exact BelowA.sig w hP.oof hR
        · rw [← e] at hR ⊢
          revert hR
          cases factNameArgs f w t with
          | error s => intro _; exact Or.inr rfl
          | ok na =>
            obtain ⟨name, as⟩ := na
            intro hR
            simp only at hR ⊢
            rcases assertFact_below f name as true w with e' | e'
            · rw [e']; exact BelowA.sig w hP.oof hR
            · rw [← e']
              rcases assertFact f name as true w with ⟨w1, o⟩
              cases o with
              | none => exact hK w1
              | some s => exact Or.inr rfl
      · -- asserta
        rename_i t
        have hR := eB2 "asserta" [t] K2 hE w
        simp only [runBuiltin] at hR
        rcases factNameArgs_below f w t with e | e
        · rw [e]; exact BelowA.sig w hP.oof hR
        · rw [← e] at hR ⊢
          revert hR
          cases factNameArgs f w t with
          | error s => intro _; exact Or.inr rfl
          | ok na =>
            obtain ⟨name, as⟩ := na
            intro hR
            simp only at hR ⊢
            rcases assertFact_below f name as false w with e' | e'
            · rw [e']; exact BelowA.sig w hP.oof hR
            · rw [← e']
              rcases assertFact f name as false w with ⟨w1, o⟩
              cases o with
              | none => exact hK w1
              | some s => exact Or.inr rfl
      · -- retract
        rename_i t
        have hR := eB2 "retract" [t] K2 hE w
        simp only [runBuiltin] at hR
        rcases factNameArgs_below f w t with e | e
        · rw [e]; exact BelowA.sig w hP.oof hR
        · rw [← e]
          cases factNameArgs f w t with
          | error s => exact Or.inr rfl
          | ok na =>
            obtain ⟨name, as⟩ := na
            exact retractLoop_belowA P hP f name as _ K1 K2 hK hE w
      · -- retractall
        rename_i t
        have hR := eB2 "retractall" [t] K2 hE w
        simp only [runBuiltin] at hR
        rcases factNameArgs_below f w t with e | e
        · rw [e]; exact BelowA.sig w hP.oof hR
        · rw [← e]
          cases factNameArgs f w t with
          | error s => exact Or.inr rfl
          | ok na =>
            obtain ⟨name, as⟩ := na
            simp only
            rcases retractAllLoop_belowA P hP f as (w.facts name as.length) [] w with ⟨w', s, e', hs, hw⟩ | e'
            · rw [e']
              refine BelowA.sig w' hs ?_
              revert hw
              generalize retractAllLoop (f+1) as (w.facts name as.length) [] w = r2
              obtain ⟨w2, (s2 | keep)⟩ := r2
              · intro hw; exact hw
              · intro hw
                exact hw.trans (WLe.of_acc (setFacts_acc _ _ _ _).symm (hE _))
            · rw [← e']
              rcases retractAllLoop f as (w.facts name as.length) [] w with ⟨w1, (s | keep)⟩
              · exact Or.inr rfl
              · exact hK _
      · -- wrong number of arguments
        exact Or.inr rfl
    · -- callGoal
      intro P hP g extra K1 K2 hK hE w
      rw [callGoal]
      cases h : walk w.b (f+1) g with
      | none => exact BelowA.sig w hP.oof (eG2 g extra K2 hE w)
      | some a =>
        rw [callGoal, walk_mono _ _ _ _ h]
        cases a with
        | var n => exact Or.inr rfl
        | atom s => exact ihQ P hP _ _ K1 K2 hK hE w
        | int i => exact Or.inr rfl
        | fn name as => exact ihQ P hP _ _ K1 K2 hK hE w

end Yld
