/-
  The answers of the engine against the *logical* reading of the program (C01).

  For the Horn fragment — clause bodies built from `true`, `fail`, `!`, conjunction, disjunction,
  calls to program predicates and `=` — the program has a declarative meaning that does not mention
  search at all: `Holds preds name args`, the least relation closed under the clauses read as
  implications (all instances). The theorems:

  * soundness   — whatever `query` hands to its consumer is a consequence of the program: at every
                  yield, under every solution of the heap, the instantiated goal `Holds`; at the API:
                  every instance of every recorded answer `Holds`;
  * completeness (programs without cut) — a search that runs to its end has found every consequence:
                  if an instance of the goal `Holds`, a consumer that waits for it is triggered, unless
                  the limit cuts the search off.

  STATEMENTS AND DEFINITIONS IN THIS FILE ARE FIXED (see the task description); proofs to be supplied.
-/
import Yld.Model.Api
import Yld.Proofs.UnifyMGU
import Yld.Proofs.ActSem
import Yld.Proofs.Activation
import Yld.Proofs.LgSound
import Yld.Proofs.LgApi
import Yld.Proofs.LgComplete
import Yld.Proofs.LgLoad
import Yld.Proofs.WFPreserved
namespace Yld

/-- a valuation of the variables of a clause -/
abbrev CVal := String → Term

/-- the instance of a source term under a valuation of its variables -/
def STerm.inst (σ : CVal) : STerm → Term
  | .var n => σ n
  | .atom s => .atom s
  | .num n => .int n
  | .fn f args => .fn f (args.attach.map fun ⟨a, _⟩ => a.inst σ)
  | .numfn f args => .fn f (args.attach.map fun ⟨a, _⟩ => a.inst σ)
  | .list items => mkList (items.attach.map fun ⟨a, _⟩ => a.inst σ)
  | .lpair h t => .fn "." [h.inst σ, t.inst σ]

/-- the names the engine predefines (table regenerated from `_set_builtin_predicates`) -/
def builtinNames : List String := Generated.builtins.map (·.1)

/-- a goal name of the Horn fragment: a program predicate, or `=` -/
def userName (name : String) : Bool := name == "=" || !builtinNames.contains name

/-- bodies of the Horn fragment: no if-then-else, no negation, no meta-call or database builtin -/
def Body.horn : Body → Bool
  | .tru | .fail | .cut => true
  | .call name _ => userName name
  | .conj a b => a.horn && b.horn
  | .disj a b => a.horn && b.horn
  | .ite _ _ | .neg _ | .cutif _ => false

def Body.cutFree : Body → Bool
  | .cut => false
  | .conj a b | .disj a b | .ite a b => a.cutFree && b.cutFree
  | .neg a => a.cutFree
  | _ => true

mutual
/-- **The declarative meaning of the program**: the goals that follow from the clauses read as
    implications, in all their instances. `=` is identity. Search order, cut and depth play no part. -/
inductive Holds (preds : List Pred) : String → List Term → Prop
  | eq (a : Term) : Holds preds "=" [a, a]
  | clause (p : Pred) (c : Clause) (σ : CVal) : p ∈ preds → c ∈ p.clauses →
      BHolds preds σ c.body → Holds preds p.name (c.head.map (STerm.inst σ))
/-- a body is true under a valuation of the clause's variables -/
inductive BHolds (preds : List Pred) : CVal → Body → Prop
  | tru (σ : CVal) : BHolds preds σ .tru
  | cut (σ : CVal) : BHolds preds σ .cut
  | call (σ : CVal) (name : String) (args : List STerm) :
      Holds preds name (args.map (STerm.inst σ)) → BHolds preds σ (.call name args)
  | conj (σ : CVal) (a b : Body) : BHolds preds σ a → BHolds preds σ b → BHolds preds σ (.conj a b)
  | disjL (σ : CVal) (a b : Body) : BHolds preds σ a → BHolds preds σ (.disj a b)
  | disjR (σ : CVal) (a b : Body) : BHolds preds σ b → BHolds preds σ (.disj a b)
end

/-- The definition table consists of the builtins and the Horn program `preds`, loaded for the
    reference semantics (what `Engine.load .reference` produces from a Horn program). -/
structure HornCfg (cfg : Cfg) (preds : List Pred) : Prop where
  user : ∀ p ∈ preds, cfg.defs.get (predKey p.name p.arity) = some [.prolog p .reference]
  only : ∀ name n ds, userName name = true →
      ((cfg.defs.get (predKey name n)).orElse (fun _ => cfg.defs.get (variadicKey name))) = some ds →
      (name = "=" ∧ n = 2 ∧ ds = [.builtin "="]) ∨ ∃ p ∈ preds, p.name = name ∧ p.arity = n ∧ ds = [.prolog p .reference]
  shape : ∀ p ∈ preds, userName p.name = true ∧ p.name ≠ "=" ∧
      ∀ c ∈ p.clauses, c.head.length = p.arity ∧ c.body.horn = true
  visible : ∀ p ∈ preds, cfg.blacklist.contains p.name = false
  eqVisible : cfg.blacklist.contains "=" = false ∧ cfg.defs.get (predKey "=" 2) = some [.builtin "="]

/-- A consumer that leaves bindings, store and allocation counter as a generator expects: it undoes
    what it binds, does not touch the fact store, does not give back cells. -/
structure Quiet (k : K) : Prop where
  b : ∀ w, (k w).1.b = w.b
  db : ∀ w, (k w).1.db = w.db
  next : ∀ w, w.next ≤ (k w).1.next

/-- the world is within its allocation counter: bound cells and the cells their values mention -/
def World.Scoped (w : World) : Prop := ∀ x u, w.b x = some u → x < w.next ∧ ∀ y ∈ u.vars, y < w.next

/-- at this world the goal is a consequence of the program under every solution of the heap -/
def GoalHolds (preds : List Pred) (name : String) (args : List Term) (w' : World) : Prop :=
  ∀ θ, Solves θ w'.b → Holds preds name (args.map (Term.subst θ))


/-! ### The bridge to the development in `Yld.Proofs.Lg*`

The proofs are in `LgBase` (vocabulary), `LgPass` (what a Horn goal runs; quiet consumers stay quiet),
`LgSound` (soundness for an abstract meaning of goals), `LgApi` (the recorded answers), `LgComplete`
(completeness for a ranked meaning of goals), `LgLoad` (the definition table after a load). Those files
cannot mention `Holds` (this file imports them), so they are stated for a parameter; here the
parameter is instantiated. -/

theorem horn_eq_hornBy : ∀ b : Body, b.horn = Lg.hornBy userName b
  | .tru | .fail | .cut | .call _ _ | .ite _ _ | .neg _ | .cutif _ => rfl
  | .conj a b => by simp only [Body.horn, Lg.hornBy, horn_eq_hornBy a, horn_eq_hornBy b]
  | .disj a b => by simp only [Body.horn, Lg.hornBy, horn_eq_hornBy a, horn_eq_hornBy b]

theorem HornCfg.hc {cfg : Cfg} {preds : List Pred} (h : HornCfg cfg preds) : Lg.HC userName cfg preds :=
  ⟨h.user, h.only, fun p hp => ⟨(h.shape p hp).1, (h.shape p hp).2.1, fun c hc =>
    ⟨((h.shape p hp).2.2 c hc).1, by rw [← horn_eq_hornBy]; exact ((h.shape p hp).2.2 c hc).2⟩⟩, h.visible, h.eqVisible⟩

theorem inst_isInst (σ : CVal) : Lg.IsInst (STerm.inst σ) where
  atom s := by simp only [STerm.inst]
  num n := by simp only [STerm.inst]
  fn f args := by simp [STerm.inst]
  numfn f args := by simp [STerm.inst]
  list items := by simp [STerm.inst]
  lpair h t := by simp only [STerm.inst]

/-- an instance function is the instance under the valuation it induces -/
theorem isInst_eq_inst {ι : STerm → Term} (h : Lg.IsInst ι) (t : STerm) : ι t = t.inst (fun v => ι (.var v)) :=
  Lg.IsInst.ext h (inst_isInst _) t (fun v _ => by simp only [STerm.inst])

theorem bholds_of_bsem (preds : List Pred) {ι : STerm → Term} (h : Lg.IsInst ι) :
    ∀ b : Body, Lg.bsem (Holds preds) ι b → BHolds preds (fun v => ι (.var v)) b
  | .tru, _ => .tru _
  | .cut, _ => .cut _
  | .call name args, x => by
    refine .call _ name args ?_
    have e : args.map (STerm.inst fun v => ι (.var v)) = args.map ι :=
      List.map_congr_left (fun t _ => (isInst_eq_inst h t).symm)
    rw [e]; exact x
  | .conj a b, x => .conj _ a b (bholds_of_bsem preds h a x.1) (bholds_of_bsem preds h b x.2)
  | .disj a b, x => x.elim (fun y => .disjL _ a b (bholds_of_bsem preds h a y)) (fun y => .disjR _ a b (bholds_of_bsem preds h b y))
  | .fail, x => x.elim
  | .ite _ _, x => x.elim
  | .neg _, x => x.elim
  | .cutif _, x => x.elim

/-- `Holds` is closed under `=` and under the clauses -/
theorem sem_holds (preds : List Pred) : Lg.Sem preds (Holds preds) where
  eq a := .eq a
  clause p hp c hc ι hι hb := by
    have e : c.head.map ι = c.head.map (STerm.inst fun v => ι (.var v)) :=
      List.map_congr_left (fun t _ => isInst_eq_inst hι t)
    rw [e]
    exact .clause p c _ hp hc (bholds_of_bsem preds hι c.body hb)

theorem Quiet.qk {k : K} (h : Quiet k) : Lg.QK False k := ⟨h.b, h.db, h.next, False.elim⟩

/-- **Soundness, at the generator level.** With no dynamic facts, `query` for a goal of the Horn
    fragment calls its consumer only in worlds where the goal `Holds` under every solution of the
    heap: two (quiet) consumers that agree on such worlds give the same run. Every fuel. -/
theorem query_sound (cfg : Cfg) (preds : List Pred) (h : HornCfg cfg preds) (f : Nat) (name : String) (args : List Term)
    (hname : userName name = true) (w : World) (hdb : w.db = []) (hsc : w.Scoped) (hargs : ∀ t ∈ args, ∀ x ∈ t.vars, x < w.next)
    (k1 k2 : K) (hq1 : Quiet k1) (hq2 : Quiet k2)
    (hk : ∀ w', GoalHolds preds name args w' → k1 w' = k2 w') :
    query cfg f name args k1 w = query cfg f name args k2 w :=
  Lg.query_sound_all h.hc (sem_holds preds) False f name hname args w ⟨hdb, hsc, False.elim⟩ hargs k1 k2 hq1.qk hq2.qk
    (fun w' hw' => hk w' hw'.2)

/-- **Soundness, at the API.** Every recorded answer of a query against a Horn program is a consequence
    of the program in all its instances (`ρ` instantiates the variables the answer leaves open). -/
theorem answers_are_consequences (e : Engine) (hwf : e.WF) (preds : List Pred)
    (h : HornCfg { blacklist := e.blacklist, defs := e.defs, mode := .reference } preds) (hdb : e.w.db = [])
    (f : Nat) (name : String) (args : List Term) (hname : userName name = true) (hargs : ArgsScoped e args) (sched : Sched)
    (hc : (e.query .reference f name args sched).2.cyc = false) :
    ∀ ans ∈ (e.query .reference f name args sched).2.answers,
      ∃ ts, ans = .fn "$ans" ts ∧ ∀ ρ : Nat → Term, Holds preds name (ts.map (Term.subst ρ)) := by
  have hg : Lg.Good True { e.w with acc := [] :: e.w.acc, cyc := false } :=
    ⟨hdb, hwf.inScope, fun _ _ => hwf.solvable⟩
  intro ans hans
  unfold Engine.query at hc hans
  simp only [Bool.false_eq_true, if_false] at hc hans
  cases sched with
  | all => exact Lg.answers_sound h.hc (sem_holds preds) f hname args .all _ hg hargs rfl hc ans hans
  | stop k =>
    cases k with
    | zero => simp at hans
    | succ k => exact Lg.answers_sound h.hc (sem_holds preds) f hname args (.stop (k+1)) _ hg hargs rfl hc ans hans
  | raise k =>
    cases k with
    | zero => simp at hans
    | succ k => exact Lg.answers_sound h.hc (sem_holds preds) f hname args (.raise (k+1)) _ hg hargs rfl hc ans hans


theorem cutFree_eq_nocut : ∀ b : Body, b.cutFree = Lg.nocut b
  | .tru | .fail | .cut | .call _ _ | .cutif _ => rfl
  | .conj a b => by simp only [Body.cutFree, Lg.nocut, cutFree_eq_nocut a, cutFree_eq_nocut b]
  | .disj a b => by simp only [Body.cutFree, Lg.nocut, cutFree_eq_nocut a, cutFree_eq_nocut b]
  | .ite a b => by simp only [Body.cutFree, Lg.nocut, cutFree_eq_nocut a, cutFree_eq_nocut b]
  | .neg a => by simp only [Body.cutFree, Lg.nocut, cutFree_eq_nocut a]

/-- a derivation has a height -/
theorem holds_hn (preds : List Pred) {name : String} {args : List Term} (h : Holds preds name args) :
    ∃ r, Lg.HN preds r name args := by
  refine Holds.rec (motive_1 := fun name args _ => ∃ r, Lg.HN preds r name args)
    (motive_2 := fun σ b _ => ∃ r, Lg.bsem (Lg.HN preds r) (STerm.inst σ) b)
    ?_ ?_ ?_ ?_ ?_ ?_ ?_ ?_ h
  · intro a; exact ⟨1, Or.inl ⟨rfl, a, rfl⟩⟩
  · intro p c σ hp hc _ ⟨r, hr⟩
    exact ⟨r+1, Or.inr ⟨p, hp, c, hc, STerm.inst σ, inst_isInst σ, rfl, rfl, hr⟩⟩
  · intro σ; exact ⟨0, trivial⟩
  · intro σ; exact ⟨0, trivial⟩
  · intro σ name args _ ⟨r, hr⟩; exact ⟨r, hr⟩
  · intro σ a b _ _ ⟨r1, h1⟩ ⟨r2, h2⟩
    exact ⟨max r1 r2, Lg.bsem_mono (Lg.HN_mono preds (Nat.le_max_left _ _)) _ a h1,
      Lg.bsem_mono (Lg.HN_mono preds (Nat.le_max_right _ _)) _ b h2⟩
  · intro σ a b _ ⟨r, hr⟩; exact ⟨r, Or.inl hr⟩
  · intro σ a b _ ⟨r, hr⟩; exact ⟨r, Or.inr hr⟩

/-- the consumer that waits for the instance `θ` of the goal: it stops the search as soon as the heap
    admits a solution that is `θ` on the cells that existed when the query started -/
noncomputable def waitFor (θ : Nat → Term) (n : Nat) : K := fun w' =>
  open Classical in
  if ∃ θ', (∀ x, x < n → θ' x = θ x) ∧ Solves θ' w'.b then (w', some .stop) else (w', none)

/-- **Completeness (no cut).** If an instance `θ` of the goal is a consequence of the program, the
    search does not end without having reached it: the waiting consumer is triggered, or the limit
    cuts the search off — the run does not end normally. Every fuel. -/
theorem query_complete (cfg : Cfg) (preds : List Pred) (h : HornCfg cfg preds)
    (hnocut : ∀ p ∈ preds, ∀ c ∈ p.clauses, c.body.cutFree = true)
    (f : Nat) (name : String) (args : List Term) (hname : userName name = true)
    (w : World) (hdb : w.db = []) (hsc : w.Scoped) (hargs : ∀ t ∈ args, ∀ x ∈ t.vars, x < w.next)
    (θ : Nat → Term) (hθ : Solves θ w.b) (hh : Holds preds name (args.map (Term.subst θ))) :
    (query cfg f name args (waitFor θ w.next) w).2 ≠ none := by
  obtain ⟨r, hr⟩ := holds_hn preds hh
  have hw : Lg.Waits θ w.next (waitFor θ w.next) := by
    have e : ∀ w', (waitFor θ w.next w').1 = w' := by
      intro w'; unfold waitFor; split <;> rfl
    refine ⟨⟨fun w' => by rw [e], fun w' => by rw [e], fun w' => by rw [e]; exact Nat.le_refl _, False.elim⟩, ?_⟩
    intro w' _ _ hex
    unfold waitFor
    rw [if_pos hex]
    simp
  exact Lg.query_complete_all h.hc (fun p hp c hc => by rw [← cutFree_eq_nocut]; exact hnocut p hp c hc) r f name hname
    args w θ _ ⟨hdb, hsc, False.elim⟩ hargs hθ hr hw

/-- What `Engine.load .reference` makes of a Horn program is a `HornCfg`. -/
theorem hornCfg_of_load (cs : List SClause)
    (hcs : ∀ c ∈ cs, userName c.name = true ∧ c.name ≠ "=" ∧ c.clause.body.horn = true ∧
                     defaultBlacklist.contains c.name = false) :
    HornCfg { blacklist := ({} : Engine).blacklist, defs := (({} : Engine).load .reference cs true).defs, mode := .reference }
      (groupClauses cs) := by
  have hU : ∀ b ∈ Generated.builtins.map (·.1), userName b = true → b = "=" := by
    intro b hb hu
    unfold userName builtinNames at hu
    have hc : (Generated.builtins.map (·.1)).contains b = true := List.contains_iff_mem.mpr hb
    rw [hc] at hu
    simpa using hu
  have hc := Lg.hc_of_load hU cs (fun c hc => ⟨(hcs c hc).1, (hcs c hc).2.1,
    by rw [← horn_eq_hornBy]; exact (hcs c hc).2.2.1, (hcs c hc).2.2.2⟩)
  exact ⟨hc.user, hc.only, fun p hp => ⟨(hc.shape p hp).1, (hc.shape p hp).2.1, fun c hcm =>
    ⟨((hc.shape p hp).2.2 c hcm).1, by rw [horn_eq_hornBy]; exact ((hc.shape p hp).2.2 c hcm).2⟩⟩,
    hc.visible, hc.eqVisible⟩


/-! ### Non-vacuity: a concrete program

`app([],L,L).  app([H|T],L,[H|R]) :- app(T,L,R).` loaded into the engine as constructed. The hypotheses
of the three theorems are satisfiable together: the definition table is a `HornCfg` (by
`hornCfg_of_load`), `app([a],[],[a])` has a derivation, and for the goal `app(X,Y,[a])` (cells 0 and 1)
soundness and completeness apply. -/

def appClause1 : Clause := { head := [.list [], .var "L", .var "L"], body := .tru }
def appClause2 : Clause :=
  { head := [.lpair (.var "H") (.var "T"), .var "L", .lpair (.var "H") (.var "R")],
    body := .call "app" [.var "T", .var "L", .var "R"] }
def appProg : List SClause := [{ name := "app", clause := appClause1 }, { name := "app", clause := appClause2 }]
def appPred : Pred := { name := "app", arity := 3, clauses := [appClause1, appClause2] }
def appEngine : Engine := ({} : Engine).load .reference appProg true
def appCfg : Cfg := { blacklist := appEngine.blacklist, defs := appEngine.defs, mode := .reference }

theorem appProg_groups : groupClauses appProg = [appPred] := by
  simp [groupClauses, appProg, appPred, appClause1, appClause2]

theorem appProg_ok : ∀ c ∈ appProg, userName c.name = true ∧ c.name ≠ "=" ∧ c.clause.body.horn = true ∧
    defaultBlacklist.contains c.name = false := by decide

theorem app_hornCfg : HornCfg appCfg [appPred] := appProg_groups ▸ hornCfg_of_load appProg appProg_ok

theorem app_nocut : ∀ p ∈ [appPred], ∀ c ∈ p.clauses, c.body.cutFree = true := by decide

/-- `app([a],[],[a])` is a consequence of the program: the second clause with `H = a, T = L = R = []`,
    then the first with `L = []` -/
theorem app_holds : Holds [appPred] "app" [mkList [.atom "a"], .atom "[]", mkList [.atom "a"]] := by
  have h1 : Holds [appPred] "app" (appClause1.head.map (STerm.inst fun _ => .atom "[]")) :=
    .clause appPred appClause1 _ (by simp) (by simp [appPred]) (.tru _)
  have h2 : Holds [appPred] "app"
      (appClause2.head.map (STerm.inst fun v => if v = "H" then .atom "a" else .atom "[]")) := by
    refine .clause appPred appClause2 _ (by simp) (by simp [appPred]) (.call _ _ _ ?_)
    simpa [appClause1, STerm.inst, mkList] using h1
  simpa [appClause2, STerm.inst, mkList] using h2

/-- the goal `app(X, Y, [a])`, `X` and `Y` the cells 0 and 1 of a world with two cells and nothing bound -/
def appGoal : List Term := [.var 0, .var 1, mkList [.atom "a"]]
def appWorld : World := { next := 2 }
/-- the instance `X = [a], Y = []` -/
def appθ : Nat → Term := fun x => if x = 0 then mkList [.atom "a"] else .atom "[]"

theorem appWorld_scoped : appWorld.Scoped := fun x u h => by cases h
theorem appGoal_scoped : ∀ t ∈ appGoal, ∀ x ∈ t.vars, x < appWorld.next := by
  simp [appGoal, appWorld, Term.vars, mkList]
theorem appθ_solves : Solves appθ appWorld.b := fun x u h => by cases h
theorem appGoal_holds : Holds [appPred] "app" (appGoal.map (Term.subst appθ)) := by
  simpa [appGoal, appθ, Term.subst, mkList] using app_holds

/-- soundness applies to the concrete program and goal -/
example (f : Nat) (k1 k2 : K) (hq1 : Quiet k1) (hq2 : Quiet k2)
    (hk : ∀ w', GoalHolds [appPred] "app" appGoal w' → k1 w' = k2 w') :
    query appCfg f "app" appGoal k1 appWorld = query appCfg f "app" appGoal k2 appWorld :=
  query_sound appCfg [appPred] app_hornCfg f "app" appGoal (by decide) appWorld rfl appWorld_scoped appGoal_scoped
    k1 k2 hq1 hq2 hk

/-- completeness applies: the search for `app(X,Y,[a])` does not end normally without having
    reached `X = [a], Y = []` -/
example (f : Nat) : (query appCfg f "app" appGoal (waitFor appθ appWorld.next) appWorld).2 ≠ none :=
  query_complete appCfg [appPred] app_hornCfg app_nocut f "app" appGoal (by decide) appWorld rfl appWorld_scoped
    appGoal_scoped appθ appθ_solves appGoal_holds

/-- … and through the API: every recorded answer of `app(X,Y,[a])` is a consequence in all its instances -/
example (f : Nat) (sched : Sched) (hc : (appEngine.query .reference f "app" appGoal sched).2.cyc = false) :
    ∀ ans ∈ (appEngine.query .reference f "app" appGoal sched).2.answers,
      ∃ ts, ans = .fn "$ans" ts ∧ ∀ ρ : Nat → Term, Holds [appPred] "app" (ts.map (Term.subst ρ)) :=
  answers_are_consequences appEngine (wf_load _ Engine.WF.default _ _ _) [appPred] app_hornCfg rfl f "app" appGoal
    (by decide) (by simp [ArgsScoped, appGoal, appEngine, Engine.load, Term.vars, mkList]) sched hc

#print axioms query_sound
#print axioms answers_are_consequences
#print axioms query_complete
#print axioms hornCfg_of_load

end Yld
